#!/bin/sh
# Offline setup: clean full .vo build of the Coq development, extraction + OCaml driver, harness and server warm-up.
set -e
cd "$(dirname "$0")"
python3 tools/gen_fragments.py > /dev/null
python3 tools/gen_guards.py > /dev/null
python3 tools/gen_skel.py > /dev/null
python3 tools/gen_emit.py > /dev/null
python3 tools/gen_loops.py > /dev/null
python3 tools/gen_optimize.py > /dev/null
python3 tools/gen_loader_guards.py > /dev/null
python3 tools/gen_handler_guards.py > /dev/null
python3 tools/gen_param_guards.py > /dev/null
python3 tools/gen_render.py > /dev/null
python3 tools/gen_geo.py > /dev/null
python3 tools/gen_osrm.py > /dev/null
python3 tools/gen_scenario.py > /dev/null
python3 tools/gen_coll_loaders.py > /dev/null
cd coq
rm -f Makefile Makefile.conf .Makefile.d
coq_makefile -f _CoqProject -o Makefile > /dev/null
timeout 3000 make -j16 > ../.setup_coq.log 2>&1 || { tail -50 ../.setup_coq.log; exit 1; }
cd ..
python3 tools/build.py
python3 tools/l3.py build
