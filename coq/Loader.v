(* Loader.v — decoded-message model of the cache loaders that matter for C16/C17:
   per-stop files -> forward and reverse footpath lists (nodes_cache_fetcher.cpp:107-171),
   per-line files -> trips and connections (trips_and_connections_cache_fetcher.cpp:44-137),
   load orchestration and data status (transit_data.cpp:45-77, 262-343; main recomputes the status from
   the collection sizes), and the data_error fast path of the endpoints.
   Byte level: a file is Missing | Unreadable | Garbled (decoder threw after a prefix) | Decoded msg, with
   msg an ARBITRARY well-typed message (Cap'n Proto's contract for untrusted input: trusted). *)
From TrV Require Export Server.
Local Open Scope Z_scope.

Inductive fstate (A : Type) :=
| FMissing                      (* ENOENT *)
| FUnreadable                   (* open() failed otherwise *)
| FGarbled (prefix : A)         (* kj::Exception after the entries of `prefix` were consumed *)
| FDecoded (a : A).
Arguments FMissing {A}.
Arguments FUnreadable {A}.
Arguments FGarbled {A} prefix.
Arguments FDecoded {A} a.

(* uuid texts: None = not a uuid (boost's string_generator throws std::runtime_error) *)
Definition uref := option nat.

(* ---- per-stop files ---------------------------------------------------------------------------- *)
Record fp_msg := { fm_node : uref; fm_time : Z; fm_dist : Z }.

Inductive node_load := NLOk (fp : list (nat * list fprow)) (rfp : list (nat * list fprow))
                     | NLBadMsg          (* kj::Exception in a stop file: -EBADMSG, loading stops *)
                     | NLInvalid.        (* any other exception: -EINVAL *)

(* rows of one stop file: an unparsable uuid throws; then entries naming unknown stops are skipped; then (D15 repair,
   nodes_cache_fetcher.cpp:156-160) entries with a negative walking time are skipped the same way: neither the forward
   list nor the reverse list gets the row *)
Fixpoint node_rows (known : list nat) (l : list fp_msg) : option (list fprow) :=
  match l with
  | [] => Some []
  | m :: r =>
      match fm_node m with
      | None => None
      | Some n =>
          match node_rows known r with
          | None => None
          | Some rows => Some (if memb n known && (0 <=? fm_time m)
                               then {| fp_node := n; fp_time := fm_time m; fp_dist := fm_dist m |} :: rows else rows)
          end
      end
  end.

Definition app_at (m : list (nat * list fprow)) (k : nat) (rows : list fprow) : list (nat * list fprow) :=
  map (fun e => if Nat.eqb (fst e) k then (fst e, snd e ++ rows) else e) m.

(* stops are visited in uuid order; visiting t appends (t, w, d) to the reverse list of every target of
   t's rows, then one more (t, 0, 0) to t's own reverse list *)
Fixpoint load_node_files (known : list nat) (todo : list nat) (files : nat -> fstate (list fp_msg))
         (fp rfp : list (nat * list fprow)) : node_load :=
  match todo with
  | [] => NLOk fp rfp
  | t :: rest =>
      match files t with
      | FMissing | FUnreadable => load_node_files known rest files fp rfp      (* `continue` *)
      | FGarbled _ => NLBadMsg
      | FDecoded msg =>
          match node_rows known msg with
          | None => NLInvalid
          | Some rows =>
              let rfp1 := fold_left (fun m r => app_at m (fp_node r) [{| fp_node := t; fp_time := fp_time r; fp_dist := fp_dist r |}]) rows rfp in
              let rfp2 := app_at rfp1 t [{| fp_node := t; fp_time := 0; fp_dist := 0 |}] in
              load_node_files known rest files (app_at fp t rows) rfp2
          end
      end
  end.

Definition load_nodes (nodes : list nat) (files : nat -> fstate (list fp_msg)) : node_load :=
  let empty := map (fun n => (n, [])) nodes in
  load_node_files nodes nodes files empty empty.

(* the reverse lists the loader derives from healthy stop files holding the forward lists fp *)
Definition derive_rfp (nodes : list nat) (fp : nat -> list fprow) (n : nat) : list fprow :=
  flat_map (fun t =>
    flat_map (fun r => if Nat.eqb (fp_node r) n then [{| fp_node := t; fp_time := fp_time r; fp_dist := fp_dist r |}] else []) (fp t)
    ++ (if Nat.eqb t n then [{| fp_node := t; fp_time := 0; fp_dist := 0 |}] else [])) nodes.

(* ---- per-line files ---------------------------------------------------------------------------- *)
Record trip_msg := { tm_id : uref; tm_path : uref;
                     tm_arr : list Z; tm_dep : list Z; tm_cb : list Z; tm_cu : list Z }.
Record sched_msg := { sm_service : uref; sm_trips : list trip_msg }.

(* outcome of reading one line file: the trips loaded so far are kept in every case *)
Inductive line_load := LLOk (ts : list trip) | LLStopped (ts : list trip) (* exception: rest of the file skipped *)
                     | LLCrash (* exception escaping the loader: terminate *) | LLUB (* index past the end *).

Fixpoint zip_times (arr dep cb cu : list Z) : list stoptime :=
  match arr, dep, cb, cu with
  | a :: ar, d :: dr, b :: br, u :: ur =>
      {| st_arr := a; st_dep := d; st_cb := (b =? 1); st_cu := (u =? 1) |} :: zip_times ar dr br ur
  | _, _, _, _ => []
  end.

(* the stop-time check of the D13 repair (trips_and_connections_cache_fetcher.cpp:105-127): with n stop times, for
   every i with i + 1 < n (the loop `for (i = 0; i + 1 < n; i++)`, left at the first failure), the trip is refused when
   dep[i] < 0, or arr[i+1] < dep[i], or (i > 0 and dep[i] < arr[i]).  arr[0] and dep[n-1] are not looked at.
   The indices are in range when the count check has passed (nth's default is never read then). *)
Definition time_step_bad (arr dep : list Z) (i : nat) : bool :=
  (nth i dep 0 <? 0) || (nth (S i) arr 0 <? nth i dep 0) || (negb (Nat.eqb i 0) && (nth i dep 0 <? nth i arr 0)).
Definition trip_times_in_order (arr dep : list Z) (n : nat) : bool :=
  forallb (fun i => negb (time_step_bad arr dep i)) (seq 0 (n - 1)).

(* one trip (trips_and_connections_cache_fetcher.cpp, after the D5 and D13 repairs): unknown path, a stop-time
   count that does not fit the path or the other arrays, or stop times that go backwards -> the trip is skipped *)
Definition load_trip (paths : list path) (service : nat) (m : trip_msg) : option (option trip) :=
  match tm_id m, tm_path m with
  | Some tid, Some pid =>
      match find (fun p => Nat.eqb (p_id p) pid) paths with
      | None => Some None
      | Some p =>
          let n := length (tm_arr m) in
          if Nat.ltb n 2 || Nat.ltb (length (p_nodes p)) n || Nat.ltb (length (tm_dep m)) n
             || Nat.ltb (length (tm_cb m)) n || Nat.ltb (length (tm_cu m)) n
          then Some None
          else if negb (trip_times_in_order (tm_arr m) (tm_dep m) n)
          then Some None
          else Some (Some {| t_id := tid; t_path := pid; t_service := service;
                             t_times := zip_times (tm_arr m) (firstn n (tm_dep m)) (firstn n (tm_cb m)) (firstn n (tm_cu m)) |})
      end
  | _, _ => None      (* unparsable uuid text: std::runtime_error, caught: rest of the file skipped *)
  end.

Fixpoint load_trips (paths : list path) (service : nat) (l : list trip_msg) (acc : list trip) : list trip * bool :=
  match l with
  | [] => (acc, true)
  | m :: r =>
      match load_trip paths service m with
      | None => (acc, false)
      | Some None => load_trips paths service r acc
      | Some (Some t) => load_trips paths service r (acc ++ [t])
      end
  end.

Fixpoint load_scheds (paths : list path) (services : list nat) (l : list sched_msg) (acc : list trip) : list trip * bool :=
  match l with
  | [] => (acc, true)
  | s :: r =>
      match sm_service s with
      | None => (acc, false)
      | Some sv =>
          if memb sv services then
            let '(acc1, ok) := load_trips paths sv (sm_trips s) acc in
            if ok then load_scheds paths services r acc1 else (acc1, false)
          else load_scheds paths services r acc            (* unknown service: the schedule is skipped *)
      end
  end.

Definition load_line_file (paths : list path) (services : list nat) (f : fstate (list sched_msg)) : list trip :=
  match f with
  | FMissing | FUnreadable => []
  | FGarbled pre => fst (load_scheds paths services pre [])
  | FDecoded msg => fst (load_scheds paths services msg [])
  end.

Definition load_schedules (lines : list line) (paths : list path) (services : list nat)
           (files : nat -> fstate (list sched_msg)) : list trip :=
  flat_map (fun l => load_line_file paths services (files (l_id l))) lines.

(* ---- data status (transit_data.cpp:45-77); enum DataStatus of transit_data.hpp ------------------ *)
Definition ST_READY : nat := 0.
Definition ST_NO_AGENCIES : nat := 2.
Definition ST_NO_LINES : nat := 3.
Definition ST_NO_PATHS : nat := 4.
Definition ST_NO_SERVICES : nat := 5.
Definition ST_NO_SCENARIOS : nat := 6.
Definition ST_NO_SCHEDULES : nat := 7.
Definition ST_NO_NODES : nat := 8.

Record sizes := { z_agencies : nat; z_services : nat; z_nodes : nat; z_lines : nat; z_paths : nat;
                  z_scenarios : nat; z_trips : nat }.

Definition data_status (z : sizes) : nat :=
  if Nat.eqb (z_agencies z) 0 then ST_NO_AGENCIES
  else if Nat.eqb (z_services z) 0 then ST_NO_SERVICES
  else if Nat.eqb (z_nodes z) 0 then ST_NO_NODES
  else if Nat.eqb (z_lines z) 0 then ST_NO_LINES
  else if Nat.eqb (z_paths z) 0 then ST_NO_PATHS
  else if Nat.eqb (z_scenarios z) 0 then ST_NO_SCENARIOS
  else if Nat.eqb (z_trips z) 0 then ST_NO_SCHEDULES
  else ST_READY.

(* the dataset the schedule loader produces from healthy files that encode d *)
Definition encode_trip (t : trip) : trip_msg :=
  {| tm_id := Some (t_id t); tm_path := Some (t_path t);
     tm_arr := map st_arr (t_times t); tm_dep := map st_dep (t_times t);
     tm_cb := map (fun s => if st_cb s then 1 else 0) (t_times t);
     tm_cu := map (fun s => if st_cu s then 1 else 0) (t_times t) |}.

(* one schedule per trip (the loader does not mind several schedules naming one service) *)
Definition encode_line_file (d : data) (l : nat) : list sched_msg :=
  map (fun t => {| sm_service := Some (t_service t); sm_trips := [encode_trip t] |})
      (filter (fun t => Nat.eqb (trip_line d t) l) (d_trips d)).
