(* OsrmCode.v — the body of OsrmGeoFilter::getAccessibleNodesFootpathsFromPoint AFTER the bird-distance pre-filter
   (src/osrmgeofilter.cpp) as a STATEMENT TREE with an interpreter over Osrm.v's `exchange` / `json`.  The tree itself is
   read from the source AS IT IS NOW by tools/gen_osrm.py (gen/OsrmReply.v); Proofs/OsrmTie.v proves
   `osrm_rows = run_reply gen_osrm_reply` and the structural facts of C20_reply_frame_is_code.

   WHAT THE TREE SAYS: which statements are inside the `try`, what each `return` returns, what the `catch` catches, where
   the parse is, the null tests as a conjunction in source order with the JSON paths they test, the size reads, the loop
   (first index, comparison, bound, the reads with their paths and conversions, the guard, what is pushed, the index into
   the candidate vector), the parts appended to the query string.

   WHAT THE INTERPRETER MEANS
   * one exchange with the walking router is the parameter `x` (Osrm.exchange): `client.request` throws on XThrow,
     otherwise the status line and the body are those of x; `nlohmann::json::parse` throws when the body is not JSON
     (or when the stream was never filled);
   * JSON reads are Osrm.v's `jget` / `jidx` (the NON-const operator[] of nlohmann: a missing key / an index past the end
     reads as null, a wrong type throws) and `jsize`, `jfloat_ceil`; a throw is a C++ exception in flight: it is caught by an
     enclosing `try` whose handler catches std::exception (or everything), and reaches the caller as `Exn 3` otherwise.
     The INSERTION the non-const operator[] performs is not tracked (reads are pure): it would be visible only through a
     `size()` read after an indexed read past the end, and `sizes_before_indexed_reads` (OsrmTie.v) shows there is none;
   * `a && b` evaluates b only when a holds (so a throwing b is not evaluated after a false a);
   * int locals are unbounded integers (as in Osrm.v); reading one before it has a value is undefined behaviour;
     a negative JSON index and an index outside the candidate vector are undefined behaviour (`UB U_INDEX`);
   * the rows vector starts empty, `push_back` appends; `return <rows>` returns what has been pushed so far, `return {}`
     the empty list, a `return` of anything else returns the ARBITRARY list `other` (a parameter: the tie is for every `other`);
   * falling off the end without `return` is undefined behaviour; a loop that does not end within (bound - first) + 2 rounds
     (possible only when its body writes the bound) is `Hang`. *)
From TrV Require Import Osrm.
Import ListNotations.
Local Open Scope Z_scope.

Definition U_UNINIT : nat := 3.        (* an int local / the response read before it has a value *)
Definition U_NORETURN : nat := 4.      (* the end of the function reached without `return` *)

(* ---------------------------------------------------------------------------------------------- *)
(* the tree                                                                                         *)

Inductive jstep :=
| JKey (k : nat)            (* ["durations"] = JKey K_DURATIONS, ["distances"] = JKey K_DISTANCES, another key = JKey 2.. *)
| JAt (i : Z)               (* [0] *)
| JRow.                     (* [i], i the loop index *)
Definition jpath := list jstep.       (* from responseJson, left to right *)

Inductive ocmp := OLe | OLt | OGe | OGt | OEq | ONe.

Inductive oexp :=
| OLit (z : Z)
| OVar (v : nat)            (* an int local; numbered in the order of declaration *)
| ORow                      (* the loop index *)
| OMaxT                     (* the parameter maxWalkingTravelTime *)
| OCands                    (* birdDistanceAccessibleNodeIndexes.size() *)
| OSize (p : jpath)         (* responseJson<p>.size() *)
| OCeil (p : jpath)         (* (int)ceil((float)responseJson<p>) *)
| OAdd (a b : oexp)
| OSub (a b : oexp).

Inductive ocond :=
| CNotNull (p : jpath)      (* responseJson<p> != nullptr *)
| CStatusNot200             (* s->status_code != "200 OK" *)
| CStatusIs200              (* s->status_code == "200 OK" *)
| CReversed                 (* the parameter `reversed` *)
| CCmp (c : ocmp) (a b : oexp)
| CAnd (a b : ocond).       (* a && b *)

Inductive oret := RRows | REmptyLit | ROther.
Inductive ocatch := KStdException | KAll | KOther.
Inductive qpart := QAnnotations | QSources0 | QDestinations0 | QOtherPart.

Inductive ostmt :=
| SSkip
| SSeq (a b : ostmt)
| SQuery (q : qpart)                       (* queryString += "..." *)
| SClient                                  (* HttpClient client(host + ":" + port) *)
| SRequest (get sends_query : bool)        (* auto s = client.request("GET", queryString) *)
| SReadBody                                (* responseJsonSs << s->content.rdbuf() *)
| SParse                                   (* nlohmann::json responseJson = nlohmann::json::parse(responseJsonSs.str()) *)
| SDecl (v : nat)                          (* int v; *)
| SAssign (v : nat) (e : oexp)             (* int v = e;  /  v = e; *)
| SIf (c : ocond) (th el : ostmt)
| SFor (first : oexp) (c : ocmp) (bound : oexp) (body : ostmt)      (* for (int i = first; i c bound; i++) *)
| SPush (node time dist : oexp)            (* rows.push_back(NodeTimeDistance(candidates[node], time, dist)) *)
| STry (body : ostmt) (k : ocatch) (handler : ostmt)
| SReturn (r : oret).

Definition seq (l : list ostmt) : ostmt := fold_right SSeq SSkip l.

(* ---------------------------------------------------------------------------------------------- *)
(* evaluation                                                                                       *)

Inductive ev (A : Type) := EV (a : A) | EThrow | EUB (tag : nat).
Arguments EV {A} a.
Arguments EThrow {A}.
Arguments EUB {A} tag.

Definition ebind {A B} (e : ev A) (f : A -> ev B) : ev B :=
  match e with EV a => f a | EThrow => EThrow | EUB t => EUB t end.

Record ostate := {
  os_rows : list fprow;             (* accessibleNodesFootpaths *)
  os_vars : list (nat * Z);         (* int locals that have a value *)
  os_row : option Z;                (* the loop index *)
  os_got : bool;                    (* a response was received *)
  os_stream : bool;                 (* the body was written to the stream *)
  os_json : option json             (* responseJson after the parse *)
}.

Definition os_init : ostate :=
  {| os_rows := []; os_vars := []; os_row := None; os_got := false; os_stream := false; os_json := None |}.

Definition set_rows (st : ostate) (r : list fprow) : ostate :=
  {| os_rows := r; os_vars := os_vars st; os_row := os_row st; os_got := os_got st; os_stream := os_stream st; os_json := os_json st |}.
Definition set_vars (st : ostate) (v : list (nat * Z)) : ostate :=
  {| os_rows := os_rows st; os_vars := v; os_row := os_row st; os_got := os_got st; os_stream := os_stream st; os_json := os_json st |}.
Definition set_row (st : ostate) (i : option Z) : ostate :=
  {| os_rows := os_rows st; os_vars := os_vars st; os_row := i; os_got := os_got st; os_stream := os_stream st; os_json := os_json st |}.
Definition set_got (st : ostate) : ostate :=
  {| os_rows := os_rows st; os_vars := os_vars st; os_row := os_row st; os_got := true; os_stream := os_stream st; os_json := os_json st |}.
Definition set_stream (st : ostate) : ostate :=
  {| os_rows := os_rows st; os_vars := os_vars st; os_row := os_row st; os_got := os_got st; os_stream := true; os_json := os_json st |}.
Definition set_json (st : ostate) (j : json) : ostate :=
  {| os_rows := os_rows st; os_vars := os_vars st; os_row := os_row st; os_got := os_got st; os_stream := os_stream st; os_json := Some j |}.

Fixpoint unset (v : nat) (l : list (nat * Z)) : list (nat * Z) :=
  match l with
  | [] => []
  | (k, z) :: r => if Nat.eqb v k then unset v r else (k, z) :: unset v r
  end.

Definition jat (j : json) (i : Z) : ev json :=
  if i <? 0 then EUB U_INDEX
  else match jidx j (Z.to_nat i) with Some v => EV v | None => EThrow end.

Definition jstep_read (row : option Z) (j : json) (s : jstep) : ev json :=
  match s with
  | JKey k => match jget j k with Some v => EV v | None => EThrow end
  | JAt i => jat j i
  | JRow => match row with Some i => jat j i | None => EUB U_UNINIT end
  end.

Fixpoint jread (row : option Z) (j : json) (p : jpath) : ev json :=
  match p with
  | [] => EV j
  | s :: p' => ebind (jstep_read row j s) (fun v => jread row v p')
  end.

Definition cmp_z (c : ocmp) (a b : Z) : bool :=
  match c with
  | OLe => a <=? b | OLt => a <? b | OGe => b <=? a | OGt => b <? a | OEq => a =? b | ONe => negb (a =? b)
  end.

Inductive ores :=
| RNorm (st : ostate)
| RRet (rows : list fprow)
| RThrow (st : ostate)                    (* an exception in flight; the rows pushed so far stay pushed *)
| RBad (o : outcome (list fprow)).

Section Run.
  Variable other : list fprow.            (* what a `return` of something else than the rows / `{}` returns *)
  Variable reversed : bool.
  Variable x : exchange.
  Variable asked : list nat.              (* the candidates, in the order sent *)
  Variable maxt : Z.

  (* a default-constructed json is null *)
  Definition root (st : ostate) : json := match os_json st with Some j => j | None => JNull end.

  Fixpoint eval_exp (st : ostate) (e : oexp) : ev Z :=
    match e with
    | OLit z => EV z
    | OVar v => match assoc v (os_vars st) with Some z => EV z | None => EUB U_UNINIT end
    | ORow => match os_row st with Some i => EV i | None => EUB U_UNINIT end
    | OMaxT => EV maxt
    | OCands => EV (Z.of_nat (length asked))
    | OSize p => ebind (jread (os_row st) (root st) p) (fun v => EV (Z.of_nat (jsize v)))
    | OCeil p => ebind (jread (os_row st) (root st) p) (fun v => match jfloat_ceil v with Some z => EV z | None => EThrow end)
    | OAdd a b => ebind (eval_exp st a) (fun u => ebind (eval_exp st b) (fun w => EV (u + w)))
    | OSub a b => ebind (eval_exp st a) (fun u => ebind (eval_exp st b) (fun w => EV (u - w)))
    end.

  Definition status_ok (st : ostate) : ev bool :=
    if os_got st then match x with XStatus ok _ => EV ok | XThrow => EUB U_UNINIT end else EUB U_UNINIT.

  Fixpoint eval_cond (st : ostate) (c : ocond) : ev bool :=
    match c with
    | CNotNull p => ebind (jread (os_row st) (root st) p) (fun v => EV (negb (is_null v)))
    | CStatusNot200 => ebind (status_ok st) (fun ok => EV (negb ok))
    | CStatusIs200 => status_ok st
    | CReversed => EV reversed
    | CCmp k a b => ebind (eval_exp st a) (fun u => ebind (eval_exp st b) (fun w => EV (cmp_z k u w)))
    | CAnd a b => ebind (eval_cond st a) (fun u => if u then eval_cond st b else EV false)
    end.

  Definition next_row (st : ostate) : ostate := set_row st (match os_row st with Some i => Some (i + 1) | None => None end).

  Fixpoint loop (body : ostate -> ores) (c : ocmp) (bound : oexp) (fuel : nat) (st : ostate) : ores :=
    match fuel with
    | O => RBad Hang
    | S f =>
        match eval_cond st (CCmp c ORow bound) with
        | EV true => match body st with RNorm st' => loop body c bound f (next_row st') | r => r end
        | EV false => RNorm (set_row st None)
        | EThrow => RThrow st
        | EUB t => RBad (UB t)
        end
    end.

  Definition catches (k : ocatch) : bool := match k with KStdException | KAll => true | KOther => false end.

  Fixpoint run (s : ostmt) (st : ostate) : ores :=
    match s with
    | SSkip => RNorm st
    | SSeq a b => match run a st with RNorm st' => run b st' | r => r end
    | SQuery _ => RNorm st
    | SClient => RNorm st
    | SRequest _ _ => match x with XThrow => RThrow st | XStatus _ _ => RNorm (set_got st) end
    | SReadBody => if os_got st then RNorm (set_stream st) else RBad (UB U_UNINIT)
    | SParse =>
        if os_stream st then match x with XStatus _ (Some j) => RNorm (set_json st j) | _ => RThrow st end
        else RThrow st                      (* the empty string is not JSON *)
    | SDecl v => RNorm (set_vars st (unset v (os_vars st)))
    | SAssign v e =>
        match eval_exp st e with
        | EV z => RNorm (set_vars st ((v, z) :: os_vars st))
        | EThrow => RThrow st
        | EUB t => RBad (UB t)
        end
    | SIf c th el =>
        match eval_cond st c with
        | EV true => run th st
        | EV false => run el st
        | EThrow => RThrow st
        | EUB t => RBad (UB t)
        end
    | SFor first c bound body =>
        match eval_exp st first with
        | EV a =>
            let st1 := set_row st (Some a) in
            let fuel := match eval_exp st1 bound with EV b => (Z.to_nat (b - a) + 2)%nat | _ => 1%nat end in
            loop (run body) c bound fuel st1
        | EThrow => RThrow st
        | EUB t => RBad (UB t)
        end
    | SPush node time dist =>
        match eval_exp st node with
        | EV k =>
            match eval_exp st time with
            | EV t =>
                match eval_exp st dist with
                | EV m =>
                    if k <? 0 then RBad (UB U_INDEX)
                    else match nth_error asked (Z.to_nat k) with
                         | Some n => RNorm (set_rows st (os_rows st ++ [{| fp_node := n; fp_time := t; fp_dist := m |}]))
                         | None => RBad (UB U_INDEX)
                         end
                | EThrow => RThrow st
                | EUB u => RBad (UB u)
                end
            | EThrow => RThrow st
            | EUB u => RBad (UB u)
            end
        | EThrow => RThrow st
        | EUB u => RBad (UB u)
        end
    | STry body k handler =>
        match run body st with
        | RThrow st' => if catches k then run handler st' else RThrow st'
        | r => r
        end
    | SReturn r => RRet (match r with RRows => os_rows st | REmptyLit => [] | ROther => other end)
    end.

  Definition finish (r : ores) : outcome (list fprow) :=
    match r with
    | RNorm _ => UB U_NORETURN
    | RRet rows => Ok rows
    | RThrow _ => Exn 3          (* reaches the handler's catch-all, as every exception of Osrm.v *)
    | RBad o => o
    end.

  Definition run_reply (code : ostmt) : outcome (list fprow) := finish (run code os_init).
End Run.

(* ---------------------------------------------------------------------------------------------- *)
(* structural readings of a tree (used by the frame statements of Proofs/OsrmTie.v)                 *)

Definition is_request (s : ostmt) : bool := match s with SRequest _ _ => true | _ => false end.
Definition is_parse (s : ostmt) : bool := match s with SParse => true | _ => false end.
Definition is_status_test (s : ostmt) : bool :=
  match s with SIf CStatusNot200 _ _ | SIf CStatusIs200 _ _ => true | _ => false end.

(* does a statement satisfying p occur inside the BODY of a try (in_try = true) / outside every try body (false)?
   handlers count as outside *)
Fixpoint occurs (p : ostmt -> bool) (want_in_try : bool) (inside : bool) (s : ostmt) : bool :=
  (p s && Bool.eqb inside want_in_try) ||
  match s with
  | SSeq a b => occurs p want_in_try inside a || occurs p want_in_try inside b
  | SIf _ th el => occurs p want_in_try inside th || occurs p want_in_try inside el
  | SFor _ _ _ body => occurs p want_in_try inside body
  | STry body _ h => occurs p want_in_try true body || occurs p want_in_try inside h
  | _ => false
  end.

Definition in_try (p : ostmt -> bool) (s : ostmt) : bool := occurs p true false s.
Definition out_of_try (p : ostmt -> bool) (s : ostmt) : bool := occurs p false false s.

(* the conjuncts of a condition, in source order *)
Fixpoint conjuncts (c : ocond) : list ocond :=
  match c with CAnd a b => conjuncts a ++ conjuncts b | _ => [c] end.

Definition null_path (c : ocond) : option jpath := match c with CNotNull p => Some p | _ => None end.

(* the paths tested against null by a condition, in source order (None when a conjunct is something else) *)
Definition null_paths (c : ocond) : option (list jpath) :=
  fold_right (fun c acc => match null_path c, acc with Some p, Some l => Some (p :: l) | _, _ => None end)
             (Some []) (conjuncts c).

Definition jstep_eqb (a b : jstep) : bool :=
  match a, b with
  | JKey k, JKey k' => Nat.eqb k k'
  | JAt i, JAt i' => i =? i'
  | JRow, JRow => true
  | _, _ => false
  end.
Fixpoint jpath_eqb (a b : jpath) : bool :=
  match a, b with
  | [], [] => true
  | s :: a', t :: b' => jstep_eqb s t && jpath_eqb a' b'
  | _, _ => false
  end.
Fixpoint jpaths_eqb (a b : list jpath) : bool :=
  match a, b with
  | [], [] => true
  | s :: a', t :: b' => jpath_eqb s t && jpaths_eqb a' b'
  | _, _ => false
  end.

Definition FOUR_NULL_TESTS : list jpath :=
  [[JKey K_DURATIONS]; [JKey K_DISTANCES]; [JKey K_DURATIONS; JAt 0]; [JKey K_DISTANCES; JAt 0]].

Definition is_four_null_tests (c : ocond) : bool :=
  match null_paths c with Some l => jpaths_eqb l FOUR_NULL_TESTS | None => false end.

(* JSON reads other than a null test *)
Fixpoint exp_reads (e : oexp) : list jpath :=
  match e with
  | OSize p | OCeil p => [p]
  | OAdd a b | OSub a b => exp_reads a ++ exp_reads b
  | _ => []
  end.
Fixpoint cond_reads (c : ocond) : list jpath :=
  match c with
  | CCmp _ a b => exp_reads a ++ exp_reads b
  | CAnd a b => cond_reads a ++ cond_reads b
  | _ => []
  end.
Fixpoint exp_ceils (e : oexp) : list jpath :=
  match e with
  | OCeil p => [p]
  | OAdd a b | OSub a b => exp_ceils a ++ exp_ceils b
  | _ => []
  end.
Fixpoint cond_ceils (c : ocond) : list jpath :=
  match c with
  | CCmp _ a b => exp_ceils a ++ exp_ceils b
  | CAnd a b => cond_ceils a ++ cond_ceils b
  | _ => []
  end.

Definition no_reads (l : list jpath) : bool := match l with [] => true | _ => false end.

(* every size / indexed / converted read of the reply happens under an `if` whose condition is exactly the four null
   tests in source order (seen = such an `if` encloses the statement) *)
Fixpoint reads_guarded (seen : bool) (s : ostmt) : bool :=
  match s with
  | SSeq a b => reads_guarded seen a && reads_guarded seen b
  | SAssign _ e => seen || no_reads (exp_reads e)
  | SIf c th el =>
      (seen || no_reads (cond_reads c)) && reads_guarded (seen || is_four_null_tests c) th && reads_guarded seen el
  | SFor first _ bound body =>
      (seen || no_reads (exp_reads first ++ exp_reads bound)) && reads_guarded seen body
  | SPush a b c => seen || no_reads (exp_reads a ++ exp_reads b ++ exp_reads c)
  | STry body _ h => reads_guarded seen body && reads_guarded seen h
  | _ => true
  end.

(* a null test that is not part of the four-fold conjunction would be a read of its own: there is none *)
Fixpoint null_tests_only_in_four (s : ostmt) : bool :=
  match s with
  | SSeq a b => null_tests_only_in_four a && null_tests_only_in_four b
  | SIf c th el =>
      (is_four_null_tests c || forallb (fun k => match null_path k with None => true | Some _ => false end) (conjuncts c))
      && null_tests_only_in_four th && null_tests_only_in_four el
  | SFor _ _ _ body => null_tests_only_in_four body
  | STry body _ h => null_tests_only_in_four body && null_tests_only_in_four h
  | _ => true
  end.

Definition starts_with_key (k : nat) (p : jpath) : bool :=
  match p with JKey k' :: _ => Nat.eqb k k' | _ => false end.

Definition no_distance_read (l : list jpath) : bool := forallb (fun p => negb (starts_with_key K_DISTANCES p)) l.

Definition is_time_guard (c : ocond) : bool :=
  match c with CCmp OLe _ OMaxT => true | _ => false end.

(* inside the loop: a converted read of distances[..] happens only under `if (<time> <= maxWalkingTravelTime)` *)
Fixpoint distance_guarded (under : bool) (s : ostmt) : bool :=
  match s with
  | SSeq a b => distance_guarded under a && distance_guarded under b
  | SAssign _ e => under || no_distance_read (exp_ceils e)
  | SIf c th el =>
      (under || no_distance_read (cond_ceils c)) && distance_guarded (under || is_time_guard c) th && distance_guarded under el
  | SFor first _ bound body =>
      (under || no_distance_read (exp_ceils first ++ exp_ceils bound)) && distance_guarded under body
  | SPush a b c => under || no_distance_read (exp_ceils a ++ exp_ceils b ++ exp_ceils c)
  | STry body _ h => distance_guarded under body && distance_guarded under h
  | _ => true
  end.

(* no size() read after (in statement order, or inside) a loop: the insertion performed by an indexed read past the end is
   never observed *)
Fixpoint exp_has_size (e : oexp) : bool :=
  match e with
  | OSize _ => true
  | OAdd a b | OSub a b => exp_has_size a || exp_has_size b
  | _ => false
  end.
Fixpoint has_size_read (s : ostmt) : bool :=
  match s with
  | SSeq a b => has_size_read a || has_size_read b
  | SAssign _ e => exp_has_size e
  | SIf _ th el => has_size_read th || has_size_read el
  | SFor _ _ _ body => has_size_read body
  | STry body _ h => has_size_read body || has_size_read h
  | _ => false
  end.
Fixpoint has_loop (s : ostmt) : bool :=
  match s with
  | SSeq a b => has_loop a || has_loop b
  | SIf _ th el => has_loop th || has_loop el
  | SFor _ _ _ _ => true
  | STry body _ h => has_loop body || has_loop h
  | _ => false
  end.
(* sizes_first s = true: in every sequence, once a statement containing a loop has run no later statement reads a size,
   and no loop body reads one *)
Fixpoint sizes_first (s : ostmt) : bool :=
  match s with
  | SSeq a b => sizes_first a && sizes_first b && negb (has_loop a && has_size_read b)
  | SIf _ th el => sizes_first th && sizes_first el
  | SFor _ _ _ body => negb (has_size_read body)
  | STry body _ h => sizes_first body && sizes_first h
  | _ => true
  end.

(* the parts appended to the query string, in order, for a direction *)
Fixpoint query_parts (rev : bool) (s : ostmt) : list qpart :=
  match s with
  | SQuery q => [q]
  | SSeq a b => query_parts rev a ++ query_parts rev b
  | SIf CReversed th el => if rev then query_parts rev th else query_parts rev el
  | SIf _ th el => query_parts rev th ++ query_parts rev el
  | SFor _ _ _ body => query_parts rev body
  | STry body _ h => query_parts rev body ++ query_parts rev h
  | _ => []
  end.

Definition request_is_get_of_query (s : ostmt) : bool :=
  match s with SRequest true true => true | _ => false end.
