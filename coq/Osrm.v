(* Osrm.v — handling of the walking router's reply (C20).  Mirrors src/osrmgeofilter.cpp:62-112 with
   nlohmann::json's access semantics as used there, resets.cpp (both lookups, NO_ACCESS reasons) and the
   handlers' catch-all.  Durations/distances are tenths of a unit (so 12.3 s is 123): ceil is exact. *)
From TrV Require Export Server.
Local Open Scope Z_scope.

Inductive json :=
| JNull | JBool (b : bool) | JNum (tenths : Z) | JStr
| JArr (l : list json)
| JObj (fields : list (nat * json)).      (* keys: 0 = "durations", 1 = "distances", others irrelevant *)

(* result of an HTTP exchange with the router, after SimpleWeb's client returned or threw *)
Inductive exchange :=
| XThrow                         (* refused / dropped / truncated: client throws, caught: no stop *)
| XStatus (ok : bool) (body : option json).   (* status line; body: None = not JSON (parse throws) *)

Definition K_DURATIONS : nat := 0.
Definition K_DISTANCES : nat := 1.

(* non-const operator[](key): null becomes an object, a missing member is created as null; other types throw *)
Definition jget (j : json) (k : nat) : option json :=
  match j with
  | JObj f => match assoc k f with Some v => Some v | None => Some JNull end
  | JNull => Some JNull
  | _ => None
  end.

(* non-const operator[](index): null becomes an array; an array is filled with nulls up to the index *)
Definition jidx (j : json) (i : nat) : option json :=
  match j with
  | JArr l => Some (nth i l JNull)
  | JNull => Some JNull
  | _ => None
  end.

Definition jsize (j : json) : nat :=
  match j with JNull => 0 | JArr l => length l | JObj f => length f | _ => 1 end.

Definition is_null (j : json) : bool := match j with JNull => true | _ => false end.

(* get<float>: numbers and booleans convert, everything else throws type_error *)
Definition jfloat_ceil (j : json) : option Z :=
  match j with
  | JNum t => Some ((t + 9) / 10)          (* ceil of t/10 *)
  | JBool b => Some (if b then 1 else 0)
  | _ => None
  end.

(* rows for entries 1 .. n-1 of durations[0]; asked = the stops sent to the router, in order.
   None = exception (json type_error) ; UB when the reply has more entries than stops were asked *)
Fixpoint osrm_loop (dur dist : json) (asked : list nat) (i : nat) (n : nat) (maxt : Z) (fuel : nat) : outcome (list fprow) :=
  match fuel with
  | O => Ok []
  | S f =>
      if Nat.leb n i then Ok []
      else
        match jidx dur i with
        | None => Exn 3
        | Some dv =>
            match jfloat_ceil dv with
            | None => Exn 3
            | Some t =>
                if t <=? maxt then
                  match jidx dist i with
                  | None => Exn 3
                  | Some xv =>
                      match jfloat_ceil xv with
                      | None => Exn 3
                      | Some m =>
                          match nth_error asked (i - 1) with
                          | None => UB U_INDEX
                          | Some node =>
                              bind (osrm_loop dur dist asked (S i) n maxt f)
                                   (fun rest => Ok ({| fp_node := node; fp_time := t; fp_dist := m |} :: rest))
                          end
                      end
                  end
                else osrm_loop dur dist asked (S i) n maxt f
            end
        end
  end.

Definition osrm_rows (x : exchange) (asked : list nat) (maxt : Z) : outcome (list fprow) :=
  match asked with
  | [] => Ok []                         (* nothing within bird distance: the router is not asked *)
  | _ =>
      match x with
      | XThrow => Ok []
      | XStatus false _ => Ok []
      | XStatus true None => Exn 3      (* nlohmann::json::parse throws: reaches the handler's catch-all *)
      | XStatus true (Some j) =>
          match jget j K_DURATIONS, jget j K_DISTANCES with
          | Some du, Some di =>
              if is_null du || is_null di then Ok []
              else
                (* the source's `&&` is evaluated left to right and stops at the first false test:
                   durations[0] is read (and may throw) and tested BEFORE distances[0] is read.  On the reply shape
                   {"durations":[null],"distances":5} (durations = an array whose entry 0 is null or missing, distances =
                   non-null and not an array) distances[0] — which would throw — is therefore never evaluated and the
                   answer is the empty list.  An earlier version of this model read both entries together and answered
                   Exn 3 there; the translator tie (Proofs/OsrmTie.v, reply_tie against gen/OsrmReply.v) found it. *)
                match jidx du 0 with
                | None => Exn 3
                | Some d0 =>
                    if is_null d0 then Ok []
                    else
                      match jidx di 0 with
                      | None => Exn 3
                      | Some x0 =>
                          if is_null x0 then Ok []
                          else
                            let n := jsize d0 in
                            if Nat.ltb 0 n && Nat.ltb 0 (jsize x0)
                            then osrm_loop d0 x0 asked 1 n maxt n
                            else Ok []
                      end
                end
          | _, _ => Exn 3
          end
      end
  end.

(* the route request with the router's two exchanges: origin first; an exception at the origin lookup
   means the destination is never asked *)
Inductive c20_answer :=
| C20NoAccess (reason : nat)            (* 200 no_routing_found with one of the NO_ACCESS reasons *)
| C20Calculated (acc egr : list fprow)  (* both tables non-empty: the calculation runs on them *)
| C20QueryError                         (* 400 PARAM_ERROR_UNKNOWN *)
| C20Bad.                               (* undefined behaviour: excluded by the theorem *)

Definition handle_lookups (xo xd : exchange) (asked_o asked_d : list nat) (maxacc maxegr : Z) : c20_answer :=
  match osrm_rows xo asked_o maxacc with
  | Ok acc =>
      match osrm_rows xd asked_d maxegr with
      | Ok egr =>
          match access_reason (nonempty acc) (nonempty egr) with
          | Some r => C20NoAccess r
          | None => C20Calculated acc egr
          end
      | Exn _ => C20QueryError
      | _ => C20Bad
      end
  | Exn _ => C20QueryError
  | _ => C20Bad
  end.
