(* Reset.v — Calculator::reset (resets.cpp), its footpath part, as data, and its interpreter.

   tools/gen_loops.py parses reset() - with resetAccessFootpaths / resetEgressFootpaths inlined where they are called -
   into a statement tree (gen/Reset.v, type `zskel`): departure / arrival time of the calculation, the initial minimum /
   maximum walking times, which lookup feeds accessFootpaths / egressFootpaths (and with which limit), the seeding of
   nodesAccess / nodesEgress, forwardJourneysSteps / reverseJourneysSteps, nodesTentativeTime /
   nodesReverseTentativeTime row by row, the running minimum / maximum, the two emptiness flags and the order of the
   NO_ACCESS_* exceptions.  Conditions and operands are TRANSLATED source expressions.

   Outside the model, recognised and kept as such: odTrip requests (`odTripGlob.has_value()` is a flag of the environment,
   false in every modelled request; the branch is ZUnmodelled), the walking speed factor (1.0: the rows' times are used
   as they are), resetFilters (a flag records that it was called), timing.

   Proofs/ResetTie.v proves that the model (Scan.mk_calc, Calc.access_reason as calc_single / calc_allnodes use them)
   computes what this interpreter computes on the generated tree. *)
From Coq Require Import List ZArith Bool.
From TrV Require Import Scan Journey Calc.
Import ListNotations.
Local Open Scope Z_scope.
Local Open Scope bool_scope.

(* what reset() is given *)
Record zenv := { ze_p : params;
                 ze_origin : bool; ze_dest : bool;          (* origin.has_value(), destination.has_value() *)
                 ze_fresh : bool;                            (* resetAccessPaths *)
                 ze_dofilters : bool;                        (* doResetFilters *)
                 ze_odtrip : bool; ze_odtrip_dep : Z;        (* odTripGlob.has_value(), its departure time *)
                 (* geoFilter.getAccessibleNodesFootpathsFromPoint(point, nodes, limit, speed): from the origin (true) or
                    the destination (false), within `limit` seconds *)
                 ze_lookup : bool -> Z -> list fprow }.
Record zmach := {
  z_dep : Z;                  (* departureTimeSeconds *)
  z_arr : Z;                  (* arrivalTimeSeconds *)
  z_minacc : Z;               (* minAccessTravelTime *)
  z_maxacc : Z;               (* maxAccessTravelTime *)
  z_minegr : Z;               (* minEgressTravelTime *)
  z_maxegr : Z;               (* maxEgressTravelTime *)
  z_t : Z;                    (* footpathTravelTimeSeconds *)
  z_dist : Z;                 (* footpathDistanceMeters *)
  z_accfp : list fprow;       (* accessFootpaths *)
  z_egrfp : list fprow;       (* egressFootpaths *)
  z_nacc : list fprow;        (* nodesAccess (emplace: the first row of a stop wins, as Scan.row_of reads it) *)
  z_negr : list fprow;        (* nodesEgress *)
  z_tau : nat -> Z;           (* nodesTentativeTime *)
  z_taur : nat -> Z;          (* nodesReverseTentativeTime *)
  z_fsteps : nat -> jstep;    (* forwardJourneysSteps *)
  z_rsteps : nat -> jstep;    (* reverseJourneysSteps *)
  z_ov : nat -> tqd;          (* tripsQueryOverlay *)
  z_accok : bool;             (* accessFootpathOk *)
  z_egrok : bool;             (* egressFootpathOk *)
  z_filters : bool;           (* resetFilters(parameters) was called *)
  z_row : fprow               (* accessFootpath / egressFootpath (range-for variable) *) }.
Definition zs_dep (v : Z) (s : zmach) : zmach :=
  {| z_dep := v; z_arr := z_arr s; z_minacc := z_minacc s; z_maxacc := z_maxacc s; z_minegr := z_minegr s; z_maxegr := z_maxegr s; z_t := z_t s; z_dist := z_dist s; z_accfp := z_accfp s; z_egrfp := z_egrfp s; z_nacc := z_nacc s; z_negr := z_negr s; z_tau := z_tau s; z_taur := z_taur s; z_fsteps := z_fsteps s; z_rsteps := z_rsteps s; z_ov := z_ov s; z_accok := z_accok s; z_egrok := z_egrok s; z_filters := z_filters s; z_row := z_row s |}.
Definition zs_arr (v : Z) (s : zmach) : zmach :=
  {| z_dep := z_dep s; z_arr := v; z_minacc := z_minacc s; z_maxacc := z_maxacc s; z_minegr := z_minegr s; z_maxegr := z_maxegr s; z_t := z_t s; z_dist := z_dist s; z_accfp := z_accfp s; z_egrfp := z_egrfp s; z_nacc := z_nacc s; z_negr := z_negr s; z_tau := z_tau s; z_taur := z_taur s; z_fsteps := z_fsteps s; z_rsteps := z_rsteps s; z_ov := z_ov s; z_accok := z_accok s; z_egrok := z_egrok s; z_filters := z_filters s; z_row := z_row s |}.
Definition zs_minacc (v : Z) (s : zmach) : zmach :=
  {| z_dep := z_dep s; z_arr := z_arr s; z_minacc := v; z_maxacc := z_maxacc s; z_minegr := z_minegr s; z_maxegr := z_maxegr s; z_t := z_t s; z_dist := z_dist s; z_accfp := z_accfp s; z_egrfp := z_egrfp s; z_nacc := z_nacc s; z_negr := z_negr s; z_tau := z_tau s; z_taur := z_taur s; z_fsteps := z_fsteps s; z_rsteps := z_rsteps s; z_ov := z_ov s; z_accok := z_accok s; z_egrok := z_egrok s; z_filters := z_filters s; z_row := z_row s |}.
Definition zs_maxacc (v : Z) (s : zmach) : zmach :=
  {| z_dep := z_dep s; z_arr := z_arr s; z_minacc := z_minacc s; z_maxacc := v; z_minegr := z_minegr s; z_maxegr := z_maxegr s; z_t := z_t s; z_dist := z_dist s; z_accfp := z_accfp s; z_egrfp := z_egrfp s; z_nacc := z_nacc s; z_negr := z_negr s; z_tau := z_tau s; z_taur := z_taur s; z_fsteps := z_fsteps s; z_rsteps := z_rsteps s; z_ov := z_ov s; z_accok := z_accok s; z_egrok := z_egrok s; z_filters := z_filters s; z_row := z_row s |}.
Definition zs_minegr (v : Z) (s : zmach) : zmach :=
  {| z_dep := z_dep s; z_arr := z_arr s; z_minacc := z_minacc s; z_maxacc := z_maxacc s; z_minegr := v; z_maxegr := z_maxegr s; z_t := z_t s; z_dist := z_dist s; z_accfp := z_accfp s; z_egrfp := z_egrfp s; z_nacc := z_nacc s; z_negr := z_negr s; z_tau := z_tau s; z_taur := z_taur s; z_fsteps := z_fsteps s; z_rsteps := z_rsteps s; z_ov := z_ov s; z_accok := z_accok s; z_egrok := z_egrok s; z_filters := z_filters s; z_row := z_row s |}.
Definition zs_maxegr (v : Z) (s : zmach) : zmach :=
  {| z_dep := z_dep s; z_arr := z_arr s; z_minacc := z_minacc s; z_maxacc := z_maxacc s; z_minegr := z_minegr s; z_maxegr := v; z_t := z_t s; z_dist := z_dist s; z_accfp := z_accfp s; z_egrfp := z_egrfp s; z_nacc := z_nacc s; z_negr := z_negr s; z_tau := z_tau s; z_taur := z_taur s; z_fsteps := z_fsteps s; z_rsteps := z_rsteps s; z_ov := z_ov s; z_accok := z_accok s; z_egrok := z_egrok s; z_filters := z_filters s; z_row := z_row s |}.
Definition zs_t (v : Z) (s : zmach) : zmach :=
  {| z_dep := z_dep s; z_arr := z_arr s; z_minacc := z_minacc s; z_maxacc := z_maxacc s; z_minegr := z_minegr s; z_maxegr := z_maxegr s; z_t := v; z_dist := z_dist s; z_accfp := z_accfp s; z_egrfp := z_egrfp s; z_nacc := z_nacc s; z_negr := z_negr s; z_tau := z_tau s; z_taur := z_taur s; z_fsteps := z_fsteps s; z_rsteps := z_rsteps s; z_ov := z_ov s; z_accok := z_accok s; z_egrok := z_egrok s; z_filters := z_filters s; z_row := z_row s |}.
Definition zs_dist (v : Z) (s : zmach) : zmach :=
  {| z_dep := z_dep s; z_arr := z_arr s; z_minacc := z_minacc s; z_maxacc := z_maxacc s; z_minegr := z_minegr s; z_maxegr := z_maxegr s; z_t := z_t s; z_dist := v; z_accfp := z_accfp s; z_egrfp := z_egrfp s; z_nacc := z_nacc s; z_negr := z_negr s; z_tau := z_tau s; z_taur := z_taur s; z_fsteps := z_fsteps s; z_rsteps := z_rsteps s; z_ov := z_ov s; z_accok := z_accok s; z_egrok := z_egrok s; z_filters := z_filters s; z_row := z_row s |}.
Definition zs_accfp (v : list fprow) (s : zmach) : zmach :=
  {| z_dep := z_dep s; z_arr := z_arr s; z_minacc := z_minacc s; z_maxacc := z_maxacc s; z_minegr := z_minegr s; z_maxegr := z_maxegr s; z_t := z_t s; z_dist := z_dist s; z_accfp := v; z_egrfp := z_egrfp s; z_nacc := z_nacc s; z_negr := z_negr s; z_tau := z_tau s; z_taur := z_taur s; z_fsteps := z_fsteps s; z_rsteps := z_rsteps s; z_ov := z_ov s; z_accok := z_accok s; z_egrok := z_egrok s; z_filters := z_filters s; z_row := z_row s |}.
Definition zs_egrfp (v : list fprow) (s : zmach) : zmach :=
  {| z_dep := z_dep s; z_arr := z_arr s; z_minacc := z_minacc s; z_maxacc := z_maxacc s; z_minegr := z_minegr s; z_maxegr := z_maxegr s; z_t := z_t s; z_dist := z_dist s; z_accfp := z_accfp s; z_egrfp := v; z_nacc := z_nacc s; z_negr := z_negr s; z_tau := z_tau s; z_taur := z_taur s; z_fsteps := z_fsteps s; z_rsteps := z_rsteps s; z_ov := z_ov s; z_accok := z_accok s; z_egrok := z_egrok s; z_filters := z_filters s; z_row := z_row s |}.
Definition zs_nacc (v : list fprow) (s : zmach) : zmach :=
  {| z_dep := z_dep s; z_arr := z_arr s; z_minacc := z_minacc s; z_maxacc := z_maxacc s; z_minegr := z_minegr s; z_maxegr := z_maxegr s; z_t := z_t s; z_dist := z_dist s; z_accfp := z_accfp s; z_egrfp := z_egrfp s; z_nacc := v; z_negr := z_negr s; z_tau := z_tau s; z_taur := z_taur s; z_fsteps := z_fsteps s; z_rsteps := z_rsteps s; z_ov := z_ov s; z_accok := z_accok s; z_egrok := z_egrok s; z_filters := z_filters s; z_row := z_row s |}.
Definition zs_negr (v : list fprow) (s : zmach) : zmach :=
  {| z_dep := z_dep s; z_arr := z_arr s; z_minacc := z_minacc s; z_maxacc := z_maxacc s; z_minegr := z_minegr s; z_maxegr := z_maxegr s; z_t := z_t s; z_dist := z_dist s; z_accfp := z_accfp s; z_egrfp := z_egrfp s; z_nacc := z_nacc s; z_negr := v; z_tau := z_tau s; z_taur := z_taur s; z_fsteps := z_fsteps s; z_rsteps := z_rsteps s; z_ov := z_ov s; z_accok := z_accok s; z_egrok := z_egrok s; z_filters := z_filters s; z_row := z_row s |}.
Definition zs_tau (v : nat -> Z) (s : zmach) : zmach :=
  {| z_dep := z_dep s; z_arr := z_arr s; z_minacc := z_minacc s; z_maxacc := z_maxacc s; z_minegr := z_minegr s; z_maxegr := z_maxegr s; z_t := z_t s; z_dist := z_dist s; z_accfp := z_accfp s; z_egrfp := z_egrfp s; z_nacc := z_nacc s; z_negr := z_negr s; z_tau := v; z_taur := z_taur s; z_fsteps := z_fsteps s; z_rsteps := z_rsteps s; z_ov := z_ov s; z_accok := z_accok s; z_egrok := z_egrok s; z_filters := z_filters s; z_row := z_row s |}.
Definition zs_taur (v : nat -> Z) (s : zmach) : zmach :=
  {| z_dep := z_dep s; z_arr := z_arr s; z_minacc := z_minacc s; z_maxacc := z_maxacc s; z_minegr := z_minegr s; z_maxegr := z_maxegr s; z_t := z_t s; z_dist := z_dist s; z_accfp := z_accfp s; z_egrfp := z_egrfp s; z_nacc := z_nacc s; z_negr := z_negr s; z_tau := z_tau s; z_taur := v; z_fsteps := z_fsteps s; z_rsteps := z_rsteps s; z_ov := z_ov s; z_accok := z_accok s; z_egrok := z_egrok s; z_filters := z_filters s; z_row := z_row s |}.
Definition zs_fsteps (v : nat -> jstep) (s : zmach) : zmach :=
  {| z_dep := z_dep s; z_arr := z_arr s; z_minacc := z_minacc s; z_maxacc := z_maxacc s; z_minegr := z_minegr s; z_maxegr := z_maxegr s; z_t := z_t s; z_dist := z_dist s; z_accfp := z_accfp s; z_egrfp := z_egrfp s; z_nacc := z_nacc s; z_negr := z_negr s; z_tau := z_tau s; z_taur := z_taur s; z_fsteps := v; z_rsteps := z_rsteps s; z_ov := z_ov s; z_accok := z_accok s; z_egrok := z_egrok s; z_filters := z_filters s; z_row := z_row s |}.
Definition zs_rsteps (v : nat -> jstep) (s : zmach) : zmach :=
  {| z_dep := z_dep s; z_arr := z_arr s; z_minacc := z_minacc s; z_maxacc := z_maxacc s; z_minegr := z_minegr s; z_maxegr := z_maxegr s; z_t := z_t s; z_dist := z_dist s; z_accfp := z_accfp s; z_egrfp := z_egrfp s; z_nacc := z_nacc s; z_negr := z_negr s; z_tau := z_tau s; z_taur := z_taur s; z_fsteps := z_fsteps s; z_rsteps := v; z_ov := z_ov s; z_accok := z_accok s; z_egrok := z_egrok s; z_filters := z_filters s; z_row := z_row s |}.
Definition zs_ov (v : nat -> tqd) (s : zmach) : zmach :=
  {| z_dep := z_dep s; z_arr := z_arr s; z_minacc := z_minacc s; z_maxacc := z_maxacc s; z_minegr := z_minegr s; z_maxegr := z_maxegr s; z_t := z_t s; z_dist := z_dist s; z_accfp := z_accfp s; z_egrfp := z_egrfp s; z_nacc := z_nacc s; z_negr := z_negr s; z_tau := z_tau s; z_taur := z_taur s; z_fsteps := z_fsteps s; z_rsteps := z_rsteps s; z_ov := v; z_accok := z_accok s; z_egrok := z_egrok s; z_filters := z_filters s; z_row := z_row s |}.
Definition zs_accok (v : bool) (s : zmach) : zmach :=
  {| z_dep := z_dep s; z_arr := z_arr s; z_minacc := z_minacc s; z_maxacc := z_maxacc s; z_minegr := z_minegr s; z_maxegr := z_maxegr s; z_t := z_t s; z_dist := z_dist s; z_accfp := z_accfp s; z_egrfp := z_egrfp s; z_nacc := z_nacc s; z_negr := z_negr s; z_tau := z_tau s; z_taur := z_taur s; z_fsteps := z_fsteps s; z_rsteps := z_rsteps s; z_ov := z_ov s; z_accok := v; z_egrok := z_egrok s; z_filters := z_filters s; z_row := z_row s |}.
Definition zs_egrok (v : bool) (s : zmach) : zmach :=
  {| z_dep := z_dep s; z_arr := z_arr s; z_minacc := z_minacc s; z_maxacc := z_maxacc s; z_minegr := z_minegr s; z_maxegr := z_maxegr s; z_t := z_t s; z_dist := z_dist s; z_accfp := z_accfp s; z_egrfp := z_egrfp s; z_nacc := z_nacc s; z_negr := z_negr s; z_tau := z_tau s; z_taur := z_taur s; z_fsteps := z_fsteps s; z_rsteps := z_rsteps s; z_ov := z_ov s; z_accok := z_accok s; z_egrok := v; z_filters := z_filters s; z_row := z_row s |}.
Definition zs_filters (v : bool) (s : zmach) : zmach :=
  {| z_dep := z_dep s; z_arr := z_arr s; z_minacc := z_minacc s; z_maxacc := z_maxacc s; z_minegr := z_minegr s; z_maxegr := z_maxegr s; z_t := z_t s; z_dist := z_dist s; z_accfp := z_accfp s; z_egrfp := z_egrfp s; z_nacc := z_nacc s; z_negr := z_negr s; z_tau := z_tau s; z_taur := z_taur s; z_fsteps := z_fsteps s; z_rsteps := z_rsteps s; z_ov := z_ov s; z_accok := z_accok s; z_egrok := z_egrok s; z_filters := v; z_row := z_row s |}.
Definition zs_row (v : fprow) (s : zmach) : zmach :=
  {| z_dep := z_dep s; z_arr := z_arr s; z_minacc := z_minacc s; z_maxacc := z_maxacc s; z_minegr := z_minegr s; z_maxegr := z_maxegr s; z_t := z_t s; z_dist := z_dist s; z_accfp := z_accfp s; z_egrfp := z_egrfp s; z_nacc := z_nacc s; z_negr := z_negr s; z_tau := z_tau s; z_taur := z_taur s; z_fsteps := z_fsteps s; z_rsteps := z_rsteps s; z_ov := z_ov s; z_accok := z_accok s; z_egrok := z_egrok s; z_filters := z_filters s; z_row := v |}.

Definition x_walk (t : Z) (same : bool) (dist : Z) : jstep :=
  {| js_enter := None; js_exit := None; js_trip := None; js_walk := t; js_same := same; js_dist := dist |}.

Inductive zvar := ZDep | ZArr | ZMinAcc | ZMaxAcc | ZMinEgr | ZMaxEgr | ZT | ZDist.
Inductive zflag := ZAccOk | ZEgrOk.
Inductive zrows := ZAccFp | ZEgrFp | ZNodesAcc | ZNodesEgr.
Inductive ztab := ZTau | ZTauR.
Inductive zsteps := ZFSteps | ZRSteps.

Definition set_zvar (x : zvar) (v : Z) (m : zmach) : zmach :=
  match x with
  | ZDep => zs_dep v m | ZArr => zs_arr v m | ZMinAcc => zs_minacc v m | ZMaxAcc => zs_maxacc v m
  | ZMinEgr => zs_minegr v m | ZMaxEgr => zs_maxegr v m | ZT => zs_t v m | ZDist => zs_dist v m
  end.
Definition set_zflag (x : zflag) (v : bool) (m : zmach) : zmach :=
  match x with ZAccOk => zs_accok v m | ZEgrOk => zs_egrok v m end.
Definition get_zrows (x : zrows) (m : zmach) : list fprow :=
  match x with ZAccFp => z_accfp m | ZEgrFp => z_egrfp m | ZNodesAcc => z_nacc m | ZNodesEgr => z_negr m end.
Definition set_zrows (x : zrows) (v : list fprow) (m : zmach) : zmach :=
  match x with ZAccFp => zs_accfp v m | ZEgrFp => zs_egrfp v m | ZNodesAcc => zs_nacc v m | ZNodesEgr => zs_negr v m end.
Definition get_ztab (x : ztab) (m : zmach) : nat -> Z := match x with ZTau => z_tau m | ZTauR => z_taur m end.
Definition set_ztab (x : ztab) (v : nat -> Z) (m : zmach) : zmach := match x with ZTau => zs_tau v m | ZTauR => zs_taur v m end.
Definition get_zsteps (x : zsteps) (m : zmach) : nat -> jstep := match x with ZFSteps => z_fsteps m | ZRSteps => z_rsteps m end.
Definition set_zsteps (x : zsteps) (v : nat -> jstep) (m : zmach) : zmach :=
  match x with ZFSteps => zs_fsteps v m | ZRSteps => zs_rsteps v m end.

Inductive zskel :=
| ZSetZ (x : zvar) (f : zenv -> zmach -> Z) (k : zskel)
| ZSetFlag (x : zflag) (f : zenv -> zmach -> bool) (k : zskel)
| ZSetRows (x : zrows) (f : zenv -> zmach -> list fprow) (k : zskel)     (* clear() / = lookup *)
| ZEmplace (x : zrows) (f : zenv -> zmach -> fprow) (k : zskel)          (* map.emplace(uid, NodeTimeDistance(...)) *)
| ZAssignTable (x : ztab) (f : zenv -> zmach -> Z) (k : zskel)           (* vector.assign(n, v) *)
| ZSetTable (x : ztab) (key : zenv -> zmach -> nat) (f : zenv -> zmach -> Z) (k : zskel)       (* vector[uid] = v *)
| ZAssignSteps (x : zsteps) (k : zskel)                                   (* vector.assign(n, JourneyStep()) / clear() *)
| ZSetStep (x : zsteps) (key : zenv -> zmach -> nat) (f : zenv -> zmach -> jstep) (k : zskel)  (* vector.at(uid) = step *)
| ZResetOverlay (k : zskel)                                               (* tripsQueryOverlay.assign(n, TripQueryData()) *)
| ZResetFilters (k : zskel)                                               (* resetFilters(parameters) *)
| ZUnmodelled (k : zskel)                                                 (* statements of an odTrip request *)
| ZIf (g : zenv -> zmach -> bool) (th el : zskel) (k : zskel)
| ZForRows (x : zrows) (body : zskel) (k : zskel)                        (* for (auto & footpath : x) body *)
| ZThrow (reason : nat)                                                   (* throw NoRoutingFoundException(reason) *)
| ZDone.

Definition zrow_step (runbody : zmach -> outcome zmach) (o : outcome zmach) (r : fprow) : outcome zmach :=
  match o with
  | Ok m1 => runbody (zs_row r m1)
  | err => err
  end.

Definition zpass {A R : Type} (o : outcome A) : outcome R :=
  match o with
  | Ok _ => Crash | NoRouting r => NoRouting r | ParamErr c => ParamErr c | DataErr c => DataErr c | Exn t => Exn t
  | NoReply => NoReply | Crash => Crash | UB t => UB t | Hang => Hang
  end.

Fixpoint zrun (e : zenv) (s : zskel) (R : Type) (kont : zmach -> outcome R) (m : zmach) {struct s} : outcome R :=
  match s with
  | ZDone => kont m
  | ZThrow r => NoRouting r
  | ZSetZ x f k => zrun e k R kont (set_zvar x (f e m) m)
  | ZSetFlag x f k => zrun e k R kont (set_zflag x (f e m) m)
  | ZSetRows x f k => zrun e k R kont (set_zrows x (f e m) m)
  | ZEmplace x f k => zrun e k R kont (set_zrows x (get_zrows x m ++ [f e m]) m)
  | ZAssignTable x f k => zrun e k R kont (set_ztab x (fun _ => f e m) m)
  | ZSetTable x key f k => zrun e k R kont (set_ztab x (upd (get_ztab x m) (key e m) (f e m)) m)
  | ZAssignSteps x k => zrun e k R kont (set_zsteps x (fun _ => js_default) m)
  | ZSetStep x key f k => zrun e k R kont (set_zsteps x (upd (get_zsteps x m) (key e m) (f e m)) m)
  | ZResetOverlay k => zrun e k R kont (zs_ov (fun _ => tqd_default) m)
  | ZResetFilters k => zrun e k R kont (zs_filters true m)
  | ZUnmodelled k => zrun e k R kont m
  | ZIf g th el k => if g e m then zrun e th R (zrun e k R kont) m else zrun e el R (zrun e k R kont) m
  | ZForRows x body k =>
      match fold_left (zrow_step (fun mm => zrun e body zmach (fun m2 => Ok m2) mm)) (get_zrows x m) (Ok m) with
      | Ok m' => zrun e k R kont m'
      | o => zpass o
      end
  end.

Definition run_reset (sk : zskel) (e : zenv) (m : zmach) : outcome zmach := zrun e sk zmach (fun m' => Ok m') m.
