(* C18 — every HTTP request gets one well-formed, correctly classified response (handler level). *)
From TrV Require Import Params Proofs.ParamsProofs Proofs.Index.
From Coq Require Import Permutation.
Local Open Scope Z_scope.

Theorem P_C18_total_route :
  forall rs so ct status q,
  exists code b, handle_route rs so ct status q = Http code b /\
    (code = 200%nat \/ code = 400%nat) /\
    (code = 400%nat <-> exists c, b = BQueryError c) /\
    (status <> 0%nat -> b = BDataError status /\ code = 200%nat) /\
    (status = 0%nat -> code = 200%nat -> exists cm alt, b = BAnswer 0 cm alt).
Proof. exact C18_total_route. Qed.
Print Assumptions P_C18_total_route.

Theorem P_C18_total_access :
  forall rs so ct status q,
  exists code b, handle_access rs so ct status q = Http code b /\
    (code = 200%nat \/ code = 400%nat) /\
    (code = 400%nat <-> exists c, b = BQueryError c) /\
    (status <> 0%nat -> b = BDataError status /\ code = 200%nat) /\
    (status = 0%nat -> code = 200%nat -> exists cm, b = BAnswer 1 cm false).
Proof. exact C18_total_access. Qed.
Print Assumptions P_C18_total_access.

Theorem P_C18_class_route_items :
  forall rs so ct q c,
  handle_route rs so ct 0 q = Http 400 (BQueryError c) ->
  (c = C_MISSING_PARAM_ORIGIN -> forall v, ~ In (KOrigin, v) q) /\
  (c = C_MISSING_PARAM_DESTINATION -> forall v, ~ In (KDestination, v) q) /\
  (c = C_INVALID_ORIGIN -> exists v, In (KOrigin, v) q /\ point_ok v = false) /\
  (c = C_INVALID_DESTINATION -> exists v, In (KDestination, v) q /\ point_ok v = false) /\
  (c = C_INVALID_NUMERICAL_DATA -> exists k v, In (k, v) q /\ is_numeric_key k = true /\ stoi v = None) /\
  (c = C_MISSING_PARAM_SCENARIO -> forall v sid, In (KScenario, v) q -> rs v <> Some (Some sid)) /\
  (c = C_EMPTY_SCENARIO -> exists v sid, In (KScenario, v) q /\ rs v = Some (Some sid) /\ so sid = 0%nat) /\
  (c = C_MISSING_PARAM_TIME_OF_TRIP ->
     (forall v, ~ In (KTime, v) q) \/ exists v x, In (KTime, v) q /\ stoi v = Some x /\ x < 0) /\
  (c = C_PARAM_ERROR_UNKNOWN ->
     (exists v, In (KScenario, v) q /\ rs v = None) \/
     exists cm alt, create_route rs so q = POk (cm, alt) /\ ct cm alt = true) /\
  c <> C_MISSING_PARAM_PLACE /\ c <> C_INVALID_PLACE.
Proof. exact C18_class_route_items. Qed.
Print Assumptions P_C18_class_route_items.

Theorem P_C18_class_access_items :
  forall rs so ct q c,
  handle_access rs so ct 0 q = Http 400 (BQueryError c) ->
  (c = C_MISSING_PARAM_PLACE -> forall v, ~ In (KPlace, v) q) /\
  (c = C_INVALID_PLACE -> exists v, In (KPlace, v) q /\ point_ok v = false) /\
  (c = C_INVALID_NUMERICAL_DATA -> exists k v, In (k, v) q /\ is_numeric_key k = true /\ stoi v = None) /\
  (c = C_MISSING_PARAM_SCENARIO -> forall v sid, In (KScenario, v) q -> rs v <> Some (Some sid)) /\
  (c = C_EMPTY_SCENARIO -> exists v sid, In (KScenario, v) q /\ rs v = Some (Some sid) /\ so sid = 0%nat) /\
  (c = C_MISSING_PARAM_TIME_OF_TRIP ->
     (forall v, ~ In (KTime, v) q) \/ exists v x, In (KTime, v) q /\ stoi v = Some x /\ x < 0) /\
  (c = C_PARAM_ERROR_UNKNOWN ->
     (exists v, In (KScenario, v) q /\ rs v = None) \/
     exists cm, create_access rs so q = POk cm /\ ct cm false = true) /\
  c <> C_MISSING_PARAM_ORIGIN /\ c <> C_MISSING_PARAM_DESTINATION /\
  c <> C_INVALID_ORIGIN /\ c <> C_INVALID_DESTINATION.
Proof. exact C18_class_access_items. Qed.
Print Assumptions P_C18_class_access_items.

Theorem P_C18_success_route :
  forall rs so ct q cm alt,
  handle_route rs so ct 0 q = Http 200 (BAnswer 0 cm alt) ->
  create_route rs so q = POk (cm, alt) /\ ct cm alt = false /\
  0 <= cm_time cm /\ 0 <= cm_minw cm /\ 0 < cm_maxtt cm /\ 0 < cm_maxacc cm /\ 0 < cm_maxegr cm /\
  0 < cm_maxtr cm /\ (cm_maxfw cm = -1 \/ 0 < cm_maxfw cm) /\
  (exists sid, cm_scen cm = Some sid /\ so sid <> 0%nat) /\
  params_ok so cm.
Proof. exact C18_success_route. Qed.
Print Assumptions P_C18_success_route.

Theorem P_C18_success_access :
  forall rs so ct q cm alt,
  handle_access rs so ct 0 q = Http 200 (BAnswer 1 cm alt) ->
  alt = false /\ create_access rs so q = POk cm /\ ct cm false = false /\
  0 <= cm_time cm /\ 0 <= cm_minw cm /\ 0 < cm_maxtt cm /\ 0 < cm_maxacc cm /\ 0 < cm_maxegr cm /\
  0 < cm_maxtr cm /\ (cm_maxfw cm = -1 \/ 0 < cm_maxfw cm) /\
  (exists sid, cm_scen cm = Some sid /\ so sid <> 0%nat) /\
  params_ok so cm.
Proof. exact C18_success_access. Qed.
Print Assumptions P_C18_success_access.

Theorem P_C18_defaults_items :
  forall rs q cm,
  common_loop rs q common_default = POk cm ->
  ((forall v, ~ In (KTime, v) q) -> cm_time cm = -1) /\
  ((forall v, ~ In (KMinWait, v) q) -> cm_minw cm = GEN_DEFAULT_MIN_WAITING_TIME) /\
  ((forall v, ~ In (KMaxTT, v) q) -> cm_maxtt cm = MAX_INT) /\
  ((forall v, ~ In (KMaxAcc, v) q) -> cm_maxacc cm = GEN_DEFAULT_MAX_ACCESS_TRAVEL_TIME) /\
  ((forall v, ~ In (KMaxEgr, v) q) -> cm_maxegr cm = GEN_DEFAULT_MAX_EGRESS_TRAVEL_TIME) /\
  ((forall v, ~ In (KMaxTr, v) q) -> cm_maxtr cm = GEN_DEFAULT_MAX_TRANSFER_TRAVEL_TIME) /\
  ((forall v, ~ In (KMaxFW, v) q) -> cm_maxfw cm = GEN_DEFAULT_FIRST_WAITING_TIME) /\
  ((forall v, ~ In (KTimeType, v) q) -> cm_fwd cm = true) /\
  ((forall v, ~ In (KScenario, v) q) -> cm_scen cm = None).
Proof. exact C18_defaults_items. Qed.
Print Assumptions P_C18_defaults_items.

Theorem P_C18_norm :
  forall rs q c cm,
  common_loop rs q c = POk cm ->
  ((exists v, In (KMaxTT, v) q) -> (forall v x, In (KMaxTT, v) q -> stoi v = Some x -> x <= 0) ->
     cm_maxtt cm = MAX_INT) /\
  ((exists v, In (KMaxAcc, v) q) -> (forall v x, In (KMaxAcc, v) q -> stoi v = Some x -> x <= 0) ->
     cm_maxacc cm = MAX_INT) /\
  ((exists v, In (KMaxEgr, v) q) -> (forall v x, In (KMaxEgr, v) q -> stoi v = Some x -> x <= 0) ->
     cm_maxegr cm = MAX_INT) /\
  ((exists v, In (KMaxTr, v) q) -> (forall v x, In (KMaxTr, v) q -> stoi v = Some x -> x <= 0) ->
     cm_maxtr cm = MAX_INT) /\
  ((exists v, In (KMaxFW, v) q) -> (forall v x, In (KMaxFW, v) q -> stoi v = Some x -> x <= 0) ->
     cm_maxfw cm = -1) /\
  ((exists v, In (KMinWait, v) q) -> (forall v x, In (KMinWait, v) q -> stoi v = Some x -> x < 0) ->
     cm_minw cm = 0) /\
  ((exists v, In (KTime, v) q) -> (forall v x, In (KTime, v) q -> stoi v = Some x -> x < 0) ->
     cm_time cm = -1).
Proof. exact C18_norm. Qed.
Print Assumptions P_C18_norm.

Theorem P_C18_order_route :
  forall rs so q q' x, NoDup (map fst q) -> Permutation q q' ->
  create_route rs so q = POk x -> create_route rs so q' = POk x.
Proof. exact C18_order_route. Qed.
Print Assumptions P_C18_order_route.

Theorem P_C18_order_access :
  forall rs so q q' x, NoDup (map fst q) -> Permutation q q' ->
  create_access rs so q = POk x -> create_access rs so q' = POk x.
Proof. exact C18_order_access. Qed.
Print Assumptions P_C18_order_access.

Theorem P_C18_update :
  forall names,
  (handle_update names = UError <-> (forall n, In n names -> n = None)) /\
  (forall l, handle_update names = USuccess l -> l <> [] /\ exists n, In n names /\ n <> None).
Proof. exact C18_update. Qed.
Print Assumptions P_C18_update.

Theorem P_C18_stoi_range :
  forall s x, stoi s = Some x -> INT_MIN <= x <= MAX_INT.
Proof. exact C18_stoi_range. Qed.
Print Assumptions P_C18_stoi_range.


(* no request time makes the scans read outside the hour tables: every lookup — negative hours, hour 32,
   hours beyond, the extremes of int — answers from its guard or from inside the 32-entry table *)
Theorem P_C18_fwd_scan_in_bounds : forall d p k all_nodes,
  dep_sorted (cs_fwd (k_set k)) ->
  (forall c, In c (cs_fwd (k_set k)) -> 0 <= c_dep c < 115200) ->
  cs_fidx (k_set k) = fwd_index (cs_fwd (k_set k)) ->
  exists st, fwd_scan d p k all_nodes = Ok st.
Proof. exact fwd_scan_total. Qed.
Print Assumptions P_C18_fwd_scan_in_bounds.

Theorem P_C18_rev_scan_in_bounds : forall d p k all_nodes,
  arr_sorted_desc (cs_rev (k_set k)) ->
  cs_ridx (k_set k) = rev_index (cs_rev (k_set k)) ->
  exists st, rev_scan d p k all_nodes = Ok st.
Proof. exact rev_scan_total. Qed.
Print Assumptions P_C18_rev_scan_in_bounds.

(* ---- the HTTP handler composed with factories, calculation and renderer (Http.v, Proofs/HttpProofs.v) ---- *)
From TrV Require Import Params Http Proofs.HttpProofs Properties.Common.
From TrV Require Import Spec Admissible Optimal Server Render Proofs.ServerInv Proofs.EndToEnd.

Theorem C18_http_route_classification : forall (uuid_of : Params.str -> option nat), forall sv status ep kvs acc egr, ep <> EAccess ->
  wf_data_b (sv_data sv) = true -> cache_inv (sv_data sv) (sv_cache sv) ->
  http_domain uuid_of (sv_data sv) ep kvs acc egr ->
  let d := sv_data sv in
  let resp := fst (http_serve uuid_of sv status ep kvs acc egr) in
  (status <> 0%nat /\ resp = HttpR 200 (HDataError status)) \/
  (status = 0%nat /\ (forall x, parse uuid_of d ep kvs <> POk x) /\
   exists code, resp = HttpR 400 (HQueryError code) /\
                route_defect (resolve uuid_of d) (services_of d) (fun _ _ => false) kvs code) \/
  (status = 0%nat /\
   exists c alt sid s, parse uuid_of d ep kvs = POk (c, alt) /\ cm_scen c = Some sid /\
     find_scenario d sid = Some s /\ in_domain d s (params_with sid c) acc egr /\
     route_answer_shape ep alt (echo_of_params (params_with sid c)) resp).
Proof. exact HttpProofs.http_route_classification. Qed.
Print Assumptions C18_http_route_classification.

Theorem C18_http_access_parsed_never_400 : forall (uuid_of : Params.str -> option nat), forall sv kvs acc egr c alt,
  wf_data_b (sv_data sv) = true -> cache_inv (sv_data sv) (sv_cache sv) ->
  http_domain uuid_of (sv_data sv) EAccess kvs acc egr ->
  parse uuid_of (sv_data sv) EAccess kvs = POk (c, alt) ->
  let resp := fst (http_serve uuid_of sv 0 EAccess kvs acc egr) in
  (exists b, resp = HttpR 200 b /\ body_echo b = Some (echo_of_common c)) \/
  (cm_fwd c = true /\ resp = HttpR 0 (HBad BK_Hang)).
Proof. exact HttpProofs.http_access_parsed. Qed.
Print Assumptions C18_http_access_parsed_never_400.

Theorem C18_http_route_success_meets_all_properties : forall (uuid_of : Params.str -> option nat), forall sv kvs acc egr rs total q,
  wf_data_b (sv_data sv) = true -> cache_inv (sv_data sv) (sv_cache sv) ->
  http_domain uuid_of (sv_data sv) ERoute kvs acc egr ->
  fst (http_serve uuid_of sv 0 ERoute kvs acc egr) = HttpR 200 (HRoute rs total q) ->
  let d := sv_data sv in
  exists c alt p s r1 tl,
    (* the parameters parsed, with the documented normalisations *)
    parse uuid_of d ERoute kvs = POk (c, alt) /\ params_of_common c = Some p /\
    find_scenario d (q_scenario p) = Some s /\ documented_params (resolve uuid_of d) kvs p /\
    wf_params_b p = true /\
    (* the echoed query is the parsed one *)
    q = echo_of_params p /\
    (* every route is a valid itinerary of the data within the limits of THAT p, with consistent totals *)
    rs = r1 :: tl /\
    (forall r, In r rs -> valid_itinerary_b d s p acc egr r = true /\ limits_ok_b d s p r = true /\
                          totals_ok_b d p r = true) /\
    (alt = false -> tl = [] /\ total = 1) /\
    (alt = true -> NoDup (map (fun r => sort_nat (route_lines d r)) rs) /\
                   Z.of_nat (length rs) <= 50 /\ Z.of_nat (length rs) <= total) /\
    (* the first route is optimal, and no other route of the answer is better *)
    first_route_optimal d s p acc egr r1 /\
    (pos_hops_b d = true -> (q_fwd p = true -> q_maxfw p <= 0) ->
       forall r, In r rs -> if q_fwd p then rt_arr r1 <= rt_arr r else rt_dep r <= rt_dep r1) /\
    (* /v2/summary for the same key/value list *)
    fst (http_serve uuid_of sv 0 ESummary kvs acc egr)
      = HttpR 200 (HSummary (Z.of_nat (length rs)) (summary_lines d rs) q).
Proof. exact HttpProofs.http_route_success. Qed.
Print Assumptions C18_http_route_success_meets_all_properties.

Theorem C18_http_no_routing_reason : forall (uuid_of : Params.str -> option nat), forall sv kvs acc egr rt q,
  wf_data_b (sv_data sv) = true -> cache_inv (sv_data sv) (sv_cache sv) ->
  http_domain uuid_of (sv_data sv) ERoute kvs acc egr ->
  fst (http_serve uuid_of sv 0 ERoute kvs acc egr) = HttpR 200 (HNoRouting rt q) ->
  let d := sv_data sv in
  exists c alt p s,
    parse uuid_of d ERoute kvs = POk (c, alt) /\ params_of_common c = Some p /\
    find_scenario d (q_scenario p) = Some s /\ documented_params (resolve uuid_of d) kvs p /\
    q = echo_of_params p /\
    rt = route_reason_text (ReasonIff.expected_reason d s p acc egr) /\
    (pos_hops_b d = true -> q_fwd p = true -> q_maxfw p <= 0 -> forall rides t, ~ admissible_fwd d s p acc egr rides t) /\
    (pos_hops_b d = true -> q_fwd p = false -> forall dep0 rides, ~ admissible_rev d s p acc egr dep0 rides) /\
    fst (http_serve uuid_of sv 0 ESummary kvs acc egr) = HttpR 200 (HSummary 0 [] q).
Proof. exact HttpProofs.http_route_no_routing. Qed.
Print Assumptions C18_http_no_routing_reason.


(* /v2/accessibility WITHOUT http_access_extra (Proofs/HttpAccess.v): forward accessibility terminates on well-formed
   data for every first-waiting cap and with zero-duration hops (LoadedLoops.count_transfers_fwd_terminates_mono) *)
From TrV Require Proofs.HttpAccess.

Theorem C18_http_access_classification_full : forall (uuid_of : Params.str -> option nat), forall sv status kvs acc egr,
  wf_data_b (sv_data sv) = true -> cache_inv (sv_data sv) (sv_cache sv) ->
  http_domain uuid_of (sv_data sv) EAccess kvs acc egr ->
  let d := sv_data sv in
  let resp := fst (http_serve uuid_of sv status EAccess kvs acc egr) in
  (status <> 0%nat /\ resp = HttpR 200 (HDataError status)) \/
  (status = 0%nat /\ (forall x, parse uuid_of d EAccess kvs <> POk x) /\
   exists code, resp = HttpR 400 (HQueryError code) /\
                access_defect (resolve uuid_of d) (services_of d) (fun _ _ => false) kvs code) \/
  (status = 0%nat /\
   exists c sid s, parse uuid_of d EAccess kvs = POk (c, false) /\ cm_scen c = Some sid /\ find_scenario d sid = Some s /\
     let p := params_with sid c in
     let rows := if q_fwd p then acc else egr in
     HttpAccess.access_dom_wf d s p rows /\
     exists o, o = access_answer d s p rows /\ is_bad o = false /\
       (pos_hops_b d = true -> (q_fwd p = true -> q_maxfw p <= 0) ->
        access_dom d s p rows /\ (if q_fwd p then C08_of d s p rows o else C09_of d s p rows o)) /\
       ((exists l total, o = Ok (l, total) /\
           resp = HttpR 200 (HAccess (map (render_node (q_fwd p)) l) total (echo_of_params p))) \/
        (exists reason, o = NoRouting reason /\
           resp = HttpR 200 (HNoRouting (access_reason_text reason) (echo_of_params p))))).
Proof. exact HttpAccess.http_access_classification_full. Qed.
Print Assumptions C18_http_access_classification_full.

Theorem C18_http_access_never_bad : forall (uuid_of : Params.str -> option nat), forall sv status kvs acc egr,
  wf_data_b (sv_data sv) = true -> cache_inv (sv_data sv) (sv_cache sv) ->
  http_domain uuid_of (sv_data sv) EAccess kvs acc egr ->
  is_hbad (fst (http_serve uuid_of sv status EAccess kvs acc egr)) = false.
Proof. exact HttpAccess.http_access_never_bad. Qed.
Print Assumptions C18_http_access_never_bad.

(* ---- THE PARAMETER FACTORIES ARE WHAT THE CODE SAYS (Proofs/ParamGuardsTie.v): the key strings, the conversion and the
   normalisation of every parameter, the value a parameter has when its key is absent, the ParameterException types and the
   order of the missing / invalid parameter tests of common_parameters.cpp, route_parameters.cpp, accessibility_parameters.cpp
   and parameters.hpp are regenerated from the CURRENT C++ sources into gen/ParamGuards.v (tools/gen_param_guards.py) on every
   run.  A dropped `<= 0 -> -1` rewrite, an assignment turned into "assign only when positive", a renamed key, a changed
   default, two swapped tests stop this file from compiling.
   `PGT.key_of_str` is the key a raw string names (the table of the differential driver, ocaml/driver.ml `key_of`),
   `PGT.keyed` applies it to a request, `PGT.g_of` reads a `common` record as the locals of the C++ factory,
   `PGT.gres_of` maps the model's outcome (POk / PErr / PExn) to the generated one, `PGT.split1` is boost::split for a
   one-character separator set (`split_on`), `PGT.codes_of` the character codes of a string. ---- *)
From TrV Require Proofs.ParamGuardsTie.
From TrV Require gen.ParamGuards.
Module PG := TrV.gen.ParamGuards.
Module PGT := TrV.Proofs.ParamGuardsTie.

Section C18_parameter_factories_are_code.
Import Coq.Strings.String.

Theorem C18_parameter_keys_are_code :
  PG.gen_key_time_of_trip = [PGT.codes_of "time_of_trip"%string] /\ PGT.key_of_str (PGT.codes_of "time_of_trip"%string) = KTime /\
  PG.gen_key_time_type = [PGT.codes_of "time_type"%string] /\ PGT.key_of_str (PGT.codes_of "time_type"%string) = KTimeType /\
  PG.gen_key_scenario_id = [PGT.codes_of "scenario_id"%string] /\ PGT.key_of_str (PGT.codes_of "scenario_id"%string) = KScenario /\
  PG.gen_key_min_waiting_time = [PGT.codes_of "min_waiting_time"%string] /\ PGT.key_of_str (PGT.codes_of "min_waiting_time"%string) = KMinWait /\
  PG.gen_key_max_travel_time = [PGT.codes_of "max_travel_time"%string] /\ PGT.key_of_str (PGT.codes_of "max_travel_time"%string) = KMaxTT /\
  PG.gen_key_max_access_travel_time = [PGT.codes_of "max_access_travel_time"%string] /\
    PGT.key_of_str (PGT.codes_of "max_access_travel_time"%string) = KMaxAcc /\
  PG.gen_key_max_egress_travel_time = [PGT.codes_of "max_egress_travel_time"%string] /\
    PGT.key_of_str (PGT.codes_of "max_egress_travel_time"%string) = KMaxEgr /\
  PG.gen_key_max_transfer_travel_time = [PGT.codes_of "max_transfer_travel_time"%string] /\
    PGT.key_of_str (PGT.codes_of "max_transfer_travel_time"%string) = KMaxTr /\
  PG.gen_key_max_first_waiting_time = [PGT.codes_of "max_first_waiting_time"%string] /\
    PGT.key_of_str (PGT.codes_of "max_first_waiting_time"%string) = KMaxFW /\
  PG.gen_key_origin = [PGT.codes_of "origin"%string] /\ PGT.key_of_str (PGT.codes_of "origin"%string) = KOrigin /\
  PG.gen_key_destination = [PGT.codes_of "destination"%string] /\ PGT.key_of_str (PGT.codes_of "destination"%string) = KDestination /\
  PG.gen_key_alternatives = [PGT.codes_of "alternatives"%string] /\ PGT.key_of_str (PGT.codes_of "alternatives"%string) = KAlternatives /\
  PG.gen_key_place = [PGT.codes_of "place"%string] /\ PGT.key_of_str (PGT.codes_of "place"%string) = KPlace /\
  (forall ks, (forall k, In k PGT.all_keys -> ks <> PGT.key_name k) -> PGT.key_of_str ks = KOther).
Proof. exact PGT.parameter_keys_are_code. Qed.
Print Assumptions C18_parameter_keys_are_code.

Theorem C18_parameter_normalisation_is_code : forall rs : Params.str -> option (option nat),
  (forall v, PG.gen_norm_time_of_trip v = if v <? 0 then -1 else v) /\
  (forall v, PG.gen_norm_min_waiting_time v = if v <? 0 then 0 else v) /\
  (forall v, PG.gen_norm_max_travel_time v = if v <=? 0 then MAX_INT else v) /\
  (forall v, PG.gen_norm_max_access_travel_time v = if v <=? 0 then MAX_INT else v) /\
  (forall v, PG.gen_norm_max_egress_travel_time v = if v <=? 0 then MAX_INT else v) /\
  (forall v, PG.gen_norm_max_transfer_travel_time v = if v <=? 0 then MAX_INT else v) /\
  (forall v, PG.gen_norm_max_first_waiting_time v = if v <=? 0 then -1 else v) /\
  (forall k old v, is_numeric_key k = true ->
     PGT.gen_upd_of k old v = PGT.gen_norm_of k v /\ PGT.gen_norm_of k v = ParamsProofs.norm k v) /\
  (forall k c x, is_numeric_key k = true -> PGT.gen_step_of k (PGT.g_of c) x = PGT.g_of (set_field c k x)) /\
  PG.gen_int_conversion_is_stoi = true /\ PG.gen_int_conversion_error = E_INVALID_NUMERICAL_DATA /\
  (forall c v, PG.gen_step_time_type (PGT.g_of c) v =
               PGT.g_of (if list_eqb v (PGT.codes_of "1"%string) then ParamsProofs.set_fwd c false else c)) /\
  (forall c r, PG.gen_step_scenario_id (PGT.g_of c) r =
               PGT.g_of (match r with Some sid => ParamsProofs.set_scen c (Some sid) | None => c end)) /\
  (forall ks v c, PG.gen_common_body stoi rs ks v (PGT.g_of c) =
                  PGT.gres_of PGT.g_of (ParamsProofs.cstep rs (PGT.key_of_str ks) v c)).
Proof. exact PGT.parameter_normalisation_is_code. Qed.
Print Assumptions C18_parameter_normalisation_is_code.

Theorem C18_parameter_defaults_are_code :
  PG.gen_common_init = PGT.g_of common_default /\
  PG.gen_common_init = {| PG.g_time := -1; PG.g_minw := 180; PG.g_maxtt := MAX_INT; PG.g_maxacc := 1200; PG.g_maxegr := 1200;
                          PG.g_maxtr := 1200; PG.g_maxfw := 1800; PG.g_fwd := true; PG.g_scen := None |} /\
  PG.gen_route_init = {| PG.r_origin := false; PG.r_destination := false; PG.r_alt := false |} /\
  PG.gen_access_init = {| PG.a_place := false |}.
Proof. exact PGT.parameter_defaults_are_code. Qed.
Print Assumptions C18_parameter_defaults_are_code.

Theorem C18_factory_check_order_is_code : forall (rs : Params.str -> option (option nat)) (so : nat -> nat),
  (forall s n, map snd (PG.gen_common_check_rules s n) = [E_MISSING_SCENARIO; E_EMPTY_SCENARIO; E_MISSING_TIME_OF_TRIP]) /\
  (forall st, map snd (PG.gen_route_check_rules st) = [E_MISSING_ORIGIN; E_MISSING_DESTINATION]) /\
  (forall st, map snd (PG.gen_access_check_rules st) = [E_MISSING_PLACE]) /\
  PG.gen_origin_invalid_error = E_INVALID_ORIGIN /\ PG.gen_destination_invalid_error = E_INVALID_DESTINATION /\
  PG.gen_place_invalid_error = E_INVALID_PLACE /\
  (forall v, PG.gen_origin_point_ok stod_ok (PGT.split1 PG.gen_origin_separators v) = point_ok v) /\
  (forall v, PG.gen_destination_point_ok stod_ok (PGT.split1 PG.gen_destination_separators v) = point_ok v) /\
  (forall v, PG.gen_place_point_ok stod_ok (PGT.split1 PG.gen_place_separators v) = point_ok v) /\
  (forall q, PG.gen_create_common stoi rs so q = PGT.gres_of PGT.g_of (create_common rs so (PGT.keyed q))) /\
  (forall q, PG.gen_create_route PGT.split1 stod_ok stoi rs so q =
             PGT.gres_of (fun x : common * bool => (PGT.g_of (fst x), snd x)) (create_route rs so (PGT.keyed q))) /\
  (forall q, PG.gen_create_access PGT.split1 stod_ok stoi rs so q =
             PGT.gres_of PGT.g_of (create_access rs so (PGT.keyed q))).
Proof. exact PGT.factory_check_order_is_code. Qed.
Print Assumptions C18_factory_check_order_is_code.
End C18_parameter_factories_are_code.

(* ---- the process-level glue of transit_routing_http_server.cpp IS the code (tools/gen_handler_guards.py regenerates
   gen/HandlerGuards.v from the current source on every run; Proofs/HandlerGuardsTie.v ties the model to it): the parameter keys
   of /updateCache, the chain of update blocks in source order with the flag each sets, the status recomputed after the loop,
   the success / error object; the text of getFastErrorResponse for every status; the codes of getResponseCode.  A dropped
   `correctCacheName = true`, a removed alias, two swapped blocks, a table in another order, a dropped case stop this file
   from compiling ---- *)
From Coq Require String.
From TrV Require Loader Loader2 Proofs.HandlerGuardsTie gen.HandlerGuards.
Module HG := TrV.gen.HandlerGuards.
Module HT := TrV.Proofs.HandlerGuardsTie.
Section HandlerGlueC18.
Import String.   (* local to this section: the string literals below *)

(* which parameter of /updateCache is read as what: six spellings for the cache names, three for the custom path, in source
   order; a parameter of any other key does nothing (in particular it is not taken for the path) *)
Theorem C18_update_cache_keys_are_code : forall k,
  HT.key_actions HG.gen_update_key_rules k =
  if HT.text_in k ["names"; "caches"; "cache_names"; "name"; "cache"; "cache_name"]%string then [HG.KA_names]
  else if HT.text_in k ["path"; "custom_path"; "custom_cache_path"]%string then [HG.KA_path]
  else [].
Proof. exact HT.update_keys_code. Qed.
Print Assumptions C18_update_cache_keys_are_code.

(* a cache name counts as known iff a block of the source's chain names it AND that block sets the flag; these are "all" and
   the ten collection names; the response is Params.handle_update on exactly this notion of known: the error object iff no
   name is known, else the success object listing every name from the first known one on *)
Theorem C18_update_cache_names_are_code :
  (forall n, HT.known n = existsb (fun it => match it with HG.Block c sets _ => HT.holds c n && sets | HG.Append _ _ => false end)
                                  HG.gen_update_loop) /\
  (forall n, HT.known n = true <-> n = "all"%string \/ exists k, n = HT.kind_name k) /\
  (forall names path,
     HT.update_response names path =
     match handle_update (map HT.known_opt names) with
     | UError => "{""status"": ""error"", ""error"": ""missing or wrong cache name""}"%string
     | USuccess l => HT.success_body (HT.drop_last (HT.concat_text (map (fun i => String.append (nth i names ""%string) ","%string) l))) path
     end) /\
  HG.gen_update_status_line = "HTTP/1.1 200 OK"%string.
Proof.
  split; [exact HT.update_known_code|]. split; [exact HT.known_iff|].
  split; [exact (fun names path => proj1 (HT.update_response_code names path))|reflexivity].
Qed.
Print Assumptions C18_update_cache_names_are_code.

(* the chain of blocks is one block per kind of Loader2.handler_order, in that order, each selected by its own name or "all",
   each setting the flag and handing the custom path to its update; run on any list of names the source's loop makes exactly
   the updates of Loader2.update, in the same order ("all": every update, in the order of the blocks - not loadAllData) *)
Theorem C18_update_cache_order_is_code :
  HG.gen_update_loop = (map HT.block_of Loader2.handler_order ++ [HG.Append true ","%string])%list /\
  (forall names, HT.u_calls (HT.update_code names) = flat_map HT.calls_of names) /\
  HT.calls_of "all"%string = map HT.kind_method Loader2.handler_order /\
  (forall k, HT.calls_of (HT.kind_name k) = [HT.kind_method k]) /\
  (forall n, HT.known n = false -> HT.calls_of n = []) /\
  (forall f names s,
     Loader2.update f (map HT.cname_of names) s = fold_left (HT.apply_call f) (HT.u_calls (HT.update_code names)) s).
Proof.
  split; [exact HT.update_loop_code|]. split; [exact HT.update_calls_code|]. split; [exact HT.update_calls_all|].
  split; [exact HT.update_calls_kind|]. split; [exact HT.update_calls_unknown | exact HT.update_is_code].
Qed.
Print Assumptions C18_update_cache_order_is_code.

(* after the loop the status is recomputed from the collections, whatever the outcome, into the variable the three /v2
   handlers read by reference: the status the endpoints answer from is Loader2.status_of *)
Theorem C18_update_cache_status_is_code : forall success old s,
  HT.status_after_code HG.gen_update_status_refresh success old s = Loader2.status_of s /\
  HG.gen_update_status_shared_by_reference = true.
Proof. exact HT.update_status_code. Qed.
Print Assumptions C18_update_cache_status_is_code.

(* getFastErrorResponse, evaluated for every enumerator of DataStatus (a switch, an if-chain and a table read the same):
   READY gives the empty text - the only status that is not answered on the fast path, the test of Http.http_serve -, every
   status the loader can produce gives the data_error object with the code naming the missing collection *)
Theorem C18_data_error_codes_are_code :
  (forall st, HG.gen_fast_error st = HT.fast_error_expected st) /\
  (forall st, negb (String.eqb (HG.gen_fast_error st) ""%string) = negb (Nat.eqb st 0)) /\
  (forall z, Loader.data_status z <> Loader.ST_READY ->
     exists c, HT.status_error_code (Loader.data_status z) = Some c /\ HG.gen_fast_error (Loader.data_status z) = HT.data_error_body c) /\
  HT.status_error_code Loader.ST_NO_AGENCIES = Some "MISSING_DATA_AGENCIES"%string /\
  HT.status_error_code Loader.ST_NO_SERVICES = Some "MISSING_DATA_SERVICES"%string /\
  HT.status_error_code Loader.ST_NO_NODES = Some "MISSING_DATA_NODES"%string /\
  HT.status_error_code Loader.ST_NO_LINES = Some "MISSING_DATA_LINES"%string /\
  HT.status_error_code Loader.ST_NO_PATHS = Some "MISSING_DATA_PATHS"%string /\
  HT.status_error_code Loader.ST_NO_SCENARIOS = Some "MISSING_DATA_SCENARIOS"%string /\
  HT.status_error_code Loader.ST_NO_SCHEDULES = Some "MISSING_DATA_SCHEDULES"%string /\
  HT.status_error_code 1%nat = Some "DATA_ERROR"%string.
Proof.
  split; [exact HT.fast_error_code|]. split; [exact HT.fast_path_iff_not_ready|]. split; [exact HT.fast_error_of_data_status|].
  repeat split; reflexivity.
Qed.
Print Assumptions C18_data_error_codes_are_code.

(* getResponseCode: the enumerators of ParameterException::Type are the E_* of Params.v and the text for each is the spelling
   of Params.response_code *)
Theorem C18_query_error_codes_are_code : forall e, HG.gen_response_code e = HT.errcode_text (response_code e).
Proof. exact HT.response_code_code. Qed.
Print Assumptions C18_query_error_codes_are_code.
End HandlerGlueC18.

(* ---- the skeleton of the three /v2 handlers IS the code (gen/HandlerGuards.v `gen_v2_route`, `gen_v2_summary`,
   `gen_v2_accessibility`, regenerated from the current transit_routing_http_server.cpp; Proofs/HandlerGuardsTie.v): the
   data-status fast path, the factory, the calculator method for alternatives / single / accessibility, the renderer class, which
   exception gives which answer with which status line.  `HT.handler_of ep` is the generated record of endpoint ep,
   `HT.code_of_line "HTTP/1.1 400 OK" = 400` ---- *)
Section HandlerGlueC18v2.
Import String.   (* local to this section: the string literals below *)

Theorem C18_v2_handlers_are_code :
  HG.gen_v2_route = (HT.v2_expected "RouteParameters::createRouteODParameter" (Some "alternativesRouting") "calculateSingle" "ResultToV2Response")%string /\
  HG.gen_v2_summary = (HT.v2_expected "RouteParameters::createRouteODParameter" (Some "alternativesRouting") "calculateSingle" "ResultToV2SummaryResponse")%string /\
  HG.gen_v2_accessibility = (HT.v2_expected "AccessibilityParameters::createAccessibilityParameter" None "calculateAllNodes" "ResultToV2AccessibilityResponse")%string.
Proof. exact HT.v2_handlers_code. Qed.
Print Assumptions C18_v2_handlers_are_code.

(* Http.http_serve, fast path: its test `status <> 0` is the source's `!getFastErrorResponse(dataStatus).empty()`, answered with
   the status line of that branch; otherwise the factory of the endpoint (Http.parse), then the calculation, then the rendering *)
Theorem C18_v2_fast_path_is_code : forall (uuid_of : Params.str -> option nat) sv st ep kvs acc egr,
  http_serve uuid_of sv st ep kvs acc egr =
  if HG.h_fast_path (HT.handler_of ep) && negb (String.eqb (HG.gen_fast_error st) ""%string)
  then (HttpR (HT.code_of_line (HG.h_fast_status (HT.handler_of ep))) (HDataError st), sv)
  else
    let r := request_of uuid_of (sv_data sv) ep kvs acc egr in
    let '(a, sv1) := serve sv r in
    (render (sv_data sv) (is_summary ep) (echo_of_request r) a, sv1).
Proof. exact HT.v2_fast_path_code. Qed.
Print Assumptions C18_v2_fast_path_is_code.

Theorem C18_v2_factory_and_renderer_are_code : forall (uuid_of : Params.str -> option nat),
  (forall d ep kvs,
     parse uuid_of d ep kvs =
     if HT.factory_is_access (HG.h_factory (HT.handler_of ep))
     then match create_access (resolve uuid_of d) (Http.services_of d) kvs with
          | POk c => POk (c, false) | PErr e => PErr e | PExn => PExn
          end
     else create_route (resolve uuid_of d) (Http.services_of d) kvs) /\
  (forall ep,
     HT.factory_is_route (HG.h_factory (HT.handler_of ep)) = negb (HT.factory_is_access (HG.h_factory (HT.handler_of ep))) /\
     is_summary ep = HT.renders_summary (snd (HG.h_single (HT.handler_of ep))) /\
     (forall m r, HG.h_alt (HT.handler_of ep) = Some (m, r) -> r = snd (HG.h_single (HT.handler_of ep))) /\
     (HG.h_alt (HT.handler_of ep) = None <-> ep = EAccess)).
Proof. exact (fun uuid_of => conj (HT.v2_factory_code uuid_of) HT.v2_renderer_code). Qed.
Print Assumptions C18_v2_factory_and_renderer_are_code.

(* Server.respond IS the calculator method the handler calls: alternativesRouting when the query asks for alternatives,
   calculateSingle otherwise, calculateAllNodes for /v2/accessibility *)
Theorem C18_v2_calculation_is_code :
  (forall ep d cs p alt acc egr, ep <> EAccess ->
     HT.method_response (HT.handler_method (HT.handler_of ep) alt) d cs (QRoute p alt acc egr) = Some (respond d cs (QRoute p alt acc egr))) /\
  (forall d cs p rows alt,
     HT.method_response (HT.handler_method (HT.handler_of EAccess) alt) d cs (QAccess p rows) = Some (respond d cs (QAccess p rows))).
Proof. exact HT.v2_calculation_code. Qed.
Print Assumptions C18_v2_calculation_is_code.

(* Http.render / render_outcome: a result and NoRoutingFoundException (caught inside, the renderer class's
   noRoutingFoundResponse) are sent with the status line after the inner try (200); ParameterException gives the query error with
   the code of getResponseCode = Params.response_code (400); anything else PARAM_ERROR_UNKNOWN (400) *)
Theorem C18_v2_exceptions_are_code : forall ep,
  (forall (A : Type) (x : A) ok nr, render_outcome (Ok x) ok nr = HttpR (HT.code_of_line (HG.h_ok_status (HT.handler_of ep))) (ok x)) /\
  (exists r, HG.h_inner_catch (HT.handler_of ep) = [("NoRoutingFoundException"%string, r)]) /\
  (forall (A : Type) reason (ok : A -> http_body) nr,
     render_outcome (NoRouting reason) ok nr = HttpR (HT.code_of_line (HG.h_ok_status (HT.handler_of ep))) (nr reason)) /\
  (exists body line, HT.catch_of (HT.handler_of ep) "ParameterException"%string = Some (body, line) /\
     (forall d summary q c, render d summary q (AError c) = HttpR (HT.code_of_line line) (HQueryError (response_code c))) /\
     (forall c, body (HG.gen_response_code c) = HT.query_error_body (HT.errcode_text (response_code c)))) /\
  (exists body line, HT.catch_of (HT.handler_of ep) "..."%string = Some (body, line) /\
     (forall (A : Type) t (ok : A -> http_body) nr,
        render_outcome (Exn t) ok nr = HttpR (HT.code_of_line line) (HQueryError C_PARAM_ERROR_UNKNOWN)) /\
     (forall c, body c = HT.query_error_body (HT.errcode_text C_PARAM_ERROR_UNKNOWN))).
Proof. exact HT.v2_exceptions_code. Qed.
Print Assumptions C18_v2_exceptions_are_code.
End HandlerGlueC18v2.

(* tie to the source, the RENDERERS: the JSON of every 200 answer of the handler model that carries a result or a reason
   (RenderJson.json_of_body: status, the echoed query, result / reason, keys in wire order) is what the interpreter of
   RenderJson.v builds from the (key, member) tables tools/gen_render.py reads from result_to_v2.cpp,
   result_to_v2_accessibility.cpp and result_to_v2_summary.cpp AS THEY ARE NOW (gen/Render.v) *)
Require Coq.Strings.String.
Require TrV.Http TrV.RenderJson TrV.gen.Render.
From TrV Require Proofs.RenderTie.
Module RJ.
  Import TrV.Http Coq.Strings.String TrV.RenderJson TrV.Proofs.RenderTie.
  Theorem C18_json_bodies_are_code : forall d q,
    (forall x, json_of_body false (resp_body (render d false q (ARoute (Ok x)))) = Some (code_route_answer_single (fst x) q)) /\
    (forall x, json_of_body false (resp_body (render d false q (AAlt (Ok x)))) = Some (code_route_answer_alt (fst x) (snd x) q)) /\
    (forall r, json_of_body false (resp_body (render d false q (ARoute (NoRouting r)))) = Some (code_noroute r q)) /\
    (forall r, json_of_body false (resp_body (render d false q (AAlt (NoRouting r)))) = Some (code_noroute r q)) /\
    (forall x, json_of_body false (resp_body (render d true q (ARoute (Ok x)))) = Some (code_summary_single d (fst x) q)) /\
    (forall x, json_of_body false (resp_body (render d true q (AAlt (Ok x)))) = Some (code_summary_alt d (fst x) q)) /\
    (forall r, json_of_body false (resp_body (render d true q (ARoute (NoRouting r)))) = Some (code_summary_noroute d q)) /\
    (forall r, json_of_body false (resp_body (render d true q (AAlt (NoRouting r)))) = Some (code_summary_noroute d q)) /\
    (forall x, json_of_body true (resp_body (render d false q (AAccess (Ok x)))) = Some (code_access_answer (fst x) (snd x) q)) /\
    (forall r, json_of_body true (resp_body (render d false q (AAccess (NoRouting r)))) = Some (code_access_noroute r q)).
  Proof. exact http_render_json. Qed.
  Theorem C18_json_query_echo_is_code : forall q,
    json_of_route_query q = render_query GR.gen_render_route_query q /\
    json_of_route_query q = render_query GR.gen_render_summary_query q /\
    json_of_access_query q = render_query GR.gen_render_access_query q /\
    render_point GR.gen_render_route_point = Some json_of_point /\
    render_point GR.gen_render_access_point = Some json_of_point /\
    render_point GR.gen_render_summary_point = Some json_of_point.
  Proof. intro q. exact (conj (route_query_tie q) (conj (summary_query_tie q) (conj (access_query_tie q) points_tie))). Qed.
End RJ.
Print Assumptions RJ.C18_json_bodies_are_code.
Print Assumptions RJ.C18_json_query_echo_is_code.
