(* C02 — query limits and scenario restrictions are honoured by every route. *)
From TrV Require Import Properties.Common.
Local Open Scope Z_scope.

Definition C02_full_statement : Prop :=
  forall d s p acc egr, in_domain d s p acc egr ->
    (forall r used, answer_route d s p acc egr = Ok (r, used) -> limits_ok_b d s p r = true) /\
    (forall rs n, answer_alt d s p acc egr = Ok (rs, n) -> forall r, In r rs -> limits_ok_b d s p r = true).

Theorem C02_example :
  match answer_route ex_data scen_all (ex_params true 35000) ex_acc ex_egr with
  | Ok (r, _) => limits_ok_b ex_data scen_all (ex_params true 35000) r = true
  | _ => False
  end.
Proof. vm_compute. auto. Qed.
Print Assumptions C02_example.
