(* C02 — query limits and scenario restrictions are honoured by every route. *)
From TrV Require Import Properties.Common.
Local Open Scope Z_scope.

Definition C02_full_statement : Prop :=
  forall d s p acc egr, in_domain d s p acc egr ->
    (forall r used, answer_route d s p acc egr = Ok (r, used) -> limits_ok_b d s p r = true) /\
    (forall rs n, answer_alt d s p acc egr = Ok (rs, n) -> forall r, In r rs -> limits_ok_b d s p r = true).

Theorem C02_example :
  match answer_route ex_data scen_all (ex_params true 35000) ex_acc ex_egr with
  | Ok (r, _) => limits_ok_b ex_data scen_all (ex_params true 35000) r = true
  | _ => False
  end.
Proof. vm_compute. auto. Qed.
Print Assumptions C02_example.

(* every route calculateSingle returns honours the time limits, the walking maxima, the first-waiting cap
   and the scenario/exclusion rules — both query directions, fresh or kept rows, any excluded lines *)
From TrV Require Import Proofs.Limits.
Theorem C02_single_route_limits : forall d s p acc egr fresh r used,
  wf_data_b d = true -> wf_tables_b d p acc egr = true -> wf_params_b p = true ->
  calc_single d (conn_set d s) p acc egr fresh = Ok (r, used) ->
  limits_ok_b d s p r = true.
Proof. exact calc_single_limits. Qed.
Print Assumptions C02_single_route_limits.

From TrV Require Import Proofs.Compose.
Theorem C02_alternatives_limits : forall d s p acc egr rs total,
  wf_data_b d = true -> wf_tables_b d p acc egr = true -> wf_params_b p = true ->
  alternatives d (conn_set d s) p acc egr = Ok (rs, total) ->
  forall r, In r rs -> limits_ok_b d s p r = true.
Proof. intros d s p acc egr rs total H1 H2 H3 H r Hr. exact (proj1 (proj2 (alternatives_all_ok d s p acc egr rs total H1 H2 H3 H r Hr))). Qed.
Print Assumptions C02_alternatives_limits.

(* the full statement, assembled *)
From TrV Require Import Proofs.Assemble.
Theorem C02_full : C02_full_statement.
Proof. exact C02_assembled. Qed.
Print Assumptions C02_full.

(* tie to the source: the model's reverse step and best-access selection are the control skeleton instantiated with
   the guards tools/gen_guards.py translated from reverse_calculation.cpp AS IT IS NOW (gen/Guards.v) *)
From TrV Require Import Proofs.GuardsTie.
Theorem C02_reverse_step_is_code : forall d p k st c, rev_step_code d p k st c = rev_step d p k false st c.
Proof. exact rev_step_tie. Qed.
Print Assumptions C02_reverse_step_is_code.
Theorem C02_best_access_is_code : forall p k st, best_access_sk G.gen_rev_best_time G.gen_rev_best_ok p k st = best_access p k st.
Proof. exact best_access_tie. Qed.
Print Assumptions C02_best_access_is_code.

(* the whole reverse scan (entry slot of the hour index + every step) as the source writes it now *)
Theorem C02_reverse_scan_is_code : forall d p k, rev_scan_code d p k = rev_scan d p k false.
Proof. exact rev_scan_tie. Qed.
Print Assumptions C02_reverse_scan_is_code.

(* tie to the source, geographic filters: the walking tables themselves honour the maximum they were asked for.
   src/euclideangeofilter.cpp and the row loop of src/osrmgeofilter.cpp are read AS THEY ARE NOW by tools/gen_geo.py into
   TYPED expression trees (gen/Geo.v) and evaluated by coq/Geo.v (int operations wrap to 32 bits, floating operations
   are exact rationals — float ROUNDING is outside the model —, `int x = <float>` truncates and is an error outside the
   int range).  This is the `fp_time r <=? q_maxacc p` conjunct of wf_tables_b for the rows the server builds itself.
   Hypothesis `d2 < 2^62`: the stop is less than 2^31 m away (GeoTie.env_d2_on_earth: true of any two points given in
   degrees); beyond, `int distanceMeters = sqrt(..)` is undefined behaviour and "no limit" does not exclude it. *)
From Coq Require QArith Qround.
Require TrV.Geo TrV.gen.Geo.
From TrV Require Proofs.GeoTie.
Module GEO.
  Import Coq.QArith.QArith Coq.QArith.Qround TrV.Geo TrV.Proofs.GeoTie.
  Local Open Scope Z_scope.
  Theorem C02_euclidean_rows_within_maximum : forall (ie : ivar -> Z) (fe : fvar -> Q),
    0 <= ie IMaxT -> in_int (ie IMaxT) = true -> (0 < fe FSpeed)%Q -> (env_d2 fe < inject_Z (2 ^ 62))%Q ->
    eval ie fe GG.gen_geo_euclid_guard = Some (VB true) ->
    exists dist time,
      eval ie fe GG.gen_geo_euclid_distance = Some (VI dist) /\ dist = Z.sqrt (Qfloor (env_d2 fe)) /\ 0 <= dist /\
      eval ie fe GG.gen_geo_euclid_time = Some (VI time) /\ time = Qtrunc (inject_Z dist / fe FSpeed) /\
      0 <= time <= ie IMaxT.
  Proof.
    intros ie fe H1 H2 H3 H4 H5. destruct (euclid_row_within_maximum ie fe H1 H2 H3 H4 H5) as [dist [time [A [B [C [D [E [F _]]]]]]]].
    exists dist, time. repeat split; try assumption; try (apply F). rewrite E, B. reflexivity.
  Qed.
  (* a row of the walking router's reply is kept iff ceil(duration) <= the maximum; its time is that ceil *)
  Theorem C02_osrm_row_guard_is_code : forall (ie : ivar -> Z) (fe : fvar -> Q),
    in_int (ie IMaxT) = true -> in_int (Qceiling (fe FDuration)) = true ->
    eval ie fe GG.gen_geo_osrm_row_time = Some (VI (Qceiling (fe FDuration))) /\
    eval ie fe GG.gen_geo_osrm_row_guard = Some (VB (Qceiling (fe FDuration) <=? ie IMaxT)).
  Proof.
    intros ie fe H1 H2. split.
    - unfold GG.gen_geo_osrm_row_time. geo_eval. rewrite (f2i_inject_Z _ H2). reflexivity.
    - exact (osrm_row_guard_is_code ie fe H1 H2).
  Qed.
End GEO.
Print Assumptions GEO.C02_euclidean_rows_within_maximum.
Print Assumptions GEO.C02_osrm_row_guard_is_code.


(* tie to the source, the trip filter: the chain of tests on `enabled` in TransitData::getConnectionsForScenario
   (transit_data.cpp) and its second, live copy over the REQUEST's lists in Calculator::resetFilters (resets.cpp) are read
   AS THEY ARE NOW by tools/gen_scenario.py (gen/Scenario.v: per test the list whose size() > 0 is required, the list
   searched, the trip attribute, `== end` / `!= end`, the value written, the conjunct `enabled`; empty bodies included) and
   executed by the interpreter of ScenCode.v.  "Only rides trips the scenario admits" is stated with Data.trip_enabled /
   Spec.trip_admitted: these ARE what the two chains compute *)
Require TrV.ScenCode TrV.gen.Scenario.
From TrV Require Proofs.ScenarioTie.
Module SCN.
  Import TrV.ScenCode TrV.Proofs.ScenarioTie.
  Theorem C02_scenario_filter_is_code : forall d s t,
    trip_enabled d s t = run_filter GS.gen_scen_filter d s t.
  Proof. exact scen_filter_is_code. Qed.
  Print Assumptions C02_scenario_filter_is_code.
  Theorem C02_request_filter_is_code : forall d s p t,
    trip_admitted d s p t =
    run_filter GS.gen_scen_filter d s t && run_filter_on GS.gen_reset_filter d (param_lists p) t.
  Proof. exact request_filter_is_code. Qed.
  Print Assumptions C02_request_filter_is_code.
  (* the per-request exclusion the scans test (Scan.disabled_of, k_disabled) is the map the loop of resetFilters leaves *)
  Theorem C02_disabled_trips_is_code : forall d p cs t,
    b_maps (run_reset_loop d p cs) 0%nat t = disabled_of d p cs t.
  Proof. exact reset_loop_is_code. Qed.
  Print Assumptions C02_disabled_trips_is_code.
End SCN.
