(* C11 — restricting a scenario is equivalent to deleting the excluded trips. *)
From TrV Require Import Properties.Common Proofs.SortFilter.
Local Open Scope Z_scope.

Definition C11_full_statement : Prop :=
  forall d s p acc egr, in_domain d s p acc egr ->
    answer_route d s p acc egr = answer_route (delete_excluded d s) (all_inclusive d s) p acc egr /\
    answer_access d s p acc = answer_access (delete_excluded d s) (all_inclusive d s) p acc.

(* structural half, at full strength: the per-scenario connection set (trip list, both sorted lists and
   both hour tables) of the restricted scenario IS the connection set of the all-inclusive scenario on
   the dataset from which the excluded trips were physically removed *)
Theorem C11_conn_set_equal : forall d s,
  nodup_nat (map t_id (d_trips d)) = true ->
  conn_set d s = conn_set (delete_excluded d s) (all_inclusive d s).
Proof. exact C11_conn_set_delete. Qed.
Print Assumptions C11_conn_set_equal.

Theorem C11_filter_sort_commute_fwd : forall f l, filter f (isort fwd_lt l) = isort fwd_lt (filter f l).
Proof. exact filter_isort_fwd. Qed.
Print Assumptions C11_filter_sort_commute_fwd.
Theorem C11_filter_sort_commute_rev : forall f l, filter f (isort rev_lt l) = isort rev_lt (filter f l).
Proof. exact filter_isort_rev. Qed.
Print Assumptions C11_filter_sort_commute_rev.

Example C11_example_nontrivial :
  let s := {| s_id := 2; s_services := [1%nat]; s_onlyLines := []; s_onlyModes := []; s_onlyAgencies := []; s_onlyNodes := [];
              s_exceptLines := [2%nat]; s_exceptModes := []; s_exceptAgencies := []; s_exceptNodes := [] |} in
  length (cs_fwd (conn_set ex_data s)) = 2%nat /\ length (d_trips (delete_excluded ex_data s)) = 1%nat.
Proof. vm_compute. auto. Qed.

(* ---- THE FULL STATEMENT: the whole answers are EQUAL (route, alternatives, accessibility map; every field, not only
   status/reason/times) — the calculation reads the dataset only through the connection set and the data of enabled
   trips; the rewrite loop's smaller fuel on the reduced dataset still suffices (Proofs/DeleteEquiv.v) ---- *)
From TrV Require Import Proofs.DeleteEquiv.
Theorem C11_full_theorem : C11_full_statement.
Proof.
  intros d s p acc egr (Hwf & _ & Htab & Hp & _).
  destruct (C11_full d s p acc egr Hwf Htab Hp) as (H1 & _ & H3).
  split; [exact H1|exact H3].
Qed.
Print Assumptions C11_full_theorem.

Theorem C11_alternatives_equal : forall d s p acc egr,
  wf_data_b d = true -> wf_tables_b d p acc egr = true -> wf_params_b p = true ->
  alternatives d (conn_set d s) p acc egr =
  alternatives (delete_excluded d s) (conn_set (delete_excluded d s) (all_inclusive d s)) p acc egr.
Proof. intros d s p acc egr H1 H2 H3. exact (proj1 (proj2 (C11_full d s p acc egr H1 H2 H3))). Qed.
Print Assumptions C11_alternatives_equal.

(* tie to the source: both stable_sort comparators as transit_data.cpp writes them now *)
From TrV Require Import Proofs.GuardsTie.
Theorem C11_forward_sort_is_code : forall a b, cmp_args G.gen_fwd_lt a b = fwd_lt a b.
Proof. exact fwd_lt_tie. Qed.
Print Assumptions C11_forward_sort_is_code.
Theorem C11_reverse_sort_is_code : forall a b, cmp_args G.gen_rev_lt a b = rev_lt a b.
Proof. exact rev_lt_tie. Qed.
Print Assumptions C11_reverse_sort_is_code.


(* tie to the source, the scenario filter and the construction of the per-scenario connection set
   (TransitData::getConnectionsForScenario, read AS IT IS NOW by tools/gen_scenario.py, gen/Scenario.v): the chain of
   tests; `tripsEnabled[trip.uid] = enabled; if (enabled) cachedTrips.push_back(trip);`; the two loops that keep, in the order
   of forwardConnections / reverseConnections, the connections whose trip the map admits; the ConnectionSet constructed from
   those three vectors.  "Deleting the excluded trips" deletes exactly the trips on which the chain ends with
   enabled = false, and Data.conn_set is what that code builds (trip uids distinct: getTrips() is a std::map) *)
Require TrV.ScenCode TrV.gen.Scenario.
From TrV Require Proofs.ScenarioTie.
Module SCN.
  Import TrV.ScenCode TrV.Proofs.ScenarioTie.
  Theorem C11_scenario_filter_is_code : forall d s,
    (forall t, trip_enabled d s t = run_filter GS.gen_scen_filter d s t) /\
    d_trips (delete_excluded d s) = filter (run_filter GS.gen_scen_filter d s) (d_trips d).
  Proof. intros d s. exact (conj (scen_filter_is_code d s) (delete_excluded_is_code d s)). Qed.
  Print Assumptions C11_scenario_filter_is_code.
  Theorem C11_connection_set_is_code : forall d s,
    NoDup (map t_id (d_trips d)) -> conn_set d s = run_build gen_scen_code d s.
  Proof. exact conn_set_is_code. Qed.
  Print Assumptions C11_connection_set_is_code.
  Theorem C11_connection_set_is_code_wf : forall d s,
    wf_data_b d = true -> conn_set d s = run_build gen_scen_code d s.
  Proof. intros d s H. exact (conn_set_is_code d s (wf_data_trip_ids d H)). Qed.
  Print Assumptions C11_connection_set_is_code_wf.
  (* the two copies of the chain (resets.cpp repeats it over the request's lists, with one more test on the never-filled
     exceptServices): the same tests, and the same verdict on a scenario's lists *)
  Theorem C11_two_filter_copies_agree :
    (forallb (fun ft => existsb (ftest_eqb ft) GS.gen_reset_filter) GS.gen_scen_filter = true /\
     forallb (fun ft => tests_except_services ft || existsb (ftest_eqb ft) GS.gen_scen_filter) GS.gen_reset_filter = true /\
     length GS.gen_reset_filter = S (length GS.gen_scen_filter)) /\
    forall d s t, run_filter_on GS.gen_reset_filter d (scen_lists s) t = run_filter GS.gen_scen_filter d s t.
  Proof. exact (conj reset_filter_same_chain reset_filter_on_scenario). Qed.
  Print Assumptions C11_two_filter_copies_agree.
End SCN.

(* ---- the nine lists of a loaded scenario are the code (tools/gen_coll_loaders.py, Proofs/CollLoadersTie.v): in the
   regenerated loop body of CacheFetcher::getScenarios each of the nine members is assigned from a vector that is declared
   in the same entry and filled by exactly one loop over the capnp list of the same name, behind `count`, with `at` on the
   collection of that kind; and what the body computes - from ANY previous contents of the vectors - is the model's
   scenario_step (unknown ids skipped, an unparsable one throws and leaves the scenario half filled) *)
Require TrV.CollCode TrV.gen.CollLoaders.
From TrV Require Proofs.CollLoadersTie.
Module COLL11.
  Import TrV.Loader2 TrV.CollCode.
  Module CL := TrV.gen.CollLoaders.
  Theorem C11_scenario_lists_are_code :
    (list_feeds (lc_pre CL.gen_scenarios_loader ++ lc_item CL.gen_scenarios_loader) (lc_item CL.gen_scenarios_loader) =
      [ (MServicesList, [(GServicesUuids, Some CServices, CServices)]);
        (MOnlyLines, [(GOnlyLinesUuids, Some CLines, CLines)]);
        (MOnlyAgencies, [(GOnlyAgenciesUuids, Some CAgencies, CAgencies)]);
        (MOnlyNodes, [(GOnlyNodesUuids, Some CNodes, CNodes)]);
        (MOnlyModes, [(GOnlyModesShortnames, Some CModes, CModes)]);
        (MExceptLines, [(GExceptLinesUuids, Some CLines, CLines)]);
        (MExceptAgencies, [(GExceptAgenciesUuids, Some CAgencies, CAgencies)]);
        (MExceptNodes, [(GExceptNodesUuids, Some CNodes, CNodes)]);
        (MExceptModes, [(GExceptModesShortnames, Some CModes, CModes)]) ] /\
     vecs_fresh [] (lc_item CL.gen_scenarios_loader) = true) /\
    (forall e vs s m,
       snd (fst (scen_item (lc_item CL.gen_scenarios_loader) e (vs, s) m)) = fst (scenario_step e s m) /\
       snd (scen_item (lc_item CL.gen_scenarios_loader) e (vs, s) m) = snd (scenario_step e s m)) /\
    (forall e f s0 vs0 r0, run_scenarios CL.gen_scenarios_loader e f s0 vs0 r0 = Some (load_scenarios e f)).
  Proof. exact TrV.Proofs.CollLoadersTie.scenario_lists_are_code. Qed.
  Print Assumptions C11_scenario_lists_are_code.
End COLL11.
