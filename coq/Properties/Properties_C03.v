(* C03 — departure-time queries return the earliest possible arrival, if any exists. *)
From TrV Require Import Properties.Common.
Local Open Scope Z_scope.

Definition C03_full_statement : Prop :=
  forall d s p acc egr, in_domain d s p acc egr -> pos_hops_b d = true -> q_fwd p = true -> q_maxfw p <= 0 ->
    match answer_route d s p acc egr with
    | Ok (r, _) => earliest_arrival_ref d s p acc egr = Some (rt_arr r)
    | NoRouting _ => earliest_arrival_ref d s p acc egr = None
    | _ => False
    end.

Theorem C03_example :
  match answer_route ex_data scen_all (ex_params true 35000) ex_acc ex_egr with
  | Ok (r, _) => earliest_arrival_ref ex_data scen_all (ex_params true 35000) ex_acc ex_egr = Some (rt_arr r) /\ rt_arr r = 36750
  | _ => False
  end.
Proof. vm_compute. auto. Qed.
Print Assumptions C03_example.
