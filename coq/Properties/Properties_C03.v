(* C03 — departure-time queries return the earliest possible arrival, if any exists. *)
From TrV Require Import Properties.Common.
Local Open Scope Z_scope.

Definition C03_full_statement : Prop :=
  forall d s p acc egr, in_domain d s p acc egr -> pos_hops_b d = true -> q_fwd p = true -> q_maxfw p <= 0 ->
    match answer_route d s p acc egr with
    | Ok (r, _) => earliest_arrival_ref d s p acc egr = Some (rt_arr r)
    | NoRouting _ => earliest_arrival_ref d s p acc egr = None
    | _ => False
    end.

Theorem C03_example :
  match answer_route ex_data scen_all (ex_params true 35000) ex_acc ex_egr with
  | Ok (r, _) => earliest_arrival_ref ex_data scen_all (ex_params true 35000) ex_acc ex_egr = Some (rt_arr r) /\ rt_arr r = 36750
  | _ => False
  end.
Proof. vm_compute. auto. Qed.
Print Assumptions C03_example.

(* ---- declarative form and what is proved of it ------------------------------------------------------------ *)
From TrV Require Import Optimal Proofs.RefSpec Proofs.ValidAdm.

(* the reference solver the check runs on every implementation answer IS a decision procedure for the declarative
   optimum: it returns Some t exactly when an admissible journey exists, and then t is the minimum arrival over ALL
   admissible journeys (inductive journeys of Admissible.v; label-correcting fixpoint proved stable) *)
Theorem C03_reference_solver_correct : forall d s p acc egr,
  wf_data_b d = true -> wf_params_b p = true ->
  match earliest_arrival_ref d s p acc egr with
  | Some t => (exists rides, admissible_fwd d s p acc egr rides t) /\
              (forall rides t', admissible_fwd d s p acc egr rides t' -> t <= t')
  | None => forall rides t', ~ admissible_fwd d s p acc egr rides t'
  end.
Proof. exact earliest_arrival_ref_correct. Qed.
Print Assumptions C03_reference_solver_correct.

(* half of C03_decl: the reported arrival is attained by an admissible journey (hence >= the optimum) *)
Theorem C03_arrival_attained : forall d s p acc egr,
  opt_domain d s p acc egr -> q_fwd p = true -> C03_attained_prop d s p acc egr.
Proof. exact C03_attained. Qed.
Print Assumptions C03_arrival_attained.

(* tie to the source: the model's forward step and best-egress selection are the control skeleton instantiated with
   the guards tools/gen_guards.py translated from forward_calculation.cpp AS IT IS NOW (gen/Guards.v) *)
From TrV Require Import Proofs.GuardsTie.
Theorem C03_forward_step_is_code : forall d p k st c, fwd_step_code d p k st c = fwd_step d p k false st c.
Proof. exact fwd_step_tie. Qed.
Print Assumptions C03_forward_step_is_code.
Theorem C03_best_egress_is_code : forall p k st, best_egress_sk G.gen_fwd_best_time G.gen_fwd_best_ok p k st = best_egress p k st.
Proof. exact best_egress_tie. Qed.
Print Assumptions C03_best_egress_is_code.

Theorem C03_reverse_step_is_code : forall d p k st c, rev_step_code d p k st c = rev_step d p k false st c.
Proof. exact rev_step_tie. Qed.
Print Assumptions C03_reverse_step_is_code.

(* the success case of C03_decl in full: the reported arrival is attained by an admissible journey AND is the
   minimum over all admissible journeys (forward-scan soundness + completeness, FwdOpt.v; the reverse pass cannot
   arrive later than the forward optimum, ValidAdm.calc_single_fwd_best) *)
From TrV Require Import Proofs.C03Ok.
Theorem C03_success_is_optimal : forall d s p acc egr r used,
  opt_domain d s p acc egr -> pos_hops_b d = true -> q_fwd p = true -> q_maxfw p <= 0 ->
  route_answer d s p acc egr = Ok (r, used) ->
  (exists rides, admissible_fwd d s p acc egr rides (rt_arr r)) /\
  (forall rides t, admissible_fwd d s p acc egr rides t -> rt_arr r <= t).
Proof. exact C03_ok_case. Qed.
Print Assumptions C03_success_is_optimal.

(* ---- THE FULL DECLARATIVE STATEMENT (Optimal.v), on the property's own domain (positive hops, first-waiting cap off —
   NO restriction to uniform minimum waiting): success exactly when an admissible journey exists, and then the arrival
   is the minimum over all admissible journeys.  Needs the repair of defect D12 (reverse_calculation.cpp's access break),
   found by this very proof attempt: on the unrepaired code the statement is false (corpus/l2/d12_mixed_wait_break.case). ---- *)
From TrV Require Import Proofs.RevOptCompose.
Theorem C03_full_declarative : C03_decl_statement.
Proof. exact C03_decl_proved. Qed.
Print Assumptions C03_full_declarative.

(* the whole forward scan (entry slot of the hour index + every step) as the source writes it now *)
Theorem C03_forward_scan_is_code : forall d p k, fwd_scan_code d p k = fwd_scan d p k false.
Proof. exact fwd_scan_tie. Qed.
Print Assumptions C03_forward_scan_is_code.

(* the whole reverse scan (entry slot of the hour index + every step) as the source writes it now *)
Theorem C03_reverse_scan_is_code : forall d p k, rev_scan_code d p k = rev_scan d p k false.
Proof. exact rev_scan_tie. Qed.
Print Assumptions C03_reverse_scan_is_code.

(* the departure-order comparator of transit_data.cpp's stable_sort as the source writes it now *)
Theorem C03_forward_sort_is_code : forall a b, cmp_args G.gen_fwd_lt a b = fwd_lt a b.
Proof. exact fwd_lt_tie. Qed.
Print Assumptions C03_forward_sort_is_code.

(* the ORIGINAL formal statement (answer = reference solver), now a theorem: declarative optimality + the proved
   correctness of the reference solver *)
From TrV Require Import Proofs.FullStatements.
Theorem C03_full : C03_full_statement.
Proof. exact C03_original. Qed.
Print Assumptions C03_full.

Theorem C03_reset_egress_minmax_is_code : forall rows,
  G.gen_reset_egr_tests_independent = true /\
  fold_left (minmax_step G.gen_reset_egr_min G.gen_reset_egr_max G.gen_reset_egr_tests_independent) rows
            (G.gen_reset_min_init, G.gen_reset_max_init) = (min_time rows, max_time rows).
Proof. exact reset_egress_minmax_tie. Qed.
Print Assumptions C03_reset_egress_minmax_is_code.

(* tie to the source, stage 3: the CONTROL SKELETON itself (which statement sits inside which `if`, the order of the
   guarded blocks, where `break` / `continue` sit, which variable every assignment writes) is read from the C++ source
   AS IT IS NOW by tools/gen_skel.py (gen/Skel.v) and executed by the interpreter of Skel.v with the guards of
   gen/Guards.v; the model's step computes the same state, for all values `l0` left in the function-level locals *)
Require Import TrV.Skel.
From TrV Require Import Proofs.SkelTie.
Theorem C03_fwd_step_skeleton_is_code : forall d p k st c l0,
  fstate_eq (fwd_step d p k false st c) (run_fwd fwd_code d p k c GS.gen_fwd_skel l0 st).
Proof. exact fwd_step_skel_tie. Qed.
Print Assumptions C03_fwd_step_skeleton_is_code.
Theorem C03_fwd_footpath_loop_skeleton_is_code : forall d p k c m r,
  nth (l_idx (fm_l m)) (fwd_rows d c) row_default = r ->
  let res := fwd_loop_step fwd_code d p k c GS.gen_fwd_fp (m, false) r in
  snd res = false /\ l_idx (fm_l (fst res)) = S (l_idx (fm_l m)) /\
  fm_st (fst res) = f_set_triple (fm_st m) (fwd_fp_step p c (o_enter (f_ov (fm_st m) (c_trip c))) (f_triple (fm_st m)) r).
Proof. exact fwd_fp_step_skel_tie. Qed.
Print Assumptions C03_fwd_footpath_loop_skeleton_is_code.
Theorem C03_rev_step_skeleton_is_code : forall d p k st c l0,
  rstate_eq (rev_step d p k false st c) (run_rev rev_code d p k c GS.gen_rev_skel l0 st).
Proof. exact rev_step_skel_tie. Qed.
Print Assumptions C03_rev_step_skeleton_is_code.
Theorem C03_rev_footpath_loop_skeleton_is_code : forall d p k c m r,
  nth (rl_idx (rm_l m)) (rev_rows d c) row_default = r ->
  let res := rev_loop_step rev_code d p k c GS.gen_rev_fp (m, false) r in
  snd res = false /\ rl_idx (rm_l (fst res)) = S (rl_idx (rm_l m)) /\
  rm_st (fst res) =
  r_set_triple (rm_st m) (rev_fp_step p k c (minw_eff p c) (o_exit (r_ov (rm_st m) (c_trip c))) (r_triple (rm_st m)) r).
Proof. exact rev_fp_step_skel_tie. Qed.
Print Assumptions C03_rev_footpath_loop_skeleton_is_code.
(* ... and the whole scan: entry slot as the source computes it, then the loop body iterated with the locals kept from
   one connection to the next, whatever they hold at the start *)
Theorem C03_fwd_scan_skeleton_is_code : forall d p k l_init,
  outcome_rel fstate_eq (fwd_scan d p k false)
    (fwd_scan_skel fwd_code GS.gen_fwd_skel
       (G.gen_fwd_entry_hour (k_dep k) (k_arr k) (k_minAcc k) (k_minEgr k) (q_minw p) (k_maxAcc k) (k_maxEgr k)) l_init d p k).
Proof. exact fwd_scan_skel_tie. Qed.
Print Assumptions C03_fwd_scan_skeleton_is_code.
Theorem C03_rev_scan_skeleton_is_code : forall d p k l_init,
  outcome_rel rstate_eq (rev_scan d p k false)
    (rev_scan_skel rev_code GS.gen_rev_skel
       (G.gen_rev_entry_hour (k_dep k) (k_arr k) (k_minAcc k) (k_minEgr k) (q_minw p) (k_maxAcc k) (k_maxEgr k)) l_init d p k).
Proof. exact rev_scan_skel_tie. Qed.
Print Assumptions C03_rev_scan_skeleton_is_code.
