(* C17 — missing, truncated, corrupt or inconsistent cache files never crash the server (decoded level). *)
From TrV Require Import Spec Loader Proofs.LoaderProofs.
Local Open Scope Z_scope.

(* for ARBITRARY decoded messages (dangling or malformed uuids, unequal array lengths, zero or surplus stop
   times), garbled prefixes and missing files: the schedule loader only produces trips that fit their path,
   connection construction never indexes past the path's stops, the per-stop loader only keeps rows naming
   known stops, and the data status is READY or the documented code of the first empty collection.
   "The decoder yields an exception or some well-typed message" is Cap'n Proto's contract: trusted, and
   exercised by fault enumeration on the real binary. *)

Theorem P_load_schedules_safe :
  forall lines paths services files t,
  In t (load_schedules lines paths services files) ->
  memb (t_service t) services = true /\
  exists p, find (fun p => Nat.eqb (p_id p) (t_path t)) paths = Some p /\
            (2 <= length (t_times t) <= length (p_nodes p))%nat.
Proof. exact load_schedules_safe. Qed.
Print Assumptions P_load_schedules_safe.

Theorem P_loaded_trip_conns_count :
  forall tid minw nodes times,
  (length times <= length nodes)%nat -> length (mk_conns tid minw 1 nodes times) = (length times - 1)%nat.
Proof. exact loaded_trip_conns_count. Qed.
Print Assumptions P_loaded_trip_conns_count.

Theorem P_mk_conns_stops_in :
  forall tid minw nodes times seq c,
  In c (mk_conns tid minw seq nodes times) -> In (c_from c) nodes /\ In (c_to c) nodes.
Proof. exact mk_conns_stops_in. Qed.
Print Assumptions P_mk_conns_stops_in.

Theorem P_load_nodes_rows_known :
  forall nodes files fp rfp, load_nodes nodes files = NLOk fp rfp ->
  (forall n rows r, assoc n fp = Some rows -> In r rows -> memb (fp_node r) nodes = true) /\
  (forall n rows r, assoc n rfp = Some rows -> In r rows -> memb (fp_node r) nodes = true).
Proof. exact load_nodes_rows_known. Qed.
Print Assumptions P_load_nodes_rows_known.

Theorem P_data_status_documented :
  forall z,
  In (data_status z) [ST_READY; ST_NO_AGENCIES; ST_NO_SERVICES; ST_NO_NODES; ST_NO_LINES; ST_NO_PATHS; ST_NO_SCENARIOS; ST_NO_SCHEDULES].
Proof. exact data_status_documented. Qed.
Print Assumptions P_data_status_documented.

Theorem P_data_status_ready_iff :
  forall z, data_status z = ST_READY <->
  (z_agencies z <> 0 /\ z_services z <> 0 /\ z_nodes z <> 0 /\ z_lines z <> 0 /\ z_paths z <> 0 /\ z_scenarios z <> 0 /\ z_trips z <> 0)%nat.
Proof. exact data_status_ready_iff. Qed.
Print Assumptions P_data_status_ready_iff.

Theorem P_data_status_names_first_empty :
  forall z,
  ((data_status z = ST_NO_AGENCIES -> z_agencies z = 0) /\
   (data_status z = ST_NO_SERVICES -> z_agencies z <> 0 /\ z_services z = 0) /\
   (data_status z = ST_NO_NODES -> z_agencies z <> 0 /\ z_services z <> 0 /\ z_nodes z = 0) /\
   (data_status z = ST_NO_LINES -> z_agencies z <> 0 /\ z_services z <> 0 /\ z_nodes z <> 0 /\ z_lines z = 0) /\
   (data_status z = ST_NO_PATHS ->
      z_agencies z <> 0 /\ z_services z <> 0 /\ z_nodes z <> 0 /\ z_lines z <> 0 /\ z_paths z = 0) /\
   (data_status z = ST_NO_SCENARIOS ->
      z_agencies z <> 0 /\ z_services z <> 0 /\ z_nodes z <> 0 /\ z_lines z <> 0 /\ z_paths z <> 0 /\ z_scenarios z = 0) /\
   (data_status z = ST_NO_SCHEDULES ->
      z_agencies z <> 0 /\ z_services z <> 0 /\ z_nodes z <> 0 /\ z_lines z <> 0 /\ z_paths z <> 0 /\
      z_scenarios z <> 0 /\ z_trips z = 0))%nat.
Proof. exact data_status_names_first_empty. Qed.
Print Assumptions P_data_status_names_first_empty.

(* ---- all loaders, any file states (Loader2.v): start-up never ends in a crash / hang / undefined behaviour; whatever
   was loaded satisfies the no-dangling-identifier invariant the router relies on (every trip's path, line, agency, mode,
   service and stops resolve; 2 <= stop times <= path stops); the status is documented and names the first empty
   collection; a refresh of all caches ends in the same invariant ---- *)
From TrV Require Import Loader2 Proofs.Loader2Proofs.
Theorem P_startup_never_bad : forall f, is_bad (startup f) = false.
Proof. exact startup_not_bad. Qed.
Print Assumptions P_startup_never_bad.

Theorem P_loaded_memory_consistent : forall f, mem_ok (fst (load_all f)).
Proof. exact load_all_ok. Qed.
Print Assumptions P_loaded_memory_consistent.

Theorem P_loaded_trip_resolves : forall m t, mem_ok m -> In t (mm_trips m) ->
  exists p l,
    find_path (data_of m) (t_path t) = Some p /\ find_line (data_of m) (p_line p) = Some l /\
    memb (l_agency l) (mm_agencies m) = true /\ mode_known (l_mode l) = true /\
    memb (t_service t) (mm_services m) = true /\
    (2 <= length (t_times t) <= length (p_nodes p))%nat /\
    (forall n, In n (p_nodes p) -> In n (mm_nodes m)) /\
    trip_line (data_of m) t = l_id l /\ trip_agency (data_of m) t = l_agency l /\ trip_mode (data_of m) t = l_mode l.
Proof. exact mem_ok_trip_resolves. Qed.
Print Assumptions P_loaded_trip_resolves.

Theorem P_load_all_status_documented : forall f,
  In (snd (load_all f)) [ST_READY; ST_NO_AGENCIES; ST_NO_SERVICES; ST_NO_NODES; ST_NO_LINES; ST_NO_PATHS; ST_NO_SCENARIOS; ST_NO_SCHEDULES].
Proof. exact load_all_status_documented. Qed.
Print Assumptions P_load_all_status_documented.

Theorem P_refresh_all_consistent : forall f s, mem_ok (sv_mem (update f [CAll] s)).
Proof. exact update_all_ok. Qed.
Print Assumptions P_refresh_all_consistent.

(* ---- whatever the cache files hold, the state a started (or fully refreshed) server answers from cannot make a request
   hang: stop times in order (D13), walking times >= 0 (D15) are guaranteed by the loaders, and with exactly that the
   rebuild loop, the transfer count of the forward accessibility map and the journey clean-up all terminate
   (Proofs/LoadedTimes.v, Proofs/LoadedLoops.v).  The hypothesis on the request is what the parameter factory guarantees
   (a negative min_waiting_time is normalised to 0). ---- *)
From TrV Require Import Calc Proofs.LoadedTimes Proofs.LoadedLoops.
Local Open Scope Z_scope.

Theorem P_loaded_stop_times_in_order : forall f t,
  In t (mm_trips (fst (load_all f))) -> conn_times_ok (t_times t) = true.
Proof. exact load_all_times_in_order. Qed.
Print Assumptions P_loaded_stop_times_in_order.

Theorem P_loaded_walking_times_nonneg : forall f,
  tables_nonneg (mm_fp (fst (load_all f))) (mm_rfp (fst (load_all f))).
Proof. exact load_all_walks_nonneg. Qed.
Print Assumptions P_loaded_walking_times_nonneg.

Theorem P_started_server_never_hangs : forall f s p acc egr rows,
  let d := data_of (fst (load_all f)) in
  0 <= q_minw p ->
  (forall fresh, calc_single d (conn_set d s) p acc egr fresh <> Hang) /\
  alternatives d (conn_set d s) p acc egr <> Hang /\
  calc_allnodes d (conn_set d s) p rows <> Hang.
Proof. exact started_server_never_hangs. Qed.
Print Assumptions P_started_server_never_hangs.

Theorem P_refreshed_server_never_hangs : forall f sv0 s p acc egr rows,
  let d := data_of (sv_mem (update f [CAll] sv0)) in
  0 <= q_minw p ->
  (forall fresh, calc_single d (conn_set d s) p acc egr fresh <> Hang) /\
  alternatives d (conn_set d s) p acc egr <> Hang /\
  calc_allnodes d (conn_set d s) p rows <> Hang.
Proof. exact refreshed_server_never_hangs. Qed.
Print Assumptions P_refreshed_server_never_hangs.

(* ---- THE SKIP RULES ARE THE CODE'S (Proofs/LoaderGuardsTie.v): the conditions under which the loaders drop a trip, a row of
   a per-stop file or a whole per-stop file, and the order of the emptiness tests behind the data status, are regenerated from
   the CURRENT C++ sources into gen/LoaderGuards.v (tools/gen_loader_guards.py) on every run; the model's loaders are proved
   equal to the loaders instantiated with these generated fragments, so a changed operator, a dropped test, a shifted index or
   two swapped tests in trips_and_connections_cache_fetcher.cpp / nodes_cache_fetcher.cpp / transit_data.cpp stops this file
   from compiling (D13, D14, D15 and the stop-time count repair all lived in exactly these rules) ---- *)
From TrV Require Import Proofs.LoaderGuardsTie.
From TrV Require gen.LoaderGuards.
Module LG := TrV.gen.LoaderGuards.
Local Open Scope bool_scope.

(* one trip entry: unknown path, the count test, the stop-time order test (D13), in source order, then the trip *)
Theorem C17_trip_skip_rules_are_code : forall paths service m,
  load_trip paths service m =
  match tm_id m, tm_path m with
  | Some tid, Some pid =>
      let found := find (fun p => Nat.eqb (p_id p) pid) paths in
      if LG.gen_trip_unknown_path (is_some found) then Some None else
      let np := match found with Some p => length (p_nodes p) | None => 0%nat end in
      let n := length (tm_arr m) in
      if LG.gen_trip_counts_bad n np (length (tm_dep m)) (length (tm_cb m)) (length (tm_cu m)) then Some None else
      if LG.gen_trip_order_skip (order_loop_code (tm_arr m) (tm_dep m) n (length (tm_dep m))) then Some None else
      Some (Some {| t_id := tid; t_path := pid; t_service := service;
                    t_times := zip_times (tm_arr m) (firstn n (tm_dep m)) (firstn n (tm_cb m)) (firstn n (tm_cu m)) |})
  | _, _ => None
  end.
Proof. exact load_trip_tie. Qed.
Print Assumptions C17_trip_skip_rules_are_code.

(* the stop-time loop of the D13 repair (start value, loop condition, per-index test on dep[i], arr[i+1], arr[i], flag) *)
Theorem C17_stop_time_order_loop_is_code : forall arr dep n nd,
  trip_times_in_order arr dep n =
  order_loop (fun i => LG.gen_trip_order_cond i n nd)
             (fun i => LG.gen_trip_order_bad (nth i dep 0) (nth (S i) dep 0) (nth i arr 0) (nth (S i) arr 0) i)
             LG.gen_trip_order_flag_init LG.gen_trip_order_flag_on_bad n LG.gen_trip_order_start.
Proof. exact trip_times_in_order_code. Qed.
Print Assumptions C17_stop_time_order_loop_is_code.

Theorem C17_stop_time_order_test_is_code : forall arr dep n nd,
  trip_times_in_order arr dep n = true <->
  (forall i, LG.gen_trip_order_cond i n nd = true ->
             LG.gen_trip_order_bad (nth i dep 0) (nth (S i) dep 0) (nth i arr 0) (nth (S i) arr 0) i = false).
Proof. exact trip_times_in_order_code_iff. Qed.
Print Assumptions C17_stop_time_order_test_is_code.

Theorem C17_unknown_service_skip_is_code : forall sv services,
  memb sv services = negb (LG.gen_sched_unknown_service (memb sv services)).
Proof. exact sched_skip_code. Qed.
Print Assumptions C17_unknown_service_skip_is_code.

(* a row of a per-stop file is kept iff neither generated `continue` test fires (unknown stop; negative time, D15) *)
Theorem C17_stop_file_skip_rules_are_code : forall known n t d,
  (memb n known && (0 <=? t)) = negb (LG.gen_node_unknown (map_count n known)) && negb (LG.gen_node_time_bad t d).
Proof. exact node_keep_code. Qed.
Print Assumptions C17_stop_file_skip_rules_are_code.

Theorem C17_stop_file_rows_are_code : forall known l,
  node_rows known l = node_rows_code known l /\ node_rows_p known l = node_rows_p_code known l.
Proof. exact (fun known l => conj (node_rows_tie known l) (node_rows_p_tie known l)). Qed.
Print Assumptions C17_stop_file_rows_are_code.

(* D14: a per-stop file with fewer travel times or distances than stops (three parallel lists in the C++, mapped to a
   garbled file with an empty prefix in the model) stops the loading with the generated return code, nothing pushed *)
Theorem C17_stop_file_length_test_is_code : forall s known t rest files fp rfp,
  LG.gen_stop_lists_bad (length (sl_uuids s)) (length (sl_times s)) (length (sl_dists s)) = true ->
  files t = stop_file_of_lists s ->
  load_node_files_p known (t :: rest) files fp rfp = ((fp, rfp), RC_EBADMSG) /\
  rc_int RC_EBADMSG = Some LG.gen_stop_lists_bad_ret /\
  load_node_files known (t :: rest) files fp rfp = NLBadMsg.
Proof. exact stop_file_lists_bad_code. Qed.
Print Assumptions C17_stop_file_length_test_is_code.

Theorem C17_stop_file_lists_in_range_is_code : forall s j,
  LG.gen_stop_lists_bad (length (sl_uuids s)) (length (sl_times s)) (length (sl_dists s)) = false ->
  LG.gen_stop_rows_start = 0%nat /\
  (LG.gen_stop_rows_cond j (length (sl_uuids s)) = true ->
   exists msg, stop_file_of_lists s = FDecoded msg /\ length msg = length (sl_uuids s) /\
               nth_error msg j = Some {| fm_node := nth j (sl_uuids s) None; fm_time := nth j (sl_times s) 0; fm_dist := nth j (sl_dists s) 0 |}).
Proof. exact stop_file_lists_ok_code. Qed.
Print Assumptions C17_stop_file_lists_in_range_is_code.

(* the data status: the emptiness tests in source order, the first that holds decides; codes = the enumerators *)
Theorem C17_data_status_is_code : forall z,
  data_status z = LG.gen_data_status (z_agencies z) (z_services z) (z_nodes z) (z_lines z) (z_paths z) (z_scenarios z) (z_trips z).
Proof. exact data_status_code. Qed.
Print Assumptions C17_data_status_is_code.

Theorem C17_status_codes_are_code :
  LG.gen_ST_READY = ST_READY /\ LG.gen_ST_NO_AGENCIES = ST_NO_AGENCIES /\ LG.gen_ST_NO_LINES = ST_NO_LINES /\
  LG.gen_ST_NO_PATHS = ST_NO_PATHS /\ LG.gen_ST_NO_SERVICES = ST_NO_SERVICES /\ LG.gen_ST_NO_SCENARIOS = ST_NO_SCENARIOS /\
  LG.gen_ST_NO_SCHEDULES = ST_NO_SCHEDULES /\ LG.gen_ST_NO_NODES = ST_NO_NODES.
Proof. exact status_codes_code. Qed.
Print Assumptions C17_status_codes_are_code.

(* ---- TransitData::loadAllData IS the code (tools/gen_handler_guards.py regenerates gen/HandlerGuards.v from the current
   transit_data.cpp and transit_routing_http_server.cpp on every run; Proofs/HandlerGuardsTie.v): the order of the ten updates, the
   test after each ("ret < 0 && ret != -ENOENT" = Loader2.rc_fatal for every int a loader can return; "ret < 0" for the two
   unmodelled loaders that always return 0), the stop at the first test that fires, the status recomputed from the collections.
   Two swapped updates, a dropped test, a constant final status stop this file from compiling ---- *)
From Coq Require String.
From TrV Require Proofs.HandlerGuardsTie gen.HandlerGuards.
Module HG := TrV.gen.HandlerGuards.
Module HT := TrV.Proofs.HandlerGuardsTie.
Section HandlerGlueC17.
Import String.   (* local to this section: the string literals below *)

Theorem C17_load_all_order_is_code :
  HG.gen_load_all_steps =
    map (fun mt => (fst mt, snd mt, HG.gen_DS_DATA_READ_ERROR))
        [ ("updateNodes", HT.fatal_unless_missing); ("updateDataSources", HT.fatal_unless_missing);
          ("updatePersons", HT.fatal_if_negative); ("updateOdTrips", HT.fatal_if_negative);
          ("updateAgencies", HT.fatal_unless_missing); ("updateServices", HT.fatal_unless_missing);
          ("updateLines", HT.fatal_unless_missing); ("updatePaths", HT.fatal_unless_missing);
          ("updateScenarios", HT.fatal_unless_missing); ("updateSchedules", HT.fatal_unless_missing) ]%string /\
  HG.gen_load_all_final = HG.LF_data_status /\ HG.gen_main_status_from_collections = true /\
  (forall r z, HT.rc_is r z -> HT.fatal_unless_missing z = rc_fatal r) /\
  (forall f, load_steps f = (fst (HT.load_steps_code HG.gen_load_all_steps f mem_empty),
                             is_some (snd (HT.load_steps_code HG.gen_load_all_steps f mem_empty)))) /\
  (forall f, load_all f =
             let r := HT.load_steps_code HG.gen_load_all_steps f mem_empty in
             (fst r, HT.start_status_code HG.gen_main_status_from_collections HG.gen_load_all_final (snd r) (fst r))).
Proof.
  exact (conj (proj1 HT.load_all_steps_code) (conj (proj1 (proj2 HT.load_all_steps_code)) (conj (proj2 (proj2 HT.load_all_steps_code))
        (conj HT.fatal_unless_missing_code (conj HT.load_steps_is_code HT.load_all_is_code))))).
Qed.
Print Assumptions C17_load_all_order_is_code.
End HandlerGlueC17.

(* ---- the return code of every collection loader on a file that is missing / cannot be opened / cannot be decoded is the
   model's `rc` (tools/gen_coll_loaders.py, Proofs/CollLoadersTie.v): running the REGENERATED frame of each of the seven
   functions - whatever the loop body does (`step`), whatever the map held (`s0`), whatever `ret` held (`r0`) - a missing
   file gives the cleared map and -ENOENT, another open failure -errno, a decoder exception after a prefix -EBADMSG unless
   an entry threw first (-EINVAL), a decodable file 0 or -EINVAL; no exception escapes, the function always returns *)
Require TrV.CollCode TrV.gen.CollLoaders.
From TrV Require Proofs.CollLoadersTie.
Module COLL17.
  Import TrV.Loader2 TrV.CollCode.
  Module CL := TrV.gen.CollLoaders.
  Theorem C17_collection_loader_errors_are_code :
    forall (S M : Type) (clear : S -> S) (step : S -> M -> S * bool) (s0 : S) (r0 : rval),
    let run := fun self code file => run_frame self clear (fun s => s) step file (lc_frame code) s0 r0 in
    let all := [ run CAgencies CL.gen_agencies_loader; run CServices CL.gen_services_loader; run CNodes CL.gen_nodes_loader;
                 run CLines CL.gen_lines_loader; run CPaths CL.gen_paths_loader; run CScenarios CL.gen_scenarios_loader;
                 run CDataSources CL.gen_datasources_loader ] in
    forall r, In r all ->
      r FMissing = Some (clear s0, RC_ENOENT) /\
      r FUnreadable = Some (clear s0, RC_EOTHER) /\
      r (FGarbled []) = Some (clear s0, RC_EBADMSG) /\
      (forall p, option_map snd (r (FGarbled p)) = Some (if snd (fold_entries step p (clear s0)) then RC_EBADMSG else RC_EINVAL)) /\
      (forall msg, option_map snd (r (FDecoded msg)) = Some (if snd (fold_entries step msg (clear s0)) then RC_OK else RC_EINVAL)).
  Proof. exact TrV.Proofs.CollLoadersTie.loader_error_codes. Qed.
  Print Assumptions C17_collection_loader_errors_are_code.
End COLL17.
