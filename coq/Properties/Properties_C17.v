(* C17 — missing, truncated, corrupt or inconsistent cache files never crash the server (decoded level). *)
From TrV Require Import Spec Loader Proofs.LoaderProofs.
Local Open Scope Z_scope.

(* for ARBITRARY decoded messages (dangling or malformed uuids, unequal array lengths, zero or surplus stop
   times), garbled prefixes and missing files: the schedule loader only produces trips that fit their path,
   connection construction never indexes past the path's stops, the per-stop loader only keeps rows naming
   known stops, and the data status is READY or the documented code of the first empty collection.
   "The decoder yields an exception or some well-typed message" is Cap'n Proto's contract: trusted, and
   exercised by fault enumeration on the real binary. *)

Theorem P_load_schedules_safe :
  forall lines paths services files t,
  In t (load_schedules lines paths services files) ->
  memb (t_service t) services = true /\
  exists p, find (fun p => Nat.eqb (p_id p) (t_path t)) paths = Some p /\
            (2 <= length (t_times t) <= length (p_nodes p))%nat.
Proof. exact load_schedules_safe. Qed.
Print Assumptions P_load_schedules_safe.

Theorem P_loaded_trip_conns_count :
  forall tid minw nodes times,
  (length times <= length nodes)%nat -> length (mk_conns tid minw 1 nodes times) = (length times - 1)%nat.
Proof. exact loaded_trip_conns_count. Qed.
Print Assumptions P_loaded_trip_conns_count.

Theorem P_mk_conns_stops_in :
  forall tid minw nodes times seq c,
  In c (mk_conns tid minw seq nodes times) -> In (c_from c) nodes /\ In (c_to c) nodes.
Proof. exact mk_conns_stops_in. Qed.
Print Assumptions P_mk_conns_stops_in.

Theorem P_load_nodes_rows_known :
  forall nodes files fp rfp, load_nodes nodes files = NLOk fp rfp ->
  (forall n rows r, assoc n fp = Some rows -> In r rows -> memb (fp_node r) nodes = true) /\
  (forall n rows r, assoc n rfp = Some rows -> In r rows -> memb (fp_node r) nodes = true).
Proof. exact load_nodes_rows_known. Qed.
Print Assumptions P_load_nodes_rows_known.

Theorem P_data_status_documented :
  forall z,
  In (data_status z) [ST_READY; ST_NO_AGENCIES; ST_NO_SERVICES; ST_NO_NODES; ST_NO_LINES; ST_NO_PATHS; ST_NO_SCENARIOS; ST_NO_SCHEDULES].
Proof. exact data_status_documented. Qed.
Print Assumptions P_data_status_documented.

Theorem P_data_status_ready_iff :
  forall z, data_status z = ST_READY <->
  (z_agencies z <> 0 /\ z_services z <> 0 /\ z_nodes z <> 0 /\ z_lines z <> 0 /\ z_paths z <> 0 /\ z_scenarios z <> 0 /\ z_trips z <> 0)%nat.
Proof. exact data_status_ready_iff. Qed.
Print Assumptions P_data_status_ready_iff.

Theorem P_data_status_names_first_empty :
  forall z,
  ((data_status z = ST_NO_AGENCIES -> z_agencies z = 0) /\
   (data_status z = ST_NO_SERVICES -> z_agencies z <> 0 /\ z_services z = 0) /\
   (data_status z = ST_NO_NODES -> z_agencies z <> 0 /\ z_services z <> 0 /\ z_nodes z = 0) /\
   (data_status z = ST_NO_LINES -> z_agencies z <> 0 /\ z_services z <> 0 /\ z_nodes z <> 0 /\ z_lines z = 0) /\
   (data_status z = ST_NO_PATHS ->
      z_agencies z <> 0 /\ z_services z <> 0 /\ z_nodes z <> 0 /\ z_lines z <> 0 /\ z_paths z = 0) /\
   (data_status z = ST_NO_SCENARIOS ->
      z_agencies z <> 0 /\ z_services z <> 0 /\ z_nodes z <> 0 /\ z_lines z <> 0 /\ z_paths z <> 0 /\ z_scenarios z = 0) /\
   (data_status z = ST_NO_SCHEDULES ->
      z_agencies z <> 0 /\ z_services z <> 0 /\ z_nodes z <> 0 /\ z_lines z <> 0 /\ z_paths z <> 0 /\
      z_scenarios z <> 0 /\ z_trips z = 0))%nat.
Proof. exact data_status_names_first_empty. Qed.
Print Assumptions P_data_status_names_first_empty.

(* ---- all loaders, any file states (Loader2.v): start-up never ends in a crash / hang / undefined behaviour; whatever
   was loaded satisfies the no-dangling-identifier invariant the router relies on (every trip's path, line, agency, mode,
   service and stops resolve; 2 <= stop times <= path stops); the status is documented and names the first empty
   collection; a refresh of all caches ends in the same invariant ---- *)
From TrV Require Import Loader2 Proofs.Loader2Proofs.
Theorem P_startup_never_bad : forall f, is_bad (startup f) = false.
Proof. exact startup_not_bad. Qed.
Print Assumptions P_startup_never_bad.

Theorem P_loaded_memory_consistent : forall f, mem_ok (fst (load_all f)).
Proof. exact load_all_ok. Qed.
Print Assumptions P_loaded_memory_consistent.

Theorem P_loaded_trip_resolves : forall m t, mem_ok m -> In t (mm_trips m) ->
  exists p l,
    find_path (data_of m) (t_path t) = Some p /\ find_line (data_of m) (p_line p) = Some l /\
    memb (l_agency l) (mm_agencies m) = true /\ mode_known (l_mode l) = true /\
    memb (t_service t) (mm_services m) = true /\
    (2 <= length (t_times t) <= length (p_nodes p))%nat /\
    (forall n, In n (p_nodes p) -> In n (mm_nodes m)) /\
    trip_line (data_of m) t = l_id l /\ trip_agency (data_of m) t = l_agency l /\ trip_mode (data_of m) t = l_mode l.
Proof. exact mem_ok_trip_resolves. Qed.
Print Assumptions P_loaded_trip_resolves.

Theorem P_load_all_status_documented : forall f,
  In (snd (load_all f)) [ST_READY; ST_NO_AGENCIES; ST_NO_SERVICES; ST_NO_NODES; ST_NO_LINES; ST_NO_PATHS; ST_NO_SCENARIOS; ST_NO_SCHEDULES].
Proof. exact load_all_status_documented. Qed.
Print Assumptions P_load_all_status_documented.

Theorem P_refresh_all_consistent : forall f s, mem_ok (sv_mem (update f [CAll] s)).
Proof. exact update_all_ok. Qed.
Print Assumptions P_refresh_all_consistent.

(* ---- whatever the cache files hold, the state a started (or fully refreshed) server answers from cannot make a request
   hang: stop times in order (D13), walking times >= 0 (D15) are guaranteed by the loaders, and with exactly that the
   rebuild loop, the transfer count of the forward accessibility map and the journey clean-up all terminate
   (Proofs/LoadedTimes.v, Proofs/LoadedLoops.v).  The hypothesis on the request is what the parameter factory guarantees
   (a negative min_waiting_time is normalised to 0). ---- *)
From TrV Require Import Calc Proofs.LoadedTimes Proofs.LoadedLoops.
Local Open Scope Z_scope.

Theorem P_loaded_stop_times_in_order : forall f t,
  In t (mm_trips (fst (load_all f))) -> conn_times_ok (t_times t) = true.
Proof. exact load_all_times_in_order. Qed.
Print Assumptions P_loaded_stop_times_in_order.

Theorem P_loaded_walking_times_nonneg : forall f,
  tables_nonneg (mm_fp (fst (load_all f))) (mm_rfp (fst (load_all f))).
Proof. exact load_all_walks_nonneg. Qed.
Print Assumptions P_loaded_walking_times_nonneg.

Theorem P_started_server_never_hangs : forall f s p acc egr rows,
  let d := data_of (fst (load_all f)) in
  0 <= q_minw p ->
  (forall fresh, calc_single d (conn_set d s) p acc egr fresh <> Hang) /\
  alternatives d (conn_set d s) p acc egr <> Hang /\
  calc_allnodes d (conn_set d s) p rows <> Hang.
Proof. exact started_server_never_hangs. Qed.
Print Assumptions P_started_server_never_hangs.

Theorem P_refreshed_server_never_hangs : forall f sv0 s p acc egr rows,
  let d := data_of (sv_mem (update f [CAll] sv0)) in
  0 <= q_minw p ->
  (forall fresh, calc_single d (conn_set d s) p acc egr fresh <> Hang) /\
  alternatives d (conn_set d s) p acc egr <> Hang /\
  calc_allnodes d (conn_set d s) p rows <> Hang.
Proof. exact refreshed_server_never_hangs. Qed.
Print Assumptions P_refreshed_server_never_hangs.
