(* C20 — walking-router failures degrade to error answers, never to a dead server (reply handling). *)
From TrV Require Import Osrm Proofs.OsrmProofs.
Local Open Scope Z_scope.

(* whatever the router sends back — refused, dropped, truncated, error status, empty or non-JSON body, a table
   without durations, null entries, fewer entries than requested — at the origin lookup, the destination
   lookup or both: the request gets a no-access answer, a query error, or a calculation on the rows that
   were answered; never undefined behaviour — provided a reply has no more entries than stops were asked *)
Theorem C20_every_reply_is_handled : forall xo xd ao ad ma me,
  (reply_width xo <= S (length ao))%nat -> (reply_width xd <= S (length ad))%nat ->
  handle_lookups xo xd ao ad ma me <> C20Bad.
Proof. exact C20_documented. Qed.
Print Assumptions C20_every_reply_is_handled.

Theorem C20_origin_failure_degrades : forall xd ao ad ma me xo,
  (xo = XThrow \/ exists b, xo = XStatus false b) -> (reply_width xd <= S (length ad))%nat ->
  (exists r, handle_lookups xo xd ao ad ma me = C20NoAccess r /\
             (r = R_NO_ACCESS_AT_ORIGIN \/ r = R_NO_ACCESS_AT_ORIGIN_AND_DESTINATION))
  \/ handle_lookups xo xd ao ad ma me = C20QueryError.
Proof. exact C20_failures_degrade. Qed.
Print Assumptions C20_origin_failure_degrades.

(* rows handed to the calculator name asked stops only and respect the walking maximum (feeds C02) *)
Theorem C20_rows_sound : forall x asked maxt rows, osrm_rows x asked maxt = Ok rows ->
  forall r, In r rows -> In (fp_node r) asked /\ fp_time r <= maxt.
Proof. intros x asked maxt rows H. exact (proj1 (osrm_rows_sound x asked maxt rows H)). Qed.
Print Assumptions C20_rows_sound.

(* no memory of earlier faults: a healthy exchange after any fault sequence is handled as if alone *)
Theorem C20_recovery : forall (faults : list exchange) x asked maxt,
  last (map (fun e => osrm_rows e asked maxt) (faults ++ [x])) (Ok []) = osrm_rows x asked maxt.
Proof. exact C20_no_memory. Qed.
Print Assumptions C20_recovery.
