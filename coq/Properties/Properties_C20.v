(* C20 — walking-router failures degrade to error answers, never to a dead server (reply handling). *)
From TrV Require Import Osrm Proofs.OsrmProofs.
Local Open Scope Z_scope.

(* whatever the router sends back — refused, dropped, truncated, error status, empty or non-JSON body, a table
   without durations, null entries, fewer entries than requested — at the origin lookup, the destination
   lookup or both: the request gets a no-access answer, a query error, or a calculation on the rows that
   were answered; never undefined behaviour — provided a reply has no more entries than stops were asked *)
Theorem C20_every_reply_is_handled : forall xo xd ao ad ma me,
  (reply_width xo <= S (length ao))%nat -> (reply_width xd <= S (length ad))%nat ->
  handle_lookups xo xd ao ad ma me <> C20Bad.
Proof. exact C20_documented. Qed.
Print Assumptions C20_every_reply_is_handled.

Theorem C20_origin_failure_degrades : forall xd ao ad ma me xo,
  (xo = XThrow \/ exists b, xo = XStatus false b) -> (reply_width xd <= S (length ad))%nat ->
  (exists r, handle_lookups xo xd ao ad ma me = C20NoAccess r /\
             (r = R_NO_ACCESS_AT_ORIGIN \/ r = R_NO_ACCESS_AT_ORIGIN_AND_DESTINATION))
  \/ handle_lookups xo xd ao ad ma me = C20QueryError.
Proof. exact C20_failures_degrade. Qed.
Print Assumptions C20_origin_failure_degrades.

(* rows handed to the calculator name asked stops only and respect the walking maximum (feeds C02) *)
Theorem C20_rows_sound : forall x asked maxt rows, osrm_rows x asked maxt = Ok rows ->
  forall r, In r rows -> In (fp_node r) asked /\ fp_time r <= maxt.
Proof. intros x asked maxt rows H. exact (proj1 (osrm_rows_sound x asked maxt rows H)). Qed.
Print Assumptions C20_rows_sound.

(* no memory of earlier faults: a healthy exchange after any fault sequence is handled as if alone *)
Theorem C20_recovery : forall (faults : list exchange) x asked maxt,
  last (map (fun e => osrm_rows e asked maxt) (faults ++ [x])) (Ok []) = osrm_rows x asked maxt.
Proof. exact C20_no_memory. Qed.
Print Assumptions C20_recovery.

(* --- the reply handling AS THE SOURCE WRITES IT NOW (gen/OsrmReply.v: the body of
   OsrmGeoFilter::getAccessibleNodesFootpathsFromPoint after the pre-filter loop, read by tools/gen_osrm.py as a statement
   tree; coq/OsrmCode.v interprets it over `exchange` / `json`) --- *)
Require TrV.OsrmCode TrV.gen.OsrmReply.
From TrV Require Proofs.OsrmTie.
Module RC.
  Import TrV.OsrmCode TrV.Proofs.OsrmTie.

  (* the model of this property IS the source's reply handling: the early return, the request inside the try with the
     status test, the catch, the parse outside it, the four null tests in source order (`&&` stops at the first false one),
     the two sizes, the loop from 1 while i < numberOfDurations, the distance read under the time guard, stop i - 1 -
     for EVERY exchange, candidate list, maximum, direction, and whatever a `return` of something else than the rows
     might return *)
  Theorem C20_reply_handling_is_code : forall (other : list fprow) (reversed : bool) (x : exchange) (asked : list nat) (maxt : Z),
    osrm_rows x asked maxt = run_reply other reversed x asked maxt GO.gen_osrm_reply.
  Proof. exact reply_tie. Qed.

  (* regression: the reply {"durations":[null],"distances":5} - entry 0 of durations null, distances not an array - gets
     the empty list (a no-access answer) from the model and from the source's tree: `&&` never evaluates distances[0].
     (The first version of the tie above found that Osrm.osrm_rows answered Exn 3 - a query error - on this shape.) *)
  Theorem C20_reply_short_circuit_regression :
    osrm_rows (XStatus true (Some (JObj [(K_DURATIONS, JArr [JNull]); (K_DISTANCES, JNum 50)]))) [7%nat] 600 = Ok [] /\
    run_reply [] false (XStatus true (Some (JObj [(K_DURATIONS, JArr [JNull]); (K_DISTANCES, JNum 50)]))) [7%nat] 600 GO.gen_osrm_reply = Ok [] /\
    run_reply [] true (XStatus true (Some (JObj [(K_DURATIONS, JArr [JNull]); (K_DISTANCES, JNum 50)]))) [7%nat] 600 GO.gen_osrm_reply = Ok [].
  Proof. exact short_circuit_reply_regression. Qed.

  (* structural facts read off the regenerated tree: the request and the status test are inside the try (and nowhere
     else); a non-200 status and a caught exception both return the EMPTY list; the parse is outside the try, so a body that
     is not JSON leaves the function as an exception; the four null tests (in source order) stand above every size /
     indexed / converted read and there is no other null test; the distance is converted only under the time guard; sizes are
     read before the loop; the query string is annotations + destinations=0 (reversed) / sources=0, sent by the GET *)
  Theorem C20_reply_frame_is_code :
    (in_try is_request GO.gen_osrm_reply = true /\ out_of_try is_request GO.gen_osrm_reply = false /\
     in_try is_status_test GO.gen_osrm_reply = true /\ out_of_try is_status_test GO.gen_osrm_reply = false) /\
    (forall (other : list fprow) (reversed : bool) (asked : list nat) (maxt : Z),
       (forall b : option json, run_reply other reversed (XStatus false b) asked maxt GO.gen_osrm_reply = Ok []) /\
       run_reply other reversed XThrow asked maxt GO.gen_osrm_reply = Ok []) /\
    (in_try is_parse GO.gen_osrm_reply = false /\ out_of_try is_parse GO.gen_osrm_reply = true) /\
    (forall (other : list fprow) (reversed : bool) (asked : list nat) (maxt : Z), asked <> [] ->
       run_reply other reversed (XStatus true None) asked maxt GO.gen_osrm_reply = Exn 3%nat) /\
    (reads_guarded false GO.gen_osrm_reply = true /\ null_tests_only_in_four GO.gen_osrm_reply = true /\
     has_loop GO.gen_osrm_reply = true) /\
    (distance_guarded false GO.gen_osrm_reply = true /\ distance_guarded false GO.gen_osrm_row_body = true) /\
    (sizes_first GO.gen_osrm_reply = true /\ sizes_first GO.gen_osrm_row_body = true) /\
    (query_parts true GO.gen_osrm_reply = [QAnnotations; QDestinations0] /\
     query_parts false GO.gen_osrm_reply = [QAnnotations; QSources0] /\
     in_try request_is_get_of_query GO.gen_osrm_reply = true).
  Proof. exact reply_frame. Qed.
End RC.
Print Assumptions RC.C20_reply_handling_is_code.
Print Assumptions RC.C20_reply_short_circuit_regression.
Print Assumptions RC.C20_reply_frame_is_code.
