(* C01 — every returned route is an executable itinerary in the scenario timetable. *)
From TrV Require Import Properties.Common.
Local Open Scope Z_scope.

Definition C01_full_statement : Prop :=
  forall d s p acc egr, in_domain d s p acc egr ->
    (forall r used, answer_route d s p acc egr = Ok (r, used) -> valid_itinerary_b d s p acc egr r = true) /\
    (forall rs n, answer_alt d s p acc egr = Ok (rs, n) -> forall r, In r rs -> valid_itinerary_b d s p acc egr r = true) /\
    is_bad (answer_route d s p acc egr) = false.

(* non-vacuity: the example answer is a success with one transfer and it is a valid itinerary *)
Theorem C01_example :
  match answer_route ex_data scen_all (ex_params true 35000) ex_acc ex_egr with
  | Ok (r, _) => valid_itinerary_b ex_data scen_all (ex_params true 35000) ex_acc ex_egr r = true /\ rt_nboard r = 2
  | _ => False
  end.
Proof. vm_compute. auto. Qed.
Print Assumptions C01_example.
