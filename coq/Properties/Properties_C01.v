(* C01 — every returned route is an executable itinerary in the scenario timetable. *)
From TrV Require Import Properties.Common.
Local Open Scope Z_scope.

Definition C01_full_statement : Prop :=
  forall d s p acc egr, in_domain d s p acc egr ->
    (forall r used, answer_route d s p acc egr = Ok (r, used) -> valid_itinerary_b d s p acc egr r = true) /\
    (forall rs n, answer_alt d s p acc egr = Ok (rs, n) -> forall r, In r rs -> valid_itinerary_b d s p acc egr r = true) /\
    is_bad (answer_route d s p acc egr) = false.

(* non-vacuity: the example answer is a success with one transfer and it is a valid itinerary *)
Theorem C01_example :
  match answer_route ex_data scen_all (ex_params true 35000) ex_acc ex_egr with
  | Ok (r, _) => valid_itinerary_b ex_data scen_all (ex_params true 35000) ex_acc ex_egr r = true /\ rt_nboard r = 2
  | _ => False
  end.
Proof. vm_compute. auto. Qed.
Print Assumptions C01_example.

(* every route calculateSingle returns — departure and arrival queries, with the router asked (fresh) or
   with rows kept from an earlier calculation, with or without excluded lines — is an executable
   itinerary: reverse-scan invariant, rebuild loop, the four clean-up rewrites and the emission loop *)
From TrV Require Import Proofs.RouteValid.
Theorem C01_single_route_valid : forall d s p acc egr fresh r used,
  wf_data_b d = true -> wf_tables_b d p acc egr = true -> wf_params_b p = true ->
  calc_single d (conn_set d s) p acc egr fresh = Ok (r, used) ->
  valid_itinerary_b d s p acc egr r = true.
Proof. exact calc_single_valid. Qed.
Print Assumptions C01_single_route_valid.

(* end to end (Proofs/Compose.v): the outcome of calculateSingle is a route or a no-routing reason — never a
   crash, hang, out-of-bounds index or stray exception — and every route of an alternatives answer is an
   executable itinerary for the ORIGINAL query *)
From TrV Require Import Proofs.Compose.
Theorem C01_outcome_is_route_or_reason : forall d s p acc egr fresh,
  wf_data_b d = true -> wf_tables_b d p acc egr = true -> wf_params_b p = true ->
  (exists r used, calc_single d (conn_set d s) p acc egr fresh = Ok (r, used)) \/
  (exists reason, calc_single d (conn_set d s) p acc egr fresh = NoRouting reason).
Proof. exact calc_single_outcome. Qed.
Print Assumptions C01_outcome_is_route_or_reason.

Theorem C01_alternatives_valid : forall d s p acc egr rs total,
  wf_data_b d = true -> wf_tables_b d p acc egr = true -> wf_params_b p = true ->
  alternatives d (conn_set d s) p acc egr = Ok (rs, total) ->
  forall r, In r rs -> valid_itinerary_b d s p acc egr r = true.
Proof. intros d s p acc egr rs total H1 H2 H3 H r Hr. exact (proj1 (alternatives_all_ok d s p acc egr rs total H1 H2 H3 H r Hr)). Qed.
Print Assumptions C01_alternatives_valid.

Theorem C01_alternatives_outcome : forall d s p acc egr,
  wf_data_b d = true -> wf_tables_b d p acc egr = true -> wf_params_b p = true ->
  (exists rs total, alternatives d (conn_set d s) p acc egr = Ok (rs, total)) \/
  (exists reason, alternatives d (conn_set d s) p acc egr = NoRouting reason).
Proof. exact alternatives_outcome. Qed.
Print Assumptions C01_alternatives_outcome.

(* the full statement, assembled *)
From TrV Require Import Proofs.Assemble.
Theorem C01_full : C01_full_statement.
Proof. exact C01_assembled. Qed.
Print Assumptions C01_full.

(* tie to the source: the model's reverse step and best-access selection are the control skeleton instantiated with
   the guards tools/gen_guards.py translated from reverse_calculation.cpp AS IT IS NOW (gen/Guards.v) *)
From TrV Require Import Proofs.GuardsTie.
Theorem C01_reverse_step_is_code : forall d p k st c, rev_step_code d p k st c = rev_step d p k false st c.
Proof. exact rev_step_tie. Qed.
Print Assumptions C01_reverse_step_is_code.
Theorem C01_best_access_is_code : forall p k st, best_access_sk G.gen_rev_best_time G.gen_rev_best_ok p k st = best_access p k st.
Proof. exact best_access_tie. Qed.
Print Assumptions C01_best_access_is_code.

(* the whole reverse scan (entry slot of the hour index + every step) as the source writes it now *)
Theorem C01_reverse_scan_is_code : forall d p k, rev_scan_code d p k = rev_scan d p k false.
Proof. exact rev_scan_tie. Qed.
Print Assumptions C01_reverse_scan_is_code.

(* the arrival-order comparator (with its reversed trip/sequence tie-break) as the source writes it now *)
Theorem C01_reverse_sort_is_code : forall a b, cmp_args G.gen_rev_lt a b = rev_lt a b.
Proof. exact rev_lt_tie. Qed.
Print Assumptions C01_reverse_sort_is_code.

(* tie to the source, stage 3: the CONTROL SKELETON itself (which statement sits inside which `if`, the order of the
   guarded blocks, where `break` / `continue` sit, which variable every assignment writes) is read from the C++ source
   AS IT IS NOW by tools/gen_skel.py (gen/Skel.v) and executed by the interpreter of Skel.v with the guards of
   gen/Guards.v; the model's step computes the same state, for all values `l0` left in the function-level locals *)
Require Import TrV.Skel.
From TrV Require Import Proofs.SkelTie.
Theorem C01_fwd_step_skeleton_is_code : forall d p k st c l0,
  fstate_eq (fwd_step d p k false st c) (run_fwd fwd_code d p k c GS.gen_fwd_skel l0 st).
Proof. exact fwd_step_skel_tie. Qed.
Print Assumptions C01_fwd_step_skeleton_is_code.
Theorem C01_fwd_footpath_loop_skeleton_is_code : forall d p k c m r,
  nth (l_idx (fm_l m)) (fwd_rows d c) row_default = r ->
  let res := fwd_loop_step fwd_code d p k c GS.gen_fwd_fp (m, false) r in
  snd res = false /\ l_idx (fm_l (fst res)) = S (l_idx (fm_l m)) /\
  fm_st (fst res) = f_set_triple (fm_st m) (fwd_fp_step p c (o_enter (f_ov (fm_st m) (c_trip c))) (f_triple (fm_st m)) r).
Proof. exact fwd_fp_step_skel_tie. Qed.
Print Assumptions C01_fwd_footpath_loop_skeleton_is_code.
Theorem C01_rev_step_skeleton_is_code : forall d p k st c l0,
  rstate_eq (rev_step d p k false st c) (run_rev rev_code d p k c GS.gen_rev_skel l0 st).
Proof. exact rev_step_skel_tie. Qed.
Print Assumptions C01_rev_step_skeleton_is_code.
Theorem C01_rev_footpath_loop_skeleton_is_code : forall d p k c m r,
  nth (rl_idx (rm_l m)) (rev_rows d c) row_default = r ->
  let res := rev_loop_step rev_code d p k c GS.gen_rev_fp (m, false) r in
  snd res = false /\ rl_idx (rm_l (fst res)) = S (rl_idx (rm_l m)) /\
  rm_st (fst res) =
  r_set_triple (rm_st m) (rev_fp_step p k c (minw_eff p c) (o_exit (r_ov (rm_st m) (c_trip c))) (r_triple (rm_st m)) r).
Proof. exact rev_fp_step_skel_tie. Qed.
Print Assumptions C01_rev_footpath_loop_skeleton_is_code.
(* ... and the whole scan: entry slot as the source computes it, then the loop body iterated with the locals kept from
   one connection to the next, whatever they hold at the start *)
Theorem C01_fwd_scan_skeleton_is_code : forall d p k l_init,
  outcome_rel fstate_eq (fwd_scan d p k false)
    (fwd_scan_skel fwd_code GS.gen_fwd_skel
       (G.gen_fwd_entry_hour (k_dep k) (k_arr k) (k_minAcc k) (k_minEgr k) (q_minw p) (k_maxAcc k) (k_maxEgr k)) l_init d p k).
Proof. exact fwd_scan_skel_tie. Qed.
Print Assumptions C01_fwd_scan_skeleton_is_code.
Theorem C01_rev_scan_skeleton_is_code : forall d p k l_init,
  outcome_rel rstate_eq (rev_scan d p k false)
    (rev_scan_skel rev_code GS.gen_rev_skel
       (G.gen_rev_entry_hour (k_dep k) (k_arr k) (k_minAcc k) (k_minEgr k) (q_minw p) (k_maxAcc k) (k_maxEgr k)) l_init d p k).
Proof. exact rev_scan_skel_tie. Qed.
Print Assumptions C01_rev_scan_skeleton_is_code.

(* tie to the source, stage 3b: the step-emission loop of reverse_journey.cpp - every guard, every right-hand side, every
   step argument, and the assignments to the result after the loop - is read from the source AS IT IS NOW by
   tools/gen_emit.py (gen/Emit.v) and executed by the interpreter of Emit.v; the model computes the same, for all values
   `tmp` left in the temporaries (1-based stop sequences: `seq_ok`).  D17 was a missing `if (totalDistance != -1)` here *)
Require Import TrV.Emit.
From TrV Require Import Proofs.EmitTie.
(* declarations (gen/Consts.v), loop and result assignments together: the route the model emits is the one the source
   computes as it is written now *)
Theorem C01_emit_is_code : forall d p bestdep js tmp, Forall seq_ok js -> emit d p bestdep js = emit_code d p bestdep js tmp.
Proof. exact emit_skel_tie. Qed.
Print Assumptions C01_emit_is_code.

(* tie to the source, stage 3c: the journey rebuild of reverseJourneyStep (declarations, the loop that follows the exit
   connections to the next stop's label, the access / egress pushes) is read from reverse_journey.cpp AS IT IS NOW by
   tools/gen_loops.py (gen/Rebuild.v) and executed by the interpreter of Rebuild.v; the model computes the same *)
Require Import TrV.Rebuild.
From TrV Require Import Proofs.LoopsTie.
Theorem C01_rebuild_step_is_code : forall e fuel m, js_has_conns (rb_cur m) = true ->
  run_rebuild GR.gen_rebuild_body e fuel m = Some (rebuild_step (re_steps e) m).
Proof. exact rebuild_step_tie. Qed.
Print Assumptions C01_rebuild_step_is_code.
Theorem C01_rebuild_is_code : forall steps start node acc egr fuel m0 legs ln ar er,
  rebuild fuel steps start [] None = Some (legs, Some ln) ->
  row_of node acc = Some ar -> row_of ln egr = Some er ->
  option_map rb_journey
    (run_rebuild GR.gen_rebuild_skel {| re_steps := steps; re_start := Some start; re_node := node; re_acc := acc; re_egr := egr |} fuel m0) =
  Some (walk_step ar :: legs ++ [walk_step er]).
Proof. exact rebuild_skel_journey. Qed.
Print Assumptions C01_rebuild_is_code.

(* tie to the source, stage 3d: Calculator::reset (resets.cpp, with resetAccessFootpaths / resetEgressFootpaths inlined) is
   read AS IT IS NOW by tools/gen_loops.py (gen/Reset.v) and executed by the interpreter of Reset.v: which lookup feeds
   which table and with which limit, the seeding of the per-stop tables row by row, the running minimum / maximum, the
   emptiness flags and the order of the NO_ACCESS_* exceptions *)
Require Import TrV.Reset.
From TrV Require Import Proofs.ResetTie.
Theorem C01_reset_seeding_is_code : forall d cs e m0 acc egr m',
  ze_odtrip e = false -> rows_are e m0 acc egr -> absent_clean e m0 ->
  run_reset GZ.gen_reset_skel e m0 = Ok m' ->
  calc_of d (ze_p e) cs m' = mk_calc d (ze_p e) cs acc egr (ze_origin e) (ze_dest e).
Proof. exact reset_seeding_tie. Qed.
Print Assumptions C01_reset_seeding_is_code.

(* tie to the source, stage 3e: Calculator::optimizeJourney (optimize_journey.cpp) is read AS IT IS NOW by
   tools/gen_optimize.py (gen/Optimize.v) and executed by the interpreters of Optimize.v.
   Detection: which journey step is a leg, the range `sequenceStartIdx + 1 .. <= sequenceEndIdx` of its in-between stops
   and the test that keeps one; the four searches CSL / BTS / GTF / CSS in source order with their outer conditions, the
   list searched, the stop searched, the look-up in ignoreOptimizationNodes, the case number and the stop recorded.
   A pass: what is set again at its top (a declaration moved before the `while` is no longer there), the four rewrite
   blocks with the index arithmetic of their loops over reverseConnections, the stop match, the permission tests, what
   is pushed / copied / replaced / erased and in which order, `optimizationCase = -1` after BTS; the loop condition; the
   statements before the loop.  The model's `optimize` computes what the source computes, from any initial values of
   the function's variables. *)
Require TrV.Optimize.
From TrV Require Proofs.OptimizeTie Proofs.OptimizePassTie Proofs.OptimizeLoopTie.
Module OJ.
  Import TrV.Optimize TrV.Proofs.OptimizeTie TrV.Proofs.OptimizePassTie TrV.Proofs.OptimizeLoopTie.
  Theorem C01_optimize_leg_summary_is_code : forall d j,
    (forall en, js_enter j = Some en -> (1 <= c_seq en)%nat) -> (forall ex, js_exit j = Some ex -> (1 <= c_seq ex)%nat) ->
    leg_summary d j = leg_summary_code GO.gen_opt_leg d j.
  Proof. exact leg_summary_tie. Qed.
  Theorem C01_optimize_cases_order_is_code : forall ign si sj lj, ls_last sj = Some lj ->
    detect_pair ign si sj = option_map (fun x => (Z.to_nat (fst x), snd x)) (run_cases GO.gen_opt_cases ign si sj).
  Proof. exact detect_pair_tie. Qed.
  Theorem C01_optimize_detection_is_code : forall d ign js idx prev, Forall seqs_ok js ->
    detect d ign js idx prev = detect_code GO.gen_opt_leg GO.gen_opt_cases d ign js idx prev.
  Proof. exact detect_tie. Qed.
  Theorem C01_optimize_rewrites_guards_are_code : forall d js used ign m1 kont kb cs n i j,
    o_journey m1 = js -> o_used m1 = used -> o_ign m1 = ign ->
    o_from m1 = Z.of_nat i -> o_to m1 = Z.of_nat j -> o_node m1 = Some n -> o_case m1 = Z.of_nat cs -> o_started m1 = true ->
    o_exit m1 = None \/ exit_reset_in_block d ->
    (1 <= cs <= 4)%nat -> (i < j)%nat -> Forall seqs_ok js ->
    forall r, r = orun d GO.gen_opt_leg GO.gen_opt_cases GO.gen_opt_rewrites m1 kont kb ->
    match model_rewrite d js used ign cs n i j with
    | PUB => r = OUB
    | PGo js' used' ign' c => ends_with r kont (js', used', ign', c, true)
    end.
  Proof. exact rewrites_tie. Qed.
  Theorem C01_optimize_pass_is_code : forall d m kont kb, Forall seqs_ok (o_journey m) ->
    forall r, r = orun d GO.gen_opt_leg GO.gen_opt_cases GO.gen_opt_pass m kont kb ->
    match model_pass d (o_journey m) (o_used m) (o_ign m) with
    | PUB => r = OUB
    | PGo js' used' ign' c => ends_with r kont (js', used', ign', c, true)
    end.
  Proof. exact pass_tie. Qed.
  Theorem C01_optimize_pass_is_model : forall f d js used ign,
    optimize (S f) d js used ign =
    match model_pass d js used ign with
    | PUB => OptUB
    | PGo js' used' ign' c => if (c >=? 0)%Z then optimize f d js' used' ign' else OptDone js' used'
    end.
  Proof. exact optimize_pass. Qed.
  Theorem C01_optimize_loop_is_code : forall d fuel m, Forall (jin d) (o_journey m) -> GO.gen_opt_continue m = true ->
    out_of (owhile d GO.gen_opt_leg GO.gen_opt_cases GO.gen_opt_continue GO.gen_opt_pass fuel m)
    = Some (optimize fuel d (o_journey m) (o_used m) (o_ign m)).
  Proof. exact while_tie. Qed.
  Theorem C01_optimize_function_is_code : forall d fuel m, Forall (jin d) (o_journey m) ->
    out_of (orun_function d GO.gen_opt_leg GO.gen_opt_cases GO.gen_opt_before GO.gen_opt_continue GO.gen_opt_pass fuel m)
    = Some (optimize fuel d (o_journey m) [] []).
  Proof. exact optimize_function_tie. Qed.
  (* for every journey the reverse scan and the rebuild loop produce (RevInv.calc_single_ok) *)
  Theorem C01_optimize_of_rebuilt_journeys_is_code : forall d s p acc egr bd fuel m,
    journey_ok_b d s p acc egr bd (o_journey m) = true ->
    out_of (orun_function d GO.gen_opt_leg GO.gen_opt_cases GO.gen_opt_before GO.gen_opt_continue GO.gen_opt_pass fuel m)
    = Some (optimize fuel d (o_journey m) [] []).
  Proof. exact optimize_function_tie_answers. Qed.
End OJ.
Print Assumptions OJ.C01_optimize_leg_summary_is_code.
Print Assumptions OJ.C01_optimize_cases_order_is_code.
Print Assumptions OJ.C01_optimize_detection_is_code.
Print Assumptions OJ.C01_optimize_rewrites_guards_are_code.
Print Assumptions OJ.C01_optimize_pass_is_code.
Print Assumptions OJ.C01_optimize_pass_is_model.
Print Assumptions OJ.C01_optimize_loop_is_code.
Print Assumptions OJ.C01_optimize_function_is_code.
Print Assumptions OJ.C01_optimize_of_rebuilt_journeys_is_code.

(* tie to the source, the RENDERER of the steps: the three visit functions of StepToV2Visitor (result_to_v2.cpp) - every
   `stepJson["key"] = step.member;`, the "action" / "type" strings, the `if (step.walkingType != EGRESS)` around
   "readyToBoardAt", which attribute of the trip / of the stop feeds which key - are read AS THEY ARE NOW by
   tools/gen_render.py (gen/Render.v) and executed by the interpreter of RenderJson.v (nlohmann::json objects: sorted
   keys, last writer wins).  The step objects of an answer are the model's steps under the documented keys; names, codes,
   uuids and coordinates are opaque (`JOpaque attribute id`: WHICH attribute of WHICH trip / stop is tied, not its text) *)
Require Coq.Strings.String.
Require TrV.RenderJson TrV.gen.Render.
From TrV Require Proofs.RenderTie.
Module RJ.
  Import Coq.Strings.String TrV.RenderJson TrV.Proofs.RenderTie.
  Definition gen_steps : step_tables :=
    {| tb_walk := GR.gen_render_walk; tb_board := GR.gen_render_board; tb_unboard := GR.gen_render_unboard |}.
  Theorem C01_json_steps_are_code : forall st, json_of_step st = render_step gen_steps st.
  Proof. exact step_tie. Qed.
  Theorem C01_json_walking_step_is_code : forall kind travel dist dep arr ready,
    json_of_step (SWalk kind travel dist dep arr ready) = render_step gen_steps (SWalk kind travel dist dep arr ready).
  Proof. exact walk_step_tie. Qed.
  Theorem C01_json_boarding_step_is_code : forall trip legseq stopseq node dep wait,
    json_of_step (SBoard trip legseq stopseq node dep wait) = render_step gen_steps (SBoard trip legseq stopseq node dep wait).
  Proof. exact board_step_tie. Qed.
  Theorem C01_json_unboarding_step_is_code : forall trip legseq stopseq node arr ivt ivd,
    json_of_step (SUnboard trip legseq stopseq node arr ivt ivd) = render_step gen_steps (SUnboard trip legseq stopseq node arr ivt ivd).
  Proof. exact unboard_step_tie. Qed.
End RJ.
Print Assumptions RJ.C01_json_steps_are_code.
Print Assumptions RJ.C01_json_walking_step_is_code.
Print Assumptions RJ.C01_json_boarding_step_is_code.
Print Assumptions RJ.C01_json_unboarding_step_is_code.
