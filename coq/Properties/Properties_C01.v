(* C01 — every returned route is an executable itinerary in the scenario timetable. *)
From TrV Require Import Properties.Common.
Local Open Scope Z_scope.

Definition C01_full_statement : Prop :=
  forall d s p acc egr, in_domain d s p acc egr ->
    (forall r used, answer_route d s p acc egr = Ok (r, used) -> valid_itinerary_b d s p acc egr r = true) /\
    (forall rs n, answer_alt d s p acc egr = Ok (rs, n) -> forall r, In r rs -> valid_itinerary_b d s p acc egr r = true) /\
    is_bad (answer_route d s p acc egr) = false.

(* non-vacuity: the example answer is a success with one transfer and it is a valid itinerary *)
Theorem C01_example :
  match answer_route ex_data scen_all (ex_params true 35000) ex_acc ex_egr with
  | Ok (r, _) => valid_itinerary_b ex_data scen_all (ex_params true 35000) ex_acc ex_egr r = true /\ rt_nboard r = 2
  | _ => False
  end.
Proof. vm_compute. auto. Qed.
Print Assumptions C01_example.

(* every route calculateSingle returns — departure and arrival queries, with the router asked (fresh) or
   with rows kept from an earlier calculation, with or without excluded lines — is an executable
   itinerary: reverse-scan invariant, rebuild loop, the four clean-up rewrites and the emission loop *)
From TrV Require Import Proofs.RouteValid.
Theorem C01_single_route_valid : forall d s p acc egr fresh r used,
  wf_data_b d = true -> wf_tables_b d p acc egr = true -> wf_params_b p = true ->
  calc_single d (conn_set d s) p acc egr fresh = Ok (r, used) ->
  valid_itinerary_b d s p acc egr r = true.
Proof. exact calc_single_valid. Qed.
Print Assumptions C01_single_route_valid.

(* end to end (Proofs/Compose.v): the outcome of calculateSingle is a route or a no-routing reason — never a
   crash, hang, out-of-bounds index or stray exception — and every route of an alternatives answer is an
   executable itinerary for the ORIGINAL query *)
From TrV Require Import Proofs.Compose.
Theorem C01_outcome_is_route_or_reason : forall d s p acc egr fresh,
  wf_data_b d = true -> wf_tables_b d p acc egr = true -> wf_params_b p = true ->
  (exists r used, calc_single d (conn_set d s) p acc egr fresh = Ok (r, used)) \/
  (exists reason, calc_single d (conn_set d s) p acc egr fresh = NoRouting reason).
Proof. exact calc_single_outcome. Qed.
Print Assumptions C01_outcome_is_route_or_reason.

Theorem C01_alternatives_valid : forall d s p acc egr rs total,
  wf_data_b d = true -> wf_tables_b d p acc egr = true -> wf_params_b p = true ->
  alternatives d (conn_set d s) p acc egr = Ok (rs, total) ->
  forall r, In r rs -> valid_itinerary_b d s p acc egr r = true.
Proof. intros d s p acc egr rs total H1 H2 H3 H r Hr. exact (proj1 (alternatives_all_ok d s p acc egr rs total H1 H2 H3 H r Hr)). Qed.
Print Assumptions C01_alternatives_valid.

Theorem C01_alternatives_outcome : forall d s p acc egr,
  wf_data_b d = true -> wf_tables_b d p acc egr = true -> wf_params_b p = true ->
  (exists rs total, alternatives d (conn_set d s) p acc egr = Ok (rs, total)) \/
  (exists reason, alternatives d (conn_set d s) p acc egr = NoRouting reason).
Proof. exact alternatives_outcome. Qed.
Print Assumptions C01_alternatives_outcome.

(* the full statement, assembled *)
From TrV Require Import Proofs.Assemble.
Theorem C01_full : C01_full_statement.
Proof. exact C01_assembled. Qed.
Print Assumptions C01_full.

(* tie to the source: the model's reverse step and best-access selection are the control skeleton instantiated with
   the guards tools/gen_guards.py translated from reverse_calculation.cpp AS IT IS NOW (gen/Guards.v) *)
From TrV Require Import Proofs.GuardsTie.
Theorem C01_reverse_step_is_code : forall d p k st c, rev_step_code d p k st c = rev_step d p k false st c.
Proof. exact rev_step_tie. Qed.
Print Assumptions C01_reverse_step_is_code.
Theorem C01_best_access_is_code : forall p k st, best_access_sk G.gen_rev_best_time G.gen_rev_best_ok p k st = best_access p k st.
Proof. exact best_access_tie. Qed.
Print Assumptions C01_best_access_is_code.

(* the whole reverse scan (entry slot of the hour index + every step) as the source writes it now *)
Theorem C01_reverse_scan_is_code : forall d p k, rev_scan_code d p k = rev_scan d p k false.
Proof. exact rev_scan_tie. Qed.
Print Assumptions C01_reverse_scan_is_code.

(* the arrival-order comparator (with its reversed trip/sequence tie-break) as the source writes it now *)
Theorem C01_reverse_sort_is_code : forall a b, cmp_args G.gen_rev_lt a b = rev_lt a b.
Proof. exact rev_lt_tie. Qed.
Print Assumptions C01_reverse_sort_is_code.
