(* C07 — a no_routing_found answer carries the most specific reason that is true. *)
From TrV Require Import Properties.Common.
Local Open Scope Z_scope.

Definition expected_reason (d : data) (s : scenario) (p : params) (acc egr : list fprow) : nat :=
  match acc, egr with
  | [], [] => R_NO_ACCESS_AT_ORIGIN_AND_DESTINATION
  | [], _ => R_NO_ACCESS_AT_ORIGIN
  | _, [] => R_NO_ACCESS_AT_DESTINATION
  | _, _ => if q_fwd p then (if service_from_origin_b d s p acc then R_NO_ROUTING_FOUND else R_NO_SERVICE_FROM_ORIGIN)
            else (if service_to_destination_b d s p egr false then R_NO_ROUTING_FOUND else R_NO_SERVICE_TO_DESTINATION)
  end.

Definition C07_full_statement : Prop :=
  forall d s p acc egr, wf_data_b d = true -> find_scenario d (q_scenario p) = Some s -> wf_params_b p = true ->
    forall reason, answer_route d s p acc egr = NoRouting reason -> reason = expected_reason d s p acc egr.

(* the access-emptiness part holds for every dataset and query, by computation on the table shapes *)
Theorem C07_no_access : forall d cs p acc egr,
  (acc = [] \/ egr = []) ->
  calc_single d cs p acc egr true =
    NoRouting (match acc, egr with
               | [], [] => R_NO_ACCESS_AT_ORIGIN_AND_DESTINATION
               | [], _ => R_NO_ACCESS_AT_ORIGIN
               | _, _ => R_NO_ACCESS_AT_DESTINATION end).
Proof.
  intros d cs p acc egr H. unfold calc_single, access_reason.
  destruct acc as [|a acc'], egr as [|e egr']; cbn; try reflexivity.
  destruct H as [H|H]; discriminate H.
Qed.
Print Assumptions C07_no_access.

Theorem C07_example_no_service :
  answer_route ex_data scen_all (ex_params true 37000) ex_acc ex_egr = NoRouting R_NO_SERVICE_FROM_ORIGIN /\
  expected_reason ex_data scen_all (ex_params true 37000) ex_acc ex_egr = R_NO_SERVICE_FROM_ORIGIN.
Proof. vm_compute. auto. Qed.
Print Assumptions C07_example_no_service.
