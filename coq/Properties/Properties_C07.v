(* C07 — a no_routing_found answer carries the most specific reason that is true. *)
From TrV Require Import Properties.Common.
Local Open Scope Z_scope.

Definition expected_reason (d : data) (s : scenario) (p : params) (acc egr : list fprow) : nat :=
  match acc, egr with
  | [], [] => R_NO_ACCESS_AT_ORIGIN_AND_DESTINATION
  | [], _ => R_NO_ACCESS_AT_ORIGIN
  | _, [] => R_NO_ACCESS_AT_DESTINATION
  | _, _ => if q_fwd p then (if service_from_origin_b d s p acc then R_NO_ROUTING_FOUND else R_NO_SERVICE_FROM_ORIGIN)
            else (if service_to_destination_b d s p egr false then R_NO_ROUTING_FOUND else R_NO_SERVICE_TO_DESTINATION)
  end.

(* tables as the walking router offers them: each stop at most once, times within the maxima (wf_tables_b).  Without
   it the statement is false of the model AND meaningless of the code: with a stop listed twice `nodesAccess` keeps the
   first row and `nodesTentativeTime` the last (Example C07_needs_distinct_table_stops in Proofs/ReasonIff.v). *)
Definition C07_full_statement : Prop :=
  forall d s p acc egr, wf_data_b d = true -> find_scenario d (q_scenario p) = Some s -> wf_params_b p = true ->
    wf_tables_b d p acc egr = true ->
    forall reason, answer_route d s p acc egr = NoRouting reason -> reason = expected_reason d s p acc egr.

(* the access-emptiness part holds for every dataset and query, by computation on the table shapes *)
Theorem C07_no_access : forall d cs p acc egr,
  (acc = [] \/ egr = []) ->
  calc_single d cs p acc egr true =
    NoRouting (match acc, egr with
               | [], [] => R_NO_ACCESS_AT_ORIGIN_AND_DESTINATION
               | [], _ => R_NO_ACCESS_AT_ORIGIN
               | _, _ => R_NO_ACCESS_AT_DESTINATION end).
Proof.
  intros d cs p acc egr H. unfold calc_single, access_reason.
  destruct acc as [|a acc'], egr as [|e egr']; cbn; try reflexivity.
  destruct H as [H|H]; discriminate H.
Qed.
Print Assumptions C07_no_access.

Theorem C07_example_no_service :
  answer_route ex_data scen_all (ex_params true 37000) ex_acc ex_egr = NoRouting R_NO_SERVICE_FROM_ORIGIN /\
  expected_reason ex_data scen_all (ex_params true 37000) ex_acc ex_egr = R_NO_SERVICE_FROM_ORIGIN.
Proof. vm_compute. auto. Qed.
Print Assumptions C07_example_no_service.

(* ---- the full statement ------------------------------------------------------------------------------------ *)
From TrV Require Proofs.ReasonIff.
Lemma expected_reason_same d s p acc egr : expected_reason d s p acc egr = ReasonIff.expected_reason d s p acc egr.
Proof. reflexivity. Qed.
Print Assumptions expected_reason_same.

Theorem C07_full : C07_full_statement.
Proof.
  intros d s p acc egr H1 H2 H3 H4 reason H. rewrite expected_reason_same.
  exact (ReasonIff.C07_reason d s p acc egr H1 H2 H3 H4 reason H).
Qed.
Print Assumptions C07_full.

(* the converse direction: a false fact is always reported (the reason is exactly characterised) *)
Theorem C07_no_service_from_origin_reported : forall d s p acc egr,
  wf_data_b d = true -> wf_params_b p = true -> wf_tables_b d p acc egr = true ->
  acc <> [] -> egr <> [] -> q_fwd p = true -> service_from_origin_b d s p acc = false ->
  calc_single d (conn_set d s) p acc egr true = NoRouting R_NO_SERVICE_FROM_ORIGIN.
Proof. exact ReasonIff.C07_no_service_from_origin. Qed.
Print Assumptions C07_no_service_from_origin_reported.

Theorem C07_no_service_to_destination_reported : forall d s p acc egr,
  wf_data_b d = true -> wf_params_b p = true -> wf_tables_b d p acc egr = true ->
  acc <> [] -> egr <> [] -> q_fwd p = false -> service_to_destination_b d s p egr false = false ->
  calc_single d (conn_set d s) p acc egr true = NoRouting R_NO_SERVICE_TO_DESTINATION.
Proof. exact ReasonIff.C07_no_service_to_destination. Qed.
Print Assumptions C07_no_service_to_destination_reported.

(* accessibility endpoint: NO_ACCESS_AT_PLACE / NO_SERVICE_AT_PLACE report the same facts *)
Theorem C07_accessibility_reason : forall d s p rows,
  wf_data_b d = true -> find_scenario d (q_scenario p) = Some s -> wf_params_b p = true ->
  (if q_fwd p then wf_tables_b d p rows [] else wf_tables_b d p [] rows) = true ->
  forall reason,
    calc_allnodes d (conn_set d s) p rows = NoRouting reason <->
    (rows = [] \/ ReasonIff.access_service_b d s p rows = false) /\ reason = ReasonIff.expected_access_reason p rows.
Proof. exact ReasonIff.C07_access_reason. Qed.
Print Assumptions C07_accessibility_reason.

(* tie to the source *)
From TrV Require Import Proofs.GuardsTie.
Theorem C07_forward_step_is_code : forall d p k st c, fwd_step_code d p k st c = fwd_step d p k false st c.
Proof. exact fwd_step_tie. Qed.
Print Assumptions C07_forward_step_is_code.
Theorem C07_reverse_step_is_code : forall d p k st c, rev_step_code d p k st c = rev_step d p k false st c.
Proof. exact rev_step_tie. Qed.
Print Assumptions C07_reverse_step_is_code.

(* the whole forward scan (entry slot of the hour index + every step) as the source writes it now *)
Theorem C07_forward_scan_is_code : forall d p k, fwd_scan_code d p k = fwd_scan d p k false.
Proof. exact fwd_scan_tie. Qed.
Print Assumptions C07_forward_scan_is_code.

(* the whole reverse scan (entry slot of the hour index + every step) as the source writes it now *)
Theorem C07_reverse_scan_is_code : forall d p k, rev_scan_code d p k = rev_scan d p k false.
Proof. exact rev_scan_tie. Qed.
Print Assumptions C07_reverse_scan_is_code.

(* tie to the source, stage 3d: Calculator::reset (resets.cpp, with resetAccessFootpaths / resetEgressFootpaths inlined) is
   read AS IT IS NOW by tools/gen_loops.py (gen/Reset.v) and executed by the interpreter of Reset.v: which lookup feeds
   which table and with which limit, the seeding of the per-stop tables row by row, the running minimum / maximum, the
   emptiness flags and the order of the NO_ACCESS_* exceptions *)
Require Import TrV.Reset.
From TrV Require Import Proofs.ResetTie.
Theorem C07_reset_reasons_are_code : forall e m0 acc egr r,
  ze_odtrip e = false -> rows_are e m0 acc egr -> absent_clean e m0 ->
  (run_reset GZ.gen_reset_skel e m0 = NoRouting r <-> access_reason (reset_acc_ok e acc) (reset_egr_ok e egr) = Some r).
Proof. exact reset_reasons_tie. Qed.
Print Assumptions C07_reset_reasons_are_code.
Theorem C07_reset_reasons_of_route_requests_are_code : forall e m0 acc egr r,
  ze_odtrip e = false -> ze_origin e = true -> ze_dest e = true -> rows_are e m0 acc egr -> absent_clean e m0 ->
  (run_reset GZ.gen_reset_skel e m0 = NoRouting r <->
   access_reason (negb (ze_fresh e) || nonempty acc) (negb (ze_fresh e) || nonempty egr) = Some r).
Proof. exact reset_reasons_single. Qed.
Print Assumptions C07_reset_reasons_of_route_requests_are_code.

(* tie to the source, geographic filters: which stops the walking tables are asked about.  src/geofilter.cpp and the
   pre-filter of src/osrmgeofilter.cpp are read AS THEY ARE NOW by tools/gen_geo.py into TYPED expression trees (gen/Geo.v)
   and evaluated by coq/Geo.v: int operations wrap to 32 bits, floating operations are exact rationals (float ROUNDING is
   outside the model), every int -> float / float -> int conversion is a node.  The squared walking radius is (t*v)^2
   for EVERY int t — "no limit" is sent as MAX_INT, whose square fits no int: the statement breaks if the body becomes
   `t * t * v * v` (example GeoTie.wrong_tree_no_limit: the radius would be 1.39 m) or squares an int radius.  Rationals
   are compared with == and <=. *)
From Coq Require QArith Qround.
Require TrV.Geo TrV.gen.Geo.
From TrV Require Proofs.GeoTie.
Module GEO.
  Import Coq.QArith.QArith Coq.QArith.Qround TrV.Geo TrV.Proofs.GeoTie.
  Local Open Scope Z_scope.
  Theorem C07_walk_radius_is_code : forall (ie : ivar -> Z) (fe : fvar -> Q), in_int (ie IMaxT) = true ->
    exists q, eval ie fe GG.gen_geo_max_dist_sq = Some (VF q) /\ (q == (inject_Z (ie IMaxT) * fe FSpeed) ^ 2)%Q.
  Proof. exact max_dist_sq_is_code_square. Qed.
  (* a larger maximum never loses a stop, and "no limit" (MAX_INT) loses none *)
  Theorem C07_walk_radius_monotone : forall (d2 : Q) (t1 t2 : Z) (v : Q), 0 <= t1 <= t2 -> (0 <= v)%Q ->
    (max_dist_sq t1 v <= max_dist_sq t2 v)%Q /\
    (candidate d2 t1 v = true -> candidate d2 t2 v = true) /\
    (in_int t1 = true -> candidate d2 t1 v = true -> candidate d2 INT_MAX v = true).
  Proof.
    intros d2 t1 t2 v Ht Hv. split; [exact (walk_radius_monotone t1 t2 v Ht Hv)|]. split.
    - exact (candidate_monotone d2 t1 t2 v Ht Hv).
    - intros Hi. exact (candidate_no_limit d2 t1 v (proj1 Ht) Hi Hv).
  Qed.
  (* the stops sent to the walking router are those with d2 <= (t*v)^2, d2 = dx^2 + dy^2; with none of them the answer is
     the empty table and the router is not asked (the NO_ACCESS reasons above start from that table) *)
  Theorem C07_osrm_prefilter_is_code : forall (ie : ivar -> Z) (fe : fvar -> Q) (asked : list nat),
    in_int (ie IMaxT) = true -> ie ICandidates = Z.of_nat (length asked) ->
    eval ie fe GG.gen_geo_osrm_prefilter_guard = Some (VB (candidate (env_d2 fe) (ie IMaxT) (fe FSpeed))) /\
    (exists q, eval ie fe GG.gen_geo_node_dist_sq = Some (VF q) /\ (q == env_d2 fe)%Q) /\
    GG.gen_geo_osrm_empty_returns_nothing = true /\
    (eval ie fe GG.gen_geo_osrm_empty_test = Some (VB true) -> forall x maxt, Osrm.osrm_rows x asked maxt = Ok []).
  Proof.
    intros ie fe asked Hi Hn. split; [exact (osrm_prefilter_is_code ie fe Hi)|]. split.
    - destruct (node_dist_sq_is_code ie fe) as [q [H1 [_ H2]]]. exists q. split; assumption.
    - destruct (osrm_empty_is_code ie fe asked Hn) as [H1 [_ H2]]. split; assumption.
  Qed.
End GEO.
Print Assumptions GEO.C07_walk_radius_is_code.
Print Assumptions GEO.C07_walk_radius_monotone.
Print Assumptions GEO.C07_osrm_prefilter_is_code.

(* tie to the source, the RENDERER of the reason: the `switch (noRoutingReason)` of the two noRoutingFoundResponse
   functions (result_to_v2.cpp, result_to_v2_accessibility.cpp) is read AS IT IS NOW by tools/gen_render.py (gen/Render.v:
   one (enumerator, string) row per case label in source order, fall-through resolved, the strings looked up in
   result_constants.hpp, and the default) - the string sent under "reason" is the text of the model's reason *)
Require Coq.Strings.String.
Require TrV.Http TrV.RenderJson TrV.gen.Render.
From TrV Require Proofs.RenderTie.
Module RJ.
  Import TrV.Http Coq.Strings.String TrV.RenderJson TrV.Proofs.RenderTie.
  Theorem C07_json_reason_strings_are_code : forall r,
    reason_text_string (route_reason_text r) =
      reason_string GR.gen_render_noroute_reasons GR.gen_render_noroute_reason_default r /\
    reason_text_string (access_reason_text r) =
      reason_string GR.gen_render_access_noroute_reasons GR.gen_render_access_noroute_reason_default r.
  Proof. intro r. exact (conj (route_reason_tie r) (access_reason_tie r)). Qed.
  Theorem C07_json_no_routing_bodies_are_code : forall reason q,
    json_of_body false (HNoRouting (route_reason_text reason) q) =
      Some (render_noroute GR.gen_render_route_query GR.gen_render_noroute_top GR.gen_render_noroute_reasons
                           GR.gen_render_noroute_reason_default reason q) /\
    json_of_body true (HNoRouting (access_reason_text reason) q) =
      Some (render_noroute GR.gen_render_access_query GR.gen_render_access_noroute_top GR.gen_render_access_noroute_reasons
                           GR.gen_render_access_noroute_reason_default reason q).
  Proof. intros reason q. exact (conj (noroute_body_tie reason q) (access_noroute_body_tie reason q)). Qed.
End RJ.
Print Assumptions RJ.C07_json_reason_strings_are_code.
Print Assumptions RJ.C07_json_no_routing_bodies_are_code.
