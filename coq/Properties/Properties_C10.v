(* C10 — alternatives: first is the plain answer, all are valid, distinct and no better. *)
From TrV Require Import Properties.Common.
Local Open Scope Z_scope.

Definition C10_full_statement : Prop :=
  forall d s p acc egr, in_domain d s p acc egr ->
    match answer_alt d s p acc egr with
    | Ok (rs, total) =>
        (exists used, answer_route d s p acc egr = Ok (hd (emit d p 0 []) rs, used)) /\
        (forall r, In r rs -> valid_itinerary_b d s p acc egr r = true /\ limits_ok_b d s p r = true /\ totals_ok_b d p r = true) /\
        NoDup (map (fun r => sort_nat (route_lines d r)) rs) /\
        Z.of_nat (length rs) <= 50 /\ Z.of_nat (length rs) <= total
    | NoRouting reason => answer_route d s p acc egr = NoRouting reason
    | _ => False
    end.

(* the structural clause that needs no invariant of the scans: alternatives fail exactly when the plain
   query fails, with the same outcome *)
Theorem C10_fails_like_plain : forall d cs p acc egr,
  (forall x, calc_single d cs p acc egr true <> Ok x) ->
  match alternatives d cs p acc egr, calc_single d cs p acc egr true with
  | NoRouting a, NoRouting b => a = b
  | Ok _, _ => False
  | _, NoRouting _ => False
  | NoRouting _, _ => False
  | _, _ => True
  end.
Proof.
  intros d cs p acc egr H. unfold alternatives.
  destruct (calc_single d cs p acc egr true) as [x| | | | | | | |] eqn:E; cbn [bind]; auto.
  exfalso. apply (H x). reflexivity.
Qed.
Print Assumptions C10_fails_like_plain.


(* structure of the alternatives answer, for every dataset and query (calc_single opaque) *)
From TrV Require Import Proofs.AltProofs.
Theorem C10_first_is_plain : forall d cs p acc egr rs total,
  alternatives d cs p acc egr = Ok (rs, total) ->
  exists r used tl, calc_single d cs p acc egr true = Ok (r, used) /\ rs = r :: tl.
Proof. exact alt_first_is_plain. Qed.
Print Assumptions C10_first_is_plain.

Theorem C10_caps : forall d cs p acc egr rs total,
  alternatives d cs p acc egr = Ok (rs, total) ->
  (1 <= length rs)%nat /\ Z.of_nat (length rs) <= 50 /\ Z.of_nat (length rs) < total /\ total <= 200.
Proof. exact alt_caps. Qed.
Print Assumptions C10_caps.

Theorem C10_distinct_line_sets : forall d cs p acc egr rs total,
  alternatives d cs p acc egr = Ok (rs, total) ->
  NoDup (map (fun r => sort_nat (route_lines d r)) rs).
Proof. exact alt_distinct. Qed.
Print Assumptions C10_distinct_line_sets.

Theorem C10_each_is_recalculation : forall d cs p acc egr rs total r,
  alternatives d cs p acc egr = Ok (rs, total) -> In r (tl rs) ->
  exists maxtt ex used, maxtt <= q_maxtt p /\ incl (q_except_lines p) ex /\
    calc_single d cs (with_alt p maxtt ex) acc egr false = Ok (r, used) /\ route_lines d r <> [].
Proof. exact alt_each_is_recalculation. Qed.
Print Assumptions C10_each_is_recalculation.

(* every route of an alternatives answer satisfies C01, C02 and C06 for the original query *)
From TrV Require Import Proofs.Compose.
Theorem C10_all_routes_ok : forall d s p acc egr rs total,
  wf_data_b d = true -> wf_tables_b d p acc egr = true -> wf_params_b p = true ->
  alternatives d (conn_set d s) p acc egr = Ok (rs, total) ->
  forall r, In r rs -> valid_itinerary_b d s p acc egr r = true /\ limits_ok_b d s p r = true /\ totals_ok_b d p r = true.
Proof. exact alternatives_all_ok. Qed.
Print Assumptions C10_all_routes_ok.

(* the full structural statement (first = plain, every route valid / within limits / totals for the ORIGINAL query,
   pairwise distinct line multisets, caps, failure exactly like the plain query), assembled; the no-better clause
   is stated with the optimality properties (Optimal.v) *)
From TrV Require Import Proofs.Assemble.
Theorem C10_full : C10_full_statement.
Proof. exact C10_assembled. Qed.
Print Assumptions C10_full.

(* ---- the no-better clause: no alternative arrives earlier (departure queries) / departs later (arrival queries) than
   routes[0] — every alternative is an admissible journey of the ORIGINAL query (ValidAdm.alternatives_journeys,
   OptCompose.alternatives_journeys_rev) and routes[0] is optimal (C03/C04 declarative theorems) ---- *)
From TrV Require Import Optimal Proofs.OptCompose.
Theorem C10_no_alternative_is_better : forall d s p acc egr rs total r0,
  opt_domain d s p acc egr -> pos_hops_b d = true ->
  (q_fwd p = true -> q_maxfw p <= 0) ->
  alternatives d (conn_set d s) p acc egr = Ok (rs, total) ->
  forall r, In r rs ->
    if q_fwd p then rt_arr (hd r0 rs) <= rt_arr r else rt_dep r <= rt_dep (hd r0 rs).
Proof. exact C10_no_better_proved. Qed.
Print Assumptions C10_no_alternative_is_better.

(* tie to the source: counters and continuation condition of the alternatives loop as alternatives_routing.cpp writes them *)
From TrV Require Import Proofs.GuardsTie.
Theorem C10_alt_counters_are_code : G.gen_alt_seq_init + 1 = 2 /\ G.gen_alt_count_init + 1 = 2.
Proof. exact gen_alt_init_tie. Qed.
Print Assumptions C10_alt_counters_are_code.
Theorem C10_alt_loop_guard_is_code : forall st : alt_st,
  G.gen_alt_cont (a_count st) MAX_ALTERNATIVES (a_seq st) MAX_VALID_ALTERNATIVES =
  ((a_count st <? MAX_ALTERNATIVES) && (a_seq st - 1 <? MAX_VALID_ALTERNATIVES))%bool.
Proof. exact alt_loop_guard_tie. Qed.
Print Assumptions C10_alt_loop_guard_is_code.

(* tie to the source, stage 3c: Calculator::alternativesRouting as a whole - counters, the derivation of the maximum travel
   time of the recalculations, the initial combinations, the loop over the combinations (caps, try / catch, duplicate
   test, pushes) and the result - is read from alternatives_routing.cpp AS IT IS NOW by tools/gen_loops.py (gen/Alt.v)
   and executed by the interpreter of Alt.v; the model computes the same *)
Require Import TrV.Alt.
From TrV Require Import Proofs.LoopsTie.
Theorem C10_alternatives_max_travel_time_is_code : forall e fuel R (kont : amach -> outcome R) m,
  arun e fuel GA.gen_alt_maxtt R kont m =
  kont (on_l (fun l => ls_al_altp (alt_maxtt (ae_p e) (al_first l)) (ls_al_maxtt (alt_maxtt (ae_p e) (al_first l)) l)) m).
Proof. exact alt_maxtt_tie. Qed.
Print Assumptions C10_alternatives_max_travel_time_is_code.
(* one iteration of the loop, when the recalculation returns a route: the state after the generated loop body is the one
   Calc.alt_loop continues with (`alt_loop_S`); for every continuation that only looks at the loop state, the caps'
   operand, the recalculation parameters' maximum travel time and the index *)
Theorem C10_alternatives_step_is_code : forall d cs p acc egr fuel R (kk : amach -> outcome R) m r u,
  respects kk -> al_maxalt (am_l m) = MAX_ALTERNATIVES -> alt_caps (am_st m) = true ->
  cur_calc d cs p acc egr m = Ok (r, u) ->
  arun {| ae_d := d; ae_cs := cs; ae_p := p; ae_acc := acc; ae_egr := egr |} fuel GA.gen_alt_body R kk m =
  kk {| am_st := alt_step_ok d (am_st m) r (cur_comb m); am_l := am_l m |}.
Proof. exact alt_body_ok. Qed.
Print Assumptions C10_alternatives_step_is_code.
Theorem C10_alternatives_loop_is_code : forall d cs p acc egr fuel R (after : amach -> outcome R) (after' : alt_st -> outcome R),
  (forall m, after m = after' (am_st m)) ->
  forall f m, al_maxalt (am_l m) = MAX_ALTERNATIVES ->
  aforall (fun kk mm => arun {| ae_d := d; ae_cs := cs; ae_p := p; ae_acc := acc; ae_egr := egr |} fuel GA.gen_alt_body R kk mm) after f m =
  match alt_loop f d cs p (al_altp (am_l m)) acc egr (q_except_lines p) (am_st m) (al_i (am_l m)) with
  | Ok st' => after' st'
  | o => pass_error o
  end.
Proof. exact alt_forall_tie. Qed.
Print Assumptions C10_alternatives_loop_is_code.
Theorem C10_alternatives_is_code : forall d cs p acc egr l0,
  run_alt GA.gen_alt_skel {| ae_d := d; ae_cs := cs; ae_p := p; ae_acc := acc; ae_egr := egr |} ALT_FUEL
          {| am_st := alt_st_empty; am_l := l0 |} = alternatives d cs p acc egr.
Proof. exact alternatives_skel_tie. Qed.
Print Assumptions C10_alternatives_is_code.
