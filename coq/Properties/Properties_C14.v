(* C14 — concurrent requests are answered exactly as if each were served alone (protocol model). *)
From TrV Require Import Server Proofs.ServerInv.

(* for ANY number of threads, ANY schedule over the yield points of the lookup / build / publish /
   calculate sequence, any scenarios, both cache modes: a request that completed got the answer of an
   idle, freshly started server *)
Theorem C14_every_schedule : forall all d reqs sched i a,
  nth_error (cs_threads (crun (cinit all d reqs) sched)) i = Some (TDone a) ->
  exists r, nth_error reqs i = Some r /\ a = fresh_answer d r.
Proof. exact C14_any_schedule. Qed.
Print Assumptions C14_every_schedule.

(* the shared cache is left in a state from which later requests are again answered fresh (C13) *)
Theorem C14_later_answers_unaffected : forall all d reqs sched,
  cache_inv d (cs_cache (crun (cinit all d reqs) sched)).
Proof. exact C14_cache_inv_after. Qed.
Print Assumptions C14_later_answers_unaffected.

Theorem C14_fair_schedule_completes : forall all d reqs,
  all_done (crun (cinit all d reqs) (flat_map (fun i => [i; i; i]) (seq 0 (length reqs)))) = true.
Proof. exact C14_progress. Qed.
Print Assumptions C14_fair_schedule_completes.

(* composed with loading and with the property theorems (Proofs/EndToEnd.v): under ANY schedule of concurrently served
   requests, the response a thread completes with satisfies C01/C02/C06/C07 and the optimality statements against d *)
From TrV Require Import Spec Loader2 Proofs.Loader2Proofs Properties.Common Proofs.EndToEnd.
Theorem C14_concurrent_route_answers_are_correct : forall all d reqs sched i a s p acc egr,
  in_domain d s p acc egr -> encodable_b d = true ->
  nth_error reqs i = Some (QRoute p false acc egr) ->
  nth_error (cs_threads (crun (cinit all (loaded d) reqs) sched)) i = Some (TDone a) ->
  route_response_correct d s p acc egr a.
Proof. exact concurrent_route_answers_are_correct. Qed.
Print Assumptions C14_concurrent_route_answers_are_correct.
