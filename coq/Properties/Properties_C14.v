(* C14 — concurrent requests are answered exactly as if each were served alone (protocol model). *)
From TrV Require Import Server Proofs.ServerInv.

(* for ANY number of threads, ANY schedule over the yield points of the lookup / build / publish /
   calculate sequence, any scenarios, both cache modes: a request that completed got the answer of an
   idle, freshly started server *)
Theorem C14_every_schedule : forall all d reqs sched i a,
  nth_error (cs_threads (crun (cinit all d reqs) sched)) i = Some (TDone a) ->
  exists r, nth_error reqs i = Some r /\ a = fresh_answer d r.
Proof. exact C14_any_schedule. Qed.
Print Assumptions C14_every_schedule.

(* the shared cache is left in a state from which later requests are again answered fresh (C13) *)
Theorem C14_later_answers_unaffected : forall all d reqs sched,
  cache_inv d (cs_cache (crun (cinit all d reqs) sched)).
Proof. exact C14_cache_inv_after. Qed.
Print Assumptions C14_later_answers_unaffected.

Theorem C14_fair_schedule_completes : forall all d reqs,
  all_done (crun (cinit all d reqs) (flat_map (fun i => [i; i; i]) (seq 0 (length reqs)))) = true.
Proof. exact C14_progress. Qed.
Print Assumptions C14_fair_schedule_completes.

(* composed with loading and with the property theorems (Proofs/EndToEnd.v): under ANY schedule of concurrently served
   requests, the response a thread completes with satisfies C01/C02/C06/C07 and the optimality statements against d *)
From TrV Require Import Spec Loader2 Proofs.Loader2Proofs Properties.Common Proofs.EndToEnd.
Theorem C14_concurrent_route_answers_are_correct : forall all d reqs sched i a s p acc egr,
  in_domain d s p acc egr -> encodable_b d = true ->
  nth_error reqs i = Some (QRoute p false acc egr) ->
  nth_error (cs_threads (crun (cinit all (loaded d) reqs) sched)) i = Some (TDone a) ->
  route_response_correct d s p acc egr a.
Proof. exact concurrent_route_answers_are_correct. Qed.
Print Assumptions C14_concurrent_route_answers_are_correct.


(* tie to the source, the shared cache: the six methods of src/connection_cache.cpp (ScenarioConnectionCacheOne / All ::
   get, set, clear) are read AS THEY ARE NOW by tools/gen_scenario.py as statement lists (gen/Scenario.v) - the lock
   statement with its kind, the comparison / look-up, the copies, the writes, the returns - and run by the interpreter of
   ScenCode.v, which gives a thread a STALE view `pre` of the members for everything it reads before it holds the lock.
   Server.v's atomic cache_get / cache_set / cache_clear (the steps of tstep, on which the schedule theorems above rest) are
   those methods, whatever `pre` is; and every method takes the lock - shared in get, exclusive in set and clear - before
   it reads or writes a member *)
Require TrV.ScenCode TrV.gen.Scenario.
From TrV Require Proofs.ScenarioTie Proofs.CacheTie.
Module SCN.
  Import TrV.ScenCode TrV.Proofs.CacheTie.
  Import ListNotations.
  Theorem C14_cache_methods_are_code : forall pre c k v arg,
    run_method (cc_get (gen_cache_code c)) pre (repr c) k arg = Some (lift (cache_get c k), repr c) /\
    run_method (cc_set (gen_cache_code c)) pre (repr c) k (Some v) = Some (MVoid, repr (cache_set c k v)) /\
    run_method (cc_clear (gen_cache_code c)) pre (repr c) k arg = Some (MVoid, repr (cache_clear c)).
  Proof. exact cache_methods_are_code. Qed.
  Print Assumptions C14_cache_methods_are_code.
  Theorem C14_cache_lock_discipline :
    forallb lock_first [GS.gen_cache_one_get; GS.gen_cache_one_set; GS.gen_cache_one_clear;
                        GS.gen_cache_all_get; GS.gen_cache_all_set; GS.gen_cache_all_clear] = true /\
    lock_discipline GS.gen_cache_one_get LkShared = true /\ lock_discipline GS.gen_cache_all_get LkShared = true /\
    lock_discipline GS.gen_cache_one_set LkUnique = true /\ lock_discipline GS.gen_cache_all_set LkUnique = true /\
    lock_discipline GS.gen_cache_one_clear LkUnique = true /\ lock_discipline GS.gen_cache_all_clear LkUnique = true /\
    (* in get, the comparison / look-up and the copy handed out are behind the same, single lock statement *)
    blk_touches stmt_touches (after_lock GS.gen_cache_one_get) = true /\
    blk_touches stmt_touches (after_lock GS.gen_cache_all_get) = true /\
    locks_in GS.gen_cache_one_get = 1%nat /\ locks_in GS.gen_cache_all_get = 1%nat /\
    members_under_lock GS.gen_cache_one_get = true /\ members_under_lock GS.gen_cache_all_get = true.
  Proof.
    exact (conj lock_first_all (conj lock_discipline_one_get (conj lock_discipline_all_get (conj lock_discipline_one_set
          (conj lock_discipline_all_set (conj lock_discipline_one_clear (conj lock_discipline_all_clear
          get_compare_and_copy_under_one_lock))))))).
  Qed.
  Print Assumptions C14_cache_lock_discipline.
  (* the thread protocol's two cache steps are the protocol of getConnectionsForScenario: look-up (+ construction), publication *)
  Theorem C14_thread_steps_are_code : forall d c r s,
    req_scenario r = Some (s_id s) -> find_scenario d (s_id s) = Some s -> reaches_filters r = true ->
    tstep d c (TStart r) =
      (match cache_get c (s_id s) with Some cs => THave r cs | None => TBuilt r (s_id s) (conn_set d s) end, c) /\
    forall cs, tstep d c (TBuilt r (s_id s) cs) = (THave r cs, cache_set c (s_id s) cs).
  Proof. exact TrV.Proofs.ScenarioTie.tstep_is_protocol. Qed.
  Print Assumptions C14_thread_steps_are_code.
End SCN.
