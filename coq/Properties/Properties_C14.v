(* C14 — concurrent requests are answered exactly as if each were served alone (protocol model). *)
From TrV Require Import Server Proofs.ServerInv.

(* for ANY number of threads, ANY schedule over the yield points of the lookup / build / publish /
   calculate sequence, any scenarios, both cache modes: a request that completed got the answer of an
   idle, freshly started server *)
Theorem C14_every_schedule : forall all d reqs sched i a,
  nth_error (cs_threads (crun (cinit all d reqs) sched)) i = Some (TDone a) ->
  exists r, nth_error reqs i = Some r /\ a = fresh_answer d r.
Proof. exact C14_any_schedule. Qed.
Print Assumptions C14_every_schedule.

(* the shared cache is left in a state from which later requests are again answered fresh (C13) *)
Theorem C14_later_answers_unaffected : forall all d reqs sched,
  cache_inv d (cs_cache (crun (cinit all d reqs) sched)).
Proof. exact C14_cache_inv_after. Qed.
Print Assumptions C14_later_answers_unaffected.

Theorem C14_fair_schedule_completes : forall all d reqs,
  all_done (crun (cinit all d reqs) (flat_map (fun i => [i; i; i]) (seq 0 (length reqs)))) = true.
Proof. exact C14_progress. Qed.
Print Assumptions C14_fair_schedule_completes.
