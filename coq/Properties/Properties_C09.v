(* C09 — arrival accessibility lists exactly the usable stops with their latest boarding-ready times. *)
From TrV Require Import Properties.Common.
Local Open Scope Z_scope.

Definition C09_full_statement : Prop :=
  forall d s p rows, wf_data_b d = true -> find_scenario d (q_scenario p) = Some s ->
    wf_tables_b d p [] rows = true -> wf_params_b p = true -> pos_hops_b d = true -> uniform_wait_b d = true -> q_fwd p = false ->
    match answer_access d s p rows with
    | Ok (l, total) => map (fun a => (an_node a, an_time a - an_ttt a)) l = reach_map_rev_ref d s p rows /\
                       total = Z.of_nat (length (d_nodes d)) /\
                       forall a, In a l -> an_time a = q_time p
    | NoRouting _ => reach_map_rev_ref d s p rows = []
    | _ => False
    end.

Theorem C09_example :
  match answer_access ex_data scen_all (ex_params false 37000) ex_egr with
  | Ok (l, total) => map (fun a => (an_node a, an_time a - an_ttt a)) l = reach_map_rev_ref ex_data scen_all (ex_params false 37000) ex_egr
                     /\ length l = 2%nat
  | _ => False
  end.
Proof. vm_compute. auto. Qed.
Print Assumptions C09_example.

(* ---- declarative form and what is proved of it ------------------------------------------------------------ *)
From TrV Require Import Optimal Proofs.RefSpec.
Theorem C09_reference_map_correct : forall d s p egr,
  wf_data_b d = true -> wf_params_b p = true -> q_minw p < MAX_INT ->
  NoDup (map fst (reach_map_rev_ref d s p egr)) /\
  forall n t, In (n, t) (reach_map_rev_ref d s p egr) <->
              (latest_board d s p egr n t /\ q_time p - t <= q_maxtt p).
Proof. exact reach_map_rev_ref_correct. Qed.
Print Assumptions C09_reference_map_correct.

(* tie to the source (reverseCalculationAllNodes as it is now) *)
From TrV Require Import Proofs.GuardsTie.
Theorem C09_reverse_allnodes_step_is_code : forall d p k st c, revall_step_code d p k st c = rev_step d p k true st c.
Proof. exact revall_step_tie. Qed.
Print Assumptions C09_reverse_allnodes_step_is_code.

(* ---- THE FULL DECLARATIVE STATEMENT (Optimal.v): the arrival accessibility map lists exactly the stops at which some
   journey reaching the place by the requested time boards a vehicle, once each, with the latest ready time, within
   max_travel_time; never a hang / crash / stray exception ---- *)
From TrV Require Import Proofs.RevOptCompose.
Theorem C09_full_declarative : C09_decl_statement.
Proof. exact C09_decl_proved. Qed.
Print Assumptions C09_full_declarative.

Theorem C09_reverse_allnodes_scan_is_code : forall d p k, revall_scan_code d p k = rev_scan d p k true.
Proof. exact revall_scan_tie. Qed.
Print Assumptions C09_reverse_allnodes_scan_is_code.

(* the ORIGINAL formal statement with the one hypothesis it lacked: q_minw p < MAX_INT.  Without it the statement is false
   of the REFERENCE (not of the router): the reference map's "no label" sentinel -MAX_INT swallows labels when the minimum
   waiting time is absurdly large (Example C09_original_needs_minw_bound in Proofs/FullStatements.v); the declarative
   theorem C09_full_declarative needs no such bound. *)
From TrV Require Import Proofs.FullStatements.
Theorem C09_full_bounded_waiting : forall d s p rows, wf_data_b d = true -> find_scenario d (q_scenario p) = Some s ->
    wf_tables_b d p [] rows = true -> wf_params_b p = true -> pos_hops_b d = true -> uniform_wait_b d = true -> q_fwd p = false ->
    q_minw p < MAX_INT ->
    match answer_access d s p rows with
    | Ok (l, total) => map (fun a => (an_node a, an_time a - an_ttt a)) l = reach_map_rev_ref d s p rows /\
                       total = Z.of_nat (length (d_nodes d)) /\
                       forall a, In a l -> an_time a = q_time p
    | NoRouting _ => reach_map_rev_ref d s p rows = []
    | _ => False
    end.
Proof. exact C09_original. Qed.
Print Assumptions C09_full_bounded_waiting.

(* tie to the source, stage 3: the CONTROL SKELETON itself (which statement sits inside which `if`, the order of the
   guarded blocks, where `break` / `continue` sit, which variable every assignment writes) is read from the C++ source
   AS IT IS NOW by tools/gen_skel.py (gen/Skel.v) and executed by the interpreter of Skel.v with the guards of
   gen/Guards.v; the model's step computes the same state, for all values `l0` left in the function-level locals *)
Require Import TrV.Skel.
From TrV Require Import Proofs.SkelTie.
Theorem C09_revall_step_skeleton_is_code : forall d p k st c l0,
  rstate_eq (rev_step d p k true st c) (run_rev revall_code d p k c GS.gen_revall_skel l0 st).
Proof. exact revall_step_skel_tie. Qed.
Print Assumptions C09_revall_step_skeleton_is_code.
Theorem C09_revall_footpath_loop_skeleton_is_code : forall d p k c m r,
  nth (rl_idx (rm_l m)) (rev_rows d c) row_default = r ->
  let res := rev_loop_step revall_code d p k c GS.gen_revall_fp (m, false) r in
  snd res = false /\ rl_idx (rm_l (fst res)) = S (rl_idx (rm_l m)) /\
  rm_st (fst res) =
  r_set_triple (rm_st m) (rev_fp_step p k c (minw_eff p c) (o_exit (r_ov (rm_st m) (c_trip c))) (r_triple (rm_st m)) r).
Proof. exact revall_fp_step_skel_tie. Qed.
Print Assumptions C09_revall_footpath_loop_skeleton_is_code.
(* ... and the whole scan: entry slot as the source computes it, then the loop body iterated with the locals kept from
   one connection to the next, whatever they hold at the start *)
Theorem C09_revall_scan_skeleton_is_code : forall d p k l_init,
  outcome_rel rstate_eq (rev_scan d p k true)
    (rev_scan_skel revall_code GS.gen_revall_skel
       (G.gen_revall_entry_hour (k_dep k) (k_arr k) (k_minAcc k) (k_minEgr k) (q_minw p) (k_maxAcc k) (k_maxEgr k)) l_init d p k).
Proof. exact revall_scan_skel_tie. Qed.
Print Assumptions C09_revall_scan_skeleton_is_code.

(* tie to the source, stage 3d: the per-stop loop of the all-nodes result builder (reverseJourneyStepAllNodes, reverse_journey.cpp) - the listing condition,
   the backwards walk over the labels, the time of the stop, the max-travel-time filter, the node that is pushed - is read
   from the source AS IT IS NOW by tools/gen_loops.py (gen/AllNodes.v) and executed by the interpreter of AllNodes.v; the
   model computes the same list of nodes, stop by stop and for the whole list of stops *)
Require Import TrV.AllNodes.
From TrV Require Import Proofs.AllNodesTie.
Theorem C09_allnodes_stop_is_code : forall d p k steps labels fuel n m,
  omap nb_nodes (run_stop GN.gen_revall_stop {| ne_d := d; ne_p := p; ne_k := k; ne_steps := steps; ne_labels := labels; ne_node := n |} fuel m)
  = rev_stop d p k steps labels fuel n (nb_nodes m).
Proof. exact rev_stop_tie. Qed.
Print Assumptions C09_allnodes_stop_is_code.
Theorem C09_allnodes_builder_is_code : forall d p k st m0, nb_nodes m0 = nil ->
  omap nb_nodes (run_stops GN.gen_revall_stop d p k (r_steps st) (r_acc st) (REBUILD_FUEL d) (d_nodes d) m0) =
  rev_allnodes_loop d p k st (d_nodes d).
Proof. exact rev_allnodes_builder_tie. Qed.
Print Assumptions C09_allnodes_builder_is_code.
