(* C12 — shifting timetable and request by one offset shifts the answer by that offset. *)
From TrV Require Import Properties.Common Proofs.Index Proofs.SortFilter.
Local Open Scope Z_scope.

(* index half, at full strength: for every connection list sorted as the loader sorts it and every
   request time inside [0, 32 h), entering the scan through the hour index gives exactly the scan over
   the whole list — for every hour slot, including 0, 23, 24 and 31 *)
Theorem C12_index_forward : forall d p k all_nodes,
  dep_sorted (cs_fwd (k_set k)) -> (forall c, In c (cs_fwd (k_set k)) -> 0 <= c_dep c < 115200) ->
  cs_fidx (k_set k) = fwd_index (cs_fwd (k_set k)) ->
  0 <= k_dep k < 115200 -> 0 <= k_minAcc k ->
  fwd_scan d p k all_nodes = Ok (fold_left (fwd_step d p k all_nodes) (cs_fwd (k_set k)) (fwd_init k)).
Proof. exact C12_index_fwd. Qed.
Print Assumptions C12_index_forward.

Theorem C12_index_reverse : forall d p k all_nodes,
  arr_sorted_desc (cs_rev (k_set k)) ->
  cs_ridx (k_set k) = rev_index (cs_rev (k_set k)) ->
  0 <= k_arr k < 115200 -> 0 <= k_minEgr k ->
  rev_scan d p k all_nodes = Ok (fold_left (rev_step d p k all_nodes) (cs_rev (k_set k)) (rev_init k)).
Proof. exact C12_index_rev. Qed.
Print Assumptions C12_index_reverse.

Theorem C12_fwd_table : forall cs, dep_sorted cs -> (forall c, In c cs -> 0 <= c_dep c < 115200) ->
  length (fwd_index cs) = 32%nat /\
  forall h, 0 <= h < 32 -> nth_error (fwd_index cs) (Z.to_nat h) = Some (length (filter (fun c => c_dep c <? h * 3600) cs)).
Proof. exact fwd_index_spec. Qed.
Print Assumptions C12_fwd_table.

Theorem C12_rev_table : forall cs, arr_sorted_desc cs ->
  length (rev_index cs) = 32%nat /\ nth_error (rev_index cs) 0 = Some (length cs) /\
  forall h, 1 <= h < 32 -> nth_error (rev_index cs) (Z.to_nat h) = Some (length (filter (fun c => c_arr c >? h * 3600) cs)).
Proof. exact rev_index_spec. Qed.
Print Assumptions C12_rev_table.

(* every per-scenario connection set the model builds meets the sortedness hypotheses above *)
Theorem C12_conn_sets_sorted : forall d s, dep_sorted (cs_fwd (conn_set d s)) /\ arr_sorted_desc (cs_rev (conn_set d s)).
Proof. intros d s. split; [apply conn_set_fwd_sorted | apply conn_set_rev_sorted]. Qed.
Print Assumptions C12_conn_sets_sorted.

(* tie to the source: the model's forward step and best-egress selection are the control skeleton instantiated with
   the guards tools/gen_guards.py translated from forward_calculation.cpp AS IT IS NOW (gen/Guards.v) *)
From TrV Require Import Proofs.GuardsTie.
Theorem C12_forward_step_is_code : forall d p k st c, fwd_step_code d p k st c = fwd_step d p k false st c.
Proof. exact fwd_step_tie. Qed.
Print Assumptions C12_forward_step_is_code.
Theorem C12_best_egress_is_code : forall p k st, best_egress_sk G.gen_fwd_best_time G.gen_fwd_best_ok p k st = best_egress p k st.
Proof. exact best_egress_tie. Qed.
Print Assumptions C12_best_egress_is_code.

Theorem C12_reverse_step_is_code : forall d p k st c, rev_step_code d p k st c = rev_step d p k false st c.
Proof. exact rev_step_tie. Qed.
Print Assumptions C12_reverse_step_is_code.

(* ---- THE WHOLE-PIPELINE SHIFT THEOREM (Proofs/Shift.v): moving every scheduled time of the data and the requested
   time by dl moves every reported clock time by dl and leaves status, reason, durations, counts, stops, lines and trips
   unchanged — for route answers, alternatives and both accessibility maps.  Domain: all clock values of data and
   request in [0, 32 h) before and after (the wf predicates on both sides).  Proviso (arrival-time route requests
   only): no candidate departure-from-origin time (boarding departure - minimum waiting - access walk) changes sign
   under the shift — the formal reading of "both answers stay within [0, 32 h)"; Example shift_proviso_needed in
   Shift.v shows it cannot be dropped (best_access tests `t >= 0`, which C04 makes part of admissibility). ---- *)
From TrV Require Import Proofs.Shift.
Theorem C12_shift_route : forall dl d s p acc egr fresh,
  wf_data_b d = true -> wf_data_b (shift_data dl d) = true ->
  wf_tables_b d p acc egr = true -> wf_params_b p = true -> wf_params_b (shift_params dl p) = true ->
  shift_safe d s p acc dl = true ->
  calc_single (shift_data dl d) (conn_set (shift_data dl d) s) (shift_params dl p) acc egr fresh =
  map_outcome (shift_res dl) (calc_single d (conn_set d s) p acc egr fresh).
Proof. exact C12_calc_single. Qed.
Print Assumptions C12_shift_route.

Theorem C12_shift_alternatives : forall dl d s p acc egr,
  shift_dom d s p acc egr dl = true -> shift_safe d s p acc dl = true ->
  alternatives (shift_data dl d) (conn_set (shift_data dl d) s) (shift_params dl p) acc egr =
  map_outcome (shift_alt_res dl) (alternatives d (conn_set d s) p acc egr).
Proof. exact shift_alternatives. Qed.
Print Assumptions C12_shift_alternatives.

Theorem C12_shift_accessibility : forall dl d s p rows,
  shift_dom d s p (if q_fwd p then rows else []) (if q_fwd p then [] else rows) dl = true ->
  calc_allnodes (shift_data dl d) (conn_set (shift_data dl d) s) (shift_params dl p) rows =
  map_outcome (shift_acc_res dl) (calc_allnodes d (conn_set d s) p rows).
Proof. exact shift_calc_allnodes. Qed.
Print Assumptions C12_shift_accessibility.

Theorem C12_domain_from_wf : forall dl d s p acc egr,
  wf_data_b d = true -> wf_data_b (shift_data dl d) = true ->
  wf_tables_b d p acc egr = true -> wf_params_b p = true -> wf_params_b (shift_params dl p) = true ->
  shift_dom d s p acc egr dl = true.
Proof. exact wf_shift_dom. Qed.
Print Assumptions C12_domain_from_wf.

(* the whole forward scan (entry slot of the hour index + every step) as the source writes it now *)
Theorem C12_forward_scan_is_code : forall d p k, fwd_scan_code d p k = fwd_scan d p k false.
Proof. exact fwd_scan_tie. Qed.
Print Assumptions C12_forward_scan_is_code.

(* the whole reverse scan (entry slot of the hour index + every step) as the source writes it now *)
Theorem C12_reverse_scan_is_code : forall d p k, rev_scan_code d p k = rev_scan d p k false.
Proof. exact rev_scan_tie. Qed.
Print Assumptions C12_reverse_scan_is_code.

(* the departure-order comparator of transit_data.cpp's stable_sort as the source writes it now *)
Theorem C12_forward_sort_is_code : forall a b, cmp_args G.gen_fwd_lt a b = fwd_lt a b.
Proof. exact fwd_lt_tie. Qed.
Print Assumptions C12_forward_sort_is_code.

(* the arrival-order comparator (with its reversed trip/sequence tie-break) as the source writes it now *)
Theorem C12_reverse_sort_is_code : forall a b, cmp_args G.gen_rev_lt a b = rev_lt a b.
Proof. exact rev_lt_tie. Qed.
Print Assumptions C12_reverse_sort_is_code.

(* ---- the HTTP handler composed with factories, calculation and renderer (Http.v, Proofs/HttpProofs.v) ---- *)
From TrV Require Import Params Http Proofs.HttpProofs Properties.Common.
From TrV Require Import Spec Admissible Optimal Server Render Proofs.ServerInv Proofs.EndToEnd.

Theorem C12_http_time_shift : forall (uuid_of : Params.str -> option nat) (dl : Z), forall sv sv' status ep kvs acc egr,
  cache_inv (sv_data sv) (sv_cache sv) -> cache_inv (sv_data sv') (sv_cache sv') ->
  sv_data sv' = Shift.shift_data dl (sv_data sv) ->
  time_values_ok dl kvs ->
  (forall c alt sid s, parse uuid_of (sv_data sv) ep kvs = POk (c, alt) -> cm_scen c = Some sid ->
     find_scenario (sv_data sv) sid = Some s ->
     let p := params_with sid c in
     Shift.shift_dom (sv_data sv) s p (fst (ep_tables ep (q_fwd p) acc egr)) (snd (ep_tables ep (q_fwd p) acc egr)) dl = true /\
     (ep <> EAccess -> Shift.shift_safe (sv_data sv) s p acc dl = true)) ->
  fst (http_serve uuid_of sv' status ep (shift_kvs dl kvs) acc egr) =
  shift_response dl (fst (http_serve uuid_of sv status ep kvs acc egr)).
Proof. exact HttpProofs.http_time_shift. Qed.
Print Assumptions C12_http_time_shift.


(* tie to the source, the LOOPS that fill the two hour tables (ConnectionSet::generateConnectionsIteratorCache, read AS IT IS
   NOW by tools/gen_scenario.py, gen/Scenario.v: gen_index_code): the start hour, per connection the `while` with its
   comparison of the departure / arrival time with currentHour * 3600 and, in the reverse table, the bound currentHour > BEGIN,
   push_back / insert at begin, ++ / --, and the fill loops up to END / down to BEGIN storing the end iterator.  Run by
   the interpreter of ScenCode.v (iterators are positions) they produce Data.fwd_index / rev_index, for ALL lists *)
Require TrV.ScenCode TrV.gen.Scenario.
From TrV Require Proofs.IndexTie.
Module SCN.
  Import TrV.ScenCode TrV.Proofs.IndexTie.
  Theorem C12_index_tables_are_code : forall fwd rev,
    run_index GS.gen_index_code fwd rev = (fwd_index fwd, rev_index rev).
  Proof. exact index_tables_are_code. Qed.
  Print Assumptions C12_index_tables_are_code.
  Theorem C12_connset_tables_are_code : forall trips fwd rev,
    (cs_fidx (mk_connset trips fwd rev), cs_ridx (mk_connset trips fwd rev)) = run_index GS.gen_index_code fwd rev.
  Proof. exact connset_tables_are_code. Qed.
  Print Assumptions C12_connset_tables_are_code.
End SCN.
