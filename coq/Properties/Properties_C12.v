(* C12 — shifting timetable and request by one offset shifts the answer by that offset. *)
From TrV Require Import Properties.Common Proofs.Index Proofs.SortFilter.
Local Open Scope Z_scope.

(* index half, at full strength: for every connection list sorted as the loader sorts it and every
   request time inside [0, 32 h), entering the scan through the hour index gives exactly the scan over
   the whole list — for every hour slot, including 0, 23, 24 and 31 *)
Theorem C12_index_forward : forall d p k all_nodes,
  dep_sorted (cs_fwd (k_set k)) -> (forall c, In c (cs_fwd (k_set k)) -> 0 <= c_dep c < 115200) ->
  cs_fidx (k_set k) = fwd_index (cs_fwd (k_set k)) ->
  0 <= k_dep k < 115200 -> 0 <= k_minAcc k ->
  fwd_scan d p k all_nodes = Ok (fold_left (fwd_step d p k all_nodes) (cs_fwd (k_set k)) (fwd_init k)).
Proof. exact C12_index_fwd. Qed.
Print Assumptions C12_index_forward.

Theorem C12_index_reverse : forall d p k all_nodes,
  arr_sorted_desc (cs_rev (k_set k)) ->
  cs_ridx (k_set k) = rev_index (cs_rev (k_set k)) ->
  0 <= k_arr k < 115200 -> 0 <= k_minEgr k ->
  rev_scan d p k all_nodes = Ok (fold_left (rev_step d p k all_nodes) (cs_rev (k_set k)) (rev_init k)).
Proof. exact C12_index_rev. Qed.
Print Assumptions C12_index_reverse.

Theorem C12_fwd_table : forall cs, dep_sorted cs -> (forall c, In c cs -> 0 <= c_dep c < 115200) ->
  length (fwd_index cs) = 32%nat /\
  forall h, 0 <= h < 32 -> nth_error (fwd_index cs) (Z.to_nat h) = Some (length (filter (fun c => c_dep c <? h * 3600) cs)).
Proof. exact fwd_index_spec. Qed.
Print Assumptions C12_fwd_table.

Theorem C12_rev_table : forall cs, arr_sorted_desc cs ->
  length (rev_index cs) = 32%nat /\ nth_error (rev_index cs) 0 = Some (length cs) /\
  forall h, 1 <= h < 32 -> nth_error (rev_index cs) (Z.to_nat h) = Some (length (filter (fun c => c_arr c >? h * 3600) cs)).
Proof. exact rev_index_spec. Qed.
Print Assumptions C12_rev_table.

(* every per-scenario connection set the model builds meets the sortedness hypotheses above *)
Theorem C12_conn_sets_sorted : forall d s, dep_sorted (cs_fwd (conn_set d s)) /\ arr_sorted_desc (cs_rev (conn_set d s)).
Proof. intros d s. split; [apply conn_set_fwd_sorted | apply conn_set_rev_sorted]. Qed.
Print Assumptions C12_conn_sets_sorted.

(* tie to the source: the model's forward step and best-egress selection are the control skeleton instantiated with
   the guards tools/gen_guards.py translated from forward_calculation.cpp AS IT IS NOW (gen/Guards.v) *)
From TrV Require Import Proofs.GuardsTie.
Theorem C12_forward_step_is_code : forall d p k st c, fwd_step_code d p k st c = fwd_step d p k false st c.
Proof. exact fwd_step_tie. Qed.
Print Assumptions C12_forward_step_is_code.
Theorem C12_best_egress_is_code : forall p k st, best_egress_sk G.gen_fwd_best_time G.gen_fwd_best_ok p k st = best_egress p k st.
Proof. exact best_egress_tie. Qed.
Print Assumptions C12_best_egress_is_code.

Theorem C12_reverse_step_is_code : forall d p k st c, rev_step_code d p k st c = rev_step d p k false st c.
Proof. exact rev_step_tie. Qed.
Print Assumptions C12_reverse_step_is_code.
