(* C15 — after a cache refresh the server answers like one freshly started on the new files. *)
From TrV Require Import Server Proofs.ServerInv.

Theorem C15_after_refresh_like_fresh : forall all d h1 d' h2,
  skipn (S (length h1)) (fst (run_ops (start all d) (map OReq h1 ++ ORefresh d' :: map OReq h2)))
  = map Some (fst (run (start all d') h2)).
Proof. exact C15_refresh_equiv. Qed.
Print Assumptions C15_after_refresh_like_fresh.

(* any sequence of requests and refreshes: each request is answered from the data in force *)
Theorem C15_any_sequence : forall all d ops, fst (run_ops (start all d) ops) = spec_ops d ops.
Proof. exact C15_general. Qed.
Print Assumptions C15_any_sequence.

(* ---- loader level (Loader2.v): /updateCache?names=all from ANY server state leaves exactly the memory a restart on the
   files now on disk builds (when no loader reports a fatal read error, which is the case for every pair of datasets of the
   property's domain), with the same data status and nothing dangling; likewise schedules alone and scenarios+schedules ---- *)
From TrV Require Import Loader2 Proofs.Loader2Proofs.
Theorem C15_refresh_all_is_restart : forall f s, snd (load_steps f) = false ->
  sv_mem (update f [CAll] s) = fst (load_all f) /\ status_of (update f [CAll] s) = snd (load_all f).
Proof. exact update_all_is_restart. Qed.
Print Assumptions C15_refresh_all_is_restart.

Theorem C15_refresh_all_nothing_dangling : forall f s, sv_dangling (update f [CAll] s) = [].
Proof. exact update_all_no_dangling. Qed.
Print Assumptions C15_refresh_all_nothing_dangling.

Theorem C15_refresh_schedules_is_reload : forall f0 g s, sv_mem s = full_mem f0 -> sv_dangling s = [] ->
  update (with_lines f0 g) [CName KSchedules] s = {| sv_mem := full_mem (with_lines f0 g); sv_dangling := [] |}.
Proof. exact update_schedules_is_reload. Qed.
Print Assumptions C15_refresh_schedules_is_reload.

(* composed (Proofs/EndToEnd.v): after any operations, a refresh to the files encoding d2 and any further requests, a
   route request of the domain is answered correctly with respect to d2 — nothing of the old timetable *)
From TrV Require Import Spec Properties.Common Proofs.EndToEnd.
Theorem C15_refreshed_route_answers_are_correct : forall all d0 ops1 d2 h2 s p acc egr,
  in_domain d2 s p acc egr -> encodable_b d2 = true ->
  exists a, served_ops all d0 (ops1 ++ ORefresh (loaded d2) :: map OReq h2) (QRoute p false acc egr) = Some a /\
            route_response_correct d2 s p acc egr a.
Proof. exact refreshed_route_answers_are_correct. Qed.
Print Assumptions C15_refreshed_route_answers_are_correct.

(* ---- the refresh glue IS the code (tools/gen_handler_guards.py regenerates gen/HandlerGuards.v from the current
   transit_routing_http_server.cpp and transit_data.cpp on every run; Proofs/HandlerGuardsTie.v ties the model to it): the order
   of the updates a refresh makes, and which of them empty the per-scenario connection cache.  Swapped blocks in the handler,
   "all" routed through loadAllData, a dropped `scenarioConnectionCache->clear()` stop this file from compiling ---- *)
From Coq Require String.
From TrV Require Proofs.HandlerGuardsTie gen.HandlerGuards.
Module HG := TrV.gen.HandlerGuards.
Module HT := TrV.Proofs.HandlerGuardsTie.
Section HandlerGlueC15.
Import String.   (* local to this section: the string literals below *)

(* names=all makes every update in the order of Loader2.handler_order (the order of the blocks in the source), one name makes its
   own; the calls the source's loop makes for any list of names are the updates of Loader2.update; for "all" they leave, from any
   state, the memory and status of a restart *)
Theorem C15_refresh_order_is_code :
  HT.calls_of "all"%string = map HT.kind_method handler_order /\
  (forall k, HT.calls_of (HT.kind_name k) = [HT.kind_method k]) /\
  (forall f names s, update f (map HT.cname_of names) s = fold_left (HT.apply_call f) (HT.u_calls (HT.update_code names)) s) /\
  (forall f s, snd (load_steps f) = false ->
     sv_mem (fold_left (HT.apply_call f) (HT.u_calls (HT.update_code ["all"%string])) s) = fst (load_all f) /\
     status_of (fold_left (HT.apply_call f) (HT.u_calls (HT.update_code ["all"%string])) s) = snd (load_all f)).
Proof. exact (conj HT.update_calls_all (conj HT.update_calls_kind (conj HT.update_is_code HT.refresh_all_is_restart_code))). Qed.
Print Assumptions C15_refresh_order_is_code.

(* TransitData::updateScenarios and updateSchedules - and no other update - empty the per-scenario connection cache before they
   fetch; so the refresh of Server.v (ORefresh: new data AND an emptied cache) is what a request naming "all", "scenarios" or
   "schedules" does, while a request naming only other collections leaves the cached connection sets in place; every collection
   the model reloads is emptied before it is read again, updateSchedules also empties the connections and rebuilds the sorted
   lists *)
Theorem C15_refresh_clears_cache_is_code :
  (forall k, HT.method_clears_cache (HT.kind_method k) = match k with KScenarios | KSchedules => true | _ => false end) /\
  (forall names sv d',
     (exists n, In n names /\ (n = "all" \/ n = "scenarios" \/ n = "schedules")%string) ->
     snd (Server.step sv (Server.ORefresh d')) = HT.refresh_code (HT.u_calls (HT.update_code names)) sv d') /\
  (forall names sv d',
     (forall n, In n names -> n <> "all" /\ n <> "scenarios" /\ n <> "schedules")%string ->
     HT.refresh_code (HT.u_calls (HT.update_code names)) sv d' = {| Server.sv_data := d'; Server.sv_cache := Server.sv_cache sv |}) /\
  (forall k, In k [KAgencies; KServices; KNodes; KLines; KPaths; KScenarios; KSchedules] ->
     HT.method_replaces (HT.kind_method k) = true) /\
  HG.gen_update_fns =
  map HT.update_fn_expected [KAgencies; KDataSources; KLines; KNodes; KOdTrips; KPaths; KPersons; KScenarios; KSchedules; KServices].
Proof.
  exact (conj HT.clears_cache_code (conj HT.refresh_clears_cache_code (conj HT.refresh_keeps_cache_code
        (conj HT.reload_replaces_code HT.update_fns_code)))).
Qed.
Print Assumptions C15_refresh_clears_cache_is_code.
End HandlerGlueC15.
