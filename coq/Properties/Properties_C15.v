(* C15 — after a cache refresh the server answers like one freshly started on the new files. *)
From TrV Require Import Server Proofs.ServerInv.

Theorem C15_after_refresh_like_fresh : forall all d h1 d' h2,
  skipn (S (length h1)) (fst (run_ops (start all d) (map OReq h1 ++ ORefresh d' :: map OReq h2)))
  = map Some (fst (run (start all d') h2)).
Proof. exact C15_refresh_equiv. Qed.
Print Assumptions C15_after_refresh_like_fresh.

(* any sequence of requests and refreshes: each request is answered from the data in force *)
Theorem C15_any_sequence : forall all d ops, fst (run_ops (start all d) ops) = spec_ops d ops.
Proof. exact C15_general. Qed.
Print Assumptions C15_any_sequence.

(* ---- loader level (Loader2.v): /updateCache?names=all from ANY server state leaves exactly the memory a restart on the
   files now on disk builds (when no loader reports a fatal read error, which is the case for every pair of datasets of the
   property's domain), with the same data status and nothing dangling; likewise schedules alone and scenarios+schedules ---- *)
From TrV Require Import Loader2 Proofs.Loader2Proofs.
Theorem C15_refresh_all_is_restart : forall f s, snd (load_steps f) = false ->
  sv_mem (update f [CAll] s) = fst (load_all f) /\ status_of (update f [CAll] s) = snd (load_all f).
Proof. exact update_all_is_restart. Qed.
Print Assumptions C15_refresh_all_is_restart.

Theorem C15_refresh_all_nothing_dangling : forall f s, sv_dangling (update f [CAll] s) = [].
Proof. exact update_all_no_dangling. Qed.
Print Assumptions C15_refresh_all_nothing_dangling.

Theorem C15_refresh_schedules_is_reload : forall f0 g s, sv_mem s = full_mem f0 -> sv_dangling s = [] ->
  update (with_lines f0 g) [CName KSchedules] s = {| sv_mem := full_mem (with_lines f0 g); sv_dangling := [] |}.
Proof. exact update_schedules_is_reload. Qed.
Print Assumptions C15_refresh_schedules_is_reload.

(* composed (Proofs/EndToEnd.v): after any operations, a refresh to the files encoding d2 and any further requests, a
   route request of the domain is answered correctly with respect to d2 — nothing of the old timetable *)
From TrV Require Import Spec Properties.Common Proofs.EndToEnd.
Theorem C15_refreshed_route_answers_are_correct : forall all d0 ops1 d2 h2 s p acc egr,
  in_domain d2 s p acc egr -> encodable_b d2 = true ->
  exists a, served_ops all d0 (ops1 ++ ORefresh (loaded d2) :: map OReq h2) (QRoute p false acc egr) = Some a /\
            route_response_correct d2 s p acc egr a.
Proof. exact refreshed_route_answers_are_correct. Qed.
Print Assumptions C15_refreshed_route_answers_are_correct.
