(* C15 — after a cache refresh the server answers like one freshly started on the new files. *)
From TrV Require Import Server Proofs.ServerInv.

Theorem C15_after_refresh_like_fresh : forall all d h1 d' h2,
  skipn (S (length h1)) (fst (run_ops (start all d) (map OReq h1 ++ ORefresh d' :: map OReq h2)))
  = map Some (fst (run (start all d') h2)).
Proof. exact C15_refresh_equiv. Qed.
Print Assumptions C15_after_refresh_like_fresh.

(* any sequence of requests and refreshes: each request is answered from the data in force *)
Theorem C15_any_sequence : forall all d ops, fst (run_ops (start all d) ops) = spec_ops d ops.
Proof. exact C15_general. Qed.
Print Assumptions C15_any_sequence.
