(* C08 — departure accessibility lists exactly the reachable stops with their earliest arrivals. *)
From TrV Require Import Properties.Common.
Local Open Scope Z_scope.

Definition C08_full_statement : Prop :=
  forall d s p rows, wf_data_b d = true -> find_scenario d (q_scenario p) = Some s ->
    wf_tables_b d p rows [] = true -> wf_params_b p = true -> pos_hops_b d = true -> q_fwd p = true -> q_maxfw p <= 0 ->
    match answer_access d s p rows with
    | Ok (l, total) => map (fun a => (an_node a, an_time a)) l = reach_map_fwd_ref d s p rows /\
                       total = Z.of_nat (length (d_nodes d)) /\
                       forall a, In a l -> an_ttt a = an_time a - q_time p
    | NoRouting _ => reach_map_fwd_ref d s p rows = []
    | _ => False
    end.

Theorem C08_example :
  match answer_access ex_data scen_all (ex_params true 35000) ex_acc with
  | Ok (l, total) => map (fun a => (an_node a, an_time a)) l = reach_map_fwd_ref ex_data scen_all (ex_params true 35000) ex_acc
                     /\ length l = 3%nat /\ total = 4
  | _ => False
  end.
Proof. vm_compute. auto. Qed.
Print Assumptions C08_example.

(* ---- declarative form and what is proved of it ------------------------------------------------------------ *)
From TrV Require Import Optimal Proofs.RefSpec.
Theorem C08_reference_map_correct : forall d s p acc,
  wf_data_b d = true -> wf_params_b p = true ->
  NoDup (map fst (reach_map_fwd_ref d s p acc)) /\
  forall n t, In (n, t) (reach_map_fwd_ref d s p acc) <->
              (earliest_alight d s p acc n t /\ t - q_time p <= q_maxtt p).
Proof. exact reach_map_fwd_ref_correct. Qed.
Print Assumptions C08_reference_map_correct.

(* tie to the source (forwardCalculationAllNodes as it is now) *)
From TrV Require Import Proofs.GuardsTie.
Theorem C08_forward_allnodes_step_is_code : forall d p k st c, fwdall_step_code d p k st c = fwd_step d p k true st c.
Proof. exact fwdall_step_tie. Qed.
Print Assumptions C08_forward_allnodes_step_is_code.

(* ---- THE FULL DECLARATIVE STATEMENT (Optimal.v), for every dataset, scenario, query and router table of the
   property's domain: the departure accessibility map lists exactly the stops where some admissible journey prefix
   alights a vehicle within max_travel_time, once each, with the earliest such alighting time; totals and
   totalNodeCount as stated; and the answer is never a hang / crash / stray exception ---- *)
From TrV Require Import Proofs.FwdOpt.
Theorem C08_full_declarative : C08_decl_statement.
Proof. exact C08_decl_proved. Qed.
Print Assumptions C08_full_declarative.

Theorem C08_forward_allnodes_scan_is_code : forall d p k, fwdall_scan_code d p k = fwd_scan d p k true.
Proof. exact fwdall_scan_tie. Qed.
Print Assumptions C08_forward_allnodes_scan_is_code.

(* the ORIGINAL formal statement (map = reference map AS LISTS, order along the stop list included) *)
From TrV Require Import Proofs.FullStatements.
Theorem C08_full : C08_full_statement.
Proof. exact C08_original. Qed.
Print Assumptions C08_full.

(* tie to the source, stage 3: the CONTROL SKELETON itself (which statement sits inside which `if`, the order of the
   guarded blocks, where `break` / `continue` sit, which variable every assignment writes) is read from the C++ source
   AS IT IS NOW by tools/gen_skel.py (gen/Skel.v) and executed by the interpreter of Skel.v with the guards of
   gen/Guards.v; the model's step computes the same state, for all values `l0` left in the function-level locals *)
Require Import TrV.Skel.
From TrV Require Import Proofs.SkelTie.
Theorem C08_fwdall_step_skeleton_is_code : forall d p k st c l0,
  fstate_eq (fwd_step d p k true st c) (run_fwd fwdall_code d p k c GS.gen_fwdall_skel l0 st).
Proof. exact fwdall_step_skel_tie. Qed.
Print Assumptions C08_fwdall_step_skeleton_is_code.
Theorem C08_fwdall_footpath_loop_skeleton_is_code : forall d p k c m r,
  nth (l_idx (fm_l m)) (fwd_rows d c) row_default = r ->
  let res := fwd_loop_step fwdall_code d p k c GS.gen_fwdall_fp (m, false) r in
  snd res = false /\ l_idx (fm_l (fst res)) = S (l_idx (fm_l m)) /\
  fm_st (fst res) = f_set_triple (fm_st m) (fwd_fp_step p c (o_enter (f_ov (fm_st m) (c_trip c))) (f_triple (fm_st m)) r).
Proof. exact fwdall_fp_step_skel_tie. Qed.
Print Assumptions C08_fwdall_footpath_loop_skeleton_is_code.
(* ... and the whole scan: entry slot as the source computes it, then the loop body iterated with the locals kept from
   one connection to the next, whatever they hold at the start *)
Theorem C08_fwdall_scan_skeleton_is_code : forall d p k l_init,
  outcome_rel fstate_eq (fwd_scan d p k true)
    (fwd_scan_skel fwdall_code GS.gen_fwdall_skel
       (G.gen_fwdall_entry_hour (k_dep k) (k_arr k) (k_minAcc k) (k_minEgr k) (q_minw p) (k_maxAcc k) (k_maxEgr k)) l_init d p k).
Proof. exact fwdall_scan_skel_tie. Qed.
Print Assumptions C08_fwdall_scan_skeleton_is_code.

(* tie to the source, stage 3d: the per-stop loop of the all-nodes result builder (forwardJourneyStepAllNodes, forward_journey.cpp) - the listing condition,
   the backwards walk over the labels, the time of the stop, the max-travel-time filter, the node that is pushed - is read
   from the source AS IT IS NOW by tools/gen_loops.py (gen/AllNodes.v) and executed by the interpreter of AllNodes.v; the
   model computes the same list of nodes, stop by stop and for the whole list of stops *)
Require Import TrV.AllNodes.
From TrV Require Import Proofs.AllNodesTie.
Theorem C08_allnodes_stop_is_code : forall d p k steps labels fuel n m, (forall j, labels n = Some j -> label_ok j) ->
  omap nb_nodes (run_stop GN.gen_fwdall_stop {| ne_d := d; ne_p := p; ne_k := k; ne_steps := steps; ne_labels := labels; ne_node := n |} fuel m)
  = fwd_stop d p k steps labels fuel n (nb_nodes m).
Proof. exact fwd_stop_tie. Qed.
Print Assumptions C08_allnodes_stop_is_code.
Theorem C08_allnodes_builder_is_code : forall d p k fs m0,
  (forall n j, f_egr fs n = Some j -> label_ok j) -> nb_nodes m0 = nil ->
  omap nb_nodes (run_stops GN.gen_fwdall_stop d p k (f_steps fs) (f_egr fs) (REBUILD_FUEL d) (d_nodes d) m0) =
  fwd_allnodes_loop d p k fs (d_nodes d).
Proof. exact fwd_allnodes_builder_tie. Qed.
Print Assumptions C08_allnodes_builder_is_code.

(* tie to the source, stage 3d: the top-level flow of calculateAllNodes (calculator.cpp) - the call of reset(), the test that selects
   the forward pass, the hand-over to the reverse pass (arrival time, re-seeded reverse labels), the arrival-time path
   (departure time cleared, every trip usable), the result that is returned - and the NoRoutingReason each callee throws
   are read from the sources AS THEY ARE NOW by tools/gen_loops.py (gen/Flow.v) and executed by the interpreter of Flow.v;
   the model computes the same.  reset() enters as Proofs/ResetTie.v shows it to be *)
Require Import TrV.Flow.
From TrV Require Import Proofs.FlowTie.
Theorem C08_calculate_allnodes_flow_is_code : forall d cs p rows m0,
  run_allnodes GF.gen_calculate_allnodes
    {| ce_d := d; ce_p := p; ce_reasons := GF.gen_flow_reasons; ce_reset := reset_allnodes d cs p rows; ce_egrfp := nil |} m0
  = calc_allnodes d cs p rows.
Proof. exact calculate_allnodes_tie. Qed.
Print Assumptions C08_calculate_allnodes_flow_is_code.

(* tie to the source, the RENDERER of /v2/accessibility: the keys of a node object (nodeToJson), of the answer and of its
   "result" object (result_to_v2_accessibility.cpp) are read AS THEY ARE NOW by tools/gen_render.py (gen/Render.v) - which
   member feeds "nodeTime" (arrivalTime for a departure query, arrivalTime - totalTravelTime for an arrival query),
   "totalTravelTime", "numberOfTransfers", "totalNodeCount" - and executed by the interpreter of RenderJson.v.  Every
   node object on the wire carries the row of the model's result under the documented keys *)
Require Coq.Strings.String.
Require TrV.Http TrV.RenderJson TrV.gen.Render.
From TrV Require Proofs.RenderTie.
Module RJ.
  Import TrV.Http Coq.Strings.String TrV.RenderJson TrV.Proofs.RenderTie.
  Import ListNotations.
  Local Open Scope string_scope.
  Local Open Scope list_scope.
  Local Open Scope Z_scope.
  Theorem C08_json_access_node_is_code : forall fwd a,
    json_of_access_node fwd a = render_node_obj GR.gen_render_access_node fwd a.
  Proof. exact access_node_tie. Qed.
  Theorem C08_json_access_node_fields : forall fwd a,
    let j := render_node_obj GR.gen_render_access_node fwd a in
    jnum "nodeTime" j = Some (if fwd then an_time a else an_time a - an_ttt a) /\
    jnum "totalTravelTime" j = Some (an_ttt a) /\
    jnum "numberOfTransfers" j = Some (an_ntr a) /\
    jget "nodeUuid" j = Some (JOpaque ONodeUuid (an_node a)) /\
    jkeys j = ["nodeCode"; "nodeCoordinates"; "nodeName"; "nodeTime"; "nodeUuid"; "numberOfTransfers"; "totalTravelTime"].
  Proof. exact json_access_nodes. Qed.
  (* the answer: one node object per row of the model's result, in order, and the number of stops *)
  Theorem C08_json_access_answer : forall nodes total q,
    exists res,
      jget "result" (render_access GR.gen_render_access_query GR.gen_render_access_node GR.gen_render_access_top
                                   GR.gen_render_access_result nodes total q) = Some res /\
      jget "nodes" res = Some (JArr (map (render_node_obj GR.gen_render_access_node (qe_fwd q)) nodes)) /\
      jnum "totalNodeCount" res = Some total.
  Proof. exact json_access_answer. Qed.
  (* ... and it is the body the handler model sends (Http.render / Http.render_node) *)
  Theorem C08_json_http_access_body : forall nodes total q,
    json_of_body true (HAccess (map (render_node (qe_fwd q)) nodes) total q) =
    Some (render_access GR.gen_render_access_query GR.gen_render_access_node GR.gen_render_access_top
                        GR.gen_render_access_result nodes total q).
  Proof. exact access_body_tie. Qed.
End RJ.
Print Assumptions RJ.C08_json_access_node_is_code.
Print Assumptions RJ.C08_json_access_node_fields.
Print Assumptions RJ.C08_json_access_answer.
Print Assumptions RJ.C08_json_http_access_body.
