(* C08 — departure accessibility lists exactly the reachable stops with their earliest arrivals. *)
From TrV Require Import Properties.Common.
Local Open Scope Z_scope.

Definition C08_full_statement : Prop :=
  forall d s p rows, wf_data_b d = true -> find_scenario d (q_scenario p) = Some s ->
    wf_tables_b d p rows [] = true -> wf_params_b p = true -> pos_hops_b d = true -> q_fwd p = true -> q_maxfw p <= 0 ->
    match answer_access d s p rows with
    | Ok (l, total) => map (fun a => (an_node a, an_time a)) l = reach_map_fwd_ref d s p rows /\
                       total = Z.of_nat (length (d_nodes d)) /\
                       forall a, In a l -> an_ttt a = an_time a - q_time p
    | NoRouting _ => reach_map_fwd_ref d s p rows = []
    | _ => False
    end.

Theorem C08_example :
  match answer_access ex_data scen_all (ex_params true 35000) ex_acc with
  | Ok (l, total) => map (fun a => (an_node a, an_time a)) l = reach_map_fwd_ref ex_data scen_all (ex_params true 35000) ex_acc
                     /\ length l = 3%nat /\ total = 4
  | _ => False
  end.
Proof. vm_compute. auto. Qed.
Print Assumptions C08_example.
