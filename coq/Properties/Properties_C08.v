(* C08 — departure accessibility lists exactly the reachable stops with their earliest arrivals. *)
From TrV Require Import Properties.Common.
Local Open Scope Z_scope.

Definition C08_full_statement : Prop :=
  forall d s p rows, wf_data_b d = true -> find_scenario d (q_scenario p) = Some s ->
    wf_tables_b d p rows [] = true -> wf_params_b p = true -> pos_hops_b d = true -> q_fwd p = true -> q_maxfw p <= 0 ->
    match answer_access d s p rows with
    | Ok (l, total) => map (fun a => (an_node a, an_time a)) l = reach_map_fwd_ref d s p rows /\
                       total = Z.of_nat (length (d_nodes d)) /\
                       forall a, In a l -> an_ttt a = an_time a - q_time p
    | NoRouting _ => reach_map_fwd_ref d s p rows = []
    | _ => False
    end.

Theorem C08_example :
  match answer_access ex_data scen_all (ex_params true 35000) ex_acc with
  | Ok (l, total) => map (fun a => (an_node a, an_time a)) l = reach_map_fwd_ref ex_data scen_all (ex_params true 35000) ex_acc
                     /\ length l = 3%nat /\ total = 4
  | _ => False
  end.
Proof. vm_compute. auto. Qed.
Print Assumptions C08_example.

(* ---- declarative form and what is proved of it ------------------------------------------------------------ *)
From TrV Require Import Optimal Proofs.RefSpec.
Theorem C08_reference_map_correct : forall d s p acc,
  wf_data_b d = true -> wf_params_b p = true ->
  NoDup (map fst (reach_map_fwd_ref d s p acc)) /\
  forall n t, In (n, t) (reach_map_fwd_ref d s p acc) <->
              (earliest_alight d s p acc n t /\ t - q_time p <= q_maxtt p).
Proof. exact reach_map_fwd_ref_correct. Qed.
Print Assumptions C08_reference_map_correct.

(* tie to the source (forwardCalculationAllNodes as it is now) *)
From TrV Require Import Proofs.GuardsTie.
Theorem C08_forward_allnodes_step_is_code : forall d p k st c, fwdall_step_code d p k st c = fwd_step d p k true st c.
Proof. exact fwdall_step_tie. Qed.
Print Assumptions C08_forward_allnodes_step_is_code.

(* ---- THE FULL DECLARATIVE STATEMENT (Optimal.v), for every dataset, scenario, query and router table of the
   property's domain: the departure accessibility map lists exactly the stops where some admissible journey prefix
   alights a vehicle within max_travel_time, once each, with the earliest such alighting time; totals and
   totalNodeCount as stated; and the answer is never a hang / crash / stray exception ---- *)
From TrV Require Import Proofs.FwdOpt.
Theorem C08_full_declarative : C08_decl_statement.
Proof. exact C08_decl_proved. Qed.
Print Assumptions C08_full_declarative.

Theorem C08_forward_allnodes_scan_is_code : forall d p k, fwdall_scan_code d p k = fwd_scan d p k true.
Proof. exact fwdall_scan_tie. Qed.
Print Assumptions C08_forward_allnodes_scan_is_code.

(* the ORIGINAL formal statement (map = reference map AS LISTS, order along the stop list included) *)
From TrV Require Import Proofs.FullStatements.
Theorem C08_full : C08_full_statement.
Proof. exact C08_original. Qed.
Print Assumptions C08_full.
