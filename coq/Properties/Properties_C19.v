(* C19 — summary answers aggregate exactly the routes of the same query. *)
From TrV Require Import Render Proofs.RenderProofs.
From Coq Require Import Sorting.Sorted Permutation.
Local Open Scope Z_scope.

(* the summary is a function of the route answer of the same query: nbRoutes = number of routes
   (0 with status success when there is no routing) and the aggregation of their boardings *)
Theorem C19_summary_of_answer : forall d a n ls, summary_of d a = Some (n, ls) ->
  n = Z.of_nat (length (routes_of a)) /\ ls = summary_lines d (routes_of a).
Proof. exact C19_summary_of_route_answer. Qed.
Print Assumptions C19_summary_of_answer.

(* lines ordered by uuid, each once *)
Theorem C19_lines_sorted_once : forall d rs, StronglySorted (fun a b => (fst a < fst b)%nat) (summary_lines d rs).
Proof. exact summary_lines_sorted. Qed.
Print Assumptions C19_lines_sorted_once.

(* exactly the lines boarded in those routes *)
Theorem C19_lines_exact : forall d rs l, In l (map fst (summary_lines d rs)) <-> In l (flat_map (route_lines d) rs).
Proof. exact summary_lines_keys. Qed.
Print Assumptions C19_lines_exact.

(* each count is the number of boardings of that line over all routes *)
Theorem C19_counts : forall d rs l c, In (l, c) (summary_lines d rs) ->
  c = Z.of_nat (count_occ Nat.eq_dec (flat_map (route_lines d) rs) l) /\ 0 < c.
Proof. exact summary_lines_count. Qed.
Print Assumptions C19_counts.

Theorem C19_total_boardings : forall d rs,
  fold_right Z.add 0 (map snd (summary_lines d rs)) = Z.of_nat (length (flat_map (route_lines d) rs)).
Proof. exact summary_lines_total. Qed.
Print Assumptions C19_total_boardings.

(* ---- the HTTP handler composed with factories, calculation and renderer (Http.v, Proofs/HttpProofs.v) ---- *)
From TrV Require Import Params Http Proofs.HttpProofs Properties.Common.
From TrV Require Import Spec Admissible Optimal Server Render Proofs.ServerInv Proofs.EndToEnd.

Theorem C19_http_summary_of_route : forall (uuid_of : Params.str -> option nat), forall sv kvs acc egr,
  let d := sv_data sv in
  let route := fst (http_serve uuid_of sv 0 ERoute kvs acc egr) in
  let summary := fst (http_serve uuid_of sv 0 ESummary kvs acc egr) in
  (forall rs total q, route = HttpR 200 (HRoute rs total q) ->
     summary = HttpR 200 (HSummary (Z.of_nat (length rs)) (summary_lines d rs) q)) /\
  (forall reason q, route = HttpR 200 (HNoRouting reason q) -> summary = HttpR 200 (HSummary 0 [] q)) /\
  (forall code e, route = HttpR code (HQueryError e) -> summary = HttpR code (HQueryError e)).
Proof. exact HttpProofs.http_summary_of_route. Qed.
Print Assumptions C19_http_summary_of_route.


(* tie to the source, the RENDERER of /v2/summary: the keys of a line object (lineSummariesToJson), of the three answer
   objects and of their "result" objects (result_to_v2_summary.cpp) are read AS THEY ARE NOW by tools/gen_render.py
   (gen/Render.v) - which member / constant feeds "nbRoutes" (0, result.alternatives.size(), 1), which accumulator feeds
   "lines" (fed with every alternative / with the single result), which member feeds "alternativeCount" - and executed by
   the interpreter of RenderJson.v; the accumulator itself is Render.summary_lines.  The JSON of the model's summary
   answer is what the source renders, and it carries the counts of C19 under the keys the renderer uses *)
Require Coq.Strings.String.
Require TrV.RenderJson TrV.gen.Render.
From TrV Require Proofs.RenderTie.
Module RJ.
  Import Coq.Strings.String TrV.RenderJson TrV.Proofs.RenderTie.
  Import ListNotations.
  Local Open Scope string_scope.
  Local Open Scope list_scope.
  Local Open Scope Z_scope.
  Theorem C19_json_summary_line_is_code : forall l, json_of_line l = render_line GR.gen_render_summary_line l.
  Proof. exact summary_line_tie. Qed.
  Theorem C19_json_summary_is_code : forall d q,
    (forall rs, json_of_summary (Z.of_nat (List.length rs)) (summary_lines d rs) q =
                render_summary GR.gen_render_summary_query GR.gen_render_summary_line GR.gen_render_summary_alt_top
                               GR.gen_render_summary_alt_result d false rs q) /\
    (forall r, json_of_summary 1 (summary_lines d [r]) q =
               render_summary GR.gen_render_summary_query GR.gen_render_summary_line GR.gen_render_summary_single_top
                              GR.gen_render_summary_single_result d true [r] q) /\
    json_of_summary 0 [] q =
    render_summary GR.gen_render_summary_query GR.gen_render_summary_line GR.gen_render_summary_noroute_top
                   GR.gen_render_summary_noroute_result d false [] q.
  Proof. intros d q. exact (conj (fun rs => summary_alt_tie d rs q) (conj (fun r => summary_single_tie d r q) (summary_noroute_tie d q))). Qed.
  (* on the wire (RenderJson.summary_wire_ok): "nbRoutes" = number of routes, and the line objects of "lines" carry, in
     order, the lines of Render.summary_lines under "lineUuid" and their counts under "alternativeCount" *)
  Theorem C19_json_summary_counts : forall d,
    (forall rs q, summary_wire_ok (render_summary GR.gen_render_summary_query GR.gen_render_summary_line GR.gen_render_summary_alt_top
                                                  GR.gen_render_summary_alt_result d false rs q)
                                  (Z.of_nat (List.length rs)) (summary_lines d rs)) /\
    (forall r q, summary_wire_ok (render_summary GR.gen_render_summary_query GR.gen_render_summary_line GR.gen_render_summary_single_top
                                                 GR.gen_render_summary_single_result d true [r] q)
                                 1 (summary_lines d [r])) /\
    (forall q, summary_wire_ok (render_summary GR.gen_render_summary_query GR.gen_render_summary_line GR.gen_render_summary_noroute_top
                                               GR.gen_render_summary_noroute_result d false [] q) 0 []).
  Proof. exact json_summary_counts. Qed.
  (* ... and these are the bodies the handler model sends for /v2/summary (Http.render with summary = true) *)
  Theorem C19_json_http_summary_bodies : forall d q,
    (forall x, json_of_body false (resp_body (render d true q (ARoute (Ok x)))) = Some (code_summary_single d (fst x) q)) /\
    (forall x, json_of_body false (resp_body (render d true q (AAlt (Ok x)))) = Some (code_summary_alt d (fst x) q)) /\
    (forall r, json_of_body false (resp_body (render d true q (ARoute (NoRouting r)))) = Some (code_summary_noroute d q)) /\
    (forall r, json_of_body false (resp_body (render d true q (AAlt (NoRouting r)))) = Some (code_summary_noroute d q)).
  Proof. intros d q. destruct (http_render_json d q) as (_ & _ & _ & _ & H5 & H6 & H7 & H8 & _). exact (conj H5 (conj H6 (conj H7 H8))). Qed.
End RJ.
Print Assumptions RJ.C19_json_summary_line_is_code.
Print Assumptions RJ.C19_json_summary_is_code.
Print Assumptions RJ.C19_json_summary_counts.
Print Assumptions RJ.C19_json_http_summary_bodies.


(* tie to the source, the ACCUMULATOR (the part tools/gen_render.py leaves to the model): StepToV2SummaryVisitor (which
   step kinds answer with a LineSummary), LineSummary's constructors (first count, what a copy keeps) and the statement
   tree of SummaryResultAccumulator::processSingleCalculationResult (look the line up by its uuid; absent: emplace; present:
   count++) are read AS THEY ARE NOW by tools/gen_scenario.py (gen/Scenario.v) and run by the interpreter of ScenCode.v over
   a key-ordered map: one fresh accumulator fed with every route in order computes Render.summary_lines *)
Require TrV.ScenCode TrV.gen.Scenario.
From TrV Require Proofs.SummaryTie.
Module SCN.
  Import TrV.ScenCode TrV.Proofs.SummaryTie.
  Theorem C19_summary_accumulator_is_code : forall d rs,
    run_summary gen_summary_code d rs = Some (summary_lines d rs).
  Proof. exact summary_accumulator_is_code. Qed.
  Print Assumptions C19_summary_accumulator_is_code.
  Theorem C19_summary_answer_is_code : forall d a n ls,
    summary_of d a = Some (n, ls) -> run_summary gen_summary_code d (routes_of a) = Some ls.
  Proof. exact summary_of_is_code. Qed.
  Print Assumptions C19_summary_answer_is_code.
End SCN.
