(* C19 — summary answers aggregate exactly the routes of the same query. *)
From TrV Require Import Render Proofs.RenderProofs.
From Coq Require Import Sorting.Sorted Permutation.
Local Open Scope Z_scope.

(* the summary is a function of the route answer of the same query: nbRoutes = number of routes
   (0 with status success when there is no routing) and the aggregation of their boardings *)
Theorem C19_summary_of_answer : forall d a n ls, summary_of d a = Some (n, ls) ->
  n = Z.of_nat (length (routes_of a)) /\ ls = summary_lines d (routes_of a).
Proof. exact C19_summary_of_route_answer. Qed.
Print Assumptions C19_summary_of_answer.

(* lines ordered by uuid, each once *)
Theorem C19_lines_sorted_once : forall d rs, StronglySorted (fun a b => (fst a < fst b)%nat) (summary_lines d rs).
Proof. exact summary_lines_sorted. Qed.
Print Assumptions C19_lines_sorted_once.

(* exactly the lines boarded in those routes *)
Theorem C19_lines_exact : forall d rs l, In l (map fst (summary_lines d rs)) <-> In l (flat_map (route_lines d) rs).
Proof. exact summary_lines_keys. Qed.
Print Assumptions C19_lines_exact.

(* each count is the number of boardings of that line over all routes *)
Theorem C19_counts : forall d rs l c, In (l, c) (summary_lines d rs) ->
  c = Z.of_nat (count_occ Nat.eq_dec (flat_map (route_lines d) rs) l) /\ 0 < c.
Proof. exact summary_lines_count. Qed.
Print Assumptions C19_counts.

Theorem C19_total_boardings : forall d rs,
  fold_right Z.add 0 (map snd (summary_lines d rs)) = Z.of_nat (length (flat_map (route_lines d) rs)).
Proof. exact summary_lines_total. Qed.
Print Assumptions C19_total_boardings.

(* ---- the HTTP handler composed with factories, calculation and renderer (Http.v, Proofs/HttpProofs.v) ---- *)
From TrV Require Import Params Http Proofs.HttpProofs Properties.Common.
From TrV Require Import Spec Admissible Optimal Server Render Proofs.ServerInv Proofs.EndToEnd.

Theorem C19_http_summary_of_route : forall (uuid_of : Params.str -> option nat), forall sv kvs acc egr,
  let d := sv_data sv in
  let route := fst (http_serve uuid_of sv 0 ERoute kvs acc egr) in
  let summary := fst (http_serve uuid_of sv 0 ESummary kvs acc egr) in
  (forall rs total q, route = HttpR 200 (HRoute rs total q) ->
     summary = HttpR 200 (HSummary (Z.of_nat (length rs)) (summary_lines d rs) q)) /\
  (forall reason q, route = HttpR 200 (HNoRouting reason q) -> summary = HttpR 200 (HSummary 0 [] q)) /\
  (forall code e, route = HttpR code (HQueryError e) -> summary = HttpR code (HQueryError e)).
Proof. exact HttpProofs.http_summary_of_route. Qed.
Print Assumptions C19_http_summary_of_route.

