(* C16 — data loaded from cache files routes exactly like the dataset they encode (decoded level). *)
From TrV Require Import Spec Loader Proofs.LoaderProofs.
Local Open Scope Z_scope.

(* healthy per-stop files reproduce the forward footpath lists and yield the derived reverse lists, which are
   the transpose of the forward ones plus the extra self row — what wf_data_b demands of loaded data; healthy
   per-line files reproduce exactly the dataset's trips (ids, paths, services, stop times, flags), from which
   connection construction, sorting and routing are the functions of Data.v/Calc.v proved elsewhere.  The
   byte level (Cap'n Proto packing) is trusted and exercised on the real binary by the check. *)

Theorem P_load_nodes_roundtrip :
  forall (nodes : list nat) (fp : nat -> list fprow),
  nodup_nat nodes = true ->
  (forall n r, In n nodes -> In r (fp n) -> memb (fp_node r) nodes = true) ->
  (forall n r, In n nodes -> In r (fp n) -> 0 <= fp_time r) ->     (* D15: rows with a negative walking time are dropped *)
  load_nodes nodes (fun n => FDecoded (map (fun r => {| fm_node := Some (fp_node r); fm_time := fp_time r; fm_dist := fp_dist r |}) (fp n)))
  = NLOk (map (fun n => (n, fp n)) nodes) (map (fun n => (n, derive_rfp nodes fp n)) nodes).
Proof. exact load_nodes_roundtrip. Qed.
Print Assumptions P_load_nodes_roundtrip.

Theorem P_derive_rfp_transpose :
  forall nodes fp n m w, nodup_nat nodes = true -> In n nodes -> In m nodes ->
  (has_row (derive_rfp nodes fp n) m w = true <-> (has_row (fp m) n w = true \/ (m = n /\ w = 0))).
Proof. exact derive_rfp_transpose. Qed.
Print Assumptions P_derive_rfp_transpose.

Theorem P_load_line_file_roundtrip :
  forall d l, wf_data_b d = true ->
  load_line_file (d_paths d) (map t_service (d_trips d)) (FDecoded (encode_line_file d l))
  = filter (fun t => Nat.eqb (trip_line d t) l) (d_trips d).
Proof. exact load_line_file_roundtrip. Qed.
Print Assumptions P_load_line_file_roundtrip.

Theorem P_load_schedules_roundtrip :
  forall d, wf_data_b d = true ->
  load_schedules (d_lines d) (d_paths d) (map t_service (d_trips d))
                 (fun l => FDecoded (encode_line_file d l))
  = flat_map (fun ln => filter (fun t => Nat.eqb (trip_line d t) (l_id ln)) (d_trips d)) (d_lines d).
Proof. exact load_schedules_roundtrip. Qed.
Print Assumptions P_load_schedules_roundtrip.

(* ---- the WHOLE loading pipeline (Loader2.v: all seven collection loaders in loadAllData's order, with their catch
   clauses and return codes, and main's status): a well-formed dataset written in the cache schema loads back to itself —
   stops, lines with agency and mode, paths with stop order and segment distances, every trip with its times and flags,
   scenarios with all nine lists — with footpaths in the loader's layout (reverse lists derived), status READY; and the
   loaded dataset has the SAME connections, sorted lists and per-scenario connection sets, so every theorem about
   calc_single / calc_allnodes / alternatives on d applies to the loaded data ---- *)
From TrV Require Import Loader2 Proofs.Loader2Proofs.
Theorem P_load_all_roundtrip : forall d, wf_data_b d = true -> encodable_b d = true ->
  load_all (encode_all d) = (mem_of d, data_status (sizes_of (mem_of d))) /\
  data_of (fst (load_all (encode_all d))) = canon d /\
  snd (load_steps (encode_all d)) = false /\
  (nonempty_data_b d = true -> snd (load_all (encode_all d)) = ST_READY).
Proof. exact load_all_roundtrip. Qed.
Print Assumptions P_load_all_roundtrip.

Theorem P_loaded_data_routes_alike : forall d,
  d_nodes (canon d) = d_nodes d /\ d_lines (canon d) = d_lines d /\ d_paths (canon d) = d_paths d /\
  d_trips (canon d) = d_trips d /\ d_scenarios (canon d) = d_scenarios d /\
  all_conns (canon d) = all_conns d /\ sorted_fwd (canon d) = sorted_fwd d /\ sorted_rev (canon d) = sorted_rev d /\
  (forall s, conn_set (canon d) s = conn_set d s) /\
  (forall s, enabled_trips (canon d) s = enabled_trips d s) /\
  (forall sid, find_scenario (canon d) sid = find_scenario d sid).
Proof. exact canon_routing_data. Qed.
Print Assumptions P_loaded_data_routes_alike.

(* ---- END TO END (Proofs/EndToEnd.v): a server started (either cache mode) on the cache files that encode a well-formed
   dataset d, after ANY finite history of requests, answers a /v2/route, alternatives or /v2/accessibility request of the
   properties' domain with a response that is never a bad outcome and satisfies, AGAINST THE DATASET d: C01 (executable
   itinerary), C02 (limits), C06 (totals), C07 (reason), C03/C04/C05 (declarative optimality), C10 (alternatives), C08/C09
   (exact accessibility maps) ---- *)
From TrV Require Import Properties.Common Proofs.EndToEnd.
Theorem C16_served_route_answers_are_correct : forall all d h s p acc egr,
  in_domain d s p acc egr -> encodable_b d = true ->
  route_response_correct d s p acc egr (served all d h (QRoute p false acc egr)).
Proof. exact served_route_answers_are_correct. Qed.
Print Assumptions C16_served_route_answers_are_correct.

Theorem C16_served_alternatives_are_correct : forall all d h h0 s p acc egr,
  in_domain d s p acc egr -> encodable_b d = true ->
  alt_response_correct d s p acc egr (served all d h0 (QRoute p false acc egr)) (served all d h (QRoute p true acc egr)).
Proof. exact served_alternatives_ok. Qed.
Print Assumptions C16_served_alternatives_are_correct.

Theorem C16_served_accessibility_is_correct : forall all d h s p rows,
  access_domain d s p rows -> encodable_b d = true ->
  access_response_correct d s p rows (served all d h (QAccess p rows)).
Proof. exact served_access_ok. Qed.
Print Assumptions C16_served_accessibility_is_correct.

(* ---- WHAT IS LOADED IS WHAT THE CODE BUILDS (Proofs/LoaderGuardsTie.v): which array element of a trip entry feeds which
   field of a connection, the range of the construction loop, the minimum waiting time by mode, and the rows a per-stop file
   contributes (forward row, reverse row, self row) are regenerated from the CURRENT C++ sources into gen/LoaderGuards.v
   (tools/gen_loader_guards.py) on every run; a shifted index (`canUnboard[i]` for `canUnboard[i+1]`), two swapped constructor
   arguments or a changed constant stop this file from compiling ---- *)
From TrV Require Import Proofs.LoaderGuardsTie.
From TrV Require gen.LoaderGuards.
Module LG := TrV.gen.LoaderGuards.

Theorem C16_connection_fields_are_code : forall tid minw nodes arr dep cb cu i,
  (length arr <= length dep)%nat -> (length arr <= length cb)%nat -> (length arr <= length cu)%nat ->
  (length arr <= length nodes)%nat ->
  LG.gen_conn_loop_cond i (length arr) = true ->
  nth_error (mk_conns tid minw 1 nodes (zip_times arr (firstn (length arr) dep) (firstn (length arr) cb) (firstn (length arr) cu))) i =
  Some {| c_trip := tid; c_seq := LG.gen_conn_seq i;
          c_from := nth (LG.gen_conn_from_idx i) nodes 0%nat; c_to := nth (LG.gen_conn_to_idx i) nodes 0%nat;
          c_dep := LG.gen_conn_dep (nth i dep 0) (nth (S i) dep 0) (nth i arr 0) (nth (S i) arr 0);
          c_arr := LG.gen_conn_arr (nth i dep 0) (nth (S i) dep 0) (nth i arr 0) (nth (S i) arr 0);
          c_cb := LG.gen_conn_can_board (nth i cb 0) (nth (S i) cb 0) (nth i cu 0) (nth (S i) cu 0);
          c_cu := LG.gen_conn_can_unboard (nth i cb 0) (nth (S i) cb 0) (nth i cu 0) (nth (S i) cu 0);
          c_minw := minw |}.
Proof. exact loaded_conn_fields_code. Qed.
Print Assumptions C16_connection_fields_are_code.

Theorem C16_connection_range_is_code : forall tid minw nodes arr dep cb cu i,
  (length arr <= length dep)%nat -> (length arr <= length cb)%nat -> (length arr <= length cu)%nat ->
  (length arr <= length nodes)%nat ->
  LG.gen_conn_loop_start = 0%nat /\
  (LG.gen_conn_loop_cond i (length arr) = false ->
   nth_error (mk_conns tid minw 1 nodes (zip_times arr (firstn (length arr) dep) (firstn (length arr) cb) (firstn (length arr) cu))) i = None).
Proof. exact loaded_conn_range_code. Qed.
Print Assumptions C16_connection_range_is_code.

Theorem C16_min_waiting_time_is_code : forall d t,
  trip_conns d t = mk_conns (t_id t) (LG.gen_conn_minw (Nat.eqb (trip_mode d t) TRANSFERABLE_MODE)) 1%nat (trip_nodes d t) (t_times t).
Proof. exact trip_conns_minw_code. Qed.
Print Assumptions C16_min_waiting_time_is_code.

(* a healthy per-stop file of stop t: its kept rows become t's forward list; every kept row r adds (t, time, distance) - the
   generated fields - to the reverse list of r's stop; then the generated self row goes to t's own reverse list *)
Theorem C16_stop_file_rows_are_code : forall known t rest files fp rfp msg rows,
  files t = FDecoded msg -> node_rows_code known msg = Some rows ->
  load_node_files known (t :: rest) files fp rfp =
  load_node_files known rest files (app_at fp t rows)
    (app_at (fold_left (fun m r => app_at m (fp_node r)
                          [{| fp_node := t; fp_time := LG.gen_node_rev_time (fp_time r) (fp_dist r);
                              fp_dist := LG.gen_node_rev_dist (fp_time r) (fp_dist r) |}]) rows rfp)
            t [{| fp_node := t; fp_time := LG.gen_node_self_time; fp_dist := LG.gen_node_self_dist |}]).
Proof. exact load_node_files_step_code. Qed.
Print Assumptions C16_stop_file_rows_are_code.

Theorem C16_stop_file_row_placement_is_code :
  LG.gen_node_row_names_target = true /\ LG.gen_node_rev_owner_is_target = true /\ LG.gen_node_rev_names_current = true /\
  LG.gen_node_self_owner_is_current = true /\ LG.gen_node_self_names_current = true /\ LG.gen_node_self_after_rows = true.
Proof. exact gen_node_row_placement_spec. Qed.
Print Assumptions C16_stop_file_row_placement_is_code.

(* ---- the COLLECTION loaders are the code (tools/gen_coll_loaders.py -> gen/CollLoaders.v, Proofs/CollLoadersTie.v):
   each of getAgencies / getServices / getNodes (collection file) / getDataSources / getLines / getPaths / getScenarios,
   regenerated from the current source as a statement tree - frame (clear, open, failed-open block, try / handlers, loop,
   close, return) and loop body (which capnp getter feeds which member, which look-ups throw and which skip, which vectors are
   fresh, emplace / operator[]) - and run by the interpreters of CollCode.v from ANY previous contents of the map, of the
   C++ vectors and of `ret`, gives exactly the model's loader *)
Require TrV.CollCode TrV.gen.CollLoaders.
From TrV Require Proofs.CollLoadersTie.
Module COLL.
  Import TrV.Loader2 TrV.CollCode.
  Module CL := TrV.gen.CollLoaders.
  Theorem C16_collection_loaders_are_code :
    (forall f s0 r0, run_simple CAgencies am_id am_rest_ok CL.gen_agencies_loader f s0 r0 = Some (load_agencies f)) /\
    (forall f s0 r0, run_simple CServices vm_id vm_rest_ok CL.gen_services_loader f s0 r0 = Some (load_services f)) /\
    (forall f s0 r0, run_simple CNodes (fun m : uref => m) (fun _ => true) CL.gen_nodes_loader f s0 r0 = Some (load_nodecoll f)) /\
    (forall f s0 r0, option_map snd (run_simple CDataSources (fun m : uref => m) (fun _ => true) CL.gen_datasources_loader f s0 r0)
                     = Some (load_datasources f)) /\
    (forall agencies f s0 r0, run_lines CL.gen_lines_loader agencies f s0 r0 = Some (load_lines agencies f)) /\
    (forall lines nodes f s0 vn0 vz0 r0, run_paths CL.gen_paths_loader lines nodes f s0 vn0 vz0 r0 = Some (load_paths lines nodes f)) /\
    (forall e f s0 vs0 r0, run_scenarios CL.gen_scenarios_loader e f s0 vs0 r0 = Some (load_scenarios e f)).
  Proof. exact TrV.Proofs.CollLoadersTie.coll_loaders_are_code. Qed.
  Print Assumptions C16_collection_loaders_are_code.

  (* entry by entry: the model's step functions are the interpretation of the regenerated loop bodies *)
  Theorem C16_collection_entries_are_code :
    (forall s m, agency_step s m = simple_step (am_id m) (am_rest_ok m) (lc_item CL.gen_agencies_loader) s) /\
    (forall s m, service_step s m = simple_step (vm_id m) (vm_rest_ok m) (lc_item CL.gen_services_loader) s) /\
    (forall s m, nodecoll_step s m = simple_step m true (lc_item CL.gen_nodes_loader) s) /\
    (forall s m, nodecoll_step s m = simple_step m true (lc_item CL.gen_datasources_loader) s) /\
    (forall agencies s m, line_step agencies s m = line_item (lc_item CL.gen_lines_loader) agencies s m) /\
    (forall lines nodes st m,
       ps_map (fst (path_item (lc_item CL.gen_paths_loader) lines nodes st m)) = fst (path_step lines nodes (ps_map st) m) /\
       snd (path_item (lc_item CL.gen_paths_loader) lines nodes st m) = snd (path_step lines nodes (ps_map st) m)) /\
    (forall e vs s m,
       snd (fst (scen_item (lc_item CL.gen_scenarios_loader) e (vs, s) m)) = fst (scenario_step e s m) /\
       snd (scen_item (lc_item CL.gen_scenarios_loader) e (vs, s) m) = snd (scenario_step e s m)).
  Proof. exact TrV.Proofs.CollLoadersTie.coll_entries_are_code. Qed.
  Print Assumptions C16_collection_entries_are_code.
End COLL.
