(* C16 — data loaded from cache files routes exactly like the dataset they encode (decoded level). *)
From TrV Require Import Spec Loader Proofs.LoaderProofs.
Local Open Scope Z_scope.

(* healthy per-stop files reproduce the forward footpath lists and yield the derived reverse lists, which are
   the transpose of the forward ones plus the extra self row — what wf_data_b demands of loaded data; healthy
   per-line files reproduce exactly the dataset's trips (ids, paths, services, stop times, flags), from which
   connection construction, sorting and routing are the functions of Data.v/Calc.v proved elsewhere.  The
   byte level (Cap'n Proto packing) is trusted and exercised on the real binary by the check. *)

Theorem P_load_nodes_roundtrip :
  forall (nodes : list nat) (fp : nat -> list fprow),
  nodup_nat nodes = true ->
  (forall n r, In n nodes -> In r (fp n) -> memb (fp_node r) nodes = true) ->
  (forall n r, In n nodes -> In r (fp n) -> 0 <= fp_time r) ->     (* D15: rows with a negative walking time are dropped *)
  load_nodes nodes (fun n => FDecoded (map (fun r => {| fm_node := Some (fp_node r); fm_time := fp_time r; fm_dist := fp_dist r |}) (fp n)))
  = NLOk (map (fun n => (n, fp n)) nodes) (map (fun n => (n, derive_rfp nodes fp n)) nodes).
Proof. exact load_nodes_roundtrip. Qed.
Print Assumptions P_load_nodes_roundtrip.

Theorem P_derive_rfp_transpose :
  forall nodes fp n m w, nodup_nat nodes = true -> In n nodes -> In m nodes ->
  (has_row (derive_rfp nodes fp n) m w = true <-> (has_row (fp m) n w = true \/ (m = n /\ w = 0))).
Proof. exact derive_rfp_transpose. Qed.
Print Assumptions P_derive_rfp_transpose.

Theorem P_load_line_file_roundtrip :
  forall d l, wf_data_b d = true ->
  load_line_file (d_paths d) (map t_service (d_trips d)) (FDecoded (encode_line_file d l))
  = filter (fun t => Nat.eqb (trip_line d t) l) (d_trips d).
Proof. exact load_line_file_roundtrip. Qed.
Print Assumptions P_load_line_file_roundtrip.

Theorem P_load_schedules_roundtrip :
  forall d, wf_data_b d = true ->
  load_schedules (d_lines d) (d_paths d) (map t_service (d_trips d))
                 (fun l => FDecoded (encode_line_file d l))
  = flat_map (fun ln => filter (fun t => Nat.eqb (trip_line d t) (l_id ln)) (d_trips d)) (d_lines d).
Proof. exact load_schedules_roundtrip. Qed.
Print Assumptions P_load_schedules_roundtrip.

(* ---- the WHOLE loading pipeline (Loader2.v: all seven collection loaders in loadAllData's order, with their catch
   clauses and return codes, and main's status): a well-formed dataset written in the cache schema loads back to itself —
   stops, lines with agency and mode, paths with stop order and segment distances, every trip with its times and flags,
   scenarios with all nine lists — with footpaths in the loader's layout (reverse lists derived), status READY; and the
   loaded dataset has the SAME connections, sorted lists and per-scenario connection sets, so every theorem about
   calc_single / calc_allnodes / alternatives on d applies to the loaded data ---- *)
From TrV Require Import Loader2 Proofs.Loader2Proofs.
Theorem P_load_all_roundtrip : forall d, wf_data_b d = true -> encodable_b d = true ->
  load_all (encode_all d) = (mem_of d, data_status (sizes_of (mem_of d))) /\
  data_of (fst (load_all (encode_all d))) = canon d /\
  snd (load_steps (encode_all d)) = false /\
  (nonempty_data_b d = true -> snd (load_all (encode_all d)) = ST_READY).
Proof. exact load_all_roundtrip. Qed.
Print Assumptions P_load_all_roundtrip.

Theorem P_loaded_data_routes_alike : forall d,
  d_nodes (canon d) = d_nodes d /\ d_lines (canon d) = d_lines d /\ d_paths (canon d) = d_paths d /\
  d_trips (canon d) = d_trips d /\ d_scenarios (canon d) = d_scenarios d /\
  all_conns (canon d) = all_conns d /\ sorted_fwd (canon d) = sorted_fwd d /\ sorted_rev (canon d) = sorted_rev d /\
  (forall s, conn_set (canon d) s = conn_set d s) /\
  (forall s, enabled_trips (canon d) s = enabled_trips d s) /\
  (forall sid, find_scenario (canon d) sid = find_scenario d sid).
Proof. exact canon_routing_data. Qed.
Print Assumptions P_loaded_data_routes_alike.

(* ---- END TO END (Proofs/EndToEnd.v): a server started (either cache mode) on the cache files that encode a well-formed
   dataset d, after ANY finite history of requests, answers a /v2/route, alternatives or /v2/accessibility request of the
   properties' domain with a response that is never a bad outcome and satisfies, AGAINST THE DATASET d: C01 (executable
   itinerary), C02 (limits), C06 (totals), C07 (reason), C03/C04/C05 (declarative optimality), C10 (alternatives), C08/C09
   (exact accessibility maps) ---- *)
From TrV Require Import Properties.Common Proofs.EndToEnd.
Theorem C16_served_route_answers_are_correct : forall all d h s p acc egr,
  in_domain d s p acc egr -> encodable_b d = true ->
  route_response_correct d s p acc egr (served all d h (QRoute p false acc egr)).
Proof. exact served_route_answers_are_correct. Qed.
Print Assumptions C16_served_route_answers_are_correct.

Theorem C16_served_alternatives_are_correct : forall all d h h0 s p acc egr,
  in_domain d s p acc egr -> encodable_b d = true ->
  alt_response_correct d s p acc egr (served all d h0 (QRoute p false acc egr)) (served all d h (QRoute p true acc egr)).
Proof. exact served_alternatives_ok. Qed.
Print Assumptions C16_served_alternatives_are_correct.

Theorem C16_served_accessibility_is_correct : forall all d h s p rows,
  access_domain d s p rows -> encodable_b d = true ->
  access_response_correct d s p rows (served all d h (QAccess p rows)).
Proof. exact served_access_ok. Qed.
Print Assumptions C16_served_accessibility_is_correct.
