(* C04 — arrival-time queries return the latest possible departure, if any exists. *)
From TrV Require Import Properties.Common.
Local Open Scope Z_scope.

Definition C04_full_statement : Prop :=
  forall d s p acc egr, in_domain d s p acc egr -> pos_hops_b d = true -> uniform_wait_b d = true -> q_fwd p = false ->
    match answer_route d s p acc egr with
    | Ok (r, _) => latest_departure_ref d s p (q_time p) 0 (q_time p) acc egr = Some (rt_dep r)
    | NoRouting _ => latest_departure_ref d s p (q_time p) 0 (q_time p) acc egr = None
    | _ => False
    end.

Theorem C04_example :
  match answer_route ex_data scen_all (ex_params false 37000) ex_acc ex_egr with
  | Ok (r, _) => latest_departure_ref ex_data scen_all (ex_params false 37000) 37000 0 37000 ex_acc ex_egr = Some (rt_dep r)
                 /\ rt_dep r = 35840
  | _ => False
  end.
Proof. vm_compute. auto. Qed.
Print Assumptions C04_example.
