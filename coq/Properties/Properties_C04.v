(* C04 — arrival-time queries return the latest possible departure, if any exists. *)
From TrV Require Import Properties.Common.
Local Open Scope Z_scope.

Definition C04_full_statement : Prop :=
  forall d s p acc egr, in_domain d s p acc egr -> pos_hops_b d = true -> uniform_wait_b d = true -> q_fwd p = false ->
    match answer_route d s p acc egr with
    | Ok (r, _) => latest_departure_ref d s p (q_time p) 0 (q_time p) acc egr = Some (rt_dep r)
    | NoRouting _ => latest_departure_ref d s p (q_time p) 0 (q_time p) acc egr = None
    | _ => False
    end.

Theorem C04_example :
  match answer_route ex_data scen_all (ex_params false 37000) ex_acc ex_egr with
  | Ok (r, _) => latest_departure_ref ex_data scen_all (ex_params false 37000) 37000 0 37000 ex_acc ex_egr = Some (rt_dep r)
                 /\ rt_dep r = 35840
  | _ => False
  end.
Proof. vm_compute. auto. Qed.
Print Assumptions C04_example.

(* ---- declarative form and what is proved of it ------------------------------------------------------------ *)
From TrV Require Import Optimal Proofs.RefSpec Proofs.ValidAdm.

Theorem C04_reference_solver_correct : forall d s p acc egr,
  wf_data_b d = true -> wf_params_b p = true -> rows_ok d acc = true ->
  match latest_departure_ref d s p (q_time p) 0 (q_time p) acc egr with
  | Some t => (exists rides, admissible_rev d s p acc egr t rides) /\
              (forall dep0 rides, admissible_rev d s p acc egr dep0 rides -> dep0 <= t)
  | None => forall dep0 rides, ~ admissible_rev d s p acc egr dep0 rides
  end.
Proof. exact latest_departure_ref_correct. Qed.
Print Assumptions C04_reference_solver_correct.

(* half of C04_decl: the reported departure is attained by an admissible journey (hence <= the optimum) *)
Theorem C04_departure_attained : forall d s p acc egr,
  opt_domain d s p acc egr -> q_fwd p = false -> C04_attained_prop d s p acc egr.
Proof. exact C04_attained. Qed.
Print Assumptions C04_departure_attained.

(* tie to the source: the model's reverse step and best-access selection are the control skeleton instantiated with
   the guards tools/gen_guards.py translated from reverse_calculation.cpp AS IT IS NOW (gen/Guards.v) *)
From TrV Require Import Proofs.GuardsTie.
Theorem C04_reverse_step_is_code : forall d p k st c, rev_step_code d p k st c = rev_step d p k false st c.
Proof. exact rev_step_tie. Qed.
Print Assumptions C04_reverse_step_is_code.
Theorem C04_best_access_is_code : forall p k st, best_access_sk G.gen_rev_best_time G.gen_rev_best_ok p k st = best_access p k st.
Proof. exact best_access_tie. Qed.
Print Assumptions C04_best_access_is_code.

(* ---- THE FULL DECLARATIVE STATEMENT (Optimal.v): for every dataset, scenario, arrival query and router tables of the
   property's domain the answer is a success exactly when an admissible journey exists, and then the reported
   departure is the maximum over ALL admissible journeys (reverse-scan completeness with both breaks, the first
   guard and the exit-replacement rule: RevOpt.v; composition RevOptCompose.v) ---- *)
From TrV Require Import Proofs.RevOptCompose.
Theorem C04_full_declarative : C04_decl_statement.
Proof. exact C04_decl_proved. Qed.
Print Assumptions C04_full_declarative.
(* ... and it holds without the uniform-waiting restriction as well (after the repair of D12) *)
Theorem C04_full_declarative_mixed_waiting : forall d s p acc egr,
  opt_domain d s p acc egr -> pos_hops_b d = true -> q_fwd p = false -> C04_decl d s p acc egr.
Proof. exact C04_decl_strong. Qed.
Print Assumptions C04_full_declarative_mixed_waiting.

(* the whole reverse scan (entry slot of the hour index + every step) as the source writes it now *)
Theorem C04_reverse_scan_is_code : forall d p k, rev_scan_code d p k = rev_scan d p k false.
Proof. exact rev_scan_tie. Qed.
Print Assumptions C04_reverse_scan_is_code.

(* the arrival-order comparator (with its reversed trip/sequence tie-break) as the source writes it now *)
Theorem C04_reverse_sort_is_code : forall a b, cmp_args G.gen_rev_lt a b = rev_lt a b.
Proof. exact rev_lt_tie. Qed.
Print Assumptions C04_reverse_sort_is_code.

From TrV Require Import Proofs.FullStatements.
Theorem C04_full : C04_full_statement.
Proof. exact C04_original. Qed.
Print Assumptions C04_full.

(* tie to the source: Calculator::reset's running minimum / maximum of the access and egress walks (two independent tests,
   initial values) and the seeded labels, as resets.cpp writes them now *)
Theorem C04_reset_access_minmax_is_code : forall rows,
  G.gen_reset_acc_tests_independent = true /\
  fold_left (minmax_step G.gen_reset_acc_min G.gen_reset_acc_max G.gen_reset_acc_tests_independent) rows
            (G.gen_reset_min_init, G.gen_reset_max_init) = (min_time rows, max_time rows).
Proof. exact reset_access_minmax_tie. Qed.
Print Assumptions C04_reset_access_minmax_is_code.
Theorem C04_reset_egress_minmax_is_code : forall rows,
  G.gen_reset_egr_tests_independent = true /\
  fold_left (minmax_step G.gen_reset_egr_min G.gen_reset_egr_max G.gen_reset_egr_tests_independent) rows
            (G.gen_reset_min_init, G.gen_reset_max_init) = (min_time rows, max_time rows).
Proof. exact reset_egress_minmax_tie. Qed.
Print Assumptions C04_reset_egress_minmax_is_code.
Theorem C04_reset_seeds_are_code : forall dep arr rows,
  seed_tau dep rows = fold_left (fun m r => upd m (fp_node r) (G.gen_reset_acc_seed dep arr (fp_time r))) rows (fun _ => MAX_INT) /\
  seed_taur arr rows = fold_left (fun m r => upd m (fp_node r) (G.gen_reset_egr_seed dep arr (fp_time r))) rows (fun _ => -1).
Proof. exact reset_seeds_tie. Qed.
Print Assumptions C04_reset_seeds_are_code.

(* tie to the source, stage 3: the CONTROL SKELETON itself (which statement sits inside which `if`, the order of the
   guarded blocks, where `break` / `continue` sit, which variable every assignment writes) is read from the C++ source
   AS IT IS NOW by tools/gen_skel.py (gen/Skel.v) and executed by the interpreter of Skel.v with the guards of
   gen/Guards.v; the model's step computes the same state, for all values `l0` left in the function-level locals *)
Require Import TrV.Skel.
From TrV Require Import Proofs.SkelTie.
Theorem C04_rev_step_skeleton_is_code : forall d p k st c l0,
  rstate_eq (rev_step d p k false st c) (run_rev rev_code d p k c GS.gen_rev_skel l0 st).
Proof. exact rev_step_skel_tie. Qed.
Print Assumptions C04_rev_step_skeleton_is_code.
Theorem C04_rev_footpath_loop_skeleton_is_code : forall d p k c m r,
  nth (rl_idx (rm_l m)) (rev_rows d c) row_default = r ->
  let res := rev_loop_step rev_code d p k c GS.gen_rev_fp (m, false) r in
  snd res = false /\ rl_idx (rm_l (fst res)) = S (rl_idx (rm_l m)) /\
  rm_st (fst res) =
  r_set_triple (rm_st m) (rev_fp_step p k c (minw_eff p c) (o_exit (r_ov (rm_st m) (c_trip c))) (r_triple (rm_st m)) r).
Proof. exact rev_fp_step_skel_tie. Qed.
Print Assumptions C04_rev_footpath_loop_skeleton_is_code.
(* ... and the whole scan: entry slot as the source computes it, then the loop body iterated with the locals kept from
   one connection to the next, whatever they hold at the start *)
Theorem C04_rev_scan_skeleton_is_code : forall d p k l_init,
  outcome_rel rstate_eq (rev_scan d p k false)
    (rev_scan_skel rev_code GS.gen_rev_skel
       (G.gen_rev_entry_hour (k_dep k) (k_arr k) (k_minAcc k) (k_minEgr k) (q_minw p) (k_maxAcc k) (k_maxEgr k)) l_init d p k).
Proof. exact rev_scan_skel_tie. Qed.
Print Assumptions C04_rev_scan_skeleton_is_code.
