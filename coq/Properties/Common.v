(* Common.v — shared vocabulary of the property statements. *)
From TrV Require Export Spec Examples.
Local Open Scope Z_scope.

(* the answer of /v2/route without alternatives, as the model computes it for scenario s *)
Definition answer_route (d : data) (s : scenario) (p : params) (acc egr : list fprow) : outcome (route * list nat) :=
  calc_single d (conn_set d s) p acc egr true.
Definition answer_alt (d : data) (s : scenario) (p : params) (acc egr : list fprow) : outcome (list route * Z) :=
  alternatives d (conn_set d s) p acc egr.
Definition answer_access (d : data) (s : scenario) (p : params) (rows : list fprow) : outcome (list accnode * Z) :=
  calc_allnodes d (conn_set d s) p rows.

(* the domain shared by C01-C12 *)
Definition in_domain (d : data) (s : scenario) (p : params) (acc egr : list fprow) : Prop :=
  wf_data_b d = true /\ find_scenario d (q_scenario p) = Some s /\
  wf_tables_b d p acc egr = true /\ wf_params_b p = true /\ q_except_lines p = [].

Example in_domain_inhabited : in_domain ex_data scen_all (ex_params true 35000) ex_acc ex_egr.
Proof. repeat split; vm_compute; reflexivity. Qed.
