(* C13 — an answer depends only on the data and the request, not on earlier requests. *)
From TrV Require Import Server Proofs.ServerInv.

(* for every finite history of route / alternatives / summary-calculation / accessibility / invalid
   requests over any scenarios, in either cache mode: every response equals the answer of a freshly
   started server *)
Theorem C13_every_response_is_fresh : forall (all : bool) (d : data) (h : list request),
  fst (run (start all d) h) = map (fresh_answer d) h.
Proof. exact C13_every_position. Qed.
Print Assumptions C13_every_response_is_fresh.

Theorem C13_last_response : forall (all : bool) (d : data) (h : list request) (r : request),
  last (fst (run (start all d) (h ++ [r]))) (AError 0) = fresh_answer d r.
Proof. exact C13_history_independent. Qed.
Print Assumptions C13_last_response.

Theorem C13_cache_modes_agree : forall d h, fst (run (start true d) h) = fst (run (start false d) h).
Proof. exact C13_modes_agree. Qed.
Print Assumptions C13_cache_modes_agree.

(* composed with loading (Proofs/EndToEnd.v): on data loaded from the files that encode d, whatever was served before, the
   response is the fresh answer on the loaded dataset *)
From TrV Require Import Spec Loader2 Proofs.Loader2Proofs Proofs.EndToEnd.
Theorem C13_served_on_loaded_files_is_fresh : forall all d h req, wf_data_b d = true -> encodable_b d = true ->
  served all d h req = fresh_answer (canon d) req.
Proof. exact served_is_fresh. Qed.
Print Assumptions C13_served_on_loaded_files_is_fresh.

(* ---- the HTTP handler composed with factories, calculation and renderer (Http.v, Proofs/HttpProofs.v) ---- *)
From TrV Require Import Params Http Proofs.HttpProofs Properties.Common.
From TrV Require Import Spec Admissible Optimal Server Render Proofs.ServerInv Proofs.EndToEnd.

Theorem C13_http_history_independent : forall (uuid_of : Params.str -> option nat), forall all d h r dflt,
  last (fst (http_run uuid_of (start all d) (h ++ [r]))) dflt = fst (http_step uuid_of (start all d) r).
Proof. exact HttpProofs.http_history_independent. Qed.
Print Assumptions C13_http_history_independent.


(* tie to the source, the cache protocol of TransitData::getConnectionsForScenario (read AS IT IS NOW by
   tools/gen_scenario.py, gen/Scenario.v: gen_scen_protocol): the key handed to scenarioConnectionCache->get(...) and the key
   handed to ->set(...) are both `scenario.uuid`; a hit returns the cached set without recomputation; a miss builds, stores,
   returns.  The model's serve looks up and stores under that identifier, and is that protocol *)
Require TrV.ScenCode TrV.gen.Scenario.
From TrV Require Proofs.ScenarioTie.
Module SCN.
  Import TrV.ScenCode TrV.Proofs.ScenarioTie.
  Import ListNotations.
  Theorem C13_cache_key_is_scenario_uuid :
    get_keys GS.gen_scen_protocol = [KScenarioUuid] /\ set_keys GS.gen_scen_protocol = [KScenarioUuid] /\
    (forall s, key_of s KScenarioUuid = Some (s_id s)) /\
    forall sv r s,
      req_scenario r = Some (s_id s) -> find_scenario (sv_data sv) (s_id s) = Some s -> reaches_filters r = true ->
      (forall cs, cache_get (sv_cache sv) (s_id s) = Some cs -> serve sv r = (respond (sv_data sv) cs r, sv)) /\
      (cache_get (sv_cache sv) (s_id s) = None ->
       serve sv r = (respond (sv_data sv) (conn_set (sv_data sv) s) r,
                     {| sv_data := sv_data sv; sv_cache := cache_set (sv_cache sv) (s_id s) (conn_set (sv_data sv) s) |})) /\
      (NoDup (map t_id (d_trips (sv_data sv))) ->
       exists cs c', run_protocol gen_scen_code (sv_data sv) s (sv_cache sv) = Some (cs, c') /\
                     serve sv r = (respond (sv_data sv) cs r, {| sv_data := sv_data sv; sv_cache := c' |})).
  Proof. exact cache_key_is_scenario_uuid. Qed.
  Print Assumptions C13_cache_key_is_scenario_uuid.
End SCN.
