(* C05 — departure-time answers leave as late as the earliest arrival allows. *)
From TrV Require Import Properties.Common.
Local Open Scope Z_scope.

Definition C05_full_statement : Prop :=
  forall d s p acc egr, in_domain d s p acc egr -> pos_hops_b d = true -> uniform_wait_b d = true ->
    q_fwd p = true -> q_maxfw p <= 0 ->
    forall r used, answer_route d s p acc egr = Ok (r, used) ->
      latest_departure_ref d s p (rt_arr r) (q_time p) (q_time p) acc egr = Some (rt_dep r).

Theorem C05_example :
  match answer_route ex_data scen_all (ex_params true 35000) ex_acc ex_egr with
  | Ok (r, _) => latest_departure_ref ex_data scen_all (ex_params true 35000) (rt_arr r) 35000 35000 ex_acc ex_egr = Some (rt_dep r)
                 /\ rt_dep r = 35840
  | _ => False
  end.
Proof. vm_compute. auto. Qed.
Print Assumptions C05_example.
