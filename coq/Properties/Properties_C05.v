(* C05 — departure-time answers leave as late as the earliest arrival allows. *)
From TrV Require Import Properties.Common.
Local Open Scope Z_scope.

Definition C05_full_statement : Prop :=
  forall d s p acc egr, in_domain d s p acc egr -> pos_hops_b d = true -> uniform_wait_b d = true ->
    q_fwd p = true -> q_maxfw p <= 0 ->
    forall r used, answer_route d s p acc egr = Ok (r, used) ->
      latest_departure_ref d s p (rt_arr r) (q_time p) (q_time p) acc egr = Some (rt_dep r).

Theorem C05_example :
  match answer_route ex_data scen_all (ex_params true 35000) ex_acc ex_egr with
  | Ok (r, _) => latest_departure_ref ex_data scen_all (ex_params true 35000) (rt_arr r) 35000 35000 ex_acc ex_egr = Some (rt_dep r)
                 /\ rt_dep r = 35840
  | _ => False
  end.
Proof. vm_compute. auto. Qed.
Print Assumptions C05_example.

(* ---- declarative form and what is proved of it ------------------------------------------------------------ *)
From TrV Require Import Optimal Proofs.RefSpec Proofs.ValidAdm.

Theorem C05_reference_solver_correct : forall d s p acc egr A lo span,
  wf_data_b d = true -> wf_params_b p = true -> rows_ok d acc = true -> NEG < lo ->
  match latest_departure_ref d s p A lo span acc egr with
  | Some t => (exists rides, admissible_rev_gen d s p acc egr A lo span t rides) /\
              (forall dep0 rides, admissible_rev_gen d s p acc egr A lo span dep0 rides -> dep0 <= t)
  | None => forall dep0 rides, ~ admissible_rev_gen d s p acc egr A lo span dep0 rides
  end.
Proof. exact latest_departure_ref_gen_correct. Qed.
Print Assumptions C05_reference_solver_correct.

(* the first two conjuncts of C05_decl: not before the requested time, and the reported arrival is met *)
Theorem C05_departure_attained : forall d s p acc egr,
  opt_domain d s p acc egr -> q_fwd p = true -> C05_attained_prop d s p acc egr.
Proof. exact C05_attained. Qed.
Print Assumptions C05_departure_attained.

(* tie to the source: the model's reverse step and best-access selection are the control skeleton instantiated with
   the guards tools/gen_guards.py translated from reverse_calculation.cpp AS IT IS NOW (gen/Guards.v) *)
From TrV Require Import Proofs.GuardsTie.
Theorem C05_reverse_step_is_code : forall d p k st c, rev_step_code d p k st c = rev_step d p k false st c.
Proof. exact rev_step_tie. Qed.
Print Assumptions C05_reverse_step_is_code.
Theorem C05_best_access_is_code : forall p k st, best_access_sk G.gen_rev_best_time G.gen_rev_best_ok p k st = best_access p k st.
Proof. exact best_access_tie. Qed.
Print Assumptions C05_best_access_is_code.

Theorem C05_forward_step_is_code : forall d p k st c, fwd_step_code d p k st c = fwd_step d p k false st c.
Proof. exact fwd_step_tie. Qed.
Print Assumptions C05_forward_step_is_code.

(* ---- THE FULL DECLARATIVE STATEMENT (Optimal.v): the reported departure of a departure-time answer is not before the
   requested time, meets the reported arrival, and is the latest such departure over ALL journeys ---- *)
From TrV Require Import Proofs.RevOptCompose.
Theorem C05_full_declarative : C05_decl_statement.
Proof. exact C05_decl_proved. Qed.
Print Assumptions C05_full_declarative.
(* ... and it holds without the uniform-waiting restriction as well *)
Theorem C05_full_declarative_mixed_waiting : forall d s p acc egr,
  opt_domain d s p acc egr -> pos_hops_b d = true -> q_fwd p = true -> q_maxfw p <= 0 -> C05_decl d s p acc egr.
Proof. exact C05_decl_strong. Qed.
Print Assumptions C05_full_declarative_mixed_waiting.

(* the whole forward scan (entry slot of the hour index + every step) as the source writes it now *)
Theorem C05_forward_scan_is_code : forall d p k, fwd_scan_code d p k = fwd_scan d p k false.
Proof. exact fwd_scan_tie. Qed.
Print Assumptions C05_forward_scan_is_code.

(* the whole reverse scan (entry slot of the hour index + every step) as the source writes it now *)
Theorem C05_reverse_scan_is_code : forall d p k, rev_scan_code d p k = rev_scan d p k false.
Proof. exact rev_scan_tie. Qed.
Print Assumptions C05_reverse_scan_is_code.

From TrV Require Import Proofs.FullStatements.
Theorem C05_full : C05_full_statement.
Proof. exact C05_original. Qed.
Print Assumptions C05_full.

Theorem C05_reset_access_minmax_is_code : forall rows,
  G.gen_reset_acc_tests_independent = true /\
  fold_left (minmax_step G.gen_reset_acc_min G.gen_reset_acc_max G.gen_reset_acc_tests_independent) rows
            (G.gen_reset_min_init, G.gen_reset_max_init) = (min_time rows, max_time rows).
Proof. exact reset_access_minmax_tie. Qed.
Print Assumptions C05_reset_access_minmax_is_code.

(* tie to the source, stage 3d: the top-level flow of calculateSingle / calculateSingleReverse (calculator.cpp) - the call of reset(), the test that selects
   the forward pass, the hand-over to the reverse pass (arrival time, re-seeded reverse labels), the arrival-time path
   (departure time cleared, every trip usable), the result that is returned - and the NoRoutingReason each callee throws
   are read from the sources AS THEY ARE NOW by tools/gen_loops.py (gen/Flow.v) and executed by the interpreter of Flow.v;
   the model computes the same.  reset() enters as Proofs/ResetTie.v shows it to be *)
Require Import TrV.Flow.
From TrV Require Import Proofs.FlowTie.
Theorem C05_calculate_single_flow_is_code : forall d cs p acc egr fresh m0,
  run_single GF.gen_calculate_single
    {| ce_d := d; ce_p := p; ce_reasons := GF.gen_flow_reasons; ce_reset := reset_single d cs p acc egr fresh; ce_egrfp := egr |} m0
  = calc_single d cs p acc egr fresh.
Proof. exact calculate_single_tie. Qed.
Print Assumptions C05_calculate_single_flow_is_code.
