(* C06 — reported totals are exactly the sums over the itinerary's steps. *)
From TrV Require Import Properties.Common.
Local Open Scope Z_scope.

Definition C06_full_statement : Prop :=
  forall d s p acc egr, in_domain d s p acc egr ->
    (forall r used, answer_route d s p acc egr = Ok (r, used) -> totals_ok_b d p r = true) /\
    (forall rs n, answer_alt d s p acc egr = Ok (rs, n) -> forall r, In r rs -> totals_ok_b d p r = true).

Theorem C06_example :
  match answer_route ex_data scen_all (ex_params true 35000) ex_acc ex_egr with
  | Ok (r, _) => totals_ok_b ex_data (ex_params true 35000) r = true
  | _ => False
  end.
Proof. vm_compute. auto. Qed.
Print Assumptions C06_example.

(* the totals theorem, at full strength on the emission loop: for ANY journey of the shape
   access . legs+ . egress — hence also after the clean-up rewrites and for every alternative *)
From TrV Require Import Proofs.Totals.
Theorem C06_totals_emit : forall (d : data) (p : params) (bestdep : Z) (js : list jstep),
  shape_ok d js = true -> totals_ok_b d p (emit d p bestdep js) = true.
Proof. exact C06_totals. Qed.
Print Assumptions C06_totals_emit.

Example C06_shape_inhabited :
  exists js, shape_ok ex_data js = true /\ length js = 4%nat.
Proof.
  pose (c1 := {| c_trip := 1; c_seq := 1; c_from := 1; c_to := 2; c_dep := 36000; c_arr := 36300; c_cb := true; c_cu := true; c_minw := -1 |}).
  pose (c2 := {| c_trip := 2; c_seq := 1; c_from := 2; c_to := 4; c_dep := 36400; c_arr := 36700; c_cb := true; c_cu := true; c_minw := -1 |}).
  exists [walk_step (row 1 100 120); mk_js (Some c1) (Some c1) 1 0 true 0; mk_js (Some c2) (Some c2) 2 50 false 60; walk_step (row 4 50 60)].
  vm_compute. auto.
Qed.

(* end to end: every route the model returns, single or alternatives, has consistent totals *)
From TrV Require Import Proofs.Compose.
Theorem C06_single_route_totals : forall d s p acc egr fresh r used,
  wf_data_b d = true -> wf_tables_b d p acc egr = true -> wf_params_b p = true ->
  calc_single d (conn_set d s) p acc egr fresh = Ok (r, used) -> totals_ok_b d p r = true.
Proof. exact calc_single_totals. Qed.
Print Assumptions C06_single_route_totals.

Theorem C06_alternatives_totals : forall d s p acc egr rs total,
  wf_data_b d = true -> wf_tables_b d p acc egr = true -> wf_params_b p = true ->
  alternatives d (conn_set d s) p acc egr = Ok (rs, total) ->
  forall r, In r rs -> totals_ok_b d p r = true.
Proof. intros d s p acc egr rs total H1 H2 H3 H r Hr. exact (proj2 (proj2 (alternatives_all_ok d s p acc egr rs total H1 H2 H3 H r Hr))). Qed.
Print Assumptions C06_alternatives_totals.

(* walking DISTANCE totals (SpecDist.walk_dists_ok_b): totalNonTransitDistance, accessDistance and egressDistance are
   the sums of the distances of the corresponding walking steps, for routes that ride no line of mode 'transferable' *)
From TrV Require Import SpecDist Proofs.DistTotals.
Theorem C06_walk_distances_emit : forall (d : data) (p : params) (bestdep : Z) (js : list jstep),
  shape_ok d js = true -> walk_dists_ok_b d (emit d p bestdep js) = true.
Proof. exact C06_walk_dists. Qed.
Print Assumptions C06_walk_distances_emit.

Theorem C06_single_route_walk_distances : forall d s p acc egr fresh r used,
  wf_data_b d = true -> wf_tables_b d p acc egr = true -> wf_params_b p = true ->
  calc_single d (conn_set d s) p acc egr fresh = Ok (r, used) -> walk_dists_ok_b d r = true.
Proof. exact calc_single_walk_dists. Qed.
Print Assumptions C06_single_route_walk_distances.

Theorem C06_alternatives_walk_distances : forall d s p acc egr rs total,
  wf_data_b d = true -> wf_tables_b d p acc egr = true -> wf_params_b p = true ->
  alternatives d (conn_set d s) p acc egr = Ok (rs, total) ->
  forall r, In r rs -> walk_dists_ok_b d r = true.
Proof. exact alternatives_walk_dists. Qed.
Print Assumptions C06_alternatives_walk_distances.

Example C06_walk_distances_example :
  match answer_route ex_data scen_all (ex_params true 35000) ex_acc ex_egr with
  | Ok (r, _) => rides_transferable ex_data r = false /\ walk_dists_ok_b ex_data r = true
  | _ => False
  end.
Proof. vm_compute. auto. Qed.
Print Assumptions C06_walk_distances_example.

(* the initial values of the emission loop's running totals are the ones the source declares (regenerated from
   reverse_journey.cpp on every run; D16 was the -1 of totalTransferDistance) *)
From TrV Require Import gen.Consts Proofs.EmitInitTie.
Theorem C06_emit_initial_totals_are_code :
  emit_init =
  {| e_tivt := GEN_EMIT_INIT_totalInVehicleTime; e_twalk := GEN_EMIT_INIT_totalWalkingTime;
     e_twait := GEN_EMIT_INIT_totalWaitingTime; e_ttrwalk := GEN_EMIT_INIT_totalTransferWalkingTime;
     e_ttrwait := GEN_EMIT_INIT_totalTransferWaitingTime; e_tdist := GEN_EMIT_INIT_totalDistance;
     e_tivd := GEN_EMIT_INIT_totalInVehicleDistance; e_twalkd := GEN_EMIT_INIT_totalWalkingDistance;
     e_ttrd := GEN_EMIT_INIT_totalTransferDistance; e_accd := GEN_EMIT_INIT_accessDistance;
     e_egrd := GEN_EMIT_INIT_egressDistance;
     e_tarr := GEN_EMIT_INIT_transferArrivalTime; e_ntr := GEN_EMIT_INIT_numberOfTransfers;
     e_arr := GEN_EMIT_INIT_arrivalTime;
     e_accw := GEN_EMIT_INIT_accessWalkingTime; e_egrw := GEN_EMIT_INIT_egressWalkingTime;
     e_accwait := GEN_EMIT_INIT_accessWaitingTime;
     e_steps := nil |}.
Proof. exact emit_init_is_code. Qed.
Print Assumptions C06_emit_initial_totals_are_code.

(* in-vehicle and overall DISTANCE totals (SpecDist.vehicle_dists_ok_b, -1 = unknown): one ridden path without
   segment distances makes both totals -1, otherwise they are the sums over the steps.  Needs the genuine sums to stay
   away from the -1 marker: segment distances >= 0 (seg_dists_nonneg_b; wf_data_b only gives -1 <= x, see
   DistTotals.vehicle_dists_wf_data_not_enough) and, at the level of emit, walking distances >= 0 (derived from the
   well-formed tables for every journey calc_single builds) *)
Theorem C06_vehicle_distances_emit : forall (d : data) (p : params) (bestdep : Z) (js : list jstep),
  shape_ok d js = true -> seg_dists_nonneg_b d = true -> walk_dists_nonneg_b js = true ->
  vehicle_dists_ok_b d (emit d p bestdep js) = true.
Proof. exact C06_vehicle_dists. Qed.
Print Assumptions C06_vehicle_distances_emit.

Theorem C06_single_route_vehicle_distances : forall d s p acc egr fresh r used,
  wf_data_b d = true -> wf_tables_b d p acc egr = true -> wf_params_b p = true ->
  seg_dists_nonneg_b d = true ->
  calc_single d (conn_set d s) p acc egr fresh = Ok (r, used) -> vehicle_dists_ok_b d r = true.
Proof. exact calc_single_vehicle_dists. Qed.
Print Assumptions C06_single_route_vehicle_distances.

Theorem C06_alternatives_vehicle_distances : forall d s p acc egr rs total,
  wf_data_b d = true -> wf_tables_b d p acc egr = true -> wf_params_b p = true ->
  seg_dists_nonneg_b d = true ->
  alternatives d (conn_set d s) p acc egr = Ok (rs, total) ->
  forall r, In r rs -> vehicle_dists_ok_b d r = true.
Proof. exact alternatives_vehicle_dists. Qed.
Print Assumptions C06_alternatives_vehicle_distances.

Example C06_vehicle_distances_example :
  seg_dists_nonneg_b ex_data = true /\
  match answer_route ex_data scen_all (ex_params true 35000) ex_acc ex_egr with
  | Ok (r, _) => rides_transferable ex_data r = false /\ vehicle_dists_ok_b ex_data r = true
  | _ => False
  end.
Proof. vm_compute. auto. Qed.
Print Assumptions C06_vehicle_distances_example.

(* tie to the source, stage 3b: the step-emission loop of reverse_journey.cpp - every guard, every right-hand side, every
   step argument, and the assignments to the result after the loop - is read from the source AS IT IS NOW by
   tools/gen_emit.py (gen/Emit.v) and executed by the interpreter of Emit.v; the model computes the same, for all values
   `tmp` left in the temporaries (1-based stop sequences: `seq_ok`).  D17 was a missing `if (totalDistance != -1)` here *)
Require Import TrV.Emit.
From TrV Require Import Proofs.EmitTie.
Theorem C06_emit_step_skeleton_is_code : forall d p bestdep count st i j nxt tmp, seq_ok j ->
  emit_step d p bestdep count st i j nxt =
  st_of (run_emit GE.gen_emit_skel (env_of d p bestdep count i j nxt) (mach_of st tmp)).
Proof. exact emit_step_skel_tie. Qed.
Print Assumptions C06_emit_step_skeleton_is_code.
Theorem C06_emit_loop_skeleton_is_code : forall d p bestdep count js m i, Forall seq_ok js ->
  st_of (emit_loop_m GE.gen_emit_skel d p bestdep count m i js) = emit_loop d p bestdep count (st_of m) i js.
Proof. exact emit_loop_skel_tie. Qed.
Print Assumptions C06_emit_loop_skeleton_is_code.
Theorem C06_emit_result_mapping_is_code : forall bestdep m,
  {| rt_dep := bestdep; rt_arr := e_arr (st_of m); rt_ttt := e_arr (st_of m) - bestdep; rt_tdist := e_tdist (st_of m);
     rt_tivt := e_tivt (st_of m); rt_tivd := e_tivd (st_of m); rt_tnt := e_twalk (st_of m); rt_tntd := e_twalkd (st_of m);
     rt_nboard := e_ntr (st_of m) + 1; rt_ntransf := (if e_ntr (st_of m) =? -1 then 0 else e_ntr (st_of m));
     rt_trwalk := e_ttrwalk (st_of m); rt_trdist := e_ttrd (st_of m); rt_acc := e_accw (st_of m); rt_accd := e_accd (st_of m);
     rt_egr := e_egrw (st_of m); rt_egrd := e_egrd (st_of m); rt_trwait := e_ttrwait (st_of m); rt_fwait := e_accwait (st_of m);
     rt_twait := e_twait (st_of m); rt_steps := e_steps (st_of m) |}
  = GE.gen_emit_result bestdep m.
Proof. exact emit_result_tie. Qed.
Print Assumptions C06_emit_result_mapping_is_code.
(* declarations (gen/Consts.v), loop and result assignments together: the route the model emits is the one the source
   computes as it is written now *)
Theorem C06_emit_is_code : forall d p bestdep js tmp, Forall seq_ok js -> emit d p bestdep js = emit_code d p bestdep js tmp.
Proof. exact emit_skel_tie. Qed.
Print Assumptions C06_emit_is_code.

(* ... and the hypothesis `seq_ok` holds for every journey the router emits (sequences are numbered from 1 and the
   connections of a rebuilt, cleaned-up journey are connections of the data): every returned route IS the route the
   declarations, the step-emission loop and the result assignments of reverse_journey.cpp compute as written now *)
From TrV Require Import Proofs.EmitTieAnswers.
Theorem C06_returned_routes_are_emitted_by_code : forall d s p acc egr fresh r used,
  wf_data_b d = true -> wf_tables_b d p acc egr = true -> wf_params_b p = true ->
  calc_single d (conn_set d s) p acc egr fresh = Ok (r, used) ->
  exists bestdep js, r = emit d p bestdep js /\ forall tmp, r = emit_code d p bestdep js tmp.
Proof. exact calc_single_emit_is_code. Qed.
Print Assumptions C06_returned_routes_are_emitted_by_code.
Theorem C06_alternatives_routes_are_emitted_by_code : forall d s p acc egr rs total,
  wf_data_b d = true -> wf_tables_b d p acc egr = true -> wf_params_b p = true ->
  alternatives d (conn_set d s) p acc egr = Ok (rs, total) ->
  forall r, In r rs ->
  exists p' bestdep js, r = emit d p' bestdep js /\ forall tmp, r = emit_code d p' bestdep js tmp.
Proof. exact alternatives_emit_is_code. Qed.
Print Assumptions C06_alternatives_routes_are_emitted_by_code.

(* tie to the source, the RENDERER: every `json["key"] = result.member;` of getSingleResultJsonString and of the three
   visit functions of StepToV2Visitor (result_to_v2.cpp) is read AS IT IS NOW by tools/gen_render.py (gen/Render.v: the
   key and the member that feeds it, in source order) and executed by the interpreter of RenderJson.v with the semantics
   of nlohmann::json objects (std::map: sorted keys, last writer wins).  The route OBJECT on the wire is the model's
   record under the documented keys - a swapped pair of keys, a dropped key, a key fed from another member breaks these *)
Require Coq.Strings.String.
Require TrV.RenderJson TrV.gen.Render.
From TrV Require Proofs.RenderTie.
Module RJ.
  Import Coq.Strings.String TrV.RenderJson TrV.Proofs.RenderTie.
  Import ListNotations.
  Local Open Scope string_scope.
  Local Open Scope list_scope.
  Local Open Scope Z_scope.
  Definition gen_steps : step_tables :=
    {| tb_walk := GR.gen_render_walk; tb_board := GR.gen_render_board; tb_unboard := GR.gen_render_unboard |}.
  Theorem C06_json_route_object_is_code : forall r, json_of_route r = render_route gen_steps GR.gen_render_route r.
  Proof. exact route_tie. Qed.
  Theorem C06_json_totals_are_code : forall r,
    let j := render_route gen_steps GR.gen_render_route r in
    jnum "totalTravelTime" j = Some (rt_ttt r) /\
    jnum "totalInVehicleTime" j = Some (rt_tivt r) /\
    jnum "totalWaitingTime" j = Some (rt_twait r) /\
    jnum "firstWaitingTime" j = Some (rt_fwait r) /\
    jnum "transferWaitingTime" j = Some (rt_trwait r) /\
    jnum "totalNonTransitTravelTime" j = Some (rt_tnt r) /\
    jnum "accessTravelTime" j = Some (rt_acc r) /\
    jnum "egressTravelTime" j = Some (rt_egr r) /\
    jnum "transferWalkingTime" j = Some (rt_trwalk r) /\
    jnum "numberOfBoardings" j = Some (rt_nboard r) /\
    jnum "numberOfTransfers" j = Some (rt_ntransf r) /\
    jnum "departureTime" j = Some (rt_dep r) /\
    jnum "arrivalTime" j = Some (rt_arr r) /\
    jnum "totalDistance" j = Some (rt_tdist r) /\
    jnum "totalInVehicleDistance" j = Some (rt_tivd r) /\
    jnum "totalNonTransitDistance" j = Some (rt_tntd r) /\
    jnum "transferWalkingDistance" j = Some (rt_trdist r) /\
    jnum "accessDistance" j = Some (rt_accd r) /\
    jnum "egressDistance" j = Some (rt_egrd r) /\
    jget "steps" j = Some (JArr (map (render_step gen_steps) (rt_steps r))) /\
    NoDup (jkeys j) /\
    jkeys j = ["accessDistance"; "accessTravelTime"; "arrivalTime"; "departureTime"; "egressDistance"; "egressTravelTime";
               "firstWaitingTime"; "numberOfBoardings"; "numberOfTransfers"; "steps"; "totalDistance"; "totalInVehicleDistance";
               "totalInVehicleTime"; "totalNonTransitDistance"; "totalNonTransitTravelTime"; "totalTravelTime"; "totalWaitingTime";
               "transferWaitingTime"; "transferWalkingDistance"; "transferWalkingTime"].
  Proof. exact json_totals_are_route_totals. Qed.
  (* C06 ON THE WIRE FORMAT (RenderJson.json_C06_ok): between the NUMBERS FOUND UNDER THE JSON KEYS of the rendered route
     object - totalTravelTime = arrivalTime - departureTime, totalWaitingTime = firstWaitingTime + transferWaitingTime,
     totalInVehicleTime / totalWaitingTime = the sums of "inVehicleTime" / "waitingTime" over the objects of "steps",
     totalTravelTime = the sum of every step's "travelTime", "inVehicleTime" and "waitingTime", and (no line of mode
     'transferable') totalNonTransitTravelTime, numberOfBoardings = number of step objects with action "boarding",
     numberOfTransfers = numberOfBoardings - 1 - for every route with consistent totals, hence for every answer *)
  Theorem C06_json_identities_of_totals : forall d p r, totals_ok_b d p r = true ->
    json_C06_ok d r (render_route gen_steps GR.gen_render_route r).
  Proof. exact json_C06_identities. Qed.
  Theorem C06_json_identities : forall d s p acc egr fresh r used,
    wf_data_b d = true -> wf_tables_b d p acc egr = true -> wf_params_b p = true ->
    calc_single d (conn_set d s) p acc egr fresh = Ok (r, used) ->
    json_C06_ok d r (render_route gen_steps GR.gen_render_route r).
  Proof. exact json_C06_identities_single. Qed.
  Theorem C06_json_identities_alternatives : forall d s p acc egr rs total,
    wf_data_b d = true -> wf_tables_b d p acc egr = true -> wf_params_b p = true ->
    alternatives d (conn_set d s) p acc egr = Ok (rs, total) ->
    forall r, In r rs -> json_C06_ok d r (render_route gen_steps GR.gen_render_route r).
  Proof. exact json_C06_identities_alternatives. Qed.
  (* non-vacuity: the example answer's JSON has totalTravelTime under its key and the identities hold of it *)
  Example C06_json_example :
    match answer_route ex_data scen_all (ex_params true 35000) ex_acc ex_egr with
    | Ok (r, _) => jnum "totalTravelTime" (render_route gen_steps GR.gen_render_route r) = Some (rt_arr r - rt_dep r) /\
                   jsum "inVehicleTime" (map (render_step gen_steps) (rt_steps r)) = rt_tivt r /\ 0 < rt_tivt r
    | _ => False
    end.
  Proof. vm_compute. repeat split; reflexivity. Qed.
End RJ.
Print Assumptions RJ.C06_json_route_object_is_code.
Print Assumptions RJ.C06_json_totals_are_code.
Print Assumptions RJ.C06_json_identities_of_totals.
Print Assumptions RJ.C06_json_identities.
Print Assumptions RJ.C06_json_identities_alternatives.
Print Assumptions RJ.C06_json_example.
