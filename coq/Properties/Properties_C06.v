(* C06 — reported totals are exactly the sums over the itinerary's steps. *)
From TrV Require Import Properties.Common.
Local Open Scope Z_scope.

Definition C06_full_statement : Prop :=
  forall d s p acc egr, in_domain d s p acc egr ->
    (forall r used, answer_route d s p acc egr = Ok (r, used) -> totals_ok_b d p r = true) /\
    (forall rs n, answer_alt d s p acc egr = Ok (rs, n) -> forall r, In r rs -> totals_ok_b d p r = true).

Theorem C06_example :
  match answer_route ex_data scen_all (ex_params true 35000) ex_acc ex_egr with
  | Ok (r, _) => totals_ok_b ex_data (ex_params true 35000) r = true
  | _ => False
  end.
Proof. vm_compute. auto. Qed.
Print Assumptions C06_example.

(* the totals theorem, at full strength on the emission loop: for ANY journey of the shape
   access . legs+ . egress — hence also after the clean-up rewrites and for every alternative *)
From TrV Require Import Proofs.Totals.
Theorem C06_totals_emit : forall (d : data) (p : params) (bestdep : Z) (js : list jstep),
  shape_ok d js = true -> totals_ok_b d p (emit d p bestdep js) = true.
Proof. exact C06_totals. Qed.
Print Assumptions C06_totals_emit.

Example C06_shape_inhabited :
  exists js, shape_ok ex_data js = true /\ length js = 4%nat.
Proof.
  pose (c1 := {| c_trip := 1; c_seq := 1; c_from := 1; c_to := 2; c_dep := 36000; c_arr := 36300; c_cb := true; c_cu := true; c_minw := -1 |}).
  pose (c2 := {| c_trip := 2; c_seq := 1; c_from := 2; c_to := 4; c_dep := 36400; c_arr := 36700; c_cb := true; c_cu := true; c_minw := -1 |}).
  exists [walk_step (row 1 100 120); mk_js (Some c1) (Some c1) 1 0 true 0; mk_js (Some c2) (Some c2) 2 50 false 60; walk_step (row 4 50 60)].
  vm_compute. auto.
Qed.

(* end to end: every route the model returns, single or alternatives, has consistent totals *)
From TrV Require Import Proofs.Compose.
Theorem C06_single_route_totals : forall d s p acc egr fresh r used,
  wf_data_b d = true -> wf_tables_b d p acc egr = true -> wf_params_b p = true ->
  calc_single d (conn_set d s) p acc egr fresh = Ok (r, used) -> totals_ok_b d p r = true.
Proof. exact calc_single_totals. Qed.
Print Assumptions C06_single_route_totals.

Theorem C06_alternatives_totals : forall d s p acc egr rs total,
  wf_data_b d = true -> wf_tables_b d p acc egr = true -> wf_params_b p = true ->
  alternatives d (conn_set d s) p acc egr = Ok (rs, total) ->
  forall r, In r rs -> totals_ok_b d p r = true.
Proof. intros d s p acc egr rs total H1 H2 H3 H r Hr. exact (proj2 (proj2 (alternatives_all_ok d s p acc egr rs total H1 H2 H3 H r Hr))). Qed.
Print Assumptions C06_alternatives_totals.
