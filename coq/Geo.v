(* Geo.v — the arithmetic of the geographic filters (src/geofilter.cpp, src/euclideangeofilter.cpp, the bird-distance
   pre-filter and the row loop of src/osrmgeofilter.cpp) as TYPED expression trees with an evaluator, and the small hand
   model the trees are tied to in Proofs/GeoTie.v.  The trees themselves are read from the source AS IT IS NOW by
   tools/gen_geo.py (gen/Geo.v).

   Why typed: C++ arithmetic is typed.  `int * int` is computed in 32-bit int, `int * float` converts the int operand to
   float first, initialising an `int` from a float (or `(int)x`) truncates.  Every operator node of a tree therefore says
   whether it is an int or a floating operation, and every implicit or explicit conversion is a node of its own
   (GI2F / GF2I), placed where the usual arithmetic conversions and the declared types of the variables put it.

   WHAT THE EVALUATOR MEANS
   * int operations wrap to signed 32 bits: ((x + 2^31) mod 2^32) - 2^31, written out in `wrap32` (signed overflow is
     formally undefined in C++; wrapping is what the compiled code does, and is the reading under which "MAX_INT * MAX_INT"
     is 1); int division truncates (Z.quot), division by zero and INT_MIN / -1 are errors (None);
   * floating operations (`float` and `double` alike: one floating type) are EXACT RATIONAL arithmetic in Q.  This is the
     abstraction of this file: float ROUNDING, infinities and NaN are outside the model (a division by zero, the square
     root of a negative number are errors here).  What is inside: which operations are done, in which type, on which
     operands, and where values change type;
   * int -> float is `inject_Z` (exact);
   * float -> int truncates toward zero and is an ERROR (None) when the truncated value is outside [-2^31, 2^31)
     (undefined behaviour in C++);
   * sqrt has no rational value in general: only `sqrt` IMMEDIATELY truncated to an int is given a meaning, namely
     isqrt_trunc q = Z.sqrt (Qfloor q) for q >= 0 — lemma `isqrt_trunc_spec` below shows this is floor(sqrt q): the
     unique z >= 0 with z^2 <= q < (z+1)^2.  A `sqrt` anywhere else evaluates to None;
   * ceil / floor of a rational are exact (Qceiling / Qfloor).
   Trigonometry (calculateLengthOfOneDegree) is NOT here: the two degree lengths are float INPUTS of the trees.

   Equality of rationals is Qeq (==), not Leibniz equality: statements about floating results are of the form
   `exists q, eval … = Some (VF q) /\ q == …`. *)
From Coq Require Import ZArith QArith Qround Lia Lqa Bool.
Local Open Scope Z_scope.

(* ---------------------------------------------------------------------------------------------- *)
(* 32-bit int                                                                                       *)

Definition INT_MIN : Z := - 2 ^ 31.
Definition INT_MAX : Z := 2 ^ 31 - 1.          (* MAX_INT of include/toolbox.hpp: what "no limit" is sent as *)

Definition wrap32 (x : Z) : Z := ((x + 2 ^ 31) mod 2 ^ 32) - 2 ^ 31.
Definition in_int (x : Z) : bool := (- 2 ^ 31 <=? x) && (x <? 2 ^ 31).

Lemma wrap32_id x : in_int x = true -> wrap32 x = x.
Proof.
  unfold in_int, wrap32. intro H. apply andb_true_iff in H. destruct H as [H1 H2].
  apply Z.leb_le in H1. apply Z.ltb_lt in H2. rewrite Z.mod_small; lia.
Qed.

Lemma wrap32_range x : in_int (wrap32 x) = true.
Proof.
  unfold in_int, wrap32. pose proof (Z.mod_pos_bound (x + 2 ^ 31) (2 ^ 32) ltac:(lia)).
  apply andb_true_iff. split; [apply Z.leb_le | apply Z.ltb_lt]; lia.
Qed.

(* ---------------------------------------------------------------------------------------------- *)
(* float -> int                                                                                     *)

Definition Qtrunc (q : Q) : Z := if Qle_bool 0 q then Qfloor q else Qceiling q.      (* toward zero *)

Definition f2i (q : Q) : option Z := let z := Qtrunc q in if in_int z then Some z else None.

(* (int) sqrt(q) *)
Definition isqrt_trunc (q : Q) : option Z :=
  if Qle_bool 0 q then (let z := Z.sqrt (Qfloor q) in if in_int z then Some z else None) else None.

(* Z.sqrt of the floor IS the floor of the square root *)
Lemma isqrt_floor_spec (q : Q) : (0 <= q)%Q ->
  let z := Z.sqrt (Qfloor q) in
  0 <= z /\ (inject_Z z * inject_Z z <= q)%Q /\ (q < inject_Z (z + 1) * inject_Z (z + 1))%Q.
Proof.
  intros Hq z.
  assert (Hf : 0 <= Qfloor q).
  { change 0 with (Qfloor 0). apply Qfloor_resp_le. exact Hq. }
  pose proof (Z.sqrt_spec (Qfloor q) Hf) as [Hlo Hhi]. fold z in Hlo, Hhi.
  pose proof (Z.sqrt_nonneg (Qfloor q)) as Hz. fold z in Hz.
  split; [exact Hz|]. split.
  - rewrite <- inject_Z_mult. apply Qle_trans with (inject_Z (Qfloor q)); [|apply Qfloor_le].
    rewrite <- Zle_Qle. exact Hlo.
  - rewrite <- inject_Z_mult. apply Qlt_le_trans with (inject_Z (Qfloor q + 1)); [apply Qlt_floor|].
    rewrite <- Zle_Qle. unfold Z.succ in Hhi. lia.
Qed.

(* ... and the only such integer *)
Lemma isqrt_floor_unique (q : Q) (z : Z) : (0 <= q)%Q -> 0 <= z ->
  (inject_Z z * inject_Z z <= q)%Q -> (q < inject_Z (z + 1) * inject_Z (z + 1))%Q -> z = Z.sqrt (Qfloor q).
Proof.
  intros Hq Hz Hlo Hhi. destruct (isqrt_floor_spec q Hq) as [Hs [Hslo Hshi]].
  set (s := Z.sqrt (Qfloor q)) in *.
  assert (H1 : (inject_Z (z * z) < inject_Z ((s + 1) * (s + 1)))%Q).
  { rewrite !inject_Z_mult. eapply Qle_lt_trans; eassumption. }
  assert (H2 : (inject_Z (s * s) < inject_Z ((z + 1) * (z + 1)))%Q).
  { rewrite !inject_Z_mult. eapply Qle_lt_trans; eassumption. }
  rewrite <- Zlt_Qlt in H1, H2. nia.
Qed.

Lemma isqrt_trunc_spec (q : Q) (z : Z) : isqrt_trunc q = Some z ->
  0 <= z < 2 ^ 31 /\ z = Z.sqrt (Qfloor q) /\ (inject_Z z * inject_Z z <= q)%Q /\ (q < inject_Z (z + 1) * inject_Z (z + 1))%Q.
Proof.
  unfold isqrt_trunc. destruct (Qle_bool 0 q) eqn:Hq; [|discriminate].
  apply Qle_bool_iff in Hq. destruct (in_int (Z.sqrt (Qfloor q))) eqn:Hi; [|discriminate].
  intro H. injection H as <-. destruct (isqrt_floor_spec q Hq) as [H0 [H1 H2]].
  unfold in_int in Hi. apply andb_true_iff in Hi. destruct Hi as [_ Hi]. apply Z.ltb_lt in Hi.
  repeat split; auto.
Qed.

(* the conversions do not see the representation of a rational *)
Lemma Qtrunc_comp (p q : Q) : (p == q)%Q -> Qtrunc p = Qtrunc q.
Proof.
  intro H. unfold Qtrunc.
  assert (Hb : Qle_bool 0 p = Qle_bool 0 q).
  { destruct (Qle_bool 0 p) eqn:Hp, (Qle_bool 0 q) eqn:Hq; auto.
    - apply Qle_bool_iff in Hp. rewrite H in Hp. apply Qle_bool_iff in Hp. congruence.
    - apply Qle_bool_iff in Hq. rewrite <- H in Hq. apply Qle_bool_iff in Hq. congruence. }
  rewrite Hb. destruct (Qle_bool 0 q); [apply Qfloor_comp | apply Qceiling_comp]; exact H.
Qed.

Lemma f2i_comp (p q : Q) : (p == q)%Q -> f2i p = f2i q.
Proof. intro H. unfold f2i. rewrite (Qtrunc_comp p q H). reflexivity. Qed.

Lemma isqrt_trunc_comp (p q : Q) : (p == q)%Q -> isqrt_trunc p = isqrt_trunc q.
Proof.
  intro H. unfold isqrt_trunc.
  assert (Hb : Qle_bool 0 p = Qle_bool 0 q).
  { destruct (Qle_bool 0 p) eqn:Hp, (Qle_bool 0 q) eqn:Hq; auto.
    - apply Qle_bool_iff in Hp. rewrite H in Hp. apply Qle_bool_iff in Hp. congruence.
    - apply Qle_bool_iff in Hq. rewrite <- H in Hq. apply Qle_bool_iff in Hq. congruence. }
  rewrite Hb, (Qfloor_comp p q H). reflexivity.
Qed.

(* ---------------------------------------------------------------------------------------------- *)
(* typed expression trees                                                                           *)

(* the variables the fragments read.  int-typed: *)
Inductive ivar :=
| IMaxT            (* int maxWalkingTravelTime (parameter of both filters) *)
| ICandidates      (* birdDistanceAccessibleNodeIndexes.size(): how many stops passed the pre-filter (a count, >= 0) *)
| IRow             (* int i: the index of the row loop over the walking router's reply *)
| INumDurations.   (* int numberOfDurations = responseJson["durations"][0].size() *)
(* floating: *)
Inductive fvar :=
| FSpeed           (* float walkingSpeedMetersPerSecond *)
| FLonN | FLatN    (* double node->longitude / node->latitude: the stop *)
| FLonP | FLatP    (* double point.longitude / point.latitude: the origin or destination *)
| FLenLon | FLenLat  (* float std::get<0> / std::get<1>(lengthOfOneDegree): metres per degree, from calculateLengthOfOneDegree *)
| FDuration        (* (float)responseJson["durations"][0][i] *)
| FDistance.       (* (float)responseJson["distances"][0][i] *)

Inductive gop := OAdd | OSub | OMul | ODiv.
Inductive gcmp := CLe | CLt | CGe | CGt | CEq | CNe.

Inductive gexp :=
| GInt (x : ivar)                       (* an int variable *)
| GFlt (x : fvar)                       (* a float / double variable *)
| GIntLit (z : Z)
| GFltLit (q : Q)
| GI2F (e : gexp)                       (* int -> float: implicit (usual arithmetic conversions, initialisation, return) or a cast *)
| GF2I (e : gexp)                       (* float -> int: initialising / assigning / returning an int, or (int)x *)
| GIop (o : gop) (a b : gexp)           (* both operands int: computed in 32-bit int *)
| GFop (o : gop) (a b : gexp)           (* floating operation *)
| GIcmp (c : gcmp) (a b : gexp)         (* comparison of two ints *)
| GFcmp (c : gcmp) (a b : gexp)         (* comparison of two floats *)
| GSqrt (e : gexp)                      (* sqrt: meaningful only directly under GF2I *)
| GCeil (e : gexp)
| GFloor (e : gexp).

Inductive gval := VI (z : Z) | VF (q : Q) | VB (b : bool).

Definition obind {A B} (x : option A) (f : A -> option B) : option B := match x with Some a => f a | None => None end.

Definition as_int (v : option gval) : option Z := match v with Some (VI z) => Some z | _ => None end.
Definition as_flt (v : option gval) : option Q := match v with Some (VF q) => Some q | _ => None end.

Definition iop (o : gop) (a b : Z) : option Z :=
  match o with
  | OAdd => Some (wrap32 (a + b))
  | OSub => Some (wrap32 (a - b))
  | OMul => Some (wrap32 (a * b))
  | ODiv => if (b =? 0) || ((a =? INT_MIN) && (b =? -1)) then None else Some (Z.quot a b)
  end.

Definition fop (o : gop) (a b : Q) : option Q :=
  match o with
  | OAdd => Some (a + b)%Q
  | OSub => Some (a - b)%Q
  | OMul => Some (a * b)%Q
  | ODiv => if Qeq_bool b 0 then None else Some (a / b)%Q
  end.

Definition icmp (c : gcmp) (a b : Z) : bool :=
  match c with
  | CLe => a <=? b | CLt => a <? b | CGe => b <=? a | CGt => b <? a | CEq => a =? b | CNe => negb (a =? b)
  end.

Definition fcmp (c : gcmp) (a b : Q) : bool :=
  match c with
  | CLe => Qle_bool a b | CLt => negb (Qle_bool b a) | CGe => Qle_bool b a | CGt => negb (Qle_bool a b)
  | CEq => Qeq_bool a b | CNe => negb (Qeq_bool a b)
  end.

Section Eval.
  Variable ie : ivar -> Z.
  Variable fe : fvar -> Q.

  Fixpoint eval (e : gexp) : option gval :=
    match e with
    | GInt x => Some (VI (ie x))
    | GFlt x => Some (VF (fe x))
    | GIntLit z => if in_int z then Some (VI z) else None
    | GFltLit q => Some (VF q)
    | GI2F a => obind (as_int (eval a)) (fun z => Some (VF (inject_Z z)))
    | GF2I a =>
        match a with
        | GSqrt b => obind (as_flt (eval b)) (fun q => obind (isqrt_trunc q) (fun z => Some (VI z)))
        | _ => obind (as_flt (eval a)) (fun q => obind (f2i q) (fun z => Some (VI z)))
        end
    | GIop o a b => obind (as_int (eval a)) (fun x => obind (as_int (eval b)) (fun y => obind (iop o x y) (fun z => Some (VI z))))
    | GFop o a b => obind (as_flt (eval a)) (fun x => obind (as_flt (eval b)) (fun y => obind (fop o x y) (fun q => Some (VF q))))
    | GIcmp c a b => obind (as_int (eval a)) (fun x => obind (as_int (eval b)) (fun y => Some (VB (icmp c x y))))
    | GFcmp c a b => obind (as_flt (eval a)) (fun x => obind (as_flt (eval b)) (fun y => Some (VB (fcmp c x y))))
    | GSqrt _ => None              (* an irrational has no value here; see GF2I *)
    | GCeil a => obind (as_flt (eval a)) (fun q => Some (VF (inject_Z (Qceiling q))))
    | GFloor a => obind (as_flt (eval a)) (fun q => Some (VF (inject_Z (Qfloor q))))
    end.
End Eval.

(* an environment in which every int variable holds an int *)
Definition int_env (ie : ivar -> Z) : Prop := forall x, in_int (ie x) = true.

(* ---------------------------------------------------------------------------------------------- *)
(* the hand model                                                                                   *)

Local Open Scope Q_scope.

(* GeoFilter::calculateMaxDistanceSquared: the square of the distance walked in t seconds at v m/s *)
Definition max_dist_sq (t : Z) (v : Q) : Q := (inject_Z t * v) * (inject_Z t * v).

Lemma max_dist_sq_power t v : max_dist_sq t v == (inject_Z t * v) ^ 2.
Proof. unfold max_dist_sq. simpl. reflexivity. Qed.

(* GeoFilter::calculateNodeDistanceSquared on a local flat-earth approximation; len_* are metres per degree *)
Definition node_dist_sq (lon_n lat_n lon_p lat_p len_lon len_lat : Q) : Q :=
  let dx := (lon_n - lon_p) * len_lon in
  let dy := (lat_n - lat_p) * len_lat in
  dx * dx + dy * dy.

(* the candidate test of both filters *)
Definition candidate (d2 : Q) (t : Z) (v : Q) : bool := Qle_bool d2 (max_dist_sq t v).

(* one row of the Euclidean filter: NodeTimeDistance(node, travelTimeSeconds, distanceMeters) *)
Record georow := { gr_time : Z; gr_dist : Z }.

Definition euclid_dist (d2 : Q) : Z := Z.sqrt (Qfloor d2).                      (* int distanceMeters = sqrt(d2) *)
Definition euclid_time (d2 : Q) (v : Q) : Z := Qtrunc (inject_Z (euclid_dist d2) / v).   (* int t = distanceMeters / v *)

Definition euclid_row (d2 : Q) (t : Z) (v : Q) : option georow :=
  if candidate d2 t v then Some {| gr_time := euclid_time d2 v; gr_dist := euclid_dist d2 |} else None.

(* the walking router's row: (int)ceil((float)x) *)
Definition osrm_ceil (x : Q) : Z := Qceiling x.
Definition osrm_row_kept (duration : Q) (t : Z) : bool := (osrm_ceil duration <=? t)%Z.
