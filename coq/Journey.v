(* Journey.v — itinerary reconstruction, optimizeJourney (CSL/BTS/GTF/CSS) and step/total emission.
   Mirrors connection_scan_algorithm/src/{reverse_journey,optimize_journey}.cpp. *)
From TrV Require Export Scan.
Local Open Scope Z_scope.

(* ---------------------------------------------------------------------------------------------- *)
(* rebuild loop, reverse_journey.cpp:45-58 (and 285-297): follows rsteps labels from the access label;
   the walk stored *before* a leg is moved to sit *after* the previous leg. *)

Definition set_walk (j : jstep) (w dist : Z) : jstep :=
  {| js_enter := js_enter j; js_exit := js_exit j; js_trip := js_trip j;
     js_walk := w; js_same := js_same j; js_dist := dist |}.

Fixpoint set_last_walk (l : list jstep) (w dist : Z) : list jstep :=
  match l with
  | [] => []
  | [x] => [set_walk x w dist]
  | x :: r => x :: set_last_walk r w dist
  end.

(* returns the legs and the stop where the last leg alights; None = fuel exhausted (the C++ loop
   would not terminate) *)
Fixpoint rebuild (fuel : nat) (steps : nat -> jstep) (cur : jstep) (acc : list jstep) (last : option nat)
  : option (list jstep * option nat) :=
  match js_enter cur, js_exit cur with
  | Some _, Some e =>
      match fuel with
      | O => None
      | S f =>
          let acc1 := match acc with [] => [] | _ => set_last_walk acc (js_walk cur) (js_dist cur) end in
          rebuild f steps (steps (c_to e)) (acc1 ++ [cur]) (Some (c_to e))
      end
  | _, _ => Some (acc, last)
  end.

(* ---------------------------------------------------------------------------------------------- *)
(* optimizeJourney *)

Definition set_exit (j : jstep) (c : conn) : jstep :=
  {| js_enter := js_enter j; js_exit := Some c; js_trip := js_trip j;
     js_walk := js_walk j; js_same := js_same j; js_dist := js_dist j |}.
Definition set_enter (j : jstep) (c : conn) : jstep :=
  {| js_enter := Some c; js_exit := js_exit j; js_trip := js_trip j;
     js_walk := js_walk j; js_same := js_same j; js_dist := js_dist j |}.

Fixpoint set_nth {A} (l : list A) (i : nat) (f : A -> A) : list A :=
  match l, i with
  | [], _ => []
  | x :: r, O => f x :: r
  | x :: r, S i' => x :: set_nth r i' f
  end.

(* erase [a, b) *)
Definition erase_range {A} (l : list A) (a b : nat) : list A := firstn a l ++ skipn b l.

(* per-step summary computed by the detection loop (optimize_journey.cpp:65-98) *)
Record legsum := { ls_first : nat; ls_last : option nat; ls_between : list nat }.

(* trip.forwardConnections[s] for s in (start, end] : departure nodes, excluding first/last node.
   None = index past the end of the trip's list (operator[]: undefined behaviour) *)
Fixpoint between_nodes (tf : list conn) (s : nat) (cnt : nat) (first last : nat) : option (list nat) :=
  match cnt with
  | O => Some []
  | S cnt' =>
      match nth_error tf s with
      | None => None
      | Some c =>
          match between_nodes tf (S s) cnt' first last with
          | None => None
          | Some r => Some (if negb (Nat.eqb (c_from c) first) && negb (Nat.eqb (c_from c) last)
                            then c_from c :: r else r)
          end
      end
  end.

Definition leg_summary (d : data) (j : jstep) : option (option legsum) :=
  match js_trip j, js_enter j, js_exit j with
  | Some t, Some en, Some ex =>
      let s := (c_seq en - 1)%nat in
      let e := (c_seq ex - 1)%nat in
      (* for (sequenceIdx = s+1; sequenceIdx <= e; ++sequenceIdx) with int arithmetic *)
      match between_nodes (trip_fwd d t) (S s) (e - s)%nat (c_from en) (c_to ex) with
      | None => None
      | Some b => Some (Some {| ls_first := c_from en; ls_last := Some (c_to ex); ls_between := b |})
      end
  | _, _, _ => Some None
  end.

(* the four searches for a pair (i, idx), in source order, lines 102-168 *)
Definition detect_pair (ign : list nat) (si sj : legsum) : option (nat * nat) :=
  let bi := ls_between si in
  let bj := ls_between sj in
  let okn n := negb (memb n ign) in
  match ls_last sj with
  | Some lj =>
      if negb (Nat.eqb (length bi) 0) && memb lj bi && okn lj then Some (1%nat, lj)
      else
        match (if negb (Nat.eqb (length bj) 0)
               then match ls_last si with
                    | Some li => if memb li bj && okn li then Some li else None
                    | None => None
                    end
               else None) with
        | Some li => Some (2%nat, li)
        | None =>
            if negb (Nat.eqb (length bi) 0) && memb (ls_first sj) bi && okn (ls_first sj)
            then Some (3%nat, ls_first sj)
            else if negb (Nat.eqb (length bi) 0) && negb (Nat.eqb (length bj) 0)
            then match find (fun n => memb n bj && okn n) bi with
                 | Some n => Some (4%nat, n)
                 | None => None
                 end
            else None
        end
  | None => None
  end.

Definition empty_sum : legsum := {| ls_first := 0%nat; ls_last := None; ls_between := [] |}.

(* scan i = 0 .. idx-1 *)
Fixpoint detect_inner (ign : list nat) (prev : list legsum) (i : nat) (sj : legsum) : option (nat * nat * nat) :=
  match prev with
  | [] => None
  | si :: r =>
      match detect_pair ign si sj with
      | Some (cs, n) => Some (cs, n, i)
      | None => detect_inner ign r (S i) sj
      end
  end.

(* outer loop over journey steps; returns (case, node, from, to) or None; UB if an index ran out *)
Fixpoint detect (d : data) (ign : list nat) (js : list jstep) (idx : nat) (prev : list legsum)
  : option (option (nat * nat * nat * nat)) :=
  match js with
  | [] => Some None
  | j :: r =>
      match leg_summary d j with
      | None => None
      | Some None => detect d ign r (S idx) (prev ++ [empty_sum])
      | Some (Some sj) =>
          match detect_inner ign prev 0%nat sj with
          | Some (cs, n, i) => Some (Some (cs, n, i, idx))
          | None => detect d ign r (S idx) (prev ++ [sj])
          end
      end
  end.

(* trip.reverseConnections[size-1-s] for s = e downto st : the list in iteration order *)
Fixpoint rev_range (tr : list conn) (sz : nat) (e : nat) (cnt : nat) : option (list conn) :=
  match cnt with
  | O => Some []
  | S cnt' =>
      match nth_error tr (sz - 1 - e)%nat with
      | None => None
      | Some c =>
          match e with
          | O => match cnt' with O => Some [c] | _ => None end
          | S e' => match rev_range tr sz e' cnt' with None => None | Some r => Some (c :: r) end
          end
      end
  end.

Definition leg_range (d : data) (j : jstep) : option (list conn) :=
  match js_trip j, js_enter j, js_exit j with
  | Some t, Some en, Some ex =>
      let s := (c_seq en - 1)%nat in
      let e := (c_seq ex - 1)%nat in
      let tr := trip_rev d t in
      if Nat.ltb e s then Some [] else rev_range tr (length tr) e (e - s + 1)%nat
  | _, _, _ => None
  end.

Inductive opt_result := OptDone (js : list jstep) (used : list nat) | OptUB | OptHang.

Definition nth_js (js : list jstep) (i : nat) : jstep := nth i js js_default.

(* CSS second loop: stops at the first connection leaving the node *)
Fixpoint css_second (node : nat) (exitc : option conn) (rng : list conn)
         (js : list jstep) (from to : nat) (used ign : list nat) : list jstep * list nat * list nat :=
  match rng with
  | [] => (js, used, ign)
  | c :: r =>
      if Nat.eqb node (c_from c) then
        match exitc with
        | Some ex =>
            if c_cb c
            then (erase_range (set_nth (set_nth js from (fun j => set_walk (set_exit j ex) 0 0)) to (fun j => set_enter j c))
                              (S from) to,
                  used ++ [4%nat], ign)
            else (js, used, ign ++ [node])
        | None => (js, used, ign ++ [node])
        end
      else css_second node exitc r js from to used ign
  end.

(* CSS first loop (lines 298-312): keeps the last boardable match, stops at the first forbidden one *)
Fixpoint css_first (node : nat) (rng : list conn) (exitc : option conn) : option conn :=
  match rng with
  | [] => exitc
  | c :: r => if Nat.eqb node (c_to c) then (if c_cu c then css_first node r (Some c) else exitc)
              else css_first node r exitc
  end.

Fixpoint optimize (fuel : nat) (d : data) (js : list jstep) (used ign : list nat) : opt_result :=
  match fuel with
  | O => OptHang
  | S f =>
      match detect d ign js 0%nat [] with
      | None => OptUB
      | Some None => OptDone js used
      | Some (Some (cs, node, from, to)) =>
          if Nat.eqb cs 1 then
            match leg_range d (nth_js js from) with
            | None => OptUB
            | Some rng =>
                match find (fun c => Nat.eqb node (c_to c)) rng with
                | None => optimize f d js used ign
                | Some c =>
                    if negb (c_cu c) then optimize f d js used (ign ++ [node])
                    else
                      (* the shortened leg takes over the walk that followed leg `to`; legs from+1..to go *)
                      let wt := nth_js js to in
                      let js1 := set_nth js from (fun j => set_exit (set_walk j (js_walk wt) (js_dist wt)) c) in
                      optimize f d (erase_range js1 (S from) (S to)) (used ++ [1%nat]) ign
                end
            end
          else if Nat.eqb cs 2 then
            (* BTS: whatever happens, optimizationCase is reset to -1 and the while loop ends *)
            match leg_range d (nth_js js to) with
            | None => OptUB
            | Some rng =>
                match find (fun c => Nat.eqb node (c_from c)) rng with
                | None => OptDone js used
                | Some c =>
                    if negb (c_cb c) then OptDone js used
                    else OptDone (erase_range (set_nth (set_nth js to (fun j => set_enter j c)) from (fun j => set_walk j 0 0))
                                              (S from) to) (used ++ [2%nat])
                end
            end
          else if Nat.eqb cs 3 then
            match leg_range d (nth_js js from) with
            | None => OptUB
            | Some rng =>
                match find (fun c => Nat.eqb node (c_to c)) rng with
                | None => optimize f d js used ign
                | Some c =>
                    if negb (c_cu c) then optimize f d js used (ign ++ [node])
                    else optimize f d (erase_range (set_nth js from (fun j => set_walk (set_exit j c) 0 0)) (S from) to)
                                  (used ++ [3%nat]) ign
                end
            end
          else
            match leg_range d (nth_js js from), leg_range d (nth_js js to) with
            | Some rf, Some rt =>
                let exitc := css_first node rf None in
                let '(js1, used1, ign1) := css_second node exitc rt js from to used ign in
                optimize f d js1 used1 ign1
            | _, _ => OptUB
            end
      end
  end.

(* ---------------------------------------------------------------------------------------------- *)
(* emission, reverse_journey.cpp:78-262 *)

Inductive step :=
| SWalk (kind : nat) (travel dist dep arr ready : Z)          (* kind: 0 access, 1 egress, 2 transfer *)
| SBoard (trip : nat) (legseq stopseq : nat) (node : nat) (dep wait : Z)
| SUnboard (trip : nat) (legseq stopseq : nat) (node : nat) (arr ivt ivd : Z).

Record route := { rt_dep : Z; rt_arr : Z; rt_ttt : Z; rt_tdist : Z; rt_tivt : Z; rt_tivd : Z;
                  rt_tnt : Z; rt_tntd : Z; rt_nboard : Z; rt_ntransf : Z; rt_trwalk : Z; rt_trdist : Z;
                  rt_acc : Z; rt_accd : Z; rt_egr : Z; rt_egrd : Z; rt_trwait : Z; rt_fwait : Z; rt_twait : Z;
                  rt_steps : list step }.

(* running variables of the emission loop *)
Record emit_st := { e_tivt : Z; e_twalk : Z; e_twait : Z; e_ttrwalk : Z; e_ttrwait : Z; e_tdist : Z;
                    e_tivd : Z; e_twalkd : Z; e_ttrd : Z; e_accd : Z; e_egrd : Z;
                    e_tarr : Z (* transferArrivalTime *); e_ntr : Z; e_arr : Z (* arrivalTime *);
                    e_accw : Z; e_egrw : Z; e_accwait : Z;
                    e_steps : list step }.

Definition emit_init : emit_st :=
  {| e_tivt := 0; e_twalk := 0; e_twait := 0; e_ttrwalk := 0; e_ttrwait := 0; e_tdist := 0;
     e_tivd := 0; e_twalkd := 0; e_ttrd := 0; e_accd := 0; e_egrd := 0;
     e_tarr := -1; e_ntr := -1; e_arr := -1; e_accw := -1; e_egrw := -1; e_accwait := -1;
     e_steps := [] |}.

Fixpoint sum_dists (l : list Z) (from cnt : nat) : Z :=
  match cnt with
  | O => 0
  | S c => nth from l 0 + sum_dists l (S from) c
  end.

Definition next_minw (p : params) (nxt : option jstep) : Z :=
  match nxt with
  | Some j => match js_enter j with Some b => minw_eff p b | None => 0 end
  | None => 0
  end.

Definition is_transferable_trip (d : data) (t : nat) : bool :=
  match find_trip d t with Some tr => Nat.eqb (trip_mode d tr) TRANSFERABLE_MODE | None => false end.

Definition emit_step (d : data) (p : params) (bestdep : Z) (count : nat)
           (st : emit_st) (i : nat) (j : jstep) (nxt : option jstep) : emit_st :=
  match js_enter j, js_exit j with
  | Some en, Some ex =>
      let t := match js_trip j with Some t => t | None => c_trip en end in
      let transferTime := js_walk j in
      let distance := js_dist j in
      let departureTime := c_dep en in
      let arrivalTime := c_arr ex in
      let bseq := c_seq en in
      let useq := c_seq ex in
      let ivt := arrivalTime - departureTime in
      let waiting := departureTime - e_tarr st in
      let tarr := arrivalTime + transferTime in
      let ready := tarr + next_minw p nxt in
      let transferable := is_transferable_trip d t in
      let ntr := if transferable then e_ntr st else e_ntr st + 1 in
      let dists := match find_trip d t with Some tr => trip_dists d tr | None => [] end in
      let have := Nat.ltb (useq - 1) (length dists) in
      let ivd := if have then sum_dists dists (bseq - 1)%nat (useq - (bseq - 1))%nat else -1 in
      let tdist := if have then (if e_tdist st =? -1 then e_tdist st else e_tdist st + ivd) else -1 in
      let twalkd := if have && transferable then e_twalkd st + ivd else e_twalkd st in
      let twalk := if have && transferable then e_twalk st + ivt else e_twalk st in
      let ttrd := if have && transferable then e_ttrd st + ivd else e_ttrd st in
      let ttrwalk := if have && transferable then e_ttrwalk st + ivt else e_ttrwalk st in
      let tivd := if have then (if transferable then e_tivd st
                                else if e_tivd st =? -1 then e_tivd st else e_tivd st + ivd) else -1 in
      let accwait := if Nat.eqb i 1 then waiting else e_accwait st in
      let ttrwait := if Nat.eqb i 1 then e_ttrwait st else e_ttrwait st + waiting in
      let steps1 := e_steps st ++ [SBoard t bseq bseq (c_from en) departureTime waiting;
                                   SUnboard t useq (S useq) (c_to ex) arrivalTime ivt ivd] in
      let not_last := Nat.ltb (S (S i)) count in   (* i < journeyStepsCount - 2, size_t arithmetic, count >= 2 *)
      if not_last then
        {| e_tivt := e_tivt st + ivt; e_twalk := twalk + transferTime; e_twait := e_twait st + waiting;
           e_ttrwalk := ttrwalk + transferTime; e_ttrwait := ttrwait;
           e_tdist := (if tdist =? -1 then tdist else tdist + distance);
           e_tivd := tivd; e_twalkd := twalkd + distance; e_ttrd := ttrd + distance;
           e_accd := e_accd st; e_egrd := e_egrd st; e_tarr := tarr; e_ntr := ntr; e_arr := arrivalTime;
           e_accw := e_accw st; e_egrw := e_egrw st; e_accwait := accwait;
           e_steps := steps1 ++ [SWalk 2 transferTime distance arrivalTime tarr ready] |}
      else
        {| e_tivt := e_tivt st + ivt; e_twalk := twalk; e_twait := e_twait st + waiting;
           e_ttrwalk := ttrwalk; e_ttrwait := ttrwait; e_tdist := tdist;
           e_tivd := tivd; e_twalkd := twalkd; e_ttrd := ttrd;
           e_accd := e_accd st; e_egrd := e_egrd st; e_tarr := tarr; e_ntr := ntr; e_arr := arrivalTime;
           e_accw := e_accw st; e_egrw := e_egrw st; e_accwait := accwait;
           e_steps := steps1 |}
  | _, _ =>
      let transferTime := js_walk j in
      let distance := js_dist j in
      let tdist := if e_tdist st =? -1 then e_tdist st else e_tdist st + distance in
      if Nat.eqb i 0 then
        let tarr := bestdep + transferTime in
        let ready := tarr + next_minw p nxt in
        {| e_tivt := e_tivt st; e_twalk := e_twalk st + transferTime; e_twait := e_twait st;
           e_ttrwalk := e_ttrwalk st; e_ttrwait := e_ttrwait st; e_tdist := tdist;
           e_tivd := e_tivd st; e_twalkd := e_twalkd st + distance; e_ttrd := e_ttrd st;
           e_accd := distance; e_egrd := e_egrd st; e_tarr := tarr; e_ntr := e_ntr st; e_arr := e_arr st;
           e_accw := transferTime; e_egrw := e_egrw st; e_accwait := e_accwait st;
           e_steps := e_steps st ++ [SWalk 0 transferTime distance bestdep tarr ready] |}
      else
        let tarr := e_arr st + transferTime in
        {| e_tivt := e_tivt st; e_twalk := e_twalk st + transferTime; e_twait := e_twait st;
           e_ttrwalk := e_ttrwalk st; e_ttrwait := e_ttrwait st; e_tdist := tdist;
           e_tivd := e_tivd st; e_twalkd := e_twalkd st + distance; e_ttrd := e_ttrd st;
           e_accd := e_accd st; e_egrd := distance; e_tarr := tarr; e_ntr := e_ntr st; e_arr := tarr;
           e_accw := e_accw st; e_egrw := transferTime; e_accwait := e_accwait st;
           e_steps := e_steps st ++ [SWalk 1 transferTime distance (e_arr st) (e_arr st + transferTime) (-1)] |}
  end.

Fixpoint emit_loop (d : data) (p : params) (bestdep : Z) (count : nat)
         (st : emit_st) (i : nat) (js : list jstep) : emit_st :=
  match js with
  | [] => st
  | j :: r => emit_loop d p bestdep count (emit_step d p bestdep count st i j (hd_error r)) (S i) r
  end.

Definition emit (d : data) (p : params) (bestdep : Z) (js : list jstep) : route :=
  let st := emit_loop d p bestdep (length js) emit_init 0%nat js in
  {| rt_dep := bestdep; rt_arr := e_arr st; rt_ttt := e_arr st - bestdep; rt_tdist := e_tdist st;
     rt_tivt := e_tivt st; rt_tivd := e_tivd st; rt_tnt := e_twalk st; rt_tntd := e_twalkd st;
     rt_nboard := e_ntr st + 1; rt_ntransf := (if e_ntr st =? -1 then 0 else e_ntr st);
     rt_trwalk := e_ttrwalk st; rt_trdist := e_ttrd st; rt_acc := e_accw st; rt_accd := e_accd st;
     rt_egr := e_egrw st; rt_egrd := e_egrd st; rt_trwait := e_ttrwait st; rt_fwait := e_accwait st;
     rt_twait := e_twait st; rt_steps := e_steps st |}.
