(* Calc.v — calculateSingle, calculateAllNodes, alternativesRouting, Combinations.
   Mirrors connection_scan_algorithm/src/{calculator,reverse_journey,forward_journey,alternatives_routing}.cpp
   and include/combinations.hpp. *)
From TrV Require Export Journey.
Local Open Scope Z_scope.

Definition REBUILD_FUEL (d : data) : nat := (4 * (length (d_nodes d)) + 64)%nat.
(* every rewrite iteration either ignores one more stop or strictly shortens the ridden segments *)
Definition OPT_FUEL (d : data) : nat := (4 * (S (length (d_nodes d))) * (S (length (all_conns d))) + 64)%nat.

(* the walking router is a table: rows offered for the origin and for the destination *)
Record tables := { tb_acc : list fprow; tb_egr : list fprow }.

(* reset(): NO_ACCESS reasons, resets.cpp:144-151.  acc_ok / egr_ok are false only when the lookup was
   performed in this call (resetAccessPaths) and returned nothing *)
Definition access_reason (acc_ok egr_ok : bool) : option nat :=
  if negb egr_ok && negb acc_ok then Some R_NO_ACCESS_AT_ORIGIN_AND_DESTINATION
  else if negb acc_ok then Some R_NO_ACCESS_AT_ORIGIN
  else if negb egr_ok then Some R_NO_ACCESS_AT_DESTINATION
  else None.

Definition nonempty {A} (l : list A) : bool := match l with [] => false | _ => true end.

(* reverseJourneyStep (reverse_journey.cpp:16-266) *)
Definition rev_journey (d : data) (p : params) (k : calc) (st : rstate) (best : option (Z * nat))
  : outcome (route * list nat) :=
  match best with
  | None => NoRouting R_NO_ROUTING_FOUND
  | Some (bestdep, node) =>
      match r_acc st node with
      | None => Exn X_OUT_OF_RANGE   (* unreachable: best is chosen among labelled stops *)
      | Some start =>
          match rebuild (REBUILD_FUEL d) (r_steps st) start [] None with
          | None => Hang
          | Some (legs, last) =>
              match row_of node (k_accfp k), last with
              | Some ar, Some ln =>
                  match row_of ln (k_egrfp k) with
                  | None => Exn X_OUT_OF_RANGE
                  | Some er =>
                      let js := walk_step ar :: legs ++ [walk_step er] in
                      match optimize (OPT_FUEL d) d js [] [] with
                      | OptUB => UB U_INDEX
                      | OptHang => Hang
                      | OptDone js1 used => Ok (emit d p bestdep js1, used)
                      end
                  end
              | _, _ => Exn X_BAD_OPTIONAL
              end
          end
      end
  end.

Definition set_usable (ov : nat -> tqd) : nat -> tqd :=
  fun t => let o := ov t in
           {| o_usable := true; o_enter := o_enter o; o_enter_w := o_enter_w o;
              o_exit := o_exit o; o_exit_w := o_exit_w o |}.

Definition with_rev (k : calc) (arr : Z) (dep : Z) (taur : nat -> Z) (ov : nat -> tqd) : calc :=
  {| k_dep := dep; k_arr := arr; k_minAcc := k_minAcc k; k_maxAcc := k_maxAcc k;
     k_minEgr := k_minEgr k; k_maxEgr := k_maxEgr k; k_accfp := k_accfp k; k_egrfp := k_egrfp k;
     k_tau := k_tau k; k_taur := taur; k_fsteps := k_fsteps k; k_rsteps := k_rsteps k;
     k_ov := ov; k_disabled := k_disabled k; k_set := k_set k |}.

Definition calc_reverse (d : data) (p : params) (k : calc) : outcome (route * list nat) :=
  bind (rev_scan d p k false) (fun st =>
    if r_count st =? 0 then NoRouting R_NO_SERVICE_TO_DESTINATION
    else rev_journey d p k st (best_access p k st)).

(* calculateSingle (calculator.cpp:28-90).  `fresh` = resetAccessPaths: the router is asked and an empty
   answer is a NO_ACCESS reason; otherwise the rows kept from the first calculation are reused. *)
Definition calc_single (d : data) (cs : connset) (p : params) (acc egr : list fprow) (fresh : bool)
  : outcome (route * list nat) :=
  match access_reason (negb fresh || nonempty acc) (negb fresh || nonempty egr) with
  | Some r => NoRouting r
  | None =>
      let k := mk_calc d p cs acc egr true true in
      if (k_dep k >? -1) && q_fwd p then
        bind (fwd_scan d p k false) (fun fs =>
          if f_count fs =? 0 then NoRouting R_NO_SERVICE_FROM_ORIGIN
          else match best_egress p k fs with
               | None => NoRouting R_NO_ROUTING_FOUND     (* forwardJourneyStep always throws *)
               | Some (best, _) =>
                   let taur := fold_left (fun m r => upd m (fp_node r) (best - fp_time r)) (k_egrfp k) (k_taur k) in
                   calc_reverse d p (with_rev k best (k_dep k) taur (f_ov fs))
               end)
      else if k_arr k >? -1 then
        calc_reverse d p (with_rev k (k_arr k) (-1) (k_taur k) (set_usable (k_ov k)))
      else Exn X_BAD_OPTIONAL   (* null unique_ptr dereferenced by the caller: time_of_trip < 0 is rejected earlier *)
  end.

(* ---------------------------------------------------------------------------------------------- *)
(* accessibility: calculateAllNodes + forwardJourneyStepAllNodes / reverseJourneyStepAllNodes       *)

Record accnode := { an_node : nat; an_time : Z; an_ttt : Z; an_ntr : Z }.

Fixpoint count_transfers_fwd (fuel : nat) (d : data) (steps : nat -> jstep) (cur : jstep) (n : Z) : option Z :=
  match js_enter cur, js_exit cur with
  | Some en, Some _ =>
      match fuel with
      | O => None
      | S f =>
          let t := match js_trip cur with Some t => t | None => c_trip en end in
          count_transfers_fwd f d steps (steps (c_from en)) (if is_transferable_trip d t then n else n + 1)
      end
  | _, _ => Some n
  end.

Fixpoint fwd_allnodes_loop (d : data) (p : params) (k : calc) (fs : fstate) (nodes : list nat)
  : outcome (list accnode) :=
  match nodes with
  | [] => Ok []
  | n :: r =>
      match f_egr fs n with
      | None => fwd_allnodes_loop d p k fs r
      | Some j =>
          match count_transfers_fwd (REBUILD_FUEL d) d (f_steps fs) j (-1) with
          | None => Hang
          | Some ntr =>
              bind (fwd_allnodes_loop d p k fs r) (fun rest =>
                match js_enter j, js_exit j with
                | Some _, Some e =>
                    if c_arr e - k_dep k <=? q_maxtt p
                    then Ok ({| an_node := n; an_time := c_arr e; an_ttt := c_arr e - k_dep k; an_ntr := ntr |} :: rest)
                    else Ok rest
                | _, _ => Ok rest
                end)
          end
      end
  end.

Definition count_legs (d : data) (js : list jstep) : Z :=
  fold_left (fun n j => match js_enter j, js_exit j, js_trip j with
                        | Some _, Some _, Some t => if is_transferable_trip d t then n else n + 1
                        | _, _, _ => n
                        end) js (-1).

Fixpoint rev_allnodes_loop (d : data) (p : params) (k : calc) (st : rstate) (nodes : list nat)
  : outcome (list accnode) :=
  match nodes with
  | [] => Ok []
  | n :: r =>
      match r_acc st n with
      | None => rev_allnodes_loop d p k st r
      | Some start =>
          match rebuild (REBUILD_FUEL d) (r_steps st) start [] None with
          | None => Hang
          | Some (legs, last) =>
              match last with
              | None => Exn X_BAD_OPTIONAL
              | Some ln =>
                  match row_of ln (k_egrfp k) with
                  | None => Exn X_OUT_OF_RANGE
                  | Some er =>
                      match optimize (OPT_FUEL d) d (legs ++ [walk_step er]) [] [] with
                      | OptUB => UB U_INDEX
                      | OptHang => Hang
                      | OptDone js1 _ =>
                          bind (rev_allnodes_loop d p k st r) (fun rest =>
                            match js_enter start with
                            | Some b =>
                                let depd := c_dep b - minw_eff p b in
                                if k_arr k - depd <=? q_maxtt p
                                then Ok ({| an_node := n; an_time := k_arr k; an_ttt := k_arr k - depd;
                                            an_ntr := count_legs d js1 |} :: rest)
                                else Ok rest
                            | None => Ok rest
                            end)
                      end
                  end
              end
          end
      end
  end.

(* place rows: access table for forward queries, egress table for reverse ones *)
Definition calc_allnodes (d : data) (cs : connset) (p : params) (rows : list fprow)
  : outcome (list accnode * Z) :=
  let total := Z.of_nat (length (d_nodes d)) in
  if q_fwd p then
    match access_reason (nonempty rows) true with
    | Some r => NoRouting r
    | None =>
        let k := mk_calc d p cs rows [] true false in
        if k_dep k >? -1 then
          bind (fwd_scan d p k true) (fun fs =>
            if f_count fs =? 0 then NoRouting R_NO_SERVICE_FROM_ORIGIN
            else bind (fwd_allnodes_loop d p k fs (d_nodes d)) (fun l => Ok (l, total)))
        else Exn X_BAD_OPTIONAL
    end
  else
    match access_reason true (nonempty rows) with
    | Some r => NoRouting r
    | None =>
        let k0 := mk_calc d p cs [] rows false true in
        let k := with_rev k0 (k_arr k0) (-1) (k_taur k0) (set_usable (k_ov k0)) in
        if k_arr k >? -1 then
          bind (rev_scan d p k true) (fun st =>
            if r_count st =? 0 then NoRouting R_NO_SERVICE_TO_DESTINATION
            else bind (rev_allnodes_loop d p k st (d_nodes d)) (fun l => Ok (l, total)))
        else Exn X_BAD_OPTIONAL
    end.

(* ---------------------------------------------------------------------------------------------- *)
(* Combinations<T>(set, k): all k-subsets in lexicographic position order (combinations.hpp) *)

Fixpoint combs {A} (k : nat) (l : list A) : list (list A) :=
  match k with
  | O => [[]]
  | S k' =>
      match l with
      | [] => []
      | x :: r => map (cons x) (combs k' r) ++ combs (S k') r
      end
  end.

Definition all_combs {A} (l : list A) : list (list A) :=
  flat_map (fun k => combs k l) (seq 1 (length l)).

(* sorting line lists by uid (insertion sort on nat) *)
Fixpoint ins_nat (x : nat) (l : list nat) : list nat :=
  match l with
  | [] => [x]
  | y :: r => if Nat.ltb x y then x :: l else y :: ins_nat x r
  end.
Definition sort_nat (l : list nat) : list nat := fold_right ins_nat [] l.

Definition list_eqb (a b : list nat) : bool :=
  Nat.eqb (length a) (length b) && forallb (fun xy => Nat.eqb (fst xy) (snd xy)) (combine a b).
Definition mem_list (x : list nat) (l : list (list nat)) : bool := existsb (list_eqb x) l.

Definition route_lines (d : data) (r : route) : list nat :=
  flat_map (fun s => match s with
                     | SBoard t _ _ _ _ _ =>
                         match find_trip d t with Some tr => [trip_line d tr] | None => [] end
                     | _ => []
                     end) (rt_steps r).

Definition with_alt (p : params) (maxtt : Z) (ex : list nat) : params :=
  {| q_scenario := q_scenario p; q_time := q_time p; q_minw := q_minw p; q_maxtt := maxtt;
     q_maxacc := q_maxacc p; q_maxegr := q_maxegr p; q_maxtr := q_maxtr p; q_maxfw := q_maxfw p;
     q_fwd := q_fwd p; q_except_lines := ex |}.

(* generated from parameters.hpp:192-196 *)
Definition MAX_ALTERNATIVES : Z := GEN_MAX_ALTERNATIVES.
Definition MAX_VALID_ALTERNATIVES : Z := GEN_MAX_VALID_ALTERNATIVES.
Definition ALT_MIN_MAXTT : Z := GEN_ALT_MIN_MAXTT.
Definition ALT_ADDED : Z := GEN_ALT_ADDED.

(* alternatives_routing.cpp:126-135; 1.75f * t is exact in float below 2^22 s *)
Definition alt_maxtt (p : params) (r : route) : Z :=
  let slack := if q_fwd p then rt_dep r - q_time p else 0 in
  let m0 := Z.quot (GEN_ALT_RATIO_QUARTERS * rt_ttt r + 4 * slack) 4 in
  let m1 := if m0 <? ALT_MIN_MAXTT then ALT_MIN_MAXTT
            else if m0 >? rt_ttt r + ALT_ADDED then rt_ttt r + ALT_ADDED else m0 in
  Z.min m1 (q_maxtt p).

Record alt_st := { a_routes : list route; a_all : list (list nat); a_failed : list (list nat);
                   a_calculated : list (list nat); a_found : list (list nat);
                   a_seq : Z; a_count : Z }.

(* does newc contain every line of some failed combination? *)
Definition matches_failed (failed : list (list nat)) (newc : list nat) : bool :=
  existsb (fun fc => forallb (fun l => memb l newc) fc) failed.

(* lines 224-261: push the new combinations derived from a found alternative *)
Definition push_combs (st : alt_st) (found comb : list nat) : alt_st :=
  fold_left (fun s nc0 =>
    let nc := sort_nat (nc0 ++ comb) in
    if mem_list nc (a_calculated s) then s
    else {| a_routes := a_routes s;
            a_all := if matches_failed (a_failed s) nc then a_all s else a_all s ++ [nc];
            a_failed := a_failed s; a_calculated := a_calculated s ++ [nc]; a_found := a_found s;
            a_seq := a_seq s; a_count := a_count s |})
    (all_combs found) st.

(* main loop over allCombinations (which grows while it is traversed): i is the position *)
Fixpoint alt_loop (fuel : nat) (d : data) (cs : connset) (p : params) (altp : Z)
         (acc egr : list fprow) (base_ex : list nat) (st : alt_st) (i : nat) : outcome alt_st :=
  match fuel with
  | O => Ok st          (* not reached: the loop performs at most MAX_ALTERNATIVES calculations *)
  | S f =>
      match nth_error (a_all st) i with
      | None => Ok st
      | Some comb =>
          if (a_count st <? MAX_ALTERNATIVES) && (a_seq st - 1 <? MAX_VALID_ALTERNATIVES) then
            let ap := with_alt p altp (base_ex ++ comb) in
            match calc_single d cs ap acc egr false with
            | Ok (r, _) =>
                let fl := sort_nat (route_lines d r) in
                let st1 :=
                  if nonempty fl && negb (mem_list fl (a_found st)) then
                    let s1 := {| a_routes := a_routes st ++ [r]; a_all := a_all st; a_failed := a_failed st;
                                 a_calculated := a_calculated st; a_found := a_found st ++ [fl];
                                 a_seq := a_seq st; a_count := a_count st |} in
                    let s2 := push_combs s1 fl comb in
                    {| a_routes := a_routes s2; a_all := a_all s2; a_failed := a_failed s2;
                       a_calculated := a_calculated s2; a_found := a_found s2;
                       a_seq := a_seq s2 + 1; a_count := a_count s2 |}
                  else st in
                alt_loop f d cs p altp acc egr base_ex
                  {| a_routes := a_routes st1; a_all := a_all st1; a_failed := a_failed st1;
                     a_calculated := a_calculated st1; a_found := a_found st1;
                     a_seq := a_seq st1; a_count := a_count st1 + 1 |} (S i)
            | NoRouting _ =>
                alt_loop f d cs p altp acc egr base_ex
                  {| a_routes := a_routes st; a_all := a_all st; a_failed := a_failed st ++ [comb];
                     a_calculated := a_calculated st; a_found := a_found st;
                     a_seq := a_seq st; a_count := a_count st + 1 |} (S i)
            | ParamErr c => ParamErr c
            | DataErr c => DataErr c
            | Exn t => Exn t
            | NoReply => NoReply
            | Crash => Crash
            | UB t => UB t
            | Hang => Hang
            end
          else Ok st   (* both conditions are monotone: every later iteration of the source loop is a no-op *)
      end
  end.

Definition ALT_FUEL : nat := 256.   (* at most MAX_ALTERNATIVES - 2 iterations calculate *)

(* alternativesRouting: result = routes and totalAlternativesCalculated *)
Definition alternatives (d : data) (cs : connset) (p : params) (acc egr : list fprow)
  : outcome (list route * Z) :=
  bind (calc_single d cs p acc egr true) (fun first =>
    let r := fst first in
    let altp := alt_maxtt p r in
    let fl := sort_nat (route_lines d r) in
    let combs0 := map sort_nat (all_combs fl) in
    let st0 := {| a_routes := [r]; a_all := combs0; a_failed := []; a_calculated := combs0;
                  a_found := [fl]; a_seq := 2; a_count := 2 |} in
    bind (alt_loop ALT_FUEL d cs p altp acc egr (q_except_lines p) st0 0%nat)
         (fun st => Ok (a_routes st, a_count st))).
