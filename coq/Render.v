(* Render.v — /v2/summary aggregation (C19).  Mirrors SummaryResultAccumulator and the three
   ResultToV2SummaryResponse entry points of result_to_v2_summary.cpp: a std::map keyed by line uuid,
   one count per boarding step over all routes. *)
From TrV Require Export Server.
Local Open Scope Z_scope.

(* insert-or-increment in a map kept sorted by key (std::map<uuid, LineSummary>) *)
Fixpoint acc_line (k : nat) (m : list (nat * Z)) : list (nat * Z) :=
  match m with
  | [] => [(k, 1)]
  | (k', c) :: r =>
      if Nat.eqb k k' then (k', c + 1) :: r
      else if Nat.ltb k k' then (k, 1) :: m
      else (k', c) :: acc_line k r
  end.

(* processSingleCalculationResult over every route: boarding steps only *)
Definition summary_lines (d : data) (rs : list route) : list (nat * Z) :=
  fold_left (fun m l => acc_line l m) (flat_map (route_lines d) rs) [].

(* the body of a /v2/summary answer: nbRoutes and the line list; no routing -> status success, 0 routes *)
Definition summary_of (d : data) (a : response) : option (Z * list (nat * Z)) :=
  match a with
  | ARoute (Ok (r, _)) => Some (1, summary_lines d [r])
  | AAlt (Ok (rs, _)) => Some (Z.of_nat (length rs), summary_lines d rs)
  | ARoute (NoRouting _) | AAlt (NoRouting _) => Some (0, [])
  | _ => None
  end.

(* number of routes the /v2/route answer carries *)
Definition routes_of (a : response) : list route :=
  match a with
  | ARoute (Ok (r, _)) => [r]
  | AAlt (Ok (rs, _)) => rs
  | _ => []
  end.
