(* Optimize.v — Calculator::optimizeJourney (optimize_journey.cpp) as data, and its interpreters.

   Part 1, the DETECTION of one pass (lines 65-185 of the source): tools/gen_optimize.py reads
     - the test that makes a journey step a leg, the index arithmetic of its in-between stops and the test that keeps
       one (`opt_leg`);
     - the four searches CSL / BTS / GTF / CSS inside `for (int i = 0; i < journeyStepIdx; i++)`, IN SOURCE ORDER, each with
       its outer condition, the list that is searched, what is searched in it, what is looked up in
       ignoreOptimizationNodes, the case number and the node that are recorded (`opt_case`);
   and `run_cases` / `leg_between` interpret that data.

   Part 2, one PASS of the `while` loop as a statement tree (`oskel`): the variables (re)initialised at the top of the
   pass, the detection (one statement, with the meaning of part 1), the four rewrite blocks with their loops over the
   trip's reverse connections (index arithmetic translated), the node match, the permission tests, what is erased,
   replaced, pushed, and the loop-continuation condition.  A variable declared before the `while` keeps its value from
   one pass to the next; one declared inside is fresh in every pass.

   The interpreter `orun` runs a tree on the variables (`omach`); `owhile` is the loop, `orun_function` the function.
   Proofs/OptimizeTie.v (detection), Proofs/OptimizePassTie.v (the rewrite blocks) and Proofs/OptimizeLoopTie.v (a pass,
   the loop, the function) prove that the model (Journey.v: leg_summary, detect_pair, detect, optimize) computes what
   these interpreters compute on the generated data (gen/Optimize.v). *)
From Coq Require Import List ZArith Bool.
From TrV Require Import Scan Journey.
Import ListNotations.
Local Open Scope Z_scope.
Local Open Scope bool_scope.

(* ---------------------------------------------------------------------------------------------- *)
(* part 1: detection                                                                                *)

(* which stop an expression of the search denotes *)
Inductive node_sel :=
| NLastJ        (* lastNodeByJourneyStepIdx.at(journeyStepIdx)   (.value()) *)
| NLastI        (* lastNodeByJourneyStepIdx.at(i)                (.value()) *)
| NFirstJ       (* firstNodeByJourneyStep *)
| NEach.        (* the element of the loop over inBetweenNodesByJourneyStepIdx[i] *)
(* which list is searched *)
Inductive hay_sel := HBetweenI | HBetweenJ.

Record opt_case := {
  oc_case : Z;                          (* the value given to optimizationCase *)
  oc_outer : Z -> Z -> Z -> bool;       (* optimizationCase now, |inBetween[i]|, |inBetween[journeyStepIdx]| *)
  oc_value : option node_sel;           (* the has_value() test around the search, if there is one *)
  oc_loop : bool;                       (* the search is made for every element of inBetween[i] *)
  oc_hay : hay_sel;                     (* std::find(hay.begin(), hay.end(), needle) *)
  oc_needle : node_sel;
  oc_ign : node_sel;                    (* std::find(ignoreOptimizationNodes..., this) *)
  oc_hit : bool -> bool -> bool;        (* found in the hay, found in the ignore list |-> record the case *)
  oc_node : node_sel }.                 (* optimizationNode = this *)

Definition sel_node (s : node_sel) (si sj : legsum) (each : nat) : option nat :=
  match s with
  | NLastJ => ls_last sj | NLastI => ls_last si | NFirstJ => Some (ls_first sj) | NEach => Some each
  end.
Definition sel_hay (h : hay_sel) (si sj : legsum) : list nat :=
  match h with HBetweenI => ls_between si | HBetweenJ => ls_between sj end.

(* one search, for one candidate element *)
Definition case_hit (c : opt_case) (ign : list nat) (si sj : legsum) (each : nat) : option (Z * nat) :=
  match sel_node (oc_needle c) si sj each, sel_node (oc_ign c) si sj each, sel_node (oc_node c) si sj each with
  | Some needle, Some ig, Some node =>
      if oc_hit c (memb needle (sel_hay (oc_hay c) si sj)) (memb ig ign) then Some (oc_case c, node) else None
  | _, _, _ => None
  end.

Definition run_case (c : opt_case) (now : Z) (ign : list nat) (si sj : legsum) : option (Z * nat) :=
  if oc_outer c now (Z.of_nat (length (ls_between si))) (Z.of_nat (length (ls_between sj))) then
    if match oc_value c with Some s => is_some (sel_node s si sj 0%nat) | None => true end then
      if oc_loop c
      then find_map (fun n => case_hit c ign si sj n) (ls_between si)
      else case_hit c ign si sj 0%nat
    else None
  else None.

(* the searches in source order: the first that records a case leaves the loop over i (`break`); until then
   optimizationCase is -1 *)
Fixpoint run_cases (cs : list opt_case) (ign : list nat) (si sj : legsum) : option (Z * nat) :=
  match cs with
  | [] => None
  | c :: r => match run_case c (-1) ign si sj with Some x => Some x | None => run_cases r ign si sj end
  end.

(* a journey step that is parsed as a leg, and its in-between stops *)
Record opt_leg := {
  ol_is_leg : bool -> bool -> bool;     (* getFinalTrip().has_value(), hasConnections() *)
  ol_seq_idx : Z -> Z;                  (* getSequenceInTrip() |-> sequenceStartIdx / sequenceEndIdx *)
  ol_first : Z -> Z;                    (* sequenceStartIdx |-> first sequenceIdx of the in-between loop *)
  ol_continue : Z -> Z -> bool;         (* sequenceIdx, sequenceEndIdx |-> the loop goes on *)
  ol_keep : Z -> Z -> Z -> bool }.      (* stop, first stop, last stop of the leg (uuids) |-> it is an in-between stop *)

(* for (sequenceIdx = first; continue; ++sequenceIdx): at most `fuel` rounds; None = forwardConnections[sequenceIdx] past the end *)
Fixpoint leg_between (g : opt_leg) (tf : list conn) (fuel : nat) (idx e : Z) (first last : nat) : option (list nat) :=
  match fuel with
  | O => Some []
  | S f =>
      if ol_continue g idx e then
        match nth_error tf (Z.to_nat idx) with
        | None => None
        | Some c =>
            match leg_between g tf f (idx + 1) e first last with
            | None => None
            | Some r => Some (if ol_keep g (Z.of_nat (c_from c)) (Z.of_nat first) (Z.of_nat last) then c_from c :: r else r)
            end
        end
      else Some []
  end.

(* the whole detection of a pass with the data above: journey steps in order, each leg against the earlier ones *)
Definition leg_summary_code (g : opt_leg) (d : data) (j : jstep) : option (option legsum) :=
  if ol_is_leg g (is_some (js_trip j)) (js_has_conns j) then
    match js_trip j, js_enter j, js_exit j with
    | Some t, Some en, Some ex =>
        let s := ol_seq_idx g (Z.of_nat (c_seq en)) in
        let e := ol_seq_idx g (Z.of_nat (c_seq ex)) in
        match leg_between g (trip_fwd d t) (S (Z.to_nat e)) (ol_first g s) e (c_from en) (c_to ex) with
        | None => None
        | Some b => Some (Some {| ls_first := c_from en; ls_last := Some (c_to ex); ls_between := b |})
        end
    | _, _, _ => Some None
    end
  else Some None.

Fixpoint detect_inner_code (cases : list opt_case) (ign : list nat) (prev : list legsum) (i : nat) (sj : legsum)
  : option (nat * nat * nat) :=
  match prev with
  | [] => None
  | si :: r =>
      match run_cases cases ign si sj with
      | Some (k, n) => Some (Z.to_nat k, n, i)
      | None => detect_inner_code cases ign r (S i) sj
      end
  end.

(* result (case, stop, from, to) if a case was recorded; journeyStepIdx and the per-step vectors as the loop leaves them.
   None = an index ran past the end of forwardConnections *)
Fixpoint detect_run (g : opt_leg) (cases : list opt_case) (d : data) (ign : list nat) (js : list jstep) (idx : nat)
         (prev : list legsum) : option (option (nat * nat * nat * nat) * nat * list legsum) :=
  match js with
  | [] => Some (None, idx, prev)
  | j :: r =>
      match leg_summary_code g d j with
      | None => None
      | Some None => detect_run g cases d ign r (S idx) (prev ++ [empty_sum])
      | Some (Some sj) =>
          match detect_inner_code cases ign prev 0%nat sj with
          | Some (cs, n, i) => Some (Some (cs, n, i, idx), idx, prev ++ [sj])
          | None => detect_run g cases d ign r (S idx) (prev ++ [sj])
          end
      end
  end.

(* ---------------------------------------------------------------------------------------------- *)
(* part 2: one pass of the `while` loop as a statement tree                                          *)

(* the variables of optimizeJourney.  Those declared before the `while` keep their value from one pass to the next; those
   declared inside a pass are set again by the declaration, which is a statement of the pass tree: a declaration moved out
   of the pass is no longer in the tree, and the variable then carries its last value into the next pass. *)
Record omach := {
  o_journey : list jstep;
  o_used : list nat;
  o_ign : list nat;
  o_case : Z;
  o_started : bool;
  o_idx : Z;
  o_from : Z;
  o_to : Z;
  o_node : option nat;
  o_lastn : list (option nat);
  o_between : list (list nat);
  o_exit : option conn;
  o_conn : conn;
  o_t1 : nat;
  o_t2 : nat;
  o_s1 : Z;
  o_e1 : Z;
  o_s2 : Z;
  o_e2 : Z }.
Definition set_o_journey (x : list jstep) (m : omach) : omach :=
  {| o_journey := x; o_used := o_used m; o_ign := o_ign m; o_case := o_case m; o_started := o_started m; o_idx := o_idx m; o_from := o_from m; o_to := o_to m; o_node := o_node m; o_lastn := o_lastn m; o_between := o_between m; o_exit := o_exit m; o_conn := o_conn m; o_t1 := o_t1 m; o_t2 := o_t2 m; o_s1 := o_s1 m; o_e1 := o_e1 m; o_s2 := o_s2 m; o_e2 := o_e2 m |}.
Definition set_o_used (x : list nat) (m : omach) : omach :=
  {| o_journey := o_journey m; o_used := x; o_ign := o_ign m; o_case := o_case m; o_started := o_started m; o_idx := o_idx m; o_from := o_from m; o_to := o_to m; o_node := o_node m; o_lastn := o_lastn m; o_between := o_between m; o_exit := o_exit m; o_conn := o_conn m; o_t1 := o_t1 m; o_t2 := o_t2 m; o_s1 := o_s1 m; o_e1 := o_e1 m; o_s2 := o_s2 m; o_e2 := o_e2 m |}.
Definition set_o_ign (x : list nat) (m : omach) : omach :=
  {| o_journey := o_journey m; o_used := o_used m; o_ign := x; o_case := o_case m; o_started := o_started m; o_idx := o_idx m; o_from := o_from m; o_to := o_to m; o_node := o_node m; o_lastn := o_lastn m; o_between := o_between m; o_exit := o_exit m; o_conn := o_conn m; o_t1 := o_t1 m; o_t2 := o_t2 m; o_s1 := o_s1 m; o_e1 := o_e1 m; o_s2 := o_s2 m; o_e2 := o_e2 m |}.
Definition set_o_case (x : Z) (m : omach) : omach :=
  {| o_journey := o_journey m; o_used := o_used m; o_ign := o_ign m; o_case := x; o_started := o_started m; o_idx := o_idx m; o_from := o_from m; o_to := o_to m; o_node := o_node m; o_lastn := o_lastn m; o_between := o_between m; o_exit := o_exit m; o_conn := o_conn m; o_t1 := o_t1 m; o_t2 := o_t2 m; o_s1 := o_s1 m; o_e1 := o_e1 m; o_s2 := o_s2 m; o_e2 := o_e2 m |}.
Definition set_o_started (x : bool) (m : omach) : omach :=
  {| o_journey := o_journey m; o_used := o_used m; o_ign := o_ign m; o_case := o_case m; o_started := x; o_idx := o_idx m; o_from := o_from m; o_to := o_to m; o_node := o_node m; o_lastn := o_lastn m; o_between := o_between m; o_exit := o_exit m; o_conn := o_conn m; o_t1 := o_t1 m; o_t2 := o_t2 m; o_s1 := o_s1 m; o_e1 := o_e1 m; o_s2 := o_s2 m; o_e2 := o_e2 m |}.
Definition set_o_idx (x : Z) (m : omach) : omach :=
  {| o_journey := o_journey m; o_used := o_used m; o_ign := o_ign m; o_case := o_case m; o_started := o_started m; o_idx := x; o_from := o_from m; o_to := o_to m; o_node := o_node m; o_lastn := o_lastn m; o_between := o_between m; o_exit := o_exit m; o_conn := o_conn m; o_t1 := o_t1 m; o_t2 := o_t2 m; o_s1 := o_s1 m; o_e1 := o_e1 m; o_s2 := o_s2 m; o_e2 := o_e2 m |}.
Definition set_o_from (x : Z) (m : omach) : omach :=
  {| o_journey := o_journey m; o_used := o_used m; o_ign := o_ign m; o_case := o_case m; o_started := o_started m; o_idx := o_idx m; o_from := x; o_to := o_to m; o_node := o_node m; o_lastn := o_lastn m; o_between := o_between m; o_exit := o_exit m; o_conn := o_conn m; o_t1 := o_t1 m; o_t2 := o_t2 m; o_s1 := o_s1 m; o_e1 := o_e1 m; o_s2 := o_s2 m; o_e2 := o_e2 m |}.
Definition set_o_to (x : Z) (m : omach) : omach :=
  {| o_journey := o_journey m; o_used := o_used m; o_ign := o_ign m; o_case := o_case m; o_started := o_started m; o_idx := o_idx m; o_from := o_from m; o_to := x; o_node := o_node m; o_lastn := o_lastn m; o_between := o_between m; o_exit := o_exit m; o_conn := o_conn m; o_t1 := o_t1 m; o_t2 := o_t2 m; o_s1 := o_s1 m; o_e1 := o_e1 m; o_s2 := o_s2 m; o_e2 := o_e2 m |}.
Definition set_o_node (x : option nat) (m : omach) : omach :=
  {| o_journey := o_journey m; o_used := o_used m; o_ign := o_ign m; o_case := o_case m; o_started := o_started m; o_idx := o_idx m; o_from := o_from m; o_to := o_to m; o_node := x; o_lastn := o_lastn m; o_between := o_between m; o_exit := o_exit m; o_conn := o_conn m; o_t1 := o_t1 m; o_t2 := o_t2 m; o_s1 := o_s1 m; o_e1 := o_e1 m; o_s2 := o_s2 m; o_e2 := o_e2 m |}.
Definition set_o_lastn (x : list (option nat)) (m : omach) : omach :=
  {| o_journey := o_journey m; o_used := o_used m; o_ign := o_ign m; o_case := o_case m; o_started := o_started m; o_idx := o_idx m; o_from := o_from m; o_to := o_to m; o_node := o_node m; o_lastn := x; o_between := o_between m; o_exit := o_exit m; o_conn := o_conn m; o_t1 := o_t1 m; o_t2 := o_t2 m; o_s1 := o_s1 m; o_e1 := o_e1 m; o_s2 := o_s2 m; o_e2 := o_e2 m |}.
Definition set_o_between (x : list (list nat)) (m : omach) : omach :=
  {| o_journey := o_journey m; o_used := o_used m; o_ign := o_ign m; o_case := o_case m; o_started := o_started m; o_idx := o_idx m; o_from := o_from m; o_to := o_to m; o_node := o_node m; o_lastn := o_lastn m; o_between := x; o_exit := o_exit m; o_conn := o_conn m; o_t1 := o_t1 m; o_t2 := o_t2 m; o_s1 := o_s1 m; o_e1 := o_e1 m; o_s2 := o_s2 m; o_e2 := o_e2 m |}.
Definition set_o_exit (x : option conn) (m : omach) : omach :=
  {| o_journey := o_journey m; o_used := o_used m; o_ign := o_ign m; o_case := o_case m; o_started := o_started m; o_idx := o_idx m; o_from := o_from m; o_to := o_to m; o_node := o_node m; o_lastn := o_lastn m; o_between := o_between m; o_exit := x; o_conn := o_conn m; o_t1 := o_t1 m; o_t2 := o_t2 m; o_s1 := o_s1 m; o_e1 := o_e1 m; o_s2 := o_s2 m; o_e2 := o_e2 m |}.
Definition set_o_conn (x : conn) (m : omach) : omach :=
  {| o_journey := o_journey m; o_used := o_used m; o_ign := o_ign m; o_case := o_case m; o_started := o_started m; o_idx := o_idx m; o_from := o_from m; o_to := o_to m; o_node := o_node m; o_lastn := o_lastn m; o_between := o_between m; o_exit := o_exit m; o_conn := x; o_t1 := o_t1 m; o_t2 := o_t2 m; o_s1 := o_s1 m; o_e1 := o_e1 m; o_s2 := o_s2 m; o_e2 := o_e2 m |}.
Definition set_o_t1 (x : nat) (m : omach) : omach :=
  {| o_journey := o_journey m; o_used := o_used m; o_ign := o_ign m; o_case := o_case m; o_started := o_started m; o_idx := o_idx m; o_from := o_from m; o_to := o_to m; o_node := o_node m; o_lastn := o_lastn m; o_between := o_between m; o_exit := o_exit m; o_conn := o_conn m; o_t1 := x; o_t2 := o_t2 m; o_s1 := o_s1 m; o_e1 := o_e1 m; o_s2 := o_s2 m; o_e2 := o_e2 m |}.
Definition set_o_t2 (x : nat) (m : omach) : omach :=
  {| o_journey := o_journey m; o_used := o_used m; o_ign := o_ign m; o_case := o_case m; o_started := o_started m; o_idx := o_idx m; o_from := o_from m; o_to := o_to m; o_node := o_node m; o_lastn := o_lastn m; o_between := o_between m; o_exit := o_exit m; o_conn := o_conn m; o_t1 := o_t1 m; o_t2 := x; o_s1 := o_s1 m; o_e1 := o_e1 m; o_s2 := o_s2 m; o_e2 := o_e2 m |}.
Definition set_o_s1 (x : Z) (m : omach) : omach :=
  {| o_journey := o_journey m; o_used := o_used m; o_ign := o_ign m; o_case := o_case m; o_started := o_started m; o_idx := o_idx m; o_from := o_from m; o_to := o_to m; o_node := o_node m; o_lastn := o_lastn m; o_between := o_between m; o_exit := o_exit m; o_conn := o_conn m; o_t1 := o_t1 m; o_t2 := o_t2 m; o_s1 := x; o_e1 := o_e1 m; o_s2 := o_s2 m; o_e2 := o_e2 m |}.
Definition set_o_e1 (x : Z) (m : omach) : omach :=
  {| o_journey := o_journey m; o_used := o_used m; o_ign := o_ign m; o_case := o_case m; o_started := o_started m; o_idx := o_idx m; o_from := o_from m; o_to := o_to m; o_node := o_node m; o_lastn := o_lastn m; o_between := o_between m; o_exit := o_exit m; o_conn := o_conn m; o_t1 := o_t1 m; o_t2 := o_t2 m; o_s1 := o_s1 m; o_e1 := x; o_s2 := o_s2 m; o_e2 := o_e2 m |}.
Definition set_o_s2 (x : Z) (m : omach) : omach :=
  {| o_journey := o_journey m; o_used := o_used m; o_ign := o_ign m; o_case := o_case m; o_started := o_started m; o_idx := o_idx m; o_from := o_from m; o_to := o_to m; o_node := o_node m; o_lastn := o_lastn m; o_between := o_between m; o_exit := o_exit m; o_conn := o_conn m; o_t1 := o_t1 m; o_t2 := o_t2 m; o_s1 := o_s1 m; o_e1 := o_e1 m; o_s2 := x; o_e2 := o_e2 m |}.
Definition set_o_e2 (x : Z) (m : omach) : omach :=
  {| o_journey := o_journey m; o_used := o_used m; o_ign := o_ign m; o_case := o_case m; o_started := o_started m; o_idx := o_idx m; o_from := o_from m; o_to := o_to m; o_node := o_node m; o_lastn := o_lastn m; o_between := o_between m; o_exit := o_exit m; o_conn := o_conn m; o_t1 := o_t1 m; o_t2 := o_t2 m; o_s1 := o_s1 m; o_e1 := o_e1 m; o_s2 := o_s2 m; o_e2 := x |}.

Inductive ovar := VCase | VIdx | VFrom | VTo | VS1 | VE1 | VS2 | VE2.   (* the int variables; VS1.. = the block's 1st..4th int *)
Inductive ovec := WUsed | WIgn | WLastN | WBetween.                     (* the vectors *)
Inductive tsel := T1 | T2.                                              (* the block's 1st / 2nd `const Trip &` *)
Inductive cside := CEnter | CExit.                                      (* getFinalEnterConnection / getFinalExitConnection *)
Inductive csrc := FromConn | FromExit.                                  (* `connection` / `exitConnection.value()` *)

Definition zset (v : ovar) (x : Z) (m : omach) : omach :=
  match v with
  | VCase => set_o_case x m | VIdx => set_o_idx x m | VFrom => set_o_from x m | VTo => set_o_to x m
  | VS1 => set_o_s1 x m | VE1 => set_o_e1 x m | VS2 => set_o_s2 x m | VE2 => set_o_e2 x m
  end.
Definition wclear (w : ovec) (m : omach) : omach :=
  match w with
  | WUsed => set_o_used [] m | WIgn => set_o_ign [] m | WLastN => set_o_lastn [] m | WBetween => set_o_between [] m
  end.
Definition tset (t : tsel) (x : nat) (m : omach) : omach := match t with T1 => set_o_t1 x m | T2 => set_o_t2 x m end.
Definition tget (t : tsel) (m : omach) : nat := match t with T1 => o_t1 m | T2 => o_t2 m end.
Definition side_conn (s : cside) (j : jstep) : option conn := match s with CEnter => js_enter j | CExit => js_exit j end.
Definition side_set (s : cside) (j : jstep) (c : conn) : jstep := match s with CEnter => set_enter j c | CExit => set_exit j c end.
Definition src_conn (s : csrc) (m : omach) : option conn := match s with FromConn => Some (o_conn m) | FromExit => o_exit m end.
(* optimizationNode.value() *)
Definition o_nodev (m : omach) : nat := match o_node m with Some n => n | None => 0%nat end.
Definition o_step (m : omach) (i : Z) : jstep := nth_js (o_journey m) (Z.to_nat i).

(* the two per-step vectors as the detection's list of summaries, and back *)
Fixpoint mk_prev (l : list (option nat)) (b : list (list nat)) : list legsum :=
  match l, b with
  | x :: l', y :: b' => {| ls_first := 0%nat; ls_last := x; ls_between := y |} :: mk_prev l' b'
  | _, _ => []
  end.

Inductive oskel :=
| ODone
| OBreak                                                                   (* break;  (leaves the innermost range loop) *)
| OSetZ (v : ovar) (f : omach -> Z) (k : oskel)                            (* int v {f};  /  v = f; *)
| OSetSeq (v : ovar) (s : cside) (at_ : omach -> Z) (f : Z -> Z) (k : oskel)
                      (* int v = f(journey[at].getFinal<s>Connection().value().get().getSequenceInTrip()); *)
| OSetTrip (t : tsel) (at_ : omach -> Z) (k : oskel)                       (* const Trip & t = journey[at].getFinalTrip().value().get(); *)
| OSetStarted (f : omach -> bool) (k : oskel)
| OSetNode (f : omach -> option nat) (k : oskel)                           (* declaration of optimizationNode / .reset() *)
| OSetExit (f : omach -> option conn) (k : oskel)                          (* declaration of exitConnection / .reset() / = connection *)
| OClear (w : ovec) (k : oskel)                                            (* declaration of a vector / .clear() *)
| ODetect (k : oskel)                                                      (* for (auto & journeyStep : journey) {...} : part 1 *)
| OIf (g : omach -> bool) (th el : oskel) (k : oskel)
| ORange (t : tsel) (first : Z -> omach -> Z) (cont : Z -> Z -> omach -> bool) (body : oskel) (k : oskel)
                      (* for (size_t sequenceIdx = first(size); cont(sequenceIdx, size); ++sequenceIdx)
                         { auto connection = t.reverseConnections[sequenceIdx]; body } *)
| OPushIgn (f : omach -> nat) (k : oskel)                                  (* ignoreOptimizationNodes.push_back(f) *)
| OPushUsed (n : nat) (k : oskel)                                          (* usedOptimizationCases.push_back(n) *)
| OCopyWalk (dst src : omach -> Z) (k : oskel)                             (* journey[dst].copyTransferTimeDistance(journey[src]) *)
| OSetWalk (at_ w dist : omach -> Z) (k : oskel)                           (* journey[at].setTransferTimeDistance(w, dist) *)
| OSetConn (s : cside) (at_ : omach -> Z) (src : csrc) (k : oskel)         (* journey[at].setFinal<s>Connection(src) *)
| OErase (a b : omach -> Z) (k : oskel).                                   (* journey.erase(journey.begin() + a, journey.begin() + b) *)

(* how a run ends.  OStuck: a situation this reading of the source does not cover (the detection entered with
   optimizationCase other than -1, a `break` outside a loop); no model result corresponds to it *)
Inductive ores := OOk (m : omach) | OUB | OHang | OStuck.

(* for (sequenceIdx = idx; cont; ++sequenceIdx) { connection = tr[sequenceIdx]; step }.  Indices are computed in Z; a
   negative one reads element 0 (the model's natural-number convention; the source asserts that it does not happen);
   past the end is undefined behaviour.  `fuel` = size - first + 1 rounds suffice to reach the end of the list. *)
Fixpoint range_loop (tr : list conn) (cont : Z -> omach -> bool)
         (step : conn -> omach -> (omach -> ores) -> (omach -> ores) -> ores)
         (fuel : nat) (idx : Z) (m : omach) (kont : omach -> ores) : ores :=
  match fuel with
  | O => OStuck
  | S f =>
      if cont idx m then
        match nth_error tr (Z.to_nat idx) with
        | None => OUB
        | Some c => step c m (fun m' => range_loop tr cont step f (idx + 1) m' kont) kont
        end
      else kont m
  end.

Section Run.
  Variable d : data.
  Variable leg : opt_leg.
  Variable cases : list opt_case.

  Definition detect_stmt (m : omach) (kont : omach -> ores) : ores :=
    if o_case m =? -1 then
      match detect_run leg cases d (o_ign m) (o_journey m) (Z.to_nat (o_idx m)) (mk_prev (o_lastn m) (o_between m)) with
      | None => OUB
      | Some (res, idx', prev') =>
          let m1 := set_o_between (map ls_between prev') (set_o_lastn (map ls_last prev') (set_o_idx (Z.of_nat idx') m)) in
          match res with
          | None => kont m1
          | Some (cs, n, i, j) =>
              kont (set_o_to (Z.of_nat j) (set_o_from (Z.of_nat i) (set_o_node (Some n) (set_o_case (Z.of_nat cs) m1))))
          end
      end
    else OStuck.

  Fixpoint orun (s : oskel) (m : omach) (kont kbrk : omach -> ores) {struct s} : ores :=
    match s with
    | ODone => kont m
    | OBreak => kbrk m
    | OSetZ v f k => orun k (zset v (f m) m) kont kbrk
    | OSetSeq v sd at_ f k =>
        match side_conn sd (o_step m (at_ m)) with
        | None => OUB
        | Some c => orun k (zset v (f (Z.of_nat (c_seq c))) m) kont kbrk
        end
    | OSetTrip t at_ k =>
        match js_trip (o_step m (at_ m)) with
        | None => OUB
        | Some tr => orun k (tset t tr m) kont kbrk
        end
    | OSetStarted f k => orun k (set_o_started (f m) m) kont kbrk
    | OSetNode f k => orun k (set_o_node (f m) m) kont kbrk
    | OSetExit f k => orun k (set_o_exit (f m) m) kont kbrk
    | OClear w k => orun k (wclear w m) kont kbrk
    | ODetect k => detect_stmt m (fun m' => orun k m' kont kbrk)
    | OIf g th el k =>
        let kk := fun m' => orun k m' kont kbrk in
        if g m then orun th m kk kbrk else orun el m kk kbrk
    | ORange t first cont body k =>
        let tr := trip_rev d (tget t m) in
        let sz := Z.of_nat (length tr) in
        range_loop tr (fun idx m' => cont idx sz m')
                   (fun c m' kc kb => orun body (set_o_conn c m') kc kb)
                   (Z.to_nat (sz - first sz m + 1)) (first sz m) m
                   (fun m' => orun k (set_o_conn (o_conn m) m') kont kbrk)   (* `connection` ends with the loop *)
    | OPushIgn f k => orun k (set_o_ign (o_ign m ++ [f m]) m) kont kbrk
    | OPushUsed n k => orun k (set_o_used (o_used m ++ [n]) m) kont kbrk
    | OCopyWalk dst src k =>
        let w := o_step m (src m) in
        orun k (set_o_journey (set_nth (o_journey m) (Z.to_nat (dst m)) (fun j => set_walk j (js_walk w) (js_dist w))) m) kont kbrk
    | OSetWalk at_ w dist k =>
        orun k (set_o_journey (set_nth (o_journey m) (Z.to_nat (at_ m)) (fun j => set_walk j (w m) (dist m))) m) kont kbrk
    | OSetConn sd at_ src k =>
        match src_conn src m with
        | None => OUB
        | Some c => orun k (set_o_journey (set_nth (o_journey m) (Z.to_nat (at_ m)) (fun j => side_set sd j c)) m) kont kbrk
        end
    | OErase a b k => orun k (set_o_journey (erase_range (o_journey m) (Z.to_nat (a m)) (Z.to_nat (b m))) m) kont kbrk
    end.

  (* while (cond) { pass } : at most `fuel` passes (OHang beyond) *)
  Fixpoint owhile (cond : omach -> bool) (pass : oskel) (fuel : nat) (m : omach) : ores :=
    match fuel with
    | O => if cond m then OHang else OOk m
    | S f => if cond m then orun pass m (fun m' => owhile cond pass f m') (fun _ => OStuck) else OOk m
    end.

  (* the statements before the loop, then the loop; what is returned is usedOptimizationCases, and the journey is changed
     in place *)
  Definition orun_function (before : oskel) (cond : omach -> bool) (pass : oskel) (fuel : nat) (m : omach) : ores :=
    orun before m (fun m' => owhile cond pass fuel m') (fun _ => OStuck).
End Run.

Definition out_of (r : ores) : option opt_result :=
  match r with
  | OOk m => Some (OptDone (o_journey m) (o_used m))
  | OUB => Some OptUB
  | OHang => Some OptHang
  | OStuck => None
  end.
