(* Spec.v — what the properties demand, as executable (boolean / computable) definitions over the
   dataset, independent of the algorithm: domain predicates, itinerary validity (C01), limits (C02),
   totals (C06), reference optima and reachability maps (C03-C05, C08, C09), reason facts (C07).
   The same functions are extracted and run on the implementation's outputs (the failing-input search). *)
From TrV Require Export Calc.
Local Open Scope Z_scope.

(* ---------------------------------------------------------------------------------------------- *)
(* domain predicates (the quantifier text of C01-C12)                                              *)

Definition CLOCK_MAX : Z := 115200.       (* 32 h *)

Fixpoint times_ok (l : list stoptime) : bool :=
  match l with
  | [] => true
  | s :: r => (0 <=? st_arr s) && (st_arr s <=? st_dep s) && (st_dep s <? CLOCK_MAX) &&
              match r with
              | [] => true
              | s' :: _ => (st_dep s <=? st_arr s')
              end && times_ok r
  end.

Fixpoint nodup_nat (l : list nat) : bool :=
  match l with [] => true | x :: r => negb (memb x r) && nodup_nat r end.

Definition rows_ok (d : data) (rows : list fprow) : bool :=
  forallb (fun r => memb (fp_node r) (d_nodes d) && (0 <=? fp_time r) && (fp_time r <? 32768) && (0 <=? fp_dist r)) rows.

Definition has_row (rows : list fprow) (n : nat) (w : Z) : bool :=
  existsb (fun r => Nat.eqb (fp_node r) n && (fp_time r =? w)) rows.

(* every stop lists itself at 0 s in both directions; reverse lists are the transpose of the forward
   ones, possibly with additional (n,0,_) self rows *)
Definition footpaths_ok (d : data) : bool :=
  forallb (fun n =>
    rows_ok d (fp_of d n) && rows_ok d (rfp_of d n) &&
    has_row (fp_of d n) n 0 && has_row (rfp_of d n) n 0 &&
    forallb (fun r => has_row (rfp_of d (fp_node r)) n (fp_time r)) (fp_of d n) &&
    forallb (fun r => has_row (fp_of d (fp_node r)) n (fp_time r)) (rfp_of d n) &&
    forallb (fun r => negb (Nat.eqb (fp_node r) n) || (fp_time r =? 0)) (fp_of d n) &&
    forallb (fun r => negb (Nat.eqb (fp_node r) n) || (fp_time r =? 0)) (rfp_of d n)) (d_nodes d).

Definition wf_data_b (d : data) : bool :=
  nodup_nat (d_nodes d) && nodup_nat (map t_id (d_trips d)) && nodup_nat (map p_id (d_paths d)) &&
  nodup_nat (map l_id (d_lines d)) && nodup_nat (map s_id (d_scenarios d)) &&
  nodup_nat (map fst (d_fp d)) && nodup_nat (map fst (d_rfp d)) &&
  footpaths_ok d &&
  forallb (fun p => is_some (find_line d (p_line p)) && forallb (fun n => memb n (d_nodes d)) (p_nodes p)
                    && forallb (fun x => -1 <=? x) (p_dists p)) (d_paths d) &&
  forallb (fun t => match find_path d (t_path t) with
                    | Some p => Nat.eqb (length (p_nodes p)) (length (t_times t)) && Nat.leb 2 (length (t_times t))
                    | None => false
                    end && times_ok (t_times t)) (d_trips d).

Definition pos_hops_b (d : data) : bool := forallb (fun c => c_dep c <? c_arr c) (all_conns d).
Definition uniform_wait_b (d : data) : bool := forallb (fun c => c_minw c <? 0) (all_conns d).

Definition wf_tables_b (d : data) (p : params) (acc egr : list fprow) : bool :=
  rows_ok d acc && rows_ok d egr && nodup_nat (map fp_node acc) && nodup_nat (map fp_node egr) &&
  forallb (fun r => fp_time r <=? q_maxacc p) acc && forallb (fun r => fp_time r <=? q_maxegr p) egr.

Definition wf_params_b (p : params) : bool :=
  (0 <=? q_time p) && (q_time p <? CLOCK_MAX) && (0 <=? q_minw p) && (0 <? q_maxtt p) && (0 <? q_maxtr p) &&
  (0 <? q_maxacc p) && (0 <? q_maxegr p) && ((q_maxfw p =? -1) || (0 <? q_maxfw p)).   (* normalised values only *)

(* the minimum waiting time in force for a departure: the request's value, not its 16-bit truncation *)
Definition minw_true (p : params) (c : conn) : Z := if c_minw c >=? 0 then c_minw c else q_minw p.

(* trips a query may ride: enabled by the scenario and not on an excepted line *)
Definition trip_admitted (d : data) (s : scenario) (p : params) (t : trip) : bool :=
  trip_enabled d s t && negb (memb (trip_line d t) (q_except_lines p)).

(* ---------------------------------------------------------------------------------------------- *)
(* C01: itinerary validity                                                                         *)

Record leg := { lg_trip : nat; lg_bseq : nat; lg_bnode : nat; lg_bdep : Z;
                lg_useq : nat; lg_unode : nat; lg_uarr : Z;
                lg_walk : option (Z * Z) (* transfer walk after the leg: travel time, distance *) }.

(* step list -> access walk (travel, dep), legs, egress walk travel; None when the shape is wrong *)
Fixpoint parse_legs (l : list step) : option (list leg * Z) :=
  match l with
  | SBoard t s s2 n dep _ :: SUnboard t' s' s2' m arr _ _ :: r =>
      if Nat.eqb t t' && Nat.eqb s s2 && Nat.eqb s2' (S s') then
        match r with
        | SWalk 2 w dist _ _ _ :: r2 =>
            match parse_legs r2 with
            | Some (lg, e) =>
                match lg with
                | [] => None      (* a transfer walk must be followed by a ride *)
                | _ => Some ({| lg_trip := t; lg_bseq := s; lg_bnode := n; lg_bdep := dep; lg_useq := s';
                                lg_unode := m; lg_uarr := arr; lg_walk := Some (w, dist) |} :: lg, e)
                end
            | None => None
            end
        | [SWalk 1 w _ _ _ _] =>
            Some ([{| lg_trip := t; lg_bseq := s; lg_bnode := n; lg_bdep := dep; lg_useq := s';
                      lg_unode := m; lg_uarr := arr; lg_walk := None |}], w)
        | _ => None
        end
      else None
  | _ => None
  end.

Definition parse_route (r : route) : option (Z * Z * list leg * Z) :=
  match rt_steps r with
  | SWalk 0 w _ dep _ _ :: rest =>
      match parse_legs rest with
      | Some (lg, e) => Some (w, dep, lg, e)
      | None => None
      end
  | _ => None
  end.

Definition find_conn (d : data) (t : nat) (s : nat) : option conn :=
  match find_trip d t with
  | Some tr => find (fun c => Nat.eqb (c_seq c) s) (trip_conns d tr)
  | None => None
  end.

(* one ride: boards connection bseq at bnode/bdep with canBoard, alights connection useq >= bseq at
   unode/uarr with canUnboard, on an admitted trip *)
Definition leg_ok (d : data) (s : scenario) (p : params) (l : leg) : bool :=
  match find_trip d (lg_trip l), find_conn d (lg_trip l) (lg_bseq l), find_conn d (lg_trip l) (lg_useq l) with
  | Some tr, Some b, Some e =>
      trip_admitted d s p tr &&
      Nat.eqb (c_from b) (lg_bnode l) && (c_dep b =? lg_bdep l) && c_cb b &&
      Nat.eqb (c_to e) (lg_unode l) && (c_arr e =? lg_uarr l) && c_cu e &&
      Nat.leb (lg_bseq l) (lg_useq l)
  | _, _, _ => false
  end.

Definition leg_minw (d : data) (p : params) (l : leg) : Z :=
  match find_conn d (lg_trip l) (lg_bseq l) with Some b => minw_true p b | None => q_minw p end.

(* chain: each boarding no earlier than ready + minimum waiting; transfer walks are footpath rows *)
Fixpoint chain_ok (d : data) (p : params) (ready : Z) (l : list leg) : bool :=
  match l with
  | [] => true
  | x :: r =>
      (ready + leg_minw d p x <=? lg_bdep x) &&
      match lg_walk x, r with
      | Some (w, _), y :: _ =>
          (if Nat.eqb (lg_unode x) (lg_bnode y) then (w =? 0)
           else has_row (fp_of d (lg_unode x)) (lg_bnode y) w) &&
          (w <=? q_maxtr p) && chain_ok d p (lg_uarr x + w) r
      | None, [] => true
      | _, _ => false
      end
  end.

Definition last_leg (l : list leg) : option leg := last (map Some l) None.

Definition valid_itinerary_b (d : data) (s : scenario) (p : params) (acc egr : list fprow) (r : route) : bool :=
  match parse_route r with
  | Some (aw, adep, legs, ew) =>
      match legs, last_leg legs with
      | first :: _, Some lastl =>
          has_row acc (lg_bnode first) aw &&
          has_row egr (lg_unode lastl) ew &&
          forallb (leg_ok d s p) legs &&
          chain_ok d p (adep + aw) legs
      | _, _ => false
      end
  | None => false
  end.

(* ---------------------------------------------------------------------------------------------- *)
(* C02: limits                                                                                     *)

Definition limits_ok_b (d : data) (s : scenario) (p : params) (r : route) : bool :=
  match parse_route r with
  | Some (aw, adep, legs, ew) =>
      (if q_fwd p then (q_time p <=? rt_dep r) && (rt_arr r - q_time p <=? q_maxtt p)
       else (rt_arr r <=? q_time p) && (q_time p - rt_dep r <=? q_maxtt p)) &&
      (aw <=? q_maxacc p) && (ew <=? q_maxegr p) &&
      forallb (fun l => match lg_walk l with Some (w, _) => w <=? q_maxtr p | None => true end) legs &&
      match legs with
      | first :: _ =>
          if q_fwd p && (q_maxfw p >? 0) then lg_bdep first - (q_time p + aw) <=? q_maxfw p else true
      | [] => false
      end &&
      forallb (fun l => match find_trip d (lg_trip l) with
                        | Some tr => trip_admitted d s p tr
                        | None => false
                        end) legs
  | None => false
  end.

(* ---------------------------------------------------------------------------------------------- *)
(* C06: totals are the sums over the steps                                                          *)

Record sums := { sm_walk : Z; sm_trwalk : Z; sm_ivt : Z; sm_wait : Z; sm_trwait : Z; sm_boards : Z;
                 sm_acc : Z; sm_egr : Z; sm_fwait : Z }.

(* time chaining: prev = arrival clock of the previous step (route departure before the access walk) *)
Fixpoint steps_chain (d : data) (p : params) (prev : Z) (bdep : Z) (first : bool) (l : list step) (a : sums)
  : option sums :=
  match l with
  | [] => Some a
  | SWalk k w _ dep arr rdy :: r =>
      let nextw := match r with
                   | SBoard t s _ _ _ _ :: _ =>
                       match find_conn d t s with Some b => minw_eff p b | None => 0 end
                   | _ => 0
                   end in
      if (dep =? prev) && (arr =? dep + w) &&
         (if Nat.eqb k 1 then true else rdy =? arr + nextw)
      then steps_chain d p arr bdep first r
             {| sm_walk := sm_walk a + w; sm_trwalk := (if Nat.eqb k 2 then sm_trwalk a + w else sm_trwalk a);
                sm_ivt := sm_ivt a; sm_wait := sm_wait a; sm_trwait := sm_trwait a; sm_boards := sm_boards a;
                sm_acc := (if Nat.eqb k 0 then w else sm_acc a); sm_egr := (if Nat.eqb k 1 then w else sm_egr a);
                sm_fwait := sm_fwait a |}
      else None
  | SBoard _ _ _ _ dep wait :: r =>
      if wait =? dep - prev
      then steps_chain d p prev dep false r
             {| sm_walk := sm_walk a; sm_trwalk := sm_trwalk a; sm_ivt := sm_ivt a; sm_wait := sm_wait a + wait;
                sm_trwait := (if first then sm_trwait a else sm_trwait a + wait); sm_boards := sm_boards a + 1;
                sm_acc := sm_acc a; sm_egr := sm_egr a; sm_fwait := (if first then wait else sm_fwait a) |}
      else None
  | SUnboard _ _ _ _ arr ivt _ :: r =>
      if ivt =? arr - bdep
      then steps_chain d p arr bdep first r
             {| sm_walk := sm_walk a; sm_trwalk := sm_trwalk a; sm_ivt := sm_ivt a + ivt; sm_wait := sm_wait a;
                sm_trwait := sm_trwait a; sm_boards := sm_boards a; sm_acc := sm_acc a; sm_egr := sm_egr a;
                sm_fwait := sm_fwait a |}
      else None
  end.

Definition rides_transferable (d : data) (r : route) : bool :=
  existsb (fun s => match s with SBoard t _ _ _ _ _ => is_transferable_trip d t | _ => false end) (rt_steps r).

Definition totals_ok_b (d : data) (p : params) (r : route) : bool :=
  match steps_chain d p (rt_dep r) 0 true (rt_steps r)
          {| sm_walk := 0; sm_trwalk := 0; sm_ivt := 0; sm_wait := 0; sm_trwait := 0; sm_boards := 0;
             sm_acc := 0; sm_egr := 0; sm_fwait := 0 |} with
  | None => false
  | Some a =>
      let last_arr := match last (map Some (rt_steps r)) None with
                      | Some (SWalk _ _ _ _ arr _) => arr | _ => -1 end in
      (rt_arr r =? last_arr) &&
      (rt_ttt r =? rt_arr r - rt_dep r) &&
      (rt_ttt r =? sm_walk a + sm_ivt a + sm_wait a) &&
      (rt_twait r =? rt_fwait r + rt_trwait r) &&
      (rt_twait r =? sm_wait a) && (rt_fwait r =? sm_fwait a) && (rt_trwait r =? sm_trwait a) &&
      (rt_tivt r =? sm_ivt a) && (rt_acc r =? sm_acc a) && (rt_egr r =? sm_egr a) &&
      (if rides_transferable d r then true
       else (rt_tnt r =? sm_walk a) && (rt_trwalk r =? sm_trwalk a) &&
            (rt_nboard r =? sm_boards a) && (rt_ntransf r =? sm_boards a - 1))
  end.

(* ---------------------------------------------------------------------------------------------- *)
(* reference optima: label-correcting relaxation to a fixpoint over admitted trips                  *)

Definition INF : Z := MAX_INT.

Definition admitted_conns (d : data) (s : scenario) (p : params) : list (list conn) :=
  map (trip_conns d) (filter (trip_admitted d s p) (d_trips d)).

(* forward: ready n = earliest time the traveller can stand at n; veh n = earliest vehicle arrival at n *)
Definition relax_trip_fwd (d : data) (p : params) (cs : list conn) (st : (nat -> Z) * (nat -> Z)) : (nat -> Z) * (nat -> Z) :=
  (* walk the trip in order; `on` = whether the traveller can be on board *)
  let '(ready, veh, _) :=
    fold_left (fun (acc : (nat -> Z) * (nat -> Z) * bool) c =>
      let '(ready, veh, on) := acc in
      let on1 := on || (c_cb c && (ready (c_from c) + minw_true p c <=? c_dep c) && (ready (c_from c) <? INF)) in
      if on1 && c_cu c then
        let veh1 := if c_arr c <? veh (c_to c) then upd veh (c_to c) (c_arr c) else veh in
        let ready1 := fold_left (fun rd r =>
                         if (fp_time r <=? q_maxtr p) && (c_arr c + fp_time r <? rd (fp_node r))
                         then upd rd (fp_node r) (c_arr c + fp_time r) else rd) (fp_of d (c_to c)) ready in
        (ready1, veh1, on1)
      else (ready, veh, on1)) cs (fst st, snd st, false) in
  (ready, veh).

Fixpoint iterate {A} (n : nat) (f : A -> A) (x : A) : A :=
  match n with O => x | S n' => iterate n' f (f x) end.

Definition ref_rounds (d : data) : nat := S (S (length (d_nodes d) + length (d_trips d))).

Definition ref_fwd (d : data) (s : scenario) (p : params) (acc : list fprow) : (nat -> Z) * (nat -> Z) :=
  let ready0 := fold_left (fun m r => if q_time p + fp_time r <? m (fp_node r)
                                      then upd m (fp_node r) (q_time p + fp_time r) else m) acc (fun _ => INF) in
  let trips := admitted_conns d s p in
  iterate (ref_rounds d) (fun st => fold_left (fun st cs => relax_trip_fwd d p cs st) trips st) (ready0, fun _ => INF).

(* C03: minimum over egress rows of vehicle arrival + egress walk, within max_travel_time *)
Definition earliest_arrival_ref (d : data) (s : scenario) (p : params) (acc egr : list fprow) : option Z :=
  let veh := snd (ref_fwd d s p acc) in
  fold_left (fun best r =>
    if veh (fp_node r) <? INF then
      let t := veh (fp_node r) + fp_time r in
      if (t - q_time p <=? q_maxtt p) && match best with Some b => t <? b | None => true end then Some t else best
    else best) egr None.

(* C08: the departure accessibility map *)
Definition reach_map_fwd_ref (d : data) (s : scenario) (p : params) (acc : list fprow) : list (nat * Z) :=
  let veh := snd (ref_fwd d s p acc) in
  flat_map (fun n => if (veh n <? INF) && (veh n - q_time p <=? q_maxtt p) then [(n, veh n)] else []) (d_nodes d).

(* reverse: lat n = latest time the traveller may be ready (standing) at n and still arrive by A;
   brd n = latest (boarding departure - minimum waiting) over vehicles boardable at n *)
Definition NEG : Z := - MAX_INT.   (* "no label": below every clock value, including negative ready times next to 0:00 *)

Definition relax_trip_rev (d : data) (p : params) (cs : list conn) (st : (nat -> Z) * (nat -> Z)) : (nat -> Z) * (nat -> Z) :=
  let '(lat, brd, _) :=
    fold_right (fun c (acc : (nat -> Z) * (nat -> Z) * bool) =>
      let '(lat, brd, on) := acc in
      (* can the traveller leave the vehicle at c's arrival stop in time? *)
      let on1 := on || (c_cu c && (c_arr c <=? lat (c_to c))) in
      if on1 && c_cb c then
        let v := c_dep c - minw_true p c in
        let brd1 := if v >? brd (c_from c) then upd brd (c_from c) v else brd in
        (* reverse footpaths: transpose of fp — every stop m with a row (from c, w) in fp m *)
        let lat1 := fold_left (fun lt m =>
                        fold_left (fun lt r =>
                          if Nat.eqb (fp_node r) (c_from c) && (fp_time r <=? q_maxtr p) && (v - fp_time r >? lt m)
                          then upd lt m (v - fp_time r) else lt) (fp_of d m) lt) (d_nodes d) lat in
        (lat1, brd1, on1)
      else (lat, brd, on1)) (fst st, snd st, false) cs in
  (lat, brd).

Definition ref_rev (d : data) (s : scenario) (p : params) (arr : Z) (egr : list fprow) : (nat -> Z) * (nat -> Z) :=
  let lat0 := fold_left (fun m r => if arr - fp_time r >? m (fp_node r)
                                    then upd m (fp_node r) (arr - fp_time r) else m) egr (fun _ => NEG) in
  let trips := admitted_conns d s p in
  iterate (ref_rounds d) (fun st => fold_left (fun st cs => relax_trip_rev d p cs st) trips st) (lat0, fun _ => NEG).

(* C04 / C05: maximum over access rows of brd - access walk, not before `lo`, within max_travel_time of
   the requested time `span_from` *)
Definition latest_departure_ref (d : data) (s : scenario) (p : params) (arr : Z) (lo : Z) (span_from : Z)
           (acc egr : list fprow) : option Z :=
  let brd := snd (ref_rev d s p arr egr) in
  fold_left (fun best r =>
    if brd (fp_node r) >? NEG then
      let t := brd (fp_node r) - fp_time r in
      if (t >=? lo) && (span_from - t <=? q_maxtt p) && match best with Some b => t >? b | None => true end
      then Some t else best
    else best) acc None.

(* C09: the arrival accessibility map: stop, latest ready time *)
Definition reach_map_rev_ref (d : data) (s : scenario) (p : params) (egr : list fprow) : list (nat * Z) :=
  let brd := snd (ref_rev d s p (q_time p) egr) in
  flat_map (fun n => if (brd n >? NEG) && (q_time p - brd n <=? q_maxtt p) then [(n, brd n)] else []) (d_nodes d).

(* ---------------------------------------------------------------------------------------------- *)
(* C07: the facts behind the reasons                                                               *)

(* forward: some admitted vehicle leaves an access stop when the traveller is ready, within the limits *)
Definition service_from_origin_b (d : data) (s : scenario) (p : params) (acc : list fprow) : bool :=
  existsb (fun cs => existsb (fun c =>
    match row_of (c_from c) acc with
    | Some r =>
        (q_time p + fp_time r + minw_eff p c <=? c_dep c) && (c_dep c - q_time p <=? q_maxtt p) &&
        ((q_maxfw p <=? 0) || (c_dep c - (q_time p + fp_time r) <=? q_maxfw p))
    | None => false
    end) cs) (admitted_conns d s p).

(* reverse: some admitted vehicle reaches an egress stop in time, within the limits *)
Definition service_to_destination_b (d : data) (s : scenario) (p : params) (egr : list fprow) (all_nodes : bool) : bool :=
  existsb (fun cs => existsb (fun c =>
    match row_of (c_to c) egr with
    | Some r => (c_arr c <=? q_time p - fp_time r) && (q_time p - c_arr c <=? q_maxtt p)
    | None => false
    end) cs) (admitted_conns d s p).

(* ---------------------------------------------------------------------------------------------- *)
(* shapes and transformations used by the property statements                                       *)

Definition is_walk (j : jstep) : bool := negb (is_some (js_enter j)) && negb (is_some (js_exit j)).

(* a leg whose connections belong to one trip and whose boarding connection has the minimum waiting
   value the data gives for that (trip, sequence) *)
Definition leg_in_data (d : data) (j : jstep) : bool :=
  match js_enter j, js_exit j, js_trip j with
  | Some en, Some ex, Some t =>
      Nat.eqb (c_trip en) t && Nat.eqb (c_trip ex) t &&
      match find_conn d t (c_seq en) with Some b => c_minw b =? c_minw en | None => false end
  | _, _, _ => false
  end.

(* access walk . legs+ . egress walk *)
Definition shape_ok (d : data) (js : list jstep) : bool :=
  match js with
  | a :: rest =>
      is_walk a &&
      match rev rest with
      | e :: legs_rev => is_walk e && nonempty legs_rev && forallb (leg_in_data d) legs_rev
      | [] => false
      end
  | [] => false
  end.

(* C11: physical removal of the trips a scenario excludes, and the all-inclusive scenario on the copy *)
Definition delete_excluded (d : data) (s : scenario) : data :=
  {| d_nodes := d_nodes d; d_fp := d_fp d; d_rfp := d_rfp d; d_lines := d_lines d; d_paths := d_paths d;
     d_trips := filter (trip_enabled d s) (d_trips d); d_scenarios := d_scenarios d |}.
Definition all_inclusive (d : data) (s : scenario) : scenario :=
  {| s_id := s_id s; s_services := s_services s;
     s_onlyLines := []; s_onlyModes := []; s_onlyAgencies := []; s_onlyNodes := [];
     s_exceptLines := []; s_exceptModes := []; s_exceptAgencies := []; s_exceptNodes := [] |}.

(* ---------------------------------------------------------------------------------------------- *)
(* validity at the level of the journey deque (access walk . legs . egress walk), the form in which
   the scans hand an itinerary to optimizeJourney and to the emission loop                          *)

Definition conn_eqb_full (a b : conn) : bool :=
  Nat.eqb (c_trip a) (c_trip b) && Nat.eqb (c_seq a) (c_seq b) && Nat.eqb (c_from a) (c_from b) &&
  Nat.eqb (c_to a) (c_to b) && (c_dep a =? c_dep b) && (c_arr a =? c_arr b) &&
  Bool.eqb (c_cb a) (c_cb b) && Bool.eqb (c_cu a) (c_cu b) && (c_minw a =? c_minw b).

(* c is the connection the data gives for (trip c, seq c) *)
Definition conn_in_data (d : data) (c : conn) : bool :=
  match find_conn d (c_trip c) (c_seq c) with Some c' => conn_eqb_full c c' | None => false end.

Definition jleg_ok (d : data) (s : scenario) (p : params) (j : jstep) : bool :=
  match js_enter j, js_exit j, js_trip j with
  | Some b, Some e, Some t =>
      Nat.eqb (c_trip b) t && Nat.eqb (c_trip e) t && conn_in_data d b && conn_in_data d e &&
      match find_trip d t with Some tr => trip_admitted d s p tr | None => false end &&
      c_cb b && c_cu e && Nat.leb (c_seq b) (c_seq e)
  | _, _, _ => false
  end.

(* ready = the time the traveller stands at the boarding stop of the first leg of `legs` *)
Fixpoint jchain_ok (d : data) (p : params) (ready : Z) (legs : list jstep) : bool :=
  match legs with
  | [] => true
  | x :: r =>
      match js_enter x, js_exit x with
      | Some b, Some e =>
          (ready + minw_true p b <=? c_dep b) &&
          match r with
          | [] => true
          | y :: _ =>
              match js_enter y with
              | Some b' =>
                  (if Nat.eqb (c_to e) (c_from b') then js_walk x =? 0
                   else has_row (fp_of d (c_to e)) (c_from b') (js_walk x)) &&
                  (js_walk x <=? q_maxtr p) && jchain_ok d p (c_arr e + js_walk x) r
              | None => false
              end
          end
      | _, _ => false
      end
  end.

Definition first_board (legs : list jstep) : option conn := match legs with x :: _ => js_enter x | [] => None end.
Definition last_alight (legs : list jstep) : option conn := match rev legs with x :: _ => js_exit x | [] => None end.

Definition journey_ok_b (d : data) (s : scenario) (p : params) (acc egr : list fprow) (bestdep : Z) (js : list jstep) : bool :=
  match js with
  | a :: rest =>
      is_walk a &&
      match rev rest with
      | e :: legs_rev =>
          let legs := rev legs_rev in
          is_walk e && forallb (jleg_ok d s p) legs &&
          match first_board legs, last_alight legs with
          | Some b1, Some el =>
              has_row acc (c_from b1) (js_walk a) && has_row egr (c_to el) (js_walk e) &&
              jchain_ok d p (bestdep + js_walk a) legs
          | _, _ => false
          end
      | [] => false
      end
  | [] => false
  end.
