(* Params.v — parameter factories and request handlers (C18).
   Mirrors connection_scan_algorithm/src/parameters/{common,route,accessibility}_parameters.cpp and the
   exception -> HTTP mapping of transit_routing_http_server.cpp:86-100, 323-366, 395-437, 466-500, and the
   /updateCache name handling (:146-278).  Strings are lists of character codes. *)
From TrV Require Export Server.
Local Open Scope Z_scope.

Definition str := list nat.

(* ---- std::stoi (strtol, base 10) --------------------------------------------------------------- *)
Definition is_space (c : nat) : bool :=
  Nat.eqb c 32 || (Nat.leb 9 c && Nat.leb c 13).       (* ' ', \t \n \v \f \r *)
Definition is_digit (c : nat) : bool := Nat.leb 48 c && Nat.leb c 57.
Definition digit_val (c : nat) : Z := Z.of_nat (c - 48).

Fixpoint skip_spaces (s : str) : str :=
  match s with c :: r => if is_space c then skip_spaces r else s | [] => [] end.

(* leading digits: value and whether at least one digit was seen *)
Fixpoint digits (s : str) (acc : Z) (seen : bool) : Z * bool :=
  match s with
  | c :: r => if is_digit c then digits r (acc * 10 + digit_val c) true else (acc, seen)
  | [] => (acc, seen)
  end.

Definition INT_MIN : Z := -2147483648.

(* None = std::invalid_argument (no digits) or std::out_of_range: CommonParameters::getIntegerValue turns
   both into INVALID_NUMERICAL_DATA *)
Definition stoi (s : str) : option Z :=
  let s1 := skip_spaces s in
  let '(neg, s2) := match s1 with
                    | 45%nat :: r => (true, r)      (* '-' *)
                    | 43%nat :: r => (false, r)     (* '+' *)
                    | _ => (false, s1)
                    end in
  let '(v, seen) := digits s2 0 false in
  if seen then
    let x := if neg then - v else v in
    if (INT_MIN <=? x) && (x <=? MAX_INT) then Some x else None
  else None.

(* ---- std::stod acceptance: does the conversion succeed (no exception)? -------------------------- *)
Definition lower (c : nat) : nat := if Nat.leb 65 c && Nat.leb c 90 then (c + 32)%nat else c.
Fixpoint has_prefix_ci (pre s : str) : bool :=
  match pre, s with
  | [], _ => true
  | p :: pr, c :: r => Nat.eqb p (lower c) && has_prefix_ci pr r
  | _ :: _, [] => false
  end.
Definition is_hex (c : nat) : bool := is_digit c || (let l := lower c in Nat.leb 97 l && Nat.leb l 102).

(* digits of the mantissa: returns (number of significant digits after leading zeros, all-zero?, digits seen, rest) *)
Fixpoint mant (s : str) (sig : Z) (nonzero : bool) (seen : bool) : Z * bool * bool * str :=
  match s with
  | c :: r => if is_digit c
              then mant r (if nonzero || negb (Nat.eqb c 48) then sig + 1 else sig) (nonzero || negb (Nat.eqb c 48)) true
              else (sig, nonzero, seen, s)
  | [] => (sig, nonzero, seen, [])
  end.

(* decimal floating literal: [digits][.digits][(e|E)[sign]digits]; out-of-range when the decimal magnitude
   is clearly beyond double (overflow above ~1.8e308, underflow below ~2.2e-308: strtod sets ERANGE and
   std::stod throws std::out_of_range).  Magnitudes within 10 orders of the limits are not decided by this
   model (returned as accepted) and are kept out of the generated inputs. *)
Definition stod_ok (s : str) : bool :=
  let s1 := skip_spaces s in
  let s2 := match s1 with 45%nat :: r => r | 43%nat :: r => r | _ => s1 end in
  if has_prefix_ci [105; 110; 102]%nat s2 || has_prefix_ci [110; 97; 110]%nat s2 then true   (* inf / nan *)
  else
    let '(sig_i, nz_i, seen_i, r1) := mant s2 0 false false in
    let '(sig_f, nz, seen_f, lead_zero_f, r2) :=
      match r1 with
      | 46%nat :: rf =>                                   (* '.' *)
          (* leading zeros of the fraction matter for the magnitude when the integer part is zero *)
          let fix lz (t : str) (n : Z) : Z := match t with 48%nat :: u => lz u (n + 1) | _ => n end in
          let '(sg, nzf, seenf, rest) := mant rf 0 false false in
          (sg, nz_i || nzf, seenf, (if nz_i then 0 else lz rf 0), rest)
      | _ => (0, nz_i, false, 0, r1)
      end in
    if negb (seen_i || seen_f) then false
    else
      let expo :=
        match r2 with
        | c :: re =>
            if Nat.eqb (lower c) 101 then
              let '(eneg, re2) := match re with 45%nat :: u => (true, u) | 43%nat :: u => (false, u) | _ => (false, re) end in
              let '(ev, eseen) := digits re2 0 false in
              if eseen then (if eneg then - ev else ev) else 0
            else 0
        | [] => 0
        end in
      if negb nz then true
      else
        (* decimal magnitude: number of integer digits (or minus the leading fraction zeros) plus exponent *)
        let mag := (if nz_i then sig_i else - lead_zero_f) + expo in
        (mag <? 320) && (mag >? -330).

Fixpoint split_on (sep : nat) (s : str) (cur : str) : list str :=
  match s with
  | [] => [rev cur]
  | c :: r => if Nat.eqb c sep then rev cur :: split_on sep r [] else split_on sep r (c :: cur)
  end.

(* ---- keys --------------------------------------------------------------------------------------- *)
Inductive key := KOrigin | KDestination | KPlace | KAlternatives | KTime | KTimeType | KScenario
               | KMinWait | KMaxTT | KMaxAcc | KMaxEgr | KMaxTr | KMaxFW | KOther.

(* ParameterException::Type *)
Definition E_MISSING_SCENARIO : nat := 0.
Definition E_MISSING_ORIGIN : nat := 1.
Definition E_MISSING_DESTINATION : nat := 2.
Definition E_MISSING_TIME_OF_TRIP : nat := 3.
Definition E_MISSING_PLACE : nat := 4.
Definition E_EMPTY_SCENARIO : nat := 5.
Definition E_INVALID_ORIGIN : nat := 6.
Definition E_INVALID_DESTINATION : nat := 7.
Definition E_INVALID_PLACE : nat := 8.
Definition E_INVALID_NUMERICAL_DATA : nat := 9.

(* result of a factory: parameters, a ParameterException, or another exception (uuid parser) *)
Inductive parsed (A : Type) := POk (a : A) | PErr (code : nat) | PExn.
Arguments POk {A} a.
Arguments PErr {A} code.
Arguments PExn {A}.

Section Factories.
  (* boost::uuids::string_generator and the scenario map: text -> None (throws) | Some None (well-formed,
     unknown) | Some (Some sid).  External: the theorems hold for every such function. *)
  Variable resolve_scenario : str -> option (option nat).
  (* number of services of a known scenario *)
  Variable services_of : nat -> nat.

  Record common := { cm_time : Z; cm_minw : Z; cm_maxtt : Z; cm_maxacc : Z; cm_maxegr : Z; cm_maxtr : Z;
                     cm_maxfw : Z; cm_fwd : bool; cm_scen : option nat }.

  Definition common_default : common :=
    {| cm_time := -1; cm_minw := GEN_DEFAULT_MIN_WAITING_TIME; cm_maxtt := MAX_INT;
       cm_maxacc := GEN_DEFAULT_MAX_ACCESS_TRAVEL_TIME; cm_maxegr := GEN_DEFAULT_MAX_EGRESS_TRAVEL_TIME;
       cm_maxtr := GEN_DEFAULT_MAX_TRANSFER_TRAVEL_TIME; cm_maxfw := GEN_DEFAULT_FIRST_WAITING_TIME;
       cm_fwd := true; cm_scen := None |}.

  Definition set_field (c : common) (k : key) (v : Z) : common :=
    match k with
    | KTime => {| cm_time := (if v <? 0 then -1 else v); cm_minw := cm_minw c; cm_maxtt := cm_maxtt c; cm_maxacc := cm_maxacc c;
                  cm_maxegr := cm_maxegr c; cm_maxtr := cm_maxtr c; cm_maxfw := cm_maxfw c; cm_fwd := cm_fwd c; cm_scen := cm_scen c |}
    | KMinWait => {| cm_time := cm_time c; cm_minw := (if v <? 0 then 0 else v); cm_maxtt := cm_maxtt c; cm_maxacc := cm_maxacc c;
                     cm_maxegr := cm_maxegr c; cm_maxtr := cm_maxtr c; cm_maxfw := cm_maxfw c; cm_fwd := cm_fwd c; cm_scen := cm_scen c |}
    | KMaxTT => {| cm_time := cm_time c; cm_minw := cm_minw c; cm_maxtt := (if v <=? 0 then MAX_INT else v); cm_maxacc := cm_maxacc c;
                   cm_maxegr := cm_maxegr c; cm_maxtr := cm_maxtr c; cm_maxfw := cm_maxfw c; cm_fwd := cm_fwd c; cm_scen := cm_scen c |}
    | KMaxAcc => {| cm_time := cm_time c; cm_minw := cm_minw c; cm_maxtt := cm_maxtt c; cm_maxacc := (if v <=? 0 then MAX_INT else v);
                    cm_maxegr := cm_maxegr c; cm_maxtr := cm_maxtr c; cm_maxfw := cm_maxfw c; cm_fwd := cm_fwd c; cm_scen := cm_scen c |}
    | KMaxEgr => {| cm_time := cm_time c; cm_minw := cm_minw c; cm_maxtt := cm_maxtt c; cm_maxacc := cm_maxacc c;
                    cm_maxegr := (if v <=? 0 then MAX_INT else v); cm_maxtr := cm_maxtr c; cm_maxfw := cm_maxfw c; cm_fwd := cm_fwd c; cm_scen := cm_scen c |}
    | KMaxTr => {| cm_time := cm_time c; cm_minw := cm_minw c; cm_maxtt := cm_maxtt c; cm_maxacc := cm_maxacc c;
                   cm_maxegr := cm_maxegr c; cm_maxtr := (if v <=? 0 then MAX_INT else v); cm_maxfw := cm_maxfw c; cm_fwd := cm_fwd c; cm_scen := cm_scen c |}
    | KMaxFW => {| cm_time := cm_time c; cm_minw := cm_minw c; cm_maxtt := cm_maxtt c; cm_maxacc := cm_maxacc c;
                   cm_maxegr := cm_maxegr c; cm_maxtr := cm_maxtr c; cm_maxfw := (if v <=? 0 then -1 else v); cm_fwd := cm_fwd c; cm_scen := cm_scen c |}
    | _ => c
    end.

  Definition is_numeric_key (k : key) : bool :=
    match k with KTime | KMinWait | KMaxTT | KMaxAcc | KMaxEgr | KMaxTr | KMaxFW => true | _ => false end.

  (* the parameter loop of createCommonParameter (common_parameters.cpp:85-173) *)
  Fixpoint common_loop (q : list (key * str)) (c : common) : parsed common :=
    match q with
    | [] => POk c
    | (k, v) :: r =>
        if is_numeric_key k then
          match stoi v with
          | Some x => common_loop r (set_field c k x)
          | None => PErr E_INVALID_NUMERICAL_DATA
          end
        else match k with
             | KTimeType =>
                 common_loop r (if list_eqb v [49%nat]
                                then {| cm_time := cm_time c; cm_minw := cm_minw c; cm_maxtt := cm_maxtt c; cm_maxacc := cm_maxacc c;
                                        cm_maxegr := cm_maxegr c; cm_maxtr := cm_maxtr c; cm_maxfw := cm_maxfw c; cm_fwd := false; cm_scen := cm_scen c |}
                                else c)
             | KScenario =>
                 match resolve_scenario v with
                 | None => PExn                       (* std::runtime_error from the uuid parser *)
                 | Some None => common_loop r c       (* well-formed but unknown: scenario stays as it was *)
                 | Some (Some sid) =>
                     common_loop r {| cm_time := cm_time c; cm_minw := cm_minw c; cm_maxtt := cm_maxtt c; cm_maxacc := cm_maxacc c;
                                      cm_maxegr := cm_maxegr c; cm_maxtr := cm_maxtr c; cm_maxfw := cm_maxfw c; cm_fwd := cm_fwd c; cm_scen := Some sid |}
                 end
             | _ => common_loop r c
             end
    end.

  (* validation order: scenario, empty scenario, time (common_parameters.cpp:175-187) *)
  Definition create_common (q : list (key * str)) : parsed common :=
    match common_loop q common_default with
    | POk c =>
        match cm_scen c with
        | None => PErr E_MISSING_SCENARIO
        | Some sid =>
            if Nat.eqb (services_of sid) 0 then PErr E_EMPTY_SCENARIO
            else if cm_time c <? 0 then PErr E_MISSING_TIME_OF_TRIP
            else POk c
        end
    | PErr e => PErr e
    | PExn => PExn
    end.

  Definition point_ok (v : str) : bool :=
    match split_on 44 v [] with
    | [a; b] => stod_ok b && stod_ok a          (* Point(stod(parts[1]), stod(parts[0])) *)
    | _ => false
    end.

  (* the origin / destination / alternatives loop of createRouteODParameter (route_parameters.cpp:68-113) *)
  Fixpoint route_loop (q : list (key * str)) (has_o has_d alt : bool) : parsed (bool * bool * bool) :=
    match q with
    | [] => POk (has_o, has_d, alt)
    | (KOrigin, v) :: r => if point_ok v then route_loop r true has_d alt else PErr E_INVALID_ORIGIN
    | (KDestination, v) :: r => if point_ok v then route_loop r has_o true alt else PErr E_INVALID_DESTINATION
    | (KAlternatives, v) :: r =>
        route_loop r has_o has_d (alt || list_eqb v [116; 114; 117; 101]%nat || list_eqb v [49%nat])   (* "true" or "1" *)
    | _ :: r => route_loop r has_o has_d alt
    end.

  Definition create_route (q : list (key * str)) : parsed (common * bool) :=
    match route_loop q false false false with
    | POk (has_o, has_d, alt) =>
        if negb has_o then PErr E_MISSING_ORIGIN
        else if negb has_d then PErr E_MISSING_DESTINATION
        else match create_common q with
             | POk c => POk (c, alt)
             | PErr e => PErr e
             | PExn => PExn
             end
    | PErr e => PErr e
    | PExn => PExn
    end.

  Fixpoint place_loop (q : list (key * str)) (has_p : bool) : parsed bool :=
    match q with
    | [] => POk has_p
    | (KPlace, v) :: r => if point_ok v then place_loop r true else PErr E_INVALID_PLACE
    | _ :: r => place_loop r has_p
    end.

  Definition create_access (q : list (key * str)) : parsed common :=
    match place_loop q false with
    | POk has_p =>
        if negb has_p then PErr E_MISSING_PLACE
        else create_common q
    | PErr e => PErr e
    | PExn => PExn
    end.

  (* ---- handlers ------------------------------------------------------------------------------------ *)
  (* error code strings of getResponseCode (transit_routing_http_server.cpp:86-100), as an enumeration *)
  Inductive errcode := C_EMPTY_SCENARIO | C_MISSING_PARAM_SCENARIO | C_MISSING_PARAM_ORIGIN | C_MISSING_PARAM_DESTINATION
                     | C_MISSING_PARAM_TIME_OF_TRIP | C_INVALID_ORIGIN | C_INVALID_DESTINATION | C_INVALID_NUMERICAL_DATA
                     | C_MISSING_PARAM_PLACE | C_INVALID_PLACE | C_PARAM_ERROR_UNKNOWN.

  Definition response_code (e : nat) : errcode :=
    if Nat.eqb e E_EMPTY_SCENARIO then C_EMPTY_SCENARIO
    else if Nat.eqb e E_MISSING_SCENARIO then C_MISSING_PARAM_SCENARIO
    else if Nat.eqb e E_MISSING_ORIGIN then C_MISSING_PARAM_ORIGIN
    else if Nat.eqb e E_MISSING_DESTINATION then C_MISSING_PARAM_DESTINATION
    else if Nat.eqb e E_MISSING_TIME_OF_TRIP then C_MISSING_PARAM_TIME_OF_TRIP
    else if Nat.eqb e E_INVALID_ORIGIN then C_INVALID_ORIGIN
    else if Nat.eqb e E_INVALID_DESTINATION then C_INVALID_DESTINATION
    else if Nat.eqb e E_INVALID_NUMERICAL_DATA then C_INVALID_NUMERICAL_DATA
    else if Nat.eqb e E_MISSING_PLACE then C_MISSING_PARAM_PLACE
    else if Nat.eqb e E_INVALID_PLACE then C_INVALID_PLACE
    else C_PARAM_ERROR_UNKNOWN.

  (* DataStatus: 0 = READY, otherwise the data_error code of getFastErrorResponse *)
  Inductive body :=
  | BDataError (status : nat)
  | BQueryError (c : errcode)
  | BAnswer (kind : nat) (c : common) (alt : bool).   (* success / no_routing_found, with the echoed query *)

  Inductive http := Http (code : nat) (b : body).

  (* outcome class of the calculation for well-formed parameters: an answer (success or no routing),
     or an exception that reaches the catch-all *)
  Variable calc_throws : common -> bool -> bool.

  Definition handle_route (status : nat) (q : list (key * str)) : http :=
    if negb (Nat.eqb status 0) then Http 200 (BDataError status)
    else match create_route q with
         | POk (c, alt) => if calc_throws c alt then Http 400 (BQueryError C_PARAM_ERROR_UNKNOWN)
                           else Http 200 (BAnswer 0 c alt)
         | PErr e => Http 400 (BQueryError (response_code e))
         | PExn => Http 400 (BQueryError C_PARAM_ERROR_UNKNOWN)
         end.

  Definition handle_access (status : nat) (q : list (key * str)) : http :=
    if negb (Nat.eqb status 0) then Http 200 (BDataError status)
    else match create_access q with
         | POk c => if calc_throws c false then Http 400 (BQueryError C_PARAM_ERROR_UNKNOWN)
                    else Http 200 (BAnswer 1 c false)
         | PErr e => Http 400 (BQueryError (response_code e))
         | PExn => Http 400 (BQueryError C_PARAM_ERROR_UNKNOWN)
         end.
End Factories.

(* ---- /updateCache name handling ------------------------------------------------------------------- *)
(* a name is known when it is one of the refreshable caches or "all" *)
Inductive update_resp := USuccess (names : list nat) | UError.

(* names: for each given cache name, Some k when it is known (k identifies it), None otherwise.  The
   handler appends a name to the success string once ANY earlier-or-equal name was known
   (transit_routing_http_server.cpp:254-259) and answers success iff that string is non-empty. *)
Fixpoint update_names (names : list (option nat)) (seen : bool) (idx : nat) : list nat :=
  match names with
  | [] => []
  | n :: r =>
      let seen1 := seen || is_some n in
      if seen1 then idx :: update_names r seen1 (S idx) else update_names r seen1 (S idx)
  end.

Definition handle_update (names : list (option nat)) : update_resp :=
  match update_names names false 0 with
  | [] => UError
  | l => USuccess l
  end.
