(* Emit.v — the step-emission loop of reverse_journey.cpp (`for (auto & journeyStep : journey)`) as data, and its
   interpreter.

   tools/gen_emit.py parses the loop body into a statement tree and writes it to gen/Emit.v as a value of type `eskel`:
   every `if` with its condition, every assignment / compound assignment with its right-hand side, every
   `steps.push_back(std::make_unique<...Step>(args))` with its argument list — conditions, right-hand sides and
   arguments TRANSLATED as Coq expressions over the loop's variables (`em_v m V_x`) and over what the iteration is given
   (`eenv`: the journey step, the next one, the index, the number of steps, the request, the best departure time).
   It also writes the mapping from the running totals to the fields of the result after the loop (`gen_emit_result`).

   Here: the variables (`evar`, one per C++ variable the loop writes), the machine (their values + the steps emitted so
   far), the accessors the translated expressions use (`x_*`), the interpreter `erun`, and the loop `emit_loop_m` that
   threads the machine through the journey (temporaries keep their values from one iteration to the next, as the
   function-level variables of the source do).

   Proofs/EmitTie.v proves that the model (Journey.v: emit_step, emit_loop, emit) computes what this interpreter
   computes on the generated tree. *)
From Coq Require Import List ZArith Bool.
From TrV Require Import Scan Journey.
Local Open Scope Z_scope.
Local Open Scope bool_scope.

(* the int variables of reverseJourneyStep the loop writes *)
Inductive evar :=
(* running totals and results, read after the loop (Journey.emit_st) *)
| V_totalInVehicleTime | V_totalWalkingTime | V_totalWaitingTime | V_totalTransferWalkingTime
| V_totalTransferWaitingTime | V_totalDistance | V_totalInVehicleDistance | V_totalWalkingDistance
| V_totalTransferDistance | V_accessDistance | V_egressDistance | V_transferArrivalTime | V_numberOfTransfers
| V_arrivalTime | V_accessWalkingTime | V_egressWalkingTime | V_accessWaitingTime
(* temporaries of one iteration *)
| V_transferTime | V_distance | V_inVehicleDistance | V_departureTime | V_boardingSequence | V_unboardingSequence
| V_inVehicleTime | V_waitingTime | V_transferReadyTime.

Definition evar_idx (x : evar) : nat :=
  match x with
  | V_totalInVehicleTime => 0 | V_totalWalkingTime => 1 | V_totalWaitingTime => 2 | V_totalTransferWalkingTime => 3
  | V_totalTransferWaitingTime => 4 | V_totalDistance => 5 | V_totalInVehicleDistance => 6 | V_totalWalkingDistance => 7
  | V_totalTransferDistance => 8 | V_accessDistance => 9 | V_egressDistance => 10 | V_transferArrivalTime => 11
  | V_numberOfTransfers => 12 | V_arrivalTime => 13 | V_accessWalkingTime => 14 | V_egressWalkingTime => 15
  | V_accessWaitingTime => 16 | V_transferTime => 17 | V_distance => 18 | V_inVehicleDistance => 19
  | V_departureTime => 20 | V_boardingSequence => 21 | V_unboardingSequence => 22 | V_inVehicleTime => 23
  | V_waitingTime => 24 | V_transferReadyTime => 25
  end%nat.
(* (a private copy of Nat.eqb, so that evaluating the machine never unfolds a comparison of the model) *)
Fixpoint idx_eqb (a b : nat) {struct a} : bool :=
  match a, b with
  | O, O => true
  | S a', S b' => idx_eqb a' b'
  | _, _ => false
  end.
Definition evar_eqb (x y : evar) : bool := idx_eqb (evar_idx x) (evar_idx y).

(* the machine: the value of every variable, and singleResult->steps *)
Record emach := { em_v : evar -> Z; em_steps : list step }.
Definition em_set (x : evar) (v : Z) (m : emach) : emach :=
  {| em_v := fun y => if evar_eqb y x then v else em_v m y; em_steps := em_steps m |}.
Definition em_push (s : step) (m : emach) : emach := {| em_v := em_v m; em_steps := em_steps m ++ [s] |}.

(* what one iteration is given *)
Record eenv := { ev_d : data; ev_p : params; ev_bestdep : Z; ev_count : nat (* journey.size() = journeyStepsCount *);
                 ev_i : nat; ev_j : jstep (* journeyStep *); ev_nxt : option jstep (* journey[i+1], if any *) }.

(* ---------------------------------------------------------------------------------------------- *)
(* the meaning of the C++ sub-expressions the translator treats as atoms                            *)

(* journeyStepEnterConnection = journeyStep.getFinalEnterConnection().value().get(), ... (only evaluated under
   journeyStep.hasConnections()) *)
Definition x_enter_dep (e : eenv) : Z := match js_enter (ev_j e) with Some c => c_dep c | None => 0 end.
Definition x_exit_arr (e : eenv) : Z := match js_exit (ev_j e) with Some c => c_arr c | None => 0 end.
Definition x_enter_seq (e : eenv) : Z := match js_enter (ev_j e) with Some c => Z.of_nat (c_seq c) | None => 0 end.
Definition x_exit_seq (e : eenv) : Z := match js_exit (ev_j e) with Some c => Z.of_nat (c_seq c) | None => 0 end.
Definition x_node_dep (e : eenv) : nat := match js_enter (ev_j e) with Some c => c_from c | None => 0%nat end.
Definition x_node_arr (e : eenv) : nat := match js_exit (ev_j e) with Some c => c_to c | None => 0%nat end.
(* journeyStepTrip = journeyStep.getFinalTrip().value().get() *)
Definition x_trip (e : eenv) : nat :=
  match js_trip (ev_j e) with
  | Some t => t
  | None => match js_enter (ev_j e) with Some c => c_trip c | None => 0%nat end
  end.
(* journeyStepTrip.line.mode.isTransferable() *)
Definition x_transferable (e : eenv) : bool := is_transferable_trip (ev_d e) (x_trip e).
(* journeyStepTrip.path.segmentsDistanceMeters *)
Definition x_segments (e : eenv) : list Z :=
  match find_trip (ev_d e) (x_trip e) with Some tr => trip_dists (ev_d e) tr | None => [] end.
Definition x_nseg (e : eenv) : Z := Z.of_nat (length (x_segments e)).
(* journey.size() > i + 1  (there is a next step); journey[i+1].getFinalEnterConnection()... *)
Definition x_has_next (e : eenv) : bool := is_some (ev_nxt e).
Definition x_next_has_enter (e : eenv) : bool :=
  match ev_nxt e with Some j => is_some (js_enter j) | None => false end.
Definition x_next_minw (e : eenv) : Z :=
  match ev_nxt e with Some j => match js_enter j with Some b => minw_eff (ev_p e) b | None => 0 end | None => 0 end.

(* std::make_unique<BoardingStep|UnboardingStep|WalkingStep>(...) *)
Definition step_board (trip : nat) (legseq stopseq : Z) (node : nat) (dep wait : Z) : step :=
  SBoard trip (Z.to_nat legseq) (Z.to_nat stopseq) node dep wait.
Definition step_unboard (trip : nat) (legseq stopseq : Z) (node : nat) (arr ivt ivd : Z) : step :=
  SUnboard trip (Z.to_nat legseq) (Z.to_nat stopseq) node arr ivt ivd.
(* WalkingStep(type, travelTime, distance, departureTime, arrivalTime, readyToBoardAt = -1) *)
Definition step_walk (kind : nat) (args : list Z) : step :=
  match args with
  | [t; di; dep; arr; rdy] => SWalk kind t di dep arr rdy
  | [t; di; dep; arr] => SWalk kind t di dep arr (-1)
  | _ => SWalk kind 0 0 0 0 0
  end.

(* for (int seqI = boardingSequence - 1; seqI < unboardingSequence; seqI++)
     inVehicleDistance += journeyStepTrip.path.segmentsDistanceMeters[seqI];                           *)
Definition x_segment_sum (e : eenv) (m : emach) : Z :=
  sum_dists (x_segments e) (Z.to_nat (em_v m V_boardingSequence - 1))
            (Z.to_nat (em_v m V_unboardingSequence - (em_v m V_boardingSequence - 1))).

(* ---------------------------------------------------------------------------------------------- *)
(* statement tree and interpreter                                                                   *)

Inductive eskel :=
| EIf (g : eenv -> emach -> bool) (th el : eskel) (k : eskel)    (* if (g) { th } else { el }  k *)
| ESet (x : evar) (rhs : eenv -> emach -> Z) (k : eskel)         (* x = rhs;  (x += e is x = x + e)  k *)
| EPush (s : eenv -> emach -> step) (k : eskel)                  (* singleResult->steps.push_back(...);  k *)
| ESumSegments (k : eskel)                                       (* the segment-distance loop;  k *)
| EDone.

(* continuation passing, so that evaluation on a closed tree yields a decision tree *)
Fixpoint erun (e : eenv) (s : eskel) (R : Type) (kont : emach -> R) (m : emach) {struct s} : R :=
  match s with
  | EDone => kont m
  | ESet x rhs k => erun e k R kont (em_set x (rhs e m) m)
  | EPush f k => erun e k R kont (em_push (f e m) m)
  | ESumSegments k => erun e k R kont (em_set V_inVehicleDistance (em_v m V_inVehicleDistance + x_segment_sum e m) m)
  | EIf g th el k => if g e m then erun e th R (erun e k R kont) m else erun e el R (erun e k R kont) m
  end.

Definition run_emit (sk : eskel) (e : eenv) (m : emach) : emach := erun e sk emach (fun m' => m') m.

(* size_t i = 0; for (auto & journeyStep : journey) { body; i++; } *)
Fixpoint emit_loop_m (sk : eskel) (d : data) (p : params) (bestdep : Z) (count : nat)
         (m : emach) (i : nat) (js : list jstep) : emach :=
  match js with
  | [] => m
  | j :: r =>
      emit_loop_m sk d p bestdep count
        (run_emit sk {| ev_d := d; ev_p := p; ev_bestdep := bestdep; ev_count := count; ev_i := i; ev_j := j;
                        ev_nxt := hd_error r |} m) (S i) r
  end.

(* the model's running variables inside the machine *)
Definition st_of (m : emach) : emit_st :=
  {| e_tivt := em_v m V_totalInVehicleTime; e_twalk := em_v m V_totalWalkingTime; e_twait := em_v m V_totalWaitingTime;
     e_ttrwalk := em_v m V_totalTransferWalkingTime; e_ttrwait := em_v m V_totalTransferWaitingTime;
     e_tdist := em_v m V_totalDistance; e_tivd := em_v m V_totalInVehicleDistance; e_twalkd := em_v m V_totalWalkingDistance;
     e_ttrd := em_v m V_totalTransferDistance; e_accd := em_v m V_accessDistance; e_egrd := em_v m V_egressDistance;
     e_tarr := em_v m V_transferArrivalTime; e_ntr := em_v m V_numberOfTransfers; e_arr := em_v m V_arrivalTime;
     e_accw := em_v m V_accessWalkingTime; e_egrw := em_v m V_egressWalkingTime; e_accwait := em_v m V_accessWaitingTime;
     e_steps := em_steps m |}.

(* a machine holding the model's running variables `st`; the temporaries hold `tmp` *)
Definition mach_of (st : emit_st) (tmp : evar -> Z) : emach :=
  {| em_v := fun x =>
       match x with
       | V_totalInVehicleTime => e_tivt st | V_totalWalkingTime => e_twalk st | V_totalWaitingTime => e_twait st
       | V_totalTransferWalkingTime => e_ttrwalk st | V_totalTransferWaitingTime => e_ttrwait st
       | V_totalDistance => e_tdist st | V_totalInVehicleDistance => e_tivd st | V_totalWalkingDistance => e_twalkd st
       | V_totalTransferDistance => e_ttrd st | V_accessDistance => e_accd st | V_egressDistance => e_egrd st
       | V_transferArrivalTime => e_tarr st | V_numberOfTransfers => e_ntr st | V_arrivalTime => e_arr st
       | V_accessWalkingTime => e_accw st | V_egressWalkingTime => e_egrw st | V_accessWaitingTime => e_accwait st
       | y => tmp y
       end;
     em_steps := e_steps st |}.
