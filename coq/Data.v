(* Data.v — datasets, connection construction, the two sorts, per-scenario connection sets and the
   hour index.  Mirrors src/transit_data.cpp, src/connection_set.cpp and the connection construction
   of src/trips_and_connections_cache_fetcher.cpp:95-123. *)
From TrV Require Export Base.
Local Open Scope Z_scope.

Record fprow := { fp_node : nat; fp_time : Z; fp_dist : Z }.              (* NodeTimeDistance *)
Record stoptime := { st_arr : Z; st_dep : Z; st_cb : bool; st_cu : bool }.
Record line := { l_id : nat; l_agency : nat; l_mode : nat }.              (* mode 0 = "transferable" *)
Record path := { p_id : nat; p_line : nat; p_nodes : list nat; p_dists : list Z }.
Record trip := { t_id : nat; t_path : nat; t_service : nat; t_times : list stoptime }.
Record scenario := { s_id : nat; s_services : list nat;
                     s_onlyLines : list nat; s_onlyModes : list nat; s_onlyAgencies : list nat;
                     s_onlyNodes : list nat;
                     s_exceptLines : list nat; s_exceptModes : list nat; s_exceptAgencies : list nat;
                     s_exceptNodes : list nat }.

Record data := { d_nodes : list nat;                            (* stop ids, ascending (uuid order) *)
                 d_fp : list (nat * list fprow);                (* transferableNodes per stop *)
                 d_rfp : list (nat * list fprow);               (* reverseTransferableNodes per stop *)
                 d_lines : list line;
                 d_paths : list path;
                 d_trips : list trip;                           (* ascending ids (uuid order) *)
                 d_scenarios : list scenario }.

Definition TRANSFERABLE_MODE : nat := 0%nat.

Fixpoint assoc {A} (k : nat) (l : list (nat * A)) : option A :=
  match l with
  | [] => None
  | (k', v) :: r => if Nat.eqb k k' then Some v else assoc k r
  end.

Definition fp_of (d : data) (n : nat) : list fprow := match assoc n (d_fp d) with Some l => l | None => [] end.
Definition rfp_of (d : data) (n : nat) : list fprow := match assoc n (d_rfp d) with Some l => l | None => [] end.

Definition find_line (d : data) (l : nat) : option line := find (fun x => Nat.eqb (l_id x) l) (d_lines d).
Definition find_path (d : data) (p : nat) : option path := find (fun x => Nat.eqb (p_id x) p) (d_paths d).
Definition find_trip (d : data) (t : nat) : option trip := find (fun x => Nat.eqb (t_id x) t) (d_trips d).
Definition find_scenario (d : data) (s : nat) : option scenario := find (fun x => Nat.eqb (s_id x) s) (d_scenarios d).

(* trip attributes resolved through path and line; defaults only reachable on dangling references,
   which wf_data excludes and which the loader model (Loader.v) treats separately *)
Definition trip_line (d : data) (t : trip) : nat :=
  match find_path d (t_path t) with Some p => p_line p | None => 0%nat end.
Definition trip_mode (d : data) (t : trip) : nat :=
  match find_line d (trip_line d t) with Some l => l_mode l | None => 1%nat end.
Definition trip_agency (d : data) (t : trip) : nat :=
  match find_line d (trip_line d t) with Some l => l_agency l | None => 0%nat end.
Definition trip_nodes (d : data) (t : trip) : list nat :=
  match find_path d (t_path t) with Some p => p_nodes p | None => [] end.
Definition trip_dists (d : data) (t : trip) : list Z :=
  match find_path d (t_path t) with Some p => p_dists p | None => [] end.

Record conn := { c_trip : nat; c_seq : nat; c_from : nat; c_to : nat; c_dep : Z; c_arr : Z;
                 c_cb : bool; c_cu : bool; c_minw : Z }.

Definition conn_eqb (a b : conn) : bool := Nat.eqb (c_trip a) (c_trip b) && Nat.eqb (c_seq a) (c_seq b).

(* one connection per consecutive stop pair; sequence is 1-based *)
Fixpoint mk_conns (tid : nat) (minw : Z) (seq : nat) (nodes : list nat) (times : list stoptime) : list conn :=
  match nodes, times with
  | n0 :: ((n1 :: _) as ns), s0 :: ((s1 :: _) as ss) =>
      {| c_trip := tid; c_seq := seq; c_from := n0; c_to := n1; c_dep := st_dep s0; c_arr := st_arr s1;
         c_cb := st_cb s0; c_cu := st_cu s1; c_minw := minw |} :: mk_conns tid minw (S seq) ns ss
  | _, _ => []
  end.

Definition trip_conns (d : data) (t : trip) : list conn :=
  mk_conns (t_id t) (if Nat.eqb (trip_mode d t) TRANSFERABLE_MODE then 0 else -1) 1%nat (trip_nodes d t) (t_times t).

Definition all_conns (d : data) : list conn := flat_map (trip_conns d) (d_trips d).

(* comparators of transit_data.cpp:172-229 (strict "less") *)
Definition fwd_lt (a b : conn) : bool :=
  if c_dep a <? c_dep b then true else if c_dep a >? c_dep b then false else
  if Nat.ltb (c_trip a) (c_trip b) then true else if Nat.ltb (c_trip b) (c_trip a) then false else
  Nat.ltb (c_seq a) (c_seq b).
Definition rev_lt (a b : conn) : bool :=
  if c_arr a >? c_arr b then true else if c_arr a <? c_arr b then false else
  if Nat.ltb (c_trip b) (c_trip a) then true else if Nat.ltb (c_trip a) (c_trip b) then false else
  Nat.ltb (c_seq b) (c_seq a).

(* stable insertion sort: x goes before the first y that is not smaller than x *)
Fixpoint insert (lt : conn -> conn -> bool) (x : conn) (l : list conn) : list conn :=
  match l with
  | [] => [x]
  | y :: ys => if lt y x then y :: insert lt x ys else x :: y :: ys
  end.
Definition isort (lt : conn -> conn -> bool) (l : list conn) : list conn := fold_right (insert lt) [] l.

Definition sorted_fwd (d : data) : list conn := isort fwd_lt (all_conns d).
Definition sorted_rev (d : data) : list conn := isort rev_lt (all_conns d).

(* Trip::forwardConnections / reverseConnections (transit_data.cpp:237-249) *)
Definition trip_fwd (d : data) (t : nat) : list conn := filter (fun c => Nat.eqb (c_trip c) t) (sorted_fwd d).
Definition trip_rev (d : data) (t : nat) : list conn := filter (fun c => Nat.eqb (c_trip c) t) (sorted_rev d).

(* trip enabling rule of getConnectionsForScenario (transit_data.cpp:356-441), clauses in source order *)
Definition only_ok (l : list nat) (x : nat) : bool := match l with [] => true | _ => memb x l end.
Definition except_ok (l : list nat) (x : nat) : bool := match l with [] => true | _ => negb (memb x l) end.

Definition trip_enabled (d : data) (s : scenario) (t : trip) : bool :=
  only_ok (s_services s) (t_service t) &&
  only_ok (s_onlyLines s) (trip_line d t) &&
  only_ok (s_onlyModes s) (trip_mode d t) &&
  only_ok (s_onlyAgencies s) (trip_agency d t) &&
  except_ok (s_exceptLines s) (trip_line d t) &&
  except_ok (s_exceptModes s) (trip_mode d t) &&
  except_ok (s_exceptAgencies s) (trip_agency d t).

Definition enabled_trips (d : data) (s : scenario) : list nat :=
  map t_id (filter (trip_enabled d s) (d_trips d)).

(* --- hour index (connection_set.cpp:32-74) ---------------------------------------------------- *)
(* generated from connection_set.cpp:8-9 *)
Definition BEGIN_HOUR : Z := GEN_BEGIN_HOUR.
Definition END_HOUR : Z := GEN_END_HOUR.

(* forward: for every connection, while dep >= cur*3600 push its position and advance the hour *)
Fixpoint fwd_index_loop (cs : list conn) (pos : nat) (cur : Z) (acc : list nat) : list nat * Z :=
  match cs with
  | [] => (acc, cur)
  | c :: r =>
      let k := if c_dep c >=? cur * 3600 then Z.to_nat (c_dep c / 3600 - cur + 1) else 0%nat in
      fwd_index_loop r (S pos) (cur + Z.of_nat k) (acc ++ repeat pos k)
  end.
Definition fwd_index (cs : list conn) : list nat :=
  let '(acc, cur) := fwd_index_loop cs 0%nat BEGIN_HOUR [] in
  acc ++ repeat (length cs) (Z.to_nat (END_HOUR - cur)).

(* reverse: cur starts at 31; while arr <= cur*3600 && cur > 0 prepend position, decrement; then fill
   down to hour 0 with end().  The table is built by prepending, so entry h is the one for hour h. *)
Fixpoint rev_index_loop (cs : list conn) (pos : nat) (cur : Z) (acc : list nat) : list nat * Z :=
  match cs with
  | [] => (acc, cur)
  | c :: r =>
      (* number of hours h in (0, cur] with arr <= h*3600, taken from cur downwards while they hold *)
      let lowest := Z.max 1 ((c_arr c + 3599) / 3600) in   (* smallest h >= 1 with arr <= h*3600 *)
      let k := if (c_arr c <=? cur * 3600) && (cur >? 0) then Z.to_nat (cur - lowest + 1) else 0%nat in
      rev_index_loop r (S pos) (cur - Z.of_nat k) (repeat pos k ++ acc)
  end.
Definition rev_index (cs : list conn) : list nat :=
  let '(acc, cur) := rev_index_loop cs 0%nat (END_HOUR - 1) [] in
  repeat (length cs) (Z.to_nat (cur - BEGIN_HOUR + 1)) ++ acc.

Record connset := { cs_trips : list nat; cs_fwd : list conn; cs_rev : list conn;
                    cs_fidx : list nat; cs_ridx : list nat }.

Definition mk_connset (trips : list nat) (fwd rev : list conn) : connset :=
  {| cs_trips := trips; cs_fwd := fwd; cs_rev := rev; cs_fidx := fwd_index fwd; cs_ridx := rev_index rev |}.

Definition conn_set (d : data) (s : scenario) : connset :=
  let en := enabled_trips d s in
  mk_connset en (filter (fun c => memb (c_trip c) en) (sorted_fwd d))
                (filter (fun c => memb (c_trip c) en) (sorted_rev d)).

(* lookups with the source's range guards (connection_set.cpp:11-29); None = operator[] past the end *)
Definition fwd_entry (s : connset) (hour : Z) : option nat :=
  if (hour >=? END_HOUR) || (hour <? BEGIN_HOUR) then Some (length (cs_fwd s))
  else nth_error (cs_fidx s) (Z.to_nat hour).
Definition rev_entry (s : connset) (hour : Z) : option nat :=
  if hour <? BEGIN_HOUR then Some (length (cs_rev s))
  else if hour >? END_HOUR - 1 then Some 0%nat
  else nth_error (cs_ridx s) (Z.to_nat hour).
