(* Server.v — the server as a state machine over requests and cache refreshes (C13, C15), and the
   small-step thread semantics of the shared per-scenario connection cache (C14).
   Mirrors src/connection_cache.cpp, TransitData::getConnectionsForScenario (transit_data.cpp:345-472),
   the request handlers and the /updateCache handler of transit_routing_http_server.cpp. *)
From TrV Require Export Calc.
Local Open Scope Z_scope.

(* a request after parameter parsing, together with what the walking router answered for it: the
   router is external, its tables are part of the input *)
Inductive request :=
| QRoute (p : params) (alt : bool) (acc egr : list fprow)      (* /v2/route, also the calculation of /v2/summary *)
| QAccess (p : params) (rows : list fprow)                      (* /v2/accessibility *)
| QInvalid (code : nat).                                        (* rejected by the parameter factories *)

Inductive response :=
| ARoute (o : outcome (route * list nat))
| AAlt (o : outcome (list route * Z))
| AAccess (o : outcome (list accnode * Z))
| AError (code : nat).

Definition req_scenario (r : request) : option nat :=
  match r with
  | QRoute p _ _ _ => Some (q_scenario p)
  | QAccess p _ => Some (q_scenario p)
  | QInvalid _ => None
  end.

(* does the calculation reach resetFilters (where the connection set is fetched)?  reset() throws the
   NO_ACCESS reasons before it (resets.cpp:144-161) *)
Definition reaches_filters (r : request) : bool :=
  match r with
  | QRoute _ _ acc egr => nonempty acc && nonempty egr
  | QAccess _ rows => nonempty rows
  | QInvalid _ => false
  end.

(* the answer computed with connection set cs *)
Definition respond (d : data) (cs : connset) (r : request) : response :=
  match r with
  | QRoute p false acc egr => ARoute (calc_single d cs p acc egr true)
  | QRoute p true acc egr => AAlt (alternatives d cs p acc egr)
  | QAccess p rows => AAccess (calc_allnodes d cs p rows)
  | QInvalid c => AError c
  end.

(* the answer of a server that has just been started on d: the set is built for this request *)
Definition fresh_answer (d : data) (r : request) : response :=
  match req_scenario r with
  | Some sid =>
      match find_scenario d sid with
      | Some s => respond d (conn_set d s) r
      | None => AError 0      (* unknown scenario: MISSING_SCENARIO, raised by the factory *)
      end
  | None => respond d (mk_connset [] [] []) r
  end.

(* ---- the cache (connection_cache.hpp): one entry or all entries, keyed by scenario id ----------- *)
Inductive cache :=
| COne (e : option (nat * connset))
| CAll (l : list (nat * connset)).

Definition cache_get (c : cache) (sid : nat) : option connset :=
  match c with
  | COne (Some (k, v)) => if Nat.eqb k sid then Some v else None
  | COne None => None
  | CAll l => assoc sid l
  end.

Definition cache_set (c : cache) (sid : nat) (v : connset) : cache :=
  match c with
  | COne _ => COne (Some (sid, v))
  | CAll l => CAll ((sid, v) :: l)      (* map assignment: the newest binding shadows older ones *)
  end.

Definition cache_empty (all : bool) : cache := if all then CAll [] else COne None.
Definition cache_clear (c : cache) : cache := match c with COne _ => COne None | CAll _ => CAll [] end.

(* ---- sequential server: C13 ---------------------------------------------------------------------- *)
Record server := { sv_data : data; sv_cache : cache }.

Definition serve (sv : server) (r : request) : response * server :=
  match req_scenario r with
  | Some sid =>
      match find_scenario (sv_data sv) sid with
      | Some s =>
          if reaches_filters r then
            match cache_get (sv_cache sv) sid with
            | Some cs => (respond (sv_data sv) cs r, sv)
            | None =>
                let cs := conn_set (sv_data sv) s in
                (respond (sv_data sv) cs r, {| sv_data := sv_data sv; sv_cache := cache_set (sv_cache sv) sid cs |})
            end
          else (respond (sv_data sv) (mk_connset [] [] []) r, sv)
      | None => (AError 0, sv)
      end
  | None => (respond (sv_data sv) (mk_connset [] [] []) r, sv)
  end.

Fixpoint run (sv : server) (h : list request) : list response * server :=
  match h with
  | [] => ([], sv)
  | r :: rest =>
      let '(a, sv1) := serve sv r in
      let '(l, sv2) := run sv1 rest in
      (a :: l, sv2)
  end.

Definition start (all : bool) (d : data) : server := {| sv_data := d; sv_cache := cache_empty all |}.

(* ---- refresh: C15 -------------------------------------------------------------------------------- *)
(* /updateCache of all caches, or of the schedules with or without the scenarios: the data is re-read
   from the files now on disk; the per-scenario cache is emptied (TransitData::updateSchedules /
   updateScenarios clear it) *)
Inductive op :=
| OReq (r : request)
| ORefresh (d' : data).     (* d' = what the files now on disk encode *)

Definition step (sv : server) (o : op) : option response * server :=
  match o with
  | OReq r => let '(a, sv1) := serve sv r in (Some a, sv1)
  | ORefresh d' => (None, {| sv_data := d'; sv_cache := cache_clear (sv_cache sv) |})
  end.

Fixpoint run_ops (sv : server) (h : list op) : list (option response) * server :=
  match h with
  | [] => ([], sv)
  | o :: rest =>
      let '(a, sv1) := step sv o in
      let '(l, sv2) := run_ops sv1 rest in
      (a :: l, sv2)
  end.

(* ---- concurrent server: C14 ---------------------------------------------------------------------- *)
(* every thread runs: lookup ; [miss: build ; publish] ; calculate.  lookup and publish are atomic (the
   shared_mutex); a thread keeps the set it obtained (the shared_ptr copy in Calculator::connectionSet).
   The interleaving points are the four hook points of getConnectionsForScenario. *)
Inductive tstate :=
| TStart (r : request)                      (* before the lookup *)
| TBuilt (r : request) (sid : nat) (cs : connset)   (* miss: set built, not yet published *)
| THave (r : request) (cs : connset)        (* holds a set (hit, or after publish) *)
| TDone (a : response).

Record cstate := { cs_data : data; cs_cache : cache; cs_threads : list tstate }.

Definition tstep (d : data) (c : cache) (t : tstate) : tstate * cache :=
  match t with
  | TStart r =>
      match req_scenario r with
      | Some sid =>
          match find_scenario d sid with
          | Some s =>
              if reaches_filters r then
                match cache_get c sid with
                | Some cs => (THave r cs, c)
                | None => (TBuilt r sid (conn_set d s), c)
                end
              else (TDone (respond d (mk_connset [] [] []) r), c)
          | None => (TDone (AError 0), c)
          end
      | None => (TDone (respond d (mk_connset [] [] []) r), c)
      end
  | TBuilt r sid cs => (THave r cs, cache_set c sid cs)
  | THave r cs => (TDone (respond d cs r), c)
  | TDone a => (TDone a, c)
  end.

(* the schedule names the thread that moves next *)
Definition cstep (st : cstate) (i : nat) : cstate :=
  match nth_error (cs_threads st) i with
  | Some t =>
      let '(t1, c1) := tstep (cs_data st) (cs_cache st) t in
      {| cs_data := cs_data st; cs_cache := c1;
         cs_threads := firstn i (cs_threads st) ++ t1 :: skipn (S i) (cs_threads st) |}
  | None => st
  end.

Definition crun (st : cstate) (sched : list nat) : cstate := fold_left cstep sched st.

Definition cinit (all : bool) (d : data) (reqs : list request) : cstate :=
  {| cs_data := d; cs_cache := cache_empty all; cs_threads := map TStart reqs |}.

Definition all_done (st : cstate) : bool :=
  forallb (fun t => match t with TDone _ => true | _ => false end) (cs_threads st).
