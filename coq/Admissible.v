(* Admissible.v — declarative journeys (Prop), the quantifier domain of the optimality properties C03-C05,
   C08, C09: "access walk within its maximum, rides joined by one footpath or a same-stop change each (within
   the transfer maximum), final alighting at an egress stop, every boarding respecting minimum waiting and
   boarding permissions, only scenario-admitted trips". *)
From TrV Require Export Spec.
Local Open Scope Z_scope.

(* one ride: board connection b, alight connection e of the same admitted trip, e not before b *)
Definition ride_ok (d : data) (s : scenario) (p : params) (b e : conn) : Prop :=
  In b (all_conns d) /\ In e (all_conns d) /\ c_trip b = c_trip e /\ (c_seq b <= c_seq e)%nat /\
  c_cb b = true /\ c_cu e = true /\
  exists tr, find_trip d (c_trip b) = Some tr /\ trip_admitted d s p tr = true.

(* reaches n t rides m t' : a traveller standing at stop n at time t can take the rides in order — each
   boarding at least the minimum waiting time after being ready, consecutive rides joined by one footpath
   row of the alighting stop (the 0 s self row for a same-stop change) within the transfer maximum — and
   steps off the last vehicle at stop m at time t' *)
Inductive reaches (d : data) (s : scenario) (p : params) : nat -> Z -> list (conn * conn) -> nat -> Z -> Prop :=
| reaches_last : forall n t b e,
    ride_ok d s p b e -> c_from b = n -> t + minw_true p b <= c_dep b ->
    reaches d s p n t [(b, e)] (c_to e) (c_arr e)
| reaches_cons : forall n t b e w n' rest m t',
    ride_ok d s p b e -> c_from b = n -> t + minw_true p b <= c_dep b ->
    has_row (fp_of d (c_to e)) n' w = true -> w <= q_maxtr p ->
    reaches d s p n' (c_arr e + w) rest m t' ->
    reaches d s p n t ((b, e) :: rest) m t'.

(* a journey from the origin leaving at dep0 and reaching the destination at arr *)
Definition journey (d : data) (s : scenario) (p : params) (acc egr : list fprow)
           (dep0 : Z) (rides : list (conn * conn)) (arr : Z) : Prop :=
  exists ra re m t',
    In ra acc /\ In re egr /\
    reaches d s p (fp_node ra) (dep0 + fp_time ra) rides m t' /\
    m = fp_node re /\ arr = t' + fp_time re.

(* C03: admissible for a departure query (first-waiting cap disabled) *)
Definition admissible_fwd (d : data) (s : scenario) (p : params) (acc egr : list fprow)
           (rides : list (conn * conn)) (arr : Z) : Prop :=
  journey d s p acc egr (q_time p) rides arr /\ arr - q_time p <= q_maxtt p.

(* C04: admissible for an arrival query: arrives by the requested time, departs at or after 0:00, spans at
   most max_travel_time back from the requested time *)
Definition admissible_rev (d : data) (s : scenario) (p : params) (acc egr : list fprow)
           (dep0 : Z) (rides : list (conn * conn)) : Prop :=
  exists arr, journey d s p acc egr dep0 rides arr /\ arr <= q_time p /\ 0 <= dep0 /\ q_time p - dep0 <= q_maxtt p.

(* the latest moment the traveller may leave the origin for a given first boarding: the departure the
   property C04 speaks of is  first boarding time - minimum waiting - access walk  *)
Definition departure_of (p : params) (ra : fprow) (rides : list (conn * conn)) : Z :=
  match rides with
  | (b, _) :: _ => c_dep b - minw_true p b - fp_time ra
  | [] => 0
  end.

(* vehicle arrival at a stop, for the accessibility maps (C08): some journey prefix alights at n at time t *)
Definition alights_at (d : data) (s : scenario) (p : params) (acc : list fprow) (n : nat) (t : Z) : Prop :=
  exists ra rides, In ra acc /\ reaches d s p (fp_node ra) (q_time p + fp_time ra) rides n t.

(* boarding-ready time at a stop, for C09: some journey boards at n being ready at time t and reaches the place *)
Definition boards_at (d : data) (s : scenario) (p : params) (egr : list fprow) (n : nat) (t : Z) : Prop :=
  exists re rides m t', In re egr /\ reaches d s p n t rides m t' /\ m = fp_node re /\ t' + fp_time re <= q_time p.
