(* Proofs/RevInv.v — soundness invariant of the reverse scan and of the itinerary rebuild loop.

   Layers:
     1. characterisation of rev_fp_step / rev_step by outcome (the step functions are not unfolded afterwards);
     2. dataset facts from wf_data_b (connections are in the data, sequence order inside a trip, footpaths);
     3. the invariant Inv over (taur, steps, acc, overlay) and its preservation (R1-R5 of the design note);
     4. best_access and rebuild from the invariant;
     5. rev_journey_ok, and the two call sites of calc_reverse in calc_single. *)
From Coq Require Import List ZArith Bool Arith Lia Sorted.
From TrV Require Import Spec.
From TrV.Proofs Require Import SortFilter.
Import ListNotations.
Local Open Scope Z_scope.

(* ---------------------------------------------------------------------------------------------- *)
(* 0. small helpers                                                                                 *)

Lemma upd_same {A} (m : nat -> A) k v : upd m k v k = v.
Proof. unfold upd. rewrite Nat.eqb_refl. reflexivity. Qed.

Lemma upd_other {A} (m : nat -> A) k v k' : k' <> k -> upd m k v k' = m k'.
Proof. intros H. unfold upd. apply Nat.eqb_neq in H. rewrite H. reflexivity. Qed.

Lemma minw_eff_true p c : minw_eff p c = minw_true p c.
Proof. unfold minw_eff, minw_true. reflexivity. Qed.

Lemma minw_eff_nonneg p c : 0 <= q_minw p -> 0 <= minw_eff p c.
Proof.
  intros H. unfold minw_eff. destruct (c_minw c >=? 0) eqn:E; [|exact H].
  apply Z.geb_le in E. exact E.
Qed.

Lemma row_of_some n l r : row_of n l = Some r -> fp_node r = n /\ In r l.
Proof.
  induction l as [|a l IH]; cbn [row_of]; intros H; [discriminate|].
  destruct (Nat.eqb (fp_node a) n) eqn:E.
  - inversion H; subst a. apply Nat.eqb_eq in E. split; [exact E|left; reflexivity].
  - destruct (IH H) as [H1 H2]. split; [exact H1|right; exact H2].
Qed.

Lemma has_row_intro rows r : In r rows -> has_row rows (fp_node r) (fp_time r) = true.
Proof.
  intros H. unfold has_row. apply existsb_exists. exists r. split; [exact H|].
  rewrite Nat.eqb_refl, Z.eqb_refl. reflexivity.
Qed.

Lemma in_skipn {A} (x : A) i l : In x (skipn i l) -> In x l.
Proof.
  intros H. rewrite <- (firstn_skipn i l). apply in_or_app. right. exact H.
Qed.

Lemma StronglySorted_skipn {A} (R : A -> A -> Prop) i l : StronglySorted R l -> StronglySorted R (skipn i l).
Proof.
  revert l. induction i as [|i IH]; intros l H; [exact H|].
  destruct l as [|a l]; [exact H|]. cbn [skipn]. apply IH.
  apply StronglySorted_inv in H. exact (proj1 H).
Qed.

Lemma StronglySorted_impl_in {A} (R R' : A -> A -> Prop) (l : list A) :
  (forall a b, In a l -> In b l -> R a b -> R' a b) -> StronglySorted R l -> StronglySorted R' l.
Proof.
  intros HR H. induction H as [|a l Hl IH Hall]; constructor.
  - apply IH. intros x y Hx Hy. apply HR; right; assumption.
  - apply Forall_forall. intros x Hx. apply HR; [left; reflexivity|right; exact Hx|].
    revert x Hx. apply Forall_forall. exact Hall.
Qed.

(* ---------------------------------------------------------------------------------------------- *)
(* 1. the step functions by outcome                                                                 *)

Definition new_label (c : conn) (exitc : option conn) (r : fprow) : jstep :=
  mk_js (Some c) exitc (c_trip c) (fp_time r) (Nat.eqb (c_from c) (fp_node r)) (fp_dist r).
Definition acc_label (c : conn) (exitc : option conn) : jstep :=
  mk_js (Some c) exitc (c_trip c) 0 true 0.

(* the first-waiting cap tested before a boarding is stored as an access candidate
   (reverse_calculation.cpp, the max_first_waiting_time test on reverseAccessJourneysSteps) *)
Definition fw_cap (p : params) (k : calc) (c : conn) : Prop :=
  k_dep k = -1 \/ q_maxfw p <= 0 \/
  exists ar, row_of (c_from c) (k_accfp k) = Some ar /\ c_dep c - k_dep k - fp_time ar <= q_maxfw p.

Lemma rev_fp_step_cases p k c minw exitc taur steps racc r :
  exists taur' steps' racc',
    rev_fp_step p k c minw exitc (taur, steps, racc) r = (taur', steps', racc') /\
    ((taur' = taur /\ steps' = steps) \/
     (fp_time r <= q_maxtr p /\ c_dep c - fp_time r - minw > taur (fp_node r) /\
      taur' = upd taur (fp_node r) (c_dep c - fp_time r - minw) /\
      steps' = upd steps (fp_node r) (new_label c exitc r))) /\
    (racc' = racc \/
     (c_from c = fp_node r /\
      (k_dep k = -1 \/
       exists ar, row_of (c_from c) (k_accfp k) = Some ar /\ k_dep k <= c_dep c - fp_time ar - minw) /\
      fw_cap p k c /\
      racc' = upd racc (fp_node r) (Some (acc_label c exitc)))).
Proof.
  unfold rev_fp_step.
  destruct (negb (Nat.eqb (c_from c) (fp_node r)) && (taur (fp_node r) >? c_dep c - minw)) eqn:E1.
  { exists taur, steps, racc. split; [reflexivity|]. split; left; [split; reflexivity|reflexivity]. }
  destruct (fp_time r <=? q_maxtr p) eqn:E2.
  2:{ exists taur, steps, racc. split; [reflexivity|]. split; left; [split; reflexivity|reflexivity]. }
  apply Z.leb_le in E2.
  set (A1 := if Nat.eqb (c_from c) (fp_node r) &&
                 match racc (fp_node r) with
                 | None => true
                 | Some j => match js_enter j with
                             | Some b => c_dep b - minw_eff p b <=? c_dep c - minw
                             | None => false
                             end
                 end
             then
               if (k_dep k =? -1) ||
                  match row_of (c_from c) (k_accfp k) with
                  | Some ar => c_dep c - fp_time ar - minw >=? k_dep k
                  | None => false
                  end
               then
                 if (k_dep k =? -1) || (q_maxfw p <=? 0) ||
                    match row_of (c_from c) (k_accfp k) with
                    | Some ar => c_dep c - k_dep k - fp_time ar <=? q_maxfw p
                    | None => false
                    end
                 then upd racc (fp_node r) (Some (mk_js (Some c) exitc (c_trip c) 0 true 0))
                 else racc
               else racc
             else racc).
  assert (HA : A1 = racc \/
               (c_from c = fp_node r /\
                (k_dep k = -1 \/
                 exists ar, row_of (c_from c) (k_accfp k) = Some ar /\ k_dep k <= c_dep c - fp_time ar - minw) /\
                fw_cap p k c /\
                A1 = upd racc (fp_node r) (Some (acc_label c exitc)))).
  { subst A1.
    destruct (Nat.eqb (c_from c) (fp_node r) &&
              match racc (fp_node r) with
              | None => true
              | Some j => match js_enter j with
                          | Some b => c_dep b - minw_eff p b <=? c_dep c - minw
                          | None => false
                          end
              end) eqn:E3; [|left; reflexivity].
    apply andb_prop in E3. destruct E3 as [E3 _]. apply Nat.eqb_eq in E3.
    destruct ((k_dep k =? -1) ||
              match row_of (c_from c) (k_accfp k) with
              | Some ar => c_dep c - fp_time ar - minw >=? k_dep k
              | None => false
              end) eqn:E4; [|left; reflexivity].
    destruct ((k_dep k =? -1) || (q_maxfw p <=? 0) ||
              match row_of (c_from c) (k_accfp k) with
              | Some ar => c_dep c - k_dep k - fp_time ar <=? q_maxfw p
              | None => false
              end) eqn:E5; [|left; reflexivity].
    right. split; [exact E3|]. split; [|split; [|reflexivity]].
    - apply orb_prop in E4. destruct E4 as [E4|E4].
      + left. apply Z.eqb_eq in E4. exact E4.
      + right. destruct (row_of (c_from c) (k_accfp k)) as [ar|]; [|discriminate].
        exists ar. split; [reflexivity|]. apply Z.geb_le in E4. exact E4.
    - unfold fw_cap. apply orb_prop in E5. destruct E5 as [E5|E5]; [apply orb_prop in E5; destruct E5 as [E5|E5]|].
      + left. apply Z.eqb_eq in E5. exact E5.
      + right. left. apply Z.leb_le in E5. exact E5.
      + right. right. destruct (row_of (c_from c) (k_accfp k)) as [ar|]; [|discriminate].
        exists ar. split; [reflexivity|]. apply Z.leb_le in E5. exact E5. }
  destruct (c_dep c - fp_time r - minw >? taur (fp_node r)) eqn:E6.
  - exists (upd taur (fp_node r) (c_dep c - fp_time r - minw)),
           (upd steps (fp_node r) (new_label c exitc r)), A1.
    split; [reflexivity|]. split; [|exact HA].
    right. split; [exact E2|]. split; [|split; reflexivity].
    apply Z.gtb_lt in E6. lia.
  - exists taur, steps, A1. split; [reflexivity|]. split; [left; split; reflexivity|exact HA].
Qed.

(* the overlay of the connection's trip after the "may alight here" block *)
Definition ov1_of (p : params) (st : rstate) (c : conn) : tqd :=
  let ov := r_ov st (c_trip c) in
  let exitc := o_exit ov in
  let tarr := r_taur st (c_to c) in
  if c_cu c then
    let rs := r_steps st (c_to c) in
    if negb (is_some exitc)
    then {| o_usable := o_usable ov; o_enter := o_enter ov; o_enter_w := o_enter_w ov;
            o_exit := Some c; o_exit_w := js_walk rs |}
    else match js_enter rs with
         | Some b =>
             if (js_walk rs >=? 0) && (js_walk rs <? o_exit_w ov) && (c_arr c + minw_eff p b <=? tarr)
             then {| o_usable := o_usable ov; o_enter := o_enter ov; o_enter_w := o_enter_w ov;
                     o_exit := Some c; o_exit_w := js_walk rs |}
             else ov
         | None => ov
         end
  else ov.

Lemma ov1_exit_cases p st c :
  0 <= q_minw p ->
  (is_some (o_exit (r_ov st (c_trip c))) || (r_taur st (c_to c) >=? c_arr c)) = true ->
  o_exit (ov1_of p st c) = o_exit (r_ov st (c_trip c)) \/
  (o_exit (ov1_of p st c) = Some c /\ c_cu c = true /\ c_arr c <= r_taur st (c_to c)).
Proof.
  intros Hq Hc. unfold ov1_of.
  destruct (c_cu c) eqn:Ecu; [|left; reflexivity].
  destruct (o_exit (r_ov st (c_trip c))) as [e0|] eqn:Eex.
  - cbn [is_some negb].
    destruct (js_enter (r_steps st (c_to c))) as [b|]; [|left; exact Eex].
    destruct ((js_walk (r_steps st (c_to c)) >=? 0) &&
              (js_walk (r_steps st (c_to c)) <? o_exit_w (r_ov st (c_trip c))) &&
              (c_arr c + minw_eff p b <=? r_taur st (c_to c))) eqn:E; [|left; exact Eex].
    right. cbn [o_exit]. split; [reflexivity|]. split; [reflexivity|].
    apply andb_prop in E. destruct E as [_ E]. apply Z.leb_le in E.
    pose proof (minw_eff_nonneg p b Hq). lia.
  - cbn [is_some negb]. right. cbn [o_exit]. split; [reflexivity|]. split; [reflexivity|].
    cbn [is_some orb] in Hc. apply Z.geb_le in Hc. exact Hc.
Qed.

Lemma rev_step_spec d p k st c :
  let st' := rev_step d p k false st c in
  (r_taur st' = r_taur st /\ r_steps st' = r_steps st /\ r_ov st' = r_ov st /\ r_acc st' = r_acc st) \/
  (k_disabled k (c_trip c) = false /\
   (is_some (o_exit (r_ov st (c_trip c))) || (r_taur st (c_to c) >=? c_arr c)) = true /\
   r_ov st' = upd (r_ov st) (c_trip c) (ov1_of p st c) /\
   ((r_taur st' = r_taur st /\ r_steps st' = r_steps st /\ r_acc st' = r_acc st) \/
    (c_cb c = true /\
     exists e, o_exit (ov1_of p st c) = Some e /\
       (r_taur st', r_steps st', r_acc st') =
       fold_left (rev_fp_step p k c (minw_eff p c) (Some e)) (rfp_of d (c_from c))
                 (r_taur st, r_steps st, r_acc st)))).
Proof.
  intros st'. subst st'. unfold rev_step. fold (ov1_of p st c).
  destruct (r_stop st); [left; repeat split; reflexivity|].
  destruct (c_arr c <=? k_arr k - (if false then 0 else k_minEgr k)); [|left; repeat split; reflexivity].
  destruct (o_usable (r_ov st (c_trip c)) && negb (k_disabled k (c_trip c))) eqn:E1;
    [|left; repeat split; reflexivity].
  apply andb_prop in E1. destruct E1 as [_ E1]. apply negb_true_iff in E1.
  destruct ((negb false && r_reached st && (k_maxAcc k >=? 0) && (c_arr c <? r_tent st - k_maxAcc k))
            || (k_arr k - c_arr c >? q_maxtt p)); [left; cbn [r_taur r_steps r_ov r_acc]; repeat split; reflexivity|].
  destruct (is_some (o_exit (r_ov st (c_trip c))) || (r_taur st (c_to c) >=? c_arr c)) eqn:E2;
    [|left; repeat split; reflexivity].
  right. split; [exact E1|]. split; [reflexivity|].
  destruct (c_cb c && is_some (o_exit (ov1_of p st c))) eqn:E3.
  - apply andb_prop in E3. destruct E3 as [E3 E4].
    destruct (o_exit (ov1_of p st c)) as [e|] eqn:E5; [|discriminate].
    destruct (negb false && negb (r_reached st) &&
              match row_of (c_from c) (k_accfp k) with
              | Some r => negb (fp_time r =? -1)
              | None => false
              end).
    + destruct (fold_left (rev_fp_step p k c (minw_eff p c) (Some e)) (rfp_of d (c_from c))
                          (r_taur st, r_steps st, r_acc st)) as [[t1 s1] a1] eqn:F.
      cbn [r_taur r_steps r_ov r_acc]. split; [reflexivity|]. right. split; [exact E3|].
      exists e. split; [reflexivity|symmetry; exact F].
    + destruct (fold_left (rev_fp_step p k c (minw_eff p c) (Some e)) (rfp_of d (c_from c))
                          (r_taur st, r_steps st, r_acc st)) as [[t1 s1] a1] eqn:F.
      cbn [r_taur r_steps r_ov r_acc]. split; [reflexivity|]. right. split; [exact E3|].
      exists e. split; [reflexivity|symmetry; exact F].
  - cbn [r_taur r_steps r_ov r_acc]. split; [reflexivity|]. left. repeat split; reflexivity.
Qed.

Opaque rev_step rev_fp_step.

(* ---------------------------------------------------------------------------------------------- *)
(* 2. dataset facts                                                                                 *)

Tactic Notation "peel" hyp(H) ident(W) := apply andb_prop in H; destruct H as [H W].

Lemma wf_data_parts d : wf_data_b d = true ->
  nodup_nat (map t_id (d_trips d)) = true /\ footpaths_ok d = true /\
  forallb (fun p => is_some (find_line d (p_line p)) && forallb (fun n => memb n (d_nodes d)) (p_nodes p)
                    && forallb (fun x => -1 <=? x) (p_dists p)) (d_paths d) = true /\
  forallb (fun t => match find_path d (t_path t) with
                    | Some p => Nat.eqb (length (p_nodes p)) (length (t_times t)) && Nat.leb 2 (length (t_times t))
                    | None => false
                    end && times_ok (t_times t)) (d_trips d) = true.
Proof.
  unfold wf_data_b. intros H.
  peel H X10. peel H X9. peel H X8. peel H X7. peel H X6. peel H X5. peel H X4. peel H X3. peel H X2.
  repeat split; assumption.
Qed.

Lemma wf_nodup_trips d : wf_data_b d = true -> nodup_nat (map t_id (d_trips d)) = true.
Proof. intros H. apply wf_data_parts in H. exact (proj1 H). Qed.

Lemma wf_trip d : wf_data_b d = true -> forall t, In t (d_trips d) ->
  exists pth, find_path d (t_path t) = Some pth /\ length (p_nodes pth) = length (t_times t) /\
              times_ok (t_times t) = true.
Proof.
  intros H t Ht. apply wf_data_parts in H. destruct H as (_ & _ & _ & W).
  rewrite forallb_forall in W. specialize (W t Ht). peel W T.
  destruct (find_path d (t_path t)) as [pth|]; [|discriminate].
  exists pth. split; [reflexivity|]. peel W L. apply Nat.eqb_eq in W. split; assumption.
Qed.

Lemma wf_path_nodes d : wf_data_b d = true -> forall pth, In pth (d_paths d) ->
  forall n, In n (p_nodes pth) -> In n (d_nodes d).
Proof.
  intros H pth Hp n Hn. apply wf_data_parts in H. destruct H as (_ & _ & W & _).
  rewrite forallb_forall in W. specialize (W pth Hp). peel W D. peel W N.
  rewrite forallb_forall in N. apply memb_In. apply N. exact Hn.
Qed.

Lemma wf_rfp_row d : wf_data_b d = true -> forall n, In n (d_nodes d) -> forall r, In r (rfp_of d n) ->
  has_row (fp_of d (fp_node r)) n (fp_time r) = true /\ (fp_node r = n -> fp_time r = 0).
Proof.
  intros H n Hn r Hr. apply wf_data_parts in H. destruct H as (_ & W & _ & _).
  unfold footpaths_ok in W. rewrite forallb_forall in W. specialize (W n Hn).
  peel W F8. peel W F7. peel W F6. peel W F5. rewrite forallb_forall in F8, F6. split.
  - apply F6. exact Hr.
  - intros E. specialize (F8 r Hr). apply orb_prop in F8. destruct F8 as [F|F].
    + apply negb_true_iff in F. apply Nat.eqb_neq in F. contradiction.
    + apply Z.eqb_eq in F. exact F.
Qed.

Lemma mk_conns_cons tid minw seq n0 n1 ns s0 s1 ss :
  mk_conns tid minw seq (n0 :: n1 :: ns) (s0 :: s1 :: ss) =
  {| c_trip := tid; c_seq := seq; c_from := n0; c_to := n1; c_dep := st_dep s0; c_arr := st_arr s1;
     c_cb := st_cb s0; c_cu := st_cu s1; c_minw := minw |} :: mk_conns tid minw (S seq) (n1 :: ns) (s1 :: ss).
Proof. reflexivity. Qed.

Lemma times_ok_cons2 s0 s1 ss : times_ok (s0 :: s1 :: ss) = true ->
  0 <= st_arr s0 /\ st_arr s0 <= st_dep s0 /\ st_dep s0 <= st_arr s1 /\ times_ok (s1 :: ss) = true.
Proof.
  intros H.
  change (times_ok (s0 :: s1 :: ss)) with
    ((0 <=? st_arr s0) && (st_arr s0 <=? st_dep s0) && (st_dep s0 <? CLOCK_MAX) &&
     (st_dep s0 <=? st_arr s1) && times_ok (s1 :: ss)) in H.
  peel H T5. peel H T4. peel H T3. peel H T2. apply Z.leb_le in H, T2, T4. repeat split; assumption.
Qed.

Definition first_arr (l : list stoptime) : Z := match l with s :: _ => st_arr s | [] => 0 end.

Lemma mk_conns_seq_from : forall tid minw nodes seq times c,
  In c (mk_conns tid minw seq nodes times) -> (seq <= c_seq c)%nat /\ In (c_from c) nodes.
Proof.
  intros tid minw. induction nodes as [|n0 ns IH]; intros seq times c H.
  - destruct H.
  - destruct ns as [|n1 ns']; [destruct H|].
    destruct times as [|s0 [|s1 ss]]; [destruct H|destruct H|].
    rewrite mk_conns_cons in H. destruct H as [H|H].
    + subst c. cbn [c_seq c_from]. split; [lia|left; reflexivity].
    + destruct (IH (S seq) (s1 :: ss) c H) as [H1 H2]. split; [lia|right; exact H2].
Qed.

Lemma mk_conns_times : forall tid minw nodes seq times c,
  times_ok times = true -> In c (mk_conns tid minw seq nodes times) ->
  first_arr times <= c_dep c /\ c_dep c <= c_arr c /\ 0 <= first_arr times.
Proof.
  intros tid minw. induction nodes as [|n0 ns IH]; intros seq times c Ht H.
  - destruct H.
  - destruct ns as [|n1 ns']; [destruct H|].
    destruct times as [|s0 [|s1 ss]]; [destruct H|destruct H|].
    rewrite mk_conns_cons in H. apply times_ok_cons2 in Ht. destruct Ht as (T1 & T2 & T3 & T4).
    destruct H as [H|H].
    + subst c. cbn [c_dep c_arr first_arr]. lia.
    + destruct (IH (S seq) (s1 :: ss) c T4 H) as (H1 & H2 & H3). cbn [first_arr] in *. lia.
Qed.

Lemma mk_conns_mono : forall tid minw nodes seq times a b,
  times_ok times = true ->
  In a (mk_conns tid minw seq nodes times) -> In b (mk_conns tid minw seq nodes times) ->
  (c_seq a < c_seq b)%nat -> c_arr a <= c_dep b.
Proof.
  intros tid minw. induction nodes as [|n0 ns IH]; intros seq times a b Ht Ha Hb Hlt.
  - destruct Ha.
  - destruct ns as [|n1 ns']; [destruct Ha|].
    destruct times as [|s0 [|s1 ss]]; [destruct Ha|destruct Ha|].
    rewrite mk_conns_cons in Ha, Hb. apply times_ok_cons2 in Ht. destruct Ht as (T1 & T2 & T3 & T4).
    destruct Ha as [Ha|Ha]; destruct Hb as [Hb|Hb].
    + subst a b. cbn [c_seq] in Hlt. lia.
    + subst a. cbn [c_arr].
      destruct (mk_conns_times tid minw (n1 :: ns') (S seq) (s1 :: ss) b T4 Hb) as (H1 & _ & _).
      cbn [first_arr] in H1. exact H1.
    + subst b. cbn [c_seq] in Hlt.
      destruct (mk_conns_seq_from tid minw (n1 :: ns') (S seq) (s1 :: ss) a Ha) as [H1 _]. lia.
    + apply (IH (S seq) (s1 :: ss) a b T4 Ha Hb Hlt).
Qed.

Lemma mk_conns_find : forall tid minw nodes seq times c,
  In c (mk_conns tid minw seq nodes times) ->
  find (fun x => Nat.eqb (c_seq x) (c_seq c)) (mk_conns tid minw seq nodes times) = Some c.
Proof.
  intros tid minw. induction nodes as [|n0 ns IH]; intros seq times c H.
  - destruct H.
  - destruct ns as [|n1 ns']; [destruct H|].
    destruct times as [|s0 [|s1 ss]]; [destruct H|destruct H|].
    rewrite mk_conns_cons in *. destruct H as [H|H].
    + subst c. cbn [find c_seq]. rewrite Nat.eqb_refl. reflexivity.
    + cbn [find c_seq].
      destruct (mk_conns_seq_from tid minw (n1 :: ns') (S seq) (s1 :: ss) c H) as [H1 _].
      assert (E : Nat.eqb seq (c_seq c) = false) by (apply Nat.eqb_neq; lia).
      rewrite E. apply (IH (S seq) (s1 :: ss) c H).
Qed.

Lemma all_conns_in d c : In c (all_conns d) -> exists tr, In tr (d_trips d) /\ In c (trip_conns d tr).
Proof. unfold all_conns. intros H. apply in_flat_map in H. exact H. Qed.

Lemma find_trip_in d tr : nodup_nat (map t_id (d_trips d)) = true -> In tr (d_trips d) ->
  find_trip d (t_id tr) = Some tr.
Proof.
  intros Hnd Hin. unfold find_trip.
  destruct (find (fun x => Nat.eqb (t_id x) (t_id tr)) (d_trips d)) as [x|] eqn:F.
  - apply find_some in F. destruct F as [Fx Fe]. apply Nat.eqb_eq in Fe.
    f_equal. apply (nodup_nat_inj (d_trips d) Hnd); assumption.
  - pose proof (find_none _ _ F tr Hin) as N. cbn beta in N. rewrite Nat.eqb_refl in N. discriminate.
Qed.

Lemma find_trip_some d t tr : find_trip d t = Some tr -> In tr (d_trips d) /\ t_id tr = t.
Proof.
  unfold find_trip. intros F. apply find_some in F. destruct F as [F1 F2].
  apply Nat.eqb_eq in F2. split; assumption.
Qed.

Lemma conn_eqb_full_refl c : conn_eqb_full c c = true.
Proof.
  unfold conn_eqb_full. rewrite !Nat.eqb_refl, !Z.eqb_refl, !eqb_reflx. reflexivity.
Qed.

Lemma conn_in_data_all d c : wf_data_b d = true -> In c (all_conns d) -> conn_in_data d c = true.
Proof.
  intros Hwf Hc. destruct (all_conns_in d c Hc) as (tr & Htr & Hin).
  unfold conn_in_data, find_conn. rewrite (trip_conns_trip d tr c Hin).
  rewrite (find_trip_in d tr (wf_nodup_trips d Hwf) Htr).
  unfold trip_conns in *. rewrite (mk_conns_find _ _ _ _ _ c Hin). apply conn_eqb_full_refl.
Qed.

Lemma conn_from_node d c : wf_data_b d = true -> In c (all_conns d) -> In (c_from c) (d_nodes d).
Proof.
  intros Hwf Hc. destruct (all_conns_in d c Hc) as (tr & Htr & Hin).
  destruct (wf_trip d Hwf tr Htr) as (pth & Hp & _ & _).
  unfold trip_conns in Hin. apply mk_conns_seq_from in Hin. destruct Hin as [_ Hin].
  unfold trip_nodes in Hin. rewrite Hp in Hin.
  unfold find_path in Hp. apply find_some in Hp. destruct Hp as [Hp _].
  apply (wf_path_nodes d Hwf pth Hp). exact Hin.
Qed.

Lemma conn_arr_nonneg d c : wf_data_b d = true -> In c (all_conns d) -> 0 <= c_arr c.
Proof.
  intros Hwf Hc. destruct (all_conns_in d c Hc) as (tr & Htr & Hin).
  destruct (wf_trip d Hwf tr Htr) as (pth & _ & _ & Ht).
  unfold trip_conns in Hin. apply (mk_conns_times _ _ _ _ _ _ Ht) in Hin. lia.
Qed.

(* inside one trip the reverse order descends in sequence (ties in arrival time are broken by sequence) *)
Lemma conn_seq_order d a b : wf_data_b d = true -> In a (all_conns d) -> In b (all_conns d) ->
  c_trip a = c_trip b -> rev_lt b a = false -> (c_seq b <= c_seq a)%nat.
Proof.
  intros Hwf Ha Hb Et Hlt.
  destruct (all_conns_in d a Ha) as (tra & Htra & Hina).
  destruct (all_conns_in d b Hb) as (trb & Htrb & Hinb).
  assert (E : tra = trb).
  { apply (nodup_nat_inj (d_trips d) (wf_nodup_trips d Hwf)); try assumption.
    rewrite <- (trip_conns_trip d tra a Hina), <- (trip_conns_trip d trb b Hinb). exact Et. }
  subst trb. destruct (wf_trip d Hwf tra Htra) as (pth & _ & _ & Ht).
  destruct (le_lt_dec (c_seq b) (c_seq a)) as [Hle|Hgt]; [exact Hle|exfalso].
  unfold trip_conns in Hina, Hinb.
  pose proof (mk_conns_mono _ _ _ _ _ a b Ht Hina Hinb Hgt) as M.
  destruct (mk_conns_times _ _ _ _ _ b Ht Hinb) as (_ & M2 & _).
  assert (T : rev_lt b a = true) by (apply rev_lt_iff; lia).
  congruence.
Qed.

Definition seq_desc (a b : conn) : Prop := c_trip a = c_trip b -> (c_seq b <= c_seq a)%nat.

Lemma cs_rev_in d s c : In c (cs_rev (conn_set d s)) ->
  In c (all_conns d) /\ memb (c_trip c) (enabled_trips d s) = true.
Proof.
  unfold conn_set, mk_connset. cbn [cs_rev]. intros H. apply filter_In in H. destruct H as [H1 H2].
  split; [|exact H2]. unfold sorted_rev in H1. apply in_isort in H1. exact H1.
Qed.

Lemma cs_rev_seq_sorted d s : wf_data_b d = true -> StronglySorted seq_desc (cs_rev (conn_set d s)).
Proof.
  intros Hwf.
  apply (StronglySorted_impl_in (le_of rev_lt)).
  - intros a b Ha Hb Hle Et. apply cs_rev_in in Ha. apply cs_rev_in in Hb.
    apply (conn_seq_order d a b Hwf (proj1 Ha) (proj1 Hb) Et Hle).
  - unfold conn_set, mk_connset, sorted_rev. cbn [cs_rev]. rewrite filter_isort_rev.
    apply (isort_sorted rev_lt rev_lt_asym rev_lt_negtrans).
Qed.

(* admitted = in the scenario's trip list and not disabled by the request's exceptLines *)
Definition tadm (d : data) (s : scenario) (p : params) (t : nat) : Prop :=
  exists tr, find_trip d t = Some tr /\ trip_admitted d s p tr = true.

Lemma admitted_bridge d s p t : nodup_nat (map t_id (d_trips d)) = true ->
  tadm d s p t <->
  (memb t (cs_trips (conn_set d s)) = true /\ disabled_of d p (conn_set d s) t = false).
Proof.
  intros Hnd. unfold tadm, trip_admitted, disabled_of.
  change (cs_trips (conn_set d s)) with (enabled_trips d s).
  split.
  - intros (tr & F & A). apply andb_prop in A. destruct A as [A1 A2].
    destruct (find_trip_some d t tr F) as [Hin Hid]. subst t.
    split; [rewrite (memb_enabled d s tr Hnd Hin); exact A1|].
    destruct (q_except_lines p) as [|x ex]; [reflexivity|].
    rewrite F. apply negb_true_iff in A2. rewrite A2. apply andb_false_r.
  - intros [M D]. pose proof M as M'. apply memb_In in M'. unfold enabled_trips in M'. apply in_map_iff in M'.
    destruct M' as (tr & Hid & Hf). apply filter_In in Hf. destruct Hf as [Hin Hen]. subst t.
    exists tr. split; [apply (find_trip_in d tr Hnd Hin)|]. rewrite Hen. cbn [andb].
    destruct (q_except_lines p) as [|x ex]; [reflexivity|].
    rewrite (find_trip_in d tr Hnd Hin) in D. rewrite M in D. cbn [andb] in D. rewrite D. reflexivity.
Qed.

(* ---------------------------------------------------------------------------------------------- *)
(* 3. the invariant                                                                                 *)

Section Invariant.
  Variables (d : data) (s : scenario) (p : params) (k : calc).
  Hypothesis Hwf : wf_data_b d = true.
  Hypothesis Hminw : 0 <= q_minw p.

  (* a label with connections: shared by stop labels (R1) and access labels (R5) *)
  Definition core (taur : nat -> Z) (j : jstep) (b e : conn) : Prop :=
    js_enter j = Some b /\ js_exit j = Some e /\ js_trip j = Some (c_trip b) /\
    In b (all_conns d) /\ In e (all_conns d) /\ c_trip e = c_trip b /\ (c_seq b <= c_seq e)%nat /\
    c_cb b = true /\ c_cu e = true /\ tadm d s p (c_trip b) /\ c_arr e <= taur (c_to e).

  (* R1 *)
  Definition lab_ok (taur : nat -> Z) (n : nat) (j : jstep) (b : conn) : Prop :=
    exists e, core taur j b e /\
      (exists r, In r (rfp_of d (c_from b)) /\ fp_node r = n /\ fp_time r = js_walk j) /\
      js_walk j <= q_maxtr p /\
      taur n = c_dep b - js_walk j - minw_eff p b.

  (* R3 *)
  Definition exit_ok (taur : nat -> Z) (t : nat) (e : conn) : Prop :=
    In e (all_conns d) /\ c_trip e = t /\ c_cu e = true /\ c_arr e <= taur (c_to e).

  (* R5 *)
  Definition acc_ok (taur : nat -> Z) (n : nat) (j : jstep) : Prop :=
    exists b e, core taur j b e /\ c_from b = n /\ js_walk j = 0 /\
      (k_dep k = -1 \/
       exists a, row_of n (k_accfp k) = Some a /\ k_dep k <= c_dep b - fp_time a - minw_eff p b) /\
      fw_cap p k b.

  Record Inv (taur : nat -> Z) (steps : nat -> jstep) (racc : nat -> option jstep) (ov : nat -> tqd) : Prop := {
    i_lab : forall n b, js_enter (steps n) = Some b -> lab_ok taur n (steps n) b;
    i_seed : forall n, js_enter (steps n) = None -> taur n = k_taur k n;       (* R2: untouched seeds *)
    i_ov : forall t e, o_exit (ov t) = Some e -> exit_ok taur t e;
    i_acc : forall n j, racc n = Some j -> acc_ok taur n j }.

  (* R4: everything survives a pointwise increase of taur *)
  Lemma core_mono taur taur' j b e : (forall x, taur x <= taur' x) -> core taur j b e -> core taur' j b e.
  Proof.
    intros M (H1 & H2 & H3 & H4 & H5 & H6 & H7 & H8 & H9 & H10 & H11).
    unfold core. repeat split; try assumption. specialize (M (c_to e)). lia.
  Qed.

  Lemma exit_ok_mono taur taur' t e : (forall x, taur x <= taur' x) -> exit_ok taur t e -> exit_ok taur' t e.
  Proof.
    intros M (H1 & H2 & H3 & H4). unfold exit_ok. repeat split; try assumption. specialize (M (c_to e)). lia.
  Qed.

  Lemma acc_ok_mono taur taur' n j : (forall x, taur x <= taur' x) -> acc_ok taur n j -> acc_ok taur' n j.
  Proof.
    intros M (b & e & H1 & H2 & H3 & H4 & H5). exists b, e. split; [apply (core_mono taur); assumption|].
    repeat split; assumption.
  Qed.

  Lemma upd_mono (taur : nat -> Z) m v : v > taur m -> forall x, taur x <= upd taur m v x.
  Proof.
    intros H x. unfold upd. destruct (Nat.eqb x m) eqn:E; [|lia].
    apply Nat.eqb_eq in E. subst x. lia.
  Qed.

  Lemma Inv_upd_label taur steps racc ov c e r :
    Inv taur steps racc ov ->
    In c (all_conns d) -> c_cb c = true -> tadm d s p (c_trip c) ->
    o_exit (ov (c_trip c)) = Some e -> (c_seq c <= c_seq e)%nat ->
    In r (rfp_of d (c_from c)) -> fp_time r <= q_maxtr p ->
    c_dep c - fp_time r - minw_eff p c > taur (fp_node r) ->
    Inv (upd taur (fp_node r) (c_dep c - fp_time r - minw_eff p c))
        (upd steps (fp_node r) (new_label c (Some e) r)) racc ov.
  Proof.
    intros HI Hc Hcb Hadm Hex Hseq Hr Hmax Hgt.
    pose proof (upd_mono taur (fp_node r) _ Hgt) as M.
    destruct (i_ov _ _ _ _ HI _ _ Hex) as (X1 & X2 & X3 & X4).
    constructor.
    - intros n b Hb. destruct (Nat.eq_dec n (fp_node r)) as [En|En].
      + subst n. rewrite upd_same in Hb. rewrite !upd_same.
        unfold new_label, mk_js in Hb. cbn [js_enter] in Hb. inversion Hb; subst b. clear Hb.
        exists e. unfold core, new_label, mk_js. cbn [js_enter js_exit js_trip js_walk].
        split; [|split; [|split]].
        * repeat split; try assumption. specialize (M (c_to e)). lia.
        * exists r. repeat split. exact Hr.
        * exact Hmax.
        * apply upd_same.
      + rewrite upd_other in Hb by exact En. rewrite !upd_other by exact En.
        destruct (i_lab _ _ _ _ HI n b Hb) as (e0 & Y1 & Y2 & Y3 & Y4).
        exists e0. split; [apply (core_mono taur); assumption|].
        split; [exact Y2|]. split; [exact Y3|]. rewrite upd_other by exact En. exact Y4.
    - intros n Hn. destruct (Nat.eq_dec n (fp_node r)) as [En|En].
      + subst n. rewrite upd_same in Hn. unfold new_label, mk_js in Hn. cbn [js_enter] in Hn. discriminate.
      + rewrite upd_other in Hn by exact En. rewrite upd_other by exact En.
        apply (i_seed _ _ _ _ HI n Hn).
    - intros t e0 H0. apply (exit_ok_mono taur); [exact M|]. apply (i_ov _ _ _ _ HI t e0 H0).
    - intros n j H0. apply (acc_ok_mono taur); [exact M|]. apply (i_acc _ _ _ _ HI n j H0).
  Qed.

  Lemma Inv_upd_acc taur steps racc ov m j :
    Inv taur steps racc ov -> acc_ok taur m j -> Inv taur steps (upd racc m (Some j)) ov.
  Proof.
    intros HI Hj. constructor.
    - apply (i_lab _ _ _ _ HI).
    - apply (i_seed _ _ _ _ HI).
    - apply (i_ov _ _ _ _ HI).
    - intros n j0 H0. destruct (Nat.eq_dec n m) as [En|En].
      + subst n. rewrite upd_same in H0. inversion H0; subst j0. exact Hj.
      + rewrite upd_other in H0 by exact En. apply (i_acc _ _ _ _ HI n j0 H0).
  Qed.

  Definition Inv3 (ov : nat -> tqd) (x : (nat -> Z) * (nat -> jstep) * (nat -> option jstep)) : Prop :=
    Inv (fst (fst x)) (snd (fst x)) (snd x) ov.

  Lemma fp_step_inv ov c e taur steps racc r :
    Inv taur steps racc ov ->
    In c (all_conns d) -> c_cb c = true -> tadm d s p (c_trip c) ->
    o_exit (ov (c_trip c)) = Some e -> (c_seq c <= c_seq e)%nat ->
    In r (rfp_of d (c_from c)) ->
    Inv3 ov (rev_fp_step p k c (minw_eff p c) (Some e) (taur, steps, racc) r).
  Proof.
    intros HI Hc Hcb Hadm Hex Hseq Hr.
    destruct (rev_fp_step_cases p k c (minw_eff p c) (Some e) taur steps racc r)
      as (t' & s' & a' & E & H1 & H2).
    rewrite E. unfold Inv3. cbn [fst snd].
    assert (HI1 : Inv t' s' racc ov).
    { destruct H1 as [[E1 E2]|(Hmax & Hgt & E1 & E2)]; subst t' s'; [exact HI|].
      apply Inv_upd_label; assumption. }
    destruct H2 as [E3|(Ef & Hk & Hcap & E3)]; subst a'; [exact HI1|].
    apply Inv_upd_acc; [exact HI1|].
    destruct (i_ov _ _ _ _ HI1 _ _ Hex) as (X1 & X2 & X3 & X4).
    exists c, e. unfold core, acc_label, mk_js. cbn [js_enter js_exit js_trip js_walk].
    split; [repeat split; assumption|]. split; [exact Ef|]. split; [reflexivity|].
    split; [rewrite <- Ef; exact Hk|exact Hcap].
  Qed.

  Lemma fp_fold_inv ov c e :
    In c (all_conns d) -> c_cb c = true -> tadm d s p (c_trip c) ->
    o_exit (ov (c_trip c)) = Some e -> (c_seq c <= c_seq e)%nat ->
    forall rows, (forall r, In r rows -> In r (rfp_of d (c_from c))) ->
    forall x, Inv3 ov x -> Inv3 ov (fold_left (rev_fp_step p k c (minw_eff p c) (Some e)) rows x).
  Proof.
    intros Hc Hcb Hadm Hex Hseq. induction rows as [|r rows IH]; intros Hsub x Hx; cbn [fold_left]; [exact Hx|].
    apply IH; [intros r0 H0; apply Hsub; right; exact H0|].
    destruct x as [[t0 s0] a0]. unfold Inv3 in Hx. cbn [fst snd] in Hx.
    apply fp_step_inv; try assumption. apply Hsub. left. reflexivity.
  Qed.

  (* connections of a trip still to be scanned lie at or before the trip's exit *)
  Definition ord (ov : nat -> tqd) (rest : list conn) : Prop :=
    forall c' e, In c' rest -> o_exit (ov (c_trip c')) = Some e -> (c_seq c' <= c_seq e)%nat.

  Definition good (c : conn) : Prop :=
    In c (all_conns d) /\ (k_disabled k (c_trip c) = false -> tadm d s p (c_trip c)).

  Definition RInv (rest : list conn) (st : rstate) : Prop :=
    Inv (r_taur st) (r_steps st) (r_acc st) (r_ov st) /\ ord (r_ov st) rest.

  Lemma rev_step_inv c rest st :
    good c -> Forall (seq_desc c) rest -> RInv (c :: rest) st -> RInv rest (rev_step d p k false st c).
  Proof.
    intros [Hc Hadm] Hsorted [HI HO].
    pose proof (rev_step_spec d p k st c) as S. cbv zeta in S.
    destruct S as [(E1 & E2 & E3 & E4)|(Hdis & Hq & Eov & Hrest)].
    - unfold RInv. rewrite E1, E2, E3, E4. split; [exact HI|].
      intros c' e Hc' He. apply (HO c' e); [right; exact Hc'|exact He].
    - specialize (Hadm Hdis).
      pose proof (ov1_exit_cases p st c Hminw Hq) as Hex.
      set (ov1 := ov1_of p st c) in *. set (ovm := upd (r_ov st) (c_trip c) ov1) in *.
      assert (HI1 : Inv (r_taur st) (r_steps st) (r_acc st) ovm).
      { constructor; [apply (i_lab _ _ _ _ HI)|apply (i_seed _ _ _ _ HI)| |apply (i_acc _ _ _ _ HI)].
        intros t e He. subst ovm. destruct (Nat.eq_dec t (c_trip c)) as [Et|Et].
        - subst t. rewrite upd_same in He. destruct Hex as [Hex|(Hex & Hcu & Harr)].
          + rewrite Hex in He. apply (i_ov _ _ _ _ HI _ _ He).
          + rewrite Hex in He. inversion He; subst e. unfold exit_ok. repeat split; assumption.
        - rewrite upd_other in He by exact Et. apply (i_ov _ _ _ _ HI _ _ He). }
      assert (HO1 : ord ovm rest).
      { intros c' e Hc' He. subst ovm. destruct (Nat.eq_dec (c_trip c') (c_trip c)) as [Et|Et].
        - rewrite Et, upd_same in He. destruct Hex as [Hex|(Hex & _ & _)].
          + rewrite Hex, <- Et in He. apply (HO c' e); [right; exact Hc'|exact He].
          + rewrite Hex in He. inversion He; subst e.
            rewrite Forall_forall in Hsorted. apply (Hsorted c' Hc'). symmetry. exact Et.
        - rewrite upd_other in He by exact Et. apply (HO c' e); [right; exact Hc'|exact He]. }
      destruct Hrest as [(E1 & E2 & E4)|(Hcb & e & Ee & Ef)].
      + unfold RInv. rewrite E1, E2, E4, Eov. split; assumption.
      + unfold RInv. rewrite Eov. split; [|exact HO1].
        assert (Hseq : (c_seq c <= c_seq e)%nat).
        { destruct Hex as [Hex|(Hex & _ & _)].
          - rewrite Hex in Ee. apply (HO c e); [left; reflexivity|exact Ee].
          - rewrite Hex in Ee. inversion Ee; subst e. apply le_n. }
        assert (Hovm : o_exit (ovm (c_trip c)) = Some e) by (subst ovm; rewrite upd_same; exact Ee).
        pose proof (fp_fold_inv ovm c e Hc Hcb Hadm Hovm Hseq (rfp_of d (c_from c)) (fun r H => H)
                                (r_taur st, r_steps st, r_acc st) HI1) as F.
        rewrite <- Ef in F. exact F.
  Qed.

  Lemma scan_inv : forall L st, Forall good L -> StronglySorted seq_desc L -> RInv L st ->
    RInv [] (fold_left (rev_step d p k false) L st).
  Proof.
    induction L as [|c L IH]; intros st HG HS HR; cbn [fold_left]; [exact HR|].
    apply StronglySorted_inv in HS. destruct HS as [HS1 HS2].
    apply IH; [exact (Forall_inv_tail HG)|exact HS1|].
    apply rev_step_inv; [exact (Forall_inv HG)|exact HS2|exact HR].
  Qed.

  (* -------------------------------------------------------------------------------------------- *)
  (* 4. best_access and rebuild                                                                     *)

  Definition BA (st : rstate) (o : option (Z * nat)) : Prop :=
    match o with
    | None => True
    | Some (t, n) =>
        exists j b ar, r_acc st n = Some j /\ js_enter j = Some b /\ row_of n (k_accfp k) = Some ar /\
                       t = c_dep b - fp_time ar - minw_eff p b /\ 0 <= t /\ k_arr k - t <= q_maxtt p
    end.

  Lemma best_access_spec st : BA st (best_access p k st).
  Proof.
    unfold best_access.
    assert (G : forall rows best, BA st best ->
      BA st (fold_left (fun best r =>
        match r_acc st (fp_node r) with
        | Some j =>
            match js_enter j, row_of (fp_node r) (k_accfp k) with
            | Some b, Some ar =>
                let t := c_dep b - fp_time ar - minw_eff p b in
                let bt := match best with Some (x, _) => x | None => -1 end in
                if (t >=? 0) && (k_arr k - t <=? q_maxtt p) && (t >? bt) && (t <? MAX_INT)
                then Some (t, fp_node ar) else best
            | _, _ => best
            end
        | None => best
        end) rows best)).
    { induction rows as [|r rows IH]; intros best HB; cbn [fold_left]; [exact HB|].
      apply IH.
      destruct (r_acc st (fp_node r)) as [j|] eqn:Ej; [|exact HB].
      destruct (js_enter j) as [b|] eqn:Eb; [|exact HB].
      destruct (row_of (fp_node r) (k_accfp k)) as [ar|] eqn:Er; [|exact HB].
      cbv zeta.
      destruct ((c_dep b - fp_time ar - minw_eff p b >=? 0) &&
                (k_arr k - (c_dep b - fp_time ar - minw_eff p b) <=? q_maxtt p) &&
                (c_dep b - fp_time ar - minw_eff p b >? match best with Some (x, _) => x | None => -1 end) &&
                (c_dep b - fp_time ar - minw_eff p b <? MAX_INT)) eqn:E; [|exact HB].
      peel E E4. peel E E3. peel E E2. apply Z.geb_le in E. apply Z.leb_le in E2.
      destruct (row_of_some _ _ _ Er) as [En _].
      unfold BA. rewrite En. exists j, b, ar. repeat split; assumption. }
    apply G. exact I.
  Qed.

  Lemma core_jleg taur j b e : core taur j b e -> jleg_ok d s p j = true.
  Proof.
    intros (H1 & H2 & H3 & H4 & H5 & H6 & H7 & H8 & H9 & (tr & F & A) & H11).
    unfold jleg_ok. rewrite H1, H2, H3, H6, Nat.eqb_refl.
    rewrite (conn_in_data_all d b Hwf H4), (conn_in_data_all d e Hwf H5), F, A, H8, H9.
    apply Nat.leb_le in H7. rewrite H7. reflexivity.
  Qed.

  Lemma rebuild_stop fuel steps cur acc last :
    js_enter cur = None \/ js_exit cur = None -> rebuild fuel steps cur acc last = Some (acc, last).
  Proof.
    intros H. destruct fuel; cbn [rebuild]; destruct (js_enter cur); destruct (js_exit cur);
      try reflexivity; destruct H; discriminate.
  Qed.

  Lemma rebuild_zero steps cur acc last b e :
    js_enter cur = Some b -> js_exit cur = Some e -> rebuild 0 steps cur acc last = None.
  Proof. intros H1 H2. cbn [rebuild]. rewrite H1, H2. reflexivity. Qed.

  Lemma rebuild_step f steps cur acc last b e :
    js_enter cur = Some b -> js_exit cur = Some e ->
    rebuild (S f) steps cur acc last =
    rebuild f steps (steps (c_to e))
            ((match acc with [] => [] | _ :: _ => set_last_walk acc (js_walk cur) (js_dist cur) end) ++ [cur])
            (Some (c_to e)).
  Proof. intros H1 H2. cbn [rebuild]. rewrite H1, H2. reflexivity. Qed.

  Lemma set_last_walk_snoc l x w dd : set_last_walk (l ++ [x]) w dd = l ++ [set_walk x w dd].
  Proof.
    induction l as [|a l IH]; [reflexivity|].
    change ((a :: l) ++ [x]) with (a :: (l ++ [x])).
    destruct (l ++ [x]) as [|y r] eqn:E.
    - destruct l; discriminate.
    - change (set_last_walk (a :: y :: r) w dd) with (a :: set_last_walk (y :: r) w dd).
      rewrite IH. reflexivity.
  Qed.

  Lemma match_snoc (l : list jstep) x w dd :
    (match l ++ [x] with [] => [] | _ :: _ => set_last_walk (l ++ [x]) w dd end) = l ++ [set_walk x w dd].
  Proof.
    rewrite set_last_walk_snoc. destruct l; reflexivity.
  Qed.

  Lemma jchain_cons2 ready x y r :
    jchain_ok d p ready (x :: y :: r) =
    match js_enter x, js_exit x with
    | Some b, Some e =>
        (ready + minw_true p b <=? c_dep b) &&
        match js_enter y with
        | Some b' =>
            (if Nat.eqb (c_to e) (c_from b') then js_walk x =? 0
             else has_row (fp_of d (c_to e)) (c_from b') (js_walk x)) &&
            (js_walk x <=? q_maxtr p) && jchain_ok d p (c_arr e + js_walk x) (y :: r)
        | None => false
        end
    | _, _ => false
    end.
  Proof. reflexivity. Qed.

  Lemma jchain_one ready x :
    jchain_ok d p ready [x] =
    match js_enter x, js_exit x with
    | Some b, Some e => (ready + minw_true p b <=? c_dep b) && true
    | _, _ => false
    end.
  Proof. reflexivity. Qed.

  Lemma snoc_heads (l : list jstep) x x' y : js_enter x' = js_enter x ->
    exists h t h' t', l ++ [x] = h :: t /\ (l ++ [x']) ++ [y] = h' :: t' /\ js_enter h' = js_enter h.
  Proof.
    intros E. destruct l as [|a l].
    - exists x, [], x', [y]. repeat split. exact E.
    - exists a, (l ++ [x]), a, ((l ++ [x']) ++ [y]). repeat split.
  Qed.

  Lemma jchain_snoc : forall l ready x y w dd b' e,
    jchain_ok d p ready (l ++ [x]) = true ->
    js_exit x = Some e -> js_enter y = Some b' -> is_some (js_exit y) = true ->
    (if Nat.eqb (c_to e) (c_from b') then w =? 0 else has_row (fp_of d (c_to e)) (c_from b') w) = true ->
    w <= q_maxtr p -> c_arr e + w + minw_true p b' <= c_dep b' ->
    jchain_ok d p ready ((l ++ [set_walk x w dd]) ++ [y]) = true.
  Proof.
    induction l as [|a l IH]; intros ready x y w dd b' e H Hx Hy Hy2 Hrow Hw Ht.
    - change (jchain_ok d p ready [x] = true) in H. rewrite jchain_one in H.
      change (jchain_ok d p ready [set_walk x w dd; y] = true). rewrite jchain_cons2.
      change (js_enter (set_walk x w dd)) with (js_enter x).
      change (js_exit (set_walk x w dd)) with (js_exit x).
      change (js_walk (set_walk x w dd)) with w.
      destruct (js_enter x) as [b|]; [|discriminate]. rewrite Hx in *. rewrite Hy, Hrow.
      rewrite jchain_one, Hy. destruct (js_exit y); [|discriminate].
      peel H H2. rewrite H. cbn [andb].
      apply Z.leb_le in Hw. rewrite Hw. cbn [andb]. rewrite andb_true_r. apply Z.leb_le. lia.
    - destruct (snoc_heads l x (set_walk x w dd) y eq_refl) as (h & t & h' & t' & E1 & E2 & E3).
      specialize (IH (match js_exit a with Some ea => c_arr ea + js_walk a | None => 0 end) x y w dd b' e).
      change ((a :: l) ++ [x]) with (a :: (l ++ [x])) in H.
      change (((a :: l) ++ [set_walk x w dd]) ++ [y]) with (a :: ((l ++ [set_walk x w dd]) ++ [y])).
      rewrite E1 in H, IH. rewrite E2 in *. rewrite jchain_cons2 in H. rewrite jchain_cons2.
      destruct (js_enter a) as [ba|]; [|discriminate]. destruct (js_exit a) as [ea|]; [|discriminate].
      rewrite E3. destruct (js_enter h) as [bh|]; [|rewrite andb_false_r in H; discriminate].
      peel H H4. peel H4 H5. rewrite H, H4. cbn [andb]. apply IH; assumption.
  Qed.

  Lemma rebuild_inv taur steps racc ov ready b1 :
    Inv taur steps racc ov ->
    forall fuel l x ex legs lastn,
      js_exit x = Some ex -> c_arr ex <= taur (c_to ex) -> In ex (all_conns d) ->
      forallb (jleg_ok d s p) (l ++ [x]) = true ->
      jchain_ok d p ready (l ++ [x]) = true ->
      first_board (l ++ [x]) = Some b1 ->
      rebuild fuel steps (steps (c_to ex)) (l ++ [x]) (Some (c_to ex)) = Some (legs, lastn) ->
      forallb (jleg_ok d s p) legs = true /\ jchain_ok d p ready legs = true /\ first_board legs = Some b1 /\
      exists el, last_alight legs = Some el /\ lastn = Some (c_to el) /\ In el (all_conns d) /\
                 js_enter (steps (c_to el)) = None /\ c_arr el <= taur (c_to el).
  Proof.
    intros HI. induction fuel as [|f IH]; intros l x ex legs lastn Hx Harr Hex Hall Hchain Hfirst Hreb.
    - destruct (js_enter (steps (c_to ex))) as [b'|] eqn:Eb.
      + destruct (i_lab _ _ _ _ HI _ _ Eb) as (e' & (C1 & C2 & _) & _).
        rewrite (rebuild_zero _ _ _ _ b' e' C1 C2) in Hreb. discriminate.
      + rewrite rebuild_stop in Hreb by (left; exact Eb). inversion Hreb; subst legs lastn.
        split; [exact Hall|]. split; [exact Hchain|]. split; [exact Hfirst|].
        exists ex. unfold last_alight. rewrite rev_unit. repeat split; assumption.
    - destruct (js_enter (steps (c_to ex))) as [b'|] eqn:Eb.
      + destruct (i_lab _ _ _ _ HI _ _ Eb) as (e' & HC & (r & R1 & R2 & R3) & Hmax & Htau).
        pose proof HC as (C1 & C2 & C3 & C4 & C5 & C6 & C7 & C8 & C9 & C10 & C11).
        rewrite (rebuild_step _ _ _ _ _ b' e' C1 C2) in Hreb. rewrite match_snoc in Hreb.
        set (cur := steps (c_to ex)) in *.
        apply (IH (l ++ [set_walk x (js_walk cur) (js_dist cur)]) cur e' legs lastn); try assumption.
        * rewrite forallb_app in Hall |- *. peel Hall Hx1. rewrite forallb_app, Hall. cbn [andb].
          change (forallb (jleg_ok d s p) [set_walk x (js_walk cur) (js_dist cur)])
            with (forallb (jleg_ok d s p) [x]).
          rewrite Hx1. cbn [forallb andb]. rewrite (core_jleg _ _ _ _ HC). reflexivity.
        * pose proof (conn_from_node d b' Hwf C4) as Hnode.
          destruct (wf_rfp_row d Hwf (c_from b') Hnode r R1) as [W1 W2].
          apply (jchain_snoc l ready x cur (js_walk cur) (js_dist cur) b' ex); try assumption.
          -- rewrite C2. reflexivity.
          -- rewrite R2, R3 in W1. rewrite R2, R3 in W2.
             destruct (Nat.eqb (c_to ex) (c_from b')) eqn:En; [|exact W1].
             apply Nat.eqb_eq in En. apply Z.eqb_eq. apply W2. exact En.
          -- rewrite <- minw_eff_true. lia.
        * destruct (snoc_heads l x (set_walk x (js_walk cur) (js_dist cur)) cur eq_refl)
            as (h & t & h' & t' & E1 & E2 & E3).
          rewrite E2. rewrite E1 in Hfirst. cbn [first_board] in *. rewrite E3. exact Hfirst.
      + rewrite rebuild_stop in Hreb by (left; exact Eb). inversion Hreb; subst legs lastn.
        split; [exact Hall|]. split; [exact Hchain|]. split; [exact Hfirst|].
        exists ex. unfold last_alight. rewrite rev_unit. repeat split; assumption.
  Qed.

End Invariant.

(* ---------------------------------------------------------------------------------------------- *)
(* 5. the theorem                                                                                   *)

Record rev_pre (d : data) (s : scenario) (p : params) (acc egr : list fprow) (k : calc) : Prop := {
  rp_set : k_set k = conn_set d s;
  rp_acc : k_accfp k = acc;
  rp_egr : k_egrfp k = egr;
  rp_dis : forall t, k_disabled k t = disabled_of d p (conn_set d s) t;
  rp_steps : forall n, k_rsteps k n = seed_steps egr n;
  rp_taur : forall n, k_taur k n = match row_of n egr with Some r => k_arr k - fp_time r | None => -1 end;
  rp_exit : forall t, o_exit (k_ov k t) = None;
  rp_dep : k_dep k = -1 \/ k_dep k = q_time p
}.

Lemma seed_steps_enter rows n : js_enter (seed_steps rows n) = None.
Proof.
  unfold seed_steps.
  assert (G : forall rows (m : nat -> jstep), (forall x, js_enter (m x) = None) ->
              forall x, js_enter (fold_left (fun m r => upd m (fp_node r) (walk_step r)) rows m x) = None).
  { induction rows0 as [|r rows0 IH]; intros m Hm x; cbn [fold_left]; [apply Hm|].
    apply IH. intros y. unfold upd. destruct (Nat.eqb y (fp_node r)); [reflexivity|apply Hm]. }
  apply G. intros x. reflexivity.
Qed.

Lemma wf_params_minw p : wf_params_b p = true -> 0 <= q_minw p.
Proof.
  unfold wf_params_b. intros H. peel H P8. peel H P7. peel H P6. peel H P5. peel H P4. peel H P3.
  apply Z.leb_le in P3. exact P3.
Qed.

(* the invariant holds in the final state of the scan *)
Lemma rev_scan_inv d s p acc egr k st :
  wf_data_b d = true -> wf_params_b p = true -> rev_pre d s p acc egr k ->
  rev_scan d p k false = Ok st ->
  Inv d s p k (r_taur st) (r_steps st) (r_acc st) (r_ov st).
Proof.
  intros Hwf Hp Hpre Hscan. pose proof (wf_params_minw p Hp) as Hminw.
  unfold rev_scan in Hscan. destruct (rev_entry (k_set k) (hour_of (k_arr k) + 1)) as [i|]; [|discriminate].
  rewrite (rp_set _ _ _ _ _ _ Hpre) in Hscan. inversion Hscan as [Hst]. clear Hscan.
  set (L := skipn i (cs_rev (conn_set d s))).
  assert (HG : Forall (good d s p k) L).
  { apply Forall_forall. intros c Hc. subst L. apply in_skipn in Hc. apply cs_rev_in in Hc.
    destruct Hc as [Hc Hm]. split; [exact Hc|]. intros Hdis.
    apply (admitted_bridge d s p (c_trip c) (wf_nodup_trips d Hwf)). split; [exact Hm|].
    rewrite <- (rp_dis _ _ _ _ _ _ Hpre). exact Hdis. }
  assert (HS : StronglySorted seq_desc L).
  { subst L. apply StronglySorted_skipn. apply cs_rev_seq_sorted. exact Hwf. }
  assert (H0 : RInv d s p k L (rev_init k)).
  { unfold RInv, rev_init. cbn [r_taur r_steps r_acc r_ov]. split.
    - constructor.
      + intros n b Hb. rewrite (rp_steps _ _ _ _ _ _ Hpre), seed_steps_enter in Hb. discriminate.
      + intros n _. reflexivity.
      + intros t e He. rewrite (rp_exit _ _ _ _ _ _ Hpre) in He. discriminate.
      + intros n j Hj. discriminate.
    - intros c' e _ He. rewrite (rp_exit _ _ _ _ _ _ Hpre) in He. discriminate. }
  destruct (scan_inv d s p k Hminw L (rev_init k) HG HS H0) as [HI _]. exact HI.
Qed.

(* the theorem without the two hypotheses the proof does not use (wf_tables_b, 0 <= k_arr k), and with
   the first-waiting cap of the stored access candidate (last conjunct) *)
Lemma rev_journey_ok_gen_cap : forall d s p acc egr k st bestdep node start fuel legs last,
  wf_data_b d = true -> wf_params_b p = true ->
  rev_pre d s p acc egr k ->
  rev_scan d p k false = Ok st ->
  best_access p k st = Some (bestdep, node) ->
  r_acc st node = Some start ->
  rebuild fuel (r_steps st) start [] None = Some (legs, last) ->
  exists ar er ln,
    last = Some ln /\ row_of node acc = Some ar /\ row_of ln egr = Some er /\
    journey_ok_b d s p acc egr bestdep (walk_step ar :: legs ++ [walk_step er]) = true /\
    (* limits that C02 needs *)
    0 <= bestdep /\ k_arr k - bestdep <= q_maxtt p /\
    (exists el, last_alight legs = Some el /\ c_arr el + fp_time er <= k_arr k) /\
    (k_dep k <> -1 -> k_dep k <= bestdep) /\
    (exists b1, first_board legs = Some b1 /\ c_from b1 = node /\
       (k_dep k = -1 \/ q_maxfw p <= 0 \/ c_dep b1 - k_dep k - fp_time ar <= q_maxfw p)).
Proof.
  intros d s p acc egr k st bestdep node start fuel legs last Hwf Hp Hpre Hscan Hbest Hstart Hreb.
  pose proof (rev_scan_inv d s p acc egr k st Hwf Hp Hpre Hscan) as HI.
  pose proof (best_access_spec p k st) as HB. rewrite Hbest in HB.
  destruct HB as (j & b & ar & Bj & Bb & Bar & Bt & B0 & Bspan).
  rewrite Hstart in Bj. inversion Bj; subst j. clear Bj.
  destruct (i_acc _ _ _ _ _ _ _ _ HI node start Hstart) as (b0 & e0 & HC & Hfrom & Hwalk & Hdep & Hcap).
  pose proof HC as (C1 & C2 & C3 & C4 & C5 & C6 & C7 & C8 & C9 & C10 & C11).
  rewrite Bb in C1. inversion C1; subst b0. clear C1.
  destruct fuel as [|f]; [rewrite (rebuild_zero _ _ _ _ b e0 Bb C2) in Hreb; discriminate|].
  rewrite (rebuild_step _ _ _ _ _ b e0 Bb C2) in Hreb.
  change (([] : list jstep) ++ [start]) with ([] ++ [start]) in Hreb.
  destruct (rebuild_inv d s p k Hwf (r_taur st) (r_steps st) (r_acc st) (r_ov st) (bestdep + fp_time ar) b HI
                        f [] start e0 legs last C2 C11 C5) as (R1 & R2 & R3 & el & R4 & R5 & R6 & R7 & R8).
  - cbn [app forallb]. rewrite (core_jleg d s p Hwf _ _ _ _ HC). reflexivity.
  - cbn [app]. rewrite jchain_one, Bb, C2. rewrite andb_true_r. apply Z.leb_le.
    rewrite <- minw_eff_true. lia.
  - cbn [app first_board]. exact Bb.
  - exact Hreb.
  - pose proof (i_seed _ _ _ _ _ _ _ _ HI (c_to el) R7) as Hseed.
    rewrite (rp_taur _ _ _ _ _ _ Hpre) in Hseed.
    pose proof (conn_arr_nonneg d el Hwf R6) as Hnn.
    destruct (row_of (c_to el) egr) as [er|] eqn:Eer; [|lia].
    unfold fw_cap in Hcap. rewrite Hfrom in Hcap.
    rewrite (rp_acc _ _ _ _ _ _ Hpre) in Bar, Hdep, Hcap.
    exists ar, er, (c_to el).
    split; [exact R5|]. split; [exact Bar|]. split; [exact Eer|].
    split; [|split; [exact B0|split; [exact Bspan|split; [|split]]]].
    + unfold journey_ok_b. rewrite rev_unit. cbv beta iota zeta. rewrite rev_involutive.
      rewrite R1, R3, R4.
      destruct (row_of_some _ _ _ Bar) as [N1 N2]. destruct (row_of_some _ _ _ Eer) as [N3 N4].
      cbn [is_walk walk_step js_enter js_exit js_walk is_some negb andb]. rewrite R2.
      rewrite Hfrom, <- N1, (has_row_intro acc ar N2). rewrite <- N3, (has_row_intro egr er N4). reflexivity.
    + exists el. split; [exact R4|]. lia.
    + intros Hne. destruct Hdep as [Hdep|(a & Ha & Hle)]; [contradiction|].
      rewrite Bar in Ha. inversion Ha; subst a. lia.
    + exists b. split; [exact R3|]. split; [exact Hfrom|].
      destruct Hcap as [Hc|[Hc|(a & Ha & Hle)]]; [left; exact Hc|right; left; exact Hc|].
      rewrite Bar in Ha. inversion Ha; subst a. right. right. exact Hle.
Qed.

Lemma rev_journey_ok_gen : forall d s p acc egr k st bestdep node start fuel legs last,
  wf_data_b d = true -> wf_params_b p = true ->
  rev_pre d s p acc egr k ->
  rev_scan d p k false = Ok st ->
  best_access p k st = Some (bestdep, node) ->
  r_acc st node = Some start ->
  rebuild fuel (r_steps st) start [] None = Some (legs, last) ->
  exists ar er ln,
    last = Some ln /\ row_of node acc = Some ar /\ row_of ln egr = Some er /\
    journey_ok_b d s p acc egr bestdep (walk_step ar :: legs ++ [walk_step er]) = true /\
    (* limits that C02 needs *)
    0 <= bestdep /\ k_arr k - bestdep <= q_maxtt p /\
    (exists el, last_alight legs = Some el /\ c_arr el + fp_time er <= k_arr k) /\
    (k_dep k <> -1 -> k_dep k <= bestdep).
Proof.
  intros d s p acc egr k st bestdep node start fuel legs last Hwf Hp Hpre Hscan Hbest Hstart Hreb.
  destruct (rev_journey_ok_gen_cap d s p acc egr k st bestdep node start fuel legs last
                                   Hwf Hp Hpre Hscan Hbest Hstart Hreb)
    as (ar & er & ln & L1 & L2 & L3 & L4 & L5 & L6 & L7 & L8 & _).
  exists ar, er, ln. repeat (split; [assumption|]). exact L8.
Qed.

Theorem rev_journey_ok : forall d s p acc egr k st bestdep node start fuel legs last,
  wf_data_b d = true -> wf_tables_b d p acc egr = true -> wf_params_b p = true ->
  rev_pre d s p acc egr k -> 0 <= k_arr k ->
  rev_scan d p k false = Ok st ->
  best_access p k st = Some (bestdep, node) ->
  r_acc st node = Some start ->
  rebuild fuel (r_steps st) start [] None = Some (legs, last) ->
  exists ar er ln,
    last = Some ln /\ row_of node acc = Some ar /\ row_of ln egr = Some er /\
    journey_ok_b d s p acc egr bestdep (walk_step ar :: legs ++ [walk_step er]) = true /\
    (* limits that C02 needs *)
    0 <= bestdep /\ k_arr k - bestdep <= q_maxtt p /\
    (exists el, last_alight legs = Some el /\ c_arr el + fp_time er <= k_arr k) /\
    (k_dep k <> -1 -> k_dep k <= bestdep).
Proof.
  intros d s p acc egr k st bestdep node start fuel legs last Hwf _ Hp Hpre _.
  apply rev_journey_ok_gen; assumption.
Qed.

(* ---------------------------------------------------------------------------------------------- *)
(* 6. the two call sites of calc_reverse in calc_single start from a state satisfying rev_pre        *)

(* the forward scan never records an exit connection in the trip overlay *)
Lemma fwd_step_ov d p k all st c :
  f_ov (fwd_step d p k all st c) = f_ov st \/
  exists ov1, o_exit ov1 = o_exit (f_ov st (c_trip c)) /\
              f_ov (fwd_step d p k all st c) = upd (f_ov st) (c_trip c) ov1.
Proof.
  unfold fwd_step.
  destruct (f_stop st); [left; reflexivity|].
  destruct (c_dep c >=? k_dep k + k_minAcc k); [|left; reflexivity].
  destruct (k_disabled k (c_trip c)); [left; reflexivity|].
  match goal with
  | |- context [if ?b then {| f_tau := _ ; f_steps := _; f_ov := _; f_egr := _; f_count := _;
                             f_reached := _; f_tent := _; f_stop := true |} else _] => destruct b
  end; [left; reflexivity|].
  match goal with |- context [if ?b then _ else st] => destruct b end; [|left; reflexivity].
  right.
  set (ov1 := if c_cb c && negb (is_some (o_enter (f_ov st (c_trip c))))
              then {| o_usable := true; o_enter := Some c; o_enter_w := js_walk (f_steps st (c_from c));
                      o_exit := o_exit (f_ov st (c_trip c)); o_exit_w := o_exit_w (f_ov st (c_trip c)) |}
              else f_ov st (c_trip c)).
  exists ov1. split.
  { subst ov1. destruct (c_cb c && negb (is_some (o_enter (f_ov st (c_trip c))))); reflexivity. }
  destruct (c_cu c && is_some (o_enter ov1)); [|reflexivity].
  match goal with |- context [let '(_, _) := ?x in _] => destruct x as [re te] end.
  destruct (fold_left (fwd_fp_step p c (o_enter ov1)) (fp_of d (c_to c)) (f_tau st, f_steps st, f_egr st))
    as [[t1 s1] e1].
  reflexivity.
Qed.

Lemma fwd_scan_no_exit d p k all fs :
  (forall t, o_exit (k_ov k t) = None) -> fwd_scan d p k all = Ok fs -> forall t, o_exit (f_ov fs t) = None.
Proof.
  intros H0 Hscan. unfold fwd_scan in Hscan.
  destruct (fwd_entry (k_set k) (hour_of (k_dep k))) as [i|]; [|discriminate].
  inversion Hscan as [Hfs]. clear Hscan Hfs.
  assert (G : forall L st, (forall t, o_exit (f_ov st t) = None) ->
                           forall t, o_exit (f_ov (fold_left (fwd_step d p k all) L st) t) = None).
  { induction L as [|c L IH]; intros st Hst; cbn [fold_left]; [exact Hst|].
    apply IH. intros t. destruct (fwd_step_ov d p k all st c) as [E|(ov1 & E1 & E2)].
    - rewrite E. apply Hst.
    - rewrite E2. unfold upd. destruct (Nat.eqb t (c_trip c)); [rewrite E1|]; apply Hst. }
  apply G. exact H0.
Qed.

Lemma nodup_row_of_none a rows :
  negb (memb (fp_node a) (map fp_node rows)) = true -> row_of (fp_node a) rows = None.
Proof.
  intros H. apply negb_true_iff in H.
  destruct (row_of (fp_node a) rows) as [r|] eqn:E; [|reflexivity].
  apply row_of_some in E. destruct E as [E1 E2].
  assert (M : memb (fp_node a) (map fp_node rows) = true)
    by (apply memb_In; rewrite <- E1; apply in_map; exact E2).
  congruence.
Qed.

(* with distinct stops, "last write wins" (the seeding folds) and "first row wins" (row_of) agree *)
Lemma fold_upd_row_of (f : fprow -> Z) : forall rows m0 n,
  nodup_nat (map fp_node rows) = true ->
  fold_left (fun m r => upd m (fp_node r) (f r)) rows m0 n =
  match row_of n rows with Some r => f r | None => m0 n end.
Proof.
  induction rows as [|a rows IH]; intros m0 n Hnd; [reflexivity|].
  cbn [map nodup_nat] in Hnd. apply andb_prop in Hnd. destruct Hnd as [Hn Hnd].
  cbn [fold_left row_of]. rewrite (IH _ n Hnd).
  destruct (Nat.eqb (fp_node a) n) eqn:E.
  - apply Nat.eqb_eq in E. subst n. rewrite (nodup_row_of_none a rows Hn). apply upd_same.
  - apply Nat.eqb_neq in E. destruct (row_of n rows); [reflexivity|].
    apply upd_other. intros X. apply E. symmetry. exact X.
Qed.

Lemma wf_tables_nodup_egr d p acc egr : wf_tables_b d p acc egr = true -> nodup_nat (map fp_node egr) = true.
Proof. unfold wf_tables_b. intros H. peel H T6. peel H T5. peel H T4. exact T4. Qed.

(* reverse query: calc_single's second call site *)
Corollary calc_single_rev_pre_arrival d s p acc egr :
  wf_tables_b d p acc egr = true ->
  let k := mk_calc d p (conn_set d s) acc egr true true in
  rev_pre d s p acc egr (with_rev k (k_arr k) (-1) (k_taur k) (set_usable (k_ov k))).
Proof.
  intros Htab k. pose proof (wf_tables_nodup_egr d p acc egr Htab) as Hnd.
  constructor; try reflexivity.
  - intros n. unfold with_rev, k, mk_calc. cbn [k_taur k_arr]. unfold seed_taur.
    rewrite (fold_upd_row_of (fun r => (if q_fwd p then -1 else q_time p) - fp_time r) egr _ n Hnd). reflexivity.
  - left. reflexivity.
Qed.

(* departure query: the reverse scan that follows the forward scan (first call site) *)
Corollary calc_single_rev_pre_departure d s p acc egr fs best :
  wf_tables_b d p acc egr = true -> q_fwd p = true ->
  let k := mk_calc d p (conn_set d s) acc egr true true in
  fwd_scan d p k false = Ok fs ->
  rev_pre d s p acc egr
    (with_rev k best (k_dep k)
              (fold_left (fun m r => upd m (fp_node r) (best - fp_time r)) (k_egrfp k) (k_taur k)) (f_ov fs)).
Proof.
  intros Htab Hfwd k Hscan. pose proof (wf_tables_nodup_egr d p acc egr Htab) as Hnd.
  constructor; try reflexivity.
  - intros n. unfold with_rev, k, mk_calc. cbn [k_taur k_arr k_egrfp].
    rewrite (fold_upd_row_of (fun r => best - fp_time r) egr _ n Hnd).
    destruct (row_of n egr) as [r|] eqn:E; [reflexivity|].
    unfold seed_taur. rewrite (fold_upd_row_of (fun r => (if q_fwd p then -1 else q_time p) - fp_time r) egr _ n Hnd).
    rewrite E. reflexivity.
  - intros t. unfold with_rev. cbn [k_ov]. apply (fwd_scan_no_exit d p k false fs); [|exact Hscan].
    intros t0. reflexivity.
  - right. unfold with_rev, k, mk_calc. cbn [k_dep]. rewrite Hfwd. reflexivity.
Qed.

(* what calc_reverse hands to optimizeJourney, for every state satisfying the precondition
   (last conjunct: the first boarding respects the first-waiting cap) *)
Corollary calc_reverse_ok_cap d s p acc egr k res :
  wf_data_b d = true -> wf_params_b p = true ->
  rev_pre d s p acc egr k ->
  calc_reverse d p k = Ok res ->
  exists bestdep ar legs er el js1 used,
    journey_ok_b d s p acc egr bestdep (walk_step ar :: legs ++ [walk_step er]) = true /\
    optimize (OPT_FUEL d) d (walk_step ar :: legs ++ [walk_step er]) [] [] = OptDone js1 used /\
    res = (emit d p bestdep js1, used) /\
    0 <= bestdep /\ k_arr k - bestdep <= q_maxtt p /\ In ar acc /\ In er egr /\
    last_alight legs = Some el /\ c_arr el + fp_time er <= k_arr k /\
    (k_dep k <> -1 -> k_dep k <= bestdep) /\
    (exists b1, first_board legs = Some b1 /\ c_from b1 = fp_node ar /\
       (k_dep k = -1 \/ q_maxfw p <= 0 \/ c_dep b1 - k_dep k - fp_time ar <= q_maxfw p)).
Proof.
  intros Hwf Hp Hpre Hcalc. unfold calc_reverse in Hcalc.
  destruct (rev_scan d p k false) as [st| | | | | | | |] eqn:Hscan; try discriminate.
  cbn [bind] in Hcalc. destruct (r_count st =? 0); [discriminate|].
  unfold rev_journey in Hcalc.
  destruct (best_access p k st) as [[bestdep node]|] eqn:Hbest; [|discriminate].
  destruct (r_acc st node) as [start|] eqn:Hstart; [|discriminate].
  destruct (rebuild (REBUILD_FUEL d) (r_steps st) start [] None) as [[legs last0]|] eqn:Hreb; [|discriminate].
  destruct (rev_journey_ok_gen_cap d s p acc egr k st bestdep node start (REBUILD_FUEL d) legs last0
                                   Hwf Hp Hpre Hscan Hbest Hstart Hreb)
    as (ar & er & ln & L1 & L2 & L3 & L4 & L5 & L6 & (el & L7 & L8) & L9 & (b1 & L10 & L11 & L12)).
  rewrite (rp_acc _ _ _ _ _ _ Hpre), (rp_egr _ _ _ _ _ _ Hpre), L1, L2, L3 in Hcalc.
  destruct (optimize (OPT_FUEL d) d (walk_step ar :: legs ++ [walk_step er]) [] []) as [js1 used| |] eqn:Hopt;
    try discriminate.
  inversion Hcalc; subst res. clear Hcalc.
  exists bestdep, ar, legs, er, el, js1, used.
  split; [exact L4|]. split; [exact Hopt|]. split; [reflexivity|]. split; [exact L5|]. split; [exact L6|].
  split; [exact (proj2 (row_of_some _ _ _ L2))|]. split; [exact (proj2 (row_of_some _ _ _ L3))|].
  split; [exact L7|]. split; [exact L8|]. split; [exact L9|].
  exists b1. split; [exact L10|]. split; [|exact L12].
  rewrite L11. symmetry. exact (proj1 (row_of_some _ _ _ L2)).
Qed.

Corollary calc_reverse_ok d s p acc egr k res :
  wf_data_b d = true -> wf_params_b p = true ->
  rev_pre d s p acc egr k ->
  calc_reverse d p k = Ok res ->
  exists bestdep ar legs er el js1 used,
    journey_ok_b d s p acc egr bestdep (walk_step ar :: legs ++ [walk_step er]) = true /\
    optimize (OPT_FUEL d) d (walk_step ar :: legs ++ [walk_step er]) [] [] = OptDone js1 used /\
    res = (emit d p bestdep js1, used) /\
    0 <= bestdep /\ k_arr k - bestdep <= q_maxtt p /\ In ar acc /\ In er egr /\
    last_alight legs = Some el /\ c_arr el + fp_time er <= k_arr k /\
    (k_dep k <> -1 -> k_dep k <= bestdep).
Proof.
  intros Hwf Hp Hpre Hcalc.
  destruct (calc_reverse_ok_cap d s p acc egr k res Hwf Hp Hpre Hcalc)
    as (bestdep & ar & legs & er & el & js1 & used & L1 & L2 & L3 & L4 & L5 & L6 & L7 & L8 & L9 & L10 & _).
  exists bestdep, ar, legs, er, el, js1, used. repeat (split; [assumption|]). exact L10.
Qed.

Lemma wf_params_time p : wf_params_b p = true -> 0 <= q_time p.
Proof.
  unfold wf_params_b. intros H. peel H P8. peel H P7. peel H P6. peel H P5. peel H P4. peel H P3. peel H P2.
  apply Z.leb_le in H. exact H.
Qed.

(* calculateSingle: whatever it answers was built from a valid journey (both query directions);
   last conjunct: the first boarding of that journey respects the first-waiting cap of a departure query *)
Corollary calc_single_ok_cap d s p acc egr fresh res :
  wf_data_b d = true -> wf_tables_b d p acc egr = true -> wf_params_b p = true ->
  calc_single d (conn_set d s) p acc egr fresh = Ok res ->
  exists arr bestdep ar legs er el js1 used,
    journey_ok_b d s p acc egr bestdep (walk_step ar :: legs ++ [walk_step er]) = true /\
    optimize (OPT_FUEL d) d (walk_step ar :: legs ++ [walk_step er]) [] [] = OptDone js1 used /\
    res = (emit d p bestdep js1, used) /\
    0 <= bestdep /\ arr - bestdep <= q_maxtt p /\ In ar acc /\ In er egr /\
    last_alight legs = Some el /\ c_arr el + fp_time er <= arr /\
    (if q_fwd p
     then q_time p <= bestdep /\
          exists fs n0, fwd_scan d p (mk_calc d p (conn_set d s) acc egr true true) false = Ok fs /\
                        best_egress p (mk_calc d p (conn_set d s) acc egr true true) fs = Some (arr, n0)
     else arr = q_time p) /\
    (exists b1, first_board legs = Some b1 /\ c_from b1 = fp_node ar /\
       (q_fwd p = true -> q_maxfw p <= 0 \/ c_dep b1 - q_time p - fp_time ar <= q_maxfw p)).
Proof.
  intros Hwf Htab Hp Hcalc. pose proof (wf_params_time p Hp) as Htime.
  unfold calc_single in Hcalc.
  destruct (access_reason (negb fresh || nonempty acc) (negb fresh || nonempty egr)); [discriminate|].
  cbv zeta in Hcalc. set (k := mk_calc d p (conn_set d s) acc egr true true) in *.
  destruct (q_fwd p) eqn:Hf.
  - assert (Ek : k_dep k = q_time p) by (unfold k, mk_calc; cbn [k_dep]; rewrite Hf; reflexivity).
    assert (Eg : (k_dep k >? -1) = true) by (apply Z.gtb_lt; lia).
    rewrite Eg in Hcalc. cbn [andb] in Hcalc.
    destruct (fwd_scan d p k false) as [fs| | | | | | | |] eqn:Hscan; try discriminate.
    cbn [bind] in Hcalc. destruct (f_count fs =? 0); [discriminate|].
    destruct (best_egress p k fs) as [[best n0]|] eqn:Hbest; [|discriminate].
    pose proof (calc_single_rev_pre_departure d s p acc egr fs best Htab Hf Hscan) as Hpre.
    destruct (calc_reverse_ok_cap d s p acc egr _ res Hwf Hp Hpre Hcalc)
      as (bestdep & ar & legs & er & el & js1 & used & L1 & L2 & L3 & L4 & L5 & L6 & L7 & L8 & L9 & L10 &
          (b1 & L11 & L12 & L13)).
    exists best, bestdep, ar, legs, er, el, js1, used.
    unfold with_rev in L5, L9, L10, L13. cbn [k_arr k_dep] in L5, L9, L10, L13. fold k in L10, L13.
    rewrite Ek in L10, L13.
    repeat (split; [assumption|]). split; [split|].
    + apply L10. lia.
    + exists fs, n0. split; [reflexivity|exact Hbest].
    + exists b1. split; [exact L11|]. split; [exact L12|]. intros _.
      destruct L13 as [L13|[L13|L13]]; [lia|left; exact L13|right; exact L13].
  - rewrite andb_false_r in Hcalc.
    assert (Ek : k_arr k = q_time p) by (unfold k, mk_calc; cbn [k_arr]; rewrite Hf; reflexivity).
    destruct (k_arr k >? -1); [|discriminate].
    pose proof (calc_single_rev_pre_arrival d s p acc egr Htab) as Hpre. cbv zeta in Hpre. fold k in Hpre.
    destruct (calc_reverse_ok_cap d s p acc egr _ res Hwf Hp Hpre Hcalc)
      as (bestdep & ar & legs & er & el & js1 & used & L1 & L2 & L3 & L4 & L5 & L6 & L7 & L8 & L9 & L10 &
          (b1 & L11 & L12 & L13)).
    exists (q_time p), bestdep, ar, legs, er, el, js1, used.
    unfold with_rev in L5, L9. cbn [k_arr] in L5, L9. rewrite Ek in L5, L9.
    repeat (split; [assumption|]). split; [reflexivity|].
    exists b1. split; [exact L11|]. split; [exact L12|]. intros Hx. discriminate Hx.
Qed.

Corollary calc_single_ok d s p acc egr fresh res :
  wf_data_b d = true -> wf_tables_b d p acc egr = true -> wf_params_b p = true ->
  calc_single d (conn_set d s) p acc egr fresh = Ok res ->
  exists arr bestdep ar legs er el js1 used,
    journey_ok_b d s p acc egr bestdep (walk_step ar :: legs ++ [walk_step er]) = true /\
    optimize (OPT_FUEL d) d (walk_step ar :: legs ++ [walk_step er]) [] [] = OptDone js1 used /\
    res = (emit d p bestdep js1, used) /\
    0 <= bestdep /\ arr - bestdep <= q_maxtt p /\ In ar acc /\ In er egr /\
    last_alight legs = Some el /\ c_arr el + fp_time er <= arr /\
    (if q_fwd p
     then q_time p <= bestdep /\
          exists fs n0, fwd_scan d p (mk_calc d p (conn_set d s) acc egr true true) false = Ok fs /\
                        best_egress p (mk_calc d p (conn_set d s) acc egr true true) fs = Some (arr, n0)
     else arr = q_time p).
Proof.
  intros Hwf Htab Hp Hcalc.
  destruct (calc_single_ok_cap d s p acc egr fresh res Hwf Htab Hp Hcalc)
    as (arr & bestdep & ar & legs & er & el & js1 & used & L1 & L2 & L3 & L4 & L5 & L6 & L7 & L8 & L9 & L10 & _).
  exists arr, bestdep, ar, legs, er, el, js1, used. repeat (split; [assumption|]). exact L10.
Qed.

Print Assumptions rev_journey_ok.
Print Assumptions calc_single_rev_pre_arrival.
Print Assumptions calc_single_rev_pre_departure.
Print Assumptions calc_reverse_ok.
Print Assumptions calc_single_ok.
Print Assumptions calc_single_ok_cap.

(* non-vacuity: the hypotheses of calc_single_ok hold, and calc_single answers, in both directions *)
From TrV Require Import Examples.
Example calc_single_ok_nonvacuous :
  wf_data_b ex_data = true /\
  (forall fwd t, wf_tables_b ex_data (ex_params fwd t) ex_acc ex_egr = true) /\
  wf_params_b (ex_params true 35000) = true /\ wf_params_b (ex_params false 37000) = true /\
  is_some (match calc_single ex_data (conn_set ex_data scen_all) (ex_params true 35000) ex_acc ex_egr true with
           | Ok r => Some r | _ => None end) = true /\
  is_some (match calc_single ex_data (conn_set ex_data scen_all) (ex_params false 37000) ex_acc ex_egr true with
           | Ok r => Some r | _ => None end) = true.
Proof. vm_compute. repeat split; reflexivity. Qed.
