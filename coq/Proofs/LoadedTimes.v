(* Proofs/LoadedTimes.v — D13 / D15: whatever the cache files hold, time never goes backwards along a loaded trip and
   no loaded footpath row has a negative walking time; hence the itinerary rebuild loop (Termination.v) terminates on
   every state a server can reach by start-up and /updateCache.

   1. connections of a stop-time list that passes conn_times_ok (LoaderProofs.v): 0 <= dep <= arr for every
      connection, arr a <= dep b for a before b (by sequence number and by position in the list)
   2. every trip the loader accepts / load_schedules returns has such connections (in ANY dataset: mk_conns reads the
      stop times of the trip and the stops of whatever path the trip resolves to)
   3. Loader2: load_all, and every state /updateCache can reach from it with any files, keeps
        loaded_inv m  =  trip ids strictly ascending, stop times of every trip in order, footpath tables over mm_nodes,
                         every row of both footpath tables with a walking time >= 0 (D15)
      hence times_monotone, rfp_nodes_known and walks_nonneg of Termination.v hold for data_of m
   4. the rebuild loop terminates on such a state (only 0 <= q_minw p is asked of the request)
   5. regression for D15: the stop file with one negative walking time that made the labels cyclic (the request was
      never answered, model and real server) now loads with that row skipped and the request is answered. *)
From Coq Require Import List ZArith Bool Arith Lia.
From TrV Require Import Spec Optimal Examples Proofs.SortFilter Proofs.RevInv Proofs.Termination.
From TrV Require Import Loader Loader2 Proofs.LoaderProofs Proofs.Loader2Proofs.
Import ListNotations.
Local Open Scope Z_scope.

(* ---------------------------------------------------------------------------------------------- *)
(* 1. connections built from stop times in order                                                    *)

Lemma mk_conns_in_order_from : forall tid minw nodes seq times first c,
  conn_times_from first times = true -> In c (mk_conns tid minw seq nodes times) ->
  0 <= c_dep c /\ c_dep c <= c_arr c /\ (first = false -> first_arr times <= c_dep c).
Proof.
  intros tid minw. induction nodes as [|n0 ns IH]; intros seq times first c Ht H.
  - destruct H.
  - destruct ns as [|n1 ns']; [destruct H|].
    destruct times as [|s0 [|s1 ss]]; [destruct H|destruct H|].
    rewrite mk_conns_cons in H. apply conn_times_from_step in Ht. destruct Ht as [(T1 & T2 & T3) T4].
    destruct H as [H|H].
    + subst c. cbn [c_dep c_arr first_arr]. split; [exact T1|]. split; [exact T2|exact T3].
    + destruct (IH (S seq) (s1 :: ss) false c T4 H) as (H1 & H2 & H3).
      specialize (H3 eq_refl). cbn [first_arr] in H3 |- *.
      split; [exact H1|]. split; [exact H2|]. intros Hf. specialize (T3 Hf). lia.
Qed.

(* by sequence number *)
Lemma mk_conns_in_order_seq : forall tid minw nodes seq times first a b,
  conn_times_from first times = true ->
  In a (mk_conns tid minw seq nodes times) -> In b (mk_conns tid minw seq nodes times) ->
  (c_seq a < c_seq b)%nat -> c_arr a <= c_dep b.
Proof.
  intros tid minw. induction nodes as [|n0 ns IH]; intros seq times first a b Ht Ha Hb Hlt.
  - destruct Ha.
  - destruct ns as [|n1 ns']; [destruct Ha|].
    destruct times as [|s0 [|s1 ss]]; [destruct Ha|destruct Ha|].
    rewrite mk_conns_cons in Ha, Hb. apply conn_times_from_step in Ht. destruct Ht as [_ T4].
    destruct Ha as [Ha|Ha]; destruct Hb as [Hb|Hb].
    + subst a b. cbn [c_seq] in Hlt. lia.
    + subst a. cbn [c_arr].
      destruct (mk_conns_in_order_from tid minw (n1 :: ns') (S seq) (s1 :: ss) false b T4 Hb) as (_ & _ & H1).
      specialize (H1 eq_refl). cbn [first_arr] in H1. exact H1.
    + subst b. cbn [c_seq] in Hlt.
      destruct (mk_conns_seq_from tid minw (n1 :: ns') (S seq) (s1 :: ss) a Ha) as [H1 _]. lia.
    + apply (IH (S seq) (s1 :: ss) false a b T4 Ha Hb Hlt).
Qed.

(* by position: sequence numbers ascend along the list *)
Lemma mk_conns_split_seq : forall tid minw nodes seq times l1 a l2 b,
  mk_conns tid minw seq nodes times = l1 ++ a :: l2 -> In b l2 -> (c_seq a < c_seq b)%nat.
Proof.
  intros tid minw. induction nodes as [|n0 ns IH]; intros seq times l1 a l2 b Heq Hb.
  - cbn [mk_conns] in Heq. destruct l1; discriminate Heq.
  - destruct ns as [|n1 ns']; [cbn [mk_conns] in Heq; destruct l1; discriminate Heq|].
    destruct times as [|s0 [|s1 ss]]; [destruct l1; discriminate Heq|destruct l1; discriminate Heq|].
    rewrite mk_conns_cons in Heq. destruct l1 as [|x l1].
    + cbn [app] in Heq. injection Heq as Ha Hl2. subst a. cbn [c_seq].
      rewrite <- Hl2 in Hb.
      destruct (mk_conns_seq_from tid minw (n1 :: ns') (S seq) (s1 :: ss) b Hb) as [H1 _]. lia.
    + cbn [app] in Heq. injection Heq as _ Hrest.
      apply (IH (S seq) (s1 :: ss) l1 a l2 b Hrest Hb).
Qed.

Definition conns_in_order (l : list conn) : Prop :=
  (forall c, In c l -> 0 <= c_dep c <= c_arr c) /\
  (forall a b, In a l -> In b l -> (c_seq a < c_seq b)%nat -> c_arr a <= c_dep b) /\
  (forall l1 a l2 b l3, l = l1 ++ a :: l2 ++ b :: l3 -> c_arr a <= c_dep b).

(* 2(a), connection level: the connections made of stop times that pass the check never go back in time *)
Theorem mk_conns_in_order : forall tid minw nodes seq times,
  conn_times_ok times = true -> conns_in_order (mk_conns tid minw seq nodes times).
Proof.
  intros tid minw nodes seq times Hok. unfold conn_times_ok in Hok. split; [|split].
  - intros c Hc. destruct (mk_conns_in_order_from tid minw nodes seq times true c Hok Hc) as (H1 & H2 & _). lia.
  - intros a b Ha Hb Hlt. exact (mk_conns_in_order_seq tid minw nodes seq times true a b Hok Ha Hb Hlt).
  - intros l1 a l2 b l3 Heq.
    apply (mk_conns_in_order_seq tid minw nodes seq times true a b Hok).
    + rewrite Heq. apply in_or_app. right. left. reflexivity.
    + rewrite Heq. apply in_or_app. right. right. apply in_or_app. right. left. reflexivity.
    + apply (mk_conns_split_seq tid minw nodes seq times l1 a (l2 ++ b :: l3) b Heq).
      apply in_or_app. right. left. reflexivity.
Qed.

(* ---------------------------------------------------------------------------------------------- *)
(* 2. loaded trips                                                                                  *)

Corollary trip_conns_in_order : forall d t, conn_times_ok (t_times t) = true -> conns_in_order (trip_conns d t).
Proof. intros d t Hok. unfold trip_conns. apply mk_conns_in_order. exact Hok. Qed.

(* whatever the trip message held and in whatever dataset the accepted trip is placed *)
Theorem loaded_trip_conns_in_order : forall paths sv m t d,
  load_trip paths sv m = Some (Some t) -> conns_in_order (trip_conns d t).
Proof.
  intros paths sv m t d Hload. apply trip_conns_in_order.
  exact (load_trip_times_in_order paths sv m t Hload).
Qed.

Theorem load_schedules_conns_in_order : forall lines paths services files t d,
  In t (load_schedules lines paths services files) -> conns_in_order (trip_conns d t).
Proof.
  intros lines paths services files t d Hin. apply trip_conns_in_order.
  exact (load_schedules_times_in_order lines paths services files t Hin).
Qed.

(* dataset level: distinct trip ids + stop times in order = times_monotone of Termination.v *)
Lemma NoDup_map_inj : forall (A : Type) (kf : A -> nat) (l : list A) a b,
  NoDup (map kf l) -> In a l -> In b l -> kf a = kf b -> a = b.
Proof.
  intros A kf. induction l as [|x l IH]; intros a b Hnd Ha Hb E.
  - destruct Ha.
  - cbn [map] in Hnd. inversion Hnd as [|y ys Hnot Hnd']; subst y ys.
    destruct Ha as [Ha|Ha]; destruct Hb as [Hb|Hb].
    + congruence.
    + subst x. exfalso. apply Hnot. rewrite E. apply in_map. exact Hb.
    + subst x. exfalso. apply Hnot. rewrite <- E. apply in_map. exact Ha.
    + exact (IH a b Hnd' Ha Hb E).
Qed.

Theorem times_in_order_monotone : forall d,
  NoDup (map t_id (d_trips d)) -> (forall t, In t (d_trips d) -> conn_times_ok (t_times t) = true) ->
  times_monotone d.
Proof.
  intros d Hnd Hall.
  assert (Hsame : forall a b, In a (all_conns d) -> In b (all_conns d) -> c_trip a = c_trip b ->
                  exists tr, In tr (d_trips d) /\ In a (trip_conns d tr) /\ In b (trip_conns d tr)).
  { intros a b Ha Hb Et.
    destruct (all_conns_in d a Ha) as (tra & Htra & Hina).
    destruct (all_conns_in d b Hb) as (trb & Htrb & Hinb).
    assert (E : tra = trb).
    { apply (NoDup_map_inj trip t_id (d_trips d) tra trb Hnd Htra Htrb).
      rewrite <- (trip_conns_trip d tra a Hina), <- (trip_conns_trip d trb b Hinb). exact Et. }
    subst trb. exists tra. split; [exact Htra|]. split; assumption. }
  split.
  - intros c e Hc He Et Hseq.
    destruct (Hsame c e Hc He (eq_sym Et)) as (tr & Htr & Hinc & Hine).
    destruct (trip_conns_in_order d tr (Hall tr Htr)) as (O1 & O2 & _).
    destruct (Nat.eq_dec (c_seq c) (c_seq e)) as [Eq|Ne].
    + unfold trip_conns in Hinc, Hine.
      pose proof (mk_conns_find _ _ _ _ _ c Hinc) as Fc.
      pose proof (mk_conns_find _ _ _ _ _ e Hine) as Fe.
      rewrite Eq in Fc. rewrite Fc in Fe. inversion Fe; subst e.
      destruct (O1 c) as [_ Hle]; [exact Hinc|exact Hle].
    + assert (Hlt : (c_seq c < c_seq e)%nat) by lia.
      pose proof (O2 c e Hinc Hine Hlt) as M.
      destruct (O1 c Hinc) as [_ Hc1]. destruct (O1 e Hine) as [_ He1]. lia.
  - intros a b Ha Hb Et Hlt.
    destruct (Hsame a b Ha Hb Et) as (tr & Htr & Hina & Hinb).
    destruct (trip_conns_in_order d tr (Hall tr Htr)) as (_ & O2 & _).
    exact (O2 a b Hina Hinb Hlt).
Qed.

(* ---------------------------------------------------------------------------------------------- *)
(* 3. Loader2: start-up and every refresh                                                           *)

Definition trips_in_order (m : mem) : Prop := Forall (fun t => conn_times_ok (t_times t) = true) (mm_trips m).

Lemma trips_map_in_order : forall lines paths services files,
  Forall (fun t => conn_times_ok (t_times t) = true) (trips_map (load_schedules lines paths services files)).
Proof.
  intros lines paths services files. apply Forall_forall. intros t Hin. apply trips_map_in in Hin.
  exact (load_schedules_times_in_order lines paths services files t Hin).
Qed.

Theorem full_mem_times_in_order : forall f, trips_in_order (full_mem f).
Proof. intros f. unfold trips_in_order, full_mem, C_tr. cbn [mm_trips]. apply trips_map_in_order. Qed.

Lemma cut_times_in_order : forall n m, trips_in_order m -> trips_in_order (cut n m).
Proof.
  intros n m H. unfold trips_in_order, cut. cbn [mm_trips].
  destruct (Nat.leb 7 n); [exact H|constructor].
Qed.

(* 2(b): for ANY file states, every trip of the state a started server answers from has its stop times in order
   (a conjunct next to load_all_ok: mem_ok itself is unchanged) *)
Theorem load_all_times_in_order : forall f t,
  In t (mm_trips (fst (load_all f))) -> conn_times_ok (t_times t) = true.
Proof.
  intros f t Hin. unfold load_all in Hin. cbn [fst] in Hin. rewrite load_steps_eq in Hin. cbn [fst] in Hin.
  pose proof (cut_times_in_order (stop_stage f) (full_mem f) (full_mem_times_in_order f)) as Hall.
  unfold trips_in_order in Hall. rewrite Forall_forall in Hall. exact (Hall t Hin).
Qed.

Corollary load_all_conns_in_order : forall f t,
  In t (mm_trips (fst (load_all f))) -> conns_in_order (trip_conns (data_of (fst (load_all f))) t).
Proof. intros f t Hin. apply trip_conns_in_order. exact (load_all_times_in_order f t Hin). Qed.

(* the part of the server state the rebuild loop depends on; kept by start-up and by every /updateCache *)
Record loaded_inv (m : mem) : Prop := {
  li_ids : ssorted (map t_id (mm_trips m));
  li_times : trips_in_order m;
  li_tables : tables_ok (mm_nodes m) (mm_fp m) (mm_rfp m);
  li_walks : tables_nonneg (mm_fp m) (mm_rfp m) }.

Lemma mem_ok_loaded_inv : forall m, mem_ok m -> trips_in_order m -> tables_nonneg (mm_fp m) (mm_rfp m) -> loaded_inv m.
Proof.
  intros m Hok Ht Hw. constructor; [exact (ok_trips_sorted m Hok)|exact Ht|exact (ok_tables m Hok)|exact Hw].
Qed.

(* D15: for ANY file states, no row of the forward or reverse footpath tables has a negative walking time *)
Lemma full_mem_walks_nonneg : forall f, tables_nonneg (mm_fp (full_mem f)) (mm_rfp (full_mem f)).
Proof.
  intros f. unfold full_mem. cbn [mm_fp mm_rfp]. unfold C_nd.
  pose proof (load_nodes2_nonneg (f_nodes f) (Loader2.f_stop f)) as Hn.
  destruct (load_nodes2 (f_nodes f) (Loader2.f_stop f)) as [[[ids fp] rfp] r]. exact Hn.
Qed.

Theorem load_all_walks_nonneg : forall f,
  tables_nonneg (mm_fp (fst (load_all f))) (mm_rfp (fst (load_all f))).
Proof.
  intros f. unfold load_all. cbn [fst]. rewrite load_steps_eq. cbn [fst].
  unfold cut. cbn [mm_fp mm_rfp]. apply full_mem_walks_nonneg.
Qed.

Theorem load_all_loaded_inv : forall f, loaded_inv (fst (load_all f)).
Proof.
  intros f. apply mem_ok_loaded_inv; [apply load_all_ok| |apply load_all_walks_nonneg].
  unfold trips_in_order. apply Forall_forall. intros t Hin. exact (load_all_times_in_order f t Hin).
Qed.

Lemma mem_empty_loaded_inv : loaded_inv mem_empty.
Proof.
  constructor; unfold mem_empty, trips_in_order; cbn [mm_trips mm_nodes mm_fp mm_rfp map].
  - exact I.
  - constructor.
  - unfold tables_ok. repeat split; constructor.
  - split; constructor.
Qed.

Lemma reload_kind_loaded_inv : forall f k m, loaded_inv m -> loaded_inv (reload_kind f k m).
Proof.
  intros f k m [H1 H2 H3 H4]. destruct k; unfold reload_kind; try (constructor; assumption).
  - rewrite fst_reload_agencies. constructor; assumption.
  - rewrite fst_reload_services. constructor; assumption.
  - rewrite fst_reload_nodes.
    pose proof (load_nodes2_ok (f_nodes f) (Loader2.f_stop f)) as Hn.
    assert (Hn' : tables_ok (C_ids f) (snd (fst (C_nd f))) (snd (C_nd f))).
    { unfold C_ids, C_nd. destruct (load_nodes2 (f_nodes f) (Loader2.f_stop f)) as [[[ids fp] rfp] r]. exact (proj2 Hn). }
    constructor; [exact H1|exact H2|exact Hn'|].
    pose proof (full_mem_walks_nonneg f) as Hw. unfold full_mem in Hw. cbn [mm_fp mm_rfp] in Hw. exact Hw.
  - rewrite fst_reload_lines. constructor; assumption.
  - rewrite fst_reload_paths. constructor; assumption.
  - rewrite fst_reload_scenarios. constructor; assumption.
  - rewrite fst_reload_schedules. constructor.
    + cbn [mm_trips]. apply trips_map_sorted.
    + unfold trips_in_order. cbn [mm_trips]. apply trips_map_in_order.
    + exact H3.
    + exact H4.
Qed.

Lemma update_one_loaded_inv : forall f s k, loaded_inv (sv_mem s) -> loaded_inv (sv_mem (update_one f s k)).
Proof. intros f s k H. unfold update_one. cbn [sv_mem]. apply reload_kind_loaded_inv. exact H. Qed.

Lemma update_name_loaded_inv : forall f n s, loaded_inv (sv_mem s) -> loaded_inv (sv_mem (update_name f s n)).
Proof.
  intros f n. unfold update_name. generalize handler_order.
  induction l as [|k r IH]; intros s H; cbn [fold_left]; [exact H|].
  apply IH. destruct (selects n k); [apply update_one_loaded_inv; exact H|exact H].
Qed.

(* any /updateCache request (any names, any files now on disk), from any state that has the invariant *)
Theorem update_loaded_inv : forall f names s, loaded_inv (sv_mem s) -> loaded_inv (sv_mem (update f names s)).
Proof.
  intros f names. unfold update. induction names as [|n r IH]; intros s H; cbn [fold_left]; [exact H|].
  apply IH. apply update_name_loaded_inv. exact H.
Qed.

(* a started server (any files f0) after any sequence of /updateCache requests, each with its own files on disk *)
Fixpoint refreshes (l : list (fs * list cname)) (s : srv) : srv :=
  match l with
  | [] => s
  | (f, names) :: r => refreshes r (update f names s)
  end.

Theorem refreshes_loaded_inv : forall l s, loaded_inv (sv_mem s) -> loaded_inv (sv_mem (refreshes l s)).
Proof.
  induction l as [|[f names] r IH]; intros s H; cbn [refreshes]; [exact H|].
  apply IH. apply update_loaded_inv. exact H.
Qed.

Corollary server_loaded_inv : forall f0 l,
  loaded_inv (sv_mem (refreshes l {| sv_mem := fst (load_all f0); sv_dangling := [] |})).
Proof. intros f0 l. apply refreshes_loaded_inv. cbn [sv_mem]. apply load_all_loaded_inv. Qed.

(* what Termination.v asks of the dataset, from the invariant *)
Theorem loaded_times_monotone : forall m, loaded_inv m -> times_monotone (data_of m).
Proof.
  intros m [H1 H2 _ _]. apply times_in_order_monotone.
  - unfold data_of. cbn [d_trips]. apply ssorted_nodup. exact H1.
  - unfold data_of. cbn [d_trips]. unfold trips_in_order in H2. rewrite Forall_forall in H2. exact H2.
Qed.

Lemma rfp_of_in : forall d n r, In r (rfp_of d n) -> exists rows, assoc n (d_rfp d) = Some rows /\ In r rows.
Proof.
  intros d n r Hr. unfold rfp_of in Hr. destruct (assoc n (d_rfp d)) as [rows|]; [|destruct Hr].
  exists rows. split; [reflexivity|exact Hr].
Qed.

Theorem loaded_rfp_nodes_known : forall m, loaded_inv m -> rfp_nodes_known (data_of m).
Proof.
  intros m [_ _ H3 _] c r _ Hr.
  destruct (rfp_of_in (data_of m) (c_from c) r Hr) as (rows & Ha & Hin).
  unfold data_of in Ha. cbn [d_rfp] in Ha. unfold data_of. cbn [d_nodes].
  destruct H3 as [_ [_ [_ Hrfp]]].
  apply memb_true_in. exact (table_known_assoc _ _ (c_from c) rows r Hrfp Ha Hin).
Qed.

(* the walking-time condition in the form "every row of every reverse list" *)
Definition rfp_times_nonneg (d : data) : Prop :=
  forall n rows r, In (n, rows) (d_rfp d) -> In r rows -> 0 <= fp_time r.

Lemma rfp_times_nonneg_walks : forall d, rfp_times_nonneg d -> walks_nonneg d.
Proof.
  intros d H c r _ Hr.
  destruct (rfp_of_in d (c_from c) r Hr) as (rows & Ha & Hin).
  apply assoc_in in Ha. destruct Ha as [k Hk]. exact (H k rows r Hk Hin).
Qed.

(* D15: every row of the forward and of the reverse footpath table of a loaded state has 0 <= fp_time *)
Theorem loaded_footpath_times_nonneg : forall m, loaded_inv m ->
  (forall n rows r, In (n, rows) (d_fp (data_of m)) -> In r rows -> 0 <= fp_time r) /\ rfp_times_nonneg (data_of m).
Proof.
  intros m [_ _ _ [Hfp Hrfp]]. unfold rfp_times_nonneg, data_of. cbn [d_fp d_rfp].
  unfold table_nonneg, rows_nonneg in Hfp, Hrfp. rewrite Forall_forall in Hfp, Hrfp.
  split; intros n rows r Hin Hr.
  - specialize (Hfp (n, rows) Hin). cbn [snd] in Hfp. rewrite Forall_forall in Hfp. exact (Hfp r Hr).
  - specialize (Hrfp (n, rows) Hin). cbn [snd] in Hrfp. rewrite Forall_forall in Hrfp. exact (Hrfp r Hr).
Qed.

Theorem loaded_walks_nonneg : forall m, loaded_inv m -> walks_nonneg (data_of m).
Proof. intros m Hinv. apply rfp_times_nonneg_walks. exact (proj2 (loaded_footpath_times_nonneg m Hinv)). Qed.

Corollary load_all_footpath_times_nonneg : forall f,
  let d := data_of (fst (load_all f)) in
  (forall n r, In r (fp_of d n) -> 0 <= fp_time r) /\ (forall n r, In r (rfp_of d n) -> 0 <= fp_time r).
Proof.
  intros f d. destruct (loaded_footpath_times_nonneg _ (load_all_loaded_inv f)) as [Hfp Hrfp]. fold d in Hfp, Hrfp.
  split; intros n r Hr.
  - unfold fp_of in Hr. destruct (assoc n (d_fp d)) as [rows|] eqn:Ha; [|destruct Hr].
    apply assoc_in in Ha. destruct Ha as [k Hk]. exact (Hfp k rows r Hk Hr).
  - destruct (rfp_of_in d n r Hr) as (rows & Ha & Hin).
    apply assoc_in in Ha. destruct Ha as [k Hk]. exact (Hrfp k rows r Hk Hin).
Qed.

(* ---------------------------------------------------------------------------------------------- *)
(* 4. the rebuild loop on a loaded state                                                            *)

(* Whatever files were loaded and refreshed (loaded_inv), the rebuild loop of a single-route calculation ends within
   its fuel; the only thing asked of the request is a minimum waiting time >= 0 *)
Theorem loaded_rebuild_terminates : forall m s p acc egr k st node start,
  loaded_inv m -> 0 <= q_minw p -> rev_pre (data_of m) s p acc egr k ->
  rev_scan (data_of m) p k false = Ok st ->
  r_acc st node = Some start ->
  exists legs last, rebuild (REBUILD_FUEL (data_of m)) (r_steps st) start [] None = Some (legs, last).
Proof.
  intros m s p acc egr k st node start Hinv Hminw Hpre Hscan Hstart.
  exact (rebuild_terminates_mono (data_of m) s p acc egr k st node start (loaded_times_monotone m Hinv)
           (loaded_walks_nonneg m Hinv) (loaded_rfp_nodes_known m Hinv) Hminw Hpre Hscan Hstart).
Qed.

Theorem loaded_rebuild_terminates_allnodes : forall m s p acc egr k st node start,
  loaded_inv m -> 0 <= q_minw p -> rev_pre (data_of m) s p acc egr k ->
  rev_scan (data_of m) p k true = Ok st ->
  r_acc st node = Some start ->
  exists legs last, rebuild (REBUILD_FUEL (data_of m)) (r_steps st) start [] None = Some (legs, last).
Proof.
  intros m s p acc egr k st node start Hinv Hminw Hpre Hscan Hstart.
  exact (rebuild_terminates_allnodes_mono (data_of m) s p acc egr k st node start (loaded_times_monotone m Hinv)
           (loaded_walks_nonneg m Hinv) (loaded_rfp_nodes_known m Hinv) Hminw Hpre Hscan Hstart).
Qed.

(* so on a loaded state the reverse calculation can answer Hang only through the fuel of optimizeJourney *)
Corollary loaded_calc_reverse_hang_only_optimize : forall m s p acc egr k,
  loaded_inv m -> 0 <= q_minw p -> rev_pre (data_of m) s p acc egr k ->
  calc_reverse (data_of m) p k = Hang ->
  exists st bestdep node start legs ln ar er,
    rev_scan (data_of m) p k false = Ok st /\ best_access p k st = Some (bestdep, node) /\
    r_acc st node = Some start /\
    rebuild (REBUILD_FUEL (data_of m)) (r_steps st) start [] None = Some (legs, Some ln) /\
    row_of node (k_accfp k) = Some ar /\ row_of ln (k_egrfp k) = Some er /\
    optimize (OPT_FUEL (data_of m)) (data_of m) (walk_step ar :: legs ++ [walk_step er]) [] [] = OptHang.
Proof.
  intros m s p acc egr k Hinv Hminw Hpre H.
  exact (calc_reverse_hang_only_optimize_mono (data_of m) s p acc egr k (loaded_times_monotone m Hinv)
           (loaded_walks_nonneg m Hinv) (loaded_rfp_nodes_known m Hinv) Hminw Hpre H).
Qed.

Corollary loaded_rev_allnodes_loop_hang_only_optimize : forall m s p acc egr k st,
  loaded_inv m -> 0 <= q_minw p -> rev_pre (data_of m) s p acc egr k ->
  rev_scan (data_of m) p k true = Ok st ->
  forall nodes, rev_allnodes_loop (data_of m) p k st nodes = Hang ->
  exists n start legs ln er,
    In n nodes /\ r_acc st n = Some start /\
    rebuild (REBUILD_FUEL (data_of m)) (r_steps st) start [] None = Some (legs, Some ln) /\
    row_of ln (k_egrfp k) = Some er /\
    optimize (OPT_FUEL (data_of m)) (data_of m) (legs ++ [walk_step er]) [] [] = OptHang.
Proof.
  intros m s p acc egr k st Hinv Hminw Hpre Hscan.
  exact (rev_allnodes_loop_hang_only_optimize_mono (data_of m) s p acc egr k st (loaded_times_monotone m Hinv)
           (loaded_walks_nonneg m Hinv) (loaded_rfp_nodes_known m Hinv) Hminw Hpre Hscan).
Qed.

(* the server of Loader2: started on ANY files, refreshed any number of times with ANY files *)
Corollary server_rebuild_terminates : forall f0 l s p acc egr k st node start,
  let d := data_of (sv_mem (refreshes l {| sv_mem := fst (load_all f0); sv_dangling := [] |})) in
  0 <= q_minw p -> rev_pre d s p acc egr k ->
  rev_scan d p k false = Ok st -> r_acc st node = Some start ->
  exists legs last, rebuild (REBUILD_FUEL d) (r_steps st) start [] None = Some (legs, last).
Proof.
  intros f0 l s p acc egr k st node start d Hminw Hpre Hscan Hstart.
  exact (loaded_rebuild_terminates _ s p acc egr k st node start (server_loaded_inv f0 l) Hminw Hpre Hscan Hstart).
Qed.

Corollary server_rebuild_terminates_allnodes : forall f0 l s p acc egr k st node start,
  let d := data_of (sv_mem (refreshes l {| sv_mem := fst (load_all f0); sv_dangling := [] |})) in
  0 <= q_minw p -> rev_pre d s p acc egr k ->
  rev_scan d p k true = Ok st -> r_acc st node = Some start ->
  exists legs last, rebuild (REBUILD_FUEL d) (r_steps st) start [] None = Some (legs, last).
Proof.
  intros f0 l s p acc egr k st node start d Hminw Hpre Hscan Hstart.
  exact (loaded_rebuild_terminates_allnodes _ s p acc egr k st node start (server_loaded_inv f0 l) Hminw Hpre Hscan Hstart).
Qed.

(* ---------------------------------------------------------------------------------------------- *)
(* 5. regression for D15: a negative walking time in ONE stop file                                   *)

(* stops 1, 2, 3.  trip 1: 1 -> 2 [dep 100, arr 110]; trip 2: 2 -> 1 [90, 95]; trip 3: 2 -> 3 [50, 210];
   trip 4: 1 -> 3 [95, 200].  Arrival query at 300 from stop 1 (10 s walk) to stop 3 (10 s walk), minimum waiting 0. *)
Definition w_data : data :=
  {| d_nodes := [1; 2; 3]%nat;
     d_fp := [(1%nat, [row 1 0 0]); (2%nat, [row 2 0 0]); (3%nat, [row 3 0 0])];
     d_rfp := [(1%nat, [row 1 0 0]); (2%nat, [row 2 0 0]); (3%nat, [row 3 0 0])];
     d_lines := [{| l_id := 1; l_agency := 1; l_mode := 1 |}];
     d_paths := [{| p_id := 1; p_line := 1; p_nodes := [1; 2]%nat; p_dists := [0] |};
                 {| p_id := 2; p_line := 1; p_nodes := [2; 1]%nat; p_dists := [0] |};
                 {| p_id := 3; p_line := 1; p_nodes := [2; 3]%nat; p_dists := [1000] |};
                 {| p_id := 4; p_line := 1; p_nodes := [1; 3]%nat; p_dists := [1000] |}];
     d_trips := [{| t_id := 1; t_path := 1; t_service := 1; t_times := [st 100 100; st 110 110] |};
                 {| t_id := 2; t_path := 2; t_service := 1; t_times := [st 90 90; st 95 95] |};
                 {| t_id := 3; t_path := 3; t_service := 1; t_times := [st 50 50; st 210 210] |};
                 {| t_id := 4; t_path := 4; t_service := 1; t_times := [st 95 95; st 200 200] |}];
     d_scenarios := [scen_all] |}.
Definition w_params : params :=
  {| q_scenario := 1; q_time := 300; q_minw := 0; q_maxtt := MAX_INT; q_maxacc := 1200; q_maxegr := 1200;
     q_maxtr := 1200; q_maxfw := -1; q_fwd := false; q_except_lines := [] |}.
Definition w_acc : list fprow := [row 1 10 10].
Definition w_egr : list fprow := [row 3 10 10].

(* the healthy cache of w_data, except that the file of stop 2 gives its own walking time as -200 instead of 0
   (an Int16 in node.capnp: one flipped bit away from a small positive number) *)
Definition w_files : fs :=
  let f := encode_all w_data in
  {| f_nodes := f_nodes f;
     f_stop := fun n => if Nat.eqb n 2 then FDecoded [ {| fm_node := Some 2%nat; fm_time := -200; fm_dist := 0 |} ]
                        else Loader2.f_stop f n;
     f_datasources := f_datasources f; f_agencies := f_agencies f; f_services := f_services f;
     f_lines := f_lines f; f_paths := f_paths f; f_scenarios := f_scenarios f; f_line := f_line f |}.
Definition w_loaded : data := data_of (fst (load_all w_files)).

(* the dataset is well formed and encodable; from its healthy files the server answers the direct trip 4 *)
Example w_healthy :
  wf_data_b w_data = true /\ encodable_b w_data = true /\ wf_params_b w_params = true /\
  match route_answer (data_of (fst (load_all (encode_all w_data)))) scen_all w_params w_acc w_egr with
  | Ok (r, _) => rt_dep r = 85 /\ rt_arr r = 210 /\ rt_nboard r = 1
  | _ => False
  end.
Proof. vm_compute. repeat split; reflexivity. Qed.

(* the corrupted file loads without any error (status READY, no read error) and every trip passes the stop-time check;
   the row (2, -200) is skipped: stop 2 has no forward row left and only the self row the loader appends in its reverse list *)
Example w_loads :
  snd (load_all w_files) = ST_READY /\ snd (load_steps w_files) = false /\
  map t_id (d_trips w_loaded) = [1; 2; 3; 4]%nat /\
  fp_of w_loaded 2 = [] /\ rfp_of w_loaded 2 = [row 2 0 0] /\ rfp_of w_loaded 1 = [row 1 0 0; row 1 0 0].
Proof. vm_compute. repeat split; reflexivity. Qed.

(* ... and the request that was never answered before the repair gets the answer of the healthy files *)
Example w_answered :
  route_answer w_loaded scen_all w_params w_acc w_egr
  = route_answer (data_of (fst (load_all (encode_all w_data)))) scen_all w_params w_acc w_egr /\
  match route_answer w_loaded scen_all w_params w_acc w_egr with
  | Ok (r, _) => rt_dep r = 85 /\ rt_arr r = 210 /\ rt_nboard r = 1
  | _ => False
  end.
Proof. vm_compute. repeat split; reflexivity. Qed.

(* What the loader produced BEFORE the repair (the row kept in both tables of stop 2), written down as a dataset: on it
   the same request hangs.  Trip 3 labels stop 2 with 50 + 200 = 250, trip 1 (arriving at stop 2 at 110 <= 250) labels
   stop 1 with 100, trip 2 (arriving at stop 1 at 95 <= 100) relabels stop 2 with 90 + 200 = 290 > 250.  The labels read
   1 -(trip 1)-> 2 -(trip 2)-> 1: the rebuild loop runs out of any fuel (the C++ loop reverse_journey.cpp:48-58 never
   ends; confirmed on the real server).  So walks_nonneg cannot be dropped from Termination.rebuild_terminates_mono; the
   repaired loader is what establishes it. *)
Definition w_unrepaired : data :=
  {| d_nodes := d_nodes w_loaded;
     d_fp := [(1%nat, [row 1 0 0]); (2%nat, [row 2 (-200) 0]); (3%nat, [row 3 0 0])];
     d_rfp := [(1%nat, [row 1 0 0; row 1 0 0]); (2%nat, [row 2 (-200) 0; row 2 0 0]); (3%nat, [row 3 0 0; row 3 0 0])];
     d_lines := d_lines w_loaded; d_paths := d_paths w_loaded; d_trips := d_trips w_loaded;
     d_scenarios := d_scenarios w_loaded |}.

Example w_unrepaired_hangs : route_answer w_unrepaired scen_all w_params w_acc w_egr = Hang.
Proof. vm_compute. reflexivity. Qed.

Definition w_k : calc :=
  let k := mk_calc w_unrepaired w_params (conn_set w_unrepaired scen_all) w_acc w_egr true true in
  with_rev k (k_arr k) (-1) (k_taur k) (set_usable (k_ov k)).

Example w_unrepaired_labels :
  match rev_scan w_unrepaired w_params w_k false with
  | Ok s => map (fun n => (r_taur s n, option_map c_trip (js_enter (r_steps s n)),
                           option_map c_to (js_exit (r_steps s n)))) [1; 2; 3]%nat
            = [(100, Some 1%nat, Some 2%nat); (290, Some 2%nat, Some 1%nat); (290, None, None)] /\
            match r_acc s 1%nat with
            | Some start => rebuild (REBUILD_FUEL w_unrepaired) (r_steps s) start [] None = None /\
                            rebuild 1000 (r_steps s) start [] None = None
            | None => False
            end
  | _ => False
  end.
Proof. vm_compute. repeat split; reflexivity. Qed.

Example w_unrepaired_walks_fail : 0 <= q_minw w_params /\ ~ walks_nonneg w_unrepaired.
Proof.
  split; [vm_compute; discriminate|].
  intros H.
  assert (Hc : In {| c_trip := 3; c_seq := 1; c_from := 2; c_to := 3; c_dep := 50; c_arr := 210;
                     c_cb := true; c_cu := true; c_minw := -1 |} (all_conns w_unrepaired)).
  { vm_compute. right. right. left. reflexivity. }
  assert (Hr : In (row 2 (-200) 0) (rfp_of w_unrepaired 2)).
  { vm_compute. left. reflexivity. }
  pose proof (H _ _ Hc Hr) as Hneg. cbn [fp_time row] in Hneg. lia.
Qed.

(* the loaded state satisfies the invariant, so every request on it leaves the rebuild loop *)
Example w_loaded_inv : loaded_inv (fst (load_all w_files)) /\ walks_nonneg w_loaded.
Proof. split; [apply load_all_loaded_inv|apply loaded_walks_nonneg; apply load_all_loaded_inv]. Qed.

Print Assumptions mk_conns_in_order.
Print Assumptions loaded_trip_conns_in_order.
Print Assumptions load_schedules_conns_in_order.
Print Assumptions times_in_order_monotone.
Print Assumptions load_all_times_in_order.
Print Assumptions load_all_conns_in_order.
Print Assumptions load_all_loaded_inv.
Print Assumptions update_loaded_inv.
Print Assumptions server_loaded_inv.
Print Assumptions loaded_times_monotone.
Print Assumptions loaded_rfp_nodes_known.
Print Assumptions load_all_walks_nonneg.
Print Assumptions loaded_footpath_times_nonneg.
Print Assumptions load_all_footpath_times_nonneg.
Print Assumptions loaded_walks_nonneg.
Print Assumptions loaded_rebuild_terminates.
Print Assumptions loaded_rebuild_terminates_allnodes.
Print Assumptions loaded_calc_reverse_hang_only_optimize.
Print Assumptions loaded_rev_allnodes_loop_hang_only_optimize.
Print Assumptions server_rebuild_terminates.
Print Assumptions server_rebuild_terminates_allnodes.
Print Assumptions w_healthy.
Print Assumptions w_loads.
Print Assumptions w_answered.
Print Assumptions w_unrepaired_hangs.
Print Assumptions w_unrepaired_labels.
Print Assumptions w_unrepaired_walks_fail.
Print Assumptions w_loaded_inv.

(* OPEN (for "a server that loaded arbitrary files never answers Hang"): see Proofs/LoadedLoops.v for the two remaining
   fuel-bounded loops, optimize (OPT_FUEL) and count_transfers_fwd. *)
