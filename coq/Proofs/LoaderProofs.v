(* LoaderProofs.v — theorems about the decoded-message model of the cache loaders (Loader.v).
   A. totality / safety for ARBITRARY messages (C17, decoded level)
   B. round trip for healthy files encoding a well-formed dataset (C16, decoded level) *)
From TrV Require Import Spec Loader.
From Coq Require Import List ZArith Bool Arith Lia.
Import ListNotations.
Local Open Scope Z_scope.

(* ---------------------------------------------------------------------------------------------- *)
(* small examples (statements checked by computation before proving them)                          *)

Definition ex_paths : list path :=
  [ {| p_id := 10%nat; p_line := 1%nat; p_nodes := [1;2;3]%nat; p_dists := [5;5] |};
    {| p_id := 11%nat; p_line := 2%nat; p_nodes := [3;1]%nat; p_dists := [7] |} ].
Definition ex_st (a d : Z) : stoptime := {| st_arr := a; st_dep := d; st_cb := true; st_cu := false |}.
Definition ex_trips : list trip :=
  [ {| t_id := 100%nat; t_path := 10%nat; t_service := 7%nat; t_times := [ex_st 0 10; ex_st 20 30; ex_st 40 50] |};
    {| t_id := 101%nat; t_path := 11%nat; t_service := 8%nat; t_times := [ex_st 5 6; ex_st 9 9] |};
    {| t_id := 102%nat; t_path := 10%nat; t_service := 7%nat; t_times := [ex_st 100 110; ex_st 120 130; ex_st 140 150] |} ].
Definition ex_row (n : nat) (w : Z) : fprow := {| fp_node := n; fp_time := w; fp_dist := w * 2 |}.
Definition ex_row' (n : nat) (w dd : Z) : fprow := {| fp_node := n; fp_time := w; fp_dist := dd |}.
Definition ex_fp (n : nat) : list fprow :=
  match n with
  | 1%nat => [ex_row 1 0; ex_row 2 60]
  | 2%nat => [ex_row 1 70; ex_row 2 0; ex_row 3 30]
  | 3%nat => [ex_row 3 0]
  | _ => []
  end.
Definition ex_data : data :=
  {| d_nodes := [1;2;3]%nat;
     d_fp := map (fun n => (n, ex_fp n)) [1;2;3]%nat;
     d_rfp := map (fun n => (n, derive_rfp [1;2;3]%nat ex_fp n)) [1;2;3]%nat;
     d_lines := [ {| l_id := 1; l_agency := 0; l_mode := 0 |}; {| l_id := 2; l_agency := 0; l_mode := 1 |} ]%nat;
     d_paths := ex_paths; d_trips := ex_trips; d_scenarios := [] |}.

Example ex_data_wf : wf_data_b ex_data = true.
Proof. vm_compute. reflexivity. Qed.

Example ex_line_roundtrip_1 :
  load_line_file (d_paths ex_data) (map t_service (d_trips ex_data)) (FDecoded (encode_line_file ex_data 1%nat))
  = filter (fun t => Nat.eqb (trip_line ex_data t) 1%nat) (d_trips ex_data).
Proof. vm_compute. reflexivity. Qed.

Example ex_line_roundtrip_2 :
  load_line_file (d_paths ex_data) (map t_service (d_trips ex_data)) (FDecoded (encode_line_file ex_data 2%nat))
  = filter (fun t => Nat.eqb (trip_line ex_data t) 2%nat) (d_trips ex_data).
Proof. vm_compute. reflexivity. Qed.

Example ex_nodes_roundtrip :
  load_nodes [1;2;3]%nat
    (fun n => FDecoded (map (fun r => {| fm_node := Some (fp_node r); fm_time := fp_time r; fm_dist := fp_dist r |}) (ex_fp n)))
  = NLOk (map (fun n => (n, ex_fp n)) [1;2;3]%nat) (map (fun n => (n, derive_rfp [1;2;3]%nat ex_fp n)) [1;2;3]%nat).
Proof. vm_compute. reflexivity. Qed.

(* malformed messages: surplus stop times, too few stop times, short side arrays, dangling path,
   unknown service, unparsable uuid; only the one fitting trip is kept, then the file is abandoned *)
Definition ex_tm (id path : uref) (arr dep cb cu : list Z) : trip_msg :=
  {| tm_id := id; tm_path := path; tm_arr := arr; tm_dep := dep; tm_cb := cb; tm_cu := cu |}.
Example ex_malformed :
  load_line_file ex_paths [7%nat]
    (FDecoded [ {| sm_service := Some 7%nat;
                   sm_trips := [ ex_tm (Some 1%nat) (Some 11%nat) [1;2;3] [1;2;3] [0;0;0] [0;0;0];   (* 3 times, 2 stops *)
                                 ex_tm (Some 2%nat) (Some 11%nat) [1] [1] [0] [0];                   (* 1 time *)
                                 ex_tm (Some 3%nat) (Some 11%nat) [1;2] [1] [0;0] [0;0];             (* short dep *)
                                 ex_tm (Some 4%nat) (Some 99%nat) [1;2] [1;2] [0;0] [0;0];           (* dangling path *)
                                 ex_tm (Some 5%nat) (Some 10%nat) [1;2] [1;2;3] [1;0;0] [0;1;1;1] ]  (* fits: 2 of 3 stops *)
                |};
                {| sm_service := Some 9%nat;                                                       (* unknown service *)
                   sm_trips := [ ex_tm (Some 6%nat) (Some 11%nat) [1;2] [1;2] [0;0] [0;0] ] |};
                {| sm_service := Some 7%nat;
                   sm_trips := [ ex_tm None (Some 11%nat) [1;2] [1;2] [0;0] [0;0];                   (* bad uuid *)
                                 ex_tm (Some 8%nat) (Some 11%nat) [1;2] [1;2] [0;0] [0;0] ] |} ])
  = [ {| t_id := 5%nat; t_path := 10%nat; t_service := 7%nat;
         t_times := [ {| st_arr := 1; st_dep := 1; st_cb := true; st_cu := false |};
                      {| st_arr := 2; st_dep := 2; st_cb := false; st_cu := true |} ] |} ].
Proof. vm_compute. reflexivity. Qed.

(* D13: stop times that go backwards.  Trip 2: arrives at the second stop (5) before it left the first (10); trip 3:
   leaves the second stop (15) before it reached it (20); trip 4: leaves the first stop at -1.  All three are skipped and
   the file is read on.  Trip 5: the arrival at the first stop and the departure from the last one are not looked at. *)
Example ex_backwards_skipped :
  map t_id (load_line_file ex_paths [7%nat]
    (FDecoded [ {| sm_service := Some 7%nat;
                   sm_trips := [ ex_tm (Some 1%nat) (Some 10%nat) [0;20;40] [10;30;50] [1;1;1] [1;1;1];
                                 ex_tm (Some 2%nat) (Some 10%nat) [0;5;40] [10;30;50] [1;1;1] [1;1;1];
                                 ex_tm (Some 3%nat) (Some 10%nat) [0;20;40] [10;15;50] [1;1;1] [1;1;1];
                                 ex_tm (Some 4%nat) (Some 10%nat) [0;20;40] [-1;30;50] [1;1;1] [1;1;1];
                                 ex_tm (Some 5%nat) (Some 10%nat) [-1;20;40] [10;30;-1] [1;1;1] [1;1;1] ] |} ]))
  = [1; 5]%nat.
Proof. vm_compute. reflexivity. Qed.

(* ---------------------------------------------------------------------------------------------- *)
(* A. totality and safety for arbitrary messages                                                   *)

Lemma zip_times_length : forall arr dep cb cu,
  (length arr <= length dep)%nat -> (length arr <= length cb)%nat -> (length arr <= length cu)%nat ->
  length (zip_times arr dep cb cu) = length arr.
Proof.
  induction arr as [|a ar IHarr]; intros dep cb cu Hd Hb Hu.
  - reflexivity.
  - destruct dep as [|d dr]; [cbn [length] in Hd; lia|].
    destruct cb as [|b br]; [cbn [length] in Hb; lia|].
    destruct cu as [|u ur]; [cbn [length] in Hu; lia|].
    cbn [zip_times length]. cbn [length] in Hd, Hb, Hu.
    rewrite IHarr by lia. reflexivity.
Qed.

Definition trip_safe (paths : list path) (services : list nat) (t : trip) : Prop :=
  memb (t_service t) services = true /\
  exists p, find (fun p => Nat.eqb (p_id p) (t_path t)) paths = Some p /\
            (2 <= length (t_times t) <= length (p_nodes p))%nat.

(* what it takes for the loader to accept a trip message (inversion of load_trip) *)
Lemma load_trip_accepts : forall paths sv m t, load_trip paths sv m = Some (Some t) ->
  exists tid pid p,
    tm_id m = Some tid /\ tm_path m = Some pid /\
    find (fun p => Nat.eqb (p_id p) pid) paths = Some p /\
    (2 <= length (tm_arr m) <= length (p_nodes p))%nat /\
    (length (tm_arr m) <= length (tm_dep m))%nat /\ (length (tm_arr m) <= length (tm_cb m))%nat /\
    (length (tm_arr m) <= length (tm_cu m))%nat /\
    trip_times_in_order (tm_arr m) (tm_dep m) (length (tm_arr m)) = true /\
    t = {| t_id := tid; t_path := pid; t_service := sv;
           t_times := zip_times (tm_arr m) (firstn (length (tm_arr m)) (tm_dep m))
                                (firstn (length (tm_arr m)) (tm_cb m)) (firstn (length (tm_arr m)) (tm_cu m)) |}.
Proof.
  intros paths sv m t Hload.
  unfold load_trip in Hload.
  destruct (tm_id m) as [tid|] eqn:Hid; [|discriminate Hload].
  destruct (tm_path m) as [pid|] eqn:Hpid; [|discriminate Hload].
  destruct (find (fun p => Nat.eqb (p_id p) pid) paths) as [p|] eqn:Hfind; [|discriminate Hload].
  cbv zeta in Hload.
  destruct (Nat.ltb (length (tm_arr m)) 2 || Nat.ltb (length (p_nodes p)) (length (tm_arr m))
            || Nat.ltb (length (tm_dep m)) (length (tm_arr m))
            || Nat.ltb (length (tm_cb m)) (length (tm_arr m))
            || Nat.ltb (length (tm_cu m)) (length (tm_arr m))) eqn:Hcond; [discriminate Hload|].
  destruct (trip_times_in_order (tm_arr m) (tm_dep m) (length (tm_arr m))) eqn:Hord;
    cbn [negb] in Hload; [|discriminate Hload].
  apply orb_false_elim in Hcond. destruct Hcond as [Hcond Hcu].
  apply orb_false_elim in Hcond. destruct Hcond as [Hcond Hcb].
  apply orb_false_elim in Hcond. destruct Hcond as [Hcond Hdep].
  apply orb_false_elim in Hcond. destruct Hcond as [Hmin Hmax].
  apply Nat.ltb_ge in Hcu, Hcb, Hdep, Hmin, Hmax.
  injection Hload as Ht.
  exists tid, pid, p.
  repeat split; try reflexivity; try assumption; try lia. symmetry. exact Ht.
Qed.

Lemma load_trip_safe : forall paths services sv m t,
  memb sv services = true -> load_trip paths sv m = Some (Some t) -> trip_safe paths services t.
Proof.
  intros paths services sv m t Hsv Hload.
  destruct (load_trip_accepts paths sv m t Hload)
    as [tid [pid [p [Hid [Hpid [Hfind [Hn [Hdep [Hcb [Hcu [Hord Ht]]]]]]]]]]].
  subst t.
  unfold trip_safe. cbn [t_service t_path t_times].
  split; [exact Hsv|].
  exists p. split; [exact Hfind|].
  rewrite zip_times_length.
  - lia.
  - rewrite firstn_length. lia.
  - rewrite firstn_length. lia.
  - rewrite firstn_length. lia.
Qed.

Lemma load_trips_safe : forall paths services sv l acc,
  memb sv services = true -> Forall (trip_safe paths services) acc ->
  Forall (trip_safe paths services) (fst (load_trips paths sv l acc)).
Proof.
  intros paths services sv l.
  induction l as [|m r IHl]; intros acc Hsv Hacc.
  - cbn [load_trips fst]. exact Hacc.
  - cbn [load_trips].
    destruct (load_trip paths sv m) as [[t|]|] eqn:Hload.
    + apply IHl; [exact Hsv|].
      apply Forall_app. split; [exact Hacc|].
      constructor; [|constructor].
      exact (load_trip_safe paths services sv m t Hsv Hload).
    + apply IHl; assumption.
    + cbn [fst]. exact Hacc.
Qed.

Lemma load_scheds_safe : forall paths services l acc,
  Forall (trip_safe paths services) acc ->
  Forall (trip_safe paths services) (fst (load_scheds paths services l acc)).
Proof.
  intros paths services l.
  induction l as [|s r IHl]; intros acc Hacc.
  - cbn [load_scheds fst]. exact Hacc.
  - cbn [load_scheds].
    destruct (sm_service s) as [sv|] eqn:Hsvc; [|cbn [fst]; exact Hacc].
    destruct (memb sv services) eqn:Hmem; [|apply IHl; exact Hacc].
    pose proof (load_trips_safe paths services sv (sm_trips s) acc Hmem Hacc) as Htrips.
    destruct (load_trips paths sv (sm_trips s) acc) as [acc1 ok] eqn:Hlt.
    cbn [fst] in Htrips.
    destruct ok.
    + apply IHl. exact Htrips.
    + cbn [fst]. exact Htrips.
Qed.

Lemma load_line_file_safe : forall paths services f,
  Forall (trip_safe paths services) (load_line_file paths services f).
Proof.
  intros paths services f. unfold load_line_file.
  destruct f as [| |pre|msg].
  - constructor.
  - constructor.
  - apply load_scheds_safe. constructor.
  - apply load_scheds_safe. constructor.
Qed.

(* every trip the schedule loader produces, from ANY messages, refers to a path of the loaded paths, to a
   known service, and has between 2 and (stops of its path) stop times *)
Theorem load_schedules_safe : forall lines paths services files t,
  In t (load_schedules lines paths services files) ->
  memb (t_service t) services = true /\
  exists p, find (fun p => Nat.eqb (p_id p) (t_path t)) paths = Some p /\
            (2 <= length (t_times t) <= length (p_nodes p))%nat.
Proof.
  intros lines paths services files t Hin.
  unfold load_schedules in Hin.
  apply in_flat_map in Hin. destruct Hin as [l [_ Hin]].
  pose proof (load_line_file_safe paths services (files (l_id l))) as Hall.
  rewrite Forall_forall in Hall.
  exact (Hall t Hin).
Qed.

(* ---- stop times in order (D13) ---------------------------------------------------------------------- *)

(* what one round of the check loop demands of index i *)
Definition time_step_good (arr dep : list Z) (i : nat) : Prop :=
  0 <= nth i dep 0 /\ nth i dep 0 <= nth (S i) arr 0 /\ (i <> 0%nat -> nth i arr 0 <= nth i dep 0).

Lemma time_step_bad_false : forall arr dep i, time_step_bad arr dep i = false <-> time_step_good arr dep i.
Proof.
  intros arr dep i. unfold time_step_bad, time_step_good. split.
  - intros Hbad.
    apply orb_false_elim in Hbad. destruct Hbad as [Hbad H3].
    apply orb_false_elim in Hbad. destruct Hbad as [H1 H2].
    apply Z.ltb_ge in H1, H2.
    split; [exact H1|]. split; [exact H2|].
    intros Hi. apply Nat.eqb_neq in Hi. rewrite Hi in H3. cbn [negb andb] in H3.
    apply Z.ltb_ge in H3. exact H3.
  - intros [H1 [H2 H3]].
    apply orb_false_intro; [apply orb_false_intro|].
    + apply Z.ltb_ge. exact H1.
    + apply Z.ltb_ge. exact H2.
    + destruct (Nat.eqb i 0) eqn:Hi; [reflexivity|].
      cbn [negb andb]. apply Z.ltb_ge. apply H3. apply Nat.eqb_neq. exact Hi.
Qed.

Lemma trip_times_in_order_iff : forall arr dep n,
  trip_times_in_order arr dep n = true <-> (forall i, (i + 1 < n)%nat -> time_step_good arr dep i).
Proof.
  intros arr dep n. unfold trip_times_in_order. rewrite forallb_forall. split.
  - intros Hall i Hi.
    apply time_step_bad_false. apply negb_true_iff. apply Hall. apply in_seq. lia.
  - intros Hall i Hi. apply in_seq in Hi.
    apply negb_true_iff. apply time_step_bad_false. apply Hall. lia.
Qed.

(* the same three inequalities on a list of stop times: for consecutive stop times s0, s1 the connection leaves at a
   clock time (0 <= dep s0) and does not arrive before it leaves (dep s0 <= arr s1); at every stop but the first the
   vehicle does not leave before it arrived (arr s0 <= dep s0; `first` = s0 is the first stop of the trip) *)
Fixpoint conn_times_from (first : bool) (l : list stoptime) : bool :=
  match l with
  | [] => true
  | s0 :: r =>
      match r with
      | [] => true
      | s1 :: _ => (0 <=? st_dep s0) && (st_dep s0 <=? st_arr s1) && (first || (st_arr s0 <=? st_dep s0))
                   && conn_times_from false r
      end
  end.
Definition conn_times_ok (l : list stoptime) : bool := conn_times_from true l.

Lemma conn_times_from_step : forall first s0 s1 r,
  conn_times_from first (s0 :: s1 :: r) = true <->
  (0 <= st_dep s0 /\ st_dep s0 <= st_arr s1 /\ (first = false -> st_arr s0 <= st_dep s0)) /\
  conn_times_from false (s1 :: r) = true.
Proof.
  intros first s0 s1 r.
  change (conn_times_from first (s0 :: s1 :: r))
    with ((0 <=? st_dep s0) && (st_dep s0 <=? st_arr s1) && (first || (st_arr s0 <=? st_dep s0))
          && conn_times_from false (s1 :: r)).
  rewrite !andb_true_iff, !Z.leb_le. split.
  - intros [[[H1 H2] H3] H4]. split; [|exact H4]. split; [exact H1|]. split; [exact H2|].
    intros Hf. subst first. cbn [orb] in H3. apply Z.leb_le. exact H3.
  - intros [[H1 [H2 H3]] H4]. split; [|exact H4]. split; [split; [exact H1|exact H2]|].
    destruct first; [reflexivity|]. cbn [orb]. apply Z.leb_le. apply H3. reflexivity.
Qed.

Lemma conn_times_from_iff : forall l first,
  conn_times_from first l = true <->
  (forall i, (i + 1 < length l)%nat ->
     0 <= nth i (map st_dep l) 0 /\ nth i (map st_dep l) 0 <= nth (S i) (map st_arr l) 0 /\
     ((first = false \/ i <> 0%nat) -> nth i (map st_arr l) 0 <= nth i (map st_dep l) 0)).
Proof.
  induction l as [|s0 r IHl]; intros first.
  - split; [intros _ i Hi; cbn [length] in Hi; lia|intros _; reflexivity].
  - destruct r as [|s1 r'].
    + split; [intros _ i Hi; cbn [length] in Hi; lia|intros _; reflexivity].
    + rewrite conn_times_from_step. rewrite (IHl false). split.
      * intros [[H1 [H2 H3]] Hrest] i Hi. destruct i as [|j].
        -- cbn [map nth]. split; [exact H1|]. split; [exact H2|].
           intros [Hf|Hne]; [apply H3; exact Hf|exfalso; apply Hne; reflexivity].
        -- cbn [length] in Hi.
           assert (Hj : (j + 1 < length (s1 :: r'))%nat) by (cbn [length]; lia).
           destruct (Hrest j Hj) as [G1 [G2 G3]].
           change (nth (S j) (map st_dep (s0 :: s1 :: r')) 0) with (nth j (map st_dep (s1 :: r')) 0).
           change (nth (S (S j)) (map st_arr (s0 :: s1 :: r')) 0) with (nth (S j) (map st_arr (s1 :: r')) 0).
           change (nth (S j) (map st_arr (s0 :: s1 :: r')) 0) with (nth j (map st_arr (s1 :: r')) 0).
           split; [exact G1|]. split; [exact G2|]. intros _. apply G3. left. reflexivity.
      * intros Hall. split.
        -- assert (H0 : (0 + 1 < length (s0 :: s1 :: r'))%nat) by (cbn [length]; lia).
           destruct (Hall 0%nat H0) as [G1 [G2 G3]]. cbn [map nth] in G1, G2, G3.
           split; [exact G1|]. split; [exact G2|]. intros Hf. apply G3. left. exact Hf.
        -- intros j Hj.
           assert (Hsj : (S j + 1 < length (s0 :: s1 :: r'))%nat) by (cbn [length] in *; lia).
           destruct (Hall (S j) Hsj) as [G1 [G2 G3]].
           change (nth (S j) (map st_dep (s0 :: s1 :: r')) 0) with (nth j (map st_dep (s1 :: r')) 0) in G1, G2, G3.
           change (nth (S (S j)) (map st_arr (s0 :: s1 :: r')) 0) with (nth (S j) (map st_arr (s1 :: r')) 0) in G2.
           change (nth (S j) (map st_arr (s0 :: s1 :: r')) 0) with (nth j (map st_arr (s1 :: r')) 0) in G3.
           split; [exact G1|]. split; [exact G2|]. intros _. apply G3. right. discriminate.
Qed.

(* the loader's check on the message arrays of a stop-time list IS conn_times_ok of that list *)
Lemma trip_times_in_order_conn_times : forall l,
  trip_times_in_order (map st_arr l) (map st_dep l) (length l) = conn_times_ok l.
Proof.
  intros l. apply eq_true_iff_eq.
  rewrite trip_times_in_order_iff. unfold conn_times_ok. rewrite conn_times_from_iff.
  unfold time_step_good. split.
  - intros Hall i Hi. destruct (Hall i Hi) as [G1 [G2 G3]].
    split; [exact G1|]. split; [exact G2|].
    intros [Hf|Hne]; [discriminate Hf|apply G3; exact Hne].
  - intros Hall i Hi. destruct (Hall i Hi) as [G1 [G2 G3]].
    split; [exact G1|]. split; [exact G2|].
    intros Hne. apply G3. right. exact Hne.
Qed.

(* the stop times of a well-formed dataset pass *)
Lemma times_ok_conn_times_from : forall l first, times_ok l = true -> conn_times_from first l = true.
Proof.
  induction l as [|s0 r IHl]; intros first Hok; [reflexivity|].
  destruct r as [|s1 r']; [reflexivity|].
  change (times_ok (s0 :: s1 :: r'))
    with ((0 <=? st_arr s0) && (st_arr s0 <=? st_dep s0) && (st_dep s0 <? CLOCK_MAX) &&
          (st_dep s0 <=? st_arr s1) && times_ok (s1 :: r')) in Hok.
  apply andb_true_iff in Hok. destruct Hok as [Hok Hrest].
  apply andb_true_iff in Hok. destruct Hok as [Hok Hnext].
  apply andb_true_iff in Hok. destruct Hok as [Hok _].
  apply andb_true_iff in Hok. destruct Hok as [Harr Hdep].
  apply Z.leb_le in Hnext, Harr, Hdep.
  apply conn_times_from_step. split.
  - split; [lia|]. split; [exact Hnext|]. intros _. exact Hdep.
  - apply IHl. exact Hrest.
Qed.

Lemma times_ok_conn_times_ok : forall l, times_ok l = true -> conn_times_ok l = true.
Proof. intros l Hok. apply times_ok_conn_times_from. exact Hok. Qed.

Theorem times_ok_in_order : forall l,
  times_ok l = true -> trip_times_in_order (map st_arr l) (map st_dep l) (length l) = true.
Proof.
  intros l Hok. rewrite trip_times_in_order_conn_times. apply times_ok_conn_times_ok. exact Hok.
Qed.

(* the stop times the loader builds from the message arrays *)
Lemma zip_times_maps : forall arr dep cb cu,
  (length arr <= length dep)%nat -> (length arr <= length cb)%nat -> (length arr <= length cu)%nat ->
  map st_arr (zip_times arr dep cb cu) = arr /\ map st_dep (zip_times arr dep cb cu) = firstn (length arr) dep.
Proof.
  induction arr as [|a ar IHarr]; intros dep cb cu Hd Hb Hu.
  - split; reflexivity.
  - destruct dep as [|d dr]; [cbn [length] in Hd; lia|].
    destruct cb as [|b br]; [cbn [length] in Hb; lia|].
    destruct cu as [|u ur]; [cbn [length] in Hu; lia|].
    cbn [length] in Hd, Hb, Hu.
    destruct (IHarr dr br ur) as [IH1 IH2]; [lia|lia|lia|].
    cbn [zip_times map length firstn st_arr st_dep]. rewrite IH1, IH2. split; reflexivity.
Qed.

Lemma nth_firstn_lt : forall (l : list Z) n i, (i < n)%nat -> nth i (firstn n l) 0 = nth i l 0.
Proof.
  induction l as [|x l IHl]; intros n i Hi.
  - rewrite firstn_nil. reflexivity.
  - destruct n as [|n]; [lia|]. destruct i as [|i]; [reflexivity|].
    cbn [firstn nth]. apply IHl. lia.
Qed.

Lemma trip_times_in_order_firstn : forall arr dep n,
  trip_times_in_order arr (firstn n dep) n = trip_times_in_order arr dep n.
Proof.
  intros arr dep n. apply eq_true_iff_eq. rewrite !trip_times_in_order_iff.
  unfold time_step_good. split.
  - intros Hall i Hi. specialize (Hall i Hi). rewrite nth_firstn_lt in Hall by lia. exact Hall.
  - intros Hall i Hi. specialize (Hall i Hi). rewrite nth_firstn_lt by lia. exact Hall.
Qed.

(* D13: the stop times of every trip the loader accepts are in order, whatever the message held *)
Theorem load_trip_times_in_order : forall paths sv m t,
  load_trip paths sv m = Some (Some t) -> conn_times_ok (t_times t) = true.
Proof.
  intros paths sv m t Hload.
  destruct (load_trip_accepts paths sv m t Hload)
    as [tid [pid [p [Hid [Hpid [Hfind [Hn [Hdep [Hcb [Hcu [Hord Ht]]]]]]]]]]].
  subst t. cbn [t_times].
  set (n := length (tm_arr m)) in *.
  assert (Hd' : (length (tm_arr m) <= length (firstn n (tm_dep m)))%nat) by (rewrite firstn_length; lia).
  assert (Hb' : (length (tm_arr m) <= length (firstn n (tm_cb m)))%nat) by (rewrite firstn_length; lia).
  assert (Hu' : (length (tm_arr m) <= length (firstn n (tm_cu m)))%nat) by (rewrite firstn_length; lia).
  rewrite <- trip_times_in_order_conn_times.
  destruct (zip_times_maps _ _ _ _ Hd' Hb' Hu') as [Marr Mdep].
  rewrite Marr, Mdep, zip_times_length by assumption.
  fold n. rewrite trip_times_in_order_firstn. rewrite trip_times_in_order_firstn. exact Hord.
Qed.

Lemma load_trips_times : forall paths sv l acc,
  Forall (fun t => conn_times_ok (t_times t) = true) acc ->
  Forall (fun t => conn_times_ok (t_times t) = true) (fst (load_trips paths sv l acc)).
Proof.
  intros paths sv l.
  induction l as [|m r IHl]; intros acc Hacc.
  - cbn [load_trips fst]. exact Hacc.
  - cbn [load_trips].
    destruct (load_trip paths sv m) as [[t|]|] eqn:Hload.
    + apply IHl. apply Forall_app. split; [exact Hacc|].
      constructor; [|constructor].
      exact (load_trip_times_in_order paths sv m t Hload).
    + apply IHl. exact Hacc.
    + cbn [fst]. exact Hacc.
Qed.

Lemma load_scheds_times : forall paths services l acc,
  Forall (fun t => conn_times_ok (t_times t) = true) acc ->
  Forall (fun t => conn_times_ok (t_times t) = true) (fst (load_scheds paths services l acc)).
Proof.
  intros paths services l.
  induction l as [|s r IHl]; intros acc Hacc.
  - cbn [load_scheds fst]. exact Hacc.
  - cbn [load_scheds].
    destruct (sm_service s) as [sv|] eqn:Hsvc; [|cbn [fst]; exact Hacc].
    destruct (memb sv services) eqn:Hmem; [|apply IHl; exact Hacc].
    pose proof (load_trips_times paths sv (sm_trips s) acc Hacc) as Htrips.
    destruct (load_trips paths sv (sm_trips s) acc) as [acc1 ok] eqn:Hlt.
    cbn [fst] in Htrips.
    destruct ok.
    + apply IHl. exact Htrips.
    + cbn [fst]. exact Htrips.
Qed.

Lemma load_line_file_times : forall paths services f,
  Forall (fun t => conn_times_ok (t_times t) = true) (load_line_file paths services f).
Proof.
  intros paths services f. unfold load_line_file.
  destruct f as [| |pre|msg].
  - constructor.
  - constructor.
  - apply load_scheds_times. constructor.
  - apply load_scheds_times. constructor.
Qed.

(* every trip the schedule loader produces, from ANY files, has stop times in order *)
Theorem load_schedules_times_in_order : forall lines paths services files t,
  In t (load_schedules lines paths services files) -> conn_times_ok (t_times t) = true.
Proof.
  intros lines paths services files t Hin.
  unfold load_schedules in Hin.
  apply in_flat_map in Hin. destruct Hin as [l [_ Hin]].
  pose proof (load_line_file_times paths services (files (l_id l))) as Hall.
  rewrite Forall_forall in Hall.
  exact (Hall t Hin).
Qed.

(* connection construction from such a trip: one connection per consecutive pair of stop times ... *)
Lemma mk_conns_step : forall tid minw seq n0 n1 ns s0 s1 ss,
  mk_conns tid minw seq (n0 :: n1 :: ns) (s0 :: s1 :: ss)
  = {| c_trip := tid; c_seq := seq; c_from := n0; c_to := n1; c_dep := st_dep s0; c_arr := st_arr s1;
       c_cb := st_cb s0; c_cu := st_cu s1; c_minw := minw |} :: mk_conns tid minw (S seq) (n1 :: ns) (s1 :: ss).
Proof. reflexivity. Qed.

Lemma mk_conns_length : forall tid minw nodes times seq,
  (length times <= length nodes)%nat -> length (mk_conns tid minw seq nodes times) = (length times - 1)%nat.
Proof.
  intros tid minw.
  induction nodes as [|n0 ns IHn]; intros times seq Hlen.
  - destruct times as [|s0 ss]; [reflexivity|cbn [length] in Hlen; lia].
  - destruct ns as [|n1 ns'].
    + destruct times as [|s0 ss]; [reflexivity|].
      destruct ss as [|s1 ss']; [reflexivity|cbn [length] in Hlen; lia].
    + destruct times as [|s0 ss]; [reflexivity|].
      destruct ss as [|s1 ss']; [reflexivity|].
      rewrite mk_conns_step. cbn [length].
      rewrite (IHn (s1 :: ss') (S seq)) by (cbn [length] in *; lia).
      cbn [length]. lia.
Qed.

Theorem loaded_trip_conns_count : forall tid minw nodes times,
  (length times <= length nodes)%nat -> length (mk_conns tid minw 1 nodes times) = (length times - 1)%nat.
Proof.
  intros tid minw nodes times Hlen. apply mk_conns_length. exact Hlen.
Qed.

(* ... and both stops of every connection are stops of the path, for ANY two lists (mk_conns walks both
   lists together and stops at the shorter one: it never indexes past the node list) *)
Theorem mk_conns_stops_in : forall tid minw nodes times seq c,
  In c (mk_conns tid minw seq nodes times) -> In (c_from c) nodes /\ In (c_to c) nodes.
Proof.
  intros tid minw.
  induction nodes as [|n0 ns IHn]; intros times seq c Hin.
  - cbn [mk_conns] in Hin. destruct Hin.
  - destruct ns as [|n1 ns'].
    + cbn [mk_conns] in Hin. destruct Hin.
    + destruct times as [|s0 ss]; [cbn [mk_conns] in Hin; destruct Hin|].
      destruct ss as [|s1 ss']; [cbn [mk_conns] in Hin; destruct Hin|].
      rewrite mk_conns_step in Hin. destruct Hin as [Heq|Hin].
      * subst c. cbn [c_from c_to]. split; [left; reflexivity|right; left; reflexivity].
      * apply IHn in Hin. destruct Hin as [Hf Ht].
        split; right; assumption.
Qed.

(* the connections of a loaded trip, as trip_conns builds them in a dataset whose paths are the loaded ones *)
Corollary loaded_trip_conns_safe : forall d services t,
  trip_safe (d_paths d) services t ->
  length (trip_conns d t) = (length (t_times t) - 1)%nat /\
  forall c, In c (trip_conns d t) -> In (c_from c) (trip_nodes d t) /\ In (c_to c) (trip_nodes d t).
Proof.
  intros d services t [_ [p [Hfind Hlen]]].
  unfold trip_conns. split.
  - apply mk_conns_length. unfold trip_nodes, find_path. rewrite Hfind. lia.
  - intros c Hin. exact (mk_conns_stops_in _ _ _ _ _ c Hin).
Qed.

(* ---- data status ------------------------------------------------------------------------------ *)

Theorem data_status_documented : forall z,
  In (data_status z) [ST_READY; ST_NO_AGENCIES; ST_NO_SERVICES; ST_NO_NODES; ST_NO_LINES; ST_NO_PATHS; ST_NO_SCENARIOS; ST_NO_SCHEDULES].
Proof.
  intros z. unfold data_status.
  destruct (Nat.eqb (z_agencies z) 0); [cbn [In]; tauto|].
  destruct (Nat.eqb (z_services z) 0); [cbn [In]; tauto|].
  destruct (Nat.eqb (z_nodes z) 0); [cbn [In]; tauto|].
  destruct (Nat.eqb (z_lines z) 0); [cbn [In]; tauto|].
  destruct (Nat.eqb (z_paths z) 0); [cbn [In]; tauto|].
  destruct (Nat.eqb (z_scenarios z) 0); [cbn [In]; tauto|].
  destruct (Nat.eqb (z_trips z) 0); cbn [In]; tauto.
Qed.

Ltac status_cases z :=
  unfold data_status;
  destruct (Nat.eqb (z_agencies z) 0) eqn:Ha; [apply Nat.eqb_eq in Ha | apply Nat.eqb_neq in Ha;
  destruct (Nat.eqb (z_services z) 0) eqn:Hs; [apply Nat.eqb_eq in Hs | apply Nat.eqb_neq in Hs;
  destruct (Nat.eqb (z_nodes z) 0) eqn:Hn; [apply Nat.eqb_eq in Hn | apply Nat.eqb_neq in Hn;
  destruct (Nat.eqb (z_lines z) 0) eqn:Hl; [apply Nat.eqb_eq in Hl | apply Nat.eqb_neq in Hl;
  destruct (Nat.eqb (z_paths z) 0) eqn:Hp; [apply Nat.eqb_eq in Hp | apply Nat.eqb_neq in Hp;
  destruct (Nat.eqb (z_scenarios z) 0) eqn:Hc; [apply Nat.eqb_eq in Hc | apply Nat.eqb_neq in Hc;
  destruct (Nat.eqb (z_trips z) 0) eqn:Ht; [apply Nat.eqb_eq in Ht | apply Nat.eqb_neq in Ht]]]]]]].

Theorem data_status_ready_iff : forall z, data_status z = ST_READY <->
  (z_agencies z <> 0 /\ z_services z <> 0 /\ z_nodes z <> 0 /\ z_lines z <> 0 /\ z_paths z <> 0 /\ z_scenarios z <> 0 /\ z_trips z <> 0)%nat.
Proof.
  intros z. status_cases z.
  - split; [intros Hcode; discriminate Hcode | intros Hall; tauto].
  - split; [intros Hcode; discriminate Hcode | intros Hall; tauto].
  - split; [intros Hcode; discriminate Hcode | intros Hall; tauto].
  - split; [intros Hcode; discriminate Hcode | intros Hall; tauto].
  - split; [intros Hcode; discriminate Hcode | intros Hall; tauto].
  - split; [intros Hcode; discriminate Hcode | intros Hall; tauto].
  - split; [intros Hcode; discriminate Hcode | intros Hall; tauto].
  - split; [intros _; tauto | intros _; reflexivity].
Qed.

(* every non-READY code names the FIRST empty collection in the documented order
   agencies, services, nodes, lines, paths, scenarios, schedules *)
Theorem data_status_names_first_empty : forall z,
  ((data_status z = ST_NO_AGENCIES -> z_agencies z = 0) /\
   (data_status z = ST_NO_SERVICES -> z_agencies z <> 0 /\ z_services z = 0) /\
   (data_status z = ST_NO_NODES -> z_agencies z <> 0 /\ z_services z <> 0 /\ z_nodes z = 0) /\
   (data_status z = ST_NO_LINES -> z_agencies z <> 0 /\ z_services z <> 0 /\ z_nodes z <> 0 /\ z_lines z = 0) /\
   (data_status z = ST_NO_PATHS ->
      z_agencies z <> 0 /\ z_services z <> 0 /\ z_nodes z <> 0 /\ z_lines z <> 0 /\ z_paths z = 0) /\
   (data_status z = ST_NO_SCENARIOS ->
      z_agencies z <> 0 /\ z_services z <> 0 /\ z_nodes z <> 0 /\ z_lines z <> 0 /\ z_paths z <> 0 /\ z_scenarios z = 0) /\
   (data_status z = ST_NO_SCHEDULES ->
      z_agencies z <> 0 /\ z_services z <> 0 /\ z_nodes z <> 0 /\ z_lines z <> 0 /\ z_paths z <> 0 /\
      z_scenarios z <> 0 /\ z_trips z = 0))%nat.
Proof.
  intros z. status_cases z.
  - repeat match goal with |- _ /\ _ => split end; intros Hcode; try discriminate Hcode; tauto.
  - repeat match goal with |- _ /\ _ => split end; intros Hcode; try discriminate Hcode; tauto.
  - repeat match goal with |- _ /\ _ => split end; intros Hcode; try discriminate Hcode; tauto.
  - repeat match goal with |- _ /\ _ => split end; intros Hcode; try discriminate Hcode; tauto.
  - repeat match goal with |- _ /\ _ => split end; intros Hcode; try discriminate Hcode; tauto.
  - repeat match goal with |- _ /\ _ => split end; intros Hcode; try discriminate Hcode; tauto.
  - repeat match goal with |- _ /\ _ => split end; intros Hcode; try discriminate Hcode; tauto.
  - repeat match goal with |- _ /\ _ => split end; intros Hcode; try discriminate Hcode; tauto.
Qed.

(* the instance quoted in the task statement *)
Corollary data_status_no_lines : forall z, data_status z = ST_NO_LINES ->
  (z_agencies z <> 0 /\ z_services z <> 0 /\ z_nodes z <> 0 /\ z_lines z = 0)%nat.
Proof.
  intros z Hcode. pose proof (data_status_names_first_empty z) as Hall. tauto.
Qed.

(* and conversely: the first empty collection determines the code (so the map is exact in both directions) *)
Theorem data_status_first_empty_named : forall z,
  ((z_agencies z = 0 -> data_status z = ST_NO_AGENCIES) /\
   (z_agencies z <> 0 -> z_services z = 0 -> data_status z = ST_NO_SERVICES) /\
   (z_agencies z <> 0 -> z_services z <> 0 -> z_nodes z = 0 -> data_status z = ST_NO_NODES) /\
   (z_agencies z <> 0 -> z_services z <> 0 -> z_nodes z <> 0 -> z_lines z = 0 -> data_status z = ST_NO_LINES) /\
   (z_agencies z <> 0 -> z_services z <> 0 -> z_nodes z <> 0 -> z_lines z <> 0 -> z_paths z = 0 ->
      data_status z = ST_NO_PATHS) /\
   (z_agencies z <> 0 -> z_services z <> 0 -> z_nodes z <> 0 -> z_lines z <> 0 -> z_paths z <> 0 ->
      z_scenarios z = 0 -> data_status z = ST_NO_SCENARIOS) /\
   (z_agencies z <> 0 -> z_services z <> 0 -> z_nodes z <> 0 -> z_lines z <> 0 -> z_paths z <> 0 ->
      z_scenarios z <> 0 -> z_trips z = 0 -> data_status z = ST_NO_SCHEDULES))%nat.
Proof.
  intros z. status_cases z; repeat match goal with |- _ /\ _ => split end; intros; try reflexivity; exfalso; tauto.
Qed.

(* ---- per-stop loader: every loaded row names a known stop ------------------------------------------- *)

Lemma memb_in : forall x l, In x l -> memb x l = true.
Proof.
  intros x l Hin. unfold memb. apply existsb_exists. exists x. split; [exact Hin|apply Nat.eqb_refl].
Qed.

Lemma memb_cons : forall x y l, memb x (y :: l) = Nat.eqb x y || memb x l.
Proof. reflexivity. Qed.

Definition rows_known (known : list nat) (rows : list fprow) : Prop :=
  Forall (fun r => memb (fp_node r) known = true) rows.
Definition table_known (known : list nat) (m : list (nat * list fprow)) : Prop :=
  Forall (fun e => rows_known known (snd e)) m.

Lemma node_rows_known : forall known l rows, node_rows known l = Some rows -> rows_known known rows.
Proof.
  intros known. induction l as [|m r IHl]; intros rows Hrows.
  - cbn [node_rows] in Hrows. injection Hrows as Hrows. subst rows. constructor.
  - cbn [node_rows] in Hrows.
    destruct (fm_node m) as [n|] eqn:Hn; [|discriminate Hrows].
    destruct (node_rows known r) as [rows0|] eqn:Hr; [|discriminate Hrows].
    injection Hrows as Hrows. subst rows.
    destruct (memb n known) eqn:Hmem; [|apply IHl; reflexivity].
    destruct (0 <=? fm_time m); cbn [andb]; [|apply IHl; reflexivity].
    constructor; [cbn [fp_node]; exact Hmem | apply IHl; reflexivity].
Qed.

Lemma assoc_in : forall (A : Type) n (m : list (nat * A)) v, assoc n m = Some v -> exists k, In (k, v) m.
Proof.
  intros A n. induction m as [|[k' v'] m IHm]; intros v Hassoc.
  - discriminate Hassoc.
  - cbn [assoc] in Hassoc. destruct (Nat.eqb n k') eqn:Hk.
    + injection Hassoc as Hv. subst v'. exists k'. left. reflexivity.
    + apply IHm in Hassoc. destruct Hassoc as [k Hin]. exists k. right. exact Hin.
Qed.

(* D15: ... and has a walking time >= 0 (the same induction with the other half of the test) *)
Definition rows_nonneg (rows : list fprow) : Prop := Forall (fun r => 0 <= fp_time r) rows.
Definition table_nonneg (m : list (nat * list fprow)) : Prop := Forall (fun e => rows_nonneg (snd e)) m.

Lemma node_rows_nonneg : forall known l rows, node_rows known l = Some rows -> rows_nonneg rows.
Proof.
  intros known. induction l as [|m r IHl]; intros rows Hrows.
  - cbn [node_rows] in Hrows. injection Hrows as Hrows. subst rows. constructor.
  - cbn [node_rows] in Hrows.
    destruct (fm_node m) as [n|] eqn:Hn; [|discriminate Hrows].
    destruct (node_rows known r) as [rows0|] eqn:Hr; [|discriminate Hrows].
    injection Hrows as Hrows. subst rows.
    destruct (memb n known); cbn [andb]; [|apply IHl; reflexivity].
    destruct (0 <=? fm_time m) eqn:Htime; [|apply IHl; reflexivity].
    apply Z.leb_le in Htime.
    constructor; [cbn [fp_time]; exact Htime | apply IHl; reflexivity].
Qed.

Lemma app_at_nonneg : forall m k rows, table_nonneg m -> rows_nonneg rows -> table_nonneg (app_at m k rows).
Proof.
  intros m k rows Hm Hrows. unfold app_at. unfold table_nonneg in *.
  induction m as [|e m IHm].
  - constructor.
  - cbn [map]. inversion Hm as [|e' m' He Hm']; subst e' m'. constructor.
    + destruct (Nat.eqb (fst e) k).
      * cbn [snd]. unfold rows_nonneg in *. apply Forall_app. split; assumption.
      * exact He.
    + apply IHm. exact Hm'.
Qed.

Lemma fold_app_at_nonneg : forall t rows m, rows_nonneg rows -> table_nonneg m ->
  table_nonneg
    (fold_left (fun m r => app_at m (fp_node r) [{| fp_node := t; fp_time := fp_time r; fp_dist := fp_dist r |}]) rows m).
Proof.
  intros t. induction rows as [|r rows IHrows]; intros m Hrows Hm.
  - cbn [fold_left]. exact Hm.
  - cbn [fold_left]. inversion Hrows as [|r' rows' Hr Hrows']; subst r' rows'.
    apply IHrows; [exact Hrows'|].
    apply app_at_nonneg; [exact Hm|].
    constructor; [cbn [fp_time]; exact Hr|constructor].
Qed.

Lemma self_row_nonneg : forall t, rows_nonneg [{| fp_node := t; fp_time := 0; fp_dist := 0 |}].
Proof. intros t. constructor; [cbn [fp_time]; lia|constructor]. Qed.

Lemma load_node_files_nonneg : forall known files todo fp rfp fp' rfp',
  table_nonneg fp -> table_nonneg rfp ->
  load_node_files known todo files fp rfp = NLOk fp' rfp' -> table_nonneg fp' /\ table_nonneg rfp'.
Proof.
  intros known files. induction todo as [|t rest IHtodo]; intros fp rfp fp' rfp' Hfp Hrfp Hload.
  - cbn [load_node_files] in Hload. injection Hload as Hf Hr. subst fp' rfp'. split; assumption.
  - cbn [load_node_files] in Hload.
    destruct (files t) as [| |pre|msg] eqn:Hfile.
    + exact (IHtodo fp rfp fp' rfp' Hfp Hrfp Hload).
    + exact (IHtodo fp rfp fp' rfp' Hfp Hrfp Hload).
    + discriminate Hload.
    + destruct (node_rows known msg) as [rows|] eqn:Hrows; [|discriminate Hload].
      apply node_rows_nonneg in Hrows.
      apply (IHtodo _ _ fp' rfp') in Hload.
      * exact Hload.
      * apply app_at_nonneg; assumption.
      * apply app_at_nonneg; [apply fold_app_at_nonneg; assumption|apply self_row_nonneg].
Qed.

Lemma table_nonneg_assoc : forall m n rows r,
  table_nonneg m -> assoc n m = Some rows -> In r rows -> 0 <= fp_time r.
Proof.
  intros m n rows r Hm Hassoc Hin.
  apply assoc_in in Hassoc. destruct Hassoc as [k Hk].
  unfold table_nonneg in Hm. rewrite Forall_forall in Hm.
  specialize (Hm (k, rows) Hk). cbn [snd] in Hm.
  unfold rows_nonneg in Hm. rewrite Forall_forall in Hm.
  exact (Hm r Hin).
Qed.

Lemma empty_table_nonneg : forall (l : list nat), table_nonneg (map (fun n => (n, [])) l).
Proof.
  induction l as [|n l IHl].
  - constructor.
  - cbn [map]. constructor; [cbn [snd]; constructor|exact IHl].
Qed.

Lemma app_at_known : forall known m k rows,
  table_known known m -> rows_known known rows -> table_known known (app_at m k rows).
Proof.
  intros known m k rows Hm Hrows. unfold app_at. unfold table_known in *.
  induction m as [|e m IHm].
  - constructor.
  - cbn [map]. inversion Hm as [|e' m' He Hm']; subst e' m'. constructor.
    + destruct (Nat.eqb (fst e) k).
      * cbn [snd]. unfold rows_known in *. apply Forall_app. split; assumption.
      * exact He.
    + apply IHm. exact Hm'.
Qed.

Lemma fold_app_at_known : forall known t rows m,
  memb t known = true -> table_known known m ->
  table_known known
    (fold_left (fun m r => app_at m (fp_node r) [{| fp_node := t; fp_time := fp_time r; fp_dist := fp_dist r |}]) rows m).
Proof.
  intros known t. induction rows as [|r rows IHrows]; intros m Ht Hm.
  - cbn [fold_left]. exact Hm.
  - cbn [fold_left]. apply IHrows; [exact Ht|].
    apply app_at_known; [exact Hm|].
    constructor; [cbn [fp_node]; exact Ht|constructor].
Qed.

Lemma load_node_files_known : forall known files todo fp rfp fp' rfp',
  (forall t, In t todo -> memb t known = true) -> table_known known fp -> table_known known rfp ->
  load_node_files known todo files fp rfp = NLOk fp' rfp' -> table_known known fp' /\ table_known known rfp'.
Proof.
  intros known files. induction todo as [|t rest IHtodo]; intros fp rfp fp' rfp' Htodo Hfp Hrfp Hload.
  - cbn [load_node_files] in Hload. injection Hload as Hf Hr. subst fp' rfp'. split; assumption.
  - cbn [load_node_files] in Hload.
    assert (Hrest : forall t', In t' rest -> memb t' known = true).
    { intros t' Hin. apply Htodo. right. exact Hin. }
    assert (Ht : memb t known = true).
    { apply Htodo. left. reflexivity. }
    destruct (files t) as [| |pre|msg] eqn:Hfile.
    + exact (IHtodo fp rfp fp' rfp' Hrest Hfp Hrfp Hload).
    + exact (IHtodo fp rfp fp' rfp' Hrest Hfp Hrfp Hload).
    + discriminate Hload.
    + destruct (node_rows known msg) as [rows|] eqn:Hrows; [|discriminate Hload].
      apply node_rows_known in Hrows.
      apply (IHtodo _ _ fp' rfp' Hrest) in Hload.
      * exact Hload.
      * apply app_at_known; assumption.
      * apply app_at_known.
        -- apply fold_app_at_known; assumption.
        -- constructor; [cbn [fp_node]; exact Ht|constructor].
Qed.

Lemma table_known_assoc : forall known m n rows r,
  table_known known m -> assoc n m = Some rows -> In r rows -> memb (fp_node r) known = true.
Proof.
  intros known m n rows r Hm Hassoc Hin.
  apply assoc_in in Hassoc. destruct Hassoc as [k Hk].
  unfold table_known in Hm. rewrite Forall_forall in Hm.
  specialize (Hm (k, rows) Hk). cbn [snd] in Hm.
  unfold rows_known in Hm. rewrite Forall_forall in Hm.
  exact (Hm r Hin).
Qed.

Lemma empty_table_known : forall known (l : list nat), table_known known (map (fun n => (n, [])) l).
Proof.
  intros known. induction l as [|n l IHl].
  - constructor.
  - cbn [map]. constructor; [cbn [snd]; constructor|exact IHl].
Qed.

(* the outcomes are NLOk / NLBadMsg / NLInvalid by the type of load_nodes (a total function); on NLOk every
   row of both tables names a known stop, whatever the files held *)
Theorem load_nodes_rows_known : forall nodes files fp rfp, load_nodes nodes files = NLOk fp rfp ->
  (forall n rows r, assoc n fp = Some rows -> In r rows -> memb (fp_node r) nodes = true) /\
  (forall n rows r, assoc n rfp = Some rows -> In r rows -> memb (fp_node r) nodes = true).
Proof.
  intros nodes files fp rfp Hload. unfold load_nodes in Hload. cbv zeta in Hload.
  apply load_node_files_known in Hload.
  - destruct Hload as [Hfp Hrfp]. split.
    + intros n rows r Hassoc Hin. exact (table_known_assoc nodes fp n rows r Hfp Hassoc Hin).
    + intros n rows r Hassoc Hin. exact (table_known_assoc nodes rfp n rows r Hrfp Hassoc Hin).
  - intros t Hin. apply memb_in. exact Hin.
  - apply empty_table_known.
  - apply empty_table_known.
Qed.

(* D15: on NLOk every row of both tables has a walking time >= 0, whatever the files held *)
Theorem load_nodes_rows_nonneg : forall nodes files fp rfp, load_nodes nodes files = NLOk fp rfp ->
  (forall n rows r, assoc n fp = Some rows -> In r rows -> 0 <= fp_time r) /\
  (forall n rows r, assoc n rfp = Some rows -> In r rows -> 0 <= fp_time r).
Proof.
  intros nodes files fp rfp Hload. unfold load_nodes in Hload. cbv zeta in Hload.
  apply load_node_files_nonneg in Hload.
  - destruct Hload as [Hfp Hrfp]. split.
    + intros n rows r Hassoc Hin. exact (table_nonneg_assoc fp n rows r Hfp Hassoc Hin).
    + intros n rows r Hassoc Hin. exact (table_nonneg_assoc rfp n rows r Hrfp Hassoc Hin).
  - apply empty_table_nonneg.
  - apply empty_table_nonneg.
Qed.

(* a row with a negative walking time is dropped like a row naming an unknown stop; the file is read on *)
Example ex_negative_walk_skipped :
  load_nodes [1;2]%nat
    (fun n => FDecoded [ {| fm_node := Some 1%nat; fm_time := 30; fm_dist := 40 |};
                         {| fm_node := Some 2%nat; fm_time := -200; fm_dist := 5 |};
                         {| fm_node := Some 9%nat; fm_time := 10; fm_dist := 5 |};
                         {| fm_node := Some 2%nat; fm_time := 0; fm_dist := 0 |} ])
  = NLOk [(1%nat, [ex_row' 1 30 40; ex_row' 2 0 0]); (2%nat, [ex_row' 1 30 40; ex_row' 2 0 0])]
         [(1%nat, [ex_row' 1 30 40; ex_row' 1 0 0; ex_row' 2 30 40]); (2%nat, [ex_row' 1 0 0; ex_row' 2 0 0; ex_row' 2 0 0])].
Proof. vm_compute. reflexivity. Qed.

(* ---------------------------------------------------------------------------------------------- *)
(* B. round trip                                                                                   *)

Definition enc_row (r : fprow) : fp_msg :=
  {| fm_node := Some (fp_node r); fm_time := fp_time r; fm_dist := fp_dist r |}.

Lemma node_rows_encode : forall known rows,
  (forall r, In r rows -> memb (fp_node r) known = true) -> (forall r, In r rows -> 0 <= fp_time r) ->
  node_rows known (map enc_row rows) = Some rows.
Proof.
  intros known. induction rows as [|r rows IHrows]; intros Hknown Htime.
  - reflexivity.
  - cbn [map node_rows enc_row fm_node fm_time fm_dist].
    rewrite IHrows; [|intros r' Hin; apply Hknown; right; exact Hin|intros r' Hin; apply Htime; right; exact Hin].
    rewrite (Hknown r) by (left; reflexivity).
    assert (Hr : (0 <=? fp_time r) = true) by (apply Z.leb_le; apply Htime; left; reflexivity).
    rewrite Hr. cbn [andb].
    destruct r as [n w dd]. reflexivity.
Qed.

Lemma app_at_map : forall (nodes : list nat) (F : nat -> list fprow) k rows,
  app_at (map (fun n => (n, F n)) nodes) k rows
  = map (fun n => (n, if Nat.eqb n k then F n ++ rows else F n)) nodes.
Proof.
  intros nodes F k rows. unfold app_at. rewrite map_map. apply map_ext.
  intros n. cbn [fst snd]. destruct (Nat.eqb n k); reflexivity.
Qed.

Lemma fold_app_at_map : forall t rows (nodes : list nat) (G : nat -> list fprow),
  fold_left (fun m r => app_at m (fp_node r) [{| fp_node := t; fp_time := fp_time r; fp_dist := fp_dist r |}])
            rows (map (fun n => (n, G n)) nodes)
  = map (fun n => (n, G n ++ flat_map (fun r => if Nat.eqb (fp_node r) n
                                                then [{| fp_node := t; fp_time := fp_time r; fp_dist := fp_dist r |}]
                                                else []) rows)) nodes.
Proof.
  intros t. induction rows as [|r rows IHrows]; intros nodes G.
  - cbn [fold_left flat_map]. apply map_ext. intros n. rewrite app_nil_r. reflexivity.
  - cbn [fold_left]. rewrite app_at_map. rewrite IHrows. apply map_ext. intros n.
    cbn [flat_map]. rewrite (Nat.eqb_sym n (fp_node r)).
    destruct (Nat.eqb (fp_node r) n).
    + rewrite <- app_assoc. reflexivity.
    + reflexivity.
Qed.

Lemma derive_rfp_cons : forall t rest fp n,
  derive_rfp (t :: rest) fp n
  = (flat_map (fun r => if Nat.eqb (fp_node r) n
                        then [{| fp_node := t; fp_time := fp_time r; fp_dist := fp_dist r |}] else []) (fp t)
     ++ (if Nat.eqb t n then [{| fp_node := t; fp_time := 0; fp_dist := 0 |}] else []))
    ++ derive_rfp rest fp n.
Proof. reflexivity. Qed.

Lemma load_node_files_healthy : forall (nodes : list nat) (fp : nat -> list fprow) todo (F G : nat -> list fprow),
  nodup_nat todo = true ->
  (forall t r, In t todo -> In r (fp t) -> memb (fp_node r) nodes = true) ->
  (forall t r, In t todo -> In r (fp t) -> 0 <= fp_time r) ->
  load_node_files nodes todo (fun n => FDecoded (map enc_row (fp n)))
                  (map (fun n => (n, F n)) nodes) (map (fun n => (n, G n)) nodes)
  = NLOk (map (fun n => (n, F n ++ (if memb n todo then fp n else []))) nodes)
         (map (fun n => (n, G n ++ derive_rfp todo fp n)) nodes).
Proof.
  intros nodes fp. induction todo as [|t rest IHtodo]; intros F G Hnodup Hknown Htime.
  - cbn [load_node_files]. f_equal.
    + apply map_ext. intros n. cbn [memb existsb]. rewrite app_nil_r. reflexivity.
    + apply map_ext. intros n. unfold derive_rfp. cbn [flat_map]. rewrite app_nil_r. reflexivity.
  - cbn [nodup_nat] in Hnodup. apply andb_true_iff in Hnodup. destruct Hnodup as [Hfresh Hnodup].
    apply negb_true_iff in Hfresh.
    cbn [load_node_files].
    rewrite node_rows_encode; [|intros r Hin; apply (Hknown t r); [left; reflexivity|exact Hin]
                              |intros r Hin; apply (Htime t r); [left; reflexivity|exact Hin]].
    cbv zeta. rewrite fold_app_at_map. rewrite !app_at_map.
    rewrite IHtodo; [|exact Hnodup|intros t' r Hin Hr; apply (Hknown t' r); [right; exact Hin|exact Hr]
                     |intros t' r Hin Hr; apply (Htime t' r); [right; exact Hin|exact Hr]].
    f_equal.
    + apply map_ext. intros n. rewrite memb_cons.
      destruct (Nat.eqb n t) eqn:Hnt.
      * apply Nat.eqb_eq in Hnt. subst n. rewrite Hfresh. cbn [orb]. rewrite app_nil_r. reflexivity.
      * cbn [orb]. reflexivity.
    + apply map_ext. intros n. rewrite derive_rfp_cons. rewrite (Nat.eqb_sym n t).
      destruct (Nat.eqb t n).
      * rewrite <- !app_assoc. reflexivity.
      * rewrite app_nil_r. rewrite <- !app_assoc. reflexivity.
Qed.

(* healthy stop files holding the forward lists of a dataset (rows naming stops of the dataset, walking times >= 0):
   the loader reproduces the forward lists and derives the reverse lists derive_rfp *)
Theorem load_nodes_roundtrip : forall (nodes : list nat) (fp : nat -> list fprow),
  nodup_nat nodes = true ->
  (forall n r, In n nodes -> In r (fp n) -> memb (fp_node r) nodes = true) ->
  (forall n r, In n nodes -> In r (fp n) -> 0 <= fp_time r) ->
  load_nodes nodes (fun n => FDecoded (map (fun r => {| fm_node := Some (fp_node r); fm_time := fp_time r; fm_dist := fp_dist r |}) (fp n)))
  = NLOk (map (fun n => (n, fp n)) nodes) (map (fun n => (n, derive_rfp nodes fp n)) nodes).
Proof.
  intros nodes fp Hnodup Hknown Htime. unfold load_nodes. cbv zeta.
  change (fun r => {| fm_node := Some (fp_node r); fm_time := fp_time r; fm_dist := fp_dist r |}) with enc_row.
  rewrite (load_node_files_healthy nodes fp nodes (fun _ => []) (fun _ => []) Hnodup Hknown Htime).
  cbn [app].
  replace (map (fun n => (n, if memb n nodes then fp n else [])) nodes) with (map (fun n => (n, fp n)) nodes).
  - reflexivity.
  - apply map_ext_in. intros n Hin. rewrite (memb_in n nodes Hin). reflexivity.
Qed.

(* the nodup hypothesis is needed: a stop listed twice is visited twice and its forward rows are appended twice *)
Example load_nodes_duplicate_stop :
  load_nodes [1;1]%nat (fun n => FDecoded (map enc_row [ex_row 1 0]))
  = NLOk [(1%nat, [ex_row 1 0; ex_row 1 0]); (1%nat, [ex_row 1 0; ex_row 1 0])]
         [(1%nat, [ex_row 1 0; {| fp_node := 1%nat; fp_time := 0; fp_dist := 0 |};
                   ex_row 1 0; {| fp_node := 1%nat; fp_time := 0; fp_dist := 0 |}]);
          (1%nat, [ex_row 1 0; {| fp_node := 1%nat; fp_time := 0; fp_dist := 0 |};
                   ex_row 1 0; {| fp_node := 1%nat; fp_time := 0; fp_dist := 0 |}])].
Proof. vm_compute. reflexivity. Qed.

(* the derived reverse lists are the transpose of the forward ones plus one extra self row: exactly what
   wf_data_b demands (the nodup hypothesis is not needed for this direction-free statement; kept as stated) *)
Theorem derive_rfp_transpose : forall nodes fp n m w, nodup_nat nodes = true -> In n nodes -> In m nodes ->
  (has_row (derive_rfp nodes fp n) m w = true <-> (has_row (fp m) n w = true \/ (m = n /\ w = 0))).
Proof.
  intros nodes fp n m w _ Hn Hm. unfold has_row. rewrite !existsb_exists. split.
  - intros [r [Hin Hr]].
    apply andb_true_iff in Hr. destruct Hr as [Hnode Htime].
    apply Nat.eqb_eq in Hnode. apply Z.eqb_eq in Htime.
    unfold derive_rfp in Hin. apply in_flat_map in Hin. destruct Hin as [t [Ht Hin]].
    apply in_app_or in Hin. destruct Hin as [Hin|Hin].
    + apply in_flat_map in Hin. destruct Hin as [r0 [Hr0 Hin]].
      destruct (Nat.eqb (fp_node r0) n) eqn:Hr0n; [|destruct Hin].
      destruct Hin as [Heq|Hnil]; [|destruct Hnil].
      subst r. cbn [fp_node fp_time] in Hnode, Htime. subst t.
      left. exists r0. split; [exact Hr0|].
      rewrite Hr0n. cbn [andb]. apply Z.eqb_eq. exact Htime.
    + destruct (Nat.eqb t n) eqn:Htn; [|destruct Hin].
      destruct Hin as [Heq|Hnil]; [|destruct Hnil].
      subst r. cbn [fp_node fp_time] in Hnode, Htime. apply Nat.eqb_eq in Htn.
      right. split; [congruence|symmetry; exact Htime].
  - intros [[r0 [Hr0 Hr]]|[Hmn Hw]].
    + apply andb_true_iff in Hr. destruct Hr as [Hnode Htime].
      exists {| fp_node := m; fp_time := fp_time r0; fp_dist := fp_dist r0 |}. split.
      * unfold derive_rfp. apply in_flat_map. exists m. split; [exact Hm|].
        apply in_or_app. left. apply in_flat_map. exists r0. split; [exact Hr0|].
        rewrite Hnode. left. reflexivity.
      * cbn [fp_node fp_time]. rewrite Nat.eqb_refl. cbn [andb]. exact Htime.
    + subst m w.
      exists {| fp_node := n; fp_time := 0; fp_dist := 0 |}. split.
      * unfold derive_rfp. apply in_flat_map. exists n. split; [exact Hn|].
        apply in_or_app. right. rewrite Nat.eqb_refl. left. reflexivity.
      * cbn [fp_node fp_time]. rewrite Nat.eqb_refl. reflexivity.
Qed.

(* ---- per-line files ------------------------------------------------------------------------------- *)

Lemma zip_times_encode : forall ts,
  zip_times (map st_arr ts) (map st_dep ts) (map (fun s => if st_cb s then 1 else 0) ts)
            (map (fun s => if st_cu s then 1 else 0) ts) = ts.
Proof.
  induction ts as [|s ts IHts]; [reflexivity|].
  cbn [map zip_times]. rewrite IHts.
  destruct s as [a dd b u]. cbn [st_arr st_dep st_cb st_cu].
  destruct b; destruct u; reflexivity.
Qed.

Lemma load_trip_encode : forall paths sv t p,
  find (fun x => Nat.eqb (p_id x) (t_path t)) paths = Some p ->
  length (p_nodes p) = length (t_times t) -> (2 <= length (t_times t))%nat ->
  times_ok (t_times t) = true ->
  load_trip paths sv (encode_trip t)
  = Some (Some {| t_id := t_id t; t_path := t_path t; t_service := sv; t_times := t_times t |}).
Proof.
  intros paths sv t p Hfind Hlen Hmin Htimes.
  unfold load_trip, encode_trip. cbn [tm_id tm_path tm_arr tm_dep tm_cb tm_cu].
  rewrite Hfind. cbv zeta. rewrite !map_length.
  assert (H1 : Nat.ltb (length (t_times t)) 2 = false) by (apply Nat.ltb_ge; lia).
  assert (H2 : Nat.ltb (length (p_nodes p)) (length (t_times t)) = false) by (apply Nat.ltb_ge; lia).
  assert (H3 : Nat.ltb (length (t_times t)) (length (t_times t)) = false) by (apply Nat.ltb_irrefl).
  rewrite H1, H2, H3. cbn [orb].
  rewrite (times_ok_in_order (t_times t) Htimes). cbn [negb].
  rewrite !firstn_all2 by (rewrite map_length; lia).
  rewrite zip_times_encode. reflexivity.
Qed.

Lemma wf_trip_path : forall d t, wf_data_b d = true -> In t (d_trips d) ->
  exists p, find_path d (t_path t) = Some p /\ length (p_nodes p) = length (t_times t) /\ (2 <= length (t_times t))%nat /\
            times_ok (t_times t) = true.
Proof.
  intros d t Hwf Hin. unfold wf_data_b in Hwf.
  apply andb_true_iff in Hwf. destruct Hwf as [_ Htrips].
  rewrite forallb_forall in Htrips. specialize (Htrips t Hin).
  apply andb_true_iff in Htrips. destruct Htrips as [Hpath Htimes].
  destruct (find_path d (t_path t)) as [p|] eqn:Hfind; [|discriminate Hpath].
  apply andb_true_iff in Hpath. destruct Hpath as [Hlen Hmin].
  apply Nat.eqb_eq in Hlen. apply Nat.leb_le in Hmin.
  exists p. split; [reflexivity|]. split; [exact Hlen|]. split; assumption.
Qed.

Lemma load_scheds_encode : forall d ts acc, wf_data_b d = true ->
  (forall t, In t ts -> In t (d_trips d)) ->
  load_scheds (d_paths d) (map t_service (d_trips d))
              (map (fun t => {| sm_service := Some (t_service t); sm_trips := [encode_trip t] |}) ts) acc
  = (acc ++ ts, true).
Proof.
  intros d. induction ts as [|t ts IHts]; intros acc Hwf Hsub.
  - cbn [map load_scheds]. rewrite app_nil_r. reflexivity.
  - assert (Hin : In t (d_trips d)) by (apply Hsub; left; reflexivity).
    destruct (wf_trip_path d t Hwf Hin) as [p [Hfind [Hlen [Hmin Htimes]]]].
    unfold find_path in Hfind.
    cbn [map load_scheds sm_service sm_trips].
    rewrite (memb_in (t_service t) (map t_service (d_trips d))) by (apply in_map; exact Hin).
    cbn [load_trips].
    rewrite (load_trip_encode (d_paths d) (t_service t) t p Hfind Hlen Hmin Htimes).
    replace {| t_id := t_id t; t_path := t_path t; t_service := t_service t; t_times := t_times t |} with t
      by (destruct t; reflexivity).
    rewrite IHts; [|exact Hwf|intros t' Hin'; apply Hsub; right; exact Hin'].
    rewrite <- app_assoc. reflexivity.
Qed.

(* healthy line files that encode the trips of a well-formed dataset: the schedule loader returns exactly
   the dataset's trips of each line (same ids, paths, services, stop times) *)
Theorem load_line_file_roundtrip : forall d l, wf_data_b d = true ->
  load_line_file (d_paths d) (map t_service (d_trips d)) (FDecoded (encode_line_file d l))
  = filter (fun t => Nat.eqb (trip_line d t) l) (d_trips d).
Proof.
  intros d l Hwf. unfold load_line_file, encode_line_file.
  rewrite load_scheds_encode.
  - reflexivity.
  - exact Hwf.
  - intros t Hin. apply filter_In in Hin. destruct Hin as [Hin _]. exact Hin.
Qed.

(* the whole schedule load of a well-formed dataset from healthy files: the trips grouped by line, in line order *)
Corollary load_schedules_roundtrip : forall d, wf_data_b d = true ->
  load_schedules (d_lines d) (d_paths d) (map t_service (d_trips d))
                 (fun l => FDecoded (encode_line_file d l))
  = flat_map (fun ln => filter (fun t => Nat.eqb (trip_line d t) (l_id ln)) (d_trips d)) (d_lines d).
Proof.
  intros d Hwf. unfold load_schedules. apply flat_map_ext.
  intros ln. apply load_line_file_roundtrip. exact Hwf.
Qed.

Print Assumptions load_schedules_safe.
Print Assumptions times_ok_in_order.
Print Assumptions load_trip_times_in_order.
Print Assumptions load_schedules_times_in_order.
Print Assumptions loaded_trip_conns_count.
Print Assumptions mk_conns_stops_in.
Print Assumptions loaded_trip_conns_safe.
Print Assumptions data_status_documented.
Print Assumptions data_status_ready_iff.
Print Assumptions data_status_names_first_empty.
Print Assumptions data_status_no_lines.
Print Assumptions data_status_first_empty_named.
Print Assumptions load_nodes_rows_known.
Print Assumptions load_nodes_rows_nonneg.
Print Assumptions load_nodes_roundtrip.
Print Assumptions derive_rfp_transpose.
Print Assumptions load_line_file_roundtrip.
Print Assumptions load_schedules_roundtrip.
