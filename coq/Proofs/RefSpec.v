(* Proofs/RefSpec.v — the executable reference solvers of Spec.v (ref_fwd / ref_rev and the oracles built on
   them) against the declarative journeys of Admissible.v / Optimal.v.

   Layers:
     0. generic min / max folds over footpath rows, dataset facts, facts about `reaches`;
     1. forward: soundness invariant of relax_trip_fwd (any admitted trip), hence of ref_fwd;
     2. forward: closure of one round, completeness of a stable state (ref_fwd_stable_b);
     3. forward corollaries: earliest_arrival_ref, reach_map_fwd_ref;
     4. reverse: the same three steps for relax_trip_rev / ref_rev / latest_departure_ref / reach_map_rev_ref;
     5. stability of the solver after enough rounds. *)
From Coq Require Import List ZArith Bool Arith Lia Sorted.
From TrV Require Import Optimal.
From TrV.Proofs Require Import SortFilter RevInv.
Import ListNotations.
Local Open Scope Z_scope.

(* ---------------------------------------------------------------------------------------------- *)
(* 0a. generic label folds: keep the minimum / maximum of guarded candidates                        *)

Section FoldMinMax.
  Variables (g : fprow -> bool) (f : fprow -> Z) (k : fprow -> nat).

  Definition min_step (m : nat -> Z) (r : fprow) : nat -> Z :=
    if g r && (f r <? m (k r)) then upd m (k r) (f r) else m.
  Definition max_step (m : nat -> Z) (r : fprow) : nat -> Z :=
    if g r && (f r >? m (k r)) then upd m (k r) (f r) else m.

  Lemma min_step_spec m r :
    (forall n, min_step m r n <= m n) /\ (g r = true -> min_step m r (k r) <= f r) /\
    (forall n, min_step m r n = m n \/ (g r = true /\ k r = n /\ min_step m r n = f r)).
  Proof.
    unfold min_step. destruct (g r) eqn:G; cbn [andb].
    - destruct (f r <? m (k r)) eqn:E.
      + apply Z.ltb_lt in E. split; [|split].
        * intros n. destruct (Nat.eq_dec n (k r)) as [->|N];
            [rewrite upd_same; lia|rewrite upd_other by exact N; lia].
        * intros _. rewrite upd_same. lia.
        * intros n. destruct (Nat.eq_dec n (k r)) as [->|N].
          -- right. rewrite upd_same. auto.
          -- left. rewrite upd_other by exact N. reflexivity.
      + apply Z.ltb_ge in E. split; [|split]; [intros; lia | intros _; lia | intros; left; reflexivity].
    - split; [|split]; [intros; lia | discriminate | intros; left; reflexivity].
  Qed.

  Lemma fold_min_spec : forall rows m0,
    (forall n, fold_left min_step rows m0 n <= m0 n) /\
    (forall r, In r rows -> g r = true -> fold_left min_step rows m0 (k r) <= f r) /\
    (forall n, fold_left min_step rows m0 n = m0 n \/
               exists r, In r rows /\ g r = true /\ k r = n /\ fold_left min_step rows m0 n = f r).
  Proof.
    induction rows as [|r rows IH]; intros m0; cbn [fold_left].
    - split; [intros; lia|split; [intros r []|intros; left; reflexivity]].
    - destruct (IH (min_step m0 r)) as (I1 & I2 & I3). destruct (min_step_spec m0 r) as (S1 & S2 & S3).
      split; [|split].
      + intros n. specialize (I1 n). specialize (S1 n). lia.
      + intros r' [E|Hin] G.
        * subst r'. specialize (I1 (k r)). specialize (S2 G). lia.
        * apply I2; assumption.
      + intros n. destruct (I3 n) as [E|(r' & Hin & G & K & E)].
        * destruct (S3 n) as [E'|(G & K & E')].
          -- left. congruence.
          -- right. exists r. split; [left; reflexivity|]. split; [exact G|]. split; [exact K|]. congruence.
        * right. exists r'. split; [right; exact Hin|]. auto.
  Qed.

  Lemma max_step_spec m r :
    (forall n, m n <= max_step m r n) /\ (g r = true -> f r <= max_step m r (k r)) /\
    (forall n, max_step m r n = m n \/ (g r = true /\ k r = n /\ max_step m r n = f r)).
  Proof.
    unfold max_step. destruct (g r) eqn:G; cbn [andb].
    - destruct (f r >? m (k r)) eqn:E.
      + apply Z.gtb_lt in E. split; [|split].
        * intros n. destruct (Nat.eq_dec n (k r)) as [->|N];
            [rewrite upd_same; lia|rewrite upd_other by exact N; lia].
        * intros _. rewrite upd_same. lia.
        * intros n. destruct (Nat.eq_dec n (k r)) as [->|N].
          -- right. rewrite upd_same. auto.
          -- left. rewrite upd_other by exact N. reflexivity.
      + assert (E' : f r <= m (k r)).
        { destruct (Z_le_gt_dec (f r) (m (k r))) as [L|L]; [exact L|].
          assert (T : (f r >? m (k r)) = true) by (apply Z.gtb_lt; lia). congruence. }
        split; [|split]; [intros; lia | intros _; lia | intros; left; reflexivity].
    - split; [|split]; [intros; lia | discriminate | intros; left; reflexivity].
  Qed.

  Lemma fold_max_spec : forall rows m0,
    (forall n, m0 n <= fold_left max_step rows m0 n) /\
    (forall r, In r rows -> g r = true -> f r <= fold_left max_step rows m0 (k r)) /\
    (forall n, fold_left max_step rows m0 n = m0 n \/
               exists r, In r rows /\ g r = true /\ k r = n /\ fold_left max_step rows m0 n = f r).
  Proof.
    induction rows as [|r rows IH]; intros m0; cbn [fold_left].
    - split; [intros; lia|split; [intros r []|intros; left; reflexivity]].
    - destruct (IH (max_step m0 r)) as (I1 & I2 & I3). destruct (max_step_spec m0 r) as (S1 & S2 & S3).
      split; [|split].
      + intros n. specialize (I1 n). specialize (S1 n). lia.
      + intros r' [E|Hin] G.
        * subst r'. specialize (I1 (k r)). specialize (S2 G). lia.
        * apply I2; assumption.
      + intros n. destruct (I3 n) as [E|(r' & Hin & G & K & E)].
        * destruct (S3 n) as [E'|(G & K & E')].
          -- left. congruence.
          -- right. exists r. split; [left; reflexivity|]. split; [exact G|]. split; [exact K|]. congruence.
        * right. exists r'. split; [right; exact Hin|]. auto.
  Qed.
End FoldMinMax.

Lemma has_row_elim rows n w : has_row rows n w = true -> exists r, In r rows /\ fp_node r = n /\ fp_time r = w.
Proof.
  unfold has_row. intros H. apply existsb_exists in H. destruct H as (r & Hin & E).
  apply andb_prop in E. destruct E as [E1 E2]. apply Nat.eqb_eq in E1. apply Z.eqb_eq in E2.
  exists r. auto.
Qed.

Lemma iterate_inv {A} (P : A -> Prop) (f : A -> A) : (forall x, P x -> P (f x)) ->
  forall n x, P x -> P (iterate n f x).
Proof.
  intros Hf. induction n as [|n IH]; intros x Hx; cbn [iterate]; [exact Hx|]. apply IH. apply Hf. exact Hx.
Qed.

Lemma fold_left_inv {A B} (P : A -> Prop) (f : A -> B -> A) (l : list B) :
  (forall a b, In b l -> P a -> P (f a b)) -> forall a, P a -> P (fold_left f l a).
Proof.
  induction l as [|b l IH]; intros Hf a Ha; cbn [fold_left]; [exact Ha|].
  apply IH.
  - intros a' b' Hb' Ha'. apply Hf; [right; exact Hb'|exact Ha'].
  - apply Hf; [left; reflexivity|exact Ha].
Qed.

(* ---------------------------------------------------------------------------------------------- *)
(* 0b. dataset facts                                                                                *)

Lemma times_ok_head s0 r : times_ok (s0 :: r) = true ->
  0 <= st_arr s0 /\ st_arr s0 <= st_dep s0 /\ st_dep s0 < CLOCK_MAX /\ times_ok r = true.
Proof.
  intros H. cbn [times_ok] in H. peel H T5. peel H T4. peel H T3. peel H T2.
  apply Z.leb_le in H, T2. apply Z.ltb_lt in T3. repeat split; assumption.
Qed.

Lemma mk_conns_facts : forall tid minw nodes seq times c,
  times_ok times = true -> In c (mk_conns tid minw seq nodes times) ->
  In (c_to c) nodes /\ c_dep c < CLOCK_MAX /\ c_arr c < CLOCK_MAX /\ c_minw c = minw.
Proof.
  intros tid minw. induction nodes as [|n0 ns IH]; intros seq times c Ht H.
  - destruct H.
  - destruct ns as [|n1 ns']; [destruct H|].
    destruct times as [|s0 [|s1 ss]]; [destruct H|destruct H|].
    rewrite mk_conns_cons in H.
    destruct (times_ok_head _ _ Ht) as (A1 & A2 & A3 & A4).
    destruct (times_ok_head _ _ A4) as (B1 & B2 & B3 & B4).
    destruct H as [H|H].
    + subst c. cbn [c_to c_dep c_arr c_minw].
      split; [right; left; reflexivity|]. split; [lia|]. split; [lia|reflexivity].
    + destruct (IH (S seq) (s1 :: ss) c A4 H) as (H1 & H2 & H3 & H4).
      split; [right; exact H1|]. auto.
Qed.

Definition seq_lt (a b : conn) : Prop := (c_seq a < c_seq b)%nat.

Lemma mk_conns_sorted : forall tid minw nodes seq times,
  StronglySorted seq_lt (mk_conns tid minw seq nodes times).
Proof.
  intros tid minw. induction nodes as [|n0 ns IH]; intros seq times.
  - apply SSorted_nil.
  - destruct ns as [|n1 ns']; [apply SSorted_nil|].
    destruct times as [|s0 [|s1 ss]]; [apply SSorted_nil|apply SSorted_nil|].
    rewrite mk_conns_cons. apply SSorted_cons; [apply IH|].
    apply Forall_forall. intros x Hx. apply mk_conns_seq_from in Hx. unfold seq_lt. cbn [c_seq]. lia.
Qed.

Lemma conn_facts d c : wf_data_b d = true -> In c (all_conns d) ->
  In (c_from c) (d_nodes d) /\ In (c_to c) (d_nodes d) /\ 0 <= c_dep c /\ c_dep c <= c_arr c /\
  c_dep c < CLOCK_MAX /\ c_arr c < CLOCK_MAX /\ (c_minw c = 0 \/ c_minw c = -1).
Proof.
  intros Hwf Hc. split; [apply conn_from_node; assumption|].
  destruct (all_conns_in d c Hc) as (tr & Htr & Hin).
  destruct (wf_trip d Hwf tr Htr) as (pth & Hp & _ & Ht).
  unfold trip_conns in Hin.
  destruct (mk_conns_facts _ _ _ _ _ _ Ht Hin) as (F1 & F2 & F3 & F4).
  destruct (mk_conns_times _ _ _ _ _ _ Ht Hin) as (G1 & G2 & G3).
  split.
  - unfold trip_nodes in F1. rewrite Hp in F1. unfold find_path in Hp. apply find_some in Hp.
    destruct Hp as [Hp _]. apply (wf_path_nodes d Hwf pth Hp). exact F1.
  - split; [lia|]. split; [lia|]. split; [lia|]. split; [lia|].
    rewrite F4. destruct (Nat.eqb (trip_mode d tr) TRANSFERABLE_MODE); [left|right]; reflexivity.
Qed.

Lemma minw_true_nonneg p c : 0 <= q_minw p -> 0 <= minw_true p c.
Proof. intros H. rewrite <- minw_eff_true. apply minw_eff_nonneg. exact H. Qed.

Lemma fp_row_node d m r : wf_data_b d = true -> In m (d_nodes d) -> In r (fp_of d m) ->
  In (fp_node r) (d_nodes d) /\ 0 <= fp_time r.
Proof.
  intros H Hm Hr. apply wf_data_parts in H. destruct H as (_ & W & _ & _).
  unfold footpaths_ok in W. rewrite forallb_forall in W. specialize (W m Hm).
  peel W F8. peel W F7. peel W F6. peel W F5. peel W F4. peel W F3. peel W F2.
  unfold rows_ok in W. rewrite forallb_forall in W. specialize (W r Hr).
  peel W R4. peel W R3. peel W R2. apply memb_In in W. apply Z.leb_le in R2. split; assumption.
Qed.

Lemma rows_ok_row d rows r : rows_ok d rows = true -> In r rows -> In (fp_node r) (d_nodes d) /\ 0 <= fp_time r.
Proof.
  intros W Hr. unfold rows_ok in W. rewrite forallb_forall in W. specialize (W r Hr).
  peel W R4. peel W R3. peel W R2. apply memb_In in W. apply Z.leb_le in R2. split; assumption.
Qed.

(* the trip of a ride: both connections are connections of one admitted trip of the dataset *)
Lemma ride_trip d s p b e : wf_data_b d = true -> ride_ok d s p b e ->
  exists tr, In tr (d_trips d) /\ trip_admitted d s p tr = true /\
             In b (trip_conns d tr) /\ In e (trip_conns d tr).
Proof.
  intros Hwf (Hb & He & Et & _ & _ & _ & tr & F & A).
  destruct (find_trip_some d _ tr F) as [Hin Hid].
  exists tr. split; [exact Hin|]. split; [exact A|].
  pose proof (wf_nodup_trips d Hwf) as Hnd.
  destruct (all_conns_in d b Hb) as (tb & Htb & Hinb).
  destruct (all_conns_in d e He) as (te & Hte & Hine).
  assert (Eb : tb = tr).
  { apply (nodup_nat_inj (d_trips d) Hnd); try assumption.
    rewrite <- (trip_conns_trip d tb b Hinb). symmetry. exact Hid. }
  assert (Ee : te = tr).
  { apply (nodup_nat_inj (d_trips d) Hnd); try assumption.
    rewrite <- (trip_conns_trip d te e Hine). rewrite <- Et. symmetry. exact Hid. }
  subst tb te. split; assumption.
Qed.

Lemma trip_ride d s p tr b e : wf_data_b d = true -> In tr (d_trips d) -> trip_admitted d s p tr = true ->
  In b (trip_conns d tr) -> In e (trip_conns d tr) -> (c_seq b <= c_seq e)%nat ->
  c_cb b = true -> c_cu e = true -> ride_ok d s p b e.
Proof.
  intros Hwf Htr A Hb He Hle Hcb Hcu.
  assert (Ib : In b (all_conns d)) by (unfold all_conns; apply in_flat_map; exists tr; auto).
  assert (Ie : In e (all_conns d)) by (unfold all_conns; apply in_flat_map; exists tr; auto).
  unfold ride_ok. split; [exact Ib|]. split; [exact Ie|].
  split; [rewrite (trip_conns_trip d tr b Hb), (trip_conns_trip d tr e He); reflexivity|].
  split; [exact Hle|]. split; [exact Hcb|]. split; [exact Hcu|].
  exists tr. split; [|exact A].
  rewrite (trip_conns_trip d tr b Hb). apply find_trip_in; [apply wf_nodup_trips; exact Hwf|exact Htr].
Qed.

Lemma trip_conns_sorted d tr : StronglySorted seq_lt (trip_conns d tr).
Proof. unfold trip_conns. apply mk_conns_sorted. Qed.

(* the trips the reference solvers relax *)
Definition adm_cs (d : data) (s : scenario) (p : params) (cs : list conn) : Prop :=
  exists tr, In tr (d_trips d) /\ trip_admitted d s p tr = true /\ cs = trip_conns d tr.

Lemma admitted_conns_adm d s p cs : In cs (admitted_conns d s p) -> adm_cs d s p cs.
Proof.
  unfold admitted_conns. intros H. apply in_map_iff in H. destruct H as (tr & E & H).
  apply filter_In in H. destruct H as [H1 H2]. exists tr. auto.
Qed.

Lemma adm_admitted_conns d s p tr : In tr (d_trips d) -> trip_admitted d s p tr = true ->
  In (trip_conns d tr) (admitted_conns d s p).
Proof.
  intros H A. unfold admitted_conns. apply in_map. apply filter_In. auto.
Qed.

(* ---------------------------------------------------------------------------------------------- *)
(* 0c. facts about `reaches`                                                                        *)

(* a journey extended by one more ride after a transfer (snoc form) *)
Lemma reaches_snoc d s p n0 t0 rides m t' :
  reaches d s p n0 t0 rides m t' ->
  forall n w b e, has_row (fp_of d m) n w = true -> w <= q_maxtr p ->
    ride_ok d s p b e -> c_from b = n -> t' + w + minw_true p b <= c_dep b ->
    reaches d s p n0 t0 (rides ++ [(b, e)]) (c_to e) (c_arr e).
Proof.
  intros H. induction H as [n t b0 e0 R0 F0 T0|n t b0 e0 w0 n' rest m t' R0 F0 T0 W0 M0 H IH];
    intros n1 w b e Hrow Hw R F T.
  - cbn [app]. apply (reaches_cons d s p n t b0 e0 w n1); try assumption.
    apply reaches_last; assumption.
  - cbn [app]. apply (reaches_cons d s p n t b0 e0 w0 n'); try assumption.
    apply (IH n1 w b e); assumption.
Qed.

(* being ready earlier never hurts *)
Lemma reaches_mono d s p n t rides m t' t0 :
  reaches d s p n t rides m t' -> t0 <= t -> reaches d s p n t0 rides m t'.
Proof.
  intros H L. destruct H as [n t b0 e0 R0 F0 T0|n t b0 e0 w0 n' rest m t' R0 F0 T0 W0 M0 H].
  - apply reaches_last; try assumption. lia.
  - apply (reaches_cons d s p n t0 b0 e0 w0 n'); try assumption. lia.
Qed.

(* a journey ends by stepping off a connection of the dataset *)
Lemma reaches_end d s p n t rides m t' :
  reaches d s p n t rides m t' -> exists e, In e (all_conns d) /\ m = c_to e /\ t' = c_arr e.
Proof.
  intros H. induction H as [n t b0 e0 R0 F0 T0|n t b0 e0 w0 n' rest m t' R0 F0 T0 W0 M0 H IH].
  - exists e0. destruct R0 as (_ & He & _). auto.
  - exact IH.
Qed.

(* a journey starts by boarding a connection of the dataset *)
Lemma reaches_start d s p n t rides m t' :
  reaches d s p n t rides m t' ->
  exists b, In b (all_conns d) /\ c_from b = n /\ t + minw_true p b <= c_dep b /\
            reaches d s p n (c_dep b - minw_true p b) rides m t'.
Proof.
  intros H. destruct H as [n t b0 e0 R0 F0 T0|n t b0 e0 w0 n' rest m t' R0 F0 T0 W0 M0 H].
  - exists b0. destruct R0 as (Hb & R0'). split; [exact Hb|]. split; [exact F0|]. split; [exact T0|].
    apply reaches_last; [split; assumption|exact F0|lia].
  - exists b0. destruct R0 as (Hb & R0'). split; [exact Hb|]. split; [exact F0|]. split; [exact T0|].
    apply (reaches_cons d s p n _ b0 e0 w0 n'); try assumption; [split; assumption|lia].
Qed.

(* ---------------------------------------------------------------------------------------------- *)
(* 1. forward: the step function of relax_trip_fwd, named, and its soundness invariant              *)

Definition fwd_on1 (p : params) (ready : nat -> Z) (on : bool) (c : conn) : bool :=
  on || (c_cb c && (ready (c_from c) + minw_true p c <=? c_dep c) && (ready (c_from c) <? INF)).

Definition fwd_tstep (d : data) (p : params) (acc : (nat -> Z) * (nat -> Z) * bool) (c : conn)
  : (nat -> Z) * (nat -> Z) * bool :=
  let '(ready, veh, on) := acc in
  let on1 := on || (c_cb c && (ready (c_from c) + minw_true p c <=? c_dep c) && (ready (c_from c) <? INF)) in
  if on1 && c_cu c then
    let veh1 := if c_arr c <? veh (c_to c) then upd veh (c_to c) (c_arr c) else veh in
    let ready1 := fold_left (fun rd r =>
                     if (fp_time r <=? q_maxtr p) && (c_arr c + fp_time r <? rd (fp_node r))
                     then upd rd (fp_node r) (c_arr c + fp_time r) else rd) (fp_of d (c_to c)) ready in
    (ready1, veh1, on1)
  else (ready, veh, on1).

Lemma relax_trip_fwd_eq d p cs st :
  relax_trip_fwd d p cs st = fst (fold_left (fwd_tstep d p) cs (fst st, snd st, false)).
Proof.
  unfold relax_trip_fwd, fwd_tstep.
  destruct (fold_left _ cs (fst st, snd st, false)) as [[r v] o]. reflexivity.
Qed.

Definition fwd_ready1 (d : data) (p : params) (c : conn) (ready : nat -> Z) : nat -> Z :=
  fold_left (min_step (fun r => fp_time r <=? q_maxtr p) (fun r => c_arr c + fp_time r) fp_node)
            (fp_of d (c_to c)) ready.
Definition fwd_veh1 (c : conn) (veh : nat -> Z) : nat -> Z :=
  if c_arr c <? veh (c_to c) then upd veh (c_to c) (c_arr c) else veh.

Lemma fwd_tstep_eq d p ready veh on c :
  fwd_tstep d p (ready, veh, on) c =
  if fwd_on1 p ready on c && c_cu c
  then (fwd_ready1 d p c ready, fwd_veh1 c veh, fwd_on1 p ready on c)
  else (ready, veh, fwd_on1 p ready on c).
Proof. reflexivity. Qed.

Lemma fwd_veh1_spec c veh :
  (forall n, fwd_veh1 c veh n <= veh n) /\ fwd_veh1 c veh (c_to c) <= c_arr c /\
  (forall n, fwd_veh1 c veh n = veh n \/ (n = c_to c /\ fwd_veh1 c veh n = c_arr c)).
Proof.
  unfold fwd_veh1. destruct (c_arr c <? veh (c_to c)) eqn:E.
  - apply Z.ltb_lt in E. split; [|split].
    + intros n. destruct (Nat.eq_dec n (c_to c)) as [->|N];
        [rewrite upd_same; lia|rewrite upd_other by exact N; lia].
    + rewrite upd_same. lia.
    + intros n. destruct (Nat.eq_dec n (c_to c)) as [->|N].
      * right. rewrite upd_same. auto.
      * left. rewrite upd_other by exact N. reflexivity.
  - apply Z.ltb_ge in E. split; [|split]; [intros; lia|lia|intros; left; reflexivity].
Qed.

Lemma fwd_ready1_spec d p c ready :
  (forall n, fwd_ready1 d p c ready n <= ready n) /\
  (forall r, In r (fp_of d (c_to c)) -> fp_time r <= q_maxtr p ->
             fwd_ready1 d p c ready (fp_node r) <= c_arr c + fp_time r) /\
  (forall n, fwd_ready1 d p c ready n = ready n \/
             exists r, In r (fp_of d (c_to c)) /\ fp_time r <= q_maxtr p /\ fp_node r = n /\
                       fwd_ready1 d p c ready n = c_arr c + fp_time r).
Proof.
  unfold fwd_ready1.
  destruct (fold_min_spec (fun r => fp_time r <=? q_maxtr p) (fun r => c_arr c + fp_time r) fp_node
              (fp_of d (c_to c)) ready) as (I1 & I2 & I3).
  split; [exact I1|]. split.
  - intros r Hr Hw. apply I2; [exact Hr|]. apply Z.leb_le. exact Hw.
  - intros n. destruct (I3 n) as [E|(r & Hr & G & K & E)]; [left; exact E|].
    right. exists r. apply Z.leb_le in G. auto.
Qed.

Opaque fwd_tstep.

Section FwdSound.
  Variables (d : data) (s : scenario) (p : params) (acc : list fprow).
  Hypothesis Hwf : wf_data_b d = true.

  (* the traveller can stand at n at time t: end of the access walk, or end of a transfer walk after a ride *)
  Definition stands_at (n : nat) (t : Z) : Prop :=
    (exists ra, In ra acc /\ fp_node ra = n /\ t = q_time p + fp_time ra) \/
    (exists ra rides m t' w, In ra acc /\
       reaches d s p (fp_node ra) (q_time p + fp_time ra) rides m t' /\
       has_row (fp_of d m) n w = true /\ w <= q_maxtr p /\ t = t' + w).

  Definition FInv (st : (nat -> Z) * (nat -> Z)) : Prop :=
    (forall n, fst st n < INF -> stands_at n (fst st n)) /\
    (forall n, snd st n < INF -> alights_at d s p acc n (snd st n)).

  Lemma stands_ride n t b e : stands_at n t -> ride_ok d s p b e -> c_from b = n ->
    t + minw_true p b <= c_dep b -> alights_at d s p acc (c_to e) (c_arr e).
  Proof.
    intros [(ra & Hra & En & Et)|(ra & rides & m & t' & w & Hra & R & Hrow & Hw & Et)] Rk F T.
    - exists ra, [(b, e)]. split; [exact Hra|]. apply reaches_last; [exact Rk|congruence|lia].
    - exists ra, (rides ++ [(b, e)]). split; [exact Hra|].
      apply (reaches_snoc d s p _ _ rides m t' R n w b e); try assumption. lia.
  Qed.

  Lemma alights_stands m t r : alights_at d s p acc m t -> In r (fp_of d m) -> fp_time r <= q_maxtr p ->
    stands_at (fp_node r) (t + fp_time r).
  Proof.
    intros (ra & rides & Hra & R) Hr Hw. right. exists ra, rides, m, t, (fp_time r).
    split; [exact Hra|]. split; [exact R|]. split; [apply has_row_intro; exact Hr|]. auto.
  Qed.

  (* "someone is on board": a boarding connection of this trip, not after the connections still to come *)
  Definition on_board (tr : trip) (cs : list conn) : Prop :=
    exists b t, In b (trip_conns d tr) /\ c_cb b = true /\ stands_at (c_from b) t /\
                t + minw_true p b <= c_dep b /\ Forall (fun c => (c_seq b <= c_seq c)%nat) cs.

  Lemma fwd_trip_sound tr : In tr (d_trips d) -> trip_admitted d s p tr = true ->
    forall cs ready veh on,
      (forall c, In c cs -> In c (trip_conns d tr)) -> StronglySorted seq_lt cs ->
      FInv (ready, veh) -> (on = true -> on_board tr cs) ->
      FInv (fst (fold_left (fwd_tstep d p) cs (ready, veh, on))).
  Proof.
    intros Htr Hadm. induction cs as [|c cs IH]; intros ready veh on Hsub Hsort Hinv Hon.
    - cbn [fold_left fst]. exact Hinv.
    - cbn [fold_left]. rewrite fwd_tstep_eq.
      assert (Hc : In c (trip_conns d tr)) by (apply Hsub; left; reflexivity).
      apply StronglySorted_inv in Hsort. destruct Hsort as [Hsort Hall].
      assert (Hsub' : forall c', In c' cs -> In c' (trip_conns d tr)) by (intros c' H'; apply Hsub; right; exact H').
      (* whoever is on board after c boarded at or before c *)
      assert (Hon1 : fwd_on1 p ready on c = true ->
                     exists b t, In b (trip_conns d tr) /\ c_cb b = true /\ stands_at (c_from b) t /\
                                 t + minw_true p b <= c_dep b /\ (c_seq b <= c_seq c)%nat /\
                                 Forall (fun c' => (c_seq b <= c_seq c')%nat) cs).
      { unfold fwd_on1. intros H. apply orb_prop in H. destruct H as [H|H].
        - destruct (Hon H) as (b & t & B1 & B2 & B3 & B4 & B5).
          exists b, t. apply Forall_cons_iff in B5. destruct B5 as [B5 B6]. auto 10.
        - peel H H3. peel H H2. apply Z.leb_le in H2. apply Z.ltb_lt in H3.
          exists c, (ready (c_from c)). split; [exact Hc|]. split; [exact H|].
          split; [apply (proj1 Hinv); exact H3|]. split; [exact H2|]. split; [lia|].
          apply Forall_forall. intros x Hx. rewrite Forall_forall in Hall. specialize (Hall x Hx).
          unfold seq_lt in Hall. lia. }
      assert (Hon' : fwd_on1 p ready on c = true -> on_board tr cs).
      { intros H. destruct (Hon1 H) as (b & t & B1 & B2 & B3 & B4 & _ & B6). exists b, t. auto. }
      destruct (fwd_on1 p ready on c && c_cu c) eqn:E.
      + peel E Hcu. destruct (Hon1 E) as (b & t & B1 & B2 & B3 & B4 & B5 & B6).
        assert (Ha : alights_at d s p acc (c_to c) (c_arr c)).
        { apply (stands_ride (c_from b) t b c); try assumption; [|reflexivity].
          apply (trip_ride d s p tr); assumption. }
        apply IH; try assumption.
        destruct Hinv as [Hr Hv]. split; cbn [fst snd].
        * intros n Hn. destruct (fwd_ready1_spec d p c ready) as (_ & _ & S3).
          destruct (S3 n) as [E1|(r & Hr1 & Hw & K & E1)].
          -- rewrite E1 in *. apply Hr. exact Hn.
          -- rewrite E1. subst n. apply (alights_stands (c_to c)); assumption.
        * intros n Hn. destruct (fwd_veh1_spec c veh) as (_ & _ & S3).
          destruct (S3 n) as [E1|[K E1]].
          -- rewrite E1 in *. apply Hv. exact Hn.
          -- rewrite E1. subst n. exact Ha.
      + apply IH; assumption.
  Qed.

  Lemma relax_trip_fwd_sound cs st : adm_cs d s p cs -> FInv st -> FInv (relax_trip_fwd d p cs st).
  Proof.
    intros (tr & Htr & Hadm & ->) Hinv. rewrite relax_trip_fwd_eq.
    apply (fwd_trip_sound tr Htr Hadm); [auto|apply trip_conns_sorted| |discriminate].
    destruct st as [r v]. exact Hinv.
  Qed.

  Definition round_fwd (st : (nat -> Z) * (nat -> Z)) : (nat -> Z) * (nat -> Z) :=
    fold_left (fun st cs => relax_trip_fwd d p cs st) (admitted_conns d s p) st.

  Definition ready0_fwd : nat -> Z :=
    fold_left (min_step (fun _ => true) (fun r => q_time p + fp_time r) fp_node) acc (fun _ => INF).

  Lemma ref_fwd_eq : ref_fwd d s p acc = iterate (ref_rounds d) round_fwd (ready0_fwd, fun _ => INF).
  Proof. reflexivity. Qed.

  Lemma round_fwd_sound st : FInv st -> FInv (round_fwd st).
  Proof.
    unfold round_fwd. apply fold_left_inv. intros a cs Hcs Ha.
    apply relax_trip_fwd_sound; [apply admitted_conns_adm; exact Hcs|exact Ha].
  Qed.

  Lemma init_fwd_sound : FInv (ready0_fwd, fun _ => INF).
  Proof.
    split; cbn [fst snd].
    - intros n Hn. unfold ready0_fwd in *.
      destruct (fold_min_spec (fun _ => true) (fun r => q_time p + fp_time r) fp_node acc (fun _ => INF))
        as (_ & _ & I3).
      destruct (I3 n) as [E|(r & Hr & _ & K & E)]; [rewrite E in Hn; lia|].
      left. exists r. auto.
    - intros n Hn. lia.
  Qed.

  Theorem ref_fwd_inv : FInv (ref_fwd d s p acc).
  Proof. rewrite ref_fwd_eq. apply iterate_inv; [exact round_fwd_sound|exact init_fwd_sound]. Qed.

  (* 1. forward soundness, in the form of the task statement *)
  Theorem ref_fwd_sound :
    let '(ready, veh) := ref_fwd d s p acc in
    (forall n, veh n < INF -> alights_at d s p acc n (veh n)) /\
    (forall n, ready n < INF ->
       (exists ra, In ra acc /\ fp_node ra = n /\ ready n = q_time p + fp_time ra) \/
       (exists ra rides m t' w, In ra acc /\
          reaches d s p (fp_node ra) (q_time p + fp_time ra) rides m t' /\
          has_row (fp_of d m) n w = true /\ w <= q_maxtr p /\ ready n = t' + w)).
  Proof.
    pose proof ref_fwd_inv as H. destruct (ref_fwd d s p acc) as [ready veh].
    destruct H as [Hr Hv]. split; [exact Hv|exact Hr].
  Qed.
End FwdSound.

(* ---------------------------------------------------------------------------------------------- *)
(* 2. forward: monotonicity, closure of a round, completeness of a stable state                     *)

Definition lab := ((nat -> Z) * (nat -> Z))%type.

Definition le_st (a b : lab) : Prop := (forall n, fst a n <= fst b n) /\ (forall n, snd a n <= snd b n).

Lemma le_st_refl a : le_st a a.
Proof. split; intros; lia. Qed.

Lemma le_st_trans a b c : le_st a b -> le_st b c -> le_st a c.
Proof.
  intros [A1 A2] [B1 B2]. split; intros n; [specialize (A1 n); specialize (B1 n)|specialize (A2 n); specialize (B2 n)]; lia.
Qed.

(* "alighting from e has been accounted for" in the labels st *)
Definition fwd_done (d : data) (p : params) (e : conn) (st : lab) : Prop :=
  snd st (c_to e) <= c_arr e /\
  forall r, In r (fp_of d (c_to e)) -> fp_time r <= q_maxtr p -> fst st (fp_node r) <= c_arr e + fp_time r.

Lemma fwd_done_le d p e st st' : fwd_done d p e st -> le_st st' st -> fwd_done d p e st'.
Proof.
  intros [D1 D2] [L1 L2]. split.
  - specialize (L2 (c_to e)). lia.
  - intros r Hr Hw. specialize (D2 r Hr Hw). specialize (L1 (fp_node r)). lia.
Qed.

(* every ride of the trip cs boardable from the labels rin is accounted for in st *)
Definition closed_fwd (d : data) (p : params) (cs : list conn) (rin : nat -> Z) (st : lab) : Prop :=
  forall b e, In b cs -> In e cs -> (c_seq b <= c_seq e)%nat -> c_cb b = true -> c_cu e = true ->
    rin (c_from b) + minw_true p b <= c_dep b -> rin (c_from b) < INF -> fwd_done d p e st.

Lemma fwd_tstep_summary d p ready veh on c :
  exists r1 v1, fwd_tstep d p (ready, veh, on) c = (r1, v1, fwd_on1 p ready on c) /\
    le_st (r1, v1) (ready, veh) /\
    (fwd_on1 p ready on c = true -> c_cu c = true -> fwd_done d p c (r1, v1)).
Proof.
  rewrite fwd_tstep_eq. destruct (fwd_on1 p ready on c && c_cu c) eqn:E.
  - exists (fwd_ready1 d p c ready), (fwd_veh1 c veh). split; [reflexivity|].
    destruct (fwd_ready1_spec d p c ready) as (R1 & R2 & _).
    destruct (fwd_veh1_spec c veh) as (V1 & V2 & _).
    split; [split; assumption|]. intros _ _. split; cbn [fst snd]; assumption.
  - exists ready, veh. split; [reflexivity|]. split; [apply le_st_refl|].
    intros H1 H2. rewrite H1, H2 in E. discriminate.
Qed.

Lemma fwd_trip_closed d p : forall cs ready veh on, StronglySorted seq_lt cs ->
  le_st (fst (fold_left (fwd_tstep d p) cs (ready, veh, on))) (ready, veh) /\
  (on = true -> forall e, In e cs -> c_cu e = true ->
                fwd_done d p e (fst (fold_left (fwd_tstep d p) cs (ready, veh, on)))) /\
  closed_fwd d p cs ready (fst (fold_left (fwd_tstep d p) cs (ready, veh, on))).
Proof.
  induction cs as [|c cs IH]; intros ready veh on Hsort.
  - cbn [fold_left fst]. split; [apply le_st_refl|]. split; [intros _ e []|intros b e []].
  - cbn [fold_left]. apply StronglySorted_inv in Hsort. destruct Hsort as [Hsort Hall].
    rewrite Forall_forall in Hall.
    destruct (fwd_tstep_summary d p ready veh on c) as (r1 & v1 & Eq & L1 & D1). rewrite Eq.
    destruct (IH r1 v1 (fwd_on1 p ready on c) Hsort) as (M & P2 & P3).
    set (st' := fst (fold_left (fwd_tstep d p) cs (r1, v1, fwd_on1 p ready on c))) in *.
    assert (Hdone : fwd_on1 p ready on c = true -> forall e, In e (c :: cs) -> c_cu e = true -> fwd_done d p e st').
    { intros H1 e [<-|He] Hcu.
      - apply (fwd_done_le d p c (r1, v1)); [apply D1; assumption|exact M].
      - apply P2; assumption. }
    split; [apply (le_st_trans _ (r1, v1)); assumption|]. split.
    + intros Hon. apply Hdone. unfold fwd_on1. rewrite Hon. reflexivity.
    + intros b e [<-|Hb] He Hle Hcb Hcu T I.
      * apply Hdone; try assumption. unfold fwd_on1. rewrite Hcb.
        apply Z.leb_le in T. apply Z.ltb_lt in I. rewrite T, I. apply orb_true_r.
      * destruct He as [<-|He].
        -- specialize (Hall b Hb). unfold seq_lt in Hall. lia.
        -- apply (P3 b e); try assumption.
           ++ destruct L1 as [L1 _]. specialize (L1 (c_from b)). cbn [fst] in L1. lia.
           ++ destruct L1 as [L1 _]. specialize (L1 (c_from b)). cbn [fst] in L1. lia.
Qed.

Lemma relax_trip_fwd_closed d p cs st : StronglySorted seq_lt cs ->
  le_st (relax_trip_fwd d p cs st) st /\ closed_fwd d p cs (fst st) (relax_trip_fwd d p cs st).
Proof.
  intros Hs. rewrite relax_trip_fwd_eq.
  destruct (fwd_trip_closed d p cs (fst st) (snd st) false Hs) as (M & _ & P3).
  split; [|exact P3]. destruct st as [r v]. exact M.
Qed.

Lemma fold_relax_fwd_closed d p : forall L st, (forall cs, In cs L -> StronglySorted seq_lt cs) ->
  le_st (fold_left (fun st cs => relax_trip_fwd d p cs st) L st) st /\
  forall cs, In cs L -> closed_fwd d p cs (fst st) (fold_left (fun st cs => relax_trip_fwd d p cs st) L st).
Proof.
  induction L as [|cs0 L IH]; intros st Hs.
  - cbn [fold_left]. split; [apply le_st_refl|intros cs []].
  - cbn [fold_left].
    destruct (relax_trip_fwd_closed d p cs0 st (Hs cs0 (or_introl eq_refl))) as (M0 & C0).
    destruct (IH (relax_trip_fwd d p cs0 st) (fun cs H => Hs cs (or_intror H))) as (M & C).
    split; [apply (le_st_trans _ _ _ M M0)|].
    intros cs [<-|Hcs] b e Hb He Hle Hcb Hcu T I.
    + apply (fwd_done_le d p e (relax_trip_fwd d p cs0 st)); [|exact M]. apply (C0 b e); assumption.
    + apply (C cs Hcs b e); try assumption.
      * destruct M0 as [M0 _]. specialize (M0 (c_from b)). lia.
      * destruct M0 as [M0 _]. specialize (M0 (c_from b)). lia.
Qed.

Lemma admitted_conns_sorted d s p cs : In cs (admitted_conns d s p) -> StronglySorted seq_lt cs.
Proof. intros H. apply admitted_conns_adm in H. destruct H as (tr & _ & _ & ->). apply trip_conns_sorted. Qed.

Lemma round_fwd_closed d s p st :
  le_st (round_fwd d s p st) st /\
  forall cs, In cs (admitted_conns d s p) -> closed_fwd d p cs (fst st) (round_fwd d s p st).
Proof. unfold round_fwd. apply fold_relax_fwd_closed. apply admitted_conns_sorted. Qed.

(* one more round changes no label of a stop of the dataset *)
Definition ref_fwd_stable_b (d : data) (s : scenario) (p : params) (acc : list fprow) : bool :=
  let st := ref_fwd d s p acc in
  let st' := fold_left (fun st cs => relax_trip_fwd d p cs st) (admitted_conns d s p) st in
  forallb (fun n => (fst st' n =? fst st n) && (snd st' n =? snd st n)) (d_nodes d).

Lemma INF_clock : CLOCK_MAX < INF.
Proof. unfold CLOCK_MAX, INF, MAX_INT. lia. Qed.

Section FwdComplete.
  Variables (d : data) (s : scenario) (p : params) (acc : list fprow).
  Hypothesis Hwf : wf_data_b d = true.
  Hypothesis Hminw : 0 <= q_minw p.

  (* a label state closed under one round, on the stops of the dataset, and not above the access labels *)
  Definition fwd_fix (st : lab) : Prop :=
    (forall n, In n (d_nodes d) -> fst (round_fwd d s p st) n = fst st n /\ snd (round_fwd d s p st) n = snd st n) /\
    (forall ra, In ra acc -> fst st (fp_node ra) <= q_time p + fp_time ra).

  Lemma fix_closed_fwd st : fwd_fix st ->
    forall b e, ride_ok d s p b e -> fst st (c_from b) + minw_true p b <= c_dep b -> fwd_done d p e st.
  Proof.
    intros [Hfix _] b e R T.
    destruct (ride_trip d s p b e Hwf R) as (tr & Htr & Hadm & Hb & He).
    destruct (round_fwd_closed d s p st) as (_ & C).
    specialize (C (trip_conns d tr) (adm_admitted_conns d s p tr Htr Hadm)).
    destruct R as (Ib & Ie & _ & Hle & Hcb & Hcu & _).
    destruct (conn_facts d b Hwf Ib) as (_ & _ & _ & _ & B5 & _).
    destruct (conn_facts d e Hwf Ie) as (_ & E2 & _).
    pose proof (minw_true_nonneg p b Hminw) as Mw. pose proof INF_clock as IC.
    assert (D : fwd_done d p e (round_fwd d s p st)) by (apply (C b e); try assumption; lia).
    destruct D as [D1 D2]. split.
    - destruct (Hfix _ E2) as [_ F2]. lia.
    - intros r Hr Hw. specialize (D2 r Hr Hw).
      destruct (fp_row_node d _ r Hwf E2 Hr) as [N _]. destruct (Hfix _ N) as [F1 _]. lia.
  Qed.

  Lemma fix_reaches st : fwd_fix st ->
    forall n t rides m t', reaches d s p n t rides m t' -> fst st n <= t ->
      snd st m <= t' /\
      forall r, In r (fp_of d m) -> fp_time r <= q_maxtr p -> fst st (fp_node r) <= t' + fp_time r.
  Proof.
    intros Hfix n t rides m t' H.
    induction H as [n t b e R F T|n t b e w n' rest m t' R F T W M H IH]; intros L.
    - subst n. apply (fix_closed_fwd st Hfix b e R). lia.
    - subst n. assert (D : fwd_done d p e st) by (apply (fix_closed_fwd st Hfix b e R); lia).
      apply IH. destruct D as [_ D2]. apply has_row_elim in W. destruct W as (r & Hr & <- & <-).
      apply D2; assumption.
  Qed.

  Lemma ready0_fwd_le ra : In ra acc -> ready0_fwd p acc (fp_node ra) <= q_time p + fp_time ra.
  Proof.
    intros H. unfold ready0_fwd.
    destruct (fold_min_spec (fun _ => true) (fun r => q_time p + fp_time r) fp_node acc (fun _ => INF))
      as (_ & I2 & _).
    apply (I2 ra H). reflexivity.
  Qed.

  Lemma ref_fwd_le_init : le_st (ref_fwd d s p acc) (ready0_fwd p acc, fun _ => INF).
  Proof.
    rewrite ref_fwd_eq.
    apply (iterate_inv (fun y => le_st y (ready0_fwd p acc, fun _ => INF))); [|apply le_st_refl].
    intros x Hx. apply (le_st_trans _ x); [|exact Hx]. apply round_fwd_closed.
  Qed.

  Hypothesis Hstable : ref_fwd_stable_b d s p acc = true.

  Lemma ref_fwd_fix : fwd_fix (ref_fwd d s p acc).
  Proof.
    split.
    - intros n Hn. unfold ref_fwd_stable_b in Hstable. cbv zeta in Hstable.
      rewrite forallb_forall in Hstable. specialize (Hstable n Hn).
      apply andb_prop in Hstable. destruct Hstable as [S1 S2].
      apply Z.eqb_eq in S1, S2. split; assumption.
    - intros ra Hra. destruct ref_fwd_le_init as [L _]. specialize (L (fp_node ra)). cbn [fst] in L.
      pose proof (ready0_fwd_le ra Hra). lia.
  Qed.

  (* 2. completeness at a fixpoint *)
  Theorem ref_fwd_complete_veh n t : alights_at d s p acc n t -> snd (ref_fwd d s p acc) n <= t.
  Proof.
    intros (ra & rides & Hra & R).
    apply (fix_reaches _ ref_fwd_fix _ _ _ _ _ R). apply (proj2 ref_fwd_fix). exact Hra.
  Qed.

  Theorem ref_fwd_complete_ready n t : stands_at d s p acc n t -> fst (ref_fwd d s p acc) n <= t.
  Proof.
    intros [(ra & Hra & <- & ->)|(ra & rides & m & t' & w & Hra & R & Hrow & Hw & ->)].
    - apply (proj2 ref_fwd_fix). exact Hra.
    - apply has_row_elim in Hrow. destruct Hrow as (r & Hr & <- & <-).
      apply (fix_reaches _ ref_fwd_fix _ _ _ _ _ R); try assumption. apply (proj2 ref_fwd_fix). exact Hra.
  Qed.
End FwdComplete.

(* ---------------------------------------------------------------------------------------------- *)
(* 3. forward corollaries: earliest_arrival_ref and reach_map_fwd_ref                               *)

Lemma fold_left_ext {A B} (f g : A -> B -> A) : (forall a b, f a b = g a b) ->
  forall l a, fold_left f l a = fold_left g l a.
Proof.
  intros H. induction l as [|b l IH]; intros a; cbn [fold_left]; [reflexivity|]. rewrite H. apply IH.
Qed.

Section OptFold.
  Variables (okb : fprow -> bool) (f : fprow -> Z).

  Definition omin_step (best : option Z) (r : fprow) : option Z :=
    if okb r then match best with Some b => if f r <? b then Some (f r) else Some b | None => Some (f r) end
    else best.
  Definition omax_step (best : option Z) (r : fprow) : option Z :=
    if okb r then match best with Some b => if f r >? b then Some (f r) else Some b | None => Some (f r) end
    else best.

  Lemma omin_step_spec best r :
    (forall x, omin_step best r = Some x -> best = Some x \/ (okb r = true /\ x = f r)) /\
    (forall b, best = Some b -> exists x, omin_step best r = Some x /\ x <= b) /\
    (okb r = true -> exists x, omin_step best r = Some x /\ x <= f r) /\
    (omin_step best r = None -> best = None /\ okb r = false).
  Proof.
    unfold omin_step. destruct (okb r) eqn:O.
    - destruct best as [b|].
      + destruct (f r <? b) eqn:E.
        * apply Z.ltb_lt in E. split; [|split; [|split]].
          -- intros x H. inversion H. auto.
          -- intros b' H. inversion H. subst b'. exists (f r). split; [reflexivity|lia].
          -- intros _. exists (f r). split; [reflexivity|lia].
          -- discriminate.
        * apply Z.ltb_ge in E. split; [|split; [|split]].
          -- intros x H. auto.
          -- intros b' H. inversion H. subst b'. exists b. split; [reflexivity|lia].
          -- intros _. exists b. split; [reflexivity|lia].
          -- discriminate.
      + split; [|split; [|split]].
        * intros x H. inversion H. auto.
        * discriminate.
        * intros _. exists (f r). split; [reflexivity|lia].
        * discriminate.
    - split; [|split; [|split]].
      + intros x H. auto.
      + intros b H. exists b. split; [exact H|lia].
      + discriminate.
      + intros H. auto.
  Qed.

  Lemma fold_omin_spec : forall rows best,
    match fold_left omin_step rows best with
    | None => best = None /\ forall r, In r rows -> okb r = false
    | Some t => (best = Some t \/ exists r, In r rows /\ okb r = true /\ t = f r) /\
                (forall b, best = Some b -> t <= b) /\ (forall r, In r rows -> okb r = true -> t <= f r)
    end.
  Proof.
    induction rows as [|r rows IH]; intros best; cbn [fold_left].
    - destruct best as [b|].
      + split; [left; reflexivity|]. split; [intros b' H; inversion H; lia|intros r []].
      + split; [reflexivity|intros r []].
    - specialize (IH (omin_step best r)). destruct (omin_step_spec best r) as (S1 & S2 & S3 & S4).
      destruct (fold_left omin_step rows (omin_step best r)) as [t|].
      + destruct IH as (I1 & I2 & I3). split; [|split].
        * destruct I1 as [I1|(r' & Hr' & O & E)].
          -- destruct (S1 t I1) as [B|[O E]]; [left; exact B|].
             right. exists r. split; [left; reflexivity|]. auto.
          -- right. exists r'. split; [right; exact Hr'|]. auto.
        * intros b Hb. destruct (S2 b Hb) as (x & Ex & Lx). specialize (I2 x Ex). lia.
        * intros r' [<-|Hr'] O.
          -- destruct (S3 O) as (x & Ex & Lx). specialize (I2 x Ex). lia.
          -- apply I3; assumption.
      + destruct IH as (I1 & I2). destruct (S4 I1) as [B O]. split; [exact B|].
        intros r' [<-|Hr']; [exact O|apply I2; exact Hr'].
  Qed.

  Lemma omax_step_spec best r :
    (forall x, omax_step best r = Some x -> best = Some x \/ (okb r = true /\ x = f r)) /\
    (forall b, best = Some b -> exists x, omax_step best r = Some x /\ b <= x) /\
    (okb r = true -> exists x, omax_step best r = Some x /\ f r <= x) /\
    (omax_step best r = None -> best = None /\ okb r = false).
  Proof.
    unfold omax_step. destruct (okb r) eqn:O.
    - destruct best as [b|].
      + destruct (f r >? b) eqn:E.
        * apply Z.gtb_lt in E. split; [|split; [|split]].
          -- intros x H. inversion H. auto.
          -- intros b' H. inversion H. subst b'. exists (f r). split; [reflexivity|lia].
          -- intros _. exists (f r). split; [reflexivity|lia].
          -- discriminate.
        * assert (E' : f r <= b).
          { destruct (Z_le_gt_dec (f r) b) as [L|L]; [exact L|].
            assert (T : (f r >? b) = true) by (apply Z.gtb_lt; lia). congruence. }
          split; [|split; [|split]].
          -- intros x H. auto.
          -- intros b' H. inversion H. subst b'. exists b. split; [reflexivity|lia].
          -- intros _. exists b. split; [reflexivity|lia].
          -- discriminate.
      + split; [|split; [|split]].
        * intros x H. inversion H. auto.
        * discriminate.
        * intros _. exists (f r). split; [reflexivity|lia].
        * discriminate.
    - split; [|split; [|split]].
      + intros x H. auto.
      + intros b H. exists b. split; [exact H|lia].
      + discriminate.
      + intros H. auto.
  Qed.

  Lemma fold_omax_spec : forall rows best,
    match fold_left omax_step rows best with
    | None => best = None /\ forall r, In r rows -> okb r = false
    | Some t => (best = Some t \/ exists r, In r rows /\ okb r = true /\ t = f r) /\
                (forall b, best = Some b -> b <= t) /\ (forall r, In r rows -> okb r = true -> f r <= t)
    end.
  Proof.
    induction rows as [|r rows IH]; intros best; cbn [fold_left].
    - destruct best as [b|].
      + split; [left; reflexivity|]. split; [intros b' H; inversion H; lia|intros r []].
      + split; [reflexivity|intros r []].
    - specialize (IH (omax_step best r)). destruct (omax_step_spec best r) as (S1 & S2 & S3 & S4).
      destruct (fold_left omax_step rows (omax_step best r)) as [t|].
      + destruct IH as (I1 & I2 & I3). split; [|split].
        * destruct I1 as [I1|(r' & Hr' & O & E)].
          -- destruct (S1 t I1) as [B|[O E]]; [left; exact B|].
             right. exists r. split; [left; reflexivity|]. auto.
          -- right. exists r'. split; [right; exact Hr'|]. auto.
        * intros b Hb. destruct (S2 b Hb) as (x & Ex & Lx). specialize (I2 x Ex). lia.
        * intros r' [<-|Hr'] O.
          -- destruct (S3 O) as (x & Ex & Lx). specialize (I2 x Ex). lia.
          -- apply I3; assumption.
      + destruct IH as (I1 & I2). destruct (S4 I1) as [B O]. split; [exact B|].
        intros r' [<-|Hr']; [exact O|apply I2; exact Hr'].
  Qed.
End OptFold.

Definition ea_ok (veh : nat -> Z) (p : params) (r : fprow) : bool :=
  (veh (fp_node r) <? INF) && (veh (fp_node r) + fp_time r - q_time p <=? q_maxtt p).
Definition ea_val (veh : nat -> Z) (r : fprow) : Z := veh (fp_node r) + fp_time r.

Lemma earliest_arrival_ref_eq d s p acc egr :
  earliest_arrival_ref d s p acc egr =
  fold_left (omin_step (ea_ok (snd (ref_fwd d s p acc)) p) (ea_val (snd (ref_fwd d s p acc)))) egr None.
Proof.
  unfold earliest_arrival_ref. cbv zeta. apply fold_left_ext. intros best r.
  unfold omin_step, ea_ok, ea_val.
  destruct (snd (ref_fwd d s p acc) (fp_node r) <? INF); cbn [andb]; [|reflexivity].
  destruct (snd (ref_fwd d s p acc) (fp_node r) + fp_time r - q_time p <=? q_maxtt p); cbn [andb]; [|reflexivity].
  destruct best as [b|]; [|reflexivity].
  destruct (snd (ref_fwd d s p acc) (fp_node r) + fp_time r <? b); reflexivity.
Qed.

Lemma alights_at_bounds d s p acc n t : wf_data_b d = true -> alights_at d s p acc n t ->
  In n (d_nodes d) /\ 0 <= t /\ t < CLOCK_MAX.
Proof.
  intros Hwf (ra & rides & _ & R). apply reaches_end in R. destruct R as (e & He & -> & ->).
  destruct (conn_facts d e Hwf He) as (_ & E2 & E3 & E4 & _ & E6 & _). split; [exact E2|lia].
Qed.

Lemma nodup_nat_NoDup l : nodup_nat l = true -> NoDup l.
Proof.
  induction l as [|x l IH]; cbn [nodup_nat]; intros H; [constructor|].
  apply andb_prop in H. destruct H as [H1 H2]. constructor; [|apply IH; exact H2].
  intros Hin. apply memb_In in Hin. rewrite Hin in H1. discriminate.
Qed.

Lemma flat_map_sel_fst (c : nat -> bool) (g : nat -> Z) : forall l x,
  In x (map fst (flat_map (fun n => if c n then [(n, g n)] else []) l)) -> In x l.
Proof.
  induction l as [|a l IH]; intros x H; [destruct H|]. cbn [flat_map] in H.
  rewrite map_app in H. apply in_app_or in H. destruct H as [H|H]; [|right; apply IH; exact H].
  destruct (c a); [|destruct H]. destruct H as [H|[]]. left. exact H.
Qed.

Lemma flat_map_sel_nodup (c : nat -> bool) (g : nat -> Z) : forall l, NoDup l ->
  NoDup (map fst (flat_map (fun n => if c n then [(n, g n)] else []) l)).
Proof.
  induction l as [|a l IH]; intros H; [constructor|]. inversion H as [|a' l' Hn Hl]; subst.
  cbn [flat_map]. rewrite map_app. destruct (c a); cbn [map app fst]; [|apply IH; exact Hl].
  constructor; [|apply IH; exact Hl]. intros Hin. apply flat_map_sel_fst in Hin. contradiction.
Qed.

Lemma flat_map_sel_in (c : nat -> bool) (g : nat -> Z) l n t :
  In (n, t) (flat_map (fun n => if c n then [(n, g n)] else []) l) <-> In n l /\ c n = true /\ t = g n.
Proof.
  rewrite in_flat_map. split.
  - intros (x & Hx & H). destruct (c x) eqn:C; [|destruct H]. destruct H as [H|[]]. inversion H; subst. auto.
  - intros (Hn & C & ->). exists n. split; [exact Hn|]. rewrite C. left. reflexivity.
Qed.

Section FwdCorollaries.
  Variables (d : data) (s : scenario) (p : params) (acc egr : list fprow).
  Hypothesis Hwf : wf_data_b d = true.
  Hypothesis Hp : wf_params_b p = true.
  Hypothesis Hstable : ref_fwd_stable_b d s p acc = true.

  Let veh := snd (ref_fwd d s p acc).

  Lemma veh_sound n : veh n < INF -> alights_at d s p acc n (veh n).
  Proof. apply (proj2 (ref_fwd_inv d s p acc Hwf)). Qed.

  Lemma veh_complete n t : alights_at d s p acc n t -> veh n <= t.
  Proof. apply (ref_fwd_complete_veh d s p acc Hwf (wf_params_minw p Hp) Hstable). Qed.

  Lemma veh_complete_inf n t : alights_at d s p acc n t -> veh n <= t /\ veh n < INF.
  Proof.
    intros H. pose proof (veh_complete n t H). destruct (alights_at_bounds d s p acc n t Hwf H) as (_ & _ & B).
    pose proof INF_clock. split; lia.
  Qed.

  Lemma admissible_fwd_veh rides t : admissible_fwd d s p acc egr rides t ->
    exists re, In re egr /\ ea_ok veh p re = true /\ ea_val veh re <= t.
  Proof.
    intros [(ra & re & m & t' & Hra & Hre & R & -> & ->) Hmax].
    assert (A : alights_at d s p acc (fp_node re) t') by (exists ra, rides; auto).
    destruct (veh_complete_inf _ _ A) as [L I].
    exists re. split; [exact Hre|]. unfold ea_ok, ea_val. split; [|lia].
    apply andb_true_intro. split; [apply Z.ltb_lt; exact I|apply Z.leb_le; lia].
  Qed.

  Lemma veh_admissible_fwd re : In re egr -> ea_ok veh p re = true ->
    exists rides, admissible_fwd d s p acc egr rides (ea_val veh re).
  Proof.
    intros Hre O. unfold ea_ok in O. apply andb_prop in O. destruct O as [O1 O2].
    apply Z.ltb_lt in O1. apply Z.leb_le in O2.
    destruct (veh_sound _ O1) as (ra & rides & Hra & R).
    exists rides. split; [|unfold ea_val; exact O2].
    exists ra, re, (fp_node re), (veh (fp_node re)). unfold ea_val. auto.
  Qed.

  (* 3a. the forward oracle returns the minimum arrival over all admissible journeys *)
  Theorem earliest_arrival_ref_some t : earliest_arrival_ref d s p acc egr = Some t ->
    (exists rides, admissible_fwd d s p acc egr rides t) /\
    (forall rides t', admissible_fwd d s p acc egr rides t' -> t <= t').
  Proof.
    rewrite earliest_arrival_ref_eq. fold veh. intros H.
    pose proof (fold_omin_spec (ea_ok veh p) (ea_val veh) egr None) as S. rewrite H in S.
    destruct S as (S1 & _ & S3). split.
    - destruct S1 as [S1|(re & Hre & O & ->)]; [discriminate|]. apply veh_admissible_fwd; assumption.
    - intros rides t' A. destruct (admissible_fwd_veh rides t' A) as (re & Hre & O & L).
      specialize (S3 re Hre O). lia.
  Qed.

  Theorem earliest_arrival_ref_none : earliest_arrival_ref d s p acc egr = None ->
    forall rides t', ~ admissible_fwd d s p acc egr rides t'.
  Proof.
    rewrite earliest_arrival_ref_eq. fold veh. intros H rides t' A.
    pose proof (fold_omin_spec (ea_ok veh p) (ea_val veh) egr None) as S. rewrite H in S.
    destruct S as (_ & S2). destruct (admissible_fwd_veh rides t' A) as (re & Hre & O & L).
    rewrite (S2 re Hre) in O. discriminate.
  Qed.

  (* 3b. the forward reachability map *)
  Theorem reach_map_fwd_ref_spec n t :
    In (n, t) (reach_map_fwd_ref d s p acc) <-> (earliest_alight d s p acc n t /\ t - q_time p <= q_maxtt p).
  Proof.
    unfold reach_map_fwd_ref. cbv zeta. fold veh.
    rewrite (flat_map_sel_in (fun n => (veh n <? INF) && (veh n - q_time p <=? q_maxtt p)) veh).
    split.
    - intros (Hn & C & ->). apply andb_prop in C. destruct C as [C1 C2].
      apply Z.ltb_lt in C1. apply Z.leb_le in C2. split; [|exact C2].
      split; [apply veh_sound; exact C1|]. intros t' A. apply veh_complete. exact A.
    - intros [[A Hmin] Hmax]. destruct (veh_complete_inf n t A) as [L I].
      destruct (alights_at_bounds d s p acc n t Hwf A) as (Hn & _).
      pose proof (Hmin _ (veh_sound n I)) as L'. assert (E : t = veh n) by lia.
      split; [exact Hn|]. split; [|exact E].
      apply andb_true_intro. split; [apply Z.ltb_lt; exact I|apply Z.leb_le; lia].
  Qed.

  Theorem reach_map_fwd_ref_nodup : NoDup (map fst (reach_map_fwd_ref d s p acc)).
  Proof.
    unfold reach_map_fwd_ref. cbv zeta. apply flat_map_sel_nodup. apply nodup_nat_NoDup.
    pose proof Hwf as W. unfold wf_data_b in W.
    peel W X10. peel W X9. peel W X8. peel W X7. peel W X6. peel W X5. peel W X4. peel W X3.
    peel W X2. exact W.
  Qed.
End FwdCorollaries.

(* ---------------------------------------------------------------------------------------------- *)
(* 4. reverse: step function of relax_trip_rev, soundness invariant                                 *)

(* boards_at with an explicit arrival bound A in place of q_time p *)
Definition boards_by (d : data) (s : scenario) (p : params) (egr : list fprow) (A : Z) (n : nat) (t : Z) : Prop :=
  exists re rides m t', In re egr /\ reaches d s p n t rides m t' /\ m = fp_node re /\ t' + fp_time re <= A.

Lemma boards_at_by d s p egr n t : boards_at d s p egr n t <-> boards_by d s p egr (q_time p) n t.
Proof. unfold boards_at, boards_by. reflexivity. Qed.

Lemma boards_by_mono d s p egr A n t t0 : boards_by d s p egr A n t -> t0 <= t -> boards_by d s p egr A n t0.
Proof.
  intros (re & rides & m & t' & Hre & R & E & L) Ht. exists re, rides, m, t'.
  split; [exact Hre|]. split; [apply (reaches_mono d s p n t); assumption|]. auto.
Qed.

Definition rev_on1 (lat : nat -> Z) (on : bool) (c : conn) : bool :=
  on || (c_cu c && (c_arr c <=? lat (c_to c))).

Definition rev_tstep (d : data) (p : params) (c : conn) (acc : (nat -> Z) * (nat -> Z) * bool)
  : (nat -> Z) * (nat -> Z) * bool :=
  let '(lat, brd, on) := acc in
  let on1 := on || (c_cu c && (c_arr c <=? lat (c_to c))) in
  if on1 && c_cb c then
    let v := c_dep c - minw_true p c in
    let brd1 := if v >? brd (c_from c) then upd brd (c_from c) v else brd in
    let lat1 := fold_left (fun lt m =>
                    fold_left (fun lt r =>
                      if Nat.eqb (fp_node r) (c_from c) && (fp_time r <=? q_maxtr p) && (v - fp_time r >? lt m)
                      then upd lt m (v - fp_time r) else lt) (fp_of d m) lt) (d_nodes d) lat in
    (lat1, brd1, on1)
  else (lat, brd, on1).

Lemma relax_trip_rev_eq d p cs st :
  relax_trip_rev d p cs st = fst (fold_right (rev_tstep d p) (fst st, snd st, false) cs).
Proof.
  unfold relax_trip_rev, rev_tstep.
  destruct (fold_right _ (fst st, snd st, false) cs) as [[l b] o]. reflexivity.
Qed.

Definition rev_v (p : params) (c : conn) : Z := c_dep c - minw_true p c.
Definition rev_brd1 (p : params) (c : conn) (brd : nat -> Z) : nat -> Z :=
  if rev_v p c >? brd (c_from c) then upd brd (c_from c) (rev_v p c) else brd.
Definition rev_lat_inner (d : data) (p : params) (c : conn) (lt : nat -> Z) (m : nat) : nat -> Z :=
  fold_left (max_step (fun r => Nat.eqb (fp_node r) (c_from c) && (fp_time r <=? q_maxtr p))
                      (fun r => rev_v p c - fp_time r) (fun _ => m)) (fp_of d m) lt.
Definition rev_lat1 (d : data) (p : params) (c : conn) (lat : nat -> Z) : nat -> Z :=
  fold_left (rev_lat_inner d p c) (d_nodes d) lat.

Lemma rev_tstep_eq d p lat brd on c :
  rev_tstep d p c (lat, brd, on) =
  if rev_on1 lat on c && c_cb c
  then (rev_lat1 d p c lat, rev_brd1 p c brd, rev_on1 lat on c)
  else (lat, brd, rev_on1 lat on c).
Proof. reflexivity. Qed.

Lemma rev_brd1_spec p c brd :
  (forall n, brd n <= rev_brd1 p c brd n) /\ rev_v p c <= rev_brd1 p c brd (c_from c) /\
  (forall n, rev_brd1 p c brd n = brd n \/ (n = c_from c /\ rev_brd1 p c brd n = rev_v p c)).
Proof.
  unfold rev_brd1. destruct (rev_v p c >? brd (c_from c)) eqn:E.
  - apply Z.gtb_lt in E. split; [|split].
    + intros n. destruct (Nat.eq_dec n (c_from c)) as [->|N];
        [rewrite upd_same; lia|rewrite upd_other by exact N; lia].
    + rewrite upd_same. lia.
    + intros n. destruct (Nat.eq_dec n (c_from c)) as [->|N].
      * right. rewrite upd_same. auto.
      * left. rewrite upd_other by exact N. reflexivity.
  - assert (E' : rev_v p c <= brd (c_from c)).
    { destruct (Z_le_gt_dec (rev_v p c) (brd (c_from c))) as [L|L]; [exact L|].
      assert (T : (rev_v p c >? brd (c_from c)) = true) by (apply Z.gtb_lt; lia). congruence. }
    split; [|split]; [intros; lia|lia|intros; left; reflexivity].
Qed.

Definition rev_row_ok (p : params) (c : conn) (r : fprow) : Prop :=
  fp_node r = c_from c /\ fp_time r <= q_maxtr p.

Lemma rev_lat_inner_spec d p c lt m :
  (forall n, lt n <= rev_lat_inner d p c lt m n) /\
  (forall r, In r (fp_of d m) -> rev_row_ok p c r -> rev_v p c - fp_time r <= rev_lat_inner d p c lt m m) /\
  (forall n, rev_lat_inner d p c lt m n = lt n \/
             (m = n /\ exists r, In r (fp_of d m) /\ rev_row_ok p c r /\
                                 rev_lat_inner d p c lt m n = rev_v p c - fp_time r)).
Proof.
  unfold rev_lat_inner.
  destruct (fold_max_spec (fun r => Nat.eqb (fp_node r) (c_from c) && (fp_time r <=? q_maxtr p))
              (fun r => rev_v p c - fp_time r) (fun _ => m) (fp_of d m) lt) as (I1 & I2 & I3).
  split; [exact I1|]. split.
  - intros r Hr [K W]. apply (I2 r Hr). apply andb_true_intro. split; [apply Nat.eqb_eq; exact K|apply Z.leb_le; exact W].
  - intros n. destruct (I3 n) as [E|(r & Hr & G & K & E)]; [left; exact E|].
    right. split; [exact K|]. exists r. apply andb_prop in G. destruct G as [G1 G2].
    apply Nat.eqb_eq in G1. apply Z.leb_le in G2. split; [exact Hr|]. split; [split; assumption|exact E].
Qed.

Lemma rev_lat_outer_spec d p c : forall l lt,
  (forall n, lt n <= fold_left (rev_lat_inner d p c) l lt n) /\
  (forall m r, In m l -> In r (fp_of d m) -> rev_row_ok p c r ->
               rev_v p c - fp_time r <= fold_left (rev_lat_inner d p c) l lt m) /\
  (forall n, fold_left (rev_lat_inner d p c) l lt n = lt n \/
             exists r, In r (fp_of d n) /\ rev_row_ok p c r /\
                       fold_left (rev_lat_inner d p c) l lt n = rev_v p c - fp_time r).
Proof.
  induction l as [|m l IH]; intros lt; cbn [fold_left].
  - split; [intros; lia|]. split; [intros m r []|intros; left; reflexivity].
  - destruct (IH (rev_lat_inner d p c lt m)) as (I1 & I2 & I3).
    destruct (rev_lat_inner_spec d p c lt m) as (S1 & S2 & S3).
    split; [|split].
    + intros n. specialize (I1 n). specialize (S1 n). lia.
    + intros m' r [<-|Hm'] Hr Hok.
      * specialize (I1 m). specialize (S2 r Hr Hok). lia.
      * apply I2; assumption.
    + intros n. destruct (I3 n) as [E|(r & Hr & Hok & E)].
      * destruct (S3 n) as [E'|(K & r & Hr & Hok & E')].
        -- left. congruence.
        -- subst m. right. exists r. split; [exact Hr|]. split; [exact Hok|]. congruence.
      * right. exists r. auto.
Qed.

Lemma rev_lat1_spec d p c lat :
  (forall n, lat n <= rev_lat1 d p c lat n) /\
  (forall m r, In m (d_nodes d) -> In r (fp_of d m) -> rev_row_ok p c r ->
               rev_v p c - fp_time r <= rev_lat1 d p c lat m) /\
  (forall n, rev_lat1 d p c lat n = lat n \/
             exists r, In r (fp_of d n) /\ rev_row_ok p c r /\ rev_lat1 d p c lat n = rev_v p c - fp_time r).
Proof. unfold rev_lat1. apply rev_lat_outer_spec. Qed.

Opaque rev_tstep.

Lemma NEG_neg : NEG < 0.
Proof. unfold NEG, MAX_INT. lia. Qed.

Section RevSound.
  Variables (d : data) (s : scenario) (p : params) (egr : list fprow) (A : Z).
  Hypothesis Hwf : wf_data_b d = true.

  (* why a lat label is what it is: end of ... an egress walk arriving exactly at A, or a transfer walk to a boarding *)
  Definition lat_just (m : nat) (t : Z) : Prop :=
    (exists re, In re egr /\ fp_node re = m /\ t = A - fp_time re) \/
    (exists n w, has_row (fp_of d m) n w = true /\ w <= q_maxtr p /\ boards_by d s p egr A n (t + w)).

  (* a traveller stepping off at m at time t can still make it *)
  Definition finishes_from (m : nat) (t : Z) : Prop :=
    (exists re, In re egr /\ fp_node re = m /\ t + fp_time re <= A) \/
    (exists n w, has_row (fp_of d m) n w = true /\ w <= q_maxtr p /\ boards_by d s p egr A n (t + w)).

  Definition RInv (st : lab) : Prop :=
    (forall m, fst st m > NEG -> lat_just m (fst st m)) /\
    (forall n, snd st n > NEG -> boards_by d s p egr A n (snd st n)).

  Lemma lat_just_finishes m t t0 : lat_just m t -> t0 <= t -> finishes_from m t0.
  Proof.
    intros [(re & Hre & K & E)|(n & w & Hrow & Hw & B)] L.
    - left. exists re. split; [exact Hre|]. split; [exact K|lia].
    - right. exists n, w. split; [exact Hrow|]. split; [exact Hw|]. apply (boards_by_mono d s p egr A n (t + w)); [exact B|lia].
  Qed.

  Lemma finish_ride b e : finishes_from (c_to e) (c_arr e) -> ride_ok d s p b e ->
    boards_by d s p egr A (c_from b) (rev_v p b).
  Proof.
    unfold rev_v. intros [(re & Hre & K & L)|(n & w & Hrow & Hw & (re & rides & m & t' & Hre & R & E & L))] Rk.
    - exists re, [(b, e)], (c_to e), (c_arr e). split; [exact Hre|].
      split; [apply reaches_last; [exact Rk|reflexivity|lia]|]. auto.
    - exists re, ((b, e) :: rides), m, t'. split; [exact Hre|]. split; [|auto].
      apply (reaches_cons d s p (c_from b) _ b e w n); try assumption; [reflexivity|lia].
  Qed.

  Lemma rev_trip_sound tr lat brd : In tr (d_trips d) -> trip_admitted d s p tr = true -> RInv (lat, brd) ->
    forall cs, (forall c, In c cs -> In c (trip_conns d tr)) -> StronglySorted seq_lt cs ->
      RInv (fst (fold_right (rev_tstep d p) (lat, brd, false) cs)) /\
      (snd (fold_right (rev_tstep d p) (lat, brd, false) cs) = true ->
       exists e, In e cs /\ c_cu e = true /\ finishes_from (c_to e) (c_arr e)).
  Proof.
    intros Htr Hadm Hinv. induction cs as [|c cs IH]; intros Hsub Hsort.
    - cbn [fold_right fst snd]. split; [exact Hinv|discriminate].
    - cbn [fold_right]. apply StronglySorted_inv in Hsort. destruct Hsort as [Hsort Hall].
      rewrite Forall_forall in Hall.
      assert (Hc : In c (trip_conns d tr)) by (apply Hsub; left; reflexivity).
      assert (Hsub' : forall c', In c' cs -> In c' (trip_conns d tr)) by (intros c' H'; apply Hsub; right; exact H').
      destruct (IH Hsub' Hsort) as [I1 I2].
      destruct (fold_right (rev_tstep d p) (lat, brd, false) cs) as [[l0 b0] on0]. cbn [fst snd] in I1, I2.
      rewrite rev_tstep_eq.
      assert (Ic : In c (all_conns d)) by (unfold all_conns; apply in_flat_map; exists tr; auto).
      assert (Hon1 : rev_on1 l0 on0 c = true ->
                     exists e, In e (c :: cs) /\ c_cu e = true /\ finishes_from (c_to e) (c_arr e) /\
                               (c_seq c <= c_seq e)%nat).
      { unfold rev_on1. intros H. apply orb_prop in H. destruct H as [H|H].
        - destruct (I2 H) as (e & He & E1 & E2). exists e. split; [right; exact He|].
          specialize (Hall e He). unfold seq_lt in Hall. split; [exact E1|]. split; [exact E2|lia].
        - peel H H2. apply Z.leb_le in H2. exists c. split; [left; reflexivity|]. split; [exact H|].
          split; [|lia]. apply (lat_just_finishes _ (l0 (c_to c))); [|exact H2].
          apply (proj1 I1). cbn [fst]. pose proof (conn_arr_nonneg d c Hwf Ic). pose proof NEG_neg. lia. }
      assert (Hon' : rev_on1 l0 on0 c = true ->
                     exists e, In e (c :: cs) /\ c_cu e = true /\ finishes_from (c_to e) (c_arr e)).
      { intros H. destruct (Hon1 H) as (e & E1 & E2 & E3 & _). exists e. auto. }
      destruct (rev_on1 l0 on0 c && c_cb c) eqn:E; cbn [fst snd]; [|split; assumption].
      split; [|exact Hon'].
      peel E Hcb. destruct (Hon1 E) as (e & He & Hcu & Hfin & Hle).
      assert (B : boards_by d s p egr A (c_from c) (rev_v p c)).
      { apply (finish_ride c e Hfin). apply (trip_ride d s p tr); try assumption. apply Hsub. exact He. }
      destruct I1 as [Il Ib]. cbn [fst snd] in Il, Ib. split; cbn [fst snd].
      + intros m Hm. destruct (rev_lat1_spec d p c l0) as (_ & _ & S3).
        destruct (S3 m) as [E1|(r & Hr & [K W] & E1)].
        * rewrite E1 in *. apply Il. exact Hm.
        * rewrite E1. right. exists (c_from c), (fp_time r).
          split; [rewrite <- K; apply has_row_intro; exact Hr|]. split; [exact W|].
          apply (boards_by_mono d s p egr A _ _ _ B). lia.
      + intros n Hn. destruct (rev_brd1_spec p c b0) as (_ & _ & S3).
        destruct (S3 n) as [E1|[K E1]].
        * rewrite E1 in *. apply Ib. exact Hn.
        * rewrite E1. subst n. exact B.
  Qed.

  Lemma relax_trip_rev_sound cs st : adm_cs d s p cs -> RInv st -> RInv (relax_trip_rev d p cs st).
  Proof.
    intros (tr & Htr & Hadm & ->) Hinv. rewrite relax_trip_rev_eq.
    apply (rev_trip_sound tr (fst st) (snd st) Htr Hadm); [|auto|apply trip_conns_sorted].
    destruct st as [l b]. exact Hinv.
  Qed.

  Definition round_rev (st : lab) : lab :=
    fold_left (fun st cs => relax_trip_rev d p cs st) (admitted_conns d s p) st.

  Definition lat0_rev : nat -> Z :=
    fold_left (max_step (fun _ => true) (fun r => A - fp_time r) fp_node) egr (fun _ => NEG).

  Lemma ref_rev_eq : ref_rev d s p A egr = iterate (ref_rounds d) round_rev (lat0_rev, fun _ => NEG).
  Proof. reflexivity. Qed.

  Lemma round_rev_sound st : RInv st -> RInv (round_rev st).
  Proof.
    unfold round_rev. apply fold_left_inv. intros a cs Hcs Ha.
    apply relax_trip_rev_sound; [apply admitted_conns_adm; exact Hcs|exact Ha].
  Qed.

  Lemma init_rev_sound : RInv (lat0_rev, fun _ => NEG).
  Proof.
    split; cbn [fst snd].
    - intros n Hn. unfold lat0_rev in *.
      destruct (fold_max_spec (fun _ => true) (fun r => A - fp_time r) fp_node egr (fun _ => NEG))
        as (_ & _ & I3).
      destruct (I3 n) as [E|(r & Hr & _ & K & E)]; [rewrite E in Hn; lia|].
      left. exists r. auto.
    - intros n Hn. lia.
  Qed.

  Theorem ref_rev_inv : RInv (ref_rev d s p A egr).
  Proof. rewrite ref_rev_eq. apply iterate_inv; [exact round_rev_sound|exact init_rev_sound]. Qed.

  (* 4.1 reverse soundness, explicit form *)
  Theorem ref_rev_sound :
    let '(lat, brd) := ref_rev d s p A egr in
    (forall n, brd n > NEG -> boards_by d s p egr A n (brd n)) /\
    (forall m, lat m > NEG ->
       (exists re, In re egr /\ fp_node re = m /\ lat m = A - fp_time re) \/
       (exists n w, has_row (fp_of d m) n w = true /\ w <= q_maxtr p /\ boards_by d s p egr A n (lat m + w))).
  Proof.
    pose proof ref_rev_inv as H. destruct (ref_rev d s p A egr) as [lat brd].
    destruct H as [Hl Hb]. split; [exact Hb|exact Hl].
  Qed.
End RevSound.

(* ---------------------------------------------------------------------------------------------- *)
(* 4.2 reverse: monotonicity, closure of a round, completeness of a stable state                    *)

(* "boarding b has been accounted for" in the labels st *)
Definition rev_done (d : data) (p : params) (b : conn) (st : lab) : Prop :=
  rev_v p b <= snd st (c_from b) /\
  forall m r, In m (d_nodes d) -> In r (fp_of d m) -> rev_row_ok p b r -> rev_v p b - fp_time r <= fst st m.

Lemma rev_done_le d p b st st' : rev_done d p b st -> le_st st st' -> rev_done d p b st'.
Proof.
  intros [D1 D2] [L1 L2]. split.
  - specialize (L2 (c_from b)). lia.
  - intros m r Hm Hr Hok. specialize (D2 m r Hm Hr Hok). specialize (L1 m). lia.
Qed.

Definition closed_rev (d : data) (p : params) (cs : list conn) (lin : nat -> Z) (st : lab) : Prop :=
  forall b e, In b cs -> In e cs -> (c_seq b <= c_seq e)%nat -> c_cb b = true -> c_cu e = true ->
    c_arr e <= lin (c_to e) -> rev_done d p b st.

Lemma rev_tstep_summary d p lat brd on c :
  exists l1 b1, rev_tstep d p c (lat, brd, on) = (l1, b1, rev_on1 lat on c) /\
    le_st (lat, brd) (l1, b1) /\
    (rev_on1 lat on c = true -> c_cb c = true -> rev_done d p c (l1, b1)).
Proof.
  rewrite rev_tstep_eq. destruct (rev_on1 lat on c && c_cb c) eqn:E.
  - exists (rev_lat1 d p c lat), (rev_brd1 p c brd). split; [reflexivity|].
    destruct (rev_lat1_spec d p c lat) as (R1 & R2 & _).
    destruct (rev_brd1_spec p c brd) as (V1 & V2 & _).
    split; [split; assumption|]. intros _ _. split; cbn [fst snd]; assumption.
  - exists lat, brd. split; [reflexivity|]. split; [apply le_st_refl|].
    intros H1 H2. rewrite H1, H2 in E. discriminate.
Qed.

Lemma rev_trip_closed d p lat brd : forall cs, StronglySorted seq_lt cs ->
  le_st (lat, brd) (fst (fold_right (rev_tstep d p) (lat, brd, false) cs)) /\
  (forall e, In e cs -> c_cu e = true -> c_arr e <= lat (c_to e) ->
             snd (fold_right (rev_tstep d p) (lat, brd, false) cs) = true) /\
  closed_rev d p cs lat (fst (fold_right (rev_tstep d p) (lat, brd, false) cs)).
Proof.
  induction cs as [|c cs IH]; intros Hsort.
  - cbn [fold_right fst snd]. split; [apply le_st_refl|]. split; [intros e []|intros b e []].
  - cbn [fold_right]. apply StronglySorted_inv in Hsort. destruct Hsort as [Hsort Hall].
    rewrite Forall_forall in Hall. destruct (IH Hsort) as (M & P2 & P3).
    destruct (fold_right (rev_tstep d p) (lat, brd, false) cs) as [[l0 b0] on0]. cbn [fst snd] in M, P2, P3.
    destruct (rev_tstep_summary d p l0 b0 on0 c) as (l1 & b1 & Eq & L1 & D1). rewrite Eq. cbn [fst snd].
    assert (Hon : forall e, In e (c :: cs) -> c_cu e = true -> c_arr e <= lat (c_to e) -> rev_on1 l0 on0 c = true).
    { intros e [<-|He] Hcu T; unfold rev_on1.
      - rewrite Hcu. destruct M as [M1 _]. specialize (M1 (c_to c)). cbn [fst] in M1.
        assert (T' : (c_arr c <=? l0 (c_to c)) = true) by (apply Z.leb_le; lia).
        rewrite T'. apply orb_true_r.
      - rewrite (P2 e He Hcu T). reflexivity. }
    split; [apply (le_st_trans _ (l0, b0)); assumption|]. split; [exact Hon|].
    intros b e [<-|Hb] He Hle Hcb Hcu T.
    + apply D1; [|exact Hcb]. apply (Hon e He Hcu T).
    + destruct He as [<-|He].
      * specialize (Hall b Hb). unfold seq_lt in Hall. lia.
      * apply (rev_done_le d p b (l0, b0)); [|exact L1]. apply (P3 b e); assumption.
Qed.

Lemma relax_trip_rev_closed d p cs st : StronglySorted seq_lt cs ->
  le_st st (relax_trip_rev d p cs st) /\ closed_rev d p cs (fst st) (relax_trip_rev d p cs st).
Proof.
  intros Hs. rewrite relax_trip_rev_eq.
  destruct (rev_trip_closed d p (fst st) (snd st) cs Hs) as (M & _ & P3).
  split; [|exact P3]. destruct st as [l b]. exact M.
Qed.

Lemma fold_relax_rev_closed d p : forall L st, (forall cs, In cs L -> StronglySorted seq_lt cs) ->
  le_st st (fold_left (fun st cs => relax_trip_rev d p cs st) L st) /\
  forall cs, In cs L -> closed_rev d p cs (fst st) (fold_left (fun st cs => relax_trip_rev d p cs st) L st).
Proof.
  induction L as [|cs0 L IH]; intros st Hs.
  - cbn [fold_left]. split; [apply le_st_refl|intros cs []].
  - cbn [fold_left].
    destruct (relax_trip_rev_closed d p cs0 st (Hs cs0 (or_introl eq_refl))) as (M0 & C0).
    destruct (IH (relax_trip_rev d p cs0 st) (fun cs H => Hs cs (or_intror H))) as (M & C).
    split; [apply (le_st_trans _ _ _ M0 M)|].
    intros cs [<-|Hcs] b e Hb He Hle Hcb Hcu T.
    + apply (rev_done_le d p b (relax_trip_rev d p cs0 st)); [|exact M]. apply (C0 b e); assumption.
    + apply (C cs Hcs b e); try assumption.
      destruct M0 as [M0 _]. specialize (M0 (c_to e)). lia.
Qed.

Lemma round_rev_closed d s p st :
  le_st st (round_rev d s p st) /\
  forall cs, In cs (admitted_conns d s p) -> closed_rev d p cs (fst st) (round_rev d s p st).
Proof. unfold round_rev. apply fold_relax_rev_closed. apply admitted_conns_sorted. Qed.

(* one more round changes no label of a stop of the dataset *)
Definition ref_rev_stable_b (d : data) (s : scenario) (p : params) (arr : Z) (egr : list fprow) : bool :=
  let st := ref_rev d s p arr egr in
  let st' := fold_left (fun st cs => relax_trip_rev d p cs st) (admitted_conns d s p) st in
  forallb (fun n => (fst st' n =? fst st n) && (snd st' n =? snd st n)) (d_nodes d).

Section RevComplete.
  Variables (d : data) (s : scenario) (p : params) (egr : list fprow) (A : Z).
  Hypothesis Hwf : wf_data_b d = true.

  Definition rev_fix (st : lab) : Prop :=
    (forall n, In n (d_nodes d) -> fst (round_rev d s p st) n = fst st n /\ snd (round_rev d s p st) n = snd st n) /\
    (forall re, In re egr -> A - fp_time re <= fst st (fp_node re)).

  Lemma fix_closed_rev st : rev_fix st ->
    forall b e, ride_ok d s p b e -> c_arr e <= fst st (c_to e) -> rev_done d p b st.
  Proof.
    intros [Hfix _] b e R T.
    destruct (ride_trip d s p b e Hwf R) as (tr & Htr & Hadm & Hb & He).
    destruct (round_rev_closed d s p st) as (_ & C).
    specialize (C (trip_conns d tr) (adm_admitted_conns d s p tr Htr Hadm)).
    destruct R as (Ib & Ie & _ & Hle & Hcb & Hcu & _).
    destruct (conn_facts d b Hwf Ib) as (B1 & _).
    assert (D : rev_done d p b (round_rev d s p st)) by (apply (C b e); assumption).
    destruct D as [D1 D2]. split.
    - destruct (Hfix _ B1) as [_ F2]. lia.
    - intros m r Hm Hr Hok. specialize (D2 m r Hm Hr Hok). destruct (Hfix _ Hm) as [F1 _]. lia.
  Qed.

  Lemma fix_reaches_rev st : rev_fix st ->
    forall n t rides m t', reaches d s p n t rides m t' ->
      forall re, In re egr -> m = fp_node re -> t' + fp_time re <= A ->
        t <= snd st n /\
        forall m0 r, In m0 (d_nodes d) -> In r (fp_of d m0) -> fp_node r = n -> fp_time r <= q_maxtr p ->
                     t - fp_time r <= fst st m0.
  Proof.
    intros Hfix n t rides m t' H.
    induction H as [n t b e R F T|n t b e w n' rest m t' R F T W M H IH]; intros re Hre Em L.
    - assert (D : rev_done d p b st).
      { apply (fix_closed_rev st Hfix b e R). pose proof (proj2 Hfix re Hre). rewrite Em. lia. }
      destruct D as [D1 D2]. unfold rev_v in *. subst n. split; [lia|].
      intros m0 r Hm0 Hr K Hw. specialize (D2 m0 r Hm0 Hr (conj K Hw)). lia.
    - destruct (IH re Hre Em L) as [_ I2].
      assert (D : rev_done d p b st).
      { apply (fix_closed_rev st Hfix b e R).
        destruct R as (_ & Ie & _). destruct (conn_facts d e Hwf Ie) as (_ & E2 & _).
        apply has_row_elim in W. destruct W as (r & Hr & K & Ew). subst w.
        specialize (I2 (c_to e) r E2 Hr K M). lia. }
      destruct D as [D1 D2]. unfold rev_v in *. subst n. split; [lia|].
      intros m0 r Hm0 Hr K Hw. specialize (D2 m0 r Hm0 Hr (conj K Hw)). lia.
  Qed.

  Lemma lat0_rev_ge re : In re egr -> A - fp_time re <= lat0_rev egr A (fp_node re).
  Proof.
    intros H. unfold lat0_rev.
    destruct (fold_max_spec (fun _ => true) (fun r => A - fp_time r) fp_node egr (fun _ => NEG))
      as (_ & I2 & _).
    apply (I2 re H). reflexivity.
  Qed.

  Lemma ref_rev_ge_init : le_st (lat0_rev egr A, fun _ => NEG) (ref_rev d s p A egr).
  Proof.
    rewrite ref_rev_eq.
    apply (iterate_inv (fun y => le_st (lat0_rev egr A, fun _ => NEG) y)); [|apply le_st_refl].
    intros x Hx. apply (le_st_trans _ x); [exact Hx|]. apply round_rev_closed.
  Qed.

  Hypothesis Hstable : ref_rev_stable_b d s p A egr = true.

  Lemma ref_rev_fix : rev_fix (ref_rev d s p A egr).
  Proof.
    split.
    - intros n Hn. unfold ref_rev_stable_b in Hstable. cbv zeta in Hstable.
      rewrite forallb_forall in Hstable. specialize (Hstable n Hn).
      apply andb_prop in Hstable. destruct Hstable as [S1 S2].
      apply Z.eqb_eq in S1, S2. split; assumption.
    - intros re Hre. destruct ref_rev_ge_init as [L _]. specialize (L (fp_node re)). cbn [fst] in L.
      pose proof (lat0_rev_ge re Hre). lia.
  Qed.

  (* 4.2 completeness at a fixpoint *)
  Theorem ref_rev_complete_brd n t : boards_by d s p egr A n t -> t <= snd (ref_rev d s p A egr) n.
  Proof.
    intros (re & rides & m & t' & Hre & R & E & L).
    apply (fix_reaches_rev _ ref_rev_fix _ _ _ _ _ R re Hre E L).
  Qed.

  Theorem ref_rev_complete_lat m t : In m (d_nodes d) -> finishes_from d s p egr A m t ->
    t <= fst (ref_rev d s p A egr) m.
  Proof.
    intros Hm [(re & Hre & <- & L)|(n & w & Hrow & Hw & (re & rides & m' & t' & Hre & R & E & L))].
    - pose proof (proj2 ref_rev_fix re Hre). lia.
    - apply has_row_elim in Hrow. destruct Hrow as (r & Hr & K & <-).
      destruct (fix_reaches_rev _ ref_rev_fix _ _ _ _ _ R re Hre E L) as [_ I2].
      specialize (I2 m r Hm Hr K Hw). lia.
  Qed.
End RevComplete.

(* ---------------------------------------------------------------------------------------------- *)
(* 4.3 reverse corollaries: latest_departure_ref and reach_map_rev_ref                              *)

Definition ld_val (brd : nat -> Z) (r : fprow) : Z := brd (fp_node r) - fp_time r.
Definition ld_ok (brd : nat -> Z) (p : params) (lo span : Z) (r : fprow) : bool :=
  (brd (fp_node r) >? NEG) && ((ld_val brd r >=? lo) && (span - ld_val brd r <=? q_maxtt p)).

Lemma latest_departure_ref_eq d s p arr lo span acc egr :
  latest_departure_ref d s p arr lo span acc egr =
  fold_left (omax_step (ld_ok (snd (ref_rev d s p arr egr)) p lo span) (ld_val (snd (ref_rev d s p arr egr)))) acc None.
Proof.
  unfold latest_departure_ref. cbv zeta. apply fold_left_ext. intros best r.
  unfold omax_step, ld_ok, ld_val.
  destruct (snd (ref_rev d s p arr egr) (fp_node r) >? NEG); cbn [andb]; [|reflexivity].
  destruct (snd (ref_rev d s p arr egr) (fp_node r) - fp_time r >=? lo); cbn [andb]; [|reflexivity].
  destruct (span - (snd (ref_rev d s p arr egr) (fp_node r) - fp_time r) <=? q_maxtt p); cbn [andb]; [|reflexivity].
  destruct best as [b|]; [|reflexivity].
  destruct (snd (ref_rev d s p arr egr) (fp_node r) - fp_time r >? b); reflexivity.
Qed.

(* admissible_rev with explicit arrival bound A, earliest departure lo and span origin *)
Definition admissible_rev_gen (d : data) (s : scenario) (p : params) (acc egr : list fprow) (A lo span : Z)
           (dep0 : Z) (rides : list (conn * conn)) : Prop :=
  exists arr, journey d s p acc egr dep0 rides arr /\ arr <= A /\ lo <= dep0 /\ span - dep0 <= q_maxtt p.

Lemma admissible_rev_gen_eq d s p acc egr dep0 rides :
  admissible_rev d s p acc egr dep0 rides <->
  admissible_rev_gen d s p acc egr (q_time p) 0 (q_time p) dep0 rides.
Proof. unfold admissible_rev, admissible_rev_gen. reflexivity. Qed.

Section RevCorollaries.
  Variables (d : data) (s : scenario) (p : params) (acc egr : list fprow) (A lo span : Z).
  Hypothesis Hwf : wf_data_b d = true.
  Hypothesis Hacc : rows_ok d acc = true.
  Hypothesis Hlo : NEG < lo.
  Hypothesis Hstable : ref_rev_stable_b d s p A egr = true.

  Let brd := snd (ref_rev d s p A egr).

  Lemma brd_sound n : brd n > NEG -> boards_by d s p egr A n (brd n).
  Proof. apply (proj2 (ref_rev_inv d s p egr A Hwf)). Qed.

  Lemma brd_complete n t : boards_by d s p egr A n t -> t <= brd n.
  Proof. apply (ref_rev_complete_brd d s p egr A Hwf Hstable). Qed.

  Lemma admissible_rev_brd dep0 rides : admissible_rev_gen d s p acc egr A lo span dep0 rides ->
    exists ra, In ra acc /\ ld_ok brd p lo span ra = true /\ dep0 <= ld_val brd ra.
  Proof.
    intros (arr & (ra & re & m & t' & Hra & Hre & R & Em & Ea) & La & Ll & Ls).
    assert (B : boards_by d s p egr A (fp_node ra) (dep0 + fp_time ra)).
    { exists re, rides, m, t'. split; [exact Hre|]. split; [exact R|]. split; [exact Em|lia]. }
    pose proof (brd_complete _ _ B) as L. destruct (rows_ok_row d acc ra Hacc Hra) as [_ W].
    exists ra. split; [exact Hra|]. unfold ld_ok, ld_val. split; [|lia].
    apply andb_true_intro. split; [apply Z.gtb_lt; lia|].
    apply andb_true_intro. split; [apply Z.geb_le; lia|apply Z.leb_le; lia].
  Qed.

  Lemma brd_admissible_rev ra : In ra acc -> ld_ok brd p lo span ra = true ->
    exists rides, admissible_rev_gen d s p acc egr A lo span (ld_val brd ra) rides.
  Proof.
    intros Hra O. unfold ld_ok in O. apply andb_prop in O. destruct O as [O1 O]. apply andb_prop in O.
    destruct O as [O2 O3]. apply Z.gtb_lt in O1. apply Z.geb_le in O2. apply Z.leb_le in O3.
    assert (G : brd (fp_node ra) > NEG) by lia.
    destruct (brd_sound _ G) as (re & rides & m & t' & Hre & R & Em & L).
    exists rides, (t' + fp_time re). split; [|split; [exact L|split; assumption]].
    exists ra, re, m, t'. split; [exact Hra|]. split; [exact Hre|]. split; [|auto].
    apply (reaches_mono d s p _ _ _ _ _ _ R). unfold ld_val. lia.
  Qed.

  (* 4.3a the reverse oracle returns the latest departure over all admissible journeys *)
  Theorem latest_departure_ref_some t : latest_departure_ref d s p A lo span acc egr = Some t ->
    (exists rides, admissible_rev_gen d s p acc egr A lo span t rides) /\
    (forall dep0 rides, admissible_rev_gen d s p acc egr A lo span dep0 rides -> dep0 <= t).
  Proof.
    rewrite latest_departure_ref_eq. fold brd. intros H.
    pose proof (fold_omax_spec (ld_ok brd p lo span) (ld_val brd) acc None) as S. rewrite H in S.
    destruct S as (S1 & _ & S3). split.
    - destruct S1 as [S1|(ra & Hra & O & ->)]; [discriminate|]. apply brd_admissible_rev; assumption.
    - intros dep0 rides Ad. destruct (admissible_rev_brd dep0 rides Ad) as (ra & Hra & O & L).
      specialize (S3 ra Hra O). lia.
  Qed.

  Theorem latest_departure_ref_none : latest_departure_ref d s p A lo span acc egr = None ->
    forall dep0 rides, ~ admissible_rev_gen d s p acc egr A lo span dep0 rides.
  Proof.
    rewrite latest_departure_ref_eq. fold brd. intros H dep0 rides Ad.
    pose proof (fold_omax_spec (ld_ok brd p lo span) (ld_val brd) acc None) as S. rewrite H in S.
    destruct S as (_ & S2). destruct (admissible_rev_brd dep0 rides Ad) as (ra & Hra & O & L).
    rewrite (S2 ra Hra) in O. discriminate.
  Qed.
End RevCorollaries.

(* the arrival-time query of C04: arrival bound q_time p, departures from 0:00, span back from q_time p *)
Theorem latest_departure_ref_C04_some d s p acc egr t :
  wf_data_b d = true -> rows_ok d acc = true -> ref_rev_stable_b d s p (q_time p) egr = true ->
  latest_departure_ref d s p (q_time p) 0 (q_time p) acc egr = Some t ->
  (exists rides, admissible_rev d s p acc egr t rides) /\
  (forall dep0 rides, admissible_rev d s p acc egr dep0 rides -> dep0 <= t).
Proof.
  intros Hwf Hacc Hst H.
  destruct (latest_departure_ref_some d s p acc egr (q_time p) 0 (q_time p) Hwf Hacc NEG_neg Hst t H) as [E M].
  split.
  - destruct E as (rides & E). exists rides. apply admissible_rev_gen_eq. exact E.
  - intros dep0 rides Ad. apply (M dep0 rides). apply admissible_rev_gen_eq. exact Ad.
Qed.

Theorem latest_departure_ref_C04_none d s p acc egr :
  wf_data_b d = true -> rows_ok d acc = true -> ref_rev_stable_b d s p (q_time p) egr = true ->
  latest_departure_ref d s p (q_time p) 0 (q_time p) acc egr = None ->
  forall dep0 rides, ~ admissible_rev d s p acc egr dep0 rides.
Proof.
  intros Hwf Hacc Hst H dep0 rides Ad.
  apply (latest_departure_ref_none d s p acc egr (q_time p) 0 (q_time p) Hwf Hacc NEG_neg Hst H dep0 rides).
  apply admissible_rev_gen_eq. exact Ad.
Qed.

Lemma boards_at_bounds d s p egr n t : wf_data_b d = true -> boards_at d s p egr n t ->
  In n (d_nodes d) /\
  exists b, In b (all_conns d) /\ t <= c_dep b - minw_true p b /\ boards_at d s p egr n (c_dep b - minw_true p b).
Proof.
  intros Hwf (re & rides & m & t' & Hre & R & E & L).
  destruct (reaches_start d s p n t rides m t' R) as (b & Hb & F & T & R').
  destruct (conn_facts d b Hwf Hb) as (B1 & _). split; [rewrite <- F; exact B1|].
  exists b. split; [exact Hb|]. split; [lia|]. exists re, rides, m, t'. auto.
Qed.

Lemma minw_true_lt p c d : wf_data_b d = true -> In c (all_conns d) -> q_minw p < MAX_INT -> minw_true p c < MAX_INT.
Proof.
  intros Hwf Hc Hq. destruct (conn_facts d c Hwf Hc) as (_ & _ & _ & _ & _ & _ & M).
  unfold minw_true. destruct (c_minw c >=? 0) eqn:E; [|exact Hq].
  unfold MAX_INT. destruct M as [M|M]; rewrite M; lia.
Qed.

Section RevMap.
  Variables (d : data) (s : scenario) (p : params) (egr : list fprow).
  Hypothesis Hwf : wf_data_b d = true.
  Hypothesis Hminw : q_minw p < MAX_INT.
  Hypothesis Hstable : ref_rev_stable_b d s p (q_time p) egr = true.

  Let brd := snd (ref_rev d s p (q_time p) egr).

  (* 4.3b the reverse reachability map *)
  Theorem reach_map_rev_ref_spec n t :
    In (n, t) (reach_map_rev_ref d s p egr) <-> (latest_board d s p egr n t /\ q_time p - t <= q_maxtt p).
  Proof.
    unfold reach_map_rev_ref. cbv zeta. fold brd.
    rewrite (flat_map_sel_in (fun n => (brd n >? NEG) && (q_time p - brd n <=? q_maxtt p)) brd).
    split.
    - intros (Hn & C & ->). apply andb_prop in C. destruct C as [C1 C2].
      apply Z.gtb_lt in C1. apply Z.leb_le in C2. split; [|exact C2]. split.
      + apply boards_at_by. apply (proj2 (ref_rev_inv d s p egr (q_time p) Hwf)). fold brd. lia.
      + intros t' B. apply boards_at_by in B.
        apply (ref_rev_complete_brd d s p egr (q_time p) Hwf Hstable _ _ B).
    - intros [[B Hmax] Hspan].
      destruct (boards_at_bounds d s p egr n t Hwf B) as (Hn & b & Hb & Lb & Bb).
      pose proof (Hmax _ Bb) as Lb'.
      destruct (conn_facts d b Hwf Hb) as (_ & _ & B3 & _).
      pose proof (minw_true_lt p b d Hwf Hb Hminw) as Mw.
      assert (G : t > NEG) by (unfold NEG; lia).
      pose proof B as B'. apply boards_at_by in B'.
      pose proof (ref_rev_complete_brd d s p egr (q_time p) Hwf Hstable _ _ B') as L. fold brd in L.
      assert (G' : brd n > NEG) by lia.
      pose proof (proj2 (ref_rev_inv d s p egr (q_time p) Hwf) n G') as S. cbn beta in S.
      apply boards_at_by in S. pose proof (Hmax _ S) as L'. fold brd in L'.
      assert (E : t = brd n) by lia.
      split; [exact Hn|]. split; [|exact E].
      apply andb_true_intro. split; [apply Z.gtb_lt; lia|apply Z.leb_le; lia].
  Qed.

  Theorem reach_map_rev_ref_nodup : NoDup (map fst (reach_map_rev_ref d s p egr)).
  Proof.
    unfold reach_map_rev_ref. cbv zeta. apply flat_map_sel_nodup. apply nodup_nat_NoDup.
    pose proof Hwf as W. unfold wf_data_b in W.
    peel W X10. peel W X9. peel W X8. peel W X7. peel W X6. peel W X5. peel W X4. peel W X3.
    peel W X2. exact W.
  Qed.
End RevMap.

(* ---------------------------------------------------------------------------------------------- *)
(* 5. the solvers are stable after ref_rounds d rounds                                              *)
(* 5a. a journey can be shortened until it alights at every stop at most once                       *)

Definition stops (rides : list (conn * conn)) : list nat := map (fun be => c_to (snd be)) rides.

Lemma dup_or_nodup : forall l : list nat,
  NoDup l \/ exists l1 x l2 l3, l = l1 ++ x :: l2 ++ x :: l3.
Proof.
  induction l as [|a l IH]; [left; constructor|].
  destruct (in_dec Nat.eq_dec a l) as [Hin|Hnin].
  - right. apply in_split in Hin. destruct Hin as (l2 & l3 & ->). exists [], a, l2, l3. reflexivity.
  - destruct IH as [IH|(l1 & x & l2 & l3 & ->)].
    + left. constructor; assumption.
    + right. exists (a :: l1), x, l2, l3. reflexivity.
Qed.

Lemma reaches_nonempty d s p n t m t' : ~ reaches d s p n t [] m t'.
Proof. intros H. inversion H. Qed.

Lemma reaches_join d s p n t r1 m1 t1 :
  reaches d s p n t r1 m1 t1 ->
  forall n' w r2 m t', has_row (fp_of d m1) n' w = true -> w <= q_maxtr p ->
    reaches d s p n' (t1 + w) r2 m t' -> reaches d s p n t (r1 ++ r2) m t'.
Proof.
  intros H. induction H as [n t b0 e0 R0 F0 T0|n t b0 e0 w0 n0 rest m1 t1 R0 F0 T0 W0 M0 H IH];
    intros n' w r2 m t' Hrow Hw H2.
  - cbn [app]. apply (reaches_cons d s p n t b0 e0 w n'); assumption.
  - cbn [app]. apply (reaches_cons d s p n t b0 e0 w0 n0); try assumption.
    apply (IH n' w r2 m t'); assumption.
Qed.

Lemma reaches_split d s p : forall r1 r2 n t m t', r1 <> [] -> r2 <> [] ->
  reaches d s p n t (r1 ++ r2) m t' ->
  exists m1 t1 n' w, reaches d s p n t r1 m1 t1 /\ has_row (fp_of d m1) n' w = true /\ w <= q_maxtr p /\
                     reaches d s p n' (t1 + w) r2 m t'.
Proof.
  induction r1 as [|x r1 IH]; intros r2 n t m t' N1 N2 H; [congruence|].
  destruct r1 as [|y r1].
  - cbn [app] in H. inversion H as [n0 t0 b e R F T E1 E2 E3 E4|n0 t0 b e w n' rest m0 t0' R F T W M H' E1 E2 E3 E4 E5].
    + subst r2. congruence.
    + subst. exists (c_to e), (c_arr e), n', w. split; [apply reaches_last; auto|]. auto.
  - cbn [app] in H. inversion H as [n0 t0 b e R F T E1 E2 E3 E4|n0 t0 b e w n' rest m0 t0' R F T W M H' E1 E2 E3 E4 E5].
    subst. destruct (IH r2 n' (c_arr e + w) m t') as (m1 & t1 & n'' & w' & H1 & Hrow & Hw & H2);
      [discriminate|exact N2|exact H'|].
    exists m1, t1, n'', w'. split; [|auto].
    apply (reaches_cons d s p (c_from b) t b e w n'); auto.
Qed.

Lemma reaches_stop_last d s p n t rides m t' :
  reaches d s p n t rides m t' -> exists l, stops rides = l ++ [m].
Proof.
  intros H. induction H as [n t b0 e0 R0 F0 T0|n t b0 e0 w0 n0 rest m t' R0 F0 T0 W0 M0 H IH].
  - exists []. reflexivity.
  - destruct IH as (l & E). exists (c_to e0 :: l). unfold stops in *. cbn [map snd]. rewrite E. reflexivity.
Qed.

Lemma reaches_stops_nodes d s p n t rides m t' : wf_data_b d = true ->
  reaches d s p n t rides m t' -> incl (stops rides) (d_nodes d).
Proof.
  intros Hwf H. induction H as [n t b0 e0 R0 F0 T0|n t b0 e0 w0 n0 rest m t' R0 F0 T0 W0 M0 H IH].
  - intros x [<-|[]]. destruct R0 as (_ & He & _). apply (conn_facts d e0 Hwf He).
  - intros x [<-|Hx]; [|apply IH; exact Hx]. destruct R0 as (_ & He & _). apply (conn_facts d e0 Hwf He).
Qed.

Lemma ride_times d s p b e : wf_data_b d = true -> ride_ok d s p b e -> c_dep b <= c_arr e.
Proof.
  intros Hwf R. destruct (ride_trip d s p b e Hwf R) as (tr & Htr & _ & Hb & He).
  destruct R as (_ & _ & _ & Hle & _).
  destruct (wf_trip d Hwf tr Htr) as (pth & _ & _ & Ht). unfold trip_conns in Hb, He.
  destruct (mk_conns_times _ _ _ _ _ _ Ht Hb) as (_ & B2 & _).
  destruct (mk_conns_times _ _ _ _ _ _ Ht He) as (_ & E2 & _).
  destruct (Nat.eq_dec (c_seq b) (c_seq e)) as [Eq|Ne].
  - pose proof (mk_conns_find _ _ _ _ _ _ Hb) as Fb. pose proof (mk_conns_find _ _ _ _ _ _ He) as Fe.
    rewrite Eq in Fb. rewrite Fb in Fe. inversion Fe. subst e. exact B2.
  - assert (Hlt : (c_seq b < c_seq e)%nat) by lia.
    pose proof (mk_conns_mono _ _ _ _ _ b e Ht Hb He Hlt). lia.
Qed.

Lemma reaches_time d s p n t rides m t' : wf_data_b d = true -> 0 <= q_minw p ->
  reaches d s p n t rides m t' -> t <= t'.
Proof.
  intros Hwf Hq H. induction H as [n t b0 e0 R0 F0 T0|n t b0 e0 w0 n0 rest m t' R0 F0 T0 W0 M0 H IH].
  - pose proof (ride_times d s p b0 e0 Hwf R0). pose proof (minw_true_nonneg p b0 Hq). lia.
  - pose proof (ride_times d s p b0 e0 Hwf R0). pose proof (minw_true_nonneg p b0 Hq).
    destruct R0 as (_ & He & _). destruct (conn_facts d e0 Hwf He) as (_ & E2 & _).
    apply has_row_elim in W0. destruct W0 as (r & Hr & _ & Ew).
    destruct (fp_row_node d _ r Hwf E2 Hr) as [_ W]. lia.
Qed.

Lemma reaches_row_nonneg d s p n t rides m t' n' w : wf_data_b d = true ->
  reaches d s p n t rides m t' -> has_row (fp_of d m) n' w = true -> 0 <= w.
Proof.
  intros Hwf H W. apply reaches_end in H. destruct H as (e & He & -> & _).
  destruct (conn_facts d e Hwf He) as (_ & E2 & _).
  apply has_row_elim in W. destruct W as (r & Hr & _ & Ew).
  destruct (fp_row_node d _ r Hwf E2 Hr) as [_ W]. lia.
Qed.

(* a repeated alighting stop can be cut out *)
Lemma reaches_cut d s p n t rides m t' : wf_data_b d = true -> 0 <= q_minw p ->
  reaches d s p n t rides m t' ->
  (exists l1 x l2 l3, stops rides = l1 ++ x :: l2 ++ x :: l3) ->
  exists rides2 t2, reaches d s p n t rides2 m t2 /\ t2 <= t' /\ (length rides2 < length rides)%nat.
Proof.
  intros Hwf Hq H (l1 & x & l2 & l3 & E).
  assert (E' : stops rides = (l1 ++ [x]) ++ (l2 ++ [x]) ++ l3).
  { rewrite E. rewrite <- !app_assoc. reflexivity. }
  unfold stops in E'. apply map_eq_app in E'. destruct E' as (R1 & R23 & -> & S1 & S23).
  apply map_eq_app in S23. destruct S23 as (R2 & R3 & -> & S2 & S3).
  assert (N1 : R1 <> []) by (intros ->; destruct l1; discriminate).
  assert (N2 : R2 <> []) by (intros ->; destruct l2; discriminate).
  destruct R3 as [|z R3].
  - rewrite app_nil_r in H.
    destruct (reaches_split d s p R1 R2 n t m t' N1 N2 H) as (m1 & t1 & n' & w & H1 & Hrow & Hw & H2).
    destruct (reaches_stop_last d s p _ _ _ _ _ H1) as (k1 & K1). unfold stops in K1. rewrite S1 in K1.
    apply app_inj_tail in K1. destruct K1 as [_ K1].
    destruct (reaches_stop_last d s p _ _ _ _ _ H2) as (k2 & K2). unfold stops in K2. rewrite S2 in K2.
    apply app_inj_tail in K2. destruct K2 as [_ K2].
    pose proof (reaches_time d s p _ _ _ _ _ Hwf Hq H2) as T2.
    pose proof (reaches_row_nonneg d s p _ _ _ _ _ _ _ Hwf H1 Hrow) as W.
    exists R1, t1. split; [congruence|]. split; [lia|].
    rewrite app_nil_r, app_length. destruct R2; [congruence|cbn [length]; lia].
  - assert (N3 : z :: R3 <> []) by discriminate.
    assert (N12 : R1 ++ R2 <> []) by (destruct R1; [congruence|discriminate]).
    rewrite app_assoc in H.
    destruct (reaches_split d s p (R1 ++ R2) (z :: R3) n t m t' N12 N3 H)
      as (m2 & t2 & n2 & w2 & H12 & Hrow2 & Hw2 & H3).
    destruct (reaches_split d s p R1 R2 n t m2 t2 N1 N2 H12) as (m1 & t1 & n' & w & H1 & Hrow & Hw & H2).
    destruct (reaches_stop_last d s p _ _ _ _ _ H1) as (k1 & K1). unfold stops in K1. rewrite S1 in K1.
    apply app_inj_tail in K1. destruct K1 as [_ K1].
    destruct (reaches_stop_last d s p _ _ _ _ _ H2) as (k2 & K2). unfold stops in K2. rewrite S2 in K2.
    apply app_inj_tail in K2. destruct K2 as [_ K2].
    pose proof (reaches_time d s p _ _ _ _ _ Hwf Hq H2) as T2.
    pose proof (reaches_row_nonneg d s p _ _ _ _ _ _ _ Hwf H1 Hrow) as W.
    exists (R1 ++ z :: R3), t'. split; [|split; [lia|]].
    + subst m1 m2. apply (reaches_join d s p n t R1 x t1 H1 n2 w2); try assumption.
      apply (reaches_mono d s p _ _ _ _ _ _ H3). lia.
    + rewrite !app_length. destruct R2; [congruence|cbn [length]; lia].
Qed.

Lemma short_witness d s p : wf_data_b d = true -> 0 <= q_minw p ->
  forall k rides n t m t', (length rides <= k)%nat -> reaches d s p n t rides m t' ->
  exists rides' t'', reaches d s p n t rides' m t'' /\ t'' <= t' /\ (length rides' <= length (d_nodes d))%nat.
Proof.
  intros Hwf Hq. induction k as [|k IH]; intros rides n t m t' Hlen H.
  - destruct rides; [exfalso; exact (reaches_nonempty d s p n t m t' H)|cbn [length] in Hlen; lia].
  - destruct (dup_or_nodup (stops rides)) as [Hnd|Hdup].
    + exists rides, t'. split; [exact H|]. split; [lia|].
      pose proof (NoDup_incl_length Hnd (reaches_stops_nodes d s p n t rides m t' Hwf H)) as L.
      unfold stops in L. rewrite map_length in L. exact L.
    + destruct (reaches_cut d s p n t rides m t' Hwf Hq H Hdup) as (rides2 & t2 & H2 & L2 & Len2).
      destruct (IH rides2 n t m t2) as (rides' & t'' & H' & L' & Len'); [lia|exact H2|].
      exists rides', t''. split; [exact H'|]. split; [lia|exact Len'].
Qed.

(* 5b. forward: k rounds account for every journey of at most k rides; stability after ref_rounds d *)

Lemma iterate_S_out {A} (f : A -> A) : forall n x, iterate (S n) f x = f (iterate n f x).
Proof.
  induction n as [|n IH]; intros x; [reflexivity|].
  change (iterate (S (S n)) f x) with (iterate (S n) f (f x)). rewrite IH. reflexivity.
Qed.

Lemma ref_rounds_nodes d : (length (d_nodes d) <= ref_rounds d)%nat.
Proof. unfold ref_rounds. lia. Qed.

Section FwdRounds.
  Variables (d : data) (s : scenario) (p : params) (acc : list fprow).
  Hypothesis Hwf : wf_data_b d = true.
  Hypothesis Hq : 0 <= q_minw p.

  Definition fwd_st (j : nat) : lab := iterate j (round_fwd d s p) (ready0_fwd p acc, fun _ => INF).

  Lemma fwd_st_S j : fwd_st (S j) = round_fwd d s p (fwd_st j).
  Proof. unfold fwd_st. apply iterate_S_out. Qed.

  Lemma fwd_st_mono : forall k j, (j <= k)%nat -> le_st (fwd_st k) (fwd_st j).
  Proof.
    induction k as [|k IH]; intros j H.
    - assert (j = 0%nat) by lia. subst j. apply le_st_refl.
    - destruct (Nat.eq_dec j (S k)) as [->|N]; [apply le_st_refl|].
      apply (le_st_trans _ (fwd_st k)); [|apply IH; lia]. rewrite fwd_st_S. apply round_fwd_closed.
  Qed.

  Lemma round_fwd_ride st b e : ride_ok d s p b e -> fst st (c_from b) + minw_true p b <= c_dep b ->
    fwd_done d p e (round_fwd d s p st).
  Proof.
    intros R T.
    destruct (ride_trip d s p b e Hwf R) as (tr & Htr & Hadm & Hb & He).
    destruct (round_fwd_closed d s p st) as (_ & C).
    specialize (C (trip_conns d tr) (adm_admitted_conns d s p tr Htr Hadm)).
    destruct R as (Ib & Ie & _ & Hle & Hcb & Hcu & _).
    destruct (conn_facts d b Hwf Ib) as (_ & _ & _ & _ & B5 & _).
    pose proof (minw_true_nonneg p b Hq) as Mw. pose proof INF_clock as IC.
    apply (C b e); try assumption; lia.
  Qed.

  Lemma fwd_rounds_reaches n t rides m t' : reaches d s p n t rides m t' ->
    forall j, fst (fwd_st j) n <= t ->
      snd (fwd_st (j + length rides)) m <= t' /\
      forall r, In r (fp_of d m) -> fp_time r <= q_maxtr p ->
                fst (fwd_st (j + length rides)) (fp_node r) <= t' + fp_time r.
  Proof.
    intros H. induction H as [n t b e R F T|n t b e w n' rest m t' R F T W M H IH]; intros j L.
    - replace (j + length [(b, e)])%nat with (S j) by (cbn [length]; lia). rewrite fwd_st_S.
      subst n. apply (round_fwd_ride (fwd_st j) b e R). lia.
    - replace (j + length ((b, e) :: rest))%nat with (S j + length rest)%nat by (cbn [length]; lia).
      apply IH. rewrite fwd_st_S. subst n.
      assert (D : fwd_done d p e (round_fwd d s p (fwd_st j))) by (apply (round_fwd_ride (fwd_st j) b e R); lia).
      destruct D as [_ D2]. apply has_row_elim in W. destruct W as (r & Hr & <- & <-). apply D2; assumption.
  Qed.

  Lemma ref_fwd_is_st : ref_fwd d s p acc = fwd_st (ref_rounds d).
  Proof. apply ref_fwd_eq. Qed.

  (* every journey from the origin is accounted for in the final labels *)
  Lemma ref_fwd_accounts ra rides m t' : In ra acc ->
    reaches d s p (fp_node ra) (q_time p + fp_time ra) rides m t' ->
    snd (ref_fwd d s p acc) m <= t' /\
    forall r, In r (fp_of d m) -> fp_time r <= q_maxtr p -> fst (ref_fwd d s p acc) (fp_node r) <= t' + fp_time r.
  Proof.
    intros Hra R.
    destruct (short_witness d s p Hwf Hq (length rides) rides _ _ _ _ (le_n _) R) as (rides' & t'' & R' & L & Len).
    assert (L0 : fst (fwd_st 0) (fp_node ra) <= q_time p + fp_time ra).
    { unfold fwd_st. cbn [iterate fst]. apply ready0_fwd_le. exact Hra. }
    destruct (fwd_rounds_reaches _ _ _ _ _ R' 0%nat L0) as [A1 A2]. cbn [Nat.add] in A1, A2.
    assert (M : le_st (fwd_st (ref_rounds d)) (fwd_st (length rides'))).
    { apply fwd_st_mono. pose proof (ref_rounds_nodes d). lia. }
    rewrite ref_fwd_is_st. destruct M as [M1 M2]. split.
    - specialize (M2 m). lia.
    - intros r Hr Hw. specialize (A2 r Hr Hw). specialize (M1 (fp_node r)). lia.
  Qed.

  (* 5. the forward solver has reached its fixpoint: no pos_hops_b needed *)
  Theorem ref_fwd_stable : ref_fwd_stable_b d s p acc = true.
  Proof.
    unfold ref_fwd_stable_b. cbv zeta. apply forallb_forall. intros n _.
    change (fold_left (fun st cs => relax_trip_fwd d p cs st) (admitted_conns d s p) (ref_fwd d s p acc))
      with (round_fwd d s p (ref_fwd d s p acc)).
    pose proof (round_fwd_sound d s p acc Hwf _ (ref_fwd_inv d s p acc Hwf)) as [Sr Sv].
    destruct (round_fwd_closed d s p (ref_fwd d s p acc)) as ([L1 L2] & _).
    destruct (ref_fwd_le_init d s p acc) as [I1 I2]. cbn [fst snd] in I1, I2.
    apply andb_true_intro. split; apply Z.eqb_eq.
    - specialize (L1 n). specialize (I1 n).
      destruct (Z_lt_ge_dec (fst (round_fwd d s p (ref_fwd d s p acc)) n) INF) as [Lt|Ge].
      + destruct (Sr n Lt) as [(ra & Hra & En & Et)|(ra & rides & m & t' & w & Hra & R & Hrow & Hw & Et)].
        * pose proof (ready0_fwd_le p acc ra Hra) as Q. rewrite En in Q. lia.
        * destruct (ref_fwd_accounts ra rides m t' Hra R) as [_ A2].
          apply has_row_elim in Hrow. destruct Hrow as (r & Hr & K & Ew). subst w.
          specialize (A2 r Hr Hw). rewrite K in A2. lia.
      + assert (Q : ready0_fwd p acc n <= INF).
        { unfold ready0_fwd.
          destruct (fold_min_spec (fun _ => true) (fun r => q_time p + fp_time r) fp_node acc (fun _ => INF))
            as (Q & _). apply Q. }
        lia.
    - specialize (L2 n). specialize (I2 n).
      destruct (Z_lt_ge_dec (snd (round_fwd d s p (ref_fwd d s p acc)) n) INF) as [Lt|Ge]; [|lia].
      destruct (Sv n Lt) as (ra & rides & Hra & R).
      destruct (ref_fwd_accounts ra rides n _ Hra R) as [A1 _]. lia.
  Qed.
End FwdRounds.

(* 5c. reverse: the same *)

Section RevRounds.
  Variables (d : data) (s : scenario) (p : params) (egr : list fprow) (A : Z).
  Hypothesis Hwf : wf_data_b d = true.
  Hypothesis Hq : 0 <= q_minw p.

  Definition rev_st (j : nat) : lab := iterate j (round_rev d s p) (lat0_rev egr A, fun _ => NEG).

  Lemma rev_st_S j : rev_st (S j) = round_rev d s p (rev_st j).
  Proof. unfold rev_st. apply iterate_S_out. Qed.

  Lemma rev_st_mono : forall k j, (j <= k)%nat -> le_st (rev_st j) (rev_st k).
  Proof.
    induction k as [|k IH]; intros j H.
    - assert (j = 0%nat) by lia. subst j. apply le_st_refl.
    - destruct (Nat.eq_dec j (S k)) as [->|N]; [apply le_st_refl|].
      apply (le_st_trans _ (rev_st k)); [apply IH; lia|]. rewrite rev_st_S. apply round_rev_closed.
  Qed.

  Lemma round_rev_ride st b e : ride_ok d s p b e -> c_arr e <= fst st (c_to e) ->
    rev_done d p b (round_rev d s p st).
  Proof.
    intros R T.
    destruct (ride_trip d s p b e Hwf R) as (tr & Htr & Hadm & Hb & He).
    destruct (round_rev_closed d s p st) as (_ & C).
    specialize (C (trip_conns d tr) (adm_admitted_conns d s p tr Htr Hadm)).
    destruct R as (Ib & Ie & _ & Hle & Hcb & Hcu & _).
    apply (C b e); assumption.
  Qed.

  Lemma rev_rounds_reaches n t rides m t' : reaches d s p n t rides m t' ->
    forall re, In re egr -> m = fp_node re -> t' + fp_time re <= A ->
      t <= snd (rev_st (length rides)) n /\
      forall m0 r, In m0 (d_nodes d) -> In r (fp_of d m0) -> fp_node r = n -> fp_time r <= q_maxtr p ->
                   t - fp_time r <= fst (rev_st (length rides)) m0.
  Proof.
    intros H. induction H as [n t b e R F T|n t b e w n' rest m t' R F T W M H IH]; intros re Hre Em L.
    - change (length [(b, e)]) with 1%nat. rewrite rev_st_S.
      assert (D : rev_done d p b (round_rev d s p (rev_st 0))).
      { apply (round_rev_ride (rev_st 0) b e R). unfold rev_st. cbn [iterate fst].
        pose proof (lat0_rev_ge egr A re Hre). rewrite Em. lia. }
      destruct D as [D1 D2]. unfold rev_v in *. subst n. split; [lia|].
      intros m0 r Hm0 Hr K Hw. specialize (D2 m0 r Hm0 Hr (conj K Hw)). lia.
    - change (length ((b, e) :: rest)) with (S (length rest)). rewrite rev_st_S.
      destruct (IH re Hre Em L) as [_ I2].
      assert (D : rev_done d p b (round_rev d s p (rev_st (length rest)))).
      { apply (round_rev_ride (rev_st (length rest)) b e R).
        destruct R as (_ & Ie & _). destruct (conn_facts d e Hwf Ie) as (_ & E2 & _).
        apply has_row_elim in W. destruct W as (r & Hr & K & Ew). subst w.
        specialize (I2 (c_to e) r E2 Hr K M). lia. }
      destruct D as [D1 D2]. unfold rev_v in *. subst n. split; [lia|].
      intros m0 r Hm0 Hr K Hw. specialize (D2 m0 r Hm0 Hr (conj K Hw)). lia.
  Qed.

  Lemma ref_rev_is_st : ref_rev d s p A egr = rev_st (ref_rounds d).
  Proof. apply ref_rev_eq. Qed.

  Lemma ref_rev_accounts n t : boards_by d s p egr A n t ->
    t <= snd (ref_rev d s p A egr) n /\
    forall m0 r, In m0 (d_nodes d) -> In r (fp_of d m0) -> fp_node r = n -> fp_time r <= q_maxtr p ->
                 t - fp_time r <= fst (ref_rev d s p A egr) m0.
  Proof.
    intros (re & rides & m & t' & Hre & R & Em & L).
    destruct (short_witness d s p Hwf Hq (length rides) rides _ _ _ _ (le_n _) R) as (rides' & t'' & R' & L' & Len).
    assert (L'' : t'' + fp_time re <= A) by lia.
    destruct (rev_rounds_reaches _ _ _ _ _ R' re Hre Em L'') as [A1 A2].
    assert (M : le_st (rev_st (length rides')) (rev_st (ref_rounds d))).
    { apply rev_st_mono. pose proof (ref_rounds_nodes d). lia. }
    rewrite ref_rev_is_st. destruct M as [M1 M2]. split.
    - specialize (M2 n). lia.
    - intros m0 r Hm0 Hr K Hw. specialize (A2 m0 r Hm0 Hr K Hw). specialize (M1 m0). lia.
  Qed.

  (* 5. the reverse solver has reached its fixpoint *)
  Theorem ref_rev_stable : ref_rev_stable_b d s p A egr = true.
  Proof.
    unfold ref_rev_stable_b. cbv zeta. apply forallb_forall. intros n Hn.
    change (fold_left (fun st cs => relax_trip_rev d p cs st) (admitted_conns d s p) (ref_rev d s p A egr))
      with (round_rev d s p (ref_rev d s p A egr)).
    pose proof (round_rev_sound d s p egr A Hwf _ (ref_rev_inv d s p egr A Hwf)) as [Sl Sb].
    destruct (round_rev_closed d s p (ref_rev d s p A egr)) as ([L1 L2] & _).
    destruct (ref_rev_ge_init d s p egr A) as [I1 I2]. cbn [fst snd] in I1, I2.
    apply andb_true_intro. split; apply Z.eqb_eq.
    - specialize (L1 n). specialize (I1 n).
      destruct (Z_gt_le_dec (fst (round_rev d s p (ref_rev d s p A egr)) n) NEG) as [Gt|Le].
      + destruct (Sl n Gt) as [(re & Hre & En & Et)|(n' & w & Hrow & Hw & B)].
        * pose proof (lat0_rev_ge egr A re Hre) as Q. rewrite En in Q. lia.
        * destruct (ref_rev_accounts n' _ B) as [_ A2].
          apply has_row_elim in Hrow. destruct Hrow as (r & Hr & K & Ew). subst w.
          specialize (A2 n r Hn Hr K Hw). lia.
      + assert (Q : NEG <= lat0_rev egr A n).
        { unfold lat0_rev.
          destruct (fold_max_spec (fun _ => true) (fun r => A - fp_time r) fp_node egr (fun _ => NEG))
            as (Q & _). apply Q. }
        lia.
    - specialize (L2 n). specialize (I2 n).
      destruct (Z_gt_le_dec (snd (round_rev d s p (ref_rev d s p A egr)) n) NEG) as [Gt|Le]; [|lia].
      destruct (ref_rev_accounts n _ (Sb n Gt)) as [A1 _]. lia.
  Qed.
End RevRounds.

(* ---------------------------------------------------------------------------------------------- *)
(* 6. the oracles, unconditionally (stability is a theorem, not a run-time check)                   *)

Theorem earliest_arrival_ref_correct d s p acc egr :
  wf_data_b d = true -> wf_params_b p = true ->
  match earliest_arrival_ref d s p acc egr with
  | Some t => (exists rides, admissible_fwd d s p acc egr rides t) /\
              (forall rides t', admissible_fwd d s p acc egr rides t' -> t <= t')
  | None => forall rides t', ~ admissible_fwd d s p acc egr rides t'
  end.
Proof.
  intros Hwf Hp. pose proof (ref_fwd_stable d s p acc Hwf (wf_params_minw p Hp)) as St.
  destruct (earliest_arrival_ref d s p acc egr) as [t|] eqn:E.
  - apply (earliest_arrival_ref_some d s p acc egr Hwf Hp St t E).
  - apply (earliest_arrival_ref_none d s p acc egr Hwf Hp St E).
Qed.

Theorem reach_map_fwd_ref_correct d s p acc :
  wf_data_b d = true -> wf_params_b p = true ->
  NoDup (map fst (reach_map_fwd_ref d s p acc)) /\
  forall n t, In (n, t) (reach_map_fwd_ref d s p acc) <->
              (earliest_alight d s p acc n t /\ t - q_time p <= q_maxtt p).
Proof.
  intros Hwf Hp. split; [apply reach_map_fwd_ref_nodup; exact Hwf|].
  apply (reach_map_fwd_ref_spec d s p acc Hwf Hp (ref_fwd_stable d s p acc Hwf (wf_params_minw p Hp))).
Qed.

Theorem latest_departure_ref_correct d s p acc egr :
  wf_data_b d = true -> wf_params_b p = true -> rows_ok d acc = true ->
  match latest_departure_ref d s p (q_time p) 0 (q_time p) acc egr with
  | Some t => (exists rides, admissible_rev d s p acc egr t rides) /\
              (forall dep0 rides, admissible_rev d s p acc egr dep0 rides -> dep0 <= t)
  | None => forall dep0 rides, ~ admissible_rev d s p acc egr dep0 rides
  end.
Proof.
  intros Hwf Hp Hacc. pose proof (ref_rev_stable d s p egr (q_time p) Hwf (wf_params_minw p Hp)) as St.
  destruct (latest_departure_ref d s p (q_time p) 0 (q_time p) acc egr) as [t|] eqn:E.
  - apply (latest_departure_ref_C04_some d s p acc egr t Hwf Hacc St E).
  - apply (latest_departure_ref_C04_none d s p acc egr Hwf Hacc St E).
Qed.

(* general form (arrival bound A, earliest departure lo, span origin), as used for C05 *)
Theorem latest_departure_ref_gen_correct d s p acc egr A lo span :
  wf_data_b d = true -> wf_params_b p = true -> rows_ok d acc = true -> NEG < lo ->
  match latest_departure_ref d s p A lo span acc egr with
  | Some t => (exists rides, admissible_rev_gen d s p acc egr A lo span t rides) /\
              (forall dep0 rides, admissible_rev_gen d s p acc egr A lo span dep0 rides -> dep0 <= t)
  | None => forall dep0 rides, ~ admissible_rev_gen d s p acc egr A lo span dep0 rides
  end.
Proof.
  intros Hwf Hp Hacc Hlo. pose proof (ref_rev_stable d s p egr A Hwf (wf_params_minw p Hp)) as St.
  destruct (latest_departure_ref d s p A lo span acc egr) as [t|] eqn:E.
  - apply (latest_departure_ref_some d s p acc egr A lo span Hwf Hacc Hlo St t E).
  - apply (latest_departure_ref_none d s p acc egr A lo span Hwf Hacc Hlo St E).
Qed.

Theorem reach_map_rev_ref_correct d s p egr :
  wf_data_b d = true -> wf_params_b p = true -> q_minw p < MAX_INT ->
  NoDup (map fst (reach_map_rev_ref d s p egr)) /\
  forall n t, In (n, t) (reach_map_rev_ref d s p egr) <->
              (latest_board d s p egr n t /\ q_time p - t <= q_maxtt p).
Proof.
  intros Hwf Hp Hq. split; [apply reach_map_rev_ref_nodup; exact Hwf|].
  apply (reach_map_rev_ref_spec d s p egr Hwf Hq (ref_rev_stable d s p egr (q_time p) Hwf (wf_params_minw p Hp))).
Qed.

(* ---------------------------------------------------------------------------------------------- *)
(* 7. examples: non-vacuity, and why reach_map_rev_ref_spec needs  q_minw p < MAX_INT                *)

From TrV Require Import Examples.

Example ex_oracles :
  earliest_arrival_ref ex_data scen_all (ex_params true 35000) ex_acc ex_egr = Some 36750 /\
  reach_map_fwd_ref ex_data scen_all (ex_params true 35000) ex_acc = [(2%nat, 36300); (3%nat, 36900); (4%nat, 36700)] /\
  latest_departure_ref ex_data scen_all (ex_params false 40000) 40000 0 40000 ex_acc ex_egr = Some 35840 /\
  reach_map_rev_ref ex_data scen_all (ex_params false 40000) ex_egr = [(1%nat, 35940); (2%nat, 36540)] /\
  ref_fwd_stable_b ex_data scen_all (ex_params true 35000) ex_acc = true /\
  ref_rev_stable_b ex_data scen_all (ex_params false 40000) 40000 ex_egr = true.
Proof. vm_compute. repeat split. Qed.

(* A minimum waiting time of 2^32 - 2 s: the boarding-ready times fall below the "no label" value NEG, the
   solver drops them (brd stays NEG, the map is empty) although declaratively stop 2 has a latest ready time
   within the (equally absurd) travel-time limit.  Hence the hypothesis q_minw p < MAX_INT of
   reach_map_rev_ref_spec (every C++ `int` request value other than INT_MAX itself satisfies it). *)
Definition p_bigw : params :=
  {| q_scenario := 1; q_time := 40000; q_minw := 2 * MAX_INT; q_maxtt := 4 * MAX_INT; q_maxacc := 1200;
     q_maxegr := 1200; q_maxtr := 1200; q_maxfw := -1; q_fwd := false; q_except_lines := [] |}.
Definition c_t3 : conn :=
  {| c_trip := 3; c_seq := 1; c_from := 2; c_to := 4; c_dep := 36600; c_arr := 36900;
     c_cb := true; c_cu := true; c_minw := -1 |}.
Definition t3 : trip := {| t_id := 3; t_path := 2; t_service := 1; t_times := [st 36600 36600; st 36900 36900] |}.

Example minw_bound_needed :
  wf_data_b ex_data = true /\ wf_params_b p_bigw = true /\
  reach_map_rev_ref ex_data scen_all p_bigw ex_egr = [] /\
  latest_board ex_data scen_all p_bigw ex_egr 2 (36600 - 2 * MAX_INT) /\
  q_time p_bigw - (36600 - 2 * MAX_INT) <= q_maxtt p_bigw.
Proof.
  split; [vm_compute; reflexivity|]. split; [vm_compute; reflexivity|]. split; [vm_compute; reflexivity|].
  split; [|vm_compute; discriminate].
  split.
  - exists (row 4 50 60), [(c_t3, c_t3)], 4%nat, 36900.
    split; [left; reflexivity|]. split; [|split; [reflexivity|vm_compute; discriminate]].
    apply (reaches_last ex_data scen_all p_bigw 2%nat _ c_t3 c_t3).
    + unfold ride_ok.
      split; [vm_compute; do 3 right; left; reflexivity|].
      split; [vm_compute; do 3 right; left; reflexivity|].
      split; [reflexivity|]. split; [apply le_n|]. split; [reflexivity|]. split; [reflexivity|].
      exists t3. split; vm_compute; reflexivity.
    + reflexivity.
    + vm_compute. discriminate.
  - intros t' (re & rides & m & t'' & _ & R & _ & _).
    destruct (reaches_start ex_data scen_all p_bigw _ _ _ _ _ R) as (b & Hb & F & T & _).
    vm_compute in Hb.
    destruct Hb as [<-|[<-|[<-|[<-|[]]]]]; cbn [c_from] in F; try discriminate F;
      unfold minw_true in T; cbn [c_minw c_dep q_minw p_bigw] in T;
      change (-1 >=? 0) with false in T; cbv iota in T; unfold MAX_INT in *; lia.
Qed.

(* ---------------------------------------------------------------------------------------------- *)
(* Summary.
   Proved (all Qed, no axioms):
     forward   ref_fwd_sound, ref_fwd_inv (FInv: invariant of relax_trip_fwd / a round / iterate),
               ref_fwd_stable_b (definition), ref_fwd_complete_veh, ref_fwd_complete_ready,
               earliest_arrival_ref_some / _none, reach_map_fwd_ref_spec, reach_map_fwd_ref_nodup;
     reverse   boards_by (boards_at with explicit arrival bound; boards_at_by), ref_rev_sound, ref_rev_inv,
               ref_rev_stable_b, ref_rev_complete_brd, ref_rev_complete_lat,
               latest_departure_ref_some / _none (general A, lo, span; needs NEG < lo and rows_ok d acc),
               latest_departure_ref_C04_some / _none, reach_map_rev_ref_spec (needs q_minw p < MAX_INT, see
               minw_bound_needed), reach_map_rev_ref_nodup;
     fixpoint  ref_fwd_stable, ref_rev_stable: the stability checks hold after ref_rounds d rounds under
               wf_data_b d and 0 <= q_minw p alone — pos_hops_b is NOT needed (a journey that alights twice at
               a stop can be cut, times never go backwards: short_witness; k rounds account for all journeys
               of k rides: fwd_rounds_reaches / rev_rounds_reaches);
     hence     earliest_arrival_ref_correct, reach_map_fwd_ref_correct, latest_departure_ref_correct,
               latest_departure_ref_gen_correct, reach_map_rev_ref_correct without any stability hypothesis.
   OPEN: nothing of the task list.  Not attempted: tying calc_single / calc_allnodes to the oracles
   (C03_decl ... C09_decl), which is the subject of Proofs/{FwdOpt,RevOpt,OptCompose}.v. *)
