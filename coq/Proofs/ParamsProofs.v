(* ParamsProofs.v — C18: the request-parameter factories and the HTTP handlers of Params.v.

   The query is a list of (key, text) pairs whose ORDER is unspecified (the server keeps the fields in an
   unordered multimap) and in which keys may repeat: every theorem below is stated for an arbitrary list
   and for arbitrary instances of the three external functions
     rs : str -> option (option nat)      (uuid parser + scenario lookup,  Params.resolve_scenario)
     so : nat -> nat                      (number of services of a scenario, Params.services_of)
     ct : common -> bool -> bool          (does the calculation throw,       Params.calc_throws).

   Contents
     1. std::stoi                                   C18_stoi_*            (accepted language, range, examples)
     2. /updateCache                                C18_update
     3. one step of the three loops (cstep/rstep/pstep) and the loops as folds
     4. loop invariants and inversion lemmas of the factories
     5. handlers: totality                          C18_total_route / C18_total_access
     6. handlers: classification of the answers     C18_class_route / C18_class_access (+ _items), C18_success_*
     7. defaults and normalisation                  C18_defaults, C18_default_fwd, C18_last_wins, C18_norm, C18_nodup_value
     8. order independence of successful parses     C18_order_route / C18_order_access (+ counterexamples
                                                    showing why NoDup and "success only" are needed)

   All statements requested for C18 turned out to be true of the model; the Examples at the end of
   sections 7/8 document the boundaries (duplicates make the result order dependent; the error that is
   reported depends on the order when two values are invalid). *)
From TrV Require Import Params.
From Coq Require Import List ZArith Bool Lia Permutation Arith.
Import ListNotations.
Local Open Scope Z_scope.

(* ================================================================================================ *)
(* 1. std::stoi                                                                                     *)

(* what stoi does after white space and sign have been consumed *)
Definition stoi_tail (neg : bool) (s2 : str) : option Z :=
  let '(v, seen) := digits s2 0 false in
  if seen then
    let x := if neg then - v else v in
    if (INT_MIN <=? x) && (x <=? MAX_INT) then Some x else None
  else None.

Lemma stoi_minus : forall r, stoi (45%nat :: r) = stoi_tail true r.
Proof. intro r. reflexivity. Qed.

Lemma stoi_plus : forall r, stoi (43%nat :: r) = stoi_tail false r.
Proof. intro r. reflexivity. Qed.

Lemma stoi_space : forall c s, is_space c = true -> stoi (c :: s) = stoi s.
Proof. intros c s H. unfold stoi. cbn [skip_spaces]. rewrite H. reflexivity. Qed.

Lemma stoi_spaces : forall sp s, forallb is_space sp = true -> stoi (sp ++ s) = stoi s.
Proof.
  induction sp as [|c sp IH]; intros s H.
  - reflexivity.
  - cbn [forallb] in H. apply andb_true_iff in H. destruct H as [H1 H2].
    cbn [app]. rewrite (stoi_space _ _ H1). apply IH. exact H2.
Qed.

Lemma digit_not_space : forall n, is_space (48 + n) = false.
Proof.
  intro n. unfold is_space. apply orb_false_iff. split.
  - apply Nat.eqb_neq. lia.
  - apply andb_false_iff. right. apply Nat.leb_gt. lia.
Qed.

Lemma stoi_digit_head : forall d r, is_digit d = true -> stoi (d :: r) = stoi_tail false (d :: r).
Proof.
  intros d r H. unfold is_digit in H. apply andb_true_iff in H. destruct H as [H1 _].
  apply Nat.leb_le in H1.
  replace d with (48 + (d - 48))%nat by lia. generalize (d - 48)%nat. intro n.
  unfold stoi. cbn [skip_spaces]. rewrite (digit_not_space n). reflexivity.
Qed.

Lemma stoi_is_tail : forall s, exists neg s2, stoi s = stoi_tail neg s2.
Proof.
  intro s. unfold stoi.
  match goal with |- exists neg s2, (let '(n, t) := ?M in _) = _ => destruct M as [neg s2] end.
  exists neg, s2. reflexivity.
Qed.

Lemma stoi_tail_range : forall neg s x, stoi_tail neg s = Some x -> INT_MIN <= x <= MAX_INT.
Proof.
  intros neg s x H. unfold stoi_tail in H. destruct (digits s 0 false) as [v seen].
  destruct seen; [|discriminate H]. cbv zeta in H.
  destruct ((INT_MIN <=? (if neg then - v else v)) && ((if neg then - v else v) <=? MAX_INT)) eqn:E;
    [|discriminate H].
  injection H as <-. apply andb_true_iff in E. destruct E as [E1 E2].
  apply Z.leb_le in E1. apply Z.leb_le in E2. split; assumption.
Qed.

(* the value of every accepted text is an int *)
Theorem C18_stoi_range : forall s x, stoi s = Some x -> INT_MIN <= x <= MAX_INT.
Proof.
  intros s x H. destruct (stoi_is_tail s) as [neg [s2 E]]. rewrite E in H.
  exact (stoi_tail_range _ _ _ H).
Qed.

(* decimal value of a digit string *)
Definition dval (ds : str) (acc : Z) : Z := fold_left (fun a c => a * 10 + digit_val c) ds acc.
(* the text after the digits: empty or not starting with a digit (trailing garbage is ignored) *)
Definition stops (rest : str) : Prop := match rest with [] => True | c :: _ => is_digit c = false end.

Lemma digits_app : forall ds rest acc seen, forallb is_digit ds = true -> stops rest ->
  digits (ds ++ rest) acc seen = (dval ds acc, match ds with [] => seen | _ => true end).
Proof.
  induction ds as [|d ds IH]; intros rest acc seen Hd Hr.
  - cbn [app dval fold_left]. destruct rest as [|c r]; [reflexivity|].
    unfold stops in Hr. cbn [digits]. rewrite Hr. reflexivity.
  - cbn [forallb] in Hd. apply andb_true_iff in Hd. destruct Hd as [Hd1 Hd2].
    cbn [app digits]. rewrite Hd1. rewrite (IH rest _ true Hd2 Hr).
    unfold dval. cbn [fold_left]. destruct ds; reflexivity.
Qed.

Lemma dval_nonneg : forall ds acc, 0 <= acc -> 0 <= dval ds acc.
Proof.
  induction ds as [|d ds IH]; intros acc H.
  - exact H.
  - unfold dval. cbn [fold_left]. apply IH. unfold digit_val. lia.
Qed.

Lemma stoi_tail_digits : forall neg ds rest, ds <> [] -> forallb is_digit ds = true -> stops rest ->
  stoi_tail neg (ds ++ rest) =
    (let x := if neg then - dval ds 0 else dval ds 0 in
     if (INT_MIN <=? x) && (x <=? MAX_INT) then Some x else None).
Proof.
  intros neg ds rest Hne Hd Hr. unfold stoi_tail. rewrite (digits_app _ _ _ _ Hd Hr).
  destruct ds; [congruence|]. reflexivity.
Qed.

Lemma stoi_tail_nodigit : forall neg rest, stops rest -> stoi_tail neg rest = None.
Proof.
  intros neg rest Hr. unfold stoi_tail.
  pose proof (digits_app [] rest 0 false eq_refl Hr) as E. cbn [app] in E.
  rewrite E. reflexivity.
Qed.

(* The accepted language: white space, at most one sign, at least one digit, then anything not starting
   with a digit.  The result is the signed decimal value when it is an int and an exception otherwise. *)
Theorem C18_stoi_lang : forall sp sign neg ds rest,
  forallb is_space sp = true ->
  (sign = [] /\ neg = false) \/ (sign = [43%nat] /\ neg = false) \/ (sign = [45%nat] /\ neg = true) ->
  ds <> [] -> forallb is_digit ds = true -> stops rest ->
  stoi (sp ++ sign ++ ds ++ rest) =
    (let x := if neg then - dval ds 0 else dval ds 0 in
     if (INT_MIN <=? x) && (x <=? MAX_INT) then Some x else None).
Proof.
  intros sp sign neg ds rest Hsp Hsign Hne Hd Hr.
  rewrite (stoi_spaces _ _ Hsp).
  destruct Hsign as [[-> ->] | [[-> ->] | [-> ->]]].
  - cbn [app]. destruct ds as [|d ds']; [congruence|].
    assert (Hd1 : is_digit d = true).
    { cbn [forallb] in Hd. apply andb_true_iff in Hd. exact (proj1 Hd). }
    change ((d :: ds') ++ rest) with (d :: (ds' ++ rest)).
    rewrite (stoi_digit_head _ _ Hd1).
    change (d :: (ds' ++ rest)) with ((d :: ds') ++ rest).
    apply stoi_tail_digits; assumption.
  - cbn [app]. rewrite stoi_plus. apply stoi_tail_digits; assumption.
  - cbn [app]. rewrite stoi_minus. apply stoi_tail_digits; assumption.
Qed.

(* a plain digit string *)
Corollary C18_stoi_digits : forall ds, ds <> [] -> forallb is_digit ds = true ->
  (dval ds 0 <= MAX_INT -> stoi ds = Some (dval ds 0)) /\
  (MAX_INT < dval ds 0 -> stoi ds = None) /\
  (dval ds 0 <= - INT_MIN -> stoi (45%nat :: ds) = Some (- dval ds 0)) /\
  stoi (43%nat :: ds) = stoi ds.
Proof.
  intros ds Hne Hd.
  pose proof (dval_nonneg ds 0 (Z.le_refl 0)) as H0.
  pose proof (C18_stoi_lang [] [] false ds [] eq_refl (or_introl (conj eq_refl eq_refl)) Hne Hd I) as E0.
  pose proof (C18_stoi_lang [] [43%nat] false ds [] eq_refl
                (or_intror (or_introl (conj eq_refl eq_refl))) Hne Hd I) as E1.
  pose proof (C18_stoi_lang [] [45%nat] true ds [] eq_refl
                (or_intror (or_intror (conj eq_refl eq_refl))) Hne Hd I) as E2.
  cbn [app] in E0, E1, E2. rewrite app_nil_r in E0, E1, E2. cbv zeta in E0, E1, E2.
  repeat split.
  - intro H. rewrite E0.
    replace (INT_MIN <=? dval ds 0) with true by (symmetry; apply Z.leb_le; unfold INT_MIN; lia).
    replace (dval ds 0 <=? MAX_INT) with true by (symmetry; apply Z.leb_le; exact H). reflexivity.
  - intro H. rewrite E0.
    replace (dval ds 0 <=? MAX_INT) with false by (symmetry; apply Z.leb_gt; exact H).
    rewrite andb_false_r. reflexivity.
  - intro H. rewrite E2.
    replace (INT_MIN <=? - dval ds 0) with true by (symmetry; apply Z.leb_le; lia).
    replace (- dval ds 0 <=? MAX_INT) with true by (symmetry; apply Z.leb_le; unfold MAX_INT; lia).
    reflexivity.
  - rewrite E1, E0. reflexivity.
Qed.

(* no digit where one is required: std::invalid_argument *)
Theorem C18_stoi_nodigit : forall sp rest, forallb is_space sp = true -> stops rest ->
  stoi (sp ++ 43%nat :: rest) = None /\ stoi (sp ++ 45%nat :: rest) = None /\ stoi sp = None.
Proof.
  intros sp rest Hsp Hr. repeat split.
  - rewrite (stoi_spaces _ _ Hsp), stoi_plus. apply stoi_tail_nodigit. exact Hr.
  - rewrite (stoi_spaces _ _ Hsp), stoi_minus. apply stoi_tail_nodigit. exact Hr.
  - rewrite <- (app_nil_r sp). rewrite (stoi_spaces _ _ Hsp). reflexivity.
Qed.

Example C18_stoi_empty : stoi [] = None.
Proof. reflexivity. Qed.
Example C18_stoi_max : stoi [50;49;52;55;52;56;51;54;52;55]%nat = Some 2147483647.      (* "2147483647" *)
Proof. vm_compute. reflexivity. Qed.
Example C18_stoi_over : stoi [50;49;52;55;52;56;51;54;52;56]%nat = None.                 (* "2147483648" *)
Proof. vm_compute. reflexivity. Qed.
Example C18_stoi_min : stoi [45;50;49;52;55;52;56;51;54;52;56]%nat = Some (-2147483648). (* "-2147483648" *)
Proof. vm_compute. reflexivity. Qed.
Example C18_stoi_under : stoi [45;50;49;52;55;52;56;51;54;52;57]%nat = None.             (* "-2147483649" *)
Proof. vm_compute. reflexivity. Qed.
Example C18_stoi_garbage : stoi [49;50;97;98;99]%nat = Some 12.                          (* "12abc" *)
Proof. vm_compute. reflexivity. Qed.
Example C18_stoi_lead_space : stoi [32;55]%nat = Some 7.                                 (* " 7" *)
Proof. vm_compute. reflexivity. Qed.
Example C18_stoi_plus_sign : stoi [43;53]%nat = Some 5.                                  (* "+5" *)
Proof. vm_compute. reflexivity. Qed.
Example C18_stoi_alpha : stoi [97;98;99]%nat = None.                                     (* "abc" *)
Proof. vm_compute. reflexivity. Qed.
Example C18_stoi_minus_only : stoi [45]%nat = None.                                      (* "-" *)
Proof. vm_compute. reflexivity. Qed.
Example C18_stoi_two_signs : stoi [43;45;53]%nat = None.                                 (* "+-5" *)
Proof. vm_compute. reflexivity. Qed.
Example C18_stoi_sign_space : stoi [45;32;53]%nat = None.                                (* "- 5" *)
Proof. vm_compute. reflexivity. Qed.
Example C18_stoi_decimal : stoi [49;46;57]%nat = Some 1.                                 (* "1.9" *)
Proof. vm_compute. reflexivity. Qed.

(* ================================================================================================ *)
(* 2. /updateCache                                                                                  *)

Lemma update_names_nil : forall names idx,
  update_names names false idx = [] <-> (forall n, In n names -> n = None).
Proof.
  induction names as [|n r IH]; intro idx.
  - cbn [update_names]. split; [intros _ n Hn; destruct Hn | reflexivity].
  - cbn [update_names orb]. destruct n as [k|]; cbn [is_some].
    + split; [intro H; discriminate H|].
      intro H. specialize (H (Some k) (or_introl eq_refl)). discriminate H.
    + rewrite IH. split; intros H n Hn.
      * destruct Hn as [<- | Hn]; [reflexivity | exact (H n Hn)].
      * apply H. right. exact Hn.
Qed.

(* an error object exactly when no known cache name was given *)
Theorem C18_update : forall names,
  (handle_update names = UError <-> (forall n, In n names -> n = None)) /\
  (forall l, handle_update names = USuccess l -> l <> [] /\ exists n, In n names /\ n <> None).
Proof.
  intro names. unfold handle_update. split.
  - rewrite <- (update_names_nil names 0).
    destruct (update_names names false 0) as [|i l]; split; intro H; try reflexivity; discriminate H.
  - intros l H. destruct (update_names names false 0) as [|i l0] eqn:E; [discriminate H|].
    injection H as <-. split; [discriminate|].
    (* some name is known: otherwise the list would be empty *)
    assert (Hnot : ~ (forall n, In n names -> n = None)).
    { intro Hall. apply (update_names_nil names 0) in Hall. rewrite Hall in E. discriminate E. }
    clear E. induction names as [|n r IH].
    + exfalso. apply Hnot. intros n Hn. destruct Hn.
    + destruct n as [k|].
      * exists (Some k). split; [left; reflexivity | discriminate].
      * destruct IH as [n [Hn1 Hn2]].
        { intro Hall. apply Hnot. intros n Hn. destruct Hn as [<- | Hn]; [reflexivity | exact (Hall n Hn)]. }
        exists n. split; [right; exact Hn1 | exact Hn2].
Qed.

Example C18_update_empty : handle_update [] = UError.
Proof. reflexivity. Qed.
Example C18_update_unknown_only : handle_update [None; None] = UError.
Proof. reflexivity. Qed.
(* once a known name was seen, later unknown names are echoed as well (the C++ appends every later name) *)
Example C18_update_mixed : handle_update [None; Some 3%nat; None] = USuccess [1%nat; 2%nat].
Proof. reflexivity. Qed.

(* ================================================================================================ *)
(* 3. one step of each loop; the loops as folds                                                     *)

Definition pbind {A B} (p : parsed A) (f : A -> parsed B) : parsed B :=
  match p with POk a => f a | PErr e => PErr e | PExn => PExn end.

Lemma key_eq_dec : forall a b : key, {a = b} + {a <> b}.
Proof. decide equality. Defined.

Definition set_fwd (c : common) (b : bool) : common :=
  {| cm_time := cm_time c; cm_minw := cm_minw c; cm_maxtt := cm_maxtt c; cm_maxacc := cm_maxacc c;
     cm_maxegr := cm_maxegr c; cm_maxtr := cm_maxtr c; cm_maxfw := cm_maxfw c; cm_fwd := b; cm_scen := cm_scen c |}.
Definition set_scen (c : common) (s : option nat) : common :=
  {| cm_time := cm_time c; cm_minw := cm_minw c; cm_maxtt := cm_maxtt c; cm_maxacc := cm_maxacc c;
     cm_maxegr := cm_maxegr c; cm_maxtr := cm_maxtr c; cm_maxfw := cm_maxfw c; cm_fwd := cm_fwd c; cm_scen := s |}.

(* ---- the common factory (common_parameters.cpp) ---- *)
Definition cstep (rs : str -> option (option nat)) (k : key) (v : str) (c : common) : parsed common :=
  if is_numeric_key k then
    match stoi v with
    | Some x => POk (set_field c k x)
    | None => PErr E_INVALID_NUMERICAL_DATA
    end
  else match k with
       | KTimeType => POk (if list_eqb v [49%nat] then set_fwd c false else c)
       | KScenario => match rs v with
                      | None => PExn
                      | Some None => POk c
                      | Some (Some sid) => POk (set_scen c (Some sid))
                      end
       | _ => POk c
       end.

Lemma common_loop_cons : forall rs k v r c,
  common_loop rs ((k, v) :: r) c = pbind (cstep rs k v c) (common_loop rs r).
Proof.
  intros rs k v r c. cbn [common_loop]. unfold cstep.
  destruct (is_numeric_key k).
  - destruct (stoi v); reflexivity.
  - destruct k; try reflexivity.
    destruct (rs v) as [[sid|]|]; reflexivity.
Qed.

Lemma common_loop_app : forall rs q1 q2 c,
  common_loop rs (q1 ++ q2) c = pbind (common_loop rs q1 c) (common_loop rs q2).
Proof.
  induction q1 as [|[k v] r IH]; intros q2 c.
  - reflexivity.
  - cbn [app]. rewrite !common_loop_cons. destruct (cstep rs k v c) as [c1| |]; cbn [pbind].
    + apply IH.
    + reflexivity.
    + reflexivity.
Qed.

(* the numeric field a key writes, and the normalisation applied to the parsed number *)
Definition field_of (k : key) (c : common) : Z :=
  match k with
  | KTime => cm_time c | KMinWait => cm_minw c | KMaxTT => cm_maxtt c | KMaxAcc => cm_maxacc c
  | KMaxEgr => cm_maxegr c | KMaxTr => cm_maxtr c | KMaxFW => cm_maxfw c
  | _ => 0
  end.
Definition norm (k : key) (x : Z) : Z :=
  match k with
  | KTime => if x <? 0 then -1 else x
  | KMinWait => if x <? 0 then 0 else x
  | KMaxTT | KMaxAcc | KMaxEgr | KMaxTr => if x <=? 0 then MAX_INT else x
  | KMaxFW => if x <=? 0 then -1 else x
  | _ => 0
  end.

Lemma set_field_same : forall c k x, is_numeric_key k = true -> field_of k (set_field c k x) = norm k x.
Proof. intros c k x H. destruct k; try discriminate H; reflexivity. Qed.

Lemma set_field_other : forall c k k' x, k' <> k -> field_of k' (set_field c k x) = field_of k' c.
Proof.
  intros c k k' x Hne.
  destruct k; try reflexivity; destruct k'; try reflexivity; exfalso; apply Hne; reflexivity.
Qed.

Lemma set_field_fwd_scen : forall c k x,
  cm_fwd (set_field c k x) = cm_fwd c /\ cm_scen (set_field c k x) = cm_scen c.
Proof. intros c k x. destruct k; split; reflexivity. Qed.

(* complete description of a successful step *)
Lemma cstep_ok : forall rs k v c c', cstep rs k v c = POk c' ->
  (is_numeric_key k = true /\ exists x, stoi v = Some x /\ c' = set_field c k x) \/
  (k = KTimeType /\ c' = (if list_eqb v [49%nat] then set_fwd c false else c)) \/
  (k = KScenario /\ ((rs v = Some None /\ c' = c) \/
                     exists sid, rs v = Some (Some sid) /\ c' = set_scen c (Some sid))) \/
  (is_numeric_key k = false /\ k <> KTimeType /\ k <> KScenario /\ c' = c).
Proof.
  intros rs k v c c' H. unfold cstep in H.
  destruct (is_numeric_key k) eqn:Hn.
  - left. split; [reflexivity|]. destruct (stoi v) as [x|]; [|discriminate H].
    injection H as <-. exists x. split; reflexivity.
  - right. destruct k; try discriminate Hn;
      try (right; right; injection H as <-; repeat split; discriminate).
    + left. injection H as <-. split; reflexivity.
    + right. left. split; [reflexivity|]. destruct (rs v) as [[sid|]|]; [| |discriminate H].
      * right. injection H as <-. exists sid. split; reflexivity.
      * left. injection H as <-. split; reflexivity.
Qed.

Lemma cstep_err : forall rs k v c e, cstep rs k v c = PErr e ->
  e = E_INVALID_NUMERICAL_DATA /\ is_numeric_key k = true /\ stoi v = None.
Proof.
  intros rs k v c e H. unfold cstep in H. destruct (is_numeric_key k) eqn:Hn.
  - destruct (stoi v) as [x|]; [discriminate H|]. injection H as <-. repeat split.
  - destruct k; try discriminate H. destruct (rs v) as [[sid|]|]; discriminate H.
Qed.

Lemma cstep_exn : forall rs k v c, cstep rs k v c = PExn -> k = KScenario /\ rs v = None.
Proof.
  intros rs k v c H. unfold cstep in H. destruct (is_numeric_key k) eqn:Hn.
  - destruct (stoi v); discriminate H.
  - destruct k; try discriminate H. destruct (rs v) as [[sid|]|]; try discriminate H. split; reflexivity.
Qed.

Lemma cstep_field_other : forall rs k v c c' k',
  cstep rs k v c = POk c' -> k' <> k -> field_of k' c' = field_of k' c.
Proof.
  intros rs k v c c' k' H Hne. apply cstep_ok in H.
  destruct H as [[Hn [x [_ ->]]] | [[_ ->] | [[_ [[_ ->] | [sid [_ ->]]]] | [_ [_ [_ ->]]]]]].
  - apply set_field_other. exact Hne.
  - destruct (list_eqb v [49%nat]); destruct k'; reflexivity.
  - reflexivity.
  - destruct k'; reflexivity.
  - reflexivity.
Qed.

Lemma cstep_fwd_other : forall rs k v c c',
  cstep rs k v c = POk c' -> k <> KTimeType -> cm_fwd c' = cm_fwd c.
Proof.
  intros rs k v c c' H Hne. apply cstep_ok in H.
  destruct H as [[Hn [x [_ ->]]] | [[-> _] | [[_ [[_ ->] | [sid [_ ->]]]] | [_ [_ [_ ->]]]]]].
  - apply set_field_fwd_scen.
  - exfalso. apply Hne. reflexivity.
  - reflexivity.
  - reflexivity.
  - reflexivity.
Qed.

Lemma cstep_scen : forall rs k v c c', cstep rs k v c = POk c' ->
  (cm_scen c' = cm_scen c /\ (k = KScenario -> rs v = Some None)) \/
  (k = KScenario /\ exists sid, rs v = Some (Some sid) /\ cm_scen c' = Some sid).
Proof.
  intros rs k v c c' H. apply cstep_ok in H.
  destruct H as [[Hn [x [_ ->]]] | [[-> ->] | [[-> [[Hr ->] | [sid [Hr ->]]]] | [_ [_ [Hk ->]]]]]].
  - left. split; [apply set_field_fwd_scen|]. intros ->. discriminate Hn.
  - left. split; [destruct (list_eqb v [49%nat]); reflexivity | intro Hk; discriminate Hk].
  - left. split; [reflexivity | intros _; exact Hr].
  - right. split; [reflexivity|]. exists sid. split; [exact Hr | reflexivity].
  - left. split; [reflexivity | intro Hk'; contradiction].
Qed.

(* two steps on different keys commute *)
Lemma cstep_swap : forall rs k1 v1 k2 v2 c c1 c2, k1 <> k2 ->
  cstep rs k1 v1 c = POk c1 -> cstep rs k2 v2 c1 = POk c2 ->
  exists c1', cstep rs k2 v2 c = POk c1' /\ cstep rs k1 v1 c1' = POk c2.
Proof.
  intros rs k1 v1 k2 v2 c c1 c2 Hne H1 H2. unfold cstep in *.
  destruct c as [t mw tt ac eg tr fw fd sc].
  destruct k1, k2; try (exfalso; apply Hne; reflexivity); cbn [is_numeric_key] in *;
  repeat match goal with
  | H : match stoi ?v with _ => _ end = _ |- _ => destruct (stoi v) eqn:?; [|discriminate H]
  | H : match rs ?v with _ => _ end = _ |- _ => destruct (rs v) as [[?|]|] eqn:?; try discriminate H
  end;
  injection H1 as <-; injection H2 as <-;
  repeat match goal with
  | |- context [list_eqb ?v ?w] => destruct (list_eqb v w)
  end;
  (eexists; split; reflexivity).
Qed.

(* ---- the route factory (route_parameters.cpp) ---- *)
Definition rstep (k : key) (v : str) (st : bool * bool * bool) : parsed (bool * bool * bool) :=
  let '(o, d, a) := st in
  match k with
  | KOrigin => if point_ok v then POk (true, d, a) else PErr E_INVALID_ORIGIN
  | KDestination => if point_ok v then POk (o, true, a) else PErr E_INVALID_DESTINATION
  | KAlternatives => POk (o, d, a || list_eqb v [116; 114; 117; 101]%nat || list_eqb v [49%nat])
  | _ => POk (o, d, a)
  end.
Definition route_loop3 (q : list (key * str)) (st : bool * bool * bool) : parsed (bool * bool * bool) :=
  let '(o, d, a) := st in route_loop q o d a.

Lemma route_loop_cons : forall k v r st,
  route_loop3 ((k, v) :: r) st = pbind (rstep k v st) (route_loop3 r).
Proof.
  intros k v r [[o d] a]. unfold route_loop3, rstep. cbn [route_loop].
  destruct k; try reflexivity; destruct (point_ok v); reflexivity.
Qed.

Lemma rstep_err : forall k v st e, rstep k v st = PErr e ->
  (k = KOrigin /\ e = E_INVALID_ORIGIN /\ point_ok v = false) \/
  (k = KDestination /\ e = E_INVALID_DESTINATION /\ point_ok v = false).
Proof.
  intros k v [[o d] a] e H. unfold rstep in H. destruct k; try discriminate H.
  - left. destruct (point_ok v); [discriminate H|]. injection H as <-. repeat split.
  - right. destruct (point_ok v); [discriminate H|]. injection H as <-. repeat split.
Qed.

Lemma rstep_no_exn : forall k v st, rstep k v st <> PExn.
Proof.
  intros k v [[o d] a] H. unfold rstep in H.
  destruct k; try discriminate H; destruct (point_ok v); discriminate H.
Qed.

Lemma rstep_ok : forall k v o d a o1 d1 a1, rstep k v (o, d, a) = POk (o1, d1, a1) ->
  (o1 = false -> o = false /\ k <> KOrigin) /\ (d1 = false -> d = false /\ k <> KDestination).
Proof.
  intros k v o d a o1 d1 a1 H. unfold rstep in H.
  destruct k; try (injection H as <- <- <-; split; intros ->; (split; [reflexivity | discriminate])).
  - destruct (point_ok v); [|discriminate H]. injection H as <- <- <-.
    split; [intro Hf; discriminate Hf | intros ->; split; [reflexivity | discriminate]].
  - destruct (point_ok v); [|discriminate H]. injection H as <- <- <-.
    split; [intros ->; split; [reflexivity | discriminate] | intro Hf; discriminate Hf].
Qed.

(* any two steps of the route loop commute *)
Lemma rstep_swap : forall k1 v1 k2 v2 st st1 st2,
  rstep k1 v1 st = POk st1 -> rstep k2 v2 st1 = POk st2 ->
  exists st1', rstep k2 v2 st = POk st1' /\ rstep k1 v1 st1' = POk st2.
Proof.
  intros k1 v1 k2 v2 [[o d] a] st1 st2 H1 H2. unfold rstep in *.
  destruct k1;
  try (destruct (point_ok v1); [|discriminate H1]);
  injection H1 as <-;
  destruct k2;
  try (destruct (point_ok v2); [|discriminate H2]);
  injection H2 as <-;
  try (eexists; split; reflexivity).
  (* alternatives twice *)
  eexists. split; [reflexivity|].
  destruct a; destruct (list_eqb v1 [116; 114; 117; 101]%nat); destruct (list_eqb v1 [49%nat]);
    destruct (list_eqb v2 [116; 114; 117; 101]%nat); destruct (list_eqb v2 [49%nat]); reflexivity.
Qed.

(* ---- the accessibility factory (accessibility_parameters.cpp) ---- *)
Definition pstep (k : key) (v : str) (p : bool) : parsed bool :=
  match k with
  | KPlace => if point_ok v then POk true else PErr E_INVALID_PLACE
  | _ => POk p
  end.

Lemma place_loop_cons : forall k v r p,
  place_loop ((k, v) :: r) p = pbind (pstep k v p) (place_loop r).
Proof.
  intros k v r p. unfold pstep. cbn [place_loop].
  destruct k; try reflexivity; destruct (point_ok v); reflexivity.
Qed.

Lemma pstep_err : forall k v p e, pstep k v p = PErr e ->
  k = KPlace /\ e = E_INVALID_PLACE /\ point_ok v = false.
Proof.
  intros k v p e H. unfold pstep in H. destruct k; try discriminate H.
  destruct (point_ok v); [discriminate H|]. injection H as <-. repeat split.
Qed.

Lemma pstep_no_exn : forall k v p, pstep k v p <> PExn.
Proof.
  intros k v p H. unfold pstep in H. destruct k; try discriminate H; destruct (point_ok v); discriminate H.
Qed.

Lemma pstep_ok : forall k v p p1, pstep k v p = POk p1 -> p1 = false -> p = false /\ k <> KPlace.
Proof.
  intros k v p p1 H Hf. unfold pstep in H.
  destruct k; try (injection H as <-; split; [exact Hf | discriminate]).
  destruct (point_ok v); [|discriminate H]. injection H as <-. discriminate Hf.
Qed.

Lemma pstep_swap : forall k1 v1 k2 v2 p p1 p2,
  pstep k1 v1 p = POk p1 -> pstep k2 v2 p1 = POk p2 ->
  exists p1', pstep k2 v2 p = POk p1' /\ pstep k1 v1 p1' = POk p2.
Proof.
  intros k1 v1 k2 v2 p p1 p2 H1 H2. unfold pstep in *.
  destruct k1;
  try (destruct (point_ok v1); [|discriminate H1]);
  injection H1 as <-;
  destruct k2;
  try (destruct (point_ok v2); [|discriminate H2]);
  injection H2 as <-;
  (eexists; split; reflexivity).
Qed.

(* ================================================================================================ *)
(* 4. loop invariants and inversion of the factories                                                *)

Lemma in_map_fst_iff : forall (k : key) (q : list (key * str)),
  In k (map fst q) <-> exists v, In (k, v) q.
Proof.
  intros k q. rewrite in_map_iff. split.
  - intros [[k' v] [E Hin]]. cbn [fst] in E. subst k'. exists v. exact Hin.
  - intros [v Hin]. exists (k, v). split; [reflexivity | exact Hin].
Qed.

(* ---- the common loop: numeric fields ---- *)
Lemma common_loop_field_absent : forall rs q c cm k,
  common_loop rs q c = POk cm -> (forall v, ~ In (k, v) q) -> field_of k cm = field_of k c.
Proof.
  induction q as [|[k' v'] r IH]; intros c cm k H Hno.
  - cbn [common_loop] in H. injection H as <-. reflexivity.
  - rewrite common_loop_cons in H.
    destruct (cstep rs k' v' c) as [c1| |] eqn:E; cbn [pbind] in H; try discriminate H.
    rewrite (IH c1 cm k H).
    + eapply cstep_field_other; [exact E|]. intro Heq. subst k'. apply (Hno v'). left. reflexivity.
    + intros v Hin. apply (Hno v). right. exact Hin.
Qed.

(* a bound numeric key: the field is the normalised value of one of its bindings (the last one) *)
Lemma common_loop_field_bound : forall rs q c cm k,
  common_loop rs q c = POk cm -> is_numeric_key k = true -> (exists v, In (k, v) q) ->
  exists v x, In (k, v) q /\ stoi v = Some x /\ field_of k cm = norm k x.
Proof.
  induction q as [|[k' v'] r IH]; intros c cm k H Hn Hex.
  - destruct Hex as [v []].
  - rewrite common_loop_cons in H.
    destruct (cstep rs k' v' c) as [c1| |] eqn:E; cbn [pbind] in H; try discriminate H.
    destruct (in_dec key_eq_dec k (map fst r)) as [Hin | Hnin].
    + apply in_map_fst_iff in Hin. destruct (IH c1 cm k H Hn Hin) as [v [x [H1 [H2 H3]]]].
      exists v, x. split; [right; exact H1 | split; assumption].
    + assert (Hno : forall v, ~ In (k, v) r).
      { intros v Hv. apply Hnin. apply in_map_fst_iff. exists v. exact Hv. }
      destruct Hex as [v Hv]. destruct Hv as [Heq | Hv]; [|exfalso; exact (Hno v Hv)].
      injection Heq as -> ->.
      apply cstep_ok in E.
      destruct E as [[_ [x [Hx ->]]] | [[-> _] | [[-> _] | [Hf _]]]];
        try discriminate Hn; [|rewrite Hn in Hf; discriminate Hf].
      exists v, x. split; [left; reflexivity|]. split; [exact Hx|].
      rewrite (common_loop_field_absent rs r _ cm k H Hno). apply set_field_same. exact Hn.
Qed.

(* ---- the common loop: time type ---- *)
Lemma common_loop_fwd_absent : forall rs q c cm,
  common_loop rs q c = POk cm -> (forall v, ~ In (KTimeType, v) q) -> cm_fwd cm = cm_fwd c.
Proof.
  induction q as [|[k' v'] r IH]; intros c cm H Hno.
  - cbn [common_loop] in H. injection H as <-. reflexivity.
  - rewrite common_loop_cons in H.
    destruct (cstep rs k' v' c) as [c1| |] eqn:E; cbn [pbind] in H; try discriminate H.
    rewrite (IH c1 cm H).
    + eapply cstep_fwd_other; [exact E|]. intro Heq. subst k'. apply (Hno v'). left. reflexivity.
    + intros v Hin. apply (Hno v). right. exact Hin.
Qed.

(* ---- the common loop: scenario ---- *)
Lemma common_loop_scen_none : forall rs q c cm,
  common_loop rs q c = POk cm -> cm_scen cm = None ->
  cm_scen c = None /\ forall v sid, In (KScenario, v) q -> rs v <> Some (Some sid).
Proof.
  induction q as [|[k' v'] r IH]; intros c cm H Hnone.
  - cbn [common_loop] in H. injection H as <-. split; [exact Hnone | intros v sid []].
  - rewrite common_loop_cons in H.
    destruct (cstep rs k' v' c) as [c1| |] eqn:E; cbn [pbind] in H; try discriminate H.
    destruct (IH c1 cm H Hnone) as [Hc1 Hr].
    destruct (cstep_scen _ _ _ _ _ E) as [[Hs Hk] | [_ [sid [_ Hs]]]].
    + split; [rewrite <- Hs; exact Hc1|].
      intros v sid Hin. destruct Hin as [Heq | Hin]; [|exact (Hr v sid Hin)].
      injection Heq as -> ->. rewrite (Hk eq_refl). discriminate.
    + rewrite Hs in Hc1. discriminate Hc1.
Qed.

Lemma common_loop_scen_some : forall rs q c cm sid,
  common_loop rs q c = POk cm -> cm_scen cm = Some sid ->
  cm_scen c = Some sid \/ exists v, In (KScenario, v) q /\ rs v = Some (Some sid).
Proof.
  induction q as [|[k' v'] r IH]; intros c cm sid H Hsome.
  - cbn [common_loop] in H. injection H as <-. left. exact Hsome.
  - rewrite common_loop_cons in H.
    destruct (cstep rs k' v' c) as [c1| |] eqn:E; cbn [pbind] in H; try discriminate H.
    destruct (IH c1 cm sid H Hsome) as [Hc1 | [v [Hin Hv]]].
    + destruct (cstep_scen _ _ _ _ _ E) as [[Hs _] | [-> [sid' [Hr Hs]]]].
      * left. rewrite <- Hs. exact Hc1.
      * right. exists v'. split; [left; reflexivity|]. rewrite Hr. rewrite Hs in Hc1. rewrite Hc1. reflexivity.
    + right. exists v. split; [right; exact Hin | exact Hv].
Qed.

(* ---- the common loop: failures ---- *)
Lemma common_loop_err : forall rs q c e, common_loop rs q c = PErr e ->
  e = E_INVALID_NUMERICAL_DATA /\ exists k v, In (k, v) q /\ is_numeric_key k = true /\ stoi v = None.
Proof.
  induction q as [|[k' v'] r IH]; intros c e H.
  - discriminate H.
  - rewrite common_loop_cons in H.
    destruct (cstep rs k' v' c) as [c1|e1|] eqn:E; cbn [pbind] in H; try discriminate H.
    + destruct (IH c1 e H) as [He [k [v [Hin Hkv]]]].
      split; [exact He|]. exists k, v. split; [right; exact Hin | exact Hkv].
    + injection H as ->. destruct (cstep_err _ _ _ _ _ E) as [He [Hn Hs]].
      split; [exact He|]. exists k', v'. split; [left; reflexivity | split; assumption].
Qed.

Lemma common_loop_exn : forall rs q c, common_loop rs q c = PExn ->
  exists v, In (KScenario, v) q /\ rs v = None.
Proof.
  induction q as [|[k' v'] r IH]; intros c H.
  - discriminate H.
  - rewrite common_loop_cons in H.
    destruct (cstep rs k' v' c) as [c1|e1|] eqn:E; cbn [pbind] in H; try discriminate H.
    + destruct (IH c1 H) as [v [Hin Hv]]. exists v. split; [right; exact Hin | exact Hv].
    + destruct (cstep_exn _ _ _ _ E) as [-> Hv]. exists v'. split; [left; reflexivity | exact Hv].
Qed.

(* ---- the common loop: value ranges ---- *)
Definition limits_ok (c : common) : Prop :=
  (-1 <= cm_time c <= MAX_INT) /\ (0 <= cm_minw c <= MAX_INT) /\
  (0 < cm_maxtt c <= MAX_INT) /\ (0 < cm_maxacc c <= MAX_INT) /\ (0 < cm_maxegr c <= MAX_INT) /\
  (0 < cm_maxtr c <= MAX_INT) /\ ((cm_maxfw c = -1 \/ 0 < cm_maxfw c) /\ cm_maxfw c <= MAX_INT).

Lemma limits_default : limits_ok common_default.
Proof.
  unfold limits_ok, common_default. cbn [cm_time cm_minw cm_maxtt cm_maxacc cm_maxegr cm_maxtr cm_maxfw].
  unfold GEN_DEFAULT_MIN_WAITING_TIME, GEN_DEFAULT_MAX_ACCESS_TRAVEL_TIME, GEN_DEFAULT_MAX_EGRESS_TRAVEL_TIME,
    GEN_DEFAULT_MAX_TRANSFER_TRAVEL_TIME, GEN_DEFAULT_FIRST_WAITING_TIME, MAX_INT.
  lia.
Qed.

Lemma set_field_limits : forall c k x, INT_MIN <= x <= MAX_INT -> limits_ok c -> limits_ok (set_field c k x).
Proof.
  intros c k x Hx H. unfold limits_ok in *.
  destruct k; try exact H;
    cbn [set_field cm_time cm_minw cm_maxtt cm_maxacc cm_maxegr cm_maxtr cm_maxfw];
    unfold INT_MIN, MAX_INT in *.
  - destruct (x <? 0) eqn:E; [|apply Z.ltb_ge in E]; lia.
  - destruct (x <? 0) eqn:E; [|apply Z.ltb_ge in E]; lia.
  - destruct (x <=? 0) eqn:E; [|apply Z.leb_gt in E]; lia.
  - destruct (x <=? 0) eqn:E; [|apply Z.leb_gt in E]; lia.
  - destruct (x <=? 0) eqn:E; [|apply Z.leb_gt in E]; lia.
  - destruct (x <=? 0) eqn:E; [|apply Z.leb_gt in E]; lia.
  - destruct (x <=? 0) eqn:E; [|apply Z.leb_gt in E]; lia.
Qed.

Lemma cstep_limits : forall rs k v c c', cstep rs k v c = POk c' -> limits_ok c -> limits_ok c'.
Proof.
  intros rs k v c c' H Hl. apply cstep_ok in H.
  destruct H as [[Hn [x [Hx ->]]] | [[_ ->] | [[_ [[_ ->] | [sid [_ ->]]]] | [_ [_ [_ ->]]]]]].
  - apply set_field_limits; [exact (C18_stoi_range _ _ Hx) | exact Hl].
  - destruct (list_eqb v [49%nat]); exact Hl.
  - exact Hl.
  - exact Hl.
  - exact Hl.
Qed.

Lemma common_loop_limits : forall rs q c cm, common_loop rs q c = POk cm -> limits_ok c -> limits_ok cm.
Proof.
  induction q as [|[k' v'] r IH]; intros c cm H Hl.
  - cbn [common_loop] in H. injection H as <-. exact Hl.
  - rewrite common_loop_cons in H.
    destruct (cstep rs k' v' c) as [c1| |] eqn:E; cbn [pbind] in H; try discriminate H.
    apply (IH c1 cm H). exact (cstep_limits _ _ _ _ _ E Hl).
Qed.

(* ---- the route and place loops ---- *)
Lemma route_loop_err : forall q st e, route_loop3 q st = PErr e ->
  (e = E_INVALID_ORIGIN /\ exists v, In (KOrigin, v) q /\ point_ok v = false) \/
  (e = E_INVALID_DESTINATION /\ exists v, In (KDestination, v) q /\ point_ok v = false).
Proof.
  induction q as [|[k' v'] r IH]; intros st e H.
  - destruct st as [[o d] a]. discriminate H.
  - rewrite route_loop_cons in H.
    destruct (rstep k' v' st) as [st1|e1|] eqn:E; cbn [pbind] in H; try discriminate H.
    + destruct (IH st1 e H) as [[He [v [Hin Hv]]] | [He [v [Hin Hv]]]].
      * left. split; [exact He|]. exists v. split; [right; exact Hin | exact Hv].
      * right. split; [exact He|]. exists v. split; [right; exact Hin | exact Hv].
    + injection H as ->. destruct (rstep_err _ _ _ _ E) as [[-> [He Hv]] | [-> [He Hv]]].
      * left. split; [exact He|]. exists v'. split; [left; reflexivity | exact Hv].
      * right. split; [exact He|]. exists v'. split; [left; reflexivity | exact Hv].
Qed.

Lemma route_loop_no_exn : forall q st, route_loop3 q st <> PExn.
Proof.
  induction q as [|[k' v'] r IH]; intros st H.
  - destruct st as [[o d] a]. discriminate H.
  - rewrite route_loop_cons in H.
    destruct (rstep k' v' st) as [st1|e1|] eqn:E; cbn [pbind] in H; try discriminate H.
    + exact (IH st1 H).
    + exact (rstep_no_exn _ _ _ E).
Qed.

Lemma route_loop_ok : forall q o d a o' d' a', route_loop3 q (o, d, a) = POk (o', d', a') ->
  (o' = false -> o = false /\ forall v, ~ In (KOrigin, v) q) /\
  (d' = false -> d = false /\ forall v, ~ In (KDestination, v) q).
Proof.
  induction q as [|[k' v'] r IH]; intros o d a o' d' a' H.
  - cbn in H. injection H as <- <- <-. split; intro Hf; (split; [exact Hf | intros v []]).
  - rewrite route_loop_cons in H.
    destruct (rstep k' v' (o, d, a)) as [[[o1 d1] a1]|e1|] eqn:E; cbn [pbind] in H; try discriminate H.
    destruct (IH _ _ _ _ _ _ H) as [IHo IHd].
    destruct (rstep_ok _ _ _ _ _ _ _ _ E) as [So Sd].
    split; intro Hf.
    + destruct (IHo Hf) as [Ho1 Hno]. destruct (So Ho1) as [Ho Hk]. split; [exact Ho|].
      intros v Hin. destruct Hin as [Heq | Hin]; [|exact (Hno v Hin)].
      injection Heq as -> _. apply Hk. reflexivity.
    + destruct (IHd Hf) as [Hd1 Hno]. destruct (Sd Hd1) as [Hd Hk]. split; [exact Hd|].
      intros v Hin. destruct Hin as [Heq | Hin]; [|exact (Hno v Hin)].
      injection Heq as -> _. apply Hk. reflexivity.
Qed.

Lemma place_loop_err : forall q p e, place_loop q p = PErr e ->
  e = E_INVALID_PLACE /\ exists v, In (KPlace, v) q /\ point_ok v = false.
Proof.
  induction q as [|[k' v'] r IH]; intros p e H.
  - discriminate H.
  - rewrite place_loop_cons in H.
    destruct (pstep k' v' p) as [p1|e1|] eqn:E; cbn [pbind] in H; try discriminate H.
    + destruct (IH p1 e H) as [He [v [Hin Hv]]].
      split; [exact He|]. exists v. split; [right; exact Hin | exact Hv].
    + injection H as ->. destruct (pstep_err _ _ _ _ E) as [-> [He Hv]].
      split; [exact He|]. exists v'. split; [left; reflexivity | exact Hv].
Qed.

Lemma place_loop_no_exn : forall q p, place_loop q p <> PExn.
Proof.
  induction q as [|[k' v'] r IH]; intros p H.
  - discriminate H.
  - rewrite place_loop_cons in H.
    destruct (pstep k' v' p) as [p1|e1|] eqn:E; cbn [pbind] in H; try discriminate H.
    + exact (IH p1 H).
    + exact (pstep_no_exn _ _ _ E).
Qed.

Lemma place_loop_ok : forall q p p', place_loop q p = POk p' -> p' = false ->
  p = false /\ forall v, ~ In (KPlace, v) q.
Proof.
  induction q as [|[k' v'] r IH]; intros p p' H Hf.
  - cbn in H. injection H as <-. split; [exact Hf | intros v []].
  - rewrite place_loop_cons in H.
    destruct (pstep k' v' p) as [p1|e1|] eqn:E; cbn [pbind] in H; try discriminate H.
    destruct (IH _ _ H Hf) as [Hp1 Hno]. destruct (pstep_ok _ _ _ _ E Hp1) as [Hp Hk].
    split; [exact Hp|]. intros v Hin. destruct Hin as [Heq | Hin]; [|exact (Hno v Hin)].
    injection Heq as -> _. apply Hk. reflexivity.
Qed.

(* ---- inversion of the factories ---- *)
Lemma create_common_ok : forall rs so q cm,
  create_common rs so q = POk cm <->
  common_loop rs q common_default = POk cm /\
  exists sid, cm_scen cm = Some sid /\ so sid <> 0%nat /\ 0 <= cm_time cm.
Proof.
  intros rs so q cm. unfold create_common. split.
  - intro H. destruct (common_loop rs q common_default) as [c| |] eqn:EL; try discriminate H.
    destruct (cm_scen c) as [sid|] eqn:ES; [|discriminate H].
    destruct (Nat.eqb (so sid) 0) eqn:E0; [discriminate H|].
    destruct (cm_time c <? 0) eqn:ET; [discriminate H|].
    injection H as <-. split; [reflexivity|]. exists sid.
    split; [exact ES|]. split; [apply Nat.eqb_neq; exact E0 | apply Z.ltb_ge; exact ET].
  - intros [EL [sid [ES [E0 ET]]]]. rewrite EL, ES.
    apply Nat.eqb_neq in E0. rewrite E0. apply Z.ltb_ge in ET. rewrite ET. reflexivity.
Qed.

(* what is wrong with the request when the common factory throws the parameter exception of type e *)
Definition common_defect (rs : str -> option (option nat)) (so : nat -> nat) (q : list (key * str)) (e : nat) : Prop :=
  (e = E_INVALID_NUMERICAL_DATA /\
     exists k v, In (k, v) q /\ is_numeric_key k = true /\ stoi v = None) \/
  (e = E_MISSING_SCENARIO /\ forall v sid, In (KScenario, v) q -> rs v <> Some (Some sid)) \/
  (e = E_EMPTY_SCENARIO /\
     exists v sid, In (KScenario, v) q /\ rs v = Some (Some sid) /\ so sid = 0%nat) \/
  (e = E_MISSING_TIME_OF_TRIP /\
     ((forall v, ~ In (KTime, v) q) \/ exists v x, In (KTime, v) q /\ stoi v = Some x /\ x < 0)).

Lemma create_common_err : forall rs so q e, create_common rs so q = PErr e -> common_defect rs so q e.
Proof.
  intros rs so q e H. unfold create_common in H. unfold common_defect.
  destruct (common_loop rs q common_default) as [c|e1|] eqn:EL; try discriminate H.
  - destruct (cm_scen c) as [sid|] eqn:ES.
    + destruct (Nat.eqb (so sid) 0) eqn:E0.
      * injection H as <-. right. right. left. split; [reflexivity|].
        destruct (common_loop_scen_some _ _ _ _ _ EL ES) as [Hd | [v [Hin Hv]]]; [discriminate Hd|].
        exists v, sid. split; [exact Hin|]. split; [exact Hv | apply Nat.eqb_eq; exact E0].
      * destruct (cm_time c <? 0) eqn:ET; [|discriminate H].
        injection H as <-. right. right. right. split; [reflexivity|].
        apply Z.ltb_lt in ET.
        destruct (in_dec key_eq_dec KTime (map fst q)) as [Hin | Hnin].
        -- right. apply in_map_fst_iff in Hin.
           destruct (common_loop_field_bound _ _ _ _ KTime EL eq_refl Hin) as [v [x [H1 [H2 H3]]]].
           exists v, x. split; [exact H1|]. split; [exact H2|].
           cbn [field_of norm] in H3. rewrite H3 in ET.
           destruct (x <? 0) eqn:Ex; [apply Z.ltb_lt; exact Ex|].
           apply Z.ltb_ge in Ex. lia.
        -- left. intros v Hv. apply Hnin. apply in_map_fst_iff. exists v. exact Hv.
    + injection H as <-. right. left. split; [reflexivity|].
      exact (proj2 (common_loop_scen_none _ _ _ _ EL ES)).
  - injection H as <-. left. exact (common_loop_err _ _ _ _ EL).
Qed.

Lemma create_common_exn : forall rs so q, create_common rs so q = PExn ->
  exists v, In (KScenario, v) q /\ rs v = None.
Proof.
  intros rs so q H. unfold create_common in H.
  destruct (common_loop rs q common_default) as [c|e1|] eqn:EL; try discriminate H.
  - destruct (cm_scen c) as [sid|]; [|discriminate H].
    destruct (Nat.eqb (so sid) 0); [discriminate H|].
    destruct (cm_time c <? 0); discriminate H.
  - exact (common_loop_exn _ _ _ EL).
Qed.

Lemma create_route_ok : forall rs so q cm alt,
  create_route rs so q = POk (cm, alt) <->
  route_loop3 q (false, false, false) = POk (true, true, alt) /\ create_common rs so q = POk cm.
Proof.
  intros rs so q cm alt. unfold create_route, route_loop3. split.
  - intro H. destruct (route_loop q false false false) as [[[o d] a]| |]; try discriminate H.
    destruct o; cbn [negb] in H; [|discriminate H].
    destruct d; cbn [negb] in H; [|discriminate H].
    destruct (create_common rs so q) as [c| |]; try discriminate H.
    injection H as <- <-. split; reflexivity.
  - intros [-> ->]. reflexivity.
Qed.

Lemma create_route_err : forall rs so q e, create_route rs so q = PErr e ->
  (e = E_INVALID_ORIGIN /\ exists v, In (KOrigin, v) q /\ point_ok v = false) \/
  (e = E_INVALID_DESTINATION /\ exists v, In (KDestination, v) q /\ point_ok v = false) \/
  (e = E_MISSING_ORIGIN /\ forall v, ~ In (KOrigin, v) q) \/
  (e = E_MISSING_DESTINATION /\ forall v, ~ In (KDestination, v) q) \/
  common_defect rs so q e.
Proof.
  intros rs so q e H. unfold create_route in H.
  change (route_loop q false false false) with (route_loop3 q (false, false, false)) in H.
  destruct (route_loop3 q (false, false, false)) as [[[o d] a]|e1|] eqn:ER.
  - destruct (route_loop_ok _ _ _ _ _ _ _ ER) as [Ho Hd].
    destruct o; cbn [negb] in H.
    + destruct d; cbn [negb] in H.
      * destruct (create_common rs so q) as [c|e2|] eqn:EC; try discriminate H.
        injection H as <-. right. right. right. right. exact (create_common_err _ _ _ _ EC).
      * injection H as <-. right. right. right. left. split; [reflexivity|]. exact (proj2 (Hd eq_refl)).
    + injection H as <-. right. right. left. split; [reflexivity|]. exact (proj2 (Ho eq_refl)).
  - injection H as <-. destruct (route_loop_err _ _ _ ER) as [He | He]; [left | right; left]; exact He.
  - discriminate H.
Qed.

Lemma create_route_exn : forall rs so q, create_route rs so q = PExn ->
  exists v, In (KScenario, v) q /\ rs v = None.
Proof.
  intros rs so q H. unfold create_route in H.
  change (route_loop q false false false) with (route_loop3 q (false, false, false)) in H.
  destruct (route_loop3 q (false, false, false)) as [[[o d] a]|e1|] eqn:ER.
  - destruct o; cbn [negb] in H; [|discriminate H].
    destruct d; cbn [negb] in H; [|discriminate H].
    destruct (create_common rs so q) as [c|e2|] eqn:EC; try discriminate H.
    exact (create_common_exn _ _ _ EC).
  - discriminate H.
  - exfalso. exact (route_loop_no_exn _ _ ER).
Qed.

Lemma create_access_ok : forall rs so q cm,
  create_access rs so q = POk cm <-> place_loop q false = POk true /\ create_common rs so q = POk cm.
Proof.
  intros rs so q cm. unfold create_access. split.
  - intro H. destruct (place_loop q false) as [p| |]; try discriminate H.
    destruct p; cbn [negb] in H; [|discriminate H]. split; [reflexivity | exact H].
  - intros [-> H]. exact H.
Qed.

Lemma create_access_err : forall rs so q e, create_access rs so q = PErr e ->
  (e = E_INVALID_PLACE /\ exists v, In (KPlace, v) q /\ point_ok v = false) \/
  (e = E_MISSING_PLACE /\ forall v, ~ In (KPlace, v) q) \/
  common_defect rs so q e.
Proof.
  intros rs so q e H. unfold create_access in H.
  destruct (place_loop q false) as [p|e1|] eqn:EP.
  - destruct p; cbn [negb] in H.
    + right. right. exact (create_common_err _ _ _ _ H).
    + injection H as <-. right. left. split; [reflexivity|].
      exact (proj2 (place_loop_ok _ _ _ EP eq_refl)).
  - injection H as <-. left. exact (place_loop_err _ _ _ EP).
  - discriminate H.
Qed.

Lemma create_access_exn : forall rs so q, create_access rs so q = PExn ->
  exists v, In (KScenario, v) q /\ rs v = None.
Proof.
  intros rs so q H. unfold create_access in H.
  destruct (place_loop q false) as [p|e1|] eqn:EP.
  - destruct p; cbn [negb] in H; [|discriminate H]. exact (create_common_exn _ _ _ H).
  - discriminate H.
  - exfalso. exact (place_loop_no_exn _ _ EP).
Qed.

(* ================================================================================================ *)
(* 5. handlers: totality and shape of the answer                                                    *)

Theorem C18_total_route : forall rs so ct status q,
  exists code b, handle_route rs so ct status q = Http code b /\
    (code = 200%nat \/ code = 400%nat) /\
    (code = 400%nat <-> exists c, b = BQueryError c) /\
    (status <> 0%nat -> b = BDataError status /\ code = 200%nat) /\
    (status = 0%nat -> code = 200%nat -> exists cm alt, b = BAnswer 0 cm alt).
Proof.
  intros rs so ct status q. unfold handle_route.
  destruct (Nat.eqb status 0) eqn:Es; cbn [negb].
  - apply Nat.eqb_eq in Es.
    destruct (create_route rs so q) as [[cm alt]|e|].
    + destruct (ct cm alt).
      * eexists. eexists. split; [reflexivity|].
        split; [right; reflexivity|]. split; [split; [intros _; eexists; reflexivity | reflexivity]|].
        split; [intro Hs; contradiction | intros _ Hc; discriminate Hc].
      * eexists. eexists. split; [reflexivity|].
        split; [left; reflexivity|].
        split; [split; [intro Hc; discriminate Hc | intros [c Hc]; discriminate Hc]|].
        split; [intro Hs; contradiction | intros _ _; exists cm, alt; reflexivity].
    + eexists. eexists. split; [reflexivity|].
      split; [right; reflexivity|]. split; [split; [intros _; eexists; reflexivity | reflexivity]|].
      split; [intro Hs; contradiction | intros _ Hc; discriminate Hc].
    + eexists. eexists. split; [reflexivity|].
      split; [right; reflexivity|]. split; [split; [intros _; eexists; reflexivity | reflexivity]|].
      split; [intro Hs; contradiction | intros _ Hc; discriminate Hc].
  - apply Nat.eqb_neq in Es. eexists. eexists. split; [reflexivity|].
    split; [left; reflexivity|].
    split; [split; [intro Hc; discriminate Hc | intros [c Hc]; discriminate Hc]|].
    split; [intros _; split; reflexivity | intro Hs; contradiction].
Qed.

Theorem C18_total_access : forall rs so ct status q,
  exists code b, handle_access rs so ct status q = Http code b /\
    (code = 200%nat \/ code = 400%nat) /\
    (code = 400%nat <-> exists c, b = BQueryError c) /\
    (status <> 0%nat -> b = BDataError status /\ code = 200%nat) /\
    (status = 0%nat -> code = 200%nat -> exists cm, b = BAnswer 1 cm false).
Proof.
  intros rs so ct status q. unfold handle_access.
  destruct (Nat.eqb status 0) eqn:Es; cbn [negb].
  - apply Nat.eqb_eq in Es.
    destruct (create_access rs so q) as [cm|e|].
    + destruct (ct cm false).
      * eexists. eexists. split; [reflexivity|].
        split; [right; reflexivity|]. split; [split; [intros _; eexists; reflexivity | reflexivity]|].
        split; [intro Hs; contradiction | intros _ Hc; discriminate Hc].
      * eexists. eexists. split; [reflexivity|].
        split; [left; reflexivity|].
        split; [split; [intro Hc; discriminate Hc | intros [c Hc]; discriminate Hc]|].
        split; [intro Hs; contradiction | intros _ _; exists cm; reflexivity].
    + eexists. eexists. split; [reflexivity|].
      split; [right; reflexivity|]. split; [split; [intros _; eexists; reflexivity | reflexivity]|].
      split; [intro Hs; contradiction | intros _ Hc; discriminate Hc].
    + eexists. eexists. split; [reflexivity|].
      split; [right; reflexivity|]. split; [split; [intros _; eexists; reflexivity | reflexivity]|].
      split; [intro Hs; contradiction | intros _ Hc; discriminate Hc].
  - apply Nat.eqb_neq in Es. eexists. eexists. split; [reflexivity|].
    split; [left; reflexivity|].
    split; [split; [intro Hc; discriminate Hc | intros [c Hc]; discriminate Hc]|].
    split; [intros _; split; reflexivity | intro Hs; contradiction].
Qed.

(* ================================================================================================ *)
(* 6. handlers: every error code names a defect that is present in the request                      *)

Definition route_defect (rs : str -> option (option nat)) (so : nat -> nat) (ct : common -> bool -> bool)
    (q : list (key * str)) (c : errcode) : Prop :=
  match c with
  | C_MISSING_PARAM_ORIGIN => forall v, ~ In (KOrigin, v) q
  | C_MISSING_PARAM_DESTINATION => forall v, ~ In (KDestination, v) q
  | C_INVALID_ORIGIN => exists v, In (KOrigin, v) q /\ point_ok v = false
  | C_INVALID_DESTINATION => exists v, In (KDestination, v) q /\ point_ok v = false
  | C_INVALID_NUMERICAL_DATA => exists k v, In (k, v) q /\ is_numeric_key k = true /\ stoi v = None
  | C_MISSING_PARAM_SCENARIO => forall v sid, In (KScenario, v) q -> rs v <> Some (Some sid)
  | C_EMPTY_SCENARIO => exists v sid, In (KScenario, v) q /\ rs v = Some (Some sid) /\ so sid = 0%nat
  | C_MISSING_PARAM_TIME_OF_TRIP =>
      (forall v, ~ In (KTime, v) q) \/ exists v x, In (KTime, v) q /\ stoi v = Some x /\ x < 0
  | C_PARAM_ERROR_UNKNOWN =>
      (exists v, In (KScenario, v) q /\ rs v = None) \/
      exists cm alt, create_route rs so q = POk (cm, alt) /\ ct cm alt = true
  | C_MISSING_PARAM_PLACE | C_INVALID_PLACE => False
  end.

Definition access_defect (rs : str -> option (option nat)) (so : nat -> nat) (ct : common -> bool -> bool)
    (q : list (key * str)) (c : errcode) : Prop :=
  match c with
  | C_MISSING_PARAM_PLACE => forall v, ~ In (KPlace, v) q
  | C_INVALID_PLACE => exists v, In (KPlace, v) q /\ point_ok v = false
  | C_INVALID_NUMERICAL_DATA => exists k v, In (k, v) q /\ is_numeric_key k = true /\ stoi v = None
  | C_MISSING_PARAM_SCENARIO => forall v sid, In (KScenario, v) q -> rs v <> Some (Some sid)
  | C_EMPTY_SCENARIO => exists v sid, In (KScenario, v) q /\ rs v = Some (Some sid) /\ so sid = 0%nat
  | C_MISSING_PARAM_TIME_OF_TRIP =>
      (forall v, ~ In (KTime, v) q) \/ exists v x, In (KTime, v) q /\ stoi v = Some x /\ x < 0
  | C_PARAM_ERROR_UNKNOWN =>
      (exists v, In (KScenario, v) q /\ rs v = None) \/
      exists cm, create_access rs so q = POk cm /\ ct cm false = true
  | C_MISSING_PARAM_ORIGIN | C_MISSING_PARAM_DESTINATION | C_INVALID_ORIGIN | C_INVALID_DESTINATION => False
  end.

Lemma route_defect_common : forall rs so ct q e,
  common_defect rs so q e -> route_defect rs so ct q (response_code e).
Proof.
  intros rs so ct q e H. destruct H as [[-> H] | [[-> H] | [[-> H] | [-> H]]]]; exact H.
Qed.

Lemma access_defect_common : forall rs so ct q e,
  common_defect rs so q e -> access_defect rs so ct q (response_code e).
Proof.
  intros rs so ct q e H. destruct H as [[-> H] | [[-> H] | [[-> H] | [-> H]]]]; exact H.
Qed.

Theorem C18_class_route : forall rs so ct q c,
  handle_route rs so ct 0 q = Http 400 (BQueryError c) -> route_defect rs so ct q c.
Proof.
  intros rs so ct q c H. unfold handle_route in H. cbn [Nat.eqb negb] in H.
  destruct (create_route rs so q) as [[cm alt]|e|] eqn:EC.
  - destruct (ct cm alt) eqn:Et; [|discriminate H]. injection H as <-.
    right. exists cm, alt. split; [exact EC | exact Et].
  - injection H as <-.
    destruct (create_route_err _ _ _ _ EC) as [[-> H] | [[-> H] | [[-> H] | [[-> H] | H]]]];
      try exact H.
    apply route_defect_common. exact H.
  - injection H as <-. left. exact (create_route_exn _ _ _ EC).
Qed.

Theorem C18_class_access : forall rs so ct q c,
  handle_access rs so ct 0 q = Http 400 (BQueryError c) -> access_defect rs so ct q c.
Proof.
  intros rs so ct q c H. unfold handle_access in H. cbn [Nat.eqb negb] in H.
  destruct (create_access rs so q) as [cm|e|] eqn:EC.
  - destruct (ct cm false) eqn:Et; [|discriminate H]. injection H as <-.
    right. exists cm. split; [exact EC | exact Et].
  - injection H as <-.
    destruct (create_access_err _ _ _ _ EC) as [[-> H] | [[-> H] | H]]; try exact H.
    apply access_defect_common. exact H.
  - injection H as <-. left. exact (create_access_exn _ _ _ EC).
Qed.

(* the same, item by item *)
Corollary C18_class_route_items : forall rs so ct q c,
  handle_route rs so ct 0 q = Http 400 (BQueryError c) ->
  (c = C_MISSING_PARAM_ORIGIN -> forall v, ~ In (KOrigin, v) q) /\
  (c = C_MISSING_PARAM_DESTINATION -> forall v, ~ In (KDestination, v) q) /\
  (c = C_INVALID_ORIGIN -> exists v, In (KOrigin, v) q /\ point_ok v = false) /\
  (c = C_INVALID_DESTINATION -> exists v, In (KDestination, v) q /\ point_ok v = false) /\
  (c = C_INVALID_NUMERICAL_DATA -> exists k v, In (k, v) q /\ is_numeric_key k = true /\ stoi v = None) /\
  (c = C_MISSING_PARAM_SCENARIO -> forall v sid, In (KScenario, v) q -> rs v <> Some (Some sid)) /\
  (c = C_EMPTY_SCENARIO -> exists v sid, In (KScenario, v) q /\ rs v = Some (Some sid) /\ so sid = 0%nat) /\
  (c = C_MISSING_PARAM_TIME_OF_TRIP ->
     (forall v, ~ In (KTime, v) q) \/ exists v x, In (KTime, v) q /\ stoi v = Some x /\ x < 0) /\
  (c = C_PARAM_ERROR_UNKNOWN ->
     (exists v, In (KScenario, v) q /\ rs v = None) \/
     exists cm alt, create_route rs so q = POk (cm, alt) /\ ct cm alt = true) /\
  c <> C_MISSING_PARAM_PLACE /\ c <> C_INVALID_PLACE.
Proof.
  intros rs so ct q c H. pose proof (C18_class_route _ _ _ _ _ H) as D.
  repeat split; intros ->; exact D.
Qed.

Corollary C18_class_access_items : forall rs so ct q c,
  handle_access rs so ct 0 q = Http 400 (BQueryError c) ->
  (c = C_MISSING_PARAM_PLACE -> forall v, ~ In (KPlace, v) q) /\
  (c = C_INVALID_PLACE -> exists v, In (KPlace, v) q /\ point_ok v = false) /\
  (c = C_INVALID_NUMERICAL_DATA -> exists k v, In (k, v) q /\ is_numeric_key k = true /\ stoi v = None) /\
  (c = C_MISSING_PARAM_SCENARIO -> forall v sid, In (KScenario, v) q -> rs v <> Some (Some sid)) /\
  (c = C_EMPTY_SCENARIO -> exists v sid, In (KScenario, v) q /\ rs v = Some (Some sid) /\ so sid = 0%nat) /\
  (c = C_MISSING_PARAM_TIME_OF_TRIP ->
     (forall v, ~ In (KTime, v) q) \/ exists v x, In (KTime, v) q /\ stoi v = Some x /\ x < 0) /\
  (c = C_PARAM_ERROR_UNKNOWN ->
     (exists v, In (KScenario, v) q /\ rs v = None) \/
     exists cm, create_access rs so q = POk cm /\ ct cm false = true) /\
  c <> C_MISSING_PARAM_ORIGIN /\ c <> C_MISSING_PARAM_DESTINATION /\
  c <> C_INVALID_ORIGIN /\ c <> C_INVALID_DESTINATION.
Proof.
  intros rs so ct q c H. pose proof (C18_class_access _ _ _ _ _ H) as D.
  repeat split; intros ->; exact D.
Qed.

(* ---- the success case: the echoed parameters are the parsed ones and lie in their ranges ---- *)
Definition params_ok (so : nat -> nat) (cm : common) : Prop :=
  0 <= cm_time cm <= MAX_INT /\ 0 <= cm_minw cm <= MAX_INT /\
  0 < cm_maxtt cm <= MAX_INT /\ 0 < cm_maxacc cm <= MAX_INT /\ 0 < cm_maxegr cm <= MAX_INT /\
  0 < cm_maxtr cm <= MAX_INT /\
  ((cm_maxfw cm = -1 \/ 0 < cm_maxfw cm) /\ cm_maxfw cm <= MAX_INT) /\
  exists sid, cm_scen cm = Some sid /\ so sid <> 0%nat.

Lemma create_common_params_ok : forall rs so q cm, create_common rs so q = POk cm -> params_ok so cm.
Proof.
  intros rs so q cm H. apply create_common_ok in H. destruct H as [EL [sid [ES [E0 ET]]]].
  pose proof (common_loop_limits _ _ _ _ EL limits_default) as L.
  unfold limits_ok in L. destruct L as [L1 [L2 [L3 [L4 [L5 [L6 L7]]]]]].
  unfold params_ok. repeat split; try tauto; try lia.
  exists sid. split; assumption.
Qed.

Theorem C18_success_route : forall rs so ct q cm alt,
  handle_route rs so ct 0 q = Http 200 (BAnswer 0 cm alt) ->
  create_route rs so q = POk (cm, alt) /\ ct cm alt = false /\
  0 <= cm_time cm /\ 0 <= cm_minw cm /\ 0 < cm_maxtt cm /\ 0 < cm_maxacc cm /\ 0 < cm_maxegr cm /\
  0 < cm_maxtr cm /\ (cm_maxfw cm = -1 \/ 0 < cm_maxfw cm) /\
  (exists sid, cm_scen cm = Some sid /\ so sid <> 0%nat) /\
  params_ok so cm.
Proof.
  intros rs so ct q cm alt H. unfold handle_route in H. cbn [Nat.eqb negb] in H.
  destruct (create_route rs so q) as [[cm' alt']|e|] eqn:EC; try discriminate H.
  destruct (ct cm' alt') eqn:Et; [discriminate H|]. injection H as <- <-.
  split; [reflexivity|]. split; [exact Et|].
  apply create_route_ok in EC. destruct EC as [_ EC].
  pose proof (create_common_params_ok _ _ _ _ EC) as P.
  assert (P' := P). unfold params_ok in P'.
  destruct P' as [P1 [P2 [P3 [P4 [P5 [P6 [[P7 _] P8]]]]]]].
  split; [lia|]. split; [lia|]. split; [lia|]. split; [lia|]. split; [lia|]. split; [lia|].
  split; [exact P7|]. split; [exact P8 | exact P].
Qed.

Theorem C18_success_access : forall rs so ct q cm alt,
  handle_access rs so ct 0 q = Http 200 (BAnswer 1 cm alt) ->
  alt = false /\ create_access rs so q = POk cm /\ ct cm false = false /\
  0 <= cm_time cm /\ 0 <= cm_minw cm /\ 0 < cm_maxtt cm /\ 0 < cm_maxacc cm /\ 0 < cm_maxegr cm /\
  0 < cm_maxtr cm /\ (cm_maxfw cm = -1 \/ 0 < cm_maxfw cm) /\
  (exists sid, cm_scen cm = Some sid /\ so sid <> 0%nat) /\
  params_ok so cm.
Proof.
  intros rs so ct q cm alt H. unfold handle_access in H. cbn [Nat.eqb negb] in H.
  destruct (create_access rs so q) as [cm'|e|] eqn:EC; try discriminate H.
  destruct (ct cm' false) eqn:Et; [discriminate H|]. injection H as <- <-.
  split; [reflexivity|]. split; [reflexivity|]. split; [exact Et|].
  apply create_access_ok in EC. destruct EC as [_ EC].
  pose proof (create_common_params_ok _ _ _ _ EC) as P.
  assert (P' := P). unfold params_ok in P'.
  destruct P' as [P1 [P2 [P3 [P4 [P5 [P6 [[P7 _] P8]]]]]]].
  split; [lia|]. split; [lia|]. split; [lia|]. split; [lia|]. split; [lia|]. split; [lia|].
  split; [exact P7|]. split; [exact P8 | exact P].
Qed.

(* and conversely: a request without any of the defects is answered *)
Theorem C18_answer_route : forall rs so ct q cm alt,
  create_route rs so q = POk (cm, alt) -> ct cm alt = false ->
  handle_route rs so ct 0 q = Http 200 (BAnswer 0 cm alt).
Proof.
  intros rs so ct q cm alt EC Et. unfold handle_route. cbn [Nat.eqb negb]. rewrite EC, Et. reflexivity.
Qed.

Theorem C18_answer_access : forall rs so ct q cm,
  create_access rs so q = POk cm -> ct cm false = false ->
  handle_access rs so ct 0 q = Http 200 (BAnswer 1 cm false).
Proof.
  intros rs so ct q cm EC Et. unfold handle_access. cbn [Nat.eqb negb]. rewrite EC, Et. reflexivity.
Qed.

(* ================================================================================================ *)
(* 7. defaults and normalisation                                                                    *)

(* a numeric key that does not occur leaves its field at the default *)
Theorem C18_defaults : forall rs q cm k,
  common_loop rs q common_default = POk cm -> (forall v, ~ In (k, v) q) ->
  field_of k cm = field_of k common_default.
Proof. intros rs q cm k H Hno. exact (common_loop_field_absent _ _ _ _ _ H Hno). Qed.

Theorem C18_default_fwd : forall rs q cm,
  common_loop rs q common_default = POk cm -> (forall v, ~ In (KTimeType, v) q) -> cm_fwd cm = true.
Proof. intros rs q cm H Hno. exact (common_loop_fwd_absent _ _ _ _ H Hno). Qed.

Theorem C18_default_scen : forall rs q cm,
  common_loop rs q common_default = POk cm -> (forall v, ~ In (KScenario, v) q) -> cm_scen cm = None.
Proof.
  intros rs q cm H Hno. destruct (cm_scen cm) as [sid|] eqn:ES; [|reflexivity].
  destruct (common_loop_scen_some _ _ _ _ _ H ES) as [Hd | [v [Hin _]]].
  - discriminate Hd.
  - exfalso. exact (Hno v Hin).
Qed.

(* the same, field by field, for the factories' use of the loop *)
Corollary C18_defaults_items : forall rs q cm,
  common_loop rs q common_default = POk cm ->
  ((forall v, ~ In (KTime, v) q) -> cm_time cm = -1) /\
  ((forall v, ~ In (KMinWait, v) q) -> cm_minw cm = GEN_DEFAULT_MIN_WAITING_TIME) /\
  ((forall v, ~ In (KMaxTT, v) q) -> cm_maxtt cm = MAX_INT) /\
  ((forall v, ~ In (KMaxAcc, v) q) -> cm_maxacc cm = GEN_DEFAULT_MAX_ACCESS_TRAVEL_TIME) /\
  ((forall v, ~ In (KMaxEgr, v) q) -> cm_maxegr cm = GEN_DEFAULT_MAX_EGRESS_TRAVEL_TIME) /\
  ((forall v, ~ In (KMaxTr, v) q) -> cm_maxtr cm = GEN_DEFAULT_MAX_TRANSFER_TRAVEL_TIME) /\
  ((forall v, ~ In (KMaxFW, v) q) -> cm_maxfw cm = GEN_DEFAULT_FIRST_WAITING_TIME) /\
  ((forall v, ~ In (KTimeType, v) q) -> cm_fwd cm = true) /\
  ((forall v, ~ In (KScenario, v) q) -> cm_scen cm = None).
Proof.
  intros rs q cm H.
  split; [exact (C18_defaults rs q cm KTime H)|].
  split; [exact (C18_defaults rs q cm KMinWait H)|].
  split; [exact (C18_defaults rs q cm KMaxTT H)|].
  split; [exact (C18_defaults rs q cm KMaxAcc H)|].
  split; [exact (C18_defaults rs q cm KMaxEgr H)|].
  split; [exact (C18_defaults rs q cm KMaxTr H)|].
  split; [exact (C18_defaults rs q cm KMaxFW H)|].
  split; [exact (C18_default_fwd rs q cm H) | exact (C18_default_scen rs q cm H)].
Qed.

(* the parameters of a successful factory call are those of the loop started at the defaults *)
Lemma create_route_common_loop : forall rs so q cm alt,
  create_route rs so q = POk (cm, alt) -> common_loop rs q common_default = POk cm.
Proof.
  intros rs so q cm alt H. apply create_route_ok in H. destruct H as [_ H].
  apply create_common_ok in H. exact (proj1 H).
Qed.

Lemma create_access_common_loop : forall rs so q cm,
  create_access rs so q = POk cm -> common_loop rs q common_default = POk cm.
Proof.
  intros rs so q cm H. apply create_access_ok in H. destruct H as [_ H].
  apply create_common_ok in H. exact (proj1 H).
Qed.

(* with repeated keys the LAST occurrence in iteration order decides *)
Theorem C18_last_wins : forall rs q1 k v q2 c cm,
  common_loop rs (q1 ++ (k, v) :: q2) c = POk cm -> is_numeric_key k = true ->
  (forall v', ~ In (k, v') q2) ->
  exists x, stoi v = Some x /\ field_of k cm = norm k x.
Proof.
  intros rs q1 k v q2 c cm H Hn Hno. rewrite common_loop_app in H.
  destruct (common_loop rs q1 c) as [c1| |]; cbn [pbind] in H; try discriminate H.
  rewrite common_loop_cons in H.
  destruct (cstep rs k v c1) as [c2| |] eqn:E; cbn [pbind] in H; try discriminate H.
  apply cstep_ok in E.
  destruct E as [[_ [x [Hx ->]]] | [[-> _] | [[-> _] | [Hf _]]]];
    try discriminate Hn; [|rewrite Hn in Hf; discriminate Hf].
  exists x. split; [exact Hx|].
  rewrite (common_loop_field_absent rs q2 _ cm k H Hno). apply set_field_same. exact Hn.
Qed.

(* order-independent form: if all bindings of a numeric key satisfy P, the field is the normalised value
   of a number satisfying P *)
Lemma common_loop_field_all : forall rs q c cm k (P : Z -> Prop),
  common_loop rs q c = POk cm -> is_numeric_key k = true -> (exists v, In (k, v) q) ->
  (forall v x, In (k, v) q -> stoi v = Some x -> P x) ->
  exists x, P x /\ field_of k cm = norm k x.
Proof.
  intros rs q c cm k P H Hn Hex Hall.
  destruct (common_loop_field_bound _ _ _ _ _ H Hn Hex) as [v [x [H1 [H2 H3]]]].
  exists x. split; [exact (Hall v x H1 H2) | exact H3].
Qed.

Lemma norm_nonpos_max : forall k x, x <= 0 ->
  (k = KMaxTT \/ k = KMaxAcc \/ k = KMaxEgr \/ k = KMaxTr -> norm k x = MAX_INT) /\
  (k = KMaxFW -> norm k x = -1).
Proof.
  intros k x Hx. apply Z.leb_le in Hx. split.
  - intros [-> | [-> | [-> | ->]]]; cbn [norm]; rewrite Hx; reflexivity.
  - intros ->. cbn [norm]. rewrite Hx. reflexivity.
Qed.

(* "0 or negative means unlimited" (and -1 = no first-waiting limit, 0 = no minimum waiting, -1 = no time) *)
Theorem C18_norm : forall rs q c cm,
  common_loop rs q c = POk cm ->
  ((exists v, In (KMaxTT, v) q) -> (forall v x, In (KMaxTT, v) q -> stoi v = Some x -> x <= 0) ->
     cm_maxtt cm = MAX_INT) /\
  ((exists v, In (KMaxAcc, v) q) -> (forall v x, In (KMaxAcc, v) q -> stoi v = Some x -> x <= 0) ->
     cm_maxacc cm = MAX_INT) /\
  ((exists v, In (KMaxEgr, v) q) -> (forall v x, In (KMaxEgr, v) q -> stoi v = Some x -> x <= 0) ->
     cm_maxegr cm = MAX_INT) /\
  ((exists v, In (KMaxTr, v) q) -> (forall v x, In (KMaxTr, v) q -> stoi v = Some x -> x <= 0) ->
     cm_maxtr cm = MAX_INT) /\
  ((exists v, In (KMaxFW, v) q) -> (forall v x, In (KMaxFW, v) q -> stoi v = Some x -> x <= 0) ->
     cm_maxfw cm = -1) /\
  ((exists v, In (KMinWait, v) q) -> (forall v x, In (KMinWait, v) q -> stoi v = Some x -> x < 0) ->
     cm_minw cm = 0) /\
  ((exists v, In (KTime, v) q) -> (forall v x, In (KTime, v) q -> stoi v = Some x -> x < 0) ->
     cm_time cm = -1).
Proof.
  intros rs q c cm H.
  split; [|split; [|split; [|split; [|split; [|split]]]]]; intros Hex Hall.
  - destruct (common_loop_field_all _ _ _ _ KMaxTT _ H eq_refl Hex Hall) as [x [Hx E]].
    cbn [field_of] in E. rewrite E. apply (norm_nonpos_max KMaxTT x Hx). left. reflexivity.
  - destruct (common_loop_field_all _ _ _ _ KMaxAcc _ H eq_refl Hex Hall) as [x [Hx E]].
    cbn [field_of] in E. rewrite E. apply (norm_nonpos_max KMaxAcc x Hx). right. left. reflexivity.
  - destruct (common_loop_field_all _ _ _ _ KMaxEgr _ H eq_refl Hex Hall) as [x [Hx E]].
    cbn [field_of] in E. rewrite E. apply (norm_nonpos_max KMaxEgr x Hx). right. right. left. reflexivity.
  - destruct (common_loop_field_all _ _ _ _ KMaxTr _ H eq_refl Hex Hall) as [x [Hx E]].
    cbn [field_of] in E. rewrite E. apply (norm_nonpos_max KMaxTr x Hx). right. right. right. reflexivity.
  - destruct (common_loop_field_all _ _ _ _ KMaxFW _ H eq_refl Hex Hall) as [x [Hx E]].
    cbn [field_of] in E. rewrite E. apply (norm_nonpos_max KMaxFW x Hx). reflexivity.
  - destruct (common_loop_field_all _ _ _ _ KMinWait _ H eq_refl Hex Hall) as [x [Hx E]].
    cbn [field_of norm] in E. rewrite E. apply Z.ltb_lt in Hx. rewrite Hx. reflexivity.
  - destruct (common_loop_field_all _ _ _ _ KTime _ H eq_refl Hex Hall) as [x [Hx E]].
    cbn [field_of norm] in E. rewrite E. apply Z.ltb_lt in Hx. rewrite Hx. reflexivity.
Qed.

Lemma nodup_fst_unique : forall (q : list (key * str)) k v v',
  NoDup (map fst q) -> In (k, v) q -> In (k, v') q -> v = v'.
Proof.
  induction q as [|[k0 v0] r IH]; intros k v v' ND H1 H2.
  - destruct H1.
  - cbn [map fst] in ND. inversion ND as [|a l Hnin ND' Eq]. subst a l.
    destruct H1 as [E1 | H1]; destruct H2 as [E2 | H2].
    + injection E1 as _ <-. injection E2 as _ <-. reflexivity.
    + injection E1 as -> _. exfalso. apply Hnin. apply in_map_fst_iff. exists v'. exact H2.
    + injection E2 as -> _. exfalso. apply Hnin. apply in_map_fst_iff. exists v. exact H1.
    + exact (IH k v v' ND' H1 H2).
Qed.

Lemma norm_pos : forall k x, is_numeric_key k = true -> 0 < x -> norm k x = x.
Proof.
  intros k x Hn Hx.
  assert (E1 : (x <? 0) = false) by (apply Z.ltb_ge; lia).
  assert (E2 : (x <=? 0) = false) by (apply Z.leb_gt; lia).
  destruct k; try discriminate Hn; cbn [norm]; rewrite ?E1, ?E2; reflexivity.
Qed.

(* without repeated keys every numeric field is the normalised value of its binding; a positive number
   is taken as it is *)
Theorem C18_nodup_value : forall rs q c cm k v x,
  common_loop rs q c = POk cm -> NoDup (map fst q) -> In (k, v) q ->
  is_numeric_key k = true -> stoi v = Some x ->
  field_of k cm = norm k x /\ (0 < x -> field_of k cm = x) /\
  (0 <= x -> k = KTime \/ k = KMinWait -> field_of k cm = x).
Proof.
  intros rs q c cm k v x H ND Hin Hn Hx.
  destruct (common_loop_field_bound _ _ _ _ k H Hn (ex_intro _ v Hin)) as [v' [x' [H1 [H2 H3]]]].
  assert (Ev : v = v') by exact (nodup_fst_unique _ _ _ _ ND Hin H1). subst v'.
  rewrite Hx in H2. injection H2 as <-.
  split; [exact H3|]. split.
  - intro Hp. rewrite H3. apply norm_pos; assumption.
  - intros Hp Hk. rewrite H3.
    assert (E1 : (x <? 0) = false) by (apply Z.ltb_ge; lia).
    destruct Hk as [-> | ->]; cbn [norm]; rewrite E1; reflexivity.
Qed.

(* ================================================================================================ *)
(* 8. order independence of successful parses                                                       *)

Lemma common_loop_perm : forall rs q q', Permutation q q' -> NoDup (map fst q) ->
  forall c cm, common_loop rs q c = POk cm -> common_loop rs q' c = POk cm.
Proof.
  intros rs q q' HP. induction HP as [|[k v] l l' HP IH|[k2 v2] [k1 v1] l|l l' l'' HP1 IH1 HP2 IH2];
    intros ND c cm H.
  - exact H.
  - rewrite common_loop_cons in *.
    destruct (cstep rs k v c) as [c1| |]; cbn [pbind] in *; try discriminate H.
    apply IH; [|exact H]. cbn [map] in ND. inversion ND; assumption.
  - (* perm_swap: the list is (k1,v1) :: (k2,v2) :: l and becomes (k2,v2) :: (k1,v1) :: l *)
    assert (Hne : k1 <> k2).
    { cbn [map fst] in ND. apply NoDup_cons_iff in ND. destruct ND as [Hnin _].
      intro Heq. apply Hnin. left. symmetry. exact Heq. }
    rewrite !common_loop_cons in *.
    destruct (cstep rs k1 v1 c) as [c1| |] eqn:E1; cbn [pbind] in H; try discriminate H.
    rewrite common_loop_cons in H.
    destruct (cstep rs k2 v2 c1) as [c2| |] eqn:E2; cbn [pbind] in H; try discriminate H.
    destruct (cstep_swap _ _ _ _ _ _ _ _ Hne E1 E2) as [c1' [S1 S2]].
    rewrite S1. cbn [pbind]. rewrite common_loop_cons. rewrite S2. cbn [pbind]. exact H.
  - apply IH2.
    + eapply Permutation_NoDup; [apply Permutation_map; exact HP1 | exact ND].
    + apply IH1; assumption.
Qed.

(* the route and place loops do not even need NoDup: a present key sets a flag, alternatives are or-ed *)
Lemma route_loop_perm : forall q q', Permutation q q' ->
  forall st st', route_loop3 q st = POk st' -> route_loop3 q' st = POk st'.
Proof.
  intros q q' HP. induction HP as [|[k v] l l' HP IH|[k2 v2] [k1 v1] l|l l' l'' HP1 IH1 HP2 IH2];
    intros st st' H.
  - exact H.
  - rewrite route_loop_cons in *.
    destruct (rstep k v st) as [st1| |]; cbn [pbind] in *; try discriminate H.
    apply IH. exact H.
  - rewrite !route_loop_cons in *.
    destruct (rstep k1 v1 st) as [st1| |] eqn:E1; cbn [pbind] in H; try discriminate H.
    rewrite route_loop_cons in H.
    destruct (rstep k2 v2 st1) as [st2| |] eqn:E2; cbn [pbind] in H; try discriminate H.
    destruct (rstep_swap _ _ _ _ _ _ _ E1 E2) as [st1' [S1 S2]].
    rewrite S1. cbn [pbind]. rewrite route_loop_cons. rewrite S2. cbn [pbind]. exact H.
  - apply IH2. apply IH1. exact H.
Qed.

Lemma place_loop_perm : forall q q', Permutation q q' ->
  forall p p', place_loop q p = POk p' -> place_loop q' p = POk p'.
Proof.
  intros q q' HP. induction HP as [|[k v] l l' HP IH|[k2 v2] [k1 v1] l|l l' l'' HP1 IH1 HP2 IH2];
    intros p p' H.
  - exact H.
  - rewrite place_loop_cons in *.
    destruct (pstep k v p) as [p1| |]; cbn [pbind] in *; try discriminate H.
    apply IH. exact H.
  - rewrite !place_loop_cons in *.
    destruct (pstep k1 v1 p) as [p1| |] eqn:E1; cbn [pbind] in H; try discriminate H.
    rewrite place_loop_cons in H.
    destruct (pstep k2 v2 p1) as [p2| |] eqn:E2; cbn [pbind] in H; try discriminate H.
    destruct (pstep_swap _ _ _ _ _ _ _ E1 E2) as [p1' [S1 S2]].
    rewrite S1. cbn [pbind]. rewrite place_loop_cons. rewrite S2. cbn [pbind]. exact H.
  - apply IH2. apply IH1. exact H.
Qed.

Lemma create_common_perm : forall rs so q q' cm, NoDup (map fst q) -> Permutation q q' ->
  create_common rs so q = POk cm -> create_common rs so q' = POk cm.
Proof.
  intros rs so q q' cm ND HP H. apply create_common_ok in H. destruct H as [EL Hrest].
  apply create_common_ok. split; [|exact Hrest].
  exact (common_loop_perm rs q q' HP ND _ _ EL).
Qed.

Theorem C18_order_route : forall rs so q q' x, NoDup (map fst q) -> Permutation q q' ->
  create_route rs so q = POk x -> create_route rs so q' = POk x.
Proof.
  intros rs so q q' [cm alt] ND HP H. apply create_route_ok in H. destruct H as [HR HC].
  apply create_route_ok. split.
  - exact (route_loop_perm q q' HP _ _ HR).
  - exact (create_common_perm rs so q q' cm ND HP HC).
Qed.

Theorem C18_order_access : forall rs so q q' x, NoDup (map fst q) -> Permutation q q' ->
  create_access rs so q = POk x -> create_access rs so q' = POk x.
Proof.
  intros rs so q q' cm ND HP H. apply create_access_ok in H. destruct H as [HR HC].
  apply create_access_ok. split.
  - exact (place_loop_perm q q' HP _ _ HR).
  - exact (create_common_perm rs so q q' cm ND HP HC).
Qed.

(* the 200 answers of the handlers do not depend on the iteration order of the multimap *)
Corollary C18_order_handle_route : forall rs so ct status q q' b, NoDup (map fst q) -> Permutation q q' ->
  handle_route rs so ct status q = Http 200 b -> handle_route rs so ct status q' = Http 200 b.
Proof.
  intros rs so ct status q q' b ND HP H. unfold handle_route in *.
  destruct (negb (Nat.eqb status 0)); [exact H|].
  destruct (create_route rs so q) as [[cm alt]|e|] eqn:EC; try discriminate H.
  rewrite (C18_order_route rs so q q' _ ND HP EC). exact H.
Qed.

Corollary C18_order_handle_access : forall rs so ct status q q' b, NoDup (map fst q) -> Permutation q q' ->
  handle_access rs so ct status q = Http 200 b -> handle_access rs so ct status q' = Http 200 b.
Proof.
  intros rs so ct status q q' b ND HP H. unfold handle_access in *.
  destruct (negb (Nat.eqb status 0)); [exact H|].
  destruct (create_access rs so q) as [cm|e|] eqn:EC; try discriminate H.
  rewrite (C18_order_access rs so q q' _ ND HP EC). exact H.
Qed.

(* ---- the boundaries of the order theorems ---- *)
(* "1,2" "3,4" "0" "5" "7" "x" *)
Definition ex_rs : str -> option (option nat) := fun _ => Some (Some 0%nat).
Definition ex_so : nat -> nat := fun _ => 1%nat.
Definition ex_base : list (key * str) :=
  [(KOrigin, [49; 44; 50]%nat); (KDestination, [51; 44; 52]%nat); (KScenario, [115]%nat); (KTime, [48]%nat)].

(* with a repeated key the result depends on the iteration order: NoDup is necessary *)
Example C18_order_needs_nodup :
  exists c1 c2,
    create_route ex_rs ex_so (ex_base ++ [(KMaxTT, [53]%nat); (KMaxTT, [55]%nat)]) = POk (c1, false) /\
    create_route ex_rs ex_so (ex_base ++ [(KMaxTT, [55]%nat); (KMaxTT, [53]%nat)]) = POk (c2, false) /\
    cm_maxtt c1 = 7 /\ cm_maxtt c2 = 5.
Proof. eexists. eexists. vm_compute. repeat split. Qed.

(* with two invalid values the reported error depends on the iteration order, even without repeated keys:
   only successes are order independent *)
Example C18_order_errors_differ :
  create_route ex_rs ex_so [(KOrigin, [120]%nat); (KDestination, [120]%nat)] = PErr E_INVALID_ORIGIN /\
  create_route ex_rs ex_so [(KDestination, [120]%nat); (KOrigin, [120]%nat)] = PErr E_INVALID_DESTINATION.
Proof. vm_compute. split; reflexivity. Qed.

(* a negative time is reported as a missing time, a malformed one as invalid numerical data *)
Example C18_negative_time_is_missing :
  create_route ex_rs ex_so [(KOrigin, [49; 44; 50]%nat); (KDestination, [51; 44; 52]%nat);
                            (KScenario, [115]%nat); (KTime, [45; 53]%nat)] = PErr E_MISSING_TIME_OF_TRIP.
Proof. vm_compute. reflexivity. Qed.

(* ================================================================================================ *)
Print Assumptions C18_stoi_range.
Print Assumptions C18_stoi_lang.
Print Assumptions C18_stoi_digits.
Print Assumptions C18_stoi_nodigit.
Print Assumptions C18_update.
Print Assumptions C18_total_route.
Print Assumptions C18_total_access.
Print Assumptions C18_class_route.
Print Assumptions C18_class_access.
Print Assumptions C18_class_route_items.
Print Assumptions C18_class_access_items.
Print Assumptions C18_success_route.
Print Assumptions C18_success_access.
Print Assumptions C18_answer_route.
Print Assumptions C18_answer_access.
Print Assumptions C18_defaults.
Print Assumptions C18_default_fwd.
Print Assumptions C18_default_scen.
Print Assumptions C18_defaults_items.
Print Assumptions C18_last_wins.
Print Assumptions C18_norm.
Print Assumptions C18_nodup_value.
Print Assumptions C18_order_route.
Print Assumptions C18_order_access.
Print Assumptions C18_order_handle_route.
Print Assumptions C18_order_handle_access.
Print Assumptions C18_order_needs_nodup.
Print Assumptions C18_order_errors_differ.
