(* EmitTie.v — the model's step-emission loop (Journey.v: emit_step, emit_loop, emit) computes what the interpreter of
   Emit.v computes on the statement tree tools/gen_emit.py reads from reverse_journey.cpp AS IT IS NOW (gen/Emit.v,
   regenerated on every run): every guard, every right-hand side, every step argument and every result field is the
   translated source expression, nothing is hand-instantiated.

     emit_step d p bestdep count st i j nxt = st_of (run_emit gen_emit_skel <env> (mach_of st tmp))     (all three cases)
     emit_loop ... = st_of (emit_loop_m gen_emit_skel ...)        emit d p bestdep js = gen_emit_result bestdep (...)

   for ALL values `tmp` of the temporaries (function-level variables of the source: they keep what the previous
   iteration left).  Plain equality.  Hypothesis `seq_ok`: stop sequences are 1-based (the source computes
   `unboardingSequence - 1 < size()` and the segment range in int / size_t, the model in nat with truncated
   subtraction; they agree from 1 on).

   What breaks these proofs: a dropped or added guard (D17: `if (totalDistance != -1)`), an assignment moved into or
   out of a block, `=` turned into `+=`, a changed operand, a changed step argument, a changed result field.  What
   does not: comments, logging, whitespace, reordered independent assignments. *)
From Coq Require Import List ZArith Bool Lia ZifyBool.
From TrV Require Import gen.Consts Scan Journey.
Require Import TrV.Emit.
Require TrV.gen.Emit.
From TrV Require Import Proofs.EmitInitTie.
Local Open Scope Z_scope.
Local Open Scope bool_scope.

Module GE := TrV.gen.Emit.

(* stop sequences of a ridden leg are 1-based *)
Definition seq_ok (j : jstep) : Prop :=
  match js_enter j, js_exit j with
  | Some en, Some ex => (1 <= c_seq en)%nat /\ (1 <= c_seq ex)%nat
  | _, _ => True
  end.

Lemma eqb_m1 : (-1 =? -1) = true. Proof. reflexivity. Qed.
Lemma to_nat_pred n : Z.to_nat (Z.of_nat n - 1) = (n - 1)%nat. Proof. lia. Qed.
Lemma to_nat_succ n : Z.to_nat (Z.of_nat n + 1) = S n. Proof. lia. Qed.
Lemma to_nat_span u b : (1 <= b)%nat -> Z.to_nat (Z.of_nat u - (Z.of_nat b - 1)) = (u - (b - 1))%nat. Proof. lia. Qed.

(* symbolic evaluation of the interpreter on the closed tree and of the model's step: the interpreter, the machine, the
   atoms and record projections only - never arithmetic *)
Ltac eeval :=
  lazy beta iota zeta delta
    [erun em_set em_push em_v em_steps evar_eqb evar_idx idx_eqb st_of
     ev_d ev_p ev_bestdep ev_count ev_i ev_j ev_nxt
     x_enter_dep x_exit_arr x_enter_seq x_exit_seq x_node_dep x_node_arr x_trip x_transferable x_segments x_nseg
     x_has_next x_next_has_enter x_next_minw x_segment_sum js_has_conns is_some
     emit_step next_minw
     e_tivt e_twalk e_twait e_ttrwalk e_ttrwait e_tdist e_tivd e_twalkd e_ttrd e_accd e_egrd e_tarr e_ntr e_arr
     e_accw e_egrw e_accwait e_steps].

Ltac split_ifs :=
  repeat (match goal with
          | |- context [if negb ?a then _ else _] => destruct a eqn:?
          | |- context [if ?a && _ then _ else _] => destruct a eqn:?
          | |- context [if ?c then _ else _] => destruct c eqn:?
          end; cbn [negb andb orb]; try lia).

Ltac leaf :=
  unfold step_board, step_unboard, step_walk;
  rewrite <- ?app_assoc; cbn [app];
  rewrite ?Nat2Z.id, ?to_nat_pred, ?to_nat_succ, ?Z.add_0_l;
  first [reflexivity | repeat (f_equal; try lia)].

Lemma emit_step_skel d p bestdep count m i j nxt : seq_ok j ->
  erun {| ev_d := d; ev_p := p; ev_bestdep := bestdep; ev_count := count; ev_i := i; ev_j := j; ev_nxt := nxt |}
       GE.gen_emit_skel emit_st st_of m
  = emit_step d p bestdep count (st_of m) i j nxt.
Proof.
  intros Hseq. destruct m as [v ss]. unfold seq_ok in Hseq. unfold GE.gen_emit_skel.
  destruct (js_enter j) as [en|] eqn:Een; destruct (js_exit j) as [ex|] eqn:Eex.
  2,3,4: (eeval; rewrite ?Een, ?Eex; eeval; destruct nxt as [nj|]; [destruct (js_enter nj) as [nb|]|]; eeval;
          cbn [negb andb orb]; split_ifs; leaf).
  destruct Hseq as [Hb Hu].
  eeval; rewrite ?Een, ?Eex; eeval.
  destruct nxt as [nj|]; [destruct (js_enter nj) as [nb|]|]; eeval; cbn [negb andb orb].
  all: rewrite ?Z.add_0_l, ?to_nat_pred, ?(to_nat_span _ _ Hb), ?eqb_m1.
  all: split_ifs.
  all: leaf.
Qed.

(* the interpreter commutes with a function applied to its continuation *)
Lemma erun_map e (sk : eskel) : forall (R R' : Type) (f : R -> R') (kont : emach -> R) (kont' : emach -> R'),
  (forall m, kont' m = f (kont m)) -> forall m, erun e sk R' kont' m = f (erun e sk R kont m).
Proof.
  induction sk as [g th IHth el IHel k IHk | x rhs k IHk | s k IHk | k IHk |]; intros R R' f kont kont' Hk m; cbn [erun].
  - destruct (g e m); [apply IHth | apply IHel]; intros m'; apply IHk; exact Hk.
  - apply IHk; exact Hk.
  - apply IHk; exact Hk.
  - apply IHk; exact Hk.
  - apply Hk.
Qed.

Lemma st_of_run_emit sk e m : st_of (run_emit sk e m) = erun e sk emit_st st_of m.
Proof. unfold run_emit. symmetry. apply erun_map. reflexivity. Qed.

Lemma st_of_mach_of st tmp : st_of (mach_of st tmp) = st.
Proof. destruct st. reflexivity. Qed.

Definition env_of (d : data) (p : params) (bestdep : Z) (count i : nat) (j : jstep) (nxt : option jstep) : eenv :=
  {| ev_d := d; ev_p := p; ev_bestdep := bestdep; ev_count := count; ev_i := i; ev_j := j; ev_nxt := nxt |}.

(* one iteration, whatever the machine holds *)
Theorem emit_step_mach_tie : forall d p bestdep count m i j nxt, seq_ok j ->
  st_of (run_emit GE.gen_emit_skel (env_of d p bestdep count i j nxt) m) = emit_step d p bestdep count (st_of m) i j nxt.
Proof. intros. rewrite st_of_run_emit. apply emit_step_skel. assumption. Qed.

(* ... in particular from the model's running variables, with anything in the temporaries: all three cases of emit_step
   (ridden leg, access walk, egress walk) *)
Theorem emit_step_skel_tie : forall d p bestdep count st i j nxt tmp, seq_ok j ->
  emit_step d p bestdep count st i j nxt =
  st_of (run_emit GE.gen_emit_skel (env_of d p bestdep count i j nxt) (mach_of st tmp)).
Proof. intros. rewrite emit_step_mach_tie by assumption. rewrite st_of_mach_of. reflexivity. Qed.

(* the whole loop: the machine (totals AND temporaries) threaded through the journey *)
Theorem emit_loop_skel_tie : forall d p bestdep count js m i, Forall seq_ok js ->
  st_of (emit_loop_m GE.gen_emit_skel d p bestdep count m i js) = emit_loop d p bestdep count (st_of m) i js.
Proof.
  induction js as [|j r IH]; intros m i Hs; cbn [emit_loop_m emit_loop]; [reflexivity|].
  inversion Hs as [|j' r' Hj Hr]; subst.
  rewrite IH by assumption. f_equal. apply emit_step_mach_tie. assumption.
Qed.

(* the fields of the result are the ones the source assigns after the loop *)
Lemma emit_result_tie bestdep m :
  {| rt_dep := bestdep; rt_arr := e_arr (st_of m); rt_ttt := e_arr (st_of m) - bestdep; rt_tdist := e_tdist (st_of m);
     rt_tivt := e_tivt (st_of m); rt_tivd := e_tivd (st_of m); rt_tnt := e_twalk (st_of m); rt_tntd := e_twalkd (st_of m);
     rt_nboard := e_ntr (st_of m) + 1; rt_ntransf := (if e_ntr (st_of m) =? -1 then 0 else e_ntr (st_of m));
     rt_trwalk := e_ttrwalk (st_of m); rt_trdist := e_ttrd (st_of m); rt_acc := e_accw (st_of m); rt_accd := e_accd (st_of m);
     rt_egr := e_egrw (st_of m); rt_egrd := e_egrd (st_of m); rt_trwait := e_ttrwait (st_of m); rt_fwait := e_accwait (st_of m);
     rt_twait := e_twait (st_of m); rt_steps := e_steps (st_of m) |}
  = GE.gen_emit_result bestdep m.
Proof.
  destruct m as [v ss]. unfold GE.gen_emit_result.
  cbn [st_of em_v em_steps e_tivt e_twalk e_twait e_ttrwalk e_ttrwait e_tdist e_tivd e_twalkd e_ttrd e_accd e_egrd e_tarr
       e_ntr e_arr e_accw e_egrw e_accwait e_steps].
  first [reflexivity | f_equal; first [reflexivity | lia | (destruct (v V_numberOfTransfers =? -1) eqn:E; lia)]].
Qed.

(* the initial values the source declares (gen/Consts.v, Proofs/EmitInitTie.v) *)
Definition emit_init_code : emit_st :=
  {| e_tivt := GEN_EMIT_INIT_totalInVehicleTime; e_twalk := GEN_EMIT_INIT_totalWalkingTime;
     e_twait := GEN_EMIT_INIT_totalWaitingTime; e_ttrwalk := GEN_EMIT_INIT_totalTransferWalkingTime;
     e_ttrwait := GEN_EMIT_INIT_totalTransferWaitingTime; e_tdist := GEN_EMIT_INIT_totalDistance;
     e_tivd := GEN_EMIT_INIT_totalInVehicleDistance; e_twalkd := GEN_EMIT_INIT_totalWalkingDistance;
     e_ttrd := GEN_EMIT_INIT_totalTransferDistance; e_accd := GEN_EMIT_INIT_accessDistance;
     e_egrd := GEN_EMIT_INIT_egressDistance;
     e_tarr := GEN_EMIT_INIT_transferArrivalTime; e_ntr := GEN_EMIT_INIT_numberOfTransfers;
     e_arr := GEN_EMIT_INIT_arrivalTime;
     e_accw := GEN_EMIT_INIT_accessWalkingTime; e_egrw := GEN_EMIT_INIT_egressWalkingTime;
     e_accwait := GEN_EMIT_INIT_accessWaitingTime;
     e_steps := nil |}.

(* declarations, loop and result assignments as the source writes them now *)
Definition emit_code (d : data) (p : params) (bestdep : Z) (js : list jstep) (tmp : evar -> Z) : route :=
  GE.gen_emit_result bestdep
    (emit_loop_m GE.gen_emit_skel d p bestdep (length js) (mach_of emit_init_code tmp) 0%nat js).

Theorem emit_skel_tie : forall d p bestdep js tmp, Forall seq_ok js -> emit d p bestdep js = emit_code d p bestdep js tmp.
Proof.
  intros d p bestdep js tmp Hs. unfold emit_code, emit_init_code. rewrite <- emit_init_is_code.
  rewrite <- emit_result_tie. rewrite emit_loop_skel_tie by assumption. rewrite st_of_mach_of. reflexivity.
Qed.
