(* Proofs/Shift.v — C12, the whole-pipeline half: moving every scheduled time of the data and the requested
   time by the same number of seconds dl moves every reported clock time by dl and leaves every status, reason,
   duration, count, stop, line and trip unchanged.

   MAIN THEOREMS (all closed under the global context)
     shift_calc_single    calc_single   (shift_data dl d) (conn_set (shift_data dl d) s) (shift_params dl p) acc egr fresh
                          = map_outcome (shift_res dl) (calc_single d (conn_set d s) p acc egr fresh)
     shift_calc_allnodes  calc_allnodes ... rows = map_outcome (shift_acc_res dl) (calc_allnodes ... rows)
     shift_alternatives   alternatives  ... acc egr = map_outcome (shift_alt_res dl) (alternatives ... acc egr)
     C12_calc_single      the first one from wf_data_b / wf_tables_b / wf_params_b before and after the shift
   HYPOTHESES
     shift_dom   (domain) every clock value of the enabled connections and of the request lies in [0, 32 h) before
                 and after the shift, walks are in the ranges of wf_data_b / wf_tables_b, 0 <= min waiting time;
                 wf_shift_dom derives it from the Spec.v predicates on both datasets.
     shift_safe  (THE PROVISO) only for arrival-time requests of calc_single / alternatives: for every enabled,
                 boardable connection c whose departure stop has an access row ar, the time
                 dep(c) - minimum waiting - walk(ar) does not change sign under the shift.
                 Departure-time requests and both accessibility maps need no proviso.
                 shift_proviso_needed shows that it cannot be dropped: a counterexample to the unrestricted
                 statement in which all clock values of data, requests and answers are in range.
   NOTE on shift_route: the `ready` field of an egress walk is the literal -1 and does not move (shift_step).

   Part 1  definitions: shift_data, shift_params, shift_conn, shift_js, shift_tqd, shift_route, shift_accnode
   Part 2  structure: all_conns, the two sorts, trip_enabled, conn_set commute with the shift
   Part 3  scan simulations: fwd_fp_step / fwd_step / rev_fp_step / rev_step preserve the relations frel / rrel
   Part 4  best_egress / best_access, rebuild, optimize, emit
   Part 5  calc_single, calc_allnodes, alternatives; hypotheses from well-formedness; examples *)
From Coq Require Import List ZArith Bool Arith Lia Sorted.
From TrV Require Import Spec Proofs.SortFilter Proofs.Index Proofs.Rewrites Proofs.RevInv Proofs.OptTotal.
Import ListNotations.
Local Open Scope Z_scope.

(* ============================================================================================== *)
(* Part 1: the shift                                                                                *)

Definition shift_st (dl : Z) (s : stoptime) : stoptime :=
  {| st_arr := st_arr s + dl; st_dep := st_dep s + dl; st_cb := st_cb s; st_cu := st_cu s |}.
Definition shift_trip (dl : Z) (t : trip) : trip :=
  {| t_id := t_id t; t_path := t_path t; t_service := t_service t; t_times := map (shift_st dl) (t_times t) |}.
Definition shift_data (dl : Z) (d : data) : data :=
  {| d_nodes := d_nodes d; d_fp := d_fp d; d_rfp := d_rfp d; d_lines := d_lines d; d_paths := d_paths d;
     d_trips := map (shift_trip dl) (d_trips d); d_scenarios := d_scenarios d |}.
Definition shift_params (dl : Z) (p : params) : params :=
  {| q_scenario := q_scenario p; q_time := q_time p + dl; q_minw := q_minw p; q_maxtt := q_maxtt p;
     q_maxacc := q_maxacc p; q_maxegr := q_maxegr p; q_maxtr := q_maxtr p; q_maxfw := q_maxfw p;
     q_fwd := q_fwd p; q_except_lines := q_except_lines p |}.
Definition shift_conn (dl : Z) (c : conn) : conn :=
  {| c_trip := c_trip c; c_seq := c_seq c; c_from := c_from c; c_to := c_to c;
     c_dep := c_dep c + dl; c_arr := c_arr c + dl; c_cb := c_cb c; c_cu := c_cu c; c_minw := c_minw c |}.
Definition shift_js (dl : Z) (j : jstep) : jstep :=
  {| js_enter := option_map (shift_conn dl) (js_enter j); js_exit := option_map (shift_conn dl) (js_exit j);
     js_trip := js_trip j; js_walk := js_walk j; js_same := js_same j; js_dist := js_dist j |}.
Definition shift_tqd (dl : Z) (o : tqd) : tqd :=
  {| o_usable := o_usable o; o_enter := option_map (shift_conn dl) (o_enter o); o_enter_w := o_enter_w o;
     o_exit := option_map (shift_conn dl) (o_exit o); o_exit_w := o_exit_w o |}.

(* clock fields of the emitted steps (emit_step, Journey.v): SWalk dep/arr/ready, SBoard dep, SUnboard arr.
   The `ready` field of an EGRESS walk (kind 1) is the literal -1, not a clock: it does not move. *)
Definition shift_step (dl : Z) (s : step) : step :=
  match s with
  | SWalk kind travel dist dep arr ready =>
      SWalk kind travel dist (dep + dl) (arr + dl) (if Nat.eqb kind 1 then ready else ready + dl)
  | SBoard t ls ss n dep wait => SBoard t ls ss n (dep + dl) wait
  | SUnboard t ls ss n arr ivt ivd => SUnboard t ls ss n (arr + dl) ivt ivd
  end.
Definition shift_route (dl : Z) (r : route) : route :=
  {| rt_dep := rt_dep r + dl; rt_arr := rt_arr r + dl; rt_ttt := rt_ttt r; rt_tdist := rt_tdist r;
     rt_tivt := rt_tivt r; rt_tivd := rt_tivd r; rt_tnt := rt_tnt r; rt_tntd := rt_tntd r;
     rt_nboard := rt_nboard r; rt_ntransf := rt_ntransf r; rt_trwalk := rt_trwalk r; rt_trdist := rt_trdist r;
     rt_acc := rt_acc r; rt_accd := rt_accd r; rt_egr := rt_egr r; rt_egrd := rt_egrd r;
     rt_trwait := rt_trwait r; rt_fwait := rt_fwait r; rt_twait := rt_twait r;
     rt_steps := map (shift_step dl) (rt_steps r) |}.
Definition shift_accnode (dl : Z) (a : accnode) : accnode :=
  {| an_node := an_node a; an_time := an_time a + dl; an_ttt := an_ttt a; an_ntr := an_ntr a |}.

Definition map_outcome {A B} (f : A -> B) (o : outcome A) : outcome B :=
  match o with
  | Ok a => Ok (f a)
  | NoRouting r => NoRouting r
  | ParamErr c => ParamErr c
  | DataErr c => DataErr c
  | Exn t => Exn t
  | NoReply => NoReply
  | Crash => Crash
  | UB t => UB t
  | Hang => Hang
  end.

(* ============================================================================================== *)
(* Part 2: structure                                                                                *)

Lemma ltb_shift a b dl : (a + dl <? b + dl) = (a <? b).
Proof. destruct (Z.ltb_spec a b), (Z.ltb_spec (a + dl) (b + dl)); lia || reflexivity. Qed.
Lemma gtb_shift a b dl : (a + dl >? b + dl) = (a >? b).
Proof. rewrite !Z.gtb_ltb. apply ltb_shift. Qed.
Lemma leb_shift a b dl : (a + dl <=? b + dl) = (a <=? b).
Proof. destruct (Z.leb_spec a b), (Z.leb_spec (a + dl) (b + dl)); lia || reflexivity. Qed.
Lemma geb_shift a b dl : (a + dl >=? b + dl) = (a >=? b).
Proof. rewrite !Z.geb_leb. apply leb_shift. Qed.

(* congruence forms: the workhorses of Part 3 *)
Lemma ltb_congr a b a' b' : (a < b <-> a' < b') -> (a <? b) = (a' <? b').
Proof. intros H. destruct (Z.ltb_spec a b), (Z.ltb_spec a' b'); lia || reflexivity. Qed.
Lemma leb_congr a b a' b' : (a <= b <-> a' <= b') -> (a <=? b) = (a' <=? b').
Proof. intros H. destruct (Z.leb_spec a b), (Z.leb_spec a' b'); lia || reflexivity. Qed.
Lemma gtb_congr a b a' b' : (a > b <-> a' > b') -> (a >? b) = (a' >? b').
Proof. intros H. rewrite !Z.gtb_ltb. apply ltb_congr. lia. Qed.
Lemma geb_congr a b a' b' : (a >= b <-> a' >= b') -> (a >=? b) = (a' >=? b').
Proof. intros H. rewrite !Z.geb_leb. apply leb_congr. lia. Qed.
Lemma eqb_congr a b a' b' : (a = b <-> a' = b') -> (a =? b) = (a' =? b').
Proof. intros H. destruct (Z.eqb_spec a b), (Z.eqb_spec a' b'); lia || reflexivity. Qed.

Section Structure.
Variable dl : Z.
Let sc := shift_conn dl.

Lemma mk_conns_shift : forall tid minw nodes seq times,
  mk_conns tid minw seq nodes (map (shift_st dl) times) = map sc (mk_conns tid minw seq nodes times).
Proof.
  intros tid minw. induction nodes as [|n0 ns IH]; intros seq times; [reflexivity|].
  destruct ns as [|n1 ns']; [destruct times; reflexivity|].
  destruct times as [|s0 ss]; [reflexivity|].
  destruct ss as [|s1 ss']; [reflexivity|].
  change (map (shift_st dl) (s0 :: s1 :: ss')) with (shift_st dl s0 :: map (shift_st dl) (s1 :: ss')).
  change (mk_conns tid minw seq (n0 :: n1 :: ns') (shift_st dl s0 :: map (shift_st dl) (s1 :: ss')))
    with ({| c_trip := tid; c_seq := seq; c_from := n0; c_to := n1; c_dep := st_dep (shift_st dl s0);
             c_arr := st_arr (shift_st dl s1); c_cb := st_cb (shift_st dl s0); c_cu := st_cu (shift_st dl s1);
             c_minw := minw |} :: mk_conns tid minw (S seq) (n1 :: ns') (map (shift_st dl) (s1 :: ss'))).
  rewrite IH. reflexivity.
Qed.

Lemma trip_line_shift d t : trip_line (shift_data dl d) (shift_trip dl t) = trip_line d t.
Proof. reflexivity. Qed.
Lemma trip_mode_shift d t : trip_mode (shift_data dl d) (shift_trip dl t) = trip_mode d t.
Proof. reflexivity. Qed.
Lemma trip_agency_shift d t : trip_agency (shift_data dl d) (shift_trip dl t) = trip_agency d t.
Proof. reflexivity. Qed.
Lemma trip_nodes_shift d t : trip_nodes (shift_data dl d) (shift_trip dl t) = trip_nodes d t.
Proof. reflexivity. Qed.
Lemma trip_dists_shift d t : trip_dists (shift_data dl d) (shift_trip dl t) = trip_dists d t.
Proof. reflexivity. Qed.

Lemma trip_conns_shift d t : trip_conns (shift_data dl d) (shift_trip dl t) = map sc (trip_conns d t).
Proof.
  unfold trip_conns. rewrite trip_mode_shift, trip_nodes_shift.
  change (t_times (shift_trip dl t)) with (map (shift_st dl) (t_times t)).
  change (t_id (shift_trip dl t)) with (t_id t). apply mk_conns_shift.
Qed.

Lemma flat_map_map_shift {A A' B B'} (f : A -> list B) (f' : A' -> list B') (g : A -> A') (h : B -> B') l :
  (forall x, f' (g x) = map h (f x)) -> flat_map f' (map g l) = map h (flat_map f l).
Proof.
  intros H. induction l as [|x r IH]; [reflexivity|].
  cbn [map flat_map]. rewrite map_app, H, IH. reflexivity.
Qed.

Theorem all_conns_shift d : all_conns (shift_data dl d) = map sc (all_conns d).
Proof.
  unfold all_conns. change (d_trips (shift_data dl d)) with (map (shift_trip dl) (d_trips d)).
  apply flat_map_map_shift. intros t. apply trip_conns_shift.
Qed.

Lemma fwd_lt_shift a b : fwd_lt (sc a) (sc b) = fwd_lt a b.
Proof. unfold fwd_lt, sc, shift_conn. cbn [c_dep c_trip c_seq]. rewrite ltb_shift, gtb_shift. reflexivity. Qed.
Lemma rev_lt_shift a b : rev_lt (sc a) (sc b) = rev_lt a b.
Proof. unfold rev_lt, sc, shift_conn. cbn [c_arr c_trip c_seq]. rewrite ltb_shift, gtb_shift. reflexivity. Qed.

Lemma insert_shift lt : (forall a b, lt (sc a) (sc b) = lt a b) ->
  forall x l, insert lt (sc x) (map sc l) = map sc (insert lt x l).
Proof.
  intros Hlt x. induction l as [|y ys IH]; [reflexivity|].
  cbn [map insert]. rewrite Hlt. destruct (lt y x); cbn [map]; [rewrite IH|]; reflexivity.
Qed.

Theorem isort_shift lt : (forall a b, lt (sc a) (sc b) = lt a b) ->
  forall l, isort lt (map sc l) = map sc (isort lt l).
Proof.
  intros Hlt. induction l as [|x r IH]; [reflexivity|].
  unfold isort in *. cbn [map fold_right]. rewrite IH. apply insert_shift. exact Hlt.
Qed.

Lemma sorted_fwd_shift d : sorted_fwd (shift_data dl d) = map sc (sorted_fwd d).
Proof. unfold sorted_fwd. rewrite all_conns_shift. apply isort_shift. exact fwd_lt_shift. Qed.
Lemma sorted_rev_shift d : sorted_rev (shift_data dl d) = map sc (sorted_rev d).
Proof. unfold sorted_rev. rewrite all_conns_shift. apply isort_shift. exact rev_lt_shift. Qed.

Theorem trip_enabled_shift d s t : trip_enabled (shift_data dl d) s (shift_trip dl t) = trip_enabled d s t.
Proof. reflexivity. Qed.

Lemma filter_map_comm {A B} (f : B -> bool) (g : A -> B) (l : list A) :
  filter f (map g l) = map g (filter (fun x => f (g x)) l).
Proof.
  induction l as [|x r IH]; [reflexivity|]. cbn [map filter]. destruct (f (g x)); cbn [map]; rewrite IH; reflexivity.
Qed.

Theorem enabled_trips_shift d s : enabled_trips (shift_data dl d) s = enabled_trips d s.
Proof.
  unfold enabled_trips. change (d_trips (shift_data dl d)) with (map (shift_trip dl) (d_trips d)).
  rewrite filter_map_comm, map_map. reflexivity.
Qed.

Theorem cs_trips_shift d s : cs_trips (conn_set (shift_data dl d) s) = cs_trips (conn_set d s).
Proof. unfold conn_set, mk_connset. cbn [cs_trips]. apply enabled_trips_shift. Qed.
Theorem cs_fwd_shift d s : cs_fwd (conn_set (shift_data dl d) s) = map sc (cs_fwd (conn_set d s)).
Proof.
  unfold conn_set, mk_connset. cbn [cs_fwd]. rewrite enabled_trips_shift, sorted_fwd_shift, filter_map_comm.
  reflexivity.
Qed.
Theorem cs_rev_shift d s : cs_rev (conn_set (shift_data dl d) s) = map sc (cs_rev (conn_set d s)).
Proof.
  unfold conn_set, mk_connset. cbn [cs_rev]. rewrite enabled_trips_shift, sorted_rev_shift, filter_map_comm.
  reflexivity.
Qed.

Lemma find_map_shift {A} (f : A -> bool) (g : A -> A) (l : list A) :
  (forall x, f (g x) = f x) -> find f (map g l) = option_map g (find f l).
Proof.
  intros H. induction l as [|x r IH]; [reflexivity|]. cbn [map find]. rewrite H. destruct (f x); [reflexivity|exact IH].
Qed.

Lemma find_trip_shift d t : find_trip (shift_data dl d) t = option_map (shift_trip dl) (find_trip d t).
Proof. unfold find_trip. apply (find_map_shift (fun x => Nat.eqb (t_id x) t)). reflexivity. Qed.

Lemma trip_fwd_shift d t : trip_fwd (shift_data dl d) t = map sc (trip_fwd d t).
Proof. unfold trip_fwd. rewrite sorted_fwd_shift, filter_map_comm. reflexivity. Qed.
Lemma trip_rev_shift d t : trip_rev (shift_data dl d) t = map sc (trip_rev d t).
Proof. unfold trip_rev. rewrite sorted_rev_shift, filter_map_comm. reflexivity. Qed.

Lemma is_transferable_trip_shift d t : is_transferable_trip (shift_data dl d) t = is_transferable_trip d t.
Proof. unfold is_transferable_trip. rewrite find_trip_shift. destruct (find_trip d t); reflexivity. Qed.

Lemma disabled_of_shift d p cs cs' t : cs_trips cs' = cs_trips cs ->
  disabled_of (shift_data dl d) (shift_params dl p) cs' t = disabled_of d p cs t.
Proof.
  intros H. unfold disabled_of. change (q_except_lines (shift_params dl p)) with (q_except_lines p).
  destruct (q_except_lines p) as [|e ex]; [reflexivity|].
  rewrite H, find_trip_shift. destruct (find_trip d t); reflexivity.
Qed.

End Structure.

(* ============================================================================================== *)
(* Part 3: scan simulations                                                                         *)

Section Sim.
Variable dl : Z.
Notation sc := (shift_conn dl).
Notation sj := (shift_js dl).
Notation so := (shift_tqd dl).

(* labels: a sentinel on both sides, or a clock value moved by dl *)
Definition Rtau (x y : Z) : Prop := (x = MAX_INT /\ y = MAX_INT) \/ y = x + dl.
Definition Rtaur (x y : Z) : Prop := (x = -1 /\ y = -1) \/ y = x + dl.
Definition Rtent (x y : Z) : Prop := (x = MAX_INT /\ y = MAX_INT) \/ (y = x + dl /\ x < MAX_INT /\ y < MAX_INT).

Definition conn_rng (c : conn) : Prop :=
  0 <= c_dep c < CLOCK_MAX /\ 0 <= c_arr c < CLOCK_MAX /\
  0 <= c_dep c + dl < CLOCK_MAX /\ 0 <= c_arr c + dl < CLOCK_MAX.

(* the shift does not move v across zero *)
Definition same_side (v : Z) : Prop := (0 <= v /\ 0 <= v + dl) \/ (v < 0 /\ v + dl < 0).

Lemma minw_eff_shift p c : minw_eff p (sc c) = minw_eff p c.
Proof. reflexivity. Qed.
Lemma minw_eff_nonneg p c : 0 <= q_minw p -> 0 <= minw_eff p c.
Proof. intros H. unfold minw_eff. destruct (Z.geb_spec (c_minw c) 0); lia. Qed.

Lemma upd_rel {A B} (R : A -> B -> Prop) m m' k v v' :
  (forall n, R (m n) (m' n)) -> R v v' -> forall n, R (upd m k v n) (upd m' k v' n).
Proof. intros H Hv n. unfold upd. destruct (Nat.eqb n k); auto. Qed.

Lemma is_some_map {A B} (f : A -> B) (o : option A) : is_some (option_map f o) = is_some o.
Proof. destruct o; reflexivity. Qed.

Lemma sj_mk_js en ex t w same dist :
  mk_js (option_map sc en) (option_map sc ex) t w same dist = sj (mk_js en ex t w same dist).
Proof. reflexivity. Qed.

(* ---------------------------------------------------------------------------------------------- *)
(* forward                                                                                          *)

Definition egr_rng (egr : nat -> option jstep) : Prop :=
  forall n j e, egr n = Some j -> js_exit j = Some e ->
    0 <= c_arr e < CLOCK_MAX /\ 0 <= c_arr e + dl < CLOCK_MAX.

Definition T3f (s s' : (nat -> Z) * (nat -> jstep) * (nat -> option jstep)) : Prop :=
  (forall n, Rtau (fst (fst s) n) (fst (fst s') n)) /\
  (forall n, snd (fst s') n = sj (snd (fst s) n)) /\
  (forall n, snd s' n = option_map sj (snd s n)) /\ egr_rng (snd s).

Lemma T3f_mk tau steps egr tau' steps' egr' :
  (forall n, Rtau (tau n) (tau' n)) -> (forall n, steps' n = sj (steps n)) ->
  (forall n, egr' n = option_map sj (egr n)) -> egr_rng egr ->
  T3f (tau, steps, egr) (tau', steps', egr').
Proof. intros H1 H2 H3 H4. unfold T3f. cbn [fst snd]. auto. Qed.

Lemma fwd_fp_step_sim p c enter s s' r :
  T3f s s' -> conn_rng c -> fp_time r < 32768 ->
  T3f (fwd_fp_step p c enter s r) (fwd_fp_step p (sc c) (option_map sc enter) s' r).
Proof.
  intros H Hc Hr.
  destruct s as [[tau steps] egr]. destruct s' as [[tau' steps'] egr'].
  destruct H as (Ht & Hs & He & Hg). cbn [fst snd] in Ht, Hs, He, Hg.
  destruct Hc as (Hc1 & Hc2 & Hc3 & Hc4).
  unfold fwd_fp_step. cbn [shift_conn c_to c_arr c_trip].
  pose proof (Ht (fp_node r)) as Htm. unfold Rtau in Htm.
  assert (E1 : (tau' (fp_node r) <? c_arr c + dl) = (tau (fp_node r) <? c_arr c)).
  { apply ltb_congr. unfold CLOCK_MAX, MAX_INT in *. destruct Htm as [[-> ->]| ->]; lia. }
  assert (E3 : (fp_time r + (c_arr c + dl) <? tau' (fp_node r)) = (fp_time r + c_arr c <? tau (fp_node r))).
  { apply ltb_congr. unfold CLOCK_MAX, MAX_INT in *. destruct Htm as [[-> ->]| ->]; lia. }
  rewrite E1, E3.
  destruct (negb (Nat.eqb (c_to c) (fp_node r)) && (tau (fp_node r) <? c_arr c)) eqn:G1.
  { apply T3f_mk; assumption. }
  destruct (fp_time r <=? q_maxtr p) eqn:G2; [|apply T3f_mk; assumption].
  assert (E4 : match egr' (fp_node r) with
               | None => true
               | Some j => match js_exit j with Some e => c_arr e >? c_arr c + dl | None => false end
               end =
               match egr (fp_node r) with
               | None => true
               | Some j => match js_exit j with Some e => c_arr e >? c_arr c | None => false end
               end).
  { rewrite He. destruct (egr (fp_node r)) as [j|]; [|reflexivity]. cbn [option_map shift_js js_exit].
    destruct (js_exit j) as [e|]; [|reflexivity]. cbn [option_map shift_conn c_arr]. apply gtb_shift. }
  rewrite E4.
  set (G4 := Nat.eqb (c_to c) (fp_node r) && _).
  assert (Hnew : Rtau (fp_time r + c_arr c) (fp_time r + (c_arr c + dl))) by (right; lia).
  change (Some (sc c)) with (option_map sc (Some c)). rewrite !sj_mk_js.
  destruct (fp_time r + c_arr c <? tau (fp_node r)) eqn:G3; destruct G4 eqn:EG4; cbv beta iota zeta;
    unfold T3f; cbn [fst snd].
  - split; [apply upd_rel; assumption|]. split; [apply (upd_rel (fun a b => b = sj a)); [assumption|reflexivity]|].
    split; [apply (upd_rel (fun a b => b = option_map sj a)); [assumption|reflexivity]|].
    intros n j e. unfold upd. destruct (Nat.eqb n (fp_node r)).
    + intros Hj He'. injection Hj as <-. cbn [mk_js js_exit] in He'. injection He' as <-. lia.
    + apply Hg.
  - split; [apply upd_rel; assumption|]. split; [apply (upd_rel (fun a b => b = sj a)); [assumption|reflexivity]|].
    split; assumption.
  - split; [assumption|]. split; [assumption|].
    split; [apply (upd_rel (fun a b => b = option_map sj a)); [assumption|reflexivity]|].
    intros n j e. unfold upd. destruct (Nat.eqb n (fp_node r)).
    + intros Hj He'. injection Hj as <-. cbn [mk_js js_exit] in He'. injection He' as <-. lia.
    + apply Hg.
  - auto.
Qed.

Lemma fwd_fp_fold_sim p c enter rows : forall s s',
  T3f s s' -> conn_rng c -> (forall r, In r rows -> fp_time r < 32768) ->
  T3f (fold_left (fwd_fp_step p c enter) rows s) (fold_left (fwd_fp_step p (sc c) (option_map sc enter)) rows s').
Proof.
  induction rows as [|r rows IH]; intros s s' H Hc Hr; [exact H|].
  cbn [fold_left]. apply IH; [|exact Hc|intros x Hx; apply Hr; right; exact Hx].
  apply fwd_fp_step_sim; [exact H|exact Hc|apply Hr; left; reflexivity].
Qed.

(* the pieces of fwd_step *)
Definition fwd_cut (p : params) (k : calc) (all_nodes : bool) (st : fstate) (c : conn) : bool :=
  (negb all_nodes && f_reached st && (k_maxEgr k >=? 0) && (f_tent st <? MAX_INT)
     && (c_dep c >? f_tent st + k_maxEgr k))
  || (c_dep c - k_dep k >? q_maxtt p).
Definition fwd_pass (p : params) (k : calc) (st : fstate) (c : conn) : bool :=
  let minw := minw_eff p c in
  let enter := o_enter (f_ov st (c_trip c)) in
  let tdep := f_tau st (c_from c) in
  let accessed :=
    (q_maxfw p >? 0) &&
    match row_of (c_from c) (k_accfp k) with Some r => fp_time r >=? 0 | None => false end &&
    negb (is_some (js_enter (f_steps st (c_from c)))) in
  (is_some enter || (tdep <=? c_dep c - minw)) && (negb accessed || (c_dep c - tdep <=? q_maxfw p)).
Definition fwd_ov1 (st : fstate) (c : conn) : tqd :=
  let ov := f_ov st (c_trip c) in
  if c_cb c && negb (is_some (o_enter ov))
  then {| o_usable := true; o_enter := Some c; o_enter_w := js_walk (f_steps st (c_from c));
          o_exit := o_exit ov; o_exit_w := o_exit_w ov |}
  else ov.
Definition fwd_rt (k : calc) (all_nodes : bool) (st : fstate) (c : conn) : bool * Z :=
  if negb all_nodes && negb (f_reached st) &&
     match row_of (c_to c) (k_egrfp k) with Some r => negb (fp_time r =? -1) | None => false end
  then (true, c_arr c) else (f_reached st, f_tent st).

Lemma fwd_step_eq d p k all_nodes st c :
  fwd_step d p k all_nodes st c =
  if f_stop st then st else
  if c_dep c >=? k_dep k + k_minAcc k then
    if k_disabled k (c_trip c) then st else
    if fwd_cut p k all_nodes st c
    then {| f_tau := f_tau st; f_steps := f_steps st; f_ov := f_ov st; f_egr := f_egr st;
            f_count := f_count st; f_reached := f_reached st; f_tent := f_tent st; f_stop := true |}
    else
      if fwd_pass p k st c then
        let ov1 := fwd_ov1 st c in
        let ovm := upd (f_ov st) (c_trip c) ov1 in
        if c_cu c && is_some (o_enter ov1) then
          let '(reached1, tent1) := fwd_rt k all_nodes st c in
          let '(tau1, steps1, egr1) :=
            fold_left (fwd_fp_step p c (o_enter ov1)) (fp_of d (c_to c)) (f_tau st, f_steps st, f_egr st) in
          {| f_tau := tau1; f_steps := steps1; f_ov := ovm; f_egr := egr1;
             f_count := f_count st + 1; f_reached := reached1; f_tent := tent1; f_stop := false |}
        else
          {| f_tau := f_tau st; f_steps := f_steps st; f_ov := ovm; f_egr := f_egr st;
             f_count := f_count st + 1; f_reached := f_reached st; f_tent := f_tent st; f_stop := false |}
      else st
  else st.
Proof. reflexivity. Qed.

Record frel (st st' : fstate) : Prop := {
  fr_tau : forall n, Rtau (f_tau st n) (f_tau st' n);
  fr_steps : forall n, f_steps st' n = sj (f_steps st n);
  fr_ov : forall t, f_ov st' t = so (f_ov st t);
  fr_egr : forall n, f_egr st' n = option_map sj (f_egr st n);
  fr_rng : egr_rng (f_egr st);
  fr_count : f_count st' = f_count st;
  fr_reached : f_reached st' = f_reached st;
  fr_tent : Rtent (f_tent st) (f_tent st');
  fr_stop : f_stop st' = f_stop st }.

Section Fwd.
Variables (d : data) (p : params) (k k' : calc) (all_nodes : bool).
Hypothesis Kdep : k_dep k' = k_dep k + dl.
Hypothesis KminAcc : k_minAcc k' = k_minAcc k.
Hypothesis KmaxEgr : k_maxEgr k' = k_maxEgr k.
Hypothesis Kdis : forall t, k_disabled k' t = k_disabled k t.
Hypothesis Kaccfp : k_accfp k' = k_accfp k.
Hypothesis Kegrfp : k_egrfp k' = k_egrfp k.
Hypothesis Hminw : 0 <= q_minw p.

Lemma fwd_cut_sim st st' c : frel st st' -> conn_rng c ->
  fwd_cut p k' all_nodes st' (sc c) = fwd_cut p k all_nodes st c.
Proof.
  intros H (Hc1 & Hc2 & Hc3 & Hc4). unfold fwd_cut. rewrite (fr_reached _ _ H), KmaxEgr, Kdep.
  cbn [shift_conn c_dep].
  replace (c_dep c + dl - (k_dep k + dl) >? q_maxtt p) with (c_dep c - k_dep k >? q_maxtt p)
    by (apply gtb_congr; lia).
  f_equal.
  destruct (fr_tent _ _ H) as [[E1 E2]|(E1 & E2 & E3)].
  - rewrite E1, E2, Z.ltb_irrefl, !andb_false_r. reflexivity.
  - rewrite E1. rewrite E1 in E3.
    rewrite (proj2 (Z.ltb_lt _ _) E2), (proj2 (Z.ltb_lt _ _) E3).
    replace (c_dep c + dl >? f_tent st + dl + k_maxEgr k) with (c_dep c >? f_tent st + k_maxEgr k)
      by (apply gtb_congr; lia).
    reflexivity.
Qed.

Lemma fwd_pass_sim st st' c : frel st st' -> conn_rng c ->
  fwd_pass p k' st' (sc c) = fwd_pass p k st c.
Proof.
  intros H (Hc1 & Hc2 & Hc3 & Hc4). unfold fwd_pass. rewrite minw_eff_shift, Kaccfp.
  cbn [shift_conn c_dep c_trip c_from].
  rewrite (fr_ov _ _ H), (fr_steps _ _ H). cbn [shift_tqd o_enter shift_js js_enter]. rewrite !is_some_map.
  pose proof (minw_eff_nonneg p c Hminw) as Hm.
  set (minw := minw_eff p c) in *.
  set (X := match row_of (c_from c) (k_accfp k) with Some r => fp_time r >=? 0 | None => false end).
  set (Y := negb (is_some (js_enter (f_steps st (c_from c))))).
  set (E := is_some (o_enter (f_ov st (c_trip c)))).
  destruct (fr_tau _ _ H (c_from c)) as [[E1 E2]| E1]; rewrite E1; [rewrite E2|].
  - replace (MAX_INT <=? c_dep c + dl - minw) with false
      by (symmetry; apply Z.leb_gt; unfold MAX_INT, CLOCK_MAX in *; lia).
    replace (MAX_INT <=? c_dep c - minw) with false
      by (symmetry; apply Z.leb_gt; unfold MAX_INT, CLOCK_MAX in *; lia).
    destruct (Z.gtb_spec (q_maxfw p) 0) as [Hq|Hq]; [|reflexivity].
    replace (c_dep c + dl - MAX_INT <=? q_maxfw p) with true
      by (symmetry; apply Z.leb_le; unfold MAX_INT, CLOCK_MAX in *; lia).
    replace (c_dep c - MAX_INT <=? q_maxfw p) with true
      by (symmetry; apply Z.leb_le; unfold MAX_INT, CLOCK_MAX in *; lia).
    reflexivity.
  - replace (f_tau st (c_from c) + dl <=? c_dep c + dl - minw) with (f_tau st (c_from c) <=? c_dep c - minw)
      by (apply leb_congr; lia).
    replace (c_dep c + dl - (f_tau st (c_from c) + dl) <=? q_maxfw p)
      with (c_dep c - f_tau st (c_from c) <=? q_maxfw p) by (apply leb_congr; lia).
    reflexivity.
Qed.

Lemma fwd_ov1_sim st st' c : frel st st' -> fwd_ov1 st' (sc c) = so (fwd_ov1 st c).
Proof.
  intros H. unfold fwd_ov1. cbn [shift_conn c_cb c_trip c_from].
  rewrite (fr_ov _ _ H), (fr_steps _ _ H). cbn [shift_tqd o_enter]. rewrite is_some_map.
  destruct (c_cb c && negb (is_some (o_enter (f_ov st (c_trip c))))); reflexivity.
Qed.

Lemma fwd_rt_sim st st' c : frel st st' -> conn_rng c ->
  fst (fwd_rt k' all_nodes st' (sc c)) = fst (fwd_rt k all_nodes st c) /\
  Rtent (snd (fwd_rt k all_nodes st c)) (snd (fwd_rt k' all_nodes st' (sc c))).
Proof.
  intros H (Hc1 & Hc2 & Hc3 & Hc4). unfold fwd_rt. rewrite (fr_reached _ _ H), Kegrfp.
  cbn [shift_conn c_to c_arr].
  destruct (negb all_nodes && negb (f_reached st) &&
            match row_of (c_to c) (k_egrfp k) with Some r => negb (fp_time r =? -1) | None => false end);
    cbn [fst snd].
  - split; [reflexivity|]. right. unfold MAX_INT, CLOCK_MAX in *. lia.
  - split; [reflexivity|apply (fr_tent _ _ H)].
Qed.

Theorem fwd_step_sim st st' c :
  frel st st' -> conn_rng c -> (forall r, In r (fp_of d (c_to c)) -> fp_time r < 32768) ->
  frel (fwd_step d p k all_nodes st c) (fwd_step d p k' all_nodes st' (sc c)).
Proof.
  intros H Hc Hfp. rewrite !fwd_step_eq. rewrite (fr_stop _ _ H).
  destruct (f_stop st) eqn:Es; [exact H|].
  rewrite (fwd_cut_sim st st' c H Hc), (fwd_pass_sim st st' c H Hc), (fwd_ov1_sim st st' c H).
  pose proof (fwd_rt_sim st st' c H Hc) as [Hr1 Hr2].
  cbn [shift_conn c_dep c_trip c_to c_cu].
  rewrite Kdep, KminAcc, Kdis.
  replace (c_dep c + dl >=? k_dep k + dl + k_minAcc k) with (c_dep c >=? k_dep k + k_minAcc k)
    by (apply geb_congr; lia).
  destruct (c_dep c >=? k_dep k + k_minAcc k); [|exact H].
  destruct (k_disabled k (c_trip c)); [exact H|].
  destruct (fwd_cut p k all_nodes st c).
  { constructor; cbn [f_tau f_steps f_ov f_egr f_count f_reached f_tent f_stop]; try apply H. reflexivity. }
  destruct (fwd_pass p k st c); [|exact H].
  cbv zeta. set (ov1 := fwd_ov1 st c). cbn [shift_tqd o_enter]. rewrite is_some_map.
  assert (Hov : forall t, upd (f_ov st') (c_trip c) (so ov1) t = so (upd (f_ov st) (c_trip c) ov1 t)).
  { apply (upd_rel (fun a b => b = so a)); [apply H|reflexivity]. }
  destruct (c_cu c && is_some (o_enter ov1)).
  - destruct (fwd_rt k all_nodes st c) as [re te]. destruct (fwd_rt k' all_nodes st' (sc c)) as [re' te'].
    cbn [fst snd] in Hr1, Hr2.
    assert (HT0 : T3f (f_tau st, f_steps st, f_egr st) (f_tau st', f_steps st', f_egr st'))
      by (apply T3f_mk; apply H).
    pose proof (fwd_fp_fold_sim p c (o_enter ov1) (fp_of d (c_to c)) _ _ HT0 Hc Hfp) as HT.
    destruct (fold_left (fwd_fp_step p c (o_enter ov1)) (fp_of d (c_to c)) (f_tau st, f_steps st, f_egr st))
      as [[t1 s1] e1].
    destruct (fold_left (fwd_fp_step p (sc c) (option_map sc (o_enter ov1))) (fp_of d (c_to c))
                (f_tau st', f_steps st', f_egr st')) as [[t1' s1'] e1'].
    destruct HT as (HT1 & HT2 & HT3 & HT4). cbn [fst snd] in HT1, HT2, HT3, HT4.
    constructor; cbn [f_tau f_steps f_ov f_egr f_count f_reached f_tent f_stop]; auto.
    rewrite (fr_count _ _ H). reflexivity.
  - constructor; cbn [f_tau f_steps f_ov f_egr f_count f_reached f_tent f_stop]; try apply H; auto.
    rewrite (fr_count _ _ H). reflexivity.
Qed.

Theorem fwd_fold_sim : forall l st st',
  frel st st' ->
  (forall c, In c l -> conn_rng c /\ forall r, In r (fp_of d (c_to c)) -> fp_time r < 32768) ->
  frel (fold_left (fwd_step d p k all_nodes) l st)
       (fold_left (fwd_step d p k' all_nodes) (map sc l) st').
Proof.
  induction l as [|c l IH]; intros st st' H Hl; [exact H|].
  cbn [map fold_left]. apply IH; [|intros x Hx; apply Hl; right; exact Hx].
  destruct (Hl c (or_introl eq_refl)) as [Hc Hfp]. apply fwd_step_sim; assumption.
Qed.
End Fwd.

(* ---------------------------------------------------------------------------------------------- *)
(* reverse                                                                                          *)

(* LOW = the smallest value a clock of the UNSHIFTED side can have, given that it and its shifted copy are
   both non-negative; LOW + dl is the same bound for the shifted side *)
Definition LOW : Z := Z.max 0 (- dl).

(* the departure-from-origin time of every stored access candidate is on the same side of zero before and
   after the shift: this is what the absolute test `t >=? 0` of best_access needs *)
Definition acc_ok (k : calc) (p : params) (acc : nat -> option jstep) : Prop :=
  forall n j b ar, acc n = Some j -> js_enter j = Some b -> row_of n (k_accfp k) = Some ar ->
    same_side (c_dep b - fp_time ar - minw_eff p b) /\
    c_dep b < CLOCK_MAX /\ c_dep b + dl < CLOCK_MAX.

(* per stop: EITHER the label moved by dl and the stored step is the shifted step, OR the label is below every
   clock value on both sides ("junk": the unreached mark -1, or a ready time so early that no vehicle can
   arrive by then).  Junk labels let no connection through and are never followed by rebuild, so the two sides may
   disagree on them: this is where a ready time  dep - walk - wait  that is negative on one side and
   non-negative on the other is absorbed. *)
Definition node_rel (taur : nat -> Z) (steps : nat -> jstep) (taur' : nat -> Z) (steps' : nat -> jstep)
           (n : nat) : Prop :=
  (taur' n = taur n + dl /\ steps' n = sj (steps n)) \/ (taur n < LOW /\ taur' n < LOW + dl).

Definition T3r (k : calc) (p : params) (s s' : (nat -> Z) * (nat -> jstep) * (nat -> option jstep)) : Prop :=
  (forall n, node_rel (fst (fst s)) (snd (fst s)) (fst (fst s')) (snd (fst s')) n) /\
  (forall n, snd s' n = option_map sj (snd s n)) /\ acc_ok k p (snd s).

Lemma T3r_mk k p taur steps acc taur' steps' acc' :
  (forall n, node_rel taur steps taur' steps' n) ->
  (forall n, acc' n = option_map sj (acc n)) -> acc_ok k p acc ->
  T3r k p (taur, steps, acc) (taur', steps', acc').
Proof. intros H1 H3 H4. unfold T3r. cbn [fst snd]. auto. Qed.

Lemma node_rel_of_Rtaur taur steps taur' steps' n :
  Rtaur (taur n) (taur' n) -> steps' n = sj (steps n) -> node_rel taur steps taur' steps' n.
Proof.
  intros [[E1 E2]|E] Hs; [right|left; auto]. rewrite E1, E2. unfold LOW. lia.
Qed.

Definition rev_cut (p : params) (k : calc) (all_nodes : bool) (st : rstate) (c : conn) : bool :=
  (negb all_nodes && r_reached st && (k_maxAcc k >=? 0) && (c_arr c <? r_tent st - k_maxAcc k))
  || (k_arr k - c_arr c >? q_maxtt p).
Definition rev_pass (st : rstate) (c : conn) : bool :=
  is_some (o_exit (r_ov st (c_trip c))) || (r_taur st (c_to c) >=? c_arr c).
Definition rev_ov1 (p : params) (st : rstate) (c : conn) : tqd :=
  let ov := r_ov st (c_trip c) in
  let exitc := o_exit ov in
  let tarr := r_taur st (c_to c) in
  if c_cu c then
    let rs := r_steps st (c_to c) in
    if negb (is_some exitc)
    then {| o_usable := o_usable ov; o_enter := o_enter ov; o_enter_w := o_enter_w ov;
            o_exit := Some c; o_exit_w := js_walk rs |}
    else match js_enter rs with
         | Some b =>
             if (js_walk rs >=? 0) && (js_walk rs <? o_exit_w ov) && (c_arr c + minw_eff p b <=? tarr)
             then {| o_usable := o_usable ov; o_enter := o_enter ov; o_enter_w := o_enter_w ov;
                     o_exit := Some c; o_exit_w := js_walk rs |}
             else ov
         | None => ov
         end
  else ov.
(* tv = the tentative departure time recorded at the first access stop.  The model has been stated with
   `c_dep c` and with `c_dep c - minw`; this file is written so that it compiles against either: the closed
   form below leaves that value to a function tf, read off the model by unification. *)
Definition rev_rt (k : calc) (all_nodes : bool) (st : rstate) (c : conn) (tv : Z) : bool * Z :=
  if negb all_nodes && negb (r_reached st) &&
     match row_of (c_from c) (k_accfp k) with Some r => negb (fp_time r =? -1) | None => false end
  then (true, tv) else (r_reached st, r_tent st).

Lemma rev_step_eq_gen :
  exists tf : params -> conn -> Z,
  ((forall p c, tf p c = c_dep c) \/ (forall p c, tf p c = c_dep c - minw_eff p c)) /\
  forall d p k all_nodes st c,
  rev_step d p k all_nodes st c =
  if r_stop st then st else
  if c_arr c <=? k_arr k - (if all_nodes then 0 else k_minEgr k) then
    if o_usable (r_ov st (c_trip c)) && negb (k_disabled k (c_trip c)) then
      if rev_cut p k all_nodes st c
      then {| r_taur := r_taur st; r_steps := r_steps st; r_ov := r_ov st; r_acc := r_acc st;
              r_count := r_count st; r_reached := r_reached st; r_tent := r_tent st; r_stop := true |}
      else
        if rev_pass st c then
          let ov1 := rev_ov1 p st c in
          let ovm := upd (r_ov st) (c_trip c) ov1 in
          if c_cb c && is_some (o_exit ov1) then
            let '(reached1, tent1) := rev_rt k all_nodes st c (tf p c) in
            let '(taur1, steps1, acc1) :=
              fold_left (rev_fp_step p k c (minw_eff p c) (o_exit ov1)) (rfp_of d (c_from c))
                        (r_taur st, r_steps st, r_acc st) in
            {| r_taur := taur1; r_steps := steps1; r_ov := ovm; r_acc := acc1;
               r_count := r_count st + 1; r_reached := reached1; r_tent := tent1; r_stop := false |}
          else
            {| r_taur := r_taur st; r_steps := r_steps st; r_ov := ovm; r_acc := r_acc st;
               r_count := r_count st + 1; r_reached := r_reached st; r_tent := r_tent st; r_stop := false |}
        else st
    else st
  else st.
Proof.
  eexists. split; [|intros d p k all_nodes st c; reflexivity].
  first [left; intros p c; reflexivity | right; intros p c; reflexivity].
Qed.

(* one footpath row: what rev_fp_step does, in closed form *)
Definition fp_upd (c : conn) (minw : Z) (taur : nat -> Z) (r : fprow) : bool :=
  negb (negb (Nat.eqb (c_from c) (fp_node r)) && (taur (fp_node r) >? c_dep c - minw)) &&
  (c_dep c - fp_time r - minw >? taur (fp_node r)).
Definition fp_acc1 (p : params) (k : calc) (c : conn) (minw : Z) (exitc : option conn)
           (acc : nat -> option jstep) (r : fprow) : nat -> option jstep :=
  if Nat.eqb (c_from c) (fp_node r) &&
     match acc (fp_node r) with
     | None => true
     | Some j => match js_enter j with Some b => c_dep b - minw_eff p b <=? c_dep c - minw | None => false end
     end
  then
    if (k_dep k =? -1) ||
       match row_of (c_from c) (k_accfp k) with
       | Some ar => c_dep c - fp_time ar - minw >=? k_dep k | None => false end
    then
      if (k_dep k =? -1) || (q_maxfw p <=? 0) ||
         match row_of (c_from c) (k_accfp k) with
         | Some ar => c_dep c - k_dep k - fp_time ar <=? q_maxfw p | None => false end
      then upd acc (fp_node r) (Some (mk_js (Some c) exitc (c_trip c) 0 true 0))
      else acc
    else acc
  else acc.

Lemma rev_fp_step_shape p k c minw exitc taur steps acc r : (fp_time r <=? q_maxtr p) = true ->
  rev_fp_step p k c minw exitc (taur, steps, acc) r =
  (if fp_upd c minw taur r then upd taur (fp_node r) (c_dep c - fp_time r - minw) else taur,
   if fp_upd c minw taur r
   then upd steps (fp_node r)
            (mk_js (Some c) exitc (c_trip c) (fp_time r) (Nat.eqb (c_from c) (fp_node r)) (fp_dist r))
   else steps,
   fp_acc1 p k c minw exitc acc r).
Proof.
  intros G2. unfold rev_fp_step, fp_upd, fp_acc1. rewrite G2.
  destruct (Nat.eqb (c_from c) (fp_node r)); destruct (taur (fp_node r) >? c_dep c - minw);
    destruct (c_dep c - fp_time r - minw >? taur (fp_node r)); reflexivity.
Qed.

Lemma rev_fp_step_skip p k c minw exitc s r : (fp_time r <=? q_maxtr p) = false ->
  rev_fp_step p k c minw exitc s r = s.
Proof.
  intros G2. destruct s as [[taur steps] acc]. unfold rev_fp_step. rewrite G2.
  destruct (negb (Nat.eqb (c_from c) (fp_node r)) && (taur (fp_node r) >? c_dep c - minw)); reflexivity.
Qed.

Record rrel (k : calc) (p : params) (st st' : rstate) : Prop := {
  rr_node : forall n, node_rel (r_taur st) (r_steps st) (r_taur st') (r_steps st') n;
  rr_ov : forall t, r_ov st' t = so (r_ov st t);
  rr_acc : forall n, r_acc st' n = option_map sj (r_acc st n);
  rr_accok : acc_ok k p (r_acc st);
  rr_count : r_count st' = r_count st;
  rr_reached : r_reached st' = r_reached st;
  rr_tent : r_reached st = true -> r_tent st' = r_tent st + dl;
  rr_stop : r_stop st' = r_stop st }.

Section Rev.
Variables (d : data) (p : params) (k k' : calc) (all_nodes : bool).
Hypothesis Karr : k_arr k' = k_arr k + dl.
Hypothesis Kdep : (k_dep k = -1 /\ k_dep k' = -1) \/ (k_dep k' = k_dep k + dl /\ 0 <= k_dep k /\ 0 <= k_dep k').
Hypothesis KminEgr : k_minEgr k' = k_minEgr k.
Hypothesis KmaxAcc : k_maxAcc k' = k_maxAcc k.
Hypothesis Kdis : forall t, k_disabled k' t = k_disabled k t.
Hypothesis Kaccfp : k_accfp k' = k_accfp k.
Hypothesis Hminw : 0 <= q_minw p.

(* the proviso, per boardable connection c: for arrival-time requests (k_dep = -1) the departure-from-origin
   time through the access row of c's departure stop does not change sign *)
Definition acc_safe (c : conn) : Prop :=
  k_dep k = -1 -> forall ar, row_of (c_from c) (k_accfp k) = Some ar ->
    same_side (c_dep c - fp_time ar - minw_eff p c).

Lemma fp_acc1_sim c exitc acc acc' r :
  (forall n, acc' n = option_map sj (acc n)) ->
  forall n, fp_acc1 p k' (sc c) (minw_eff p c) (option_map sc exitc) acc' r n =
            option_map sj (fp_acc1 p k c (minw_eff p c) exitc acc r n).
Proof.
  intros He n. unfold fp_acc1. cbn [shift_conn c_from c_dep c_trip]. rewrite Kaccfp.
  set (minw := minw_eff p c).
  assert (E4 : match acc' (fp_node r) with
               | None => true
               | Some j => match js_enter j with
                           | Some b => c_dep b - minw_eff p b <=? c_dep c + dl - minw
                           | None => false end
               end =
               match acc (fp_node r) with
               | None => true
               | Some j => match js_enter j with
                           | Some b => c_dep b - minw_eff p b <=? c_dep c - minw
                           | None => false end
               end).
  { rewrite He. destruct (acc (fp_node r)) as [j|]; [|reflexivity]. cbn [option_map shift_js js_enter].
    destruct (js_enter j) as [b|]; [|reflexivity]. cbn [option_map]. rewrite minw_eff_shift.
    cbn [shift_conn c_dep]. apply leb_congr. lia. }
  rewrite E4.
  set (accrow := row_of (c_from c) (k_accfp k)).
  assert (E5 : ((k_dep k' =? -1) ||
                match accrow with Some ar => c_dep c + dl - fp_time ar - minw >=? k_dep k' | None => false end) =
               ((k_dep k =? -1) ||
                match accrow with Some ar => c_dep c - fp_time ar - minw >=? k_dep k | None => false end)).
  { destruct Kdep as [[K1 K2]|(K1 & K2 & K3)].
    - rewrite K1, K2. reflexivity.
    - rewrite K1. replace (k_dep k + dl =? -1) with false by (symmetry; apply Z.eqb_neq; lia).
      replace (k_dep k =? -1) with false by (symmetry; apply Z.eqb_neq; lia).
      destruct accrow as [ar|]; [|reflexivity]. cbn [orb]. apply geb_congr. lia. }
  assert (E6 : ((k_dep k' =? -1) || (q_maxfw p <=? 0) ||
                match accrow with Some ar => c_dep c + dl - k_dep k' - fp_time ar <=? q_maxfw p | None => false end) =
               ((k_dep k =? -1) || (q_maxfw p <=? 0) ||
                match accrow with Some ar => c_dep c - k_dep k - fp_time ar <=? q_maxfw p | None => false end)).
  { destruct Kdep as [[K1 K2]|(K1 & K2 & K3)].
    - rewrite K1, K2. reflexivity.
    - rewrite K1. replace (k_dep k + dl =? -1) with false by (symmetry; apply Z.eqb_neq; lia).
      replace (k_dep k =? -1) with false by (symmetry; apply Z.eqb_neq; lia).
      f_equal. destruct accrow as [ar|]; [|reflexivity]. apply leb_congr. lia. }
  rewrite E5, E6.
  change (Some (sc c)) with (option_map sc (Some c)). rewrite sj_mk_js.
  destruct (Nat.eqb (c_from c) (fp_node r) && _); [|apply He].
  destruct ((k_dep k =? -1) || _); [|apply He].
  destruct ((k_dep k =? -1) || (q_maxfw p <=? 0) || _); [|apply He].
  apply (upd_rel (fun a b => b = option_map sj a)); [assumption|reflexivity].
Qed.

Lemma fp_acc1_ok c exitc acc r :
  acc_ok k p acc -> conn_rng c -> acc_safe c -> acc_ok k p (fp_acc1 p k c (minw_eff p c) exitc acc r).
Proof.
  intros Hg (Hc1 & Hc2 & Hc3 & Hc4) Hb. unfold fp_acc1.
  destruct (Nat.eqb (c_from c) (fp_node r) && _) eqn:G4; [|exact Hg].
  destruct ((k_dep k =? -1) || _) eqn:G5; [|exact Hg].
  destruct ((k_dep k =? -1) || (q_maxfw p <=? 0) || _); [|exact Hg].
  apply andb_prop in G4. destruct G4 as [G4 _]. apply Nat.eqb_eq in G4.
  intros n j b ar. unfold upd. destruct (Nat.eqb_spec n (fp_node r)) as [En|En]; [|apply Hg].
  intros Hj Hb' Hrow. injection Hj as <-. cbn [mk_js js_enter] in Hb'. injection Hb' as <-.
  subst n. rewrite <- G4 in Hrow.
  assert (Q : same_side (c_dep c - fp_time ar - minw_eff p c)).
  { destruct Kdep as [[K1 K2]|(K1 & K2 & K3)].
    - apply (Hb K1 ar Hrow).
    - replace (k_dep k =? -1) with false in G5 by (symmetry; apply Z.eqb_neq; lia). cbn [orb] in G5.
      rewrite Hrow in G5. apply Z.geb_le in G5. left. lia. }
  split; [exact Q|lia].
Qed.

Lemma rev_fp_step_sim c exitc s s' r :
  T3r k p s s' -> conn_rng c -> 0 <= fp_time r -> acc_safe c ->
  T3r k p (rev_fp_step p k c (minw_eff p c) exitc s r)
          (rev_fp_step p k' (sc c) (minw_eff p c) (option_map sc exitc) s' r).
Proof.
  intros H Hc Hr0 Hb.
  destruct s as [[taur steps] acc]. destruct s' as [[taur' steps'] acc'].
  destruct H as (Hn & He & Hg). cbn [fst snd] in Hn, He, Hg.
  destruct (fp_time r <=? q_maxtr p) eqn:G2.
  2:{ rewrite !rev_fp_step_skip by exact G2. apply T3r_mk; assumption. }
  rewrite !rev_fp_step_shape by exact G2.
  apply T3r_mk; [|apply fp_acc1_sim; exact He|apply fp_acc1_ok; assumption].
  destruct Hc as (Hc1 & Hc2 & Hc3 & Hc4).
  pose proof (minw_eff_nonneg p c Hminw) as Hm.
  set (minw := minw_eff p c) in *.
  cbn [shift_conn c_from c_dep c_trip].
  change (Some (sc c)) with (option_map sc (Some c)). rewrite sj_mk_js.
  intros n.
  destruct (Hn (fp_node r)) as [[Et Es]|[J1 J2]].
  - assert (Eb : fp_upd (sc c) minw taur' r = fp_upd c minw taur r).
    { unfold fp_upd. cbn [shift_conn c_from c_dep]. rewrite Et.
      replace (taur (fp_node r) + dl >? c_dep c + dl - minw) with (taur (fp_node r) >? c_dep c - minw)
        by (apply gtb_congr; lia).
      replace (c_dep c + dl - fp_time r - minw >? taur (fp_node r) + dl)
        with (c_dep c - fp_time r - minw >? taur (fp_node r)) by (apply gtb_congr; lia).
      reflexivity. }
    rewrite Eb. destruct (fp_upd c minw taur r); [|apply Hn].
    unfold node_rel, upd. destruct (Nat.eqb n (fp_node r)); [|apply Hn].
    left. split; [lia|reflexivity].
  - destruct (Z.lt_ge_cases (c_dep c - fp_time r - minw) LOW) as [Hv|Hv].
    + (* whatever is written is junk *)
      destruct (Nat.eqb_spec n (fp_node r)) as [En|En].
      * subst n. right.
        destruct (fp_upd c minw taur r); destruct (fp_upd (sc c) minw taur' r);
          unfold upd; rewrite ?Nat.eqb_refl; split; lia.
      * apply Nat.eqb_neq in En.
        destruct (fp_upd c minw taur r); destruct (fp_upd (sc c) minw taur' r);
          unfold node_rel, upd; rewrite ?En; apply Hn.
    + (* a proper ready time: both sides write it *)
      assert (B1 : fp_upd c minw taur r = true).
      { unfold fp_upd.
        replace (taur (fp_node r) >? c_dep c - minw) with false by (symmetry; rewrite Z.gtb_ltb; apply Z.ltb_ge; lia).
        replace (c_dep c - fp_time r - minw >? taur (fp_node r)) with true
          by (symmetry; apply Z.gtb_lt; lia).
        rewrite andb_false_r. reflexivity. }
      assert (B2 : fp_upd (sc c) minw taur' r = true).
      { unfold fp_upd. cbn [shift_conn c_from c_dep].
        replace (taur' (fp_node r) >? c_dep c + dl - minw) with false by (symmetry; rewrite Z.gtb_ltb; apply Z.ltb_ge; lia).
        replace (c_dep c + dl - fp_time r - minw >? taur' (fp_node r)) with true
          by (symmetry; apply Z.gtb_lt; lia).
        rewrite andb_false_r. reflexivity. }
      rewrite B1, B2. unfold node_rel, upd. destruct (Nat.eqb n (fp_node r)); [|apply Hn].
      left. split; [lia|reflexivity].
Qed.

Lemma rev_fp_fold_sim c exitc rows : forall s s',
  T3r k p s s' -> conn_rng c -> (forall r, In r rows -> 0 <= fp_time r) -> acc_safe c ->
  T3r k p (fold_left (rev_fp_step p k c (minw_eff p c) exitc) rows s)
          (fold_left (rev_fp_step p k' (sc c) (minw_eff p c) (option_map sc exitc)) rows s').
Proof.
  induction rows as [|r rows IH]; intros s s' H Hc Hr Hb; [exact H|].
  cbn [fold_left]. apply IH; [|exact Hc|intros x Hx; apply Hr; right; exact Hx|exact Hb].
  apply rev_fp_step_sim; [exact H|exact Hc|apply Hr; left; reflexivity|exact Hb].
Qed.

Lemma rev_cut_sim st st' c : rrel k p st st' ->
  rev_cut p k' all_nodes st' (sc c) = rev_cut p k all_nodes st c.
Proof.
  intros H. unfold rev_cut. rewrite (rr_reached _ _ _ _ H), KmaxAcc, Karr. cbn [shift_conn c_arr].
  replace (k_arr k + dl - (c_arr c + dl) >? q_maxtt p) with (k_arr k - c_arr c >? q_maxtt p)
    by (apply gtb_congr; lia).
  f_equal.
  destruct (r_reached st) eqn:Er.
  - rewrite (rr_tent _ _ _ _ H Er).
    replace (c_arr c + dl <? r_tent st + dl - k_maxAcc k) with (c_arr c <? r_tent st - k_maxAcc k)
      by (apply ltb_congr; lia).
    reflexivity.
  - rewrite !andb_false_r. reflexivity.
Qed.

Lemma rev_pass_sim st st' c : rrel k p st st' -> conn_rng c -> rev_pass st' (sc c) = rev_pass st c.
Proof.
  intros H (Hc1 & Hc2 & Hc3 & Hc4). unfold rev_pass. cbn [shift_conn c_trip c_to c_arr].
  rewrite (rr_ov _ _ _ _ H). cbn [shift_tqd o_exit]. rewrite is_some_map. f_equal.
  apply geb_congr. destruct (rr_node _ _ _ _ H (c_to c)) as [[E1 _]|[J1 J2]]; [rewrite E1; lia|].
  unfold LOW in *. lia.
Qed.

Lemma rev_ov1_sim st st' c : rrel k p st st' -> conn_rng c -> rev_pass st c = true ->
  rev_ov1 p st' (sc c) = so (rev_ov1 p st c).
Proof.
  intros H (Hc1 & Hc2 & Hc3 & Hc4) Hpass. unfold rev_ov1. cbn [shift_conn c_cu c_trip c_to c_arr].
  rewrite (rr_ov _ _ _ _ H).
  cbn [shift_tqd o_exit o_enter o_usable o_enter_w o_exit_w]. rewrite is_some_map.
  destruct (c_cu c); [|reflexivity].
  unfold rev_pass in Hpass.
  destruct (is_some (o_exit (r_ov st (c_trip c)))) eqn:Ex; cbn [negb orb] in *.
  - (* the trip already has an exit *)
    destruct (rr_node _ _ _ _ H (c_to c)) as [[E1 E2]|[J1 J2]].
    + rewrite E1, E2. cbn [shift_js js_enter js_walk].
      destruct (js_enter (r_steps st (c_to c))) as [b|]; cbn [option_map]; [|reflexivity].
      rewrite minw_eff_shift.
      replace (c_arr c + dl + minw_eff p b <=? r_taur st (c_to c) + dl)
        with (c_arr c + minw_eff p b <=? r_taur st (c_to c)) by (apply leb_congr; lia).
      destruct ((js_walk (r_steps st (c_to c)) >=? 0) &&
                (js_walk (r_steps st (c_to c)) <? o_exit_w (r_ov st (c_trip c))) &&
                (c_arr c + minw_eff p b <=? r_taur st (c_to c))); reflexivity.
    + (* junk label: the update is refused on both sides *)
      assert (R1 : match js_enter (r_steps st (c_to c)) with
                   | Some b =>
                       if (js_walk (r_steps st (c_to c)) >=? 0) &&
                          (js_walk (r_steps st (c_to c)) <? o_exit_w (r_ov st (c_trip c))) &&
                          (c_arr c + minw_eff p b <=? r_taur st (c_to c))
                       then {| o_usable := o_usable (r_ov st (c_trip c)); o_enter := o_enter (r_ov st (c_trip c));
                               o_enter_w := o_enter_w (r_ov st (c_trip c)); o_exit := Some c;
                               o_exit_w := js_walk (r_steps st (c_to c)) |}
                       else r_ov st (c_trip c)
                   | None => r_ov st (c_trip c)
                   end = r_ov st (c_trip c)).
      { destruct (js_enter (r_steps st (c_to c))) as [b|]; [|reflexivity].
        pose proof (minw_eff_nonneg p b Hminw) as Hm.
        replace (c_arr c + minw_eff p b <=? r_taur st (c_to c)) with false
          by (symmetry; apply Z.leb_gt; unfold LOW in *; lia).
        rewrite andb_false_r. reflexivity. }
      rewrite R1.
      destruct (js_enter (r_steps st' (c_to c))) as [b'|]; [|reflexivity].
      pose proof (minw_eff_nonneg p b' Hminw) as Hm.
      replace (c_arr c + dl + minw_eff p b' <=? r_taur st' (c_to c)) with false
        by (symmetry; apply Z.leb_gt; unfold LOW in *; lia).
      rewrite andb_false_r. reflexivity.
  - (* first exit of the trip: the label let c through, so it is not junk *)
    apply Z.geb_le in Hpass.
    destruct (rr_node _ _ _ _ H (c_to c)) as [[E1 E2]|[J1 J2]]; [|unfold LOW in *; lia].
    rewrite E2. reflexivity.
Qed.

Lemma rev_rt_sim st st' c tv tv' : rrel k p st st' -> tv' = tv + dl ->
  fst (rev_rt k' all_nodes st' (sc c) tv') = fst (rev_rt k all_nodes st c tv) /\
  (fst (rev_rt k all_nodes st c tv) = true ->
   snd (rev_rt k' all_nodes st' (sc c) tv') = snd (rev_rt k all_nodes st c tv) + dl).
Proof.
  intros H ->. unfold rev_rt. rewrite (rr_reached _ _ _ _ H), Kaccfp. cbn [shift_conn c_from c_dep].
  destruct (negb all_nodes && negb (r_reached st) &&
            match row_of (c_from c) (k_accfp k) with Some r => negb (fp_time r =? -1) | None => false end);
    cbn [fst snd].
  - split; [reflexivity|]. intros _. reflexivity.
  - split; [reflexivity|apply (rr_tent _ _ _ _ H)].
Qed.

Definition rconn_ok (c : conn) : Prop :=
  conn_rng c /\ (c_cb c = true -> (forall r, In r (rfp_of d (c_from c)) -> 0 <= fp_time r) /\ acc_safe c).

Theorem rev_step_sim st st' c :
  rrel k p st st' -> rconn_ok c ->
  rrel k p (rev_step d p k all_nodes st c) (rev_step d p k' all_nodes st' (sc c)).
Proof.
  intros H [Hc Hsafe]. destruct rev_step_eq_gen as (tf & Htf & rev_step_eq).
  rewrite !rev_step_eq. rewrite (rr_stop _ _ _ _ H).
  destruct (r_stop st) eqn:Es; [exact H|].
  rewrite (rev_cut_sim st st' c H), (rev_pass_sim st st' c H Hc).
  assert (Htv : tf p (sc c) = tf p c + dl).
  { destruct Htf as [Htf|Htf]; rewrite !Htf; [reflexivity|]. rewrite minw_eff_shift. cbn [shift_conn c_dep]. lia. }
  pose proof (rev_rt_sim st st' c _ _ H Htv) as [Hr1 Hr2].
  rewrite minw_eff_shift.
  cbn [shift_conn c_arr c_trip c_from c_cb].
  rewrite Karr, KminEgr, Kdis, (rr_ov _ _ _ _ H). cbn [shift_tqd o_usable].
  replace (c_arr c + dl <=? k_arr k + dl - (if all_nodes then 0 else k_minEgr k))
    with (c_arr c <=? k_arr k - (if all_nodes then 0 else k_minEgr k)) by (apply leb_congr; lia).
  destruct (c_arr c <=? k_arr k - (if all_nodes then 0 else k_minEgr k)); [|exact H].
  destruct (o_usable (r_ov st (c_trip c)) && negb (k_disabled k (c_trip c))); [|exact H].
  destruct (rev_cut p k all_nodes st c).
  { constructor; cbn [r_taur r_steps r_ov r_acc r_count r_reached r_tent r_stop]; try apply H. reflexivity. }
  destruct (rev_pass st c) eqn:Epass; [|exact H].
  rewrite (rev_ov1_sim st st' c H Hc Epass).
  cbv zeta. set (ov1 := rev_ov1 p st c). cbn [shift_tqd o_exit]. rewrite is_some_map.
  assert (Hov : forall t, upd (r_ov st') (c_trip c) (so ov1) t = so (upd (r_ov st) (c_trip c) ov1 t)).
  { apply (upd_rel (fun a b => b = so a)); [apply H|reflexivity]. }
  destruct (c_cb c && is_some (o_exit ov1)) eqn:Ecb.
  - apply andb_prop in Ecb. destruct Ecb as [Ecb _]. destruct (Hsafe Ecb) as [Hfp Hacc].
    destruct (rev_rt k all_nodes st c (tf p c)) as [re te].
    destruct (rev_rt k' all_nodes st' (sc c) (tf p (sc c))) as [re' te'].
    cbn [fst snd] in Hr1, Hr2.
    assert (HT0 : T3r k p (r_taur st, r_steps st, r_acc st) (r_taur st', r_steps st', r_acc st'))
      by (apply T3r_mk; apply H).
    pose proof (rev_fp_fold_sim c (o_exit ov1) (rfp_of d (c_from c)) _ _ HT0 Hc Hfp Hacc) as HT.
    destruct (fold_left (rev_fp_step p k c (minw_eff p c) (o_exit ov1)) (rfp_of d (c_from c))
                (r_taur st, r_steps st, r_acc st)) as [[t1 s1] e1].
    destruct (fold_left (rev_fp_step p k' (sc c) (minw_eff p c) (option_map sc (o_exit ov1)))
                (rfp_of d (c_from c)) (r_taur st', r_steps st', r_acc st')) as [[t1' s1'] e1'].
    destruct HT as (HT1 & HT3 & HT4). cbn [fst snd] in HT1, HT3, HT4.
    constructor; cbn [r_taur r_steps r_ov r_acc r_count r_reached r_tent r_stop]; auto.
    rewrite (rr_count _ _ _ _ H). reflexivity.
  - constructor; cbn [r_taur r_steps r_ov r_acc r_count r_reached r_tent r_stop]; try apply H; auto.
    rewrite (rr_count _ _ _ _ H). reflexivity.
Qed.

Theorem rev_fold_sim : forall l st st',
  rrel k p st st' -> (forall c, In c l -> rconn_ok c) ->
  rrel k p (fold_left (rev_step d p k all_nodes) l st)
           (fold_left (rev_step d p k' all_nodes) (map sc l) st').
Proof.
  induction l as [|c l IH]; intros st st' H Hl; [exact H|].
  cbn [map fold_left]. apply IH; [|intros x Hx; apply Hl; right; exact Hx].
  apply rev_step_sim; [exact H|apply Hl; left; reflexivity].
Qed.
End Rev.

(* ---------------------------------------------------------------------------------------------- *)
(* a one-sided invariant of the reverse scan: every stored alighting connection points at a stop whose
   label is a proper clock value (not junk).  rebuild only ever follows such pointers.               *)

Definition exit_good (taur : nat -> Z) (o : option conn) : Prop :=
  forall e, o = Some e -> LOW <= taur (c_to e).

Lemma exit_good_mono taur taur1 o : (forall n, taur n <= taur1 n) -> exit_good taur o -> exit_good taur1 o.
Proof. intros Hm H e He. specialize (H e He). specialize (Hm (c_to e)). lia. Qed.

Record rgood (st : rstate) : Prop := {
  rg_steps : forall n, exit_good (r_taur st) (js_exit (r_steps st n));
  rg_acc : forall n j, r_acc st n = Some j -> exit_good (r_taur st) (js_exit j);
  rg_ov : forall t, exit_good (r_taur st) (o_exit (r_ov st t)) }.

Definition good3 (s : (nat -> Z) * (nat -> jstep) * (nat -> option jstep)) : Prop :=
  (forall n, exit_good (fst (fst s)) (js_exit (snd (fst s) n))) /\
  (forall n j, snd s n = Some j -> exit_good (fst (fst s)) (js_exit j)).

Lemma rev_fp_step_good p k c minw exitc s r :
  good3 s -> exit_good (fst (fst s)) exitc ->
  (forall n, fst (fst s) n <= fst (fst (rev_fp_step p k c minw exitc s r)) n) /\
  good3 (rev_fp_step p k c minw exitc s r).
Proof.
  intros [Hs Ha] He. destruct s as [[taur steps] acc]. cbn [fst snd] in Hs, Ha, He.
  destruct (fp_time r <=? q_maxtr p) eqn:G2.
  2:{ rewrite rev_fp_step_skip by exact G2. cbn [fst snd]. split; [intros n; lia|split; assumption]. }
  rewrite rev_fp_step_shape by exact G2. cbn [fst snd].
  assert (Hmono : forall n, taur n <= (if fp_upd c minw taur r
                                       then upd taur (fp_node r) (c_dep c - fp_time r - minw) else taur) n).
  { intros n. destruct (fp_upd c minw taur r) eqn:B; [|lia].
    unfold fp_upd in B. apply andb_prop in B. destruct B as [_ B]. apply Z.gtb_lt in B.
    unfold upd. destruct (Nat.eqb_spec n (fp_node r)) as [->|]; lia. }
  split; [exact Hmono|]. split; cbn [fst snd].
  - intros n. apply (exit_good_mono taur); [exact Hmono|].
    destruct (fp_upd c minw taur r); [|apply Hs].
    unfold upd. destruct (Nat.eqb n (fp_node r)); [exact He|apply Hs].
  - intros n j Hj. apply (exit_good_mono taur); [exact Hmono|].
    unfold fp_acc1 in Hj.
    destruct (Nat.eqb (c_from c) (fp_node r) && _); [|exact (Ha n j Hj)].
    destruct ((k_dep k =? -1) || _); [|exact (Ha n j Hj)].
    destruct ((k_dep k =? -1) || (q_maxfw p <=? 0) || _); [|exact (Ha n j Hj)].
    unfold upd in Hj. destruct (Nat.eqb n (fp_node r)); [|exact (Ha n j Hj)].
    injection Hj as <-. exact He.
Qed.

Lemma rev_fp_fold_good p k c minw exitc rows : forall s,
  good3 s -> exit_good (fst (fst s)) exitc ->
  (forall n, fst (fst s) n <= fst (fst (fold_left (rev_fp_step p k c minw exitc) rows s)) n) /\
  good3 (fold_left (rev_fp_step p k c minw exitc) rows s).
Proof.
  induction rows as [|r rows IH]; intros s Hg He; [split; [intros n; cbn [fold_left]; lia|exact Hg]|].
  cbn [fold_left]. destruct (rev_fp_step_good p k c minw exitc s r Hg He) as [Hm1 Hg1].
  destruct (IH _ Hg1 (exit_good_mono _ _ _ Hm1 He)) as [Hm2 Hg2].
  split; [|exact Hg2]. intros n. specialize (Hm1 n). specialize (Hm2 n). lia.
Qed.

Lemma rev_ov1_good p st c : 0 <= q_minw p -> rgood st -> rev_pass st c = true -> LOW <= c_arr c ->
  exit_good (r_taur st) (o_exit (rev_ov1 p st c)).
Proof.
  intros Hminw Hg Hpass Hc. unfold rev_ov1.
  destruct (c_cu c); [|apply (rg_ov _ Hg)].
  unfold rev_pass in Hpass.
  destruct (is_some (o_exit (r_ov st (c_trip c)))) eqn:Ex; cbn [negb orb] in *.
  - destruct (js_enter (r_steps st (c_to c))) as [b|]; [|apply (rg_ov _ Hg)].
    pose proof (minw_eff_nonneg p b Hminw) as Hm.
    destruct (Z.leb_spec (c_arr c + minw_eff p b) (r_taur st (c_to c))) as [G|G].
    + destruct (_ && _ && true); [|apply (rg_ov _ Hg)].
      cbn [o_exit]. intros e E. injection E as <-. lia.
    + rewrite andb_false_r. apply (rg_ov _ Hg).
  - apply Z.geb_le in Hpass. cbn [o_exit]. intros e E. injection E as <-. lia.
Qed.

Theorem rev_step_good d p k all_nodes st c :
  0 <= q_minw p -> rgood st -> LOW <= c_arr c -> rgood (rev_step d p k all_nodes st c).
Proof.
  intros Hminw Hg Hc. destruct rev_step_eq_gen as (tf & _ & rev_step_eq). rewrite rev_step_eq.
  destruct (r_stop st); [exact Hg|].
  destruct (c_arr c <=? k_arr k - (if all_nodes then 0 else k_minEgr k)); [|exact Hg].
  destruct (o_usable (r_ov st (c_trip c)) && negb (k_disabled k (c_trip c))); [|exact Hg].
  destruct (rev_cut p k all_nodes st c).
  { constructor; cbn [r_taur r_steps r_ov r_acc]; apply Hg. }
  destruct (rev_pass st c) eqn:Epass; [|exact Hg].
  cbv zeta. pose proof (rev_ov1_good p st c Hminw Hg Epass Hc) as Hov1.
  set (ov1 := rev_ov1 p st c) in *.
  assert (Hovm : forall t, exit_good (r_taur st) (o_exit (upd (r_ov st) (c_trip c) ov1 t))).
  { intros t. unfold upd. destruct (Nat.eqb t (c_trip c)); [exact Hov1|apply (rg_ov _ Hg)]. }
  destruct (c_cb c && is_some (o_exit ov1)).
  - destruct (rev_rt k all_nodes st c (tf p c)) as [re te].
    assert (Hg3 : good3 (r_taur st, r_steps st, r_acc st)).
    { split; cbn [fst snd]; [apply (rg_steps _ Hg)|apply (rg_acc _ Hg)]. }
    destruct (rev_fp_fold_good p k c (minw_eff p c) (o_exit ov1) (rfp_of d (c_from c)) _ Hg3 Hov1) as [Hm [G1 G2]].
    destruct (fold_left (rev_fp_step p k c (minw_eff p c) (o_exit ov1)) (rfp_of d (c_from c))
                (r_taur st, r_steps st, r_acc st)) as [[t1 s1] e1].
    cbn [fst snd] in Hm, G1, G2.
    constructor; cbn [r_taur r_steps r_ov r_acc]; [exact G1|exact G2|].
    intros t. apply (exit_good_mono (r_taur st)); [exact Hm|apply Hovm].
  - constructor; cbn [r_taur r_steps r_ov r_acc]; [apply Hg|apply Hg|exact Hovm].
Qed.

Theorem rev_fold_good d p k all_nodes : forall l st,
  0 <= q_minw p -> rgood st -> (forall c, In c l -> LOW <= c_arr c) ->
  rgood (fold_left (rev_step d p k all_nodes) l st).
Proof.
  induction l as [|c l IH]; intros st Hminw Hg Hl; [exact Hg|].
  cbn [fold_left]. apply IH; [exact Hminw| |intros x Hx; apply Hl; right; exact Hx].
  apply rev_step_good; [exact Hminw|exact Hg|apply Hl; left; reflexivity].
Qed.

(* the forward scan never sets a trip's exit connection *)
Lemma fwd_step_no_exit d p k all_nodes st c :
  (forall t, o_exit (f_ov st t) = None) -> forall t, o_exit (f_ov (fwd_step d p k all_nodes st c) t) = None.
Proof.
  intros H. rewrite fwd_step_eq.
  destruct (f_stop st); [exact H|].
  destruct (c_dep c >=? k_dep k + k_minAcc k); [|exact H].
  destruct (k_disabled k (c_trip c)); [exact H|].
  destruct (fwd_cut p k all_nodes st c); [exact H|].
  destruct (fwd_pass p k st c); [|exact H].
  cbv zeta.
  assert (Hov : forall t, o_exit (upd (f_ov st) (c_trip c) (fwd_ov1 st c) t) = None).
  { intros t. unfold upd. destruct (Nat.eqb t (c_trip c)); [|apply H].
    unfold fwd_ov1. destruct (c_cb c && negb (is_some (o_enter (f_ov st (c_trip c))))); [cbn [o_exit]|]; apply H. }
  destruct (c_cu c && is_some (o_enter (fwd_ov1 st c))).
  - destruct (fwd_rt k all_nodes st c) as [re te].
    destruct (fold_left _ _ _) as [[t1 s1] e1]. cbn [f_ov]. exact Hov.
  - cbn [f_ov]. exact Hov.
Qed.

Lemma fwd_fold_no_exit d p k all_nodes : forall l st,
  (forall t, o_exit (f_ov st t) = None) ->
  forall t, o_exit (f_ov (fold_left (fwd_step d p k all_nodes) l st) t) = None.
Proof.
  induction l as [|c l IH]; intros st H; [exact H|].
  cbn [fold_left]. apply IH. apply fwd_step_no_exit. exact H.
Qed.

(* ============================================================================================== *)
(* Part 4: selection of the best egress / access, rebuild, optimize, emit                           *)

Definition shift_best (b : option (Z * nat)) : option (Z * nat) :=
  match b with Some (t, n) => Some (t + dl, n) | None => None end.

Lemma row_of_in : forall n l r, row_of n l = Some r -> In r l /\ fp_node r = n.
Proof.
  intros n. induction l as [|x l IH]; intros r H; [discriminate|].
  cbn [row_of] in H. destruct (Nat.eqb_spec (fp_node x) n) as [E|E].
  - injection H as <-. split; [left; reflexivity|exact E].
  - destruct (IH r H) as [H1 H2]. split; [right; exact H1|exact H2].
Qed.

Definition egr_pick (p : params) (k : calc) (st : fstate) (best : option (Z * nat)) (r : fprow) : option (Z * nat) :=
  match f_egr st (fp_node r) with
  | Some j =>
      match js_exit j, row_of (fp_node r) (k_egrfp k) with
      | Some e, Some er =>
          let t := c_arr e + fp_time er in
          let b := match best with Some (bt, _) => bt | None => MAX_INT end in
          if (t >=? 0) && (t - k_dep k <=? q_maxtt p) && (t <? b) && (t <? MAX_INT)
          then Some (t, fp_node er) else best
      | _, _ => best
      end
  | None => best
  end.
Lemma best_egress_eq p k st : best_egress p k st = fold_left (egr_pick p k st) (k_egrfp k) None.
Proof. reflexivity. Qed.

Lemma egr_pick_sim p k k' st st' b r :
  frel st st' -> k_dep k' = k_dep k + dl -> k_egrfp k' = k_egrfp k ->
  (forall r, In r (k_egrfp k) -> 0 <= fp_time r < 32768) ->
  egr_pick p k' st' (shift_best b) r = shift_best (egr_pick p k st b r).
Proof.
  intros H Kdep Kegr Hrows. unfold egr_pick. rewrite Kegr, Kdep.
  rewrite (fr_egr _ _ H). destruct (f_egr st (fp_node r)) as [j|] eqn:Ej; cbn [option_map]; [|reflexivity].
  cbn [shift_js js_exit]. destruct (js_exit j) as [e|] eqn:Ee; cbn [option_map]; [|reflexivity].
  destruct (row_of (fp_node r) (k_egrfp k)) as [er|] eqn:Er; [|reflexivity].
  destruct (row_of_in _ _ _ Er) as [Hin _]. pose proof (Hrows er Hin) as Her.
  destruct (fr_rng _ _ H _ _ _ Ej Ee) as [He1 He2].
  cbn [shift_conn c_arr]. cbv zeta.
  assert (E : ((c_arr e + dl + fp_time er >=? 0) && (c_arr e + dl + fp_time er - (k_dep k + dl) <=? q_maxtt p) &&
               (c_arr e + dl + fp_time er <? match shift_best b with Some (bt, _) => bt | None => MAX_INT end) &&
               (c_arr e + dl + fp_time er <? MAX_INT)) =
              ((c_arr e + fp_time er >=? 0) && (c_arr e + fp_time er - k_dep k <=? q_maxtt p) &&
               (c_arr e + fp_time er <? match b with Some (bt, _) => bt | None => MAX_INT end) &&
               (c_arr e + fp_time er <? MAX_INT))).
  { f_equal; [f_equal; [f_equal|]|].
    - apply geb_congr. unfold CLOCK_MAX in *. lia.
    - apply leb_congr. lia.
    - apply ltb_congr. destruct b as [[bt bn]|]; cbn [shift_best]; unfold CLOCK_MAX, MAX_INT in *; lia.
    - apply ltb_congr. unfold CLOCK_MAX, MAX_INT in *; lia. }
  rewrite E.
  destruct ((c_arr e + fp_time er >=? 0) && (c_arr e + fp_time er - k_dep k <=? q_maxtt p) &&
            (c_arr e + fp_time er <? match b with Some (bt, _) => bt | None => MAX_INT end) &&
            (c_arr e + fp_time er <? MAX_INT)); [|reflexivity].
  cbn [shift_best]. f_equal. f_equal. lia.
Qed.

Theorem best_egress_sim p k k' st st' :
  frel st st' -> k_dep k' = k_dep k + dl -> k_egrfp k' = k_egrfp k ->
  (forall r, In r (k_egrfp k) -> 0 <= fp_time r < 32768) ->
  best_egress p k' st' = shift_best (best_egress p k st).
Proof.
  intros H Kdep Kegr Hrows. rewrite !best_egress_eq, Kegr.
  change (@None (Z * nat)) with (shift_best None) at 1.
  generalize (@None (Z * nat)) as b. generalize (k_egrfp k) as l.
  induction l as [|r l IH]; intros b; [reflexivity|].
  cbn [fold_left]. rewrite (egr_pick_sim p k k' st st' b r H Kdep Kegr Hrows). apply IH.
Qed.

Definition acc_pick (p : params) (k : calc) (st : rstate) (best : option (Z * nat)) (r : fprow) : option (Z * nat) :=
  match r_acc st (fp_node r) with
  | Some j =>
      match js_enter j, row_of (fp_node r) (k_accfp k) with
      | Some b, Some ar =>
          let t := c_dep b - fp_time ar - minw_eff p b in
          let bt := match best with Some (x, _) => x | None => -1 end in
          if (t >=? 0) && (k_arr k - t <=? q_maxtt p) && (t >? bt) && (t <? MAX_INT)
          then Some (t, fp_node ar) else best
      | _, _ => best
      end
  | None => best
  end.
Lemma best_access_eq p k st : best_access p k st = fold_left (acc_pick p k st) (k_accfp k) None.
Proof. reflexivity. Qed.

Lemma acc_pick_sim p k k' st st' b r :
  rrel k p st st' -> k_arr k' = k_arr k + dl -> k_accfp k' = k_accfp k -> 0 <= q_minw p ->
  (forall r, In r (k_accfp k) -> 0 <= fp_time r) ->
  (forall bt bn, b = Some (bt, bn) -> 0 <= bt /\ 0 <= bt + dl) ->
  acc_pick p k' st' (shift_best b) r = shift_best (acc_pick p k st b r) /\
  (forall bt bn, acc_pick p k st b r = Some (bt, bn) -> 0 <= bt /\ 0 <= bt + dl).
Proof.
  intros H Karr Kacc Hminw Hrows Hb. unfold acc_pick. rewrite Kacc, Karr.
  rewrite (rr_acc _ _ _ _ H). destruct (r_acc st (fp_node r)) as [j|] eqn:Ej; cbn [option_map]; [|auto].
  cbn [shift_js js_enter]. destruct (js_enter j) as [c|] eqn:Ee; cbn [option_map]; [|auto].
  destruct (row_of (fp_node r) (k_accfp k)) as [ar|] eqn:Er; [|auto].
  destruct (row_of_in _ _ _ Er) as [Hin _]. pose proof (Hrows ar Hin) as Har.
  destruct (rr_accok _ _ _ _ H _ _ _ _ Ej Ee Er) as (Q1 & Q3 & Q4). unfold same_side in Q1.
  pose proof (minw_eff_nonneg p c Hminw) as Hm.
  rewrite minw_eff_shift. cbn [shift_conn c_dep]. cbv zeta.
  set (t := c_dep c - fp_time ar - minw_eff p c) in *.
  assert (E : ((c_dep c + dl - fp_time ar - minw_eff p c >=? 0) &&
               (k_arr k + dl - (c_dep c + dl - fp_time ar - minw_eff p c) <=? q_maxtt p) &&
               (c_dep c + dl - fp_time ar - minw_eff p c >? match shift_best b with Some (x, _) => x | None => -1 end) &&
               (c_dep c + dl - fp_time ar - minw_eff p c <? MAX_INT)) =
              ((t >=? 0) && (k_arr k - t <=? q_maxtt p) &&
               (t >? match b with Some (x, _) => x | None => -1 end) && (t <? MAX_INT))).
  { f_equal; [f_equal; [f_equal|]|].
    - apply geb_congr. lia.
    - apply leb_congr. lia.
    - apply gtb_congr. destruct b as [[bt bn]|]; cbn [shift_best]; lia.
    - apply ltb_congr. unfold CLOCK_MAX, MAX_INT in *; lia. }
  rewrite E.
  destruct ((t >=? 0) && (k_arr k - t <=? q_maxtt p) &&
            (t >? match b with Some (x, _) => x | None => -1 end) && (t <? MAX_INT)); [|auto].
  split.
  - cbn [shift_best]. f_equal. f_equal. lia.
  - intros bt bn E'. injection E' as <- _. lia.
Qed.

Theorem best_access_sim p k k' st st' :
  rrel k p st st' -> k_arr k' = k_arr k + dl -> k_accfp k' = k_accfp k -> 0 <= q_minw p ->
  (forall r, In r (k_accfp k) -> 0 <= fp_time r) ->
  best_access p k' st' = shift_best (best_access p k st).
Proof.
  intros H Karr Kacc Hminw Hrows. rewrite !best_access_eq, Kacc.
  change (@None (Z * nat)) with (shift_best None) at 1.
  assert (Hb : forall bt bn, @None (Z * nat) = Some (bt, bn) -> 0 <= bt /\ 0 <= bt + dl) by (intros; discriminate).
  revert Hb. generalize (@None (Z * nat)) as b. generalize (k_accfp k) as l.
  induction l as [|r l IH]; intros b Hb; [reflexivity|].
  cbn [fold_left].
  destruct (acc_pick_sim p k k' st st' b r H Karr Kacc Hminw Hrows Hb) as [E1 E2].
  rewrite E1. apply IH. exact E2.
Qed.

(* ---------------------------------------------------------------------------------------------- *)
(* rebuild                                                                                          *)

Lemma set_last_walk_shift : forall l w dd, set_last_walk (map sj l) w dd = map sj (set_last_walk l w dd).
Proof.
  induction l as [|x l IH]; intros w dd; [reflexivity|].
  destruct l as [|y l']; [reflexivity|].
  change (map sj (x :: y :: l')) with (sj x :: map sj (y :: l')).
  change (set_last_walk (sj x :: map sj (y :: l')) w dd) with (sj x :: set_last_walk (map sj (y :: l')) w dd).
  rewrite IH. reflexivity.
Qed.

Definition shift_legs (r : list jstep * option nat) : list jstep * option nat := (map sj (fst r), snd r).

Theorem rebuild_shift steps steps' : (forall n, steps' n = sj (steps n)) ->
  forall fuel cur acc last,
    rebuild fuel steps' (sj cur) (map sj acc) last = option_map shift_legs (rebuild fuel steps cur acc last).
Proof.
  intros Hs. induction fuel as [|f IH]; intros cur acc last.
  - cbn [rebuild shift_js js_enter js_exit]. destruct (js_enter cur), (js_exit cur); reflexivity.
  - cbn [rebuild shift_js js_enter js_exit js_walk js_dist].
    destruct (js_enter cur) as [b|] eqn:Eb; cbn [option_map]; [|reflexivity].
    destruct (js_exit cur) as [e|] eqn:Ee; cbn [option_map]; [|reflexivity].
    cbn [shift_conn c_to]. rewrite Hs.
    replace (match map sj acc with [] => [] | _ :: _ => set_last_walk (map sj acc) (js_walk cur) (js_dist cur) end
             ++ [sj cur])
      with (map sj (match acc with [] => [] | _ :: _ => set_last_walk acc (js_walk cur) (js_dist cur) end ++ [cur])).
    + apply IH.
    + rewrite map_app. f_equal.
      destruct acc as [|a acc']; [reflexivity|]. rewrite <- set_last_walk_shift. reflexivity.
Qed.

(* the same when the stored steps agree only at the stops whose label is a proper clock value: rebuild follows
   alighting connections, and those point at such stops (exit_good) *)
Theorem rebuild_shift2 taur steps taur' steps' :
  (forall n, node_rel taur steps taur' steps' n) ->
  (forall n, exit_good taur (js_exit (steps n))) ->
  forall fuel cur acc last, exit_good taur (js_exit cur) ->
    rebuild fuel steps' (sj cur) (map sj acc) last = option_map shift_legs (rebuild fuel steps cur acc last).
Proof.
  intros Hn Hs. induction fuel as [|f IH]; intros cur acc last Hc.
  - cbn [rebuild shift_js js_enter js_exit]. destruct (js_enter cur), (js_exit cur); reflexivity.
  - cbn [rebuild shift_js js_enter js_exit js_walk js_dist].
    destruct (js_enter cur) as [b|] eqn:Eb; cbn [option_map]; [|reflexivity].
    destruct (js_exit cur) as [e|] eqn:Ee; cbn [option_map]; [|reflexivity].
    cbn [shift_conn c_to]. specialize (Hc e eq_refl).
    destruct (Hn (c_to e)) as [[_ E]|[J _]]; [|lia]. rewrite E.
    replace (match map sj acc with [] => [] | _ :: _ => set_last_walk (map sj acc) (js_walk cur) (js_dist cur) end
             ++ [sj cur])
      with (map sj (match acc with [] => [] | _ :: _ => set_last_walk acc (js_walk cur) (js_dist cur) end ++ [cur])).
    + apply IH. apply Hs.
    + rewrite map_app. f_equal.
      destruct acc as [|a acc']; [reflexivity|]. rewrite <- set_last_walk_shift. reflexivity.
Qed.

(* ---------------------------------------------------------------------------------------------- *)
(* optimize: the rewrites look at stops, sequences and the boarding / alighting flags only          *)

Lemma between_nodes_shift : forall cnt tf s first last,
  between_nodes (map sc tf) s cnt first last = between_nodes tf s cnt first last.
Proof.
  induction cnt as [|cnt IH]; intros tf s first last; [reflexivity|].
  cbn [between_nodes]. rewrite nth_error_map. destruct (nth_error tf s) as [c|]; cbn [option_map]; [|reflexivity].
  rewrite IH. reflexivity.
Qed.

Lemma leg_summary_shift d j : leg_summary (shift_data dl d) (sj j) = leg_summary d j.
Proof.
  unfold leg_summary. cbn [shift_js js_trip js_enter js_exit].
  destruct (js_trip j) as [t|]; [|reflexivity].
  destruct (js_enter j) as [en|]; cbn [option_map]; [|reflexivity].
  destruct (js_exit j) as [ex|]; cbn [option_map]; [|reflexivity].
  rewrite trip_fwd_shift, between_nodes_shift. reflexivity.
Qed.

Lemma detect_shift d ign : forall js idx prev,
  detect (shift_data dl d) ign (map sj js) idx prev = detect d ign js idx prev.
Proof.
  induction js as [|j r IH]; intros idx prev; [reflexivity|].
  cbn [map detect]. rewrite leg_summary_shift.
  destruct (leg_summary d j) as [[sm|]|]; [|apply IH|reflexivity].
  destruct (detect_inner ign prev 0 sm) as [[[cs n] i]|]; [reflexivity|apply IH].
Qed.

Lemma rev_range_shift : forall cnt tr sz e,
  rev_range (map sc tr) sz e cnt = option_map (map sc) (rev_range tr sz e cnt).
Proof.
  induction cnt as [|cnt IH]; intros tr sz e; [destruct e; reflexivity|].
  destruct e as [|e']; cbn [rev_range]; rewrite nth_error_map.
  - destruct (nth_error tr (sz - 1 - 0)) as [c|]; cbn [option_map]; [|reflexivity]. destruct cnt; reflexivity.
  - destruct (nth_error tr (sz - 1 - S e')) as [c|]; cbn [option_map]; [|reflexivity].
    rewrite IH. destruct (rev_range tr sz e' cnt); reflexivity.
Qed.

Lemma leg_range_shift d j : leg_range (shift_data dl d) (sj j) = option_map (map sc) (leg_range d j).
Proof.
  unfold leg_range. cbn [shift_js js_trip js_enter js_exit].
  destruct (js_trip j) as [t|]; [|reflexivity].
  destruct (js_enter j) as [en|]; cbn [option_map]; [|reflexivity].
  destruct (js_exit j) as [ex|]; cbn [option_map]; [|reflexivity].
  cbn [shift_conn c_seq]. rewrite trip_rev_shift, map_length.
  destruct (Nat.ltb (c_seq ex - 1) (c_seq en - 1)); [reflexivity|apply rev_range_shift].
Qed.

Lemma nth_js_shift js i : nth_js (map sj js) i = sj (nth_js js i).
Proof. unfold nth_js. change js_default with (sj js_default) at 1. apply map_nth. Qed.

Lemma set_nth_shift (g g' : jstep -> jstep) : (forall x, g' (sj x) = sj (g x)) ->
  forall l i, set_nth (map sj l) i g' = map sj (set_nth l i g).
Proof.
  intros Hg. induction l as [|x l IH]; intros i; [destruct i; reflexivity|].
  destruct i as [|i]; cbn [map set_nth]; [rewrite Hg; reflexivity|rewrite IH; reflexivity].
Qed.

Lemma erase_range_shift (l : list jstep) a b : erase_range (map sj l) a b = map sj (erase_range l a b).
Proof. unfold erase_range. rewrite map_app, firstn_map, skipn_map. reflexivity. Qed.

Lemma css_first_shift node : forall rng ex,
  css_first node (map sc rng) (option_map sc ex) = option_map sc (css_first node rng ex).
Proof.
  induction rng as [|c r IH]; intros ex; [reflexivity|].
  cbn [map css_first shift_conn c_to c_cu].
  destruct (Nat.eqb node (c_to c)); [|apply IH].
  destruct (c_cu c); [|reflexivity]. apply (IH (Some c)).
Qed.

Definition shift_css (r : list jstep * list nat * list nat) : list jstep * list nat * list nat :=
  (map sj (fst (fst r)), snd (fst r), snd r).

Lemma css_second_shift node exitc : forall rng js from to used ign,
  css_second node (option_map sc exitc) (map sc rng) (map sj js) from to used ign =
  shift_css (css_second node exitc rng js from to used ign).
Proof.
  induction rng as [|c r IH]; intros js from to used ign; [reflexivity|].
  cbn [map css_second shift_conn c_from c_cb].
  destruct (Nat.eqb node (c_from c)); [|apply IH].
  destruct exitc as [ex|]; cbn [option_map]; [|reflexivity].
  destruct (c_cb c); [|reflexivity].
  unfold shift_css. cbn [fst snd]. f_equal. f_equal.
  rewrite (set_nth_shift (fun j => set_walk (set_exit j ex) 0 0) (fun j => set_walk (set_exit j (sc ex)) 0 0))
    by reflexivity.
  rewrite (set_nth_shift (fun j => set_enter j c)
             (fun j => set_enter j {| c_trip := c_trip c; c_seq := c_seq c; c_from := c_from c; c_to := c_to c;
                                      c_dep := c_dep c + dl; c_arr := c_arr c + dl; c_cb := c_cb c;
                                      c_cu := c_cu c; c_minw := c_minw c |})) by reflexivity.
  apply erase_range_shift.
Qed.

Definition shift_opt (r : opt_result) : opt_result :=
  match r with OptDone js u => OptDone (map sj js) u | OptUB => OptUB | OptHang => OptHang end.

Lemma find_sc (g : conn -> bool) : (forall c, g (sc c) = g c) ->
  forall l, find g (map sc l) = option_map sc (find g l).
Proof. intros Hg l. apply find_map_shift. exact Hg. Qed.

Theorem optimize_shift d : forall fuel js used ign,
  optimize fuel (shift_data dl d) (map sj js) used ign = shift_opt (optimize fuel d js used ign).
Proof.
  induction fuel as [|f IH]; intros js used ign; [reflexivity|].
  cbn [optimize]. rewrite detect_shift.
  destruct (detect d ign js 0 []) as [[[[[cs node] from] to]|]|]; [|reflexivity|reflexivity].
  rewrite !nth_js_shift, !leg_range_shift.
  destruct (Nat.eqb cs 1).
  { destruct (leg_range d (nth_js js from)) as [rng|]; cbn [option_map]; [|reflexivity].
    rewrite (find_sc (fun c => Nat.eqb node (c_to c))) by reflexivity.
    destruct (find (fun c => Nat.eqb node (c_to c)) rng) as [c|]; cbn [option_map]; [|apply IH].
    cbn [shift_conn c_cu]. destruct (negb (c_cu c)); [apply IH|].
    cbn [shift_js js_walk js_dist].
    rewrite (set_nth_shift
               (fun j => set_exit (set_walk j (js_walk (nth_js js to)) (js_dist (nth_js js to))) c)
               (fun j => set_exit (set_walk j (js_walk (nth_js js to)) (js_dist (nth_js js to)))
                  {| c_trip := c_trip c; c_seq := c_seq c; c_from := c_from c; c_to := c_to c;
                     c_dep := c_dep c + dl; c_arr := c_arr c + dl; c_cb := c_cb c;
                     c_cu := c_cu c; c_minw := c_minw c |})) by reflexivity.
    rewrite erase_range_shift. apply IH. }
  destruct (Nat.eqb cs 2).
  { destruct (leg_range d (nth_js js to)) as [rng|]; cbn [option_map]; [|reflexivity].
    rewrite (find_sc (fun c => Nat.eqb node (c_from c))) by reflexivity.
    destruct (find (fun c => Nat.eqb node (c_from c)) rng) as [c|]; cbn [option_map]; [|reflexivity].
    cbn [shift_conn c_cb]. destruct (negb (c_cb c)); [reflexivity|].
    rewrite (set_nth_shift (fun j => set_enter j c)
               (fun j => set_enter j {| c_trip := c_trip c; c_seq := c_seq c; c_from := c_from c; c_to := c_to c;
                                        c_dep := c_dep c + dl; c_arr := c_arr c + dl; c_cb := c_cb c;
                                        c_cu := c_cu c; c_minw := c_minw c |})) by reflexivity.
    rewrite (set_nth_shift (fun j => set_walk j 0 0) (fun j => set_walk j 0 0)) by reflexivity.
    rewrite erase_range_shift. reflexivity. }
  destruct (Nat.eqb cs 3).
  { destruct (leg_range d (nth_js js from)) as [rng|]; cbn [option_map]; [|reflexivity].
    rewrite (find_sc (fun c => Nat.eqb node (c_to c))) by reflexivity.
    destruct (find (fun c => Nat.eqb node (c_to c)) rng) as [c|]; cbn [option_map]; [|apply IH].
    cbn [shift_conn c_cu]. destruct (negb (c_cu c)); [apply IH|].
    rewrite (set_nth_shift (fun j => set_walk (set_exit j c) 0 0)
               (fun j => set_walk (set_exit j {| c_trip := c_trip c; c_seq := c_seq c; c_from := c_from c;
                                                 c_to := c_to c; c_dep := c_dep c + dl; c_arr := c_arr c + dl;
                                                 c_cb := c_cb c; c_cu := c_cu c; c_minw := c_minw c |}) 0 0))
      by reflexivity.
    rewrite erase_range_shift. apply IH. }
  destruct (leg_range d (nth_js js from)) as [rf|]; cbn [option_map]; [|reflexivity].
  destruct (leg_range d (nth_js js to)) as [rt|]; cbn [option_map]; [|reflexivity].
  change (@None conn) with (option_map sc None) at 1. rewrite css_first_shift, css_second_shift.
  destruct (css_second node (css_first node rf None) rt js from to used ign) as [[js1 used1] ign1].
  unfold shift_css. cbn [fst snd]. apply IH.
Qed.

(* ---------------------------------------------------------------------------------------------- *)
(* emit: durations are differences of clocks                                                        *)

(* areal = the running arrivalTime already holds a clock (a leg has been emitted); before that it is the
   initial -1 on both sides *)
Definition shift_est (areal : bool) (st : emit_st) : emit_st :=
  {| e_tivt := e_tivt st; e_twalk := e_twalk st; e_twait := e_twait st; e_ttrwalk := e_ttrwalk st;
     e_ttrwait := e_ttrwait st; e_tdist := e_tdist st; e_tivd := e_tivd st; e_twalkd := e_twalkd st;
     e_ttrd := e_ttrd st; e_accd := e_accd st; e_egrd := e_egrd st;
     e_tarr := e_tarr st + dl; e_ntr := e_ntr st;
     e_arr := if areal then e_arr st + dl else e_arr st;
     e_accw := e_accw st; e_egrw := e_egrw st; e_accwait := e_accwait st;
     e_steps := map (shift_step dl) (e_steps st) |}.

Lemma next_minw_shift p nxt : next_minw (shift_params dl p) (option_map sj nxt) = next_minw p nxt.
Proof.
  unfold next_minw. destruct nxt as [j|]; [|reflexivity]. cbn [option_map shift_js js_enter].
  destruct (js_enter j); reflexivity.
Qed.

Lemma dists_shift d t :
  match find_trip (shift_data dl d) t with Some tr => trip_dists (shift_data dl d) tr | None => [] end =
  match find_trip d t with Some tr => trip_dists d tr | None => [] end.
Proof. rewrite find_trip_shift. destruct (find_trip d t); reflexivity. Qed.

Lemma emit_step_leg d p bd count st i j nxt b en ex :
  js_enter j = Some en -> js_exit j = Some ex ->
  emit_step (shift_data dl d) (shift_params dl p) (bd + dl) count (shift_est b st) i (sj j) (option_map sj nxt) =
  shift_est true (emit_step d p bd count st i j nxt).
Proof.
  intros Hen Hex. unfold emit_step. cbn [shift_js js_enter js_exit js_trip js_walk js_dist].
  rewrite Hen, Hex. cbn [option_map shift_conn c_trip c_dep c_arr c_seq c_from c_to].
  rewrite next_minw_shift, is_transferable_trip_shift, dists_shift.
  cbn [shift_est e_tivt e_twalk e_twait e_ttrwalk e_ttrwait e_tdist e_tivd e_twalkd e_ttrd e_accd e_egrd
       e_tarr e_ntr e_arr e_accw e_egrw e_accwait e_steps].
  replace (c_arr ex + dl - (c_dep en + dl)) with (c_arr ex - c_dep en) by lia.
  replace (c_dep en + dl - (e_tarr st + dl)) with (c_dep en - e_tarr st) by lia.
  cbv zeta.
  destruct (Nat.ltb (S (S i)) count); unfold shift_est;
    cbn [e_tivt e_twalk e_twait e_ttrwalk e_ttrwait e_tdist e_tivd e_twalkd e_ttrd e_accd e_egrd
         e_tarr e_ntr e_arr e_accw e_egrw e_accwait e_steps];
    rewrite ?map_app; cbn [map shift_step Nat.eqb]; f_equal; try lia.
  - f_equal. f_equal. f_equal; lia.
Qed.

Definition is_legP (j : jstep) : Prop := exists en ex, js_enter j = Some en /\ js_exit j = Some ex.
Definition is_walkP (j : jstep) : Prop := js_enter j = None \/ js_exit j = None.

Lemma leg_or_walk j : is_legP j \/ is_walkP j.
Proof.
  unfold is_legP, is_walkP. destruct (js_enter j) as [en|]; [|right; left; reflexivity].
  destruct (js_exit j) as [ex|]; [|right; right; reflexivity]. left. exists en, ex. auto.
Qed.

(* an egress walk (any walk that is not the first step) *)
Lemma emit_step_walk d p bd count st i j nxt :
  is_walkP j -> i <> 0%nat ->
  emit_step (shift_data dl d) (shift_params dl p) (bd + dl) count (shift_est true st) i (sj j) (option_map sj nxt) =
  shift_est true (emit_step d p bd count st i j nxt).
Proof.
  intros Hw Hi. unfold emit_step. cbn [shift_js js_enter js_exit js_trip js_walk js_dist].
  apply Nat.eqb_neq in Hi. rewrite Hi.
  assert (E : forall A (x y : A),
            match option_map sc (js_enter j) with
            | Some _ => match option_map sc (js_exit j) with Some _ => x | None => y end
            | None => y end =
            match js_enter j with
            | Some _ => match js_exit j with Some _ => x | None => y end
            | None => y end).
  { intros A x y. destruct (js_enter j), (js_exit j); reflexivity. }
  destruct Hw as [Hw|Hw]; rewrite Hw; cbn [option_map].
  - unfold shift_est;
    cbn [e_tivt e_twalk e_twait e_ttrwalk e_ttrwait e_tdist e_tivd e_twalkd e_ttrd e_accd e_egrd
         e_tarr e_ntr e_arr e_accw e_egrw e_accwait e_steps];
    rewrite ?map_app; cbn [map shift_step Nat.eqb]; f_equal; try lia.
    f_equal. f_equal. f_equal; lia.
  - destruct (js_enter j); cbn [option_map]; unfold shift_est;
    cbn [e_tivt e_twalk e_twait e_ttrwalk e_ttrwait e_tdist e_tivd e_twalkd e_ttrd e_accd e_egrd
         e_tarr e_ntr e_arr e_accw e_egrw e_accwait e_steps];
    rewrite ?map_app; cbn [map shift_step Nat.eqb]; f_equal; try lia;
    f_equal; f_equal; f_equal; lia.
Qed.

(* the access walk: first step, from the initial state *)
Lemma emit_step_first d p bd count j nxt :
  is_walkP j ->
  emit_step (shift_data dl d) (shift_params dl p) (bd + dl) count emit_init 0 (sj j) (option_map sj nxt) =
  shift_est false (emit_step d p bd count emit_init 0 j nxt).
Proof.
  intros Hw. unfold emit_step. cbn [shift_js js_enter js_exit js_trip js_walk js_dist Nat.eqb].
  rewrite next_minw_shift.
  destruct Hw as [Hw|Hw]; rewrite Hw; cbn [option_map].
  - unfold shift_est, emit_init;
    cbn [e_tivt e_twalk e_twait e_ttrwalk e_ttrwait e_tdist e_tivd e_twalkd e_ttrd e_accd e_egrd
         e_tarr e_ntr e_arr e_accw e_egrw e_accwait e_steps app];
    cbn [map shift_step Nat.eqb]; f_equal; try lia.
    f_equal. f_equal; lia.
  - destruct (js_enter j); cbn [option_map]; unfold shift_est, emit_init;
    cbn [e_tivt e_twalk e_twait e_ttrwalk e_ttrwait e_tdist e_tivd e_twalkd e_ttrd e_accd e_egrd
         e_tarr e_ntr e_arr e_accw e_egrw e_accwait e_steps app];
    cbn [map shift_step Nat.eqb]; f_equal; try lia;
    f_equal; f_equal; lia.
Qed.

Lemma hd_error_map {A B} (g : A -> B) (l : list A) : hd_error (map g l) = option_map g (hd_error l).
Proof. destruct l; reflexivity. Qed.

Lemma emit_loop_shift d p bd count : forall js st i, i <> 0%nat ->
  emit_loop (shift_data dl d) (shift_params dl p) (bd + dl) count (shift_est true st) i (map sj js) =
  shift_est true (emit_loop d p bd count st i js).
Proof.
  induction js as [|j r IH]; intros st i Hi; [reflexivity|].
  cbn [map emit_loop]. rewrite hd_error_map.
  destruct (leg_or_walk j) as [(en & ex & Hen & Hex)|Hw].
  - rewrite (emit_step_leg d p bd count st i j (hd_error r) true en ex Hen Hex). apply IH. lia.
  - rewrite (emit_step_walk d p bd count st i j (hd_error r) Hw Hi). apply IH. lia.
Qed.

(* access walk, then at least one leg: the shape calc_single hands to emit (optimize keeps it) *)
Definition shape2 (js : list jstep) : Prop :=
  exists a b rest, js = a :: b :: rest /\ is_walkP a /\ is_legP b.

Theorem emit_shift d p bd js : shape2 js ->
  emit (shift_data dl d) (shift_params dl p) (bd + dl) (map sj js) = shift_route dl (emit d p bd js).
Proof.
  intros (a & b & rest & -> & Ha & (en & ex & Hen & Hex)).
  unfold emit. rewrite map_length. cbn [map emit_loop]. rewrite !hd_error_map.
  cbn [hd_error option_map].
  rewrite (emit_step_first d p bd _ a (Some b) Ha).
  rewrite (emit_step_leg d p bd _ _ 1 b (hd_error rest) false en ex Hen Hex).
  rewrite emit_loop_shift by lia.
  set (st := emit_loop d p bd _ _ 2 rest).
  unfold shift_route, shift_est.
  cbn [e_tivt e_twalk e_twait e_ttrwalk e_ttrwait e_tdist e_tivd e_twalkd e_ttrd e_accd e_egrd
       e_tarr e_ntr e_arr e_accw e_egrw e_accwait e_steps
       rt_dep rt_arr rt_ttt rt_tdist rt_tivt rt_tivd rt_tnt rt_tntd rt_nboard rt_ntransf rt_trwalk rt_trdist
       rt_acc rt_accd rt_egr rt_egrd rt_trwait rt_fwait rt_twait rt_steps].
  f_equal. lia.
Qed.
End Sim.

(* ---------------------------------------------------------------------------------------------- *)
(* optimize keeps the shape "access walk, leg, ..." (what emit_shift asks)                          *)

Lemma shape2_set_nth js i g : shape2 js -> (1 <= i)%nat -> (forall j, is_legP j -> is_legP (g j)) ->
  shape2 (set_nth js i g).
Proof.
  intros (a & b & rest & -> & Ha & Hb) Hi Hg. destruct i as [|[|i]]; [lia| |]; cbn [set_nth].
  - exists a, (g b), rest. auto.
  - exists a, b, (set_nth rest i g). auto.
Qed.

Lemma shape2_erase js x y : shape2 js -> (2 <= x)%nat -> shape2 (erase_range js x y).
Proof.
  intros (a & b & rest & -> & Ha & Hb) Hx. destruct x as [|[|x]]; [lia|lia|].
  unfold erase_range. cbn [firstn app]. exists a, b, (firstn x rest ++ skipn y (a :: b :: rest)). auto.
Qed.

Lemma legP_set_exit j c : is_legP j -> is_legP (set_exit j c).
Proof. intros (en & ex & H1 & H2). exists en, c. auto. Qed.
Lemma legP_set_enter j c : is_legP j -> is_legP (set_enter j c).
Proof. intros (en & ex & H1 & H2). exists c, ex. auto. Qed.
Lemma legP_set_walk j w dd : is_legP j -> is_legP (set_walk j w dd).
Proof. intros (en & ex & H1 & H2). exists en, ex. auto. Qed.

Lemma css_second_shape2 node exitc : forall rng js from to used ign js1 used1 ign1,
  css_second node exitc rng js from to used ign = (js1, used1, ign1) ->
  shape2 js -> (1 <= from < to)%nat -> shape2 js1.
Proof.
  induction rng as [|c r IH]; intros js from to used ign js1 used1 ign1 H Hs Hft.
  - cbn [css_second] in H. injection H as <- _ _. exact Hs.
  - cbn [css_second] in H. destruct (Nat.eqb node (c_from c)); [|exact (IH _ _ _ _ _ _ _ _ H Hs Hft)].
    destruct exitc as [ex|]; [|injection H as <- _ _; exact Hs].
    destruct (c_cb c); [|injection H as <- _ _; exact Hs].
    injection H as <- _ _. apply shape2_erase; [|lia].
    apply shape2_set_nth; [|lia|intros j Hj; apply legP_set_enter; exact Hj].
    apply shape2_set_nth; [exact Hs|lia|intros j Hj; apply legP_set_walk, legP_set_exit; exact Hj].
Qed.

Lemma detect_from_pos d ign js cs node from to : shape2 js ->
  detect d ign js 0 [] = Some (Some (cs, node, from, to)) -> (1 <= from < to)%nat.
Proof.
  intros (a & b & rest & -> & Ha & Hb) H.
  destruct (detect_top d ign _ cs node from to H) as [Hr (bi & ei & bj & ej & H1 & H2 & _)].
  destruct from as [|from]; [|lia].
  unfold nth_js in H1, H2. cbn [nth] in H1, H2. destruct Ha as [Ha|Ha]; congruence.
Qed.

Theorem optimize_shape2 d : forall fuel js used ign js' used',
  shape2 js -> optimize fuel d js used ign = OptDone js' used' -> shape2 js'.
Proof.
  induction fuel as [|f IH]; intros js used ign js' used' Hs H; [discriminate|].
  cbn [optimize] in H.
  destruct (detect d ign js 0 []) as [[[[[cs node] from] to]|]|] eqn:Ed; [|injection H as <- _; exact Hs|discriminate].
  pose proof (detect_from_pos d ign js cs node from to Hs Ed) as Hft.
  destruct (Nat.eqb cs 1).
  { destruct (leg_range d (nth_js js from)) as [rng|]; [|discriminate].
    destruct (find (fun c => Nat.eqb node (c_to c)) rng) as [c|]; [|exact (IH _ _ _ _ _ Hs H)].
    destruct (negb (c_cu c)); [exact (IH _ _ _ _ _ Hs H)|].
    refine (IH _ _ _ _ _ _ H). apply shape2_erase; [|lia].
    apply shape2_set_nth; [exact Hs|lia|intros j Hj; apply legP_set_exit, legP_set_walk; exact Hj]. }
  destruct (Nat.eqb cs 2).
  { destruct (leg_range d (nth_js js to)) as [rng|]; [|discriminate].
    destruct (find (fun c => Nat.eqb node (c_from c)) rng) as [c|]; [|injection H as <- _; exact Hs].
    destruct (negb (c_cb c)); [injection H as <- _; exact Hs|].
    injection H as <- _. apply shape2_erase; [|lia].
    apply shape2_set_nth; [|lia|intros j Hj; apply legP_set_walk; exact Hj].
    apply shape2_set_nth; [exact Hs|lia|intros j Hj; apply legP_set_enter; exact Hj]. }
  destruct (Nat.eqb cs 3).
  { destruct (leg_range d (nth_js js from)) as [rng|]; [|discriminate].
    destruct (find (fun c => Nat.eqb node (c_to c)) rng) as [c|]; [|exact (IH _ _ _ _ _ Hs H)].
    destruct (negb (c_cu c)); [exact (IH _ _ _ _ _ Hs H)|].
    refine (IH _ _ _ _ _ _ H). apply shape2_erase; [|lia].
    apply shape2_set_nth; [exact Hs|lia|intros j Hj; apply legP_set_walk, legP_set_exit; exact Hj]. }
  destruct (leg_range d (nth_js js from)) as [rf|]; [|discriminate].
  destruct (leg_range d (nth_js js to)) as [rt|]; [|discriminate].
  destruct (css_second node (css_first node rf None) rt js from to used ign) as [[js1 used1] ign1] eqn:Ec.
  refine (IH _ _ _ _ _ _ H). exact (css_second_shape2 _ _ _ _ _ _ _ _ _ _ _ Ec Hs Hft).
Qed.

(* ============================================================================================== *)
(* Part 5: assembly                                                                                 *)

Lemma fwd_step_data_params dl d p k a st c :
  fwd_step (shift_data dl d) (shift_params dl p) k a st c = fwd_step d p k a st c.
Proof. reflexivity. Qed.
Lemma rev_step_data_params dl d p k a st c :
  rev_step (shift_data dl d) (shift_params dl p) k a st c = rev_step d p k a st c.
Proof. reflexivity. Qed.

Lemma fold_left_ext {A B} (f g : A -> B -> A) : (forall a b, f a b = g a b) ->
  forall l a, fold_left f l a = fold_left g l a.
Proof. intros H. induction l as [|x l IH]; intros a; [reflexivity|]. cbn [fold_left]. rewrite H. apply IH. Qed.

Lemma rev_scan_whole d p k a :
  arr_sorted_desc (cs_rev (k_set k)) -> cs_ridx (k_set k) = rev_index (cs_rev (k_set k)) ->
  0 <= k_arr k -> 0 <= k_minEgr k ->
  rev_scan d p k a = Ok (fold_left (rev_step d p k a) (cs_rev (k_set k)) (rev_init k)).
Proof.
  intros Hs Hidx Harr Hegr. destruct (Z.lt_ge_cases (k_arr k) 115200) as [Hlt|Hge].
  - apply C12_index_rev; auto; lia.
  - unfold rev_scan, rev_entry. hours.
    assert (Hh : 32 <= hour_of (k_arr k)).
    { unfold hour_of. change 32 with (Z.quot 115200 3600). apply Z.quot_le_mono; lia. }
    destruct (Z.ltb_spec (hour_of (k_arr k) + 1) 0) as [H0|H0]; [lia|].
    destruct (Z.gtb_spec (hour_of (k_arr k) + 1) (32 - 1)) as [H1|H1]; [|lia].
    reflexivity.
Qed.

(* ---------------------------------------------------------------------------------------------- *)
(* the hypotheses, as boolean predicates over the inputs                                            *)

Definition clock_ok (x : Z) : bool := (0 <=? x) && (x <? CLOCK_MAX).

(* domain: every clock value of the enabled connections and of the request lies in [0, 32 h) before and
   after the shift; footpath, access and egress walks are in the ranges of wf_data_b / wf_tables_b *)
Definition shift_dom (d : data) (s : scenario) (p : params) (acc egr : list fprow) (dl : Z) : bool :=
  forallb (fun c => clock_ok (c_dep c) && clock_ok (c_arr c) && clock_ok (c_dep c + dl) && clock_ok (c_arr c + dl)
                    && forallb (fun r => fp_time r <? 32768) (fp_of d (c_to c))
                    && forallb (fun r => 0 <=? fp_time r) (rfp_of d (c_from c)))
          (cs_fwd (conn_set d s)) &&
  (0 <=? q_minw p) && clock_ok (q_time p) && clock_ok (q_time p + dl) &&
  forallb (fun r => 0 <=? fp_time r) acc &&
  forallb (fun r => (0 <=? fp_time r) && (fp_time r <? 32768)) egr.

(* THE PROVISO (arrival-time requests only; for departure-time requests it is `true`).
   With X(c) = dep(c) - minimum waiting time in force for c: for every enabled connection c that can be boarded
   and whose departure stop has an access row ar, the departure-from-origin time  X(c) - walk(ar)  is
   non-negative before and after the shift, or negative before and after: the shift moves no candidate
   departure time across 0:00:00.  (best_access tests `t >=? 0`; see shift_proviso_needed below.) *)
Definition same_sideb (dl v : Z) : bool := ((0 <=? v) && (0 <=? v + dl)) || ((v <? 0) && (v + dl <? 0)).

Definition shift_safe (d : data) (s : scenario) (p : params) (acc : list fprow) (dl : Z) : bool :=
  q_fwd p ||
  forallb (fun c =>
    negb (c_cb c) ||
    match row_of (c_from c) acc with
    | Some ar => same_sideb dl (c_dep c - minw_eff p c - fp_time ar)
    | None => true
    end) (cs_fwd (conn_set d s)).

Section Assembly.
Variable dl : Z.
Notation sc := (shift_conn dl).
Notation sj := (shift_js dl).
Notation so := (shift_tqd dl).

Lemma clock_ok_spec x : clock_ok x = true -> 0 <= x < CLOCK_MAX.
Proof. unfold clock_ok. intros H. apply andb_prop in H. destruct H as [H1 H2]. apply Z.leb_le in H1. apply Z.ltb_lt in H2. lia. Qed.

Lemma shift_dom_conn d s p acc egr c : shift_dom d s p acc egr dl = true -> In c (cs_fwd (conn_set d s)) ->
  conn_rng dl c /\ (forall r, In r (fp_of d (c_to c)) -> fp_time r < 32768) /\
  (forall r, In r (rfp_of d (c_from c)) -> 0 <= fp_time r).
Proof.
  unfold shift_dom. intros H Hc. repeat (apply andb_prop in H; destruct H as [H ?]).
  rewrite forallb_forall in H. specialize (H c Hc).
  repeat (apply andb_prop in H; destruct H as [H ?]).
  repeat match goal with X : clock_ok _ = true |- _ => apply clock_ok_spec in X end.
  split; [unfold conn_rng; lia|]. split.
  - intros r Hr. match goal with X : forallb _ (fp_of d (c_to c)) = true |- _ => rewrite forallb_forall in X; specialize (X r Hr); apply Z.ltb_lt in X; exact X end.
  - intros r Hr. match goal with X : forallb _ (rfp_of d (c_from c)) = true |- _ => rewrite forallb_forall in X; specialize (X r Hr); apply Z.leb_le in X; exact X end.
Qed.

Lemma shift_dom_req d s p acc egr : shift_dom d s p acc egr dl = true ->
  0 <= q_minw p /\ 0 <= q_time p < CLOCK_MAX /\ 0 <= q_time p + dl < CLOCK_MAX /\
  (forall r, In r acc -> 0 <= fp_time r) /\ (forall r, In r egr -> 0 <= fp_time r < 32768).
Proof.
  unfold shift_dom. intros H. repeat (apply andb_prop in H; destruct H as [H ?]).
  repeat match goal with X : clock_ok _ = true |- _ => apply clock_ok_spec in X end.
  match goal with X : (0 <=? q_minw p) = true |- _ => apply Z.leb_le in X end.
  repeat (split; [assumption|]). split.
  - intros r Hr. match goal with X : forallb _ acc = true |- _ => rewrite forallb_forall in X; specialize (X r Hr); apply Z.leb_le in X; exact X end.
  - intros r Hr. match goal with X : forallb _ egr = true |- _ => rewrite forallb_forall in X; specialize (X r Hr) end.
    match goal with X : _ && _ = true |- _ => apply andb_prop in X; destruct X as [X1 X2]; apply Z.leb_le in X1; apply Z.ltb_lt in X2 end. lia.
Qed.

Lemma same_sideb_spec v w : same_sideb dl v = true -> v = w -> same_side dl w.
Proof.
  unfold same_sideb, same_side. intros H <-. apply orb_prop in H.
  destruct H as [H|H]; apply andb_prop in H; destruct H as [H1 H2].
  - apply Z.leb_le in H1. apply Z.leb_le in H2. left. lia.
  - apply Z.ltb_lt in H1. apply Z.ltb_lt in H2. right. lia.
Qed.

Lemma shift_safe_conn d s p acc c : shift_safe d s p acc dl = true -> In c (cs_fwd (conn_set d s)) ->
  c_cb c = true -> q_fwd p = false -> forall ar, row_of (c_from c) acc = Some ar ->
  same_side dl (c_dep c - fp_time ar - minw_eff p c).
Proof.
  unfold shift_safe. intros H Hc Hcb Hf ar Har. rewrite Hf in H. cbn [orb] in H.
  rewrite forallb_forall in H. specialize (H c Hc).
  rewrite Hcb, Har in H. cbn [negb orb] in H. apply (same_sideb_spec _ _ H). lia.
Qed.

Lemma shift_safe_fwd d s p acc : q_fwd p = true -> shift_safe d s p acc dl = true.
Proof. intros H. unfold shift_safe. rewrite H. reflexivity. Qed.
Lemma shift_safe_nil d s p : shift_safe d s p [] dl = true.
Proof.
  unfold shift_safe. apply orb_true_intro. right. apply forallb_forall. intros c _.
  cbn [row_of]. apply orb_true_r.
Qed.

Lemma cs_rev_in_fwd d s c : In c (cs_rev (conn_set d s)) -> In c (cs_fwd (conn_set d s)).
Proof.
  unfold conn_set, mk_connset, sorted_fwd, sorted_rev. cbn [cs_fwd cs_rev]. rewrite !filter_In, !in_isort. auto.
Qed.

(* seeds *)
Lemma fold_upd_rel {A B} (R : A -> B -> Prop) (g : fprow -> A) (g' : fprow -> B) : forall rows m m',
  (forall n, R (m n) (m' n) \/ In n (map fp_node rows)) -> (forall r, R (g r) (g' r)) ->
  forall n, R (fold_left (fun m r => upd m (fp_node r) (g r)) rows m n)
              (fold_left (fun m r => upd m (fp_node r) (g' r)) rows m' n).
Proof.
  induction rows as [|r rows IH]; intros m m' Hm Hg n.
  - cbn [fold_left]. destruct (Hm n) as [H|[]]. exact H.
  - cbn [fold_left]. apply IH; [|exact Hg]. intros x. unfold upd.
    destruct (Nat.eqb_spec x (fp_node r)) as [E|E]; [left; apply Hg|].
    destruct (Hm x) as [H|[H|H]]; [left; exact H|congruence|right; exact H].
Qed.

Lemma fold_upd_notin {A} (g : fprow -> A) : forall rows m n, ~ In n (map fp_node rows) ->
  fold_left (fun m r => upd m (fp_node r) (g r)) rows m n = m n.
Proof.
  induction rows as [|r rows IH]; intros m n Hn; [reflexivity|].
  cbn [fold_left]. rewrite IH by (intros H; apply Hn; right; exact H).
  unfold upd. destruct (Nat.eqb_spec n (fp_node r)) as [E|E]; [|reflexivity].
  exfalso. apply Hn. left. symmetry. exact E.
Qed.

Lemma seed_tau_rel dep rows n : Rtau dl (seed_tau dep rows n) (seed_tau (dep + dl) rows n).
Proof.
  unfold seed_tau.
  apply (fold_upd_rel (Rtau dl) (fun r => dep + fp_time r) (fun r => dep + dl + fp_time r)).
  - intros x. left. left. auto.
  - intros r. right. lia.
Qed.
Lemma seed_taur_rel arr rows n : Rtaur dl (seed_taur arr rows n) (seed_taur (arr + dl) rows n).
Proof.
  unfold seed_taur.
  apply (fold_upd_rel (Rtaur dl) (fun r => arr - fp_time r) (fun r => arr + dl - fp_time r)).
  - intros x. left. left. auto.
  - intros r. right. lia.
Qed.
Lemma seed_steps_sj rows n : seed_steps rows n = sj (seed_steps rows n).
Proof.
  unfold seed_steps.
  apply (fold_upd_rel (fun a b => b = sj a) walk_step walk_step); [intros x; left; reflexivity|reflexivity].
Qed.

Lemma seed_steps_exit rows n : js_exit (seed_steps rows n) = None.
Proof.
  unfold seed_steps.
  assert (H : forall m : nat -> jstep, (forall x, js_exit (m x) = None) ->
              forall x, js_exit (fold_left (fun m r => upd m (fp_node r) (walk_step r)) rows m x) = None).
  { induction rows as [|r rows IH]; intros m Hm x; [apply Hm|].
    cbn [fold_left]. apply IH. intros y. unfold upd. destruct (Nat.eqb y (fp_node r)); [reflexivity|apply Hm]. }
  apply H. reflexivity.
Qed.

Lemma min_time_nonneg rows : (forall r, In r rows -> 0 <= fp_time r) -> 0 <= min_time rows.
Proof.
  unfold min_time. assert (H0 : 0 <= MAX_INT) by (unfold MAX_INT; lia). revert H0. generalize MAX_INT as a.
  induction rows as [|r rows IH]; intros a Ha H; [exact Ha|].
  cbn [fold_left]. apply IH; [|intros x Hx; apply H; right; exact Hx].
  pose proof (H r (or_introl eq_refl)). destruct (fp_time r <? a); lia.
Qed.

Lemma OPT_FUEL_shift d : OPT_FUEL (shift_data dl d) = OPT_FUEL d.
Proof. unfold OPT_FUEL. rewrite all_conns_shift, map_length. reflexivity. Qed.

(* ---------------------------------------------------------------------------------------------- *)
(* the scans, entered through the hour index on both sides                                          *)

Lemma fwd_scan_sim d s p acc egr k k' a :
  shift_dom d s p acc egr dl = true ->
  k_set k = conn_set d s -> k_set k' = conn_set (shift_data dl d) s ->
  k_dep k' = k_dep k + dl -> 0 <= k_dep k < 115200 -> 0 <= k_dep k' < 115200 ->
  k_minAcc k' = k_minAcc k -> 0 <= k_minAcc k -> k_maxEgr k' = k_maxEgr k ->
  (forall t, k_disabled k' t = k_disabled k t) -> k_accfp k' = k_accfp k -> k_egrfp k' = k_egrfp k ->
  frel dl (fwd_init k) (fwd_init k') ->
  exists fs fs', fwd_scan d p k a = Ok fs /\
                 fwd_scan (shift_data dl d) (shift_params dl p) k' a = Ok fs' /\ frel dl fs fs' /\
                 ((forall t, o_exit (k_ov k t) = None) -> forall t, o_exit (f_ov fs t) = None).
Proof.
  intros Hdom Hset Hset' Kdep Hd Hd' KminAcc Hmin KmaxEgr Kdis Kacc Kegr Hinit.
  destruct (shift_dom_req d s p acc egr Hdom) as (Hminw & _).
  assert (Hrng : forall c, In c (cs_fwd (conn_set d s)) ->
                 conn_rng dl c /\ (forall r, In r (fp_of d (c_to c)) -> fp_time r < 32768)).
  { intros c Hc. destruct (shift_dom_conn d s p acc egr c Hdom Hc) as (H1 & H2 & _). auto. }
  eexists. eexists. split; [|split; [|split]].
  - apply C12_index_fwd; rewrite ?Hset; auto.
    + apply conn_set_fwd_sorted.
    + intros c Hc. destruct (Hrng c Hc) as [(H1 & _) _]. exact H1.
  - apply C12_index_fwd; rewrite ?Hset'; auto.
    + apply conn_set_fwd_sorted.
    + rewrite cs_fwd_shift. intros c Hc. apply in_map_iff in Hc. destruct Hc as (c0 & <- & Hc0).
      destruct (Hrng c0 Hc0) as [(_ & _ & H3 & _) _]. exact H3.
    + lia.
  - rewrite Hset, Hset', cs_fwd_shift.
    rewrite (fold_left_ext _ _ (fwd_step_data_params dl d p k' a)).
    apply fwd_fold_sim; auto.
  - intros H0. apply fwd_fold_no_exit. exact H0.
Qed.

Lemma rev_scan_sim d s p acc egr k k' a :
  shift_dom d s p acc egr dl = true -> shift_safe d s p acc dl = true ->
  k_set k = conn_set d s -> k_set k' = conn_set (shift_data dl d) s ->
  k_arr k' = k_arr k + dl -> 0 <= k_arr k -> 0 <= k_arr k' ->
  (k_dep k = -1 /\ k_dep k' = -1 /\ q_fwd p = false) \/ (k_dep k' = k_dep k + dl /\ 0 <= k_dep k /\ 0 <= k_dep k') ->
  k_minEgr k' = k_minEgr k -> 0 <= k_minEgr k -> k_maxAcc k' = k_maxAcc k ->
  (forall t, k_disabled k' t = k_disabled k t) -> k_accfp k' = k_accfp k -> k_accfp k = acc ->
  rrel dl k p (rev_init k) (rev_init k') -> rgood dl (rev_init k) ->
  exists st st', rev_scan d p k a = Ok st /\
                 rev_scan (shift_data dl d) (shift_params dl p) k' a = Ok st' /\ rrel dl k p st st' /\
                 rgood dl st.
Proof.
  intros Hdom Hsafe Hset Hset' Karr Ha Ha' Kdep KminEgr Hmin KmaxAcc Kdis Kacc Hacc Hinit Hgood.
  destruct (shift_dom_req d s p acc egr Hdom) as (Hminw & _).
  eexists. eexists. split; [|split; [|split]].
  - apply rev_scan_whole; rewrite ?Hset; auto. apply conn_set_rev_sorted.
  - apply rev_scan_whole; rewrite ?Hset'; auto; [apply conn_set_rev_sorted|lia].
  - rewrite Hset, Hset', cs_rev_shift.
    rewrite (fold_left_ext _ _ (rev_step_data_params dl d p k' a)).
    apply rev_fold_sim; auto.
    + destruct Kdep as [(K1 & K2 & _)|K]; [left; auto|right; exact K].
    + intros c Hc. apply cs_rev_in_fwd in Hc.
      destruct (shift_dom_conn d s p acc egr c Hdom Hc) as (H1 & H2 & H3).
      split; [exact H1|]. intros Hcb. split; [exact H3|].
      intros Kd ar Har. rewrite Hacc in Har.
      apply (shift_safe_conn d s p acc c Hsafe Hc Hcb); [|exact Har].
      destruct Kdep as [(_ & _ & K3)|(K1 & K2 & K3)]; [exact K3|lia].
  - rewrite Hset. apply rev_fold_good; [exact Hminw|exact Hgood|].
    intros c Hc. apply cs_rev_in_fwd in Hc.
    destruct (shift_dom_conn d s p acc egr c Hdom Hc) as ((_ & C2 & _ & C4) & _).
    unfold LOW. lia.
Qed.

(* ---------------------------------------------------------------------------------------------- *)
(* reverseJourneyStep                                                                               *)

Definition shift_res (x : route * list nat) : route * list nat := let '(r, used) := x in (shift_route dl r, used).

Lemma set_last_walk_legP : forall l w dd, Forall is_legP l -> Forall is_legP (set_last_walk l w dd).
Proof.
  induction l as [|x l IH]; intros w dd H; [constructor|].
  inversion H as [|? ? Hx Hl]; subst. destruct l as [|y l'].
  - cbn [set_last_walk]. constructor; [apply legP_set_walk; exact Hx|constructor].
  - change (set_last_walk (x :: y :: l') w dd) with (x :: set_last_walk (y :: l') w dd).
    constructor; [exact Hx|apply IH; exact Hl].
Qed.
Lemma set_last_walk_len : forall l w dd, length (set_last_walk l w dd) = length l.
Proof.
  induction l as [|x l IH]; intros w dd; [reflexivity|]. destruct l as [|y l']; [reflexivity|].
  change (set_last_walk (x :: y :: l') w dd) with (x :: set_last_walk (y :: l') w dd).
  cbn [length]. rewrite IH. reflexivity.
Qed.

Lemma rebuild_inv steps : forall fuel cur acc last legs last',
  rebuild fuel steps cur acc last = Some (legs, last') -> Forall is_legP acc ->
  Forall is_legP legs /\ ((legs = acc /\ last' = last) \/ (length acc < length legs)%nat).
Proof.
  induction fuel as [|f IH]; intros cur acc last legs last' H Hacc.
  - cbn [rebuild] in H. destruct (js_enter cur); [destruct (js_exit cur); [discriminate|]|];
      injection H as <- <-; auto.
  - cbn [rebuild] in H. destruct (js_enter cur) as [b|] eqn:Eb; [|injection H as <- <-; auto].
    destruct (js_exit cur) as [e|] eqn:Ee; [|injection H as <- <-; auto].
    assert (Hcur : is_legP cur) by (exists b, e; auto).
    apply IH in H.
    + destruct H as [H1 H2]. split; [exact H1|]. right.
      assert (Hlen : length (match acc with [] => [] | _ :: _ => set_last_walk acc (js_walk cur) (js_dist cur) end
                             ++ [cur]) = S (length acc)).
      { rewrite app_length. cbn [length]. destruct acc; [reflexivity|]. rewrite set_last_walk_len. lia. }
      destruct H2 as [[-> _]|H2]; lia.
    + apply Forall_app. split; [|constructor; [exact Hcur|constructor]].
      destruct acc; [constructor|]. apply set_last_walk_legP. exact Hacc.
Qed.

Lemma rev_journey_sim d p k k' st st' best :
  rrel dl k p st st' -> rgood dl st -> k_accfp k' = k_accfp k -> k_egrfp k' = k_egrfp k ->
  rev_journey (shift_data dl d) (shift_params dl p) k' st' (shift_best dl best) =
  map_outcome shift_res (rev_journey d p k st best).
Proof.
  intros H Hgood Kacc Kegr. unfold rev_journey. destruct best as [[bd node]|]; cbn [shift_best]; [|reflexivity].
  rewrite (rr_acc _ _ _ _ _ H). destruct (r_acc st node) as [start|] eqn:Estart; cbn [option_map]; [|reflexivity].
  change (REBUILD_FUEL (shift_data dl d)) with (REBUILD_FUEL d).
  pose proof (rebuild_shift2 dl (r_taur st) (r_steps st) (r_taur st') (r_steps st') (rr_node _ _ _ _ _ H)
                (rg_steps _ _ Hgood) (REBUILD_FUEL d) start [] None (rg_acc _ _ Hgood _ _ Estart)) as Hr.
  cbn [map] in Hr. rewrite Hr.
  destruct (rebuild (REBUILD_FUEL d) (r_steps st) start [] None) as [[legs last]|] eqn:Er;
    cbn [option_map shift_legs fst snd]; [|reflexivity].
  rewrite Kacc, Kegr.
  destruct (row_of node (k_accfp k)) as [ar|]; [|reflexivity].
  destruct last as [ln|]; [|reflexivity].
  destruct (row_of ln (k_egrfp k)) as [er|]; [|reflexivity].
  rewrite OPT_FUEL_shift.
  replace (walk_step ar :: map sj legs ++ [walk_step er]) with (map sj (walk_step ar :: legs ++ [walk_step er]))
    by (cbn [map]; rewrite map_app; reflexivity).
  rewrite optimize_shift.
  destruct (optimize (OPT_FUEL d) d (walk_step ar :: legs ++ [walk_step er]) [] []) as [js1 used| |] eqn:Eo;
    cbn [shift_opt map_outcome]; [|reflexivity|reflexivity].
  unfold shift_res. f_equal. f_equal. apply emit_shift.
  refine (optimize_shape2 d _ _ _ _ _ _ _ Eo).
  destruct (rebuild_inv _ _ _ _ _ _ _ Er (Forall_nil _)) as [Hall [[_ Hl]|Hlen]]; [discriminate|].
  destruct legs as [|b rest]; [cbn [length] in Hlen; lia|].
  inversion Hall as [|? ? Hb _]; subst.
  exists (walk_step ar), b, (rest ++ [walk_step er]). split; [reflexivity|]. split; [left; reflexivity|exact Hb].
Qed.

Lemma calc_reverse_sim d s p acc egr k k' :
  shift_dom d s p acc egr dl = true -> shift_safe d s p acc dl = true ->
  k_set k = conn_set d s -> k_set k' = conn_set (shift_data dl d) s ->
  k_arr k' = k_arr k + dl -> 0 <= k_arr k -> 0 <= k_arr k' ->
  (k_dep k = -1 /\ k_dep k' = -1 /\ q_fwd p = false) \/ (k_dep k' = k_dep k + dl /\ 0 <= k_dep k /\ 0 <= k_dep k') ->
  k_minEgr k' = k_minEgr k -> 0 <= k_minEgr k -> k_maxAcc k' = k_maxAcc k ->
  (forall t, k_disabled k' t = k_disabled k t) -> k_accfp k' = k_accfp k -> k_accfp k = acc ->
  k_egrfp k' = k_egrfp k ->
  rrel dl k p (rev_init k) (rev_init k') -> rgood dl (rev_init k) ->
  calc_reverse (shift_data dl d) (shift_params dl p) k' = map_outcome shift_res (calc_reverse d p k).
Proof.
  intros Hdom Hsafe Hset Hset' Karr Ha Ha' Kdep KminEgr Hmin KmaxAcc Kdis Kacc Hacc Kegr Hinit Hgood.
  destruct (shift_dom_req d s p acc egr Hdom) as (Hminw & _ & _ & Haccrows & _).
  destruct (rev_scan_sim d s p acc egr k k' false Hdom Hsafe Hset Hset' Karr Ha Ha' Kdep KminEgr Hmin KmaxAcc
              Kdis Kacc Hacc Hinit Hgood) as (st & st' & E1 & E2 & Hrel & Hg).
  unfold calc_reverse. rewrite E1, E2. cbn [bind]. rewrite (rr_count _ _ _ _ _ Hrel).
  destruct (r_count st =? 0); [reflexivity|].
  change (best_access (shift_params dl p) k' st') with (best_access p k' st').
  rewrite (best_access_sim dl p k k' st st' Hrel Karr Kacc Hminw) by (rewrite Hacc; exact Haccrows).
  apply rev_journey_sim; assumption.
Qed.

Lemma egr_pick_nonneg p k st b r :
  (forall t n, b = Some (t, n) -> 0 <= t) -> forall t n, egr_pick p k st b r = Some (t, n) -> 0 <= t.
Proof.
  intros Hb t n. unfold egr_pick. destruct (f_egr st (fp_node r)) as [j|]; [|apply Hb].
  destruct (js_exit j) as [e|]; [|apply Hb].
  destruct (row_of (fp_node r) (k_egrfp k)) as [er|]; [|apply Hb]. cbv zeta.
  destruct (Z.geb_spec (c_arr e + fp_time er) 0) as [G|G]; cbn [andb]; [|apply Hb].
  destruct (_ && _ && _); [|apply Hb]. intros E. injection E as <- _. exact G.
Qed.

Lemma best_egress_nonneg p k st t n : best_egress p k st = Some (t, n) -> 0 <= t.
Proof.
  rewrite best_egress_eq.
  assert (Hb : forall t n, @None (Z * nat) = Some (t, n) -> 0 <= t) by (intros; discriminate).
  revert Hb t n. generalize (@None (Z * nat)) as b. generalize (k_egrfp k) as l.
  induction l as [|r l IH]; intros b Hb t n H; [apply (Hb t n H)|].
  cbn [fold_left] in H. apply (IH _ (egr_pick_nonneg p k st b r Hb) t n H).
Qed.

Lemma in_dec_nat (n : nat) (l : list nat) : In n l \/ ~ In n l.
Proof. destruct (in_dec Nat.eq_dec n l); auto. Qed.

Theorem shift_calc_single d s p acc egr fresh :
  shift_dom d s p acc egr dl = true -> shift_safe d s p acc dl = true ->
  calc_single (shift_data dl d) (conn_set (shift_data dl d) s) (shift_params dl p) acc egr fresh =
  map_outcome shift_res (calc_single d (conn_set d s) p acc egr fresh).
Proof.
  intros Hdom Hsafe.
  destruct (shift_dom_req d s p acc egr Hdom) as (Hminw & Ht & Ht' & Haccrows & Hegrrows).
  unfold CLOCK_MAX in Ht, Ht'.
  unfold calc_single.
  destruct (access_reason (negb fresh || nonempty acc) (negb fresh || nonempty egr)); [reflexivity|].
  cbv zeta.
  set (k := mk_calc d p (conn_set d s) acc egr true true).
  set (k' := mk_calc (shift_data dl d) (shift_params dl p) (conn_set (shift_data dl d) s) acc egr true true).
  assert (Kdis : forall t, k_disabled k' t = k_disabled k t).
  { intros t. unfold k, k', mk_calc. cbn [k_disabled]. apply disabled_of_shift. apply cs_trips_shift. }
  assert (Hmin_egr : 0 <= min_time egr) by (apply min_time_nonneg; intros r Hr; apply Hegrrows; exact Hr).
  assert (Hmin_acc : 0 <= min_time acc) by (apply min_time_nonneg; exact Haccrows).
  change (q_fwd (shift_params dl p)) with (q_fwd p).
  destruct (q_fwd p) eqn:Hf.
  - (* departure-time request: forward scan, then reverse scan from the best arrival *)
    assert (Ek : k_dep k = q_time p) by (unfold k, mk_calc; cbn [k_dep]; rewrite Hf; reflexivity).
    assert (Ek' : k_dep k' = q_time p + dl)
      by (unfold k', mk_calc; cbn [k_dep shift_params q_fwd q_time]; rewrite Hf; reflexivity).
    replace (k_dep k >? -1) with true by (symmetry; apply Z.gtb_lt; lia).
    replace (k_dep k' >? -1) with true by (symmetry; apply Z.gtb_lt; lia).
    cbn [andb].
    assert (Hinit : frel dl (fwd_init k) (fwd_init k')).
    { unfold k, k', mk_calc, fwd_init.
      constructor; cbn [f_tau f_steps f_ov f_egr f_count f_reached f_tent f_stop
                        k_tau k_fsteps k_ov shift_params q_fwd q_time]; try reflexivity.
      - intros n. rewrite Hf. apply seed_tau_rel.
      - intros n. apply seed_steps_sj.
      - intros n j e E. discriminate.
      - left. auto. }
    destruct (fwd_scan_sim d s p acc egr k k' false Hdom eq_refl eq_refl ltac:(lia) ltac:(lia) ltac:(lia)
                eq_refl Hmin_acc eq_refl Kdis eq_refl eq_refl Hinit) as (fs & fs' & E1 & E2 & Hrel & Hnoexit).
    rewrite E1, E2. cbn [bind]. rewrite (fr_count _ _ _ Hrel).
    destruct (f_count fs =? 0); [reflexivity|].
    assert (Ebe : best_egress (shift_params dl p) k' fs' = shift_best dl (best_egress p k fs)).
    { apply (best_egress_sim dl p k k' fs fs' Hrel); [lia|reflexivity|exact Hegrrows]. }
    rewrite Ebe.
    destruct (best_egress p k fs) as [[best bn]|] eqn:Eb; cbn [shift_best]; [|reflexivity].
    pose proof (best_egress_nonneg p k fs best bn Eb) as Hb0.
    assert (Hb0' : 0 <= best + dl).
    { apply (best_egress_nonneg (shift_params dl p) k' fs' (best + dl) bn). rewrite Ebe. reflexivity. }
    assert (Hri : rrel dl (with_rev k best (k_dep k)
                             (fold_left (fun m r => upd m (fp_node r) (best - fp_time r)) (k_egrfp k) (k_taur k))
                             (f_ov fs)) p
                    (rev_init (with_rev k best (k_dep k)
                             (fold_left (fun m r => upd m (fp_node r) (best - fp_time r)) (k_egrfp k) (k_taur k))
                             (f_ov fs)))
                    (rev_init (with_rev k' (best + dl) (k_dep k')
                             (fold_left (fun m r => upd m (fp_node r) (best + dl - fp_time r)) (k_egrfp k') (k_taur k'))
                             (f_ov fs')))).
    { unfold rev_init, with_rev.
      constructor; cbn [r_taur r_steps r_ov r_acc r_count r_reached r_tent r_stop
                        k_taur k_rsteps k_ov]; try reflexivity.
      * intros n. apply node_rel_of_Rtaur.
        -- unfold k, k', mk_calc.
           cbn [k_egrfp k_taur shift_params q_fwd q_time]. rewrite Hf.
           apply (fold_upd_rel (Rtaur dl) (fun r => best - fp_time r) (fun r => best + dl - fp_time r)).
           ++ intros x. destruct (in_dec_nat x (map fp_node egr)) as [Hin|Hnin]; [right; exact Hin|].
              left. left. unfold seed_taur. rewrite (fold_upd_notin _ _ _ _ Hnin). auto.
           ++ intros r. right. lia.
        -- unfold k, k', mk_calc. cbn [k_rsteps]. apply seed_steps_sj.
      * apply (fr_ov _ _ _ Hrel).
      * intros n j b ar E. discriminate.
      * discriminate. }
    assert (Hgi : rgood dl (rev_init (with_rev k best (k_dep k)
                             (fold_left (fun m r => upd m (fp_node r) (best - fp_time r)) (k_egrfp k) (k_taur k))
                             (f_ov fs)))).
    { unfold rev_init, with_rev. constructor; cbn [r_taur r_steps r_ov r_acc k_rsteps k_ov].
      * intros n e E. unfold k, mk_calc in E. cbn [k_rsteps] in E. rewrite seed_steps_exit in E. discriminate.
      * intros n j E. discriminate.
      * intros t e E. rewrite (Hnoexit (fun _ => eq_refl) t) in E. discriminate. }
    assert (Hk0 : 0 <= k_dep k) by lia. assert (Hk0' : 0 <= k_dep k') by lia.
    match goal with |- calc_reverse _ _ ?kr' = map_outcome _ (calc_reverse _ _ ?kr) =>
    apply (calc_reverse_sim d s p acc egr kr kr' Hdom Hsafe eq_refl eq_refl eq_refl Hb0 Hb0'
             (or_intror (conj (eq_trans Ek' (f_equal (fun x => x + dl) (eq_sym Ek)))
                              (conj Hk0 Hk0')))
             eq_refl Hmin_egr eq_refl Kdis eq_refl eq_refl eq_refl Hri Hgi) end.
  - (* arrival-time request *)
    assert (Ek : k_dep k = -1) by (unfold k, mk_calc; cbn [k_dep]; rewrite Hf; reflexivity).
    assert (Ek' : k_dep k' = -1)
      by (unfold k', mk_calc; cbn [k_dep shift_params q_fwd q_time]; rewrite Hf; reflexivity).
    assert (Ea : k_arr k = q_time p) by (unfold k, mk_calc; cbn [k_arr]; rewrite Hf; reflexivity).
    assert (Ea' : k_arr k' = q_time p + dl)
      by (unfold k', mk_calc; cbn [k_arr shift_params q_fwd q_time]; rewrite Hf; reflexivity).
    rewrite Ek, Ek'. change (-1 >? -1) with false. cbn [andb].
    replace (k_arr k >? -1) with true by (symmetry; apply Z.gtb_lt; lia).
    replace (k_arr k' >? -1) with true by (symmetry; apply Z.gtb_lt; lia).
    assert (Hri : rrel dl (with_rev k (k_arr k) (-1) (k_taur k) (set_usable (k_ov k))) p
                    (rev_init (with_rev k (k_arr k) (-1) (k_taur k) (set_usable (k_ov k))))
                    (rev_init (with_rev k' (k_arr k') (-1) (k_taur k') (set_usable (k_ov k'))))).
    { unfold rev_init, with_rev.
      constructor; cbn [r_taur r_steps r_ov r_acc r_count r_reached r_tent r_stop
                        k_taur k_rsteps k_ov]; try reflexivity.
      * intros n. apply node_rel_of_Rtaur.
        -- unfold k, k', mk_calc. cbn [k_taur shift_params q_fwd q_time]. rewrite Hf. apply seed_taur_rel.
        -- unfold k, k', mk_calc. cbn [k_rsteps]. apply seed_steps_sj.
      * intros n j b ar E. discriminate.
      * discriminate. }
    assert (Hgi : rgood dl (rev_init (with_rev k (k_arr k) (-1) (k_taur k) (set_usable (k_ov k))))).
    { unfold rev_init, with_rev. constructor; cbn [r_taur r_steps r_ov r_acc k_rsteps k_ov].
      * intros n e E. unfold k, mk_calc in E. cbn [k_rsteps] in E. rewrite seed_steps_exit in E. discriminate.
      * intros n j E. discriminate.
      * intros t e E. discriminate. }
    assert (Hka0 : 0 <= k_arr k) by lia. assert (Hka0' : 0 <= k_arr k') by lia.
    match goal with |- calc_reverse _ _ ?kr' = map_outcome _ (calc_reverse _ _ ?kr) =>
    apply (calc_reverse_sim d s p acc egr kr kr' Hdom Hsafe eq_refl eq_refl
             (eq_trans Ea' (f_equal (fun x => x + dl) (eq_sym Ea)))
             Hka0 Hka0'
             (or_introl (conj eq_refl (conj eq_refl Hf)))
             eq_refl Hmin_egr eq_refl Kdis eq_refl eq_refl eq_refl Hri Hgi) end.
Qed.

(* departure-time requests need no proviso *)
Corollary shift_calc_single_fwd d s p acc egr fresh :
  q_fwd p = true -> shift_dom d s p acc egr dl = true ->
  calc_single (shift_data dl d) (conn_set (shift_data dl d) s) (shift_params dl p) acc egr fresh =
  map_outcome shift_res (calc_single d (conn_set d s) p acc egr fresh).
Proof. intros Hf Hdom. apply shift_calc_single; [exact Hdom|apply shift_safe_fwd; exact Hf]. Qed.

(* ---------------------------------------------------------------------------------------------- *)
(* accessibility maps                                                                               *)

Lemma count_transfers_fwd_shift d steps steps' : (forall n, steps' n = sj (steps n)) ->
  forall fuel cur n,
    count_transfers_fwd fuel (shift_data dl d) steps' (sj cur) n = count_transfers_fwd fuel d steps cur n.
Proof.
  intros Hs. induction fuel as [|f IH]; intros cur n.
  - cbn [count_transfers_fwd shift_js js_enter js_exit]. destruct (js_enter cur), (js_exit cur); reflexivity.
  - cbn [count_transfers_fwd shift_js js_enter js_exit js_trip].
    destruct (js_enter cur) as [en|]; cbn [option_map]; [|reflexivity].
    destruct (js_exit cur) as [ex|]; cbn [option_map]; [|reflexivity].
    cbn [shift_conn c_from c_trip]. rewrite Hs, is_transferable_trip_shift. apply IH.
Qed.

Lemma fwd_allnodes_loop_shift d p k k' fs fs' :
  frel dl fs fs' -> k_dep k' = k_dep k + dl ->
  forall nodes,
    fwd_allnodes_loop (shift_data dl d) (shift_params dl p) k' fs' nodes =
    map_outcome (map (shift_accnode dl)) (fwd_allnodes_loop d p k fs nodes).
Proof.
  intros H Kdep. induction nodes as [|n r IH]; [reflexivity|].
  cbn [fwd_allnodes_loop]. rewrite (fr_egr _ _ _ H).
  destruct (f_egr fs n) as [j|]; cbn [option_map]; [|exact IH].
  change (REBUILD_FUEL (shift_data dl d)) with (REBUILD_FUEL d).
  rewrite (count_transfers_fwd_shift d (f_steps fs) (f_steps fs') (fr_steps _ _ _ H)).
  destruct (count_transfers_fwd (REBUILD_FUEL d) d (f_steps fs) j (-1)) as [ntr|]; [|reflexivity].
  rewrite IH.
  destruct (fwd_allnodes_loop d p k fs r) as [rest| | | | | | | |]; cbn [map_outcome bind]; try reflexivity.
  cbn [shift_js js_enter js_exit].
  destruct (js_enter j) as [en|]; cbn [option_map]; [|reflexivity].
  destruct (js_exit j) as [e|]; cbn [option_map]; [|reflexivity].
  cbn [shift_conn c_arr shift_params q_maxtt]. rewrite Kdep.
  replace (c_arr e + dl - (k_dep k + dl)) with (c_arr e - k_dep k) by lia.
  destruct (c_arr e - k_dep k <=? q_maxtt p); reflexivity.
Qed.

Lemma count_legs_shift d js : count_legs (shift_data dl d) (map sj js) = count_legs d js.
Proof.
  unfold count_legs. generalize (-1). induction js as [|j r IH]; intros n; [reflexivity|].
  cbn [map fold_left]. rewrite <- IH. f_equal.
  cbn [shift_js js_enter js_exit js_trip].
  destruct (js_enter j), (js_exit j), (js_trip j); cbn [option_map]; try reflexivity.
  rewrite is_transferable_trip_shift. reflexivity.
Qed.

Lemma rev_allnodes_loop_shift d p k k' st st' :
  rrel dl k p st st' -> rgood dl st -> k_arr k' = k_arr k + dl -> k_egrfp k' = k_egrfp k ->
  forall nodes,
    rev_allnodes_loop (shift_data dl d) (shift_params dl p) k' st' nodes =
    map_outcome (map (shift_accnode dl)) (rev_allnodes_loop d p k st nodes).
Proof.
  intros H Hgood Karr Kegr. induction nodes as [|n r IH]; [reflexivity|].
  cbn [rev_allnodes_loop]. rewrite (rr_acc _ _ _ _ _ H).
  destruct (r_acc st n) as [start|] eqn:Estart; cbn [option_map]; [|exact IH].
  change (REBUILD_FUEL (shift_data dl d)) with (REBUILD_FUEL d).
  pose proof (rebuild_shift2 dl (r_taur st) (r_steps st) (r_taur st') (r_steps st') (rr_node _ _ _ _ _ H)
                (rg_steps _ _ Hgood) (REBUILD_FUEL d) start [] None (rg_acc _ _ Hgood _ _ Estart)) as Hr.
  cbn [map] in Hr. rewrite Hr.
  destruct (rebuild (REBUILD_FUEL d) (r_steps st) start [] None) as [[legs last]|];
    cbn [option_map shift_legs fst snd]; [|reflexivity].
  destruct last as [ln|]; [|reflexivity].
  rewrite Kegr. destruct (row_of ln (k_egrfp k)) as [er|]; [|reflexivity].
  rewrite OPT_FUEL_shift.
  replace (map sj legs ++ [walk_step er]) with (map sj (legs ++ [walk_step er]))
    by (rewrite map_app; reflexivity).
  rewrite optimize_shift.
  destruct (optimize (OPT_FUEL d) d (legs ++ [walk_step er]) [] []) as [js1 used| |];
    cbn [shift_opt]; [|reflexivity|reflexivity].
  rewrite IH.
  destruct (rev_allnodes_loop d p k st r) as [rest| | | | | | | |]; cbn [map_outcome bind]; try reflexivity.
  cbn [shift_js js_enter].
  destruct (js_enter start) as [b|]; cbn [option_map]; [|reflexivity].
  rewrite minw_eff_shift, count_legs_shift. cbn [shift_conn c_dep shift_params q_maxtt]. rewrite Karr.
  change (minw_eff (shift_params dl p) b) with (minw_eff p b).
  replace (k_arr k + dl - (c_dep b + dl - minw_eff p b)) with (k_arr k - (c_dep b - minw_eff p b)) by lia.
  destruct (k_arr k - (c_dep b - minw_eff p b) <=? q_maxtt p); reflexivity.
Qed.

Definition shift_acc_res (x : list accnode * Z) : list accnode * Z :=
  let '(l, total) := x in (map (shift_accnode dl) l, total).

Theorem shift_calc_allnodes d s p rows :
  shift_dom d s p (if q_fwd p then rows else []) (if q_fwd p then [] else rows) dl = true ->
  calc_allnodes (shift_data dl d) (conn_set (shift_data dl d) s) (shift_params dl p) rows =
  map_outcome shift_acc_res (calc_allnodes d (conn_set d s) p rows).
Proof.
  intros Hdom. pose proof (shift_safe_nil d s p) as Hsafe. unfold calc_allnodes.
  change (q_fwd (shift_params dl p)) with (q_fwd p).
  change (d_nodes (shift_data dl d)) with (d_nodes d).
  destruct (q_fwd p) eqn:Hf.
  - destruct (shift_dom_req d s p rows [] Hdom) as (Hminw & Ht & Ht' & Haccrows & _).
    unfold CLOCK_MAX in Ht, Ht'.
    destruct (access_reason (nonempty rows) true); [reflexivity|]. cbv zeta.
    set (k := mk_calc d p (conn_set d s) rows [] true false).
    set (k' := mk_calc (shift_data dl d) (shift_params dl p) (conn_set (shift_data dl d) s) rows [] true false).
    assert (Kdis : forall t, k_disabled k' t = k_disabled k t).
    { intros t. unfold k, k', mk_calc. cbn [k_disabled]. apply disabled_of_shift. apply cs_trips_shift. }
    assert (Hmin_acc : 0 <= min_time rows) by (apply min_time_nonneg; exact Haccrows).
    assert (Ek : k_dep k = q_time p) by (unfold k, mk_calc; cbn [k_dep]; rewrite Hf; reflexivity).
    assert (Ek' : k_dep k' = q_time p + dl)
      by (unfold k', mk_calc; cbn [k_dep shift_params q_fwd q_time]; rewrite Hf; reflexivity).
    replace (k_dep k >? -1) with true by (symmetry; apply Z.gtb_lt; lia).
    replace (k_dep k' >? -1) with true by (symmetry; apply Z.gtb_lt; lia).
    assert (Hinit : frel dl (fwd_init k) (fwd_init k')).
    { unfold k, k', mk_calc, fwd_init.
      constructor; cbn [f_tau f_steps f_ov f_egr f_count f_reached f_tent f_stop
                        k_tau k_fsteps k_ov shift_params q_fwd q_time]; try reflexivity.
      - intros n. rewrite Hf. apply seed_tau_rel.
      - intros n. apply seed_steps_sj.
      - intros n j e E. discriminate.
      - left. auto. }
    destruct (fwd_scan_sim d s p rows [] k k' true Hdom eq_refl eq_refl ltac:(lia) ltac:(lia) ltac:(lia)
                eq_refl Hmin_acc eq_refl Kdis eq_refl eq_refl Hinit) as (fs & fs' & E1 & E2 & Hrel & _).
    rewrite E1, E2. cbn [bind]. rewrite (fr_count _ _ _ Hrel).
    destruct (f_count fs =? 0); [reflexivity|].
    rewrite (fwd_allnodes_loop_shift d p k k' fs fs' Hrel) by lia.
    destruct (fwd_allnodes_loop d p k fs (d_nodes d)); reflexivity.
  - destruct (shift_dom_req d s p [] rows Hdom) as (Hminw & Ht & Ht' & _ & Hegrrows).
    unfold CLOCK_MAX in Ht, Ht'.
    destruct (access_reason true (nonempty rows)); [reflexivity|]. cbv zeta.
    set (k0 := mk_calc d p (conn_set d s) [] rows false true).
    set (k0' := mk_calc (shift_data dl d) (shift_params dl p) (conn_set (shift_data dl d) s) [] rows false true).
    assert (Kdis : forall t, k_disabled k0' t = k_disabled k0 t).
    { intros t. unfold k0, k0', mk_calc. cbn [k_disabled]. apply disabled_of_shift. apply cs_trips_shift. }
    assert (Hmin_egr : 0 <= min_time rows) by (apply min_time_nonneg; intros r Hr; apply Hegrrows; exact Hr).
    assert (Ea : k_arr k0 = q_time p) by (unfold k0, mk_calc; cbn [k_arr]; rewrite Hf; reflexivity).
    assert (Ea' : k_arr k0' = q_time p + dl)
      by (unfold k0', mk_calc; cbn [k_arr shift_params q_fwd q_time]; rewrite Hf; reflexivity).
    cbn [with_rev k_arr].
    replace (k_arr k0 >? -1) with true by (symmetry; apply Z.gtb_lt; lia).
    replace (k_arr k0' >? -1) with true by (symmetry; apply Z.gtb_lt; lia).
    assert (Hri : rrel dl (with_rev k0 (k_arr k0) (-1) (k_taur k0) (set_usable (k_ov k0))) p
                    (rev_init (with_rev k0 (k_arr k0) (-1) (k_taur k0) (set_usable (k_ov k0))))
                    (rev_init (with_rev k0' (k_arr k0') (-1) (k_taur k0') (set_usable (k_ov k0'))))).
    { unfold rev_init, with_rev.
      constructor; cbn [r_taur r_steps r_ov r_acc r_count r_reached r_tent r_stop
                        k_taur k_rsteps k_ov]; try reflexivity.
      * intros n. apply node_rel_of_Rtaur.
        -- unfold k0, k0', mk_calc. cbn [k_taur shift_params q_fwd q_time]. rewrite Hf. apply seed_taur_rel.
        -- unfold k0, k0', mk_calc. cbn [k_rsteps]. apply seed_steps_sj.
      * intros n j b ar E. discriminate.
      * discriminate. }
    assert (Hgi : rgood dl (rev_init (with_rev k0 (k_arr k0) (-1) (k_taur k0) (set_usable (k_ov k0))))).
    { unfold rev_init, with_rev. constructor; cbn [r_taur r_steps r_ov r_acc k_rsteps k_ov].
      * intros n e E. unfold k0, mk_calc in E. cbn [k_rsteps] in E. rewrite seed_steps_exit in E. discriminate.
      * intros n j E. discriminate.
      * intros t e E. discriminate. }
    assert (Hka0 : 0 <= k_arr k0) by lia. assert (Hka0' : 0 <= k_arr k0') by lia.
    destruct (rev_scan_sim d s p [] rows
                (with_rev k0 (k_arr k0) (-1) (k_taur k0) (set_usable (k_ov k0)))
                (with_rev k0' (k_arr k0') (-1) (k_taur k0') (set_usable (k_ov k0'))) true
                Hdom Hsafe eq_refl eq_refl
                (eq_trans Ea' (f_equal (fun x => x + dl) (eq_sym Ea))) Hka0 Hka0'
                (or_introl (conj eq_refl (conj eq_refl Hf)))
                eq_refl Hmin_egr eq_refl Kdis eq_refl eq_refl Hri Hgi) as (st & st' & E1 & E2 & Hrel & Hg).
    rewrite E1, E2. cbn [bind]. rewrite (rr_count _ _ _ _ _ Hrel).
    destruct (r_count st =? 0); [reflexivity|].
    rewrite (rev_allnodes_loop_shift d p
               (with_rev k0 (k_arr k0) (-1) (k_taur k0) (set_usable (k_ov k0)))
               (with_rev k0' (k_arr k0') (-1) (k_taur k0') (set_usable (k_ov k0'))) st st' Hrel Hg
               (eq_trans Ea' (f_equal (fun x => x + dl) (eq_sym Ea))) eq_refl).
    destruct (rev_allnodes_loop d p _ st (d_nodes d)); reflexivity.
Qed.

(* ---------------------------------------------------------------------------------------------- *)
(* alternatives: the re-calculations differ from the first one in max_travel_time and in the excepted
   lines only, both derived from durations and line ids                                             *)

Definition shift_alt (st : alt_st) : alt_st :=
  {| a_routes := map (shift_route dl) (a_routes st); a_all := a_all st; a_failed := a_failed st;
     a_calculated := a_calculated st; a_found := a_found st; a_seq := a_seq st; a_count := a_count st |}.

Lemma route_lines_shift d r : route_lines (shift_data dl d) (shift_route dl r) = route_lines d r.
Proof.
  unfold route_lines. cbn [shift_route rt_steps].
  induction (rt_steps r) as [|x l IH]; [reflexivity|].
  cbn [map flat_map]. rewrite IH. f_equal.
  destruct x as [kind tr dist dep arr rdy|t ls ss n dep w|t ls ss n arr ivt ivd]; cbn [shift_step]; try reflexivity.
  rewrite find_trip_shift. destruct (find_trip d t); reflexivity.
Qed.

Lemma alt_maxtt_shift p r : alt_maxtt (shift_params dl p) (shift_route dl r) = alt_maxtt p r.
Proof.
  unfold alt_maxtt. cbn [shift_params q_fwd q_time q_maxtt shift_route rt_dep rt_ttt].
  replace (rt_dep r + dl - (q_time p + dl)) with (rt_dep r - q_time p) by lia. reflexivity.
Qed.

Lemma push_combs_shift found comb : forall st,
  push_combs (shift_alt st) found comb = shift_alt (push_combs st found comb).
Proof.
  unfold push_combs. generalize (all_combs found) as l.
  induction l as [|nc0 l IH]; intros st; [reflexivity|].
  cbn [fold_left]. rewrite <- IH. f_equal.
  cbn [shift_alt a_calculated a_failed a_all a_routes a_found a_seq a_count].
  destruct (mem_list (sort_nat (nc0 ++ comb)) (a_calculated st)); reflexivity.
Qed.

Definition alt_next (d : data) (st : alt_st) (comb : list nat) (r : route) : alt_st :=
  let fl := sort_nat (route_lines d r) in
  let st1 :=
    if nonempty fl && negb (mem_list fl (a_found st)) then
      let s1 := {| a_routes := a_routes st ++ [r]; a_all := a_all st; a_failed := a_failed st;
                   a_calculated := a_calculated st; a_found := a_found st ++ [fl];
                   a_seq := a_seq st; a_count := a_count st |} in
      let s2 := push_combs s1 fl comb in
      {| a_routes := a_routes s2; a_all := a_all s2; a_failed := a_failed s2;
         a_calculated := a_calculated s2; a_found := a_found s2;
         a_seq := a_seq s2 + 1; a_count := a_count s2 |}
    else st in
  {| a_routes := a_routes st1; a_all := a_all st1; a_failed := a_failed st1;
     a_calculated := a_calculated st1; a_found := a_found st1;
     a_seq := a_seq st1; a_count := a_count st1 + 1 |}.
Definition alt_fail (st : alt_st) (comb : list nat) : alt_st :=
  {| a_routes := a_routes st; a_all := a_all st; a_failed := a_failed st ++ [comb];
     a_calculated := a_calculated st; a_found := a_found st;
     a_seq := a_seq st; a_count := a_count st + 1 |}.

Lemma alt_loop_S f d cs p altp acc egr base_ex st i :
  alt_loop (S f) d cs p altp acc egr base_ex st i =
  match nth_error (a_all st) i with
  | None => Ok st
  | Some comb =>
      if (a_count st <? MAX_ALTERNATIVES) && (a_seq st - 1 <? MAX_VALID_ALTERNATIVES) then
        match calc_single d cs (with_alt p altp (base_ex ++ comb)) acc egr false with
        | Ok (r, _) => alt_loop f d cs p altp acc egr base_ex (alt_next d st comb r) (S i)
        | NoRouting _ => alt_loop f d cs p altp acc egr base_ex (alt_fail st comb) (S i)
        | ParamErr c => ParamErr c
        | DataErr c => DataErr c
        | Exn t => Exn t
        | NoReply => NoReply
        | Crash => Crash
        | UB t => UB t
        | Hang => Hang
        end
      else Ok st
  end.
Proof. reflexivity. Qed.

Lemma alt_next_shift d st comb r :
  alt_next (shift_data dl d) (shift_alt st) comb (shift_route dl r) = shift_alt (alt_next d st comb r).
Proof.
  unfold alt_next. rewrite route_lines_shift. cbv zeta.
  cbn [shift_alt a_found].
  destruct (nonempty (sort_nat (route_lines d r)) && negb (mem_list (sort_nat (route_lines d r)) (a_found st)));
    [|reflexivity].
  replace {| a_routes := a_routes (shift_alt st) ++ [shift_route dl r]; a_all := a_all (shift_alt st);
             a_failed := a_failed (shift_alt st); a_calculated := a_calculated (shift_alt st);
             a_found := a_found st ++ [sort_nat (route_lines d r)]; a_seq := a_seq (shift_alt st);
             a_count := a_count (shift_alt st) |}
    with (shift_alt {| a_routes := a_routes st ++ [r]; a_all := a_all st; a_failed := a_failed st;
                       a_calculated := a_calculated st; a_found := a_found st ++ [sort_nat (route_lines d r)];
                       a_seq := a_seq st; a_count := a_count st |})
    by (unfold shift_alt; cbn [a_routes a_all a_failed a_calculated a_found a_seq a_count];
        rewrite map_app; reflexivity).
  rewrite push_combs_shift. reflexivity.
Qed.

Lemma alt_loop_shift d cs cs' p altp acc egr base_ex :
  (forall m ex, calc_single (shift_data dl d) cs' (with_alt (shift_params dl p) m ex) acc egr false =
                map_outcome shift_res (calc_single d cs (with_alt p m ex) acc egr false)) ->
  forall fuel st i,
    alt_loop fuel (shift_data dl d) cs' (shift_params dl p) altp acc egr base_ex (shift_alt st) i =
    map_outcome shift_alt (alt_loop fuel d cs p altp acc egr base_ex st i).
Proof.
  intros Hcs. induction fuel as [|f IH]; intros st i; [reflexivity|].
  rewrite !alt_loop_S. cbn [shift_alt a_all a_count a_seq].
  destruct (nth_error (a_all st) i) as [comb|]; [|reflexivity].
  destruct ((a_count st <? MAX_ALTERNATIVES) && (a_seq st - 1 <? MAX_VALID_ALTERNATIVES)); [|reflexivity].
  rewrite Hcs.
  destruct (calc_single d cs (with_alt p altp (base_ex ++ comb)) acc egr false) as [[r used]| | | | | | | |];
    cbn [map_outcome shift_res]; try reflexivity.
  - rewrite alt_next_shift. apply IH.
  - change (alt_fail (shift_alt st) comb) with (shift_alt (alt_fail st comb)). apply IH.
Qed.

Definition shift_alt_res (x : list route * Z) : list route * Z :=
  let '(rs, n) := x in (map (shift_route dl) rs, n).

Theorem shift_alternatives d s p acc egr :
  shift_dom d s p acc egr dl = true -> shift_safe d s p acc dl = true ->
  alternatives (shift_data dl d) (conn_set (shift_data dl d) s) (shift_params dl p) acc egr =
  map_outcome shift_alt_res (alternatives d (conn_set d s) p acc egr).
Proof.
  intros Hdom Hsafe. unfold alternatives. generalize ALT_FUEL as fuel. intros fuel.
  rewrite (shift_calc_single d s p acc egr true Hdom Hsafe).
  destruct (calc_single d (conn_set d s) p acc egr true) as [[r used]| | | | | | | |];
    cbn [map_outcome bind shift_res fst]; try reflexivity.
  rewrite alt_maxtt_shift, route_lines_shift.
  change (q_except_lines (shift_params dl p)) with (q_except_lines p).
  match goal with |- bind (alt_loop _ _ _ _ _ _ _ _ ?st0' _) _ = map_outcome _ (bind (alt_loop _ _ _ _ _ _ _ _ ?st0 _) _) =>
    change st0' with (shift_alt st0) end.
  rewrite (alt_loop_shift d (conn_set d s) (conn_set (shift_data dl d) s) p).
  - match goal with |- bind (map_outcome _ ?o) _ = _ => destruct o as [st| | | | | | | |] end; reflexivity.
  - intros m ex. apply (shift_calc_single d s (with_alt p m ex) acc egr false); assumption.
Qed.
End Assembly.

(* ---------------------------------------------------------------------------------------------- *)
(* the domain hypothesis follows from the well-formedness predicates of Spec.v on both datasets       *)

Tactic Notation "peelS" hyp(H) ident(W) := apply andb_prop in H; destruct H as [H W].

Lemma times_ok_at : forall l k s, times_ok l = true -> nth_error l k = Some s ->
  0 <= st_arr s /\ st_arr s <= st_dep s /\ st_dep s < CLOCK_MAX.
Proof.
  induction l as [|s0 l IH]; intros k s H Hk; [destruct k; discriminate|].
  cbn [times_ok] in H. peelS H Hr. peelS H H4. peelS H H3. peelS H H2.
  destruct k as [|k]; cbn [nth_error] in Hk.
  - injection Hk as <-. apply Z.leb_le in H, H2. apply Z.ltb_lt in H3. lia.
  - apply (IH k s Hr Hk).
Qed.

Lemma wf_conn_facts d c : wf_data_b d = true -> In c (all_conns d) ->
  0 <= c_dep c < CLOCK_MAX /\ 0 <= c_arr c < CLOCK_MAX /\ In (c_from c) (d_nodes d) /\ In (c_to c) (d_nodes d).
Proof.
  intros Hwf Hc. destruct (all_conns_in d c Hc) as (tr & Htr & Hin).
  destruct (RevInv.wf_trip d Hwf tr Htr) as (pth & Hp & _ & Ht).
  apply In_nth_error in Hin. destruct Hin as (k & Hk). unfold trip_conns in Hk.
  pose proof (mk_conns_from _ _ _ _ _ _ _ Hk) as Hfrom.
  destruct (mk_conns_nth _ _ _ _ _ _ _ Hk) as (_ & _ & _ & Hto & s0 & s1 & H0 & H1 & Hd & Ha).
  destruct (times_ok_at _ _ _ Ht H0) as (A0 & B0 & C0). destruct (times_ok_at _ _ _ Ht H1) as (A1 & B1 & C1).
  assert (Hnodes : forall n, In n (trip_nodes d tr) -> In n (d_nodes d)).
  { unfold trip_nodes. rewrite Hp. intros n Hn.
    apply wf_data_parts in Hwf. destruct Hwf as (_ & _ & W & _).
    unfold find_path in Hp. apply find_some in Hp. destruct Hp as [Hpin _].
    rewrite forallb_forall in W. specialize (W pth Hpin). peelS W W3. peelS W W2.
    rewrite forallb_forall in W2. apply memb_In. apply W2. exact Hn. }
  split; [lia|]. split; [lia|]. split; apply Hnodes; eapply nth_error_In; eassumption.
Qed.

Lemma wf_fp_bounds d n r : wf_data_b d = true -> In n (d_nodes d) ->
  (In r (fp_of d n) -> 0 <= fp_time r < 32768) /\ (In r (rfp_of d n) -> 0 <= fp_time r < 32768).
Proof.
  intros Hwf Hn. apply wf_data_parts in Hwf. destruct Hwf as (_ & W & _ & _).
  unfold footpaths_ok in W. rewrite forallb_forall in W. specialize (W n Hn).
  peelS W F8. peelS W F7. peelS W F6. peelS W F5. peelS W F4. peelS W F3. peelS W F2.
  unfold rows_ok in W, F2. rewrite forallb_forall in W, F2.
  split; intros Hr; [specialize (W r Hr); rename W into X|specialize (F2 r Hr); rename F2 into X];
    peelS X X4; peelS X X3; peelS X X2; apply Z.leb_le in X2; apply Z.ltb_lt in X3; lia.
Qed.

Lemma clock_ok_intro x : 0 <= x < CLOCK_MAX -> clock_ok x = true.
Proof. intros H. unfold clock_ok. apply andb_true_intro. split; [apply Z.leb_le|apply Z.ltb_lt]; lia. Qed.

Theorem wf_shift_dom dl d s p acc egr :
  wf_data_b d = true -> wf_data_b (shift_data dl d) = true ->
  wf_tables_b d p acc egr = true -> wf_params_b p = true -> wf_params_b (shift_params dl p) = true ->
  shift_dom d s p acc egr dl = true.
Proof.
  intros Hwf Hwf' Htab Hp Hp'.
  unfold wf_params_b in Hp, Hp'. cbn [shift_params q_time q_minw] in Hp'.
  peelS Hp P8. peelS Hp P7. peelS Hp P6. peelS Hp P5. peelS Hp P4. peelS Hp P3. peelS Hp P2.
  peelS Hp' Q8. peelS Hp' Q7. peelS Hp' Q6. peelS Hp' Q5. peelS Hp' Q4. peelS Hp' Q3. peelS Hp' Q2.
  unfold wf_tables_b in Htab. peelS Htab T6. peelS Htab T5. peelS Htab T4. peelS Htab T3. peelS Htab T2.
  unfold rows_ok in Htab, T2. rewrite forallb_forall in Htab, T2.
  unfold shift_dom. repeat (apply andb_true_intro; split); try assumption.
  - apply forallb_forall. intros c Hc.
    assert (Hall : In c (all_conns d)).
    { unfold conn_set, mk_connset, sorted_fwd in Hc. cbn [cs_fwd] in Hc.
      apply filter_In in Hc. destruct Hc as [Hc _]. apply in_isort in Hc. exact Hc. }
    destruct (wf_conn_facts d c Hwf Hall) as (C1 & C2 & C3 & C4).
    assert (Hall' : In (shift_conn dl c) (all_conns (shift_data dl d))) by (rewrite all_conns_shift; apply in_map; exact Hall).
    destruct (wf_conn_facts _ _ Hwf' Hall') as (C1' & C2' & _ & _). cbn [shift_conn c_dep c_arr] in C1', C2'.
    repeat (apply andb_true_intro; split); try (apply Z.leb_le; lia); try (apply Z.ltb_lt; lia).
    + apply forallb_forall. intros r Hr. apply Z.ltb_lt.
      destruct (wf_fp_bounds d (c_to c) r Hwf C4) as [B1 _]. apply B1 in Hr. lia.
    + apply forallb_forall. intros r Hr. apply Z.leb_le.
      destruct (wf_fp_bounds d (c_from c) r Hwf C3) as [_ B2]. apply B2 in Hr. lia.
  - apply forallb_forall. intros r Hr. specialize (Htab r Hr). peelS Htab X4. peelS Htab X3. peelS Htab X2. exact X2.
  - apply forallb_forall. intros r Hr. specialize (T2 r Hr). peelS T2 X4. peelS T2 X3. peelS T2 X2.
    rewrite X2, X3. reflexivity.
Qed.

(* C12 for calculateSingle in the vocabulary of the property: well-formed data, tables and request before
   and after the shift, and the proviso *)
Corollary C12_calc_single dl d s p acc egr fresh :
  wf_data_b d = true -> wf_data_b (shift_data dl d) = true ->
  wf_tables_b d p acc egr = true -> wf_params_b p = true -> wf_params_b (shift_params dl p) = true ->
  shift_safe d s p acc dl = true ->
  calc_single (shift_data dl d) (conn_set (shift_data dl d) s) (shift_params dl p) acc egr fresh =
  map_outcome (shift_res dl) (calc_single d (conn_set d s) p acc egr fresh).
Proof.
  intros Hwf Hwf' Htab Hp Hp' Hsafe. apply shift_calc_single; [|exact Hsafe].
  apply wf_shift_dom; assumption.
Qed.

Print Assumptions shift_calc_single.
Print Assumptions shift_calc_allnodes.
Print Assumptions shift_alternatives.
Print Assumptions wf_shift_dom.
Print Assumptions C12_calc_single.

(* non-vacuity: the hypotheses hold on the example data for a shift of +1 h and of -30 min, in both
   directions, the answer is a route, and the two sides agree *)
From TrV Require Import Examples.
Example shift_calc_single_ex :
  (shift_dom ex_data scen_all (ex_params true 35000) ex_acc ex_egr 3600 = true /\
   shift_safe ex_data scen_all (ex_params true 35000) ex_acc 3600 = true /\
   shift_dom ex_data scen_all (ex_params false 37000) ex_acc ex_egr (-1800) = true /\
   shift_safe ex_data scen_all (ex_params false 37000) ex_acc (-1800) = true) /\
  calc_single (shift_data 3600 ex_data) (conn_set (shift_data 3600 ex_data) scen_all)
              (shift_params 3600 (ex_params true 35000)) ex_acc ex_egr true =
  map_outcome (shift_res 3600) (calc_single ex_data (conn_set ex_data scen_all) (ex_params true 35000) ex_acc ex_egr true) /\
  calc_single (shift_data (-1800) ex_data) (conn_set (shift_data (-1800) ex_data) scen_all)
              (shift_params (-1800) (ex_params false 37000)) ex_acc ex_egr true =
  map_outcome (shift_res (-1800)) (calc_single ex_data (conn_set ex_data scen_all) (ex_params false 37000) ex_acc ex_egr true) /\
  match calc_single (shift_data 3600 ex_data) (conn_set (shift_data 3600 ex_data) scen_all)
              (shift_params 3600 (ex_params true 35000)) ex_acc ex_egr true with
  | Ok (r, _) => rt_dep r = 39440 /\ rt_arr r = 40350 /\ rt_nboard r = 2
  | _ => False
  end.
Proof. vm_compute. repeat split; reflexivity. Qed.

(* the accessibility maps and the alternatives on the example data, both directions *)
Example shift_allnodes_alternatives_ex :
  shift_dom ex_data scen_all (ex_params true 35000) ex_acc [] 3600 = true /\
  shift_dom ex_data scen_all (ex_params false 37000) [] ex_egr (-1800) = true /\
  shift_safe ex_data scen_all (ex_params false 37000) [] (-1800) = true /\
  calc_allnodes (shift_data 3600 ex_data) (conn_set (shift_data 3600 ex_data) scen_all)
                (shift_params 3600 (ex_params true 35000)) ex_acc =
  map_outcome (shift_acc_res 3600) (calc_allnodes ex_data (conn_set ex_data scen_all) (ex_params true 35000) ex_acc) /\
  calc_allnodes (shift_data (-1800) ex_data) (conn_set (shift_data (-1800) ex_data) scen_all)
                (shift_params (-1800) (ex_params false 37000)) ex_egr =
  map_outcome (shift_acc_res (-1800)) (calc_allnodes ex_data (conn_set ex_data scen_all) (ex_params false 37000) ex_egr) /\
  match calc_allnodes ex_data (conn_set ex_data scen_all) (ex_params true 35000) ex_acc,
        calc_allnodes ex_data (conn_set ex_data scen_all) (ex_params false 37000) ex_egr with
  | Ok (l1, _), Ok (l2, _) => (length l1 >= 2)%nat /\ (length l2 >= 2)%nat
  | _, _ => False
  end /\
  alternatives (shift_data 3600 ex_data) (conn_set (shift_data 3600 ex_data) scen_all)
               (shift_params 3600 (ex_params true 35000)) ex_acc ex_egr =
  map_outcome (shift_alt_res 3600) (alternatives ex_data (conn_set ex_data scen_all) (ex_params true 35000) ex_acc ex_egr) /\
  match alternatives ex_data (conn_set ex_data scen_all) (ex_params true 35000) ex_acc ex_egr with
  | Ok (rs, _) => (length rs >= 1)%nat
  | _ => False
  end.
Proof. vm_compute. repeat split; try reflexivity; lia. Qed.

(* THE PROVISO IS NEEDED (part b).  One vehicle leaves stop 1 at 0:01:40; the access walk takes 100 s and the
   minimum waiting time is 60 s, so an arrival-time request has to leave the origin at -60 s: best_access
   rejects it (`t >=? 0`) and the answer is NO_ROUTING_FOUND.  Move everything by +100 s: the same journey
   leaves at +40 s and is reported.  Every clock value of both datasets, of both requests and of the one
   reported route lies in [0, 32 h); wf_data_b, wf_tables_b and wf_params_b hold before and after; only
   shift_safe fails — and the status differs.  (The unshifted "answer" would leave at -60 s: the property's
   clause "both answers stay in range" has to be read as covering the candidate departure times too.) *)
Definition px_data : data :=
  {| d_nodes := [1; 2]%nat;
     d_fp := [(1%nat, [row 1 0 0]); (2%nat, [row 2 0 0])];
     d_rfp := [(1%nat, [row 1 0 0]); (2%nat, [row 2 0 0])];
     d_lines := [{| l_id := 1; l_agency := 1; l_mode := 1 |}];
     d_paths := [{| p_id := 1; p_line := 1; p_nodes := [1; 2]%nat; p_dists := [500] |}];
     d_trips := [{| t_id := 1; t_path := 1; t_service := 1; t_times := [st 100 100; st 400 400] |}];
     d_scenarios := [scen_all] |}.
Definition px_acc : list fprow := [row 1 100 120].
Definition px_egr : list fprow := [row 2 50 60].

Example shift_proviso_needed :
  wf_data_b px_data = true /\ wf_data_b (shift_data 100 px_data) = true /\
  wf_tables_b px_data (ex_params false 1000) px_acc px_egr = true /\
  wf_params_b (ex_params false 1000) = true /\ wf_params_b (shift_params 100 (ex_params false 1000)) = true /\
  shift_dom px_data scen_all (ex_params false 1000) px_acc px_egr 100 = true /\
  shift_safe px_data scen_all (ex_params false 1000) px_acc 100 = false /\
  calc_single px_data (conn_set px_data scen_all) (ex_params false 1000) px_acc px_egr true
    = NoRouting R_NO_ROUTING_FOUND /\
  match calc_single (shift_data 100 px_data) (conn_set (shift_data 100 px_data) scen_all)
                    (shift_params 100 (ex_params false 1000)) px_acc px_egr true with
  | Ok (r, _) => rt_dep r = 40 /\ rt_arr r = 550
  | _ => False
  end.
Proof. vm_compute. repeat split; reflexivity. Qed.

(* ... and a shift that keeps the negative time negative (+10 s) satisfies the proviso: both sides answer
   NO_ROUTING_FOUND, as shift_calc_single says *)
Example shift_proviso_same_side :
  shift_dom px_data scen_all (ex_params false 1000) px_acc px_egr 10 = true /\
  shift_safe px_data scen_all (ex_params false 1000) px_acc 10 = true /\
  calc_single (shift_data 10 px_data) (conn_set (shift_data 10 px_data) scen_all)
              (shift_params 10 (ex_params false 1000)) px_acc px_egr true = NoRouting R_NO_ROUTING_FOUND.
Proof. vm_compute. repeat split; reflexivity. Qed.

(* a reverse-scan ready time that changes sign under the shift (stop 3 walks 120 s to stop 1, the vehicle leaves
   stop 1 at 100 s, minimum waiting 60 s: ready at stop 3 = -80 s, +20 s after a shift of 100 s) is NOT excluded by
   the proviso: the label of stop 3 is "junk" on both sides (node_rel) and the answers agree *)
Definition jx_data : data :=
  {| d_nodes := [1; 2; 3; 4]%nat;
     d_fp := [(1%nat, [row 1 0 0]); (2%nat, [row 2 0 0]); (3%nat, [row 3 0 0; row 1 120 100]); (4%nat, [row 4 0 0])];
     d_rfp := [(1%nat, [row 1 0 0; row 3 120 100]); (2%nat, [row 2 0 0]); (3%nat, [row 3 0 0]); (4%nat, [row 4 0 0])];
     d_lines := [{| l_id := 1; l_agency := 1; l_mode := 1 |}; {| l_id := 2; l_agency := 1; l_mode := 1 |}];
     d_paths := [{| p_id := 1; p_line := 1; p_nodes := [1; 2]%nat; p_dists := [500] |};
                 {| p_id := 2; p_line := 2; p_nodes := [4; 3]%nat; p_dists := [500] |}];
     d_trips := [{| t_id := 1; t_path := 1; t_service := 1; t_times := [st 100 100; st 400 400] |};
                 {| t_id := 2; t_path := 2; t_service := 1; t_times := [st 0 0; st 10 10] |}];
     d_scenarios := [scen_all] |}.

Example shift_junk_label_ex :
  wf_data_b jx_data = true /\ wf_data_b (shift_data 100 jx_data) = true /\
  shift_dom jx_data scen_all (ex_params true 0) [row 1 0 0] [row 2 50 60] 100 = true /\
  shift_dom jx_data scen_all (ex_params false 1000) [row 1 0 0] [row 2 50 60] 100 = true /\
  shift_safe jx_data scen_all (ex_params false 1000) [row 1 0 0] 100 = true /\
  calc_single (shift_data 100 jx_data) (conn_set (shift_data 100 jx_data) scen_all)
              (shift_params 100 (ex_params true 0)) [row 1 0 0] [row 2 50 60] true =
  map_outcome (shift_res 100)
    (calc_single jx_data (conn_set jx_data scen_all) (ex_params true 0) [row 1 0 0] [row 2 50 60] true) /\
  calc_single (shift_data 100 jx_data) (conn_set (shift_data 100 jx_data) scen_all)
              (shift_params 100 (ex_params false 1000)) [row 1 0 0] [row 2 50 60] true =
  map_outcome (shift_res 100)
    (calc_single jx_data (conn_set jx_data scen_all) (ex_params false 1000) [row 1 0 0] [row 2 50 60] true) /\
  match calc_single jx_data (conn_set jx_data scen_all) (ex_params false 1000) [row 1 0 0] [row 2 50 60] true with
  | Ok (r, _) => rt_dep r = 40 /\ rt_arr r = 450
  | _ => False
  end.
Proof. vm_compute. repeat split; reflexivity. Qed.

(* OPEN: nothing of the task is left open.  Remarks:
   - shift_safe is a STATIC over-approximation of what the proof needs (the sign condition for the access
     candidates that the reverse scan actually stores); a dynamic statement would be weaker still, but by
     shift_proviso_needed some condition of this kind is necessary for arrival-time requests.
   - The hour tables (cs_fidx / cs_ridx) of the two connection sets differ; they are bypassed through
     C12_index_fwd and rev_scan_whole (C12_index_rev extended to arrival clocks >= 32 h, which the reverse
     half of a departure-time query can reach: best arrival = vehicle arrival + egress walk). *)
